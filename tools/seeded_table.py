#!/usr/bin/env python3
"""print the markdown table of /verif/seeded/*/meta.json for DESIGN.md section 12"""
import json, os, glob
rows = []
for m in sorted(glob.glob("/verif/seeded/*/meta.json")):
    d = json.load(open(m))
    what = (d.get("what_it_breaks") or "").strip().replace("\n", " ")
    needs = (d.get("needs_to_manifest") or "").strip().replace("\n", " ")
    if len(what) > 230: what = what[:227] + "…"
    if len(needs) > 200: needs = needs[:197] + "…"
    res = []
    for p, r in sorted(d.get("checks_run_against_it", {}).items()):
        concrete = any(l.startswith("VIOLATION") and "no-failing-input-found" not in l for l in r["lines"])
        res.append("%s: %s" % (p, "**caught** (input replay)" if concrete else ("caught (no input)" if r["exit"] else "MISSED")))
    rows.append("| %s | %s | %s | %s | %s |" % (d["id"], d["property"], what, needs, "; ".join(res) if d.get("confirmed_by_me") else "not confirmed"))
print("| id | property | change | needs to manifest | result |\n|---|---|---|---|---|")
print("\n".join(rows))
