#!/usr/bin/env python3
"""tools/gen_pes.py — statement-level Rust -> Lean translation of the PES header acceptance logic of
/repo/src/pes.rs:

  PesHeader::from_bytes, PesHeader::contents, PesParsedContents::from_bytes

(the decisions "is this a PES header", "are its contents parsed", "is the optional header consistent
with PES_header_data_length and the buffer" — C14's rejection clause).  Built on the value-function
translator of tools/gen_packet.py, extended with `<< >> & |` (Rust precedence), `uN::from(e)`,
struct literals `T { buf }` (a view of the same slice), `PesContents::{Parsed, Payload}`, and the
accessors `pes_header_data_len()` / `pes_crc_end()` (mapped to the model's `Pes.hdl` /
`Pes.flagsByte` + `Pes.crcEnd`, whose offset chain is translated and tied separately by
tools/gen_exprs.py, `tie_expr_pes_ends`) and `stream_id().is_parsed()` (`Pes.isParsed`, tied to the
source's table by `isParsed_table`).
Anything else raises ParseError: the recorded translation (tools/gen_defaults.json, key "pes") is
written instead, the header says so, and the logic is tied through the correspondence only.

Output: lean/Ts/Gen/PesGen.lean; `Ts/Props/Ties/StmtPes.lean` proves the translated functions equal
to the model's `Pes.headerFromBytes / parsedFromBytes / contents`.
"""
import json, os, re, sys

sys.path.insert(0, os.path.dirname(os.path.abspath(__file__)))
from gen_psi import tokenize, match_brace, ParseError, strip  # noqa: E402
import gen_packet  # noqa: E402

REPO = os.environ.get("VERIF_REPO", "/repo")
HERE = os.path.dirname(os.path.abspath(__file__))
OUT = os.environ.get("VERIF_GEN_PES_OUT") or os.path.join(HERE, "..", "lean", "Ts", "Gen", "PesGen.lean")
DEFAULTS_PATH = os.path.join(HERE, "gen_defaults.json")

LEAN_TY = {"nat": "Nat", "optslice": "Option Stmt.Slice", "slice": "Stmt.Slice", "bool": "Bool", "contents": "PesContents"}


class Tr(gen_packet.Tr):
    """adds bit operators, integer conversions, struct views and the PES accessors"""

    def expr(self):
        p, a, t = self.bitor()
        if self.peek()[1] in ("==", "!=", "<", ">", "<=", ">="):
            op = self.take()[1]
            q, b, t2 = self.bitor()
            lop = {"==": "==", "!=": "!=", "<": "<", ">": ">", "<=": "≤", ">=": "≥"}[op]
            if op in ("==", "!="):
                return p + q, "(%s %s %s)" % (a, lop, b), "bool"
            return p + q, "(decide (%s %s %s))" % (a, lop, b), "bool"
        return p, a, t

    def bitor(self):
        p, a, t = self.bitand()
        while self.peek()[1] == "|" :
            self.take()
            q, b, _ = self.bitand()
            p, a = p + q, "(%s ||| %s)" % (a, b)
        return p, a, t

    def bitand(self):
        p, a, t = self.shift()
        while self.peek()[1] == "&" and self.peek(1)[1] != "&":
            self.take()
            q, b, _ = self.shift()
            p, a = p + q, "(%s &&& %s)" % (a, b)
        return p, a, t

    def shift(self):
        p, a, t = self.add()
        while (self.at("<", "<") or self.at(">", ">")):
            op = self.take()[1]; self.take()
            q, b, _ = self.add()
            # operands are bytes widened to u32 / u16 and literal shift counts: no truncation can occur
            p, a = p + q, "(%s %s %s)" % (a, "<<<" if op == "<" else ">>>", b)
        return p, a, t

    def postfix(self, p, a, t):
        while True:
            if t == "view" and self.at(".", "pes_header_data_len", "(", ")"):
                self.i += 4
                v = self.fresh()
                p, a, t = p + ["let %s ← Pes.hdl %s.bytes" % (v, a)], v, "nat"; continue
            if t == "view" and self.at(".", "pes_crc_end", "(", ")"):
                self.i += 4
                f, v = self.fresh(), self.fresh()
                p, a, t = p + ["let %s ← Pes.flagsByte %s.bytes" % (f, a), "let %s ← Pes.crcEnd %s" % (v, f)], v, "nat"; continue
            if t == "view" and self.at(".", "len", "(", ")"):
                raise ParseError("len() of a view")
            break
        if t == "view":
            return p, a, t
        return super().postfix(p, a, t)

    def primary(self):
        k = self.peek()
        if k[0] == "id":
            n = k[1]
            m = re.fullmatch(r"u(8|16|32|64|size)::from", n)
            if m:
                self.take(); self.expect("("); p, a, t = self.expr(); self.expect(")")
                if t != "nat":
                    raise ParseError("%s(%s)" % (n, t))
                return p, a, "nat"
            if n in ("PesHeader", "PesParsedContents") and self.peek(1)[1] == "{":
                self.take(); self.take()
                f = self.take()[1]
                self.expect("}")
                if self.env.get(f) != "slice":
                    raise ParseError("%s { %s }" % (n, f))
                return [], f, "view"
            if n == "Some":
                self.take(); self.expect("("); p, a, t = self.expr(); self.expect(")")
                if t not in ("slice", "view"):
                    raise ParseError("Some(%s)" % t)
                return p, "(some %s)" % a, "optslice"
            if n == "PesParsedContents::from_bytes":
                self.take(); self.expect("("); p, a, t = self.expr(); self.expect(")")
                if t != "slice" or "PesParsedContents.from_bytes" not in self.sigs:
                    raise ParseError("PesParsedContents::from_bytes(%s)" % t)
                v = self.fresh()
                return p + ["let %s ← PesParsedContents.from_bytes %s" % (v, a)], v, "optslice"
            if n in ("PesContents::Parsed", "PesContents::Payload"):
                self.take(); self.expect("("); p, a, t = self.expr(); self.expect(")")
                want = "optslice" if n.endswith("Parsed") else "slice"
                if t != want:
                    raise ParseError("%s(%s)" % (n, t))
                return p, "(PesContents.%s %s)" % (n.split("::")[1], a), "contents"
            if n == "self" and self.at("self", ".", "stream_id", "(", ")", ".", "is_parsed", "(", ")"):
                self.i += 9
                v = self.fresh()
                return ["let %s ← Pes.streamId self.buf.bytes" % v], "(Pes.isParsed %s)" % v, "bool"
        return super().primary()


def gen(stmts, ret):
    s = stmts
    if not s:
        raise ParseError("a path ends without a value")
    if s[0][0] == "value" and ret == "optslice" and s[0][3] in ("optslice",):
        return s[0][1] + ["pure %s" % s[0][2]]
    if s[0][0] == "value":
        if s[0][3] != ret:
            raise ParseError("value of type %s where %s is expected" % (s[0][3], ret))
        return s[0][1] + ["pure %s" % s[0][2]]
    if s[0][0] == "let":
        return s[0][2] + ["let %s := %s" % (s[0][1], s[0][3])] + gen(s[1:], ret)
    if s[0][0] == "if":
        a = gen(s[0][3] + s[1:], ret)
        b = gen(s[0][4] + s[1:], ret)
        return s[0][1] + ["if %s then do" % s[0][2]] + ["  " + l for l in a] + ["else do"] + ["  " + l for l in b]
    raise ParseError("cannot generate %r" % (s[0][0],))


def find_fn(src, impl_re, fn):
    for im in re.finditer(impl_re, src):
        blk = src[im.end():match_brace(src, im.end() - 1)]
        fm = re.search(r"\bfn %s\s*\(" % fn, blk)
        if fm:
            pe = match_brace(blk, fm.end() - 1, "(", ")")
            bs = blk.index("{", pe)
            be = match_brace(blk, bs)
            consts = {("Self::" + c.group(1)): int(c.group(2)) for c in re.finditer(r"const (\w+): usize = (\d+);", blk)}
            return blk[fm.end():pe].strip(), blk[pe + 1:bs].replace("->", "").strip(), blk[bs:be + 1], consts
    raise ParseError("fn %s not found" % fn)


def main():
    try:
        defaults = json.load(open(DEFAULTS_PATH))
    except Exception:
        defaults = {}
    try:
        src = strip(open(os.path.join(REPO, "src", "pes.rs")).read())
        units = [
            ("PesParsedContents", "from_bytes", r"impl<'buf> PesParsedContents<'buf>\s*\{", "buf: &'buf [u8]", "Option<PesParsedContents<'buf>>", "optslice", {"buf": "slice"}, "(buf : Stmt.Slice)"),
            ("PesHeader", "from_bytes", r"impl<'buf> PesHeader<'buf>\s*\{", "buf: &'buf [u8]", "Option<PesHeader<'buf>>", "optslice", {"buf": "slice"}, "(buf : Stmt.Slice)"),
            ("PesHeader", "contents", r"impl<'buf> PesHeader<'buf>\s*\{", "&self", "PesContents<'buf>", "contents", {}, "(self : Self)"),
        ]
        out = ["import Ts.Refl.Stmt", "import Ts.Model.Pes",
               "/-! GENERATED by tools/gen_pes.py from PesHeader::{from_bytes, contents} and PesParsedContents::from_bytes of /repo/src/pes.rs — do not edit -/",
               "set_option linter.unusedVariables false", "namespace Ts.Gen.PesGen", "open Ts",
               "/-- `PesHeader { buf }` -/", "structure Self where\n  buf : Stmt.Slice",
               "/-- `enum PesContents` -/", "inductive PesContents where\n  | Parsed (c : Option Stmt.Slice)\n  | Payload (s : Stmt.Slice)"]
        sigs = {}
        for (st, fn, impl_re, want_params, want_ret, ret, env, lean_params) in units:
            params, r, body, consts = find_fn(src, impl_re, fn)
            if params != want_params or r != want_ret:
                raise ParseError("%s::%s has signature (%s) -> %s" % (st, fn, params, r))
            tr = Tr(tokenize(body), env, sigs, consts)
            ast = tr.block()
            lines = gen(ast, ret)
            out.append("/-- `%s::%s` -/" % (st, fn))
            out.append("def %s.%s %s : R (%s) := do" % (st, fn, lean_params, LEAN_TY[ret]))
            out += ["  " + l for l in lines]
            sigs["%s.%s" % (st, fn)] = {"params": [], "ret": ret}
        out.append("end Ts.Gen.PesGen")
        text = "\n".join(out) + "\n"
        if "--write-defaults" in sys.argv:
            defaults["pes"] = text
            json.dump(defaults, open(DEFAULTS_PATH, "w"))
            print("wrote pes to " + DEFAULTS_PATH)
    except Exception as ex:  # anything unexpected in the source: fall back, never crash
        print("gen_pes: could not extract (recorded translation used; tie by correspondence only): PES acceptance logic (%s)" % ex, file=sys.stderr)
        text = defaults.get("pes")
        if text is None:
            text = "/-! GENERATED: translation FAILED (%s) and no recorded default -/\n" % ex
        else:
            text = text.replace("GENERATED by tools/gen_pes.py", "FALLBACK to the recorded translation (%s); GENERATED by tools/gen_pes.py" % str(ex).replace("-/", ""), 1)
    with open(OUT, "w") as f:
        f.write(text)
    return 0


if __name__ == "__main__":
    sys.exit(main())
