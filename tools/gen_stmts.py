#!/usr/bin/env python3
"""tools/gen_stmts.py — statement-level Rust -> Lean translation of the PES packet filter
(`PesPacketFilter::is_continuous` and `PesPacketFilter::consume`, /repo/src/pes.rs).

The expression translator (gen_exprs.py) stops at expressions.  This one translates the two
functions that make up the elementary-stream state machine, statement by statement, into a Lean
function over an explicit `Self` record (fields `state`, `ccounter`, plus the list of consumer
callbacks made so far) and an abstract `Packet` record holding exactly the observations the code
makes of the packet.  Supported Rust: blocks, `if` / `else` / `else if`, `if let Some(x) = e`,
`match self.state { PesState::A => …, }`, assignments to `self.<field>`, calls
`self.stream_consumer.<m>(ctx, args…)`, `let x = e;`, a trailing expression, `warn!(…)` (skipped),
`!`, `==`, `!=`, and the method-call observations listed in OBS.  Anything else raises ParseError:
the recorded translation (tools/gen_defaults.json, key "stmts") is then written instead, the header
says so, and the state machine is tied through the correspondence only.

Output: lean/Ts/Gen/PesFilterGen.lean.  `Ts/Props/Ties/StmtPesFilter.lean` proves that the
translated function equals the model's `stepPure` for every state and every packet observation.
"""
import json, os, re, sys

REPO = os.environ.get("VERIF_REPO", "/repo")
HERE = os.path.dirname(os.path.abspath(__file__))
OUT = os.environ.get("VERIF_GEN_STMTS_OUT") or os.path.join(HERE, "..", "lean", "Ts", "Gen", "PesFilterGen.lean")
DEFAULTS_PATH = os.path.join(HERE, "gen_defaults.json")

class ParseError(Exception):
    pass

TOK = re.compile(r"""\s*(?:
    (?P<str>"(?:\\.|[^"\\])*")
  | (?P<id>[A-Za-z_][A-Za-z0-9_]*(?:::[A-Za-z_][A-Za-z0-9_]*)*)
  | (?P<num>[0-9]+)
  | (?P<op>=>|==|!=|&&|\|\||[-+*/%&|^()\[\]<>!,;{}=.:'])
)""", re.X)

def tokenize(s):
    pos, out = 0, []
    while pos < len(s):
        m = TOK.match(s, pos)
        if not m:
            if s[pos:].strip() == "":
                break
            raise ParseError("cannot tokenize at %r" % s[pos:pos + 30])
        pos = m.end()
        for k in ("str", "id", "num", "op"):
            if m.group(k) is not None:
                out.append((k, m.group(k)))
                break
    return out

# observations of the packet / values: token sequence (joined by spaces) -> (Lean term, kind)
OBS = [
    ("packet . adaptation_control ( ) . has_payload ( )", "packet.has_payload", "bool"),
    ("packet . continuity_counter ( ) . follows ( cc )", "packet.cc_follows cc", "bool"),
    ("packet . continuity_counter ( ) . count ( )", "packet.cc_count", "nat"),
    ("packet . continuity_counter ( )", "packet.cc_count", "nat"),
    ("packet . payload_unit_start_indicator ( )", "packet.pusi", "bool"),
    ("packet . payload ( )", "packet.payload", "optpayload"),
    ("PesHeader::from_bytes ( payload )", "packet.header_of payload", "optheader"),
    ("payload . is_empty ( )", "packet.payload_is_empty payload", "bool"),
    ("cc . count ( )", "cc", "nat"),
    ("self . is_continuous ( packet )", "is_continuous self packet", "bool"),
    ("self . ccounter", "self.ccounter", "optnat"),
    ("self . state", "self.state", "state"),
]
OBS = [(o.split(), l, k) for (o, l, k) in OBS]

class P:
    def __init__(self, toks, states):
        self.t, self.i, self.states = toks, 0, states
        self.calls = {}          # consumer method -> number of extra arguments
    def peek(self, k=0):
        return self.t[self.i + k] if self.i + k < len(self.t) else ("eof", "")
    def take(self):
        x = self.peek(); self.i += 1; return x
    def expect(self, v):
        x = self.take()
        if x[1] != v:
            raise ParseError("expected %r, got %r" % (v, x[1]))
    def at(self, *vals):
        return all(self.peek(k)[1] == v for k, v in enumerate(vals))

    # ---------------- expressions
    def expr(self):
        a = self.conj()
        while self.peek()[1] == "||":
            self.take(); b = self.conj(); a = "(%s || %s)" % (a, b)
        return a
    def conj(self):
        a = self.cmp()
        while self.peek()[1] == "&&":
            self.take(); b = self.cmp(); a = "(%s && %s)" % (a, b)
        return a
    def cmp(self):
        a = self.unary()
        if self.peek()[1] in ("==", "!="):
            op = self.take()[1]
            b = self.unary()
            return "(%s %s %s)" % (a, op, b)
        return a
    def unary(self):
        if self.peek()[1] == "!":
            self.take()
            return "(!%s)" % self.unary()
        return self.primary()
    def primary(self):
        for (seq, lean, _k) in OBS:
            if all(self.peek(k)[1] == v for k, v in enumerate(seq)):
                self.i += len(seq)
                return lean
        k = self.take()
        if k[1] == "(":
            if self.peek()[1] == ")":
                self.take(); return "()"
            e = self.expr(); self.expect(")"); return "(%s)" % e
        if k[0] == "id":
            if k[1] in ("true", "false"):
                return k[1]
            if k[1] == "Some":
                self.expect("("); e = self.expr(); self.expect(")")
                return "(some %s)" % e
            m = re.fullmatch(r"PesState::(\w+)", k[1])
            if m:
                if m.group(1) not in self.states:
                    raise ParseError("unknown state %s" % m.group(1))
                return "PesState.%s" % m.group(1)
            if k[1] == "if":
                c = self.expr()
                a = self.block_expr()
                self.expect_id("else")
                b = self.block_expr()
                return "(if %s then %s else %s)" % (c, a, b)
            if k[1] in ("result", "cc", "payload", "header"):
                return k[1]
        raise ParseError("unsupported expression at %r" % (k[1],))
    def expect_id(self, name):
        x = self.take()
        if x != ("id", name):
            raise ParseError("expected %s, got %r" % (name, x[1]))
    def block_expr(self):
        """`{ e }` used as a value"""
        self.expect("{"); e = self.expr(); self.expect("}")
        return e

    # ---------------- statements: parsed into a small AST, then generated in continuation-passing
    # style so that an early `return;` simply drops the continuation
    def block(self, value=False):
        """`{ stmt* [expr] }` -> (list of AST statements, trailing value or None)"""
        self.expect("{")
        stmts, val = [], None
        while self.peek()[1] != "}":
            if self.peek() == ("id", "warn") and self.peek(1)[1] == "!":
                self.take(); self.take(); self.skip_parens(); self.maybe(";")
                continue
            if self.peek() == ("id", "return"):
                self.take(); self.expect(";")
                stmts.append(("return",))
                continue
            if self.peek() == ("id", "let"):
                self.take(); name = self.take()[1]; self.expect("=")
                e = self.expr(); self.expect(";")
                stmts.append(("let", name, e))
                continue
            if self.peek() == ("id", "if"):
                stmts.append(self.if_stmt())
                continue
            if self.peek() == ("id", "match"):
                stmts.append(self.match_stmt())
                continue
            if self.at("self", ".", "stream_consumer", "."):
                self.i += 4
                m = self.take()[1]
                self.expect("("); self.expect_id("ctx")
                args = []
                while self.peek()[1] == ",":
                    self.take(); args.append(self.expr())
                self.expect(")"); self.maybe(";")
                if self.calls.setdefault(m, len(args)) != len(args):
                    raise ParseError("consumer method %s called with different arities" % m)
                stmts.append(("upd", "calls", "self.calls ++ [Call.%s%s]" % (m, "".join(" " + a for a in args))))
                continue
            if self.at("self", ".") and self.peek(3)[1] == "=" and self.peek(4)[1] != "=":
                self.i += 2
                fld = self.take()[1]; self.expect("=")
                e = self.expr(); self.expect(";")
                if fld not in ("state", "ccounter"):
                    raise ParseError("assignment to unknown field %s" % fld)
                stmts.append(("upd", fld, e))
                continue
            if self.at("(", ")"):
                self.i += 2; self.maybe(","); continue
            e = self.expr()
            if self.peek()[1] != "}":
                raise ParseError("unsupported statement after expression %s" % e)
            val = e
        self.expect("}")
        return stmts, val

    def maybe(self, v):
        if self.peek()[1] == v:
            self.take()
    def skip_parens(self):
        self.expect("("); d = 1
        while d:
            t = self.take()
            if t[0] == "eof":
                raise ParseError("unterminated (")
            d += (t[1] == "(") - (t[1] == ")")

    def stmt_block(self):
        stmts, val = self.block()
        if val is not None:
            raise ParseError("value in a statement block")
        return stmts

    def if_stmt(self):
        self.expect_id("if")
        if self.peek() == ("id", "let"):
            self.take(); self.expect_id("Some"); self.expect("("); name = self.take()[1]; self.expect(")"); self.expect("=")
            e = self.expr()
            a = self.stmt_block()
            b = []
            if self.peek() == ("id", "else"):
                self.take(); b = self.stmt_block()
            return ("iflet", name, e, a, b)
        c = self.expr()
        a = self.stmt_block()
        b = []
        if self.peek() == ("id", "else"):
            self.take()
            b = [self.if_stmt()] if self.peek() == ("id", "if") else self.stmt_block()
        return ("if", c, a, b)

    def match_stmt(self):
        self.expect_id("match")
        e = self.expr()
        self.expect("{")
        arms = []
        while self.peek()[1] != "}":
            pat = self.take()
            m = re.fullmatch(r"PesState::(\w+)", pat[1])
            if not m and pat[1] != "_":
                raise ParseError("unsupported pattern %r" % pat[1])
            self.expect("=>")
            if self.peek()[1] == "{":
                body = self.stmt_block()
            elif self.at("(", ")"):
                self.i += 2; body = []
            else:
                raise ParseError("unsupported match arm")
            self.maybe(",")
            arms.append((("PesState.%s" % m.group(1)) if m else "_", body))
        self.expect("}")
        return ("match", e, arms)

def has_return(stmts):
    for s in stmts:
        if s[0] == "return":
            return True
        if s[0] == "if" and (has_return(s[2]) or has_return(s[3])):
            return True
        if s[0] == "iflet" and (has_return(s[3]) or has_return(s[4])):
            return True
        if s[0] == "match" and any(has_return(b) for _, b in s[2]):
            return True
    return False

def gen(stmts, k="self"):
    """Lean term of type `Self α` for the statement list followed by the continuation `k`"""
    if not stmts:
        return k
    s, rest = stmts[0], stmts[1:]
    if s[0] == "return":
        return "self"
    if s[0] == "let":
        return "(let %s := %s; %s)" % (s[1], s[2], gen(rest, k))
    if s[0] == "upd":
        return "(let self := { self with %s := %s }; %s)" % (s[1], s[2], gen(rest, k))
    if has_return([s]):
        k2 = gen(rest, k)
        if s[0] == "if":
            return "(if %s then %s else %s)" % (s[1], gen(s[2], k2), gen(s[3], k2))
        if s[0] == "iflet":
            return "(match %s with | some %s => %s | none => %s)" % (s[2], s[1], gen(s[3], k2), gen(s[4], k2))
        return "(match %s with %s)" % (s[1], " ".join("| %s => %s" % (p_, gen(b_, k2)) for p_, b_ in s[2]))
    if s[0] == "if":
        here = "(if %s then %s else %s)" % (s[1], gen(s[2]), gen(s[3]))
    elif s[0] == "iflet":
        here = "(match %s with | some %s => %s | none => %s)" % (s[2], s[1], gen(s[3]), gen(s[4]))
    else:
        here = "(match %s with %s)" % (s[1], " ".join("| %s => %s" % (p_, gen(b_)) for p_, b_ in s[2]))
    return "(let self := %s; %s)" % (here, gen(rest, k))

def fn_text(src, header_regex):
    m = re.search(header_regex, src)
    if not m:
        raise ParseError("function not found: %s" % header_regex)
    i = src.index("{", m.end() - 1)
    d, j = 0, i
    while True:
        if src[j] == "{": d += 1
        elif src[j] == "}":
            d -= 1
            if d == 0:
                break
        j += 1
    return src[i:j + 1]

# is_continuous has the shape  if let Some(cc) = self.ccounter { let result = E; if !result { } result } else { true }
def parse_is_continuous(src, states):
    toks = tokenize(fn_text(src, r"fn is_continuous\(&self, packet: &packet::Packet<'_>\) -> bool "))
    p = P(toks, states)
    p.expect("{"); p.expect_id("if"); p.expect_id("let"); p.expect_id("Some"); p.expect("("); name = p.take()[1]; p.expect(")"); p.expect("=")
    scrut = p.expr()
    p.expect("{")
    lets = []
    while p.peek() == ("id", "let"):
        p.take(); n = p.take()[1]; p.expect("="); e = p.expr(); p.expect(";")
        lets.append((n, e))
    if p.peek() == ("id", "if"):
        # a no-op `if !result { }`
        p.take(); p.expr(); p.expect("{"); p.expect("}")
    v = p.expr(); p.expect("}")
    p.expect_id("else")
    e2 = p.block_expr()
    p.expect("}")
    body = "".join("let %s := %s; " % (n, e) for n, e in lets) + v
    return "(match %s with | some %s => (%s) | none => %s)" % (scrut, name, body, e2)

def render(states, init_state, is_cont, lines, calls, note):
    out = []
    out.append("/-! %s -/" % note)
    out.append("namespace Ts.Gen.PesFilterGen")
    out.append("/-- `enum PesState` -/")
    out.append("inductive PesState where\n" + "\n".join("  | %s" % s for s in states) + "\n  deriving DecidableEq, Repr")
    out.append("/-- the `ElementaryStreamConsumer` methods the filter calls (α: the slice argument) -/")
    out.append("inductive Call (α : Type) where\n" + "\n".join("  | %s%s" % (m, " (a : α)" * n) for m, n in sorted(calls.items())) + "\n  deriving DecidableEq, Repr")
    out.append("/-- `PesPacketFilter`'s fields, plus the callbacks made so far -/")
    out.append("structure Self (α : Type) where\n  state : PesState\n  ccounter : Option Nat\n  calls : List (Call α)")
    out.append("/-- exactly what the two functions observe of the packet -/")
    out.append("structure Packet (α : Type) where\n  has_payload : Bool\n  cc_follows : Nat → Bool\n  cc_count : Nat\n  pusi : Bool\n  payload : Option α\n  payload_is_empty : α → Bool\n  header_of : α → Option α")
    out.append("/-- `PesPacketFilter::new` -/")
    out.append("def new {α : Type} : Self α := { state := PesState.%s, ccounter := none, calls := [] }" % init_state)
    out.append("/-- `PesPacketFilter::is_continuous` -/")
    out.append("def is_continuous {α : Type} (self : Self α) (packet : Packet α) : Bool :=\n  %s" % is_cont)
    out.append("/-- `PesPacketFilter::consume` -/")
    out.append("def consume {α : Type} (self : Self α) (packet : Packet α) : Self α :=\n  " + lines)
    out.append("end Ts.Gen.PesFilterGen")
    return "\n".join(out) + "\n"

def main():
    try:
        defaults = json.load(open(DEFAULTS_PATH))
    except Exception:
        defaults = {}
    try:
        src = open(os.path.join(REPO, "src", "pes.rs")).read()
        cut = src.find("#[cfg(test)]")
        src = re.sub(r"//[^\n]*", "", src if cut < 0 else src[:cut])
        m = re.search(r"enum PesState \{([^}]*)\}", src)
        if not m:
            raise ParseError("enum PesState not found")
        states = [x.strip() for x in m.group(1).split(",") if x.strip()]
        m = re.search(r"PesPacketFilter \{\s*stream_consumer,\s*ccounter: (\w+),\s*state: PesState::(\w+),", src)
        if not m or m.group(1) != "None" or m.group(2) not in states:
            raise ParseError("PesPacketFilter::new initial state not recognised")
        is_cont = parse_is_continuous(src, states)
        p2 = P(tokenize(fn_text(src, r"fn consume\(&mut self, ctx: &mut Self::Ctx, packet: &packet::Packet<'_>\) ")), states)
        stmts, val = p2.block()
        if val is not None:
            raise ParseError("consume returns a value")
        text = render(states, m.group(2), is_cont, gen(stmts), p2.calls,
                      "GENERATED by tools/gen_stmts.py from PesPacketFilter::{is_continuous, consume} of /repo/src/pes.rs — do not edit")
        if "--write-defaults" in sys.argv:
            defaults["stmts"] = text
            json.dump(defaults, open(DEFAULTS_PATH, "w"))
            print("wrote stmts to " + DEFAULTS_PATH)
    except Exception as ex:  # anything unexpected in the source: fall back, never crash
        print("gen_stmts: could not extract (recorded translation used; tie by correspondence only): PesPacketFilter (%s)" % ex, file=sys.stderr)
        text = defaults.get("stmts")
        if text is None:
            text = "/-! GENERATED: translation FAILED (%s) and no recorded default -/\n" % ex
        else:
            text = text.replace("GENERATED by tools/gen_stmts.py", "FALLBACK to the recorded translation (%s); GENERATED by tools/gen_stmts.py" % str(ex).replace("-/", ""), 1)
    with open(OUT, "w") as f:
        f.write(text)
    return 0

if __name__ == "__main__":
    sys.exit(main())
