#!/bin/sh
# tools/coverage.sh — which lines of /repo/src do the quick-tier correspondence cases of all 19 checks
# execute?  (a measurement of generator quality, not a check: needs the nightly toolchain's llvm-tools)
set -e
W=${1:-/tmp/cov}
NB=$(ls -d ~/.rustup/toolchains/nightly-x86_64-unknown-linux-gnu/lib/rustlib/*/bin | head -1)
rm -rf $W && mkdir -p $W && cp -r /verif/harness $W/h && rm -rf $W/h/target $W/h/target-fuzzing
(cd $W/h && CARGO_NET_OFFLINE=true RUSTFLAGS="-C instrument-coverage" CARGO_TARGET_DIR=$W/target cargo +nightly build --release --offline 2>&1 | tail -1)
for p in C01 C02 C03 C04 C05 C06 C07 C08 C09 C10 C11 C12 C13 C14 C15 C16 C17 C18 C19; do
  /verif/harness/target/release/harness gen $p quick 1 > $W/cases_$p.txt 2>/dev/null
  cat /verif/corpus/$p/*.case 2>/dev/null >> $W/cases_$p.txt || true
  LLVM_PROFILE_FILE=$W/$p.profraw $W/target/release/harness run < $W/cases_$p.txt > /dev/null 2>&1 || true
done
$NB/llvm-profdata merge -o $W/all.profdata $W/*.profraw
$NB/llvm-cov report $W/target/release/harness -instr-profile=$W/all.profdata /repo/src 2>/dev/null
echo "--- lines never executed (closing braces omitted)"
$NB/llvm-cov show $W/target/release/harness -instr-profile=$W/all.profdata /repo/src --show-line-counts-or-regions 2>/dev/null | grep -E "^\s+[0-9]+\|\s+0\||^/repo" | grep -v "|\s*}\s*$"
