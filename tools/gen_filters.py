#!/usr/bin/env python3
"""tools/gen_filters.py — statement-level Rust -> Lean translation of the dispatcher's PID table and
changeset of /repo/src/demultiplex.rs:

  Filters::{default, contains, get, insert, remove}
  FilterChange::apply
  FilterChangeset::{default, insert, remove, apply, is_empty}

One Lean function per method, in the panic monad `R`: `&mut self` / `&mut` parameters are returned
as new values (in declaration order, then the method's own result if it has one).  `Vec` is a list;
`v[i]` and `v[i] = x` are checked (they panic where Rust's index operators do), `usize as isize`
goes to `Int`, `for _ in a..=b` / `for x in v.drain(..)` become folds in the monad.

Supported Rust: `let`, `if` / `else` (statement and tail expression), `for _ in 0..=e { … }`,
`for x in self.f.drain(..) { … }`, `match self { Enum::A(x, y) => call, … }`, `self.f[i] = e`,
`self.f.push(e)`, calls of the translated methods on `self` / a `&mut` parameter / a loop variable,
`usize::from(pid)`, `e as isize`, `.len()`, `.is_some()`, `.as_mut()`, `.is_empty()`,
`+ - < <= > >= == != && || !`, `Some(e)`, `None`, enum constructors, `vec![]` / `Vec::new()`.
Anything else raises ParseError: the recorded translation (tools/gen_defaults.json, key "filters")
is written instead, the header says so, and the table is tied through the correspondence only.

Output: lean/Ts/Gen/FiltersGen.lean; `Ts/Props/Ties/StmtFilters.lean` proves the translated
functions equal to the model's `Tab.contains / get / insert / remove`, `applyChange(s)`.
"""
import json, os, re, sys

sys.path.insert(0, os.path.dirname(os.path.abspath(__file__)))
from gen_psi import tokenize, match_brace, ParseError, strip  # noqa: E402

REPO = os.environ.get("VERIF_REPO", "/repo")
HERE = os.path.dirname(os.path.abspath(__file__))
OUT = os.environ.get("VERIF_GEN_FILTERS_OUT") or os.path.join(HERE, "..", "lean", "Ts", "Gen", "FiltersGen.lean")
DEFAULTS_PATH = os.path.join(HERE, "gen_defaults.json")

# struct -> field -> type tag
STRUCT_FIELDS = {"Filters": {"filters_by_pid": "vecOptF"}, "FilterChangeset": {"updates": "vecChange"}}
RUST_FIELD_TYPES = {"Vec<Option<F>>": "vecOptF", "Vec<FilterChange<F>>": "vecChange"}
LEAN_TY = {"nat": "Nat", "int": "Int", "bool": "Bool", "optF": "Option F", "F": "F", "Filters": "Filters F",
           "Change": "FilterChange F", "Changeset": "FilterChangeset F", "unit": "Unit"}
STRUCT_TAG = {"Filters": "Filters", "FilterChange": "Change", "FilterChangeset": "Changeset"}
TAG_NS = {"Filters": "Filters", "Change": "FilterChange", "Changeset": "FilterChangeset"}


class T:
    """token cursor"""
    def __init__(self, toks):
        self.t, self.i = toks, 0

    def peek(self, k=0):
        return self.t[self.i + k] if self.i + k < len(self.t) else ("eof", "")

    def take(self):
        x = self.peek(); self.i += 1; return x

    def expect(self, v):
        x = self.take()
        if x[1] != v:
            raise ParseError("expected %r, got %r" % (v, x[1]))

    def at(self, *vals):
        return all(self.peek(k)[1] == v for k, v in enumerate(vals))

    def maybe(self, v):
        if self.peek()[1] == v:
            self.take(); return True
        return False


class Tr:
    """translator of one method body; `env`: variable -> type tag; `muts`: mutable variables in return order"""
    def __init__(self, toks, env, muts, sigs, enum_ctors, ret):
        self.c = T(toks)
        self.env, self.muts, self.sigs, self.ctors, self.ret = dict(env), muts, sigs, enum_ctors, ret
        self.n = 0

    def fresh(self):
        self.n += 1
        return "t%d" % self.n

    # ---------------- expressions -> (prelude lines, term, type)
    def expr(self):
        p, a, t = self.conj()
        while self.c.peek()[1] == "||":
            self.c.take()
            q, b, _ = self.conj()
            p, a = self.short(p, a, q, b, False)
        return p, a, "bool" if False else t

    def short(self, p, a, q, b, is_and):
        if not q:
            return p, "(%s %s %s)" % (a, "&&" if is_and else "||", b)
        v = self.fresh()
        if is_and:
            lines = ["let %s ← (" % v, "  if %s then do" % a] + ["    " + l for l in q] + ["    pure %s" % b, "  else do", "    pure false)"]
        else:
            lines = ["let %s ← (" % v, "  if %s then do" % a, "    pure true", "  else do"] + ["    " + l for l in q] + ["    pure %s)" % b]
        return p + lines, v

    def conj(self):
        p, a, t = self.cmp()
        while self.c.peek()[1] == "&&":
            self.c.take()
            q, b, _ = self.cmp()
            p, a = self.short(p, a, q, b, True)
            t = "bool"
        return p, a, t

    def cmp(self):
        p, a, t = self.add()
        if self.c.peek()[1] in ("==", "!=", "<", ">", "<=", ">="):
            op = self.c.take()[1]
            q, b, t2 = self.add()
            if {t, t2} == {"int", "nat"}:
                # a literal compared with an isize
                if t == "nat":
                    a = "(%s : Int)" % a
                else:
                    b = "(%s : Int)" % b
            lop = {"==": "==", "!=": "!=", "<": "<", ">": ">", "<=": "≤", ">=": "≥"}[op]
            if op in ("==", "!="):
                return p + q, "(%s %s %s)" % (a, lop, b), "bool"
            return p + q, "(decide (%s %s %s))" % (a, lop, b), "bool"
        return p, a, t

    def add(self):
        p, a, t = self.unary()
        while self.c.peek()[1] in ("+", "-"):
            op = self.c.take()[1]
            q, b, t2 = self.unary()
            if t == "int" or t2 == "int":
                if t != "int": a = "(%s : Int)" % a
                if t2 != "int": b = "(%s : Int)" % b
                p, a, t = p + q, "(%s %s %s)" % (a, op, b), "int"
            elif op == "+":
                p, a = p + q, "(%s + %s)" % (a, b)
            else:
                v = self.fresh()
                p, a = p + q + ["let %s ← subR %s %s" % (v, a, b)], v
        return p, a, t

    def unary(self):
        if self.c.peek()[1] == "!":
            self.c.take()
            p, a, t = self.unary()
            return p, "(!%s)" % a, "bool"
        if self.c.peek()[1] == "&":
            self.c.take()
            if self.c.peek() == ("id", "mut"):
                self.c.take()
            return self.unary()
        return self.postfix(*self.primary())

    def postfix(self, p, a, t):
        c = self.c
        while True:
            if c.at(".", "len", "(", ")") and t in ("vecOptF", "vecChange"):
                c.i += 4; a, t = "%s.length" % a, "nat"; continue
            if c.at(".", "is_empty", "(", ")") and t in ("vecOptF", "vecChange"):
                c.i += 4; a, t = "%s.isEmpty" % a, "bool"; continue
            if c.at(".", "is_some", "(", ")") and t == "optF":
                c.i += 4; a, t = "%s.isSome" % a, "bool"; continue
            if c.at(".", "as_mut", "(", ")") and t == "optF":
                c.i += 4; continue
            if c.peek()[1] == "[" and t == "vecOptF":
                c.take()
                q, i, _ = self.expr()
                c.expect("]")
                v = self.fresh()
                p, a, t = p + q + ["let %s ← vecGet %s %s" % (v, a, i)], v, "optF"
                continue
            if c.peek() == ("id", "as"):
                c.take(); ty = c.take()[1]
                if ty == "isize" and t == "nat":
                    a, t = "(Int.ofNat %s)" % a, "int"
                elif ty == "usize" and t == "nat":
                    pass
                else:
                    raise ParseError("unsupported cast of %s to %s" % (t, ty))
                continue
            if c.peek()[1] == "." and c.peek(1)[0] == "id" and c.peek(2)[1] != "(":
                # field access
                f = c.peek(1)[1]
                st = {"Filters": "Filters", "Changeset": "FilterChangeset"}.get(t)
                if st and f in STRUCT_FIELDS[st]:
                    c.i += 2; a, t = "%s.%s" % (a, f), STRUCT_FIELDS[st][f]; continue
                raise ParseError("unknown field .%s on %s" % (f, t))
            return p, a, t

    def primary(self):
        c = self.c
        k = c.take()
        if k[1] == "(":
            p, a, t = self.expr(); c.expect(")"); return p, a, t
        if k[0] == "num":
            return [], str(int(k[1].replace("_", ""), 0)), "nat"
        if k[0] != "id":
            raise ParseError("unsupported expression at %r" % (k[1],))
        n = k[1]
        if n in ("true", "false"):
            return [], n, "bool"
        if n == "None":
            return [], "none", "optF"
        if n == "Some":
            c.expect("("); p, a, t = self.expr(); c.expect(")")
            if t != "F":
                raise ParseError("Some(%s)" % t)
            return p, "(some %s)" % a, "optF"
        if n == "usize::from":
            c.expect("("); p, a, t = self.expr(); c.expect(")")
            if t != "nat":
                raise ParseError("usize::from(%s)" % t)
            return p, a, "nat"
        if "::" in n:
            head, last = n.rsplit("::", 1)
            if head == "FilterChange" and last in self.ctors:
                args = []; ps = []
                if c.maybe("("):
                    while c.peek()[1] != ")":
                        p, a, t = self.expr(); ps += p; args.append((a, t)); c.maybe(",")
                    c.expect(")")
                if [t for _, t in args] != self.ctors[last]:
                    raise ParseError("constructor %s applied to %s" % (n, [t for _, t in args]))
                return ps, "(FilterChange.%s%s)" % (last, "".join(" " + a for a, _ in args)), "Change"
            raise ParseError("unknown path %s" % n)
        if n in self.env:
            return [], n, self.env[n]
        raise ParseError("unbound name %s" % n)

    # ---------------- statements
    def result(self, val):
        parts = list(self.muts) + ([val] if val is not None else [])
        if not parts:
            return "pure ()"
        return "pure (%s)" % ", ".join(parts) if len(parts) > 1 else "pure %s" % parts[0]

    def method_call(self, recv, rt):
        """`recv.m(args)` with recv of struct type rt, cursor after `recv` — returns lines (statement) or None"""
        c = self.c
        if not (c.peek()[1] == "." and c.peek(1)[0] == "id" and c.peek(2)[1] == "("):
            return None
        ns = TAG_NS.get(rt)
        m = c.peek(1)[1]
        if ns is None or (ns, m) not in self.sigs:
            return None
        c.i += 3
        ps, args, mut_args = [], [], []
        sig = self.sigs[(ns, m)]
        k = 0
        while c.peek()[1] != ")":
            p, a, t = self.expr(); ps += p; c.maybe(",")
            if k >= len(sig["params"]) or sig["params"][k][1] != t:
                raise ParseError("%s.%s: argument %d has type %s" % (ns, m, k, t))
            if sig["params"][k][2]:
                mut_args.append(a)
            args.append(a); k += 1
        c.expect(")")
        if k != len(sig["params"]):
            raise ParseError("%s.%s: arity" % (ns, m))
        outs = ([recv] if sig["self_mut"] else []) + mut_args
        if sig["ret"] is not None:
            raise ParseError("%s.%s used as a statement but returns a value" % (ns, m))
        call = "%s.%s %s%s" % (ns, m, recv, "".join(" " + a for a in args))
        if not outs:
            return ps + ["%s" % call]
        pat = outs[0] if len(outs) == 1 else "(%s)" % ", ".join(outs)
        return ps + ["let %s ← %s" % (pat, call)]

    def block(self, tail_value):
        """`{ … }` -> lines of a do block ending with the function result (CPS is not needed: no early return)"""
        c = self.c
        c.expect("{")
        lines = self.stmts_until_close(tail_value)
        c.expect("}")
        return lines

    def stmts_until_close(self, tail_value):
        c = self.c
        out = []
        val = None
        while c.peek()[1] != "}":
            if c.peek() == ("id", "let"):
                c.take(); name = c.take()[1]; c.expect("=")
                p, a, t = self.expr(); c.expect(";")
                if name in self.env:
                    raise ParseError("let shadows %s" % name)
                self.env[name] = t
                out += p + ["let %s := %s" % (name, a)]
                continue
            if c.peek() == ("id", "if"):
                c.take()
                p, cond, t = self.expr()
                # statement-if (unit branches) or value-if (tail)
                save = c.i
                a_lines, a_val = self.branch()
                b_lines, b_val = [], None
                has_else = False
                if c.peek() == ("id", "else"):
                    c.take(); has_else = True
                    b_lines, b_val = self.branch()
                c.maybe(";")
                if a_val is not None or b_val is not None:
                    if not has_else or a_val is None or b_val is None or c.peek()[1] != "}":
                        raise ParseError("value-if must be the tail expression with both branches")
                    v = self.fresh()
                    out += p + ["let %s ← (" % v, "  if %s then do" % cond] + ["    " + l for l in a_lines] + ["    pure %s" % a_val[0], "  else do"] + ["    " + l for l in b_lines] + ["    pure %s)" % b_val[0]]
                    val = (v, a_val[1])
                    break
                # unit branches may update the mutable variables: thread them through
                pat = self.muts[0] if len(self.muts) == 1 else "(%s)" % ", ".join(self.muts)
                res = "pure %s" % pat if self.muts else "pure ()"
                out += p + ["let %s ← (" % (pat if self.muts else "_"), "  if %s then do" % cond] + ["    " + l for l in a_lines] + ["    " + res, "  else do"] + ["    " + l for l in b_lines] + ["    " + res + ")"]
                continue
            if c.peek() == ("id", "for"):
                c.take()
                var = c.take()[1]
                if c.take() != ("id", "in"):
                    raise ParseError("for without in")
                pat = self.muts[0] if len(self.muts) == 1 else "(%s)" % ", ".join(self.muts)
                if c.peek()[0] == "num":
                    lo = c.take()[1]
                    if not (c.at("..", "=")):
                        raise ParseError("only inclusive ranges a..=b are supported")
                    c.i += 2
                    p, hi, t = self.unary_noblock()
                    if var != "_":
                        raise ParseError("range loop variable must be _")
                    body = self.block_lines()
                    cnt = "(%s - %s + 1).toNat" % (hi, lo) if t == "int" else "(%s + 1 - %s)" % (hi, lo)
                    out += p + ["let %s ← forN %s %s (fun %s => do" % (pat, cnt, pat, pat)] + ["  " + l for l in body] + ["  pure %s)" % pat]
                    continue
                # for x in self.f.drain(..)
                p, src, t = self.drain_source()
                if t != "vecChange":
                    raise ParseError("drain of %s" % t)
                if var in self.env:
                    raise ParseError("loop variable shadows %s" % var)
                self.env[var] = "Change"
                recv, fld = src
                others = [m for m in self.muts if m != recv]
                opat = others[0] if len(others) == 1 else "(%s)" % ", ".join(others)
                saved = self.muts
                self.muts = others
                body = self.block_lines()
                self.muts = saved
                del self.env[var]
                out += p + ["let %s ← forEach %s.%s %s (fun %s %s => do" % (opat, recv, fld, opat, var, opat)] + ["  " + l for l in body] + ["  pure %s)" % opat]
                out += ["let %s := { %s with %s := [] }" % (recv, recv, fld)]
                continue
            if c.peek() == ("id", "match"):
                c.take()
                p, scrut, t = self.expr()
                if t != "Change":
                    raise ParseError("match on %s" % t)
                c.expect("{")
                pat = self.muts[0] if len(self.muts) == 1 else "(%s)" % ", ".join(self.muts)
                arms = []
                seen = set()
                while c.peek()[1] != "}":
                    ctor = c.take()[1]
                    head, _, last = ctor.rpartition("::")
                    if head != "FilterChange" or last not in self.ctors:
                        raise ParseError("unsupported pattern %s" % ctor)
                    seen.add(last)
                    vs = []
                    if c.maybe("("):
                        while c.peek()[1] != ")":
                            vs.append(c.take()[1]); c.maybe(",")
                        c.expect(")")
                    if len(vs) != len(self.ctors[last]):
                        raise ParseError("pattern arity %s" % ctor)
                    c.expect("=>")
                    for v, ty in zip(vs, self.ctors[last]):
                        if v in self.env:
                            raise ParseError("pattern shadows %s" % v)
                        self.env[v] = ty
                    if c.peek()[1] == "{":
                        body = self.block_lines()
                    else:
                        body = self.simple_stmt()
                    c.maybe(",")
                    for v in vs:
                        del self.env[v]
                    arms.append(("FilterChange.%s%s" % (last, "".join(" " + v for v in vs)), body))
                c.expect("}"); c.maybe(";")
                if seen != set(self.ctors):
                    raise ParseError("non-exhaustive match")
                out += p + ["let %s ← (" % pat, "  match %s with" % scrut]
                for (pt, body) in arms:
                    out += ["  | %s => do" % pt] + ["    " + l for l in body] + ["    pure %s" % pat]
                out[-1] = out[-1] + ")"
                continue
            st = self.simple_stmt(allow_value=True)
            if isinstance(st, tuple):
                val = st[1]
                out += st[0]
                if c.peek()[1] != "}":
                    raise ParseError("value expression not in tail position")
                break
            out += st
        if val is not None and not tail_value:
            raise ParseError("unexpected value")
        self._val = val
        return out

    def branch(self):
        """a `{ … }` branch: (lines, value or None)"""
        c = self.c
        c.expect("{")
        saved_env = dict(self.env)
        lines = self.stmts_until_close(True)
        val = self._val
        c.expect("}")
        self.env = saved_env
        return lines, val

    def block_lines(self):
        lines, val = self.branch()
        if val is not None:
            raise ParseError("value in a statement block")
        return lines

    def unary_noblock(self):
        return self.unary()

    def drain_source(self):
        c = self.c
        recv = c.take()[1]
        if recv not in self.env or recv not in self.muts:
            raise ParseError("drain on %s" % recv)
        c.expect(".")
        fld = c.take()[1]
        st = {"Filters": "Filters", "Changeset": "FilterChangeset"}.get(self.env[recv])
        if not st or fld not in STRUCT_FIELDS[st]:
            raise ParseError("drain on unknown field")
        if not c.at(".", "drain", "(", "..", ")"):
            raise ParseError("only .drain(..) loops are supported")
        c.i += 5
        return [], (recv, fld), STRUCT_FIELDS[st][fld]

    def simple_stmt(self, allow_value=False):
        """assignment / push / method call / (tail) value expression"""
        c = self.c
        # recv.field[...] = e ;  recv.field.push(e) ;
        if c.peek()[0] == "id" and c.peek()[1] in self.env and c.peek(1)[1] == "." and c.peek(2)[0] == "id":
            recv, rt = c.peek()[1], self.env[c.peek()[1]]
            st = {"Filters": "Filters", "Changeset": "FilterChangeset"}.get(rt)
            fld = c.peek(2)[1]
            if st and fld in STRUCT_FIELDS[st] and recv in self.muts:
                if c.peek(3)[1] == "[":
                    save = c.i
                    c.i += 4
                    p, i, _ = self.expr(); c.expect("]")
                    if c.peek()[1] == "=" and c.peek(1)[1] != "=":
                        c.take()
                        q, e, t = self.expr(); c.maybe(";")
                        if t != "optF":
                            raise ParseError("assignment of %s to a table slot" % t)
                        v = self.fresh()
                        return p + q + ["let %s ← vecSet %s.%s %s %s" % (v, recv, fld, i, e), "let %s := { %s with %s := %s }" % (recv, recv, fld, v)]
                    c.i = save
                elif c.peek(3)[1] == "." and c.peek(4)[1] == "push" and c.peek(5)[1] == "(":
                    c.i += 6
                    q, e, t = self.expr(); c.expect(")"); c.maybe(";")
                    want = {"vecOptF": "optF", "vecChange": "Change"}[STRUCT_FIELDS[st][fld]]
                    if t != want:
                        raise ParseError("push of %s" % t)
                    return q + ["let %s := { %s with %s := %s.%s ++ [%s] }" % (recv, recv, fld, recv, fld, e)]
            # method call on a struct-typed variable
            if rt in TAG_NS:
                save = c.i
                c.take()
                r = self.method_call(recv, rt)
                if r is not None:
                    c.maybe(";")
                    return r
                c.i = save
        if allow_value:
            p, a, t = self.expr()
            return (p, (a, t))
        raise ParseError("unsupported statement at %r" % " ".join(x[1] for x in c.t[c.i:c.i + 6]))


def parse_sig(struct, fname, params, ret):
    """-> dict(self_mode, self_mut, params=[(name, type, is_mut)], ret)"""
    sig = {"self_mut": False, "self": None, "params": [], "ret": None}
    for prm in re.split(r",(?![^<]*>)", params):
        prm = prm.strip()
        if not prm:
            continue
        if prm in ("&mut self", "&self", "self"):
            sig["self"] = prm; sig["self_mut"] = prm == "&mut self"; continue
        pn, pt = [x.strip() for x in prm.split(":", 1)]
        if pt == "packet::Pid":
            sig["params"].append((pn, "nat", False))
        elif pt == "F":
            sig["params"].append((pn, "F", False))
        elif pt == "&mut Filters<F>":
            sig["params"].append((pn, "Filters", True))
        else:
            raise ParseError("%s::%s: unsupported parameter type %s" % (struct, fname, pt))
    r = ret.replace("->", "").strip()
    if r == "":
        sig["ret"] = None
    elif r == "bool":
        sig["ret"] = "bool"
    elif r == "Option<&mut F>":
        sig["ret"] = "optF"
    else:
        raise ParseError("%s::%s: unsupported return type %s" % (struct, fname, r))
    return sig


METHODS = [("Filters", ["contains", "get", "insert", "remove"]), ("FilterChange", ["apply"]),
           ("FilterChangeset", ["insert", "remove", "apply", "is_empty"])]


def main():
    try:
        defaults = json.load(open(DEFAULTS_PATH))
    except Exception:
        defaults = {}
    try:
        src = strip(open(os.path.join(REPO, "src", "demultiplex.rs")).read())
        # struct fields
        for st in ("Filters", "FilterChangeset"):
            m = re.search(r"struct %s<F: PacketFilter>\s*\{([^}]*)\}" % st, src)
            if not m:
                raise ParseError("struct %s not found" % st)
            fs = {}
            for fm in re.finditer(r"(\w+)\s*:\s*([^,\n]+),", m.group(1)):
                ty = fm.group(2).strip()
                if ty not in RUST_FIELD_TYPES:
                    raise ParseError("%s.%s: unsupported field type %s" % (st, fm.group(1), ty))
                fs[fm.group(1)] = RUST_FIELD_TYPES[ty]
            if fs != STRUCT_FIELDS[st]:
                raise ParseError("struct %s has fields %s" % (st, fs))
        m = re.search(r"pub enum FilterChange<F: PacketFilter>\s*\{([^}]*)\}", src)
        if not m:
            raise ParseError("enum FilterChange not found")
        ctors = {}
        for cm in re.finditer(r"(\w+)\(([^)]*)\)", m.group(1)):
            tys = []
            for a in cm.group(2).split(","):
                a = a.strip()
                if a == "packet::Pid": tys.append("nat")
                elif a == "F": tys.append("F")
                elif a: raise ParseError("constructor argument type %s" % a)
            ctors[cm.group(1)] = tys
        if not ctors:
            raise ParseError("no constructors")
        # defaults
        for st, fld in (("Filters", "filters_by_pid"), ("FilterChangeset", "updates")):
            dm = re.search(r"fn default\(\) -> %s<F>\s*\{\s*%s\s*\{\s*%s:\s*(vec!\[\]|Vec::new\(\)),?\s*\}\s*\}" % (st, st, fld), src)
            if not dm:
                raise ParseError("%s::default not recognised" % st)
        # method texts and signatures
        fns = {}
        for st, names in METHODS:
            blocks = []
            for im in re.finditer(r"impl<F: PacketFilter>\s+%s<F>\s*\{" % st, src):
                blocks.append(src[im.end():match_brace(src, im.end() - 1)])
            if not blocks:
                raise ParseError("impl %s not found" % st)
            blk = "\n".join(blocks)
            for fn in names:
                fm = re.search(r"\bfn %s\s*\(" % fn, blk)
                if not fm:
                    raise ParseError("%s::%s not found" % (st, fn))
                pe = match_brace(blk, fm.end() - 1, "(", ")")
                bs = blk.index("{", pe)
                be = match_brace(blk, bs)
                fns[(st, fn)] = (blk[fm.end():pe], blk[pe + 1:bs], blk[bs:be + 1])
        sigs = {k: parse_sig(k[0], k[1], v[0], v[1]) for k, v in fns.items()}
        out = ["import Ts.Refl.StmtVec",
               "/-! GENERATED by tools/gen_filters.py from Filters / FilterChange / FilterChangeset of /repo/src/demultiplex.rs — do not edit -/",
               "set_option linter.unusedVariables false", "namespace Ts.Gen.FiltersGen", "open Ts Ts.StmtVec", "variable {F : Type}",
               "/-- `struct Filters` -/", "structure Filters (F : Type) where\n  filters_by_pid : List (Option F)",
               "/-- `enum FilterChange` -/",
               "inductive FilterChange (F : Type) where\n" + "\n".join("  | %s%s" % (c, "".join(" (a%d : %s)" % (i, LEAN_TY[t]) for i, t in enumerate(ts))) for c, ts in ctors.items()),
               "/-- `struct FilterChangeset` -/", "structure FilterChangeset (F : Type) where\n  updates : List (FilterChange F)",
               "/-- `Filters::default` -/", "def Filters.default : Filters F := { filters_by_pid := [] }",
               "/-- `FilterChangeset::default` -/", "def FilterChangeset.default : FilterChangeset F := { updates := [] }"]
        for st, names in METHODS:
            for fn in names:
                params, ret, body = fns[(st, fn)]
                sig = sigs[(st, fn)]
                env = {"self": STRUCT_TAG[st]}
                muts = (["self"] if sig["self_mut"] else [])
                for (pn, pt, pm) in sig["params"]:
                    env[pn] = pt
                    if pm:
                        muts.append(pn)
                tr = Tr(tokenize(body), env, muts, sigs, ctors, sig["ret"])
                lines = tr.block(sig["ret"] is not None)
                val = tr._val
                if (val is None) != (sig["ret"] is None):
                    raise ParseError("%s::%s: result does not match the signature" % (st, fn))
                if val is not None and val[1] != sig["ret"]:
                    raise ParseError("%s::%s returns %s" % (st, fn, val[1]))
                lines.append(tr.result(val[0] if val else None))
                rty = [LEAN_TY[env[m_]] for m_ in muts] + ([LEAN_TY[sig["ret"]]] if sig["ret"] else [])
                rty = " × ".join(rty) if rty else "Unit"
                out.append("/-- `%s::%s` -/" % (st, fn))
                out.append("def %s.%s (self : %s)%s : R (%s) := do" % (st, fn, LEAN_TY[STRUCT_TAG[st]], "".join(" (%s : %s)" % (pn, LEAN_TY[pt]) for pn, pt, _ in sig["params"]), rty))
                out += ["  " + l for l in lines]
        out.append("end Ts.Gen.FiltersGen")
        text = "\n".join(out) + "\n"
        if "--write-defaults" in sys.argv:
            defaults["filters"] = text
            json.dump(defaults, open(DEFAULTS_PATH, "w"))
            print("wrote filters to " + DEFAULTS_PATH)
    except Exception as ex:  # anything unexpected in the source: fall back, never crash
        print("gen_filters: could not extract (recorded translation used; tie by correspondence only): Filters / FilterChangeset (%s)" % ex, file=sys.stderr)
        text = defaults.get("filters")
        if text is None:
            text = "/-! GENERATED: translation FAILED (%s) and no recorded default -/\n" % ex
        else:
            text = text.replace("GENERATED by tools/gen_filters.py", "FALLBACK to the recorded translation (%s); GENERATED by tools/gen_filters.py" % str(ex).replace("-/", ""), 1)
    with open(OUT, "w") as f:
        f.write(text)
    return 0


if __name__ == "__main__":
    sys.exit(main())
