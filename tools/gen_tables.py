#!/usr/bin/env python3
"""tools/gen_tables.py — statement-level Rust -> Lean translation of the PAT table processor of
/repo/src/demultiplex.rs:

  PatProcessor::{default, section, new_table, remove_outdated}

The processor talks to the application through its context: `ctx.construct(FilterRequest::…)` and
`ctx.filter_changeset().insert / remove`.  In the translation the context is an abstract value `C`
threaded through, `construct : C → App.Req → R (H × C)` is a parameter, and the changeset is the list
of changes queued so far (oldest first).  `FixedBitSet` is a membership list (`insert` appends,
`difference` is the model's `App.outdated`: the registered PIDs not seen, ascending).  The loop
`for desc in sect.programs()` runs the TRANSLATED iterator (`Ts.Gen.ItersGen.ProgramIter.next`)
interleaved with the loop body (`forIter`).

Supported Rust: exactly the statement forms these four functions use today — `if lit != header.table_id
{ …; return; }`, `let mut x = FixedBitSet::with_capacity(..)`, `for x in sect.programs() { … }`,
`let f = match desc { Enum::A { a, b } => ctx.construct(FilterRequest::X { … }), … };`,
`ctx.filter_changeset().insert(e, f)` / `.remove(packet::Pid::new(e as u16))`, `x.insert(usize::from(e))`,
`self.f.insert(..)`, `self.remove_outdated(ctx, x)`, `for pid in self.f.difference(&x) { … }`,
`self.f = x`, `let start = A + B; let end = data.len() - n;`, `self.new_table(ctx, header, tsh,
&pat::PatSection::new(&data[start..end]))`, `warn!`.  Anything else raises ParseError: the recorded
translation (tools/gen_defaults.json, key "tables") is written instead, the header says so, and the
processor is tied through the correspondence only.

Output: lean/Ts/Gen/TablesGen.lean; `Ts/Props/Ties/StmtTables.lean` proves the translated processor
equal to the model's `App.patSection`.
"""
import json, os, re, sys

sys.path.insert(0, os.path.dirname(os.path.abspath(__file__)))
from gen_psi import tokenize, match_brace, ParseError, strip  # noqa: E402

REPO = os.environ.get("VERIF_REPO", "/repo")
HERE = os.path.dirname(os.path.abspath(__file__))
OUT = os.environ.get("VERIF_GEN_TABLES_OUT") or os.path.join(HERE, "..", "lean", "Ts", "Gen", "TablesGen.lean")
DEFAULTS_PATH = os.path.join(HERE, "gen_defaults.json")


class T:
    def __init__(self, toks):
        self.t, self.i = toks, 0

    def peek(self, k=0):
        return self.t[self.i + k] if self.i + k < len(self.t) else ("eof", "")

    def take(self):
        x = self.peek(); self.i += 1; return x

    def expect(self, *vs):
        for v in vs:
            x = self.take()
            if x[1] != v:
                raise ParseError("expected %r, got %r" % (v, x[1]))

    def at(self, *vals):
        return all(self.peek(k)[1] == v for k, v in enumerate(vals))

    def maybe(self, v):
        if self.peek()[1] == v:
            self.take(); return True
        return False

    def skip_parens(self):
        self.expect("("); d = 1
        while d:
            t = self.take()
            if t[0] == "eof":
                raise ParseError("unterminated (")
            d += (t[1] == "(") - (t[1] == ")")

    def skip_warn(self):
        if self.peek()[0] == "id" and self.peek()[1] in ("warn", "debug", "info", "trace", "error") and self.peek(1)[1] == "!":
            self.take(); self.take(); self.skip_parens(); self.maybe(";")
            return True
        return False


def fn_body(blk, name):
    fm = re.search(r"\bfn %s\s*\(" % name, blk)
    if not fm:
        raise ParseError("fn %s not found" % name)
    pe = match_brace(blk, fm.end() - 1, "(", ")")
    bs = blk.index("{", pe)
    return blk[fm.end():pe], blk[bs:match_brace(blk, bs) + 1]


def pid_expr(c, var):
    """`usize::from(desc.pid())` or `desc.pid()` -> Lean term"""
    if c.at("usize::from", "("):
        c.i += 2
        e = pid_expr(c, var)
        c.expect(")")
        return e
    if c.at(var, ".", "pid", "(", ")"):
        c.i += 5
        return "%s.pid" % var
    raise ParseError("unsupported PID expression at %r" % c.peek()[1])


def request(c, bound):
    """`ctx.construct(FilterRequest::X { a, b: e })` -> Lean Req term"""
    c.expect("ctx", ".", "construct", "(")
    ctor = c.take()[1]
    m = re.fullmatch(r"FilterRequest::(Pmt|Nit)", ctor)
    if not m:
        raise ParseError("unsupported request %s" % ctor)
    c.expect("{")
    fields = {}
    while c.peek()[1] != "}":
        f = c.take()[1]
        v = f
        if c.maybe(":"):
            v = c.take()[1]
        if v not in bound:
            raise ParseError("request field %s = %s is not a pattern variable" % (f, v))
        fields[f] = v
        c.maybe(",")
    c.expect("}"); c.expect(")")
    if m.group(1) == "Pmt":
        if set(fields) != {"pid", "program_number"}:
            raise ParseError("FilterRequest::Pmt fields %s" % sorted(fields))
        return "(App.Req.pmt %s %s)" % (fields["pid"], fields["program_number"])
    if set(fields) != {"pid"}:
        raise ParseError("FilterRequest::Nit fields %s" % sorted(fields))
    return "(App.Req.nit %s)" % fields["pid"]


def gen_new_table(body, tid_field):
    c = T(tokenize(body))
    c.expect("{")
    # if LIT != header.table_id { warn!; return; }
    c.expect("if")
    lit = c.take()
    if lit[0] != "num":
        raise ParseError("table id test")
    op = c.take()[1]
    if op != "!=":
        raise ParseError("table id test uses %s" % op)
    c.expect("header", ".", tid_field, "{")
    while c.skip_warn():
        pass
    c.expect("return", ";", "}")
    tid = int(lit[1].replace("_", ""), 0)
    # let mut pids_seen = fixedbitset::FixedBitSet::with_capacity(packet::Pid::PID_COUNT);
    c.expect("let", "mut")
    seen = c.take()[1]
    c.expect("=")
    if not re.fullmatch(r"(fixedbitset::)?FixedBitSet::with_capacity", c.take()[1]):
        raise ParseError("bit set constructor")
    c.skip_parens(); c.expect(";")
    # for desc in sect.programs() { … }
    c.expect("for")
    var = c.take()[1]
    c.expect("in", "sect", ".", "programs", "(", ")", "{")
    lines = []
    filt = None
    while c.peek()[1] != "}":
        if c.skip_warn():
            continue
        if c.at("let"):
            c.take(); filt = c.take()[1]; c.expect("=", "match", var, "{")
            arms = []
            while c.peek()[1] != "}":
                pat = c.take()[1]
                m = re.fullmatch(r"(?:pat::)?ProgramDescriptor::(Program|Network)", pat)
                if not m:
                    raise ParseError("unsupported pattern %s" % pat)
                c.expect("{")
                names = {}
                while c.peek()[1] != "}":
                    f = c.take()[1]; v = f
                    if c.maybe(":"):
                        v = c.take()[1]
                    names[f] = v; c.maybe(",")
                c.expect("}"); c.expect("=>")
                braced = c.maybe("{")
                if m.group(1) == "Program":
                    if set(names) != {"program_number", "pid"}:
                        raise ParseError("Program pattern fields")
                    lean_pat = ".program %s %s" % (names["program_number"], names["pid"])
                else:
                    if set(names) != {"pid"}:
                        raise ParseError("Network pattern fields")
                    lean_pat = ".network %s" % names["pid"]
                req = request(c, set(names.values()))
                if braced:
                    c.expect("}")
                c.maybe(",")
                arms.append((m.group(1), lean_pat, req))
            c.expect("}"); c.expect(";")
            if sorted(a[0] for a in arms) != ["Network", "Program"]:
                raise ParseError("non-exhaustive match on the PAT entry")
            lines.append("let (%s, ctx) ← (match %s with" % (filt, var))
            for (_, lp, rq) in arms:
                lines.append("  | %s => construct ctx %s" % (lp, rq))
            lines[-1] += ")"
            continue
        if c.at("ctx", ".", "filter_changeset", "(", ")", ".", "insert", "("):
            c.i += 8
            p = pid_expr(c, var); c.expect(",")
            f = c.take()[1]
            if f != filt:
                raise ParseError("inserted value is not the constructed filter")
            c.expect(")"); c.expect(";")
            lines.append("let q := q ++ [Change.insert %s %s]" % (p, f))
            continue
        if c.at(seen, ".", "insert", "("):
            c.i += 4
            p = pid_expr(c, var); c.expect(")"); c.expect(";")
            lines.append("let %s := %s ++ [%s]" % (seen, seen, p))
            continue
        if c.at("self", ".") and c.peek(3)[1] == "." and c.peek(4)[1] == "insert":
            fld = c.peek(2)[1]
            c.i += 6
            p = pid_expr(c, var); c.expect(")"); c.expect(";")
            lines.append("let self := { self with %s := self.%s ++ [%s] }" % (fld, fld, p))
            continue
        raise ParseError("unsupported statement in the PAT loop at %r" % " ".join(x[1] for x in c.t[c.i:c.i + 6]))
    c.expect("}")
    # self.remove_outdated(ctx, pids_seen);
    c.expect("self", ".", "remove_outdated", "(", "ctx", ",", seen, ")", ";", "}")
    out = ["if (%d != header.tableId) then do" % tid, "  pure (self, ctx, q)", "else do",
           "  let %s : List Nat := []" % seen,
           "  let (self, ctx, q, %s) ← forIter ItersGen.ProgramIter.next (sect.len + 1) ⟨sect⟩ (self, ctx, q, %s)" % (seen, seen),
           "    (fun %s st => do" % var,
           "      let (self, ctx, q, %s) := st" % seen]
    out += ["      " + l for l in lines]
    out += ["      pure (self, ctx, q, %s))" % seen,
            "  let (self, q) ← remove_outdated self q %s" % seen,
            "  pure (self, ctx, q)"]
    return out


def gen_remove_outdated(params, body):
    m = re.search(r"(\w+): fixedbitset::FixedBitSet", params)
    if not m:
        raise ParseError("remove_outdated parameter")
    seen = m.group(1)
    c = T(tokenize(body))
    c.expect("{", "for")
    var = c.take()[1]
    c.expect("in", "self", ".")
    fld = c.take()[1]
    c.expect(".", "difference", "(", "&", seen, ")", "{")
    c.expect("ctx", ".", "filter_changeset", "(", ")", ".", "remove", "(")
    if c.take()[1] not in ("packet::Pid::new", "Pid::new"):
        raise ParseError("removal does not build a Pid")
    c.expect("(", var, "as", "u16", ")", ")", ";", "}")
    c.expect("self", ".", fld, "=", seen, ";", "}")
    return fld, seen, [
        "let q ← forEach (App.outdated self.%s %s) q (fun %s q => do" % (fld, seen, var),
        "  let t ← Tables.pidNew %s" % var,
        "  pure (q ++ [Change.remove t]))",
        "let self := { self with %s := %s }" % (fld, seen),
        "pure (self, q)"]


def gen_section(body, consts):
    c = T(tokenize(body))
    c.expect("{", "let", "start", "=")
    a = c.take()[1]; c.expect("+"); b = c.take()[1]; c.expect(";")
    for x in (a, b):
        if x not in consts:
            raise ParseError("unknown constant %s" % x)
    c.expect("let", "end", "=", "data", ".", "len", "(", ")", "-")
    n = c.take()
    if n[0] != "num":
        raise ParseError("CRC size")
    c.expect(";")
    c.expect("self", ".", "new_table", "(", "ctx", ",", "header", ",", "table_syntax_header", ",", "&")
    if c.take()[1] not in ("pat::PatSection::new", "PatSection::new"):
        raise ParseError("section wrapper")
    c.expect("(", "&", "data", "[", "start", "..", "end", "]", ")", ",", ")", ";", "}") if c.t[-5][1] == "," else None
    return ["let start := (%d + %d)" % (consts[a], consts[b]),
            "let t1 ← subR data.len %d" % int(n[1]),
            "let t2 ← data.sub start t1",
            "new_table construct self ctx q header t2"]



def gen_pmt_new_table(body):
    c = T(tokenize(body))
    c.expect("{", "if")
    lit = c.take()
    if lit[0] != "num" or c.take()[1] != "!=":
        raise ParseError("table id test")
    c.expect("header", ".", "table_id", "{")
    while c.skip_warn():
        pass
    c.expect("return", ";", "}")
    tid = int(lit[1].replace("_", ""), 0)
    c.expect("let", "mut")
    seen = c.take()[1]
    c.expect("=")
    if not re.fullmatch(r"(fixedbitset::)?FixedBitSet::with_capacity", c.take()[1]):
        raise ParseError("bit set constructor")
    c.skip_parens(); c.expect(";")
    c.expect("for")
    var = c.take()[1]
    c.expect("in", "sect", ".", "streams", "(", ")", "{")
    lines, n, filt = [], [0], None

    def fresh():
        n[0] += 1
        return "t%d" % n[0]

    def epid():
        """`usize::from(x.elementary_pid())` / `x.elementary_pid()` -> (prelude, term)"""
        if c.at("usize::from", "("):
            c.i += 2
            p, a = epid()
            c.expect(")")
            return p, a
        if c.at(var, ".", "elementary_pid", "(", ")"):
            c.i += 5
            v = fresh()
            return ["let %s ← Stmt.elementaryPid %s" % (v, var)], v
        raise ParseError("unsupported PID expression at %r" % c.peek()[1])

    while c.peek()[1] != "}":
        if c.skip_warn():
            continue
        if c.at("let"):
            c.take(); filt = c.take()[1]
            c.expect("=", "ctx", ".", "construct", "(", "FilterRequest::ByStream", "{")
            fields, pre = {}, []
            while c.peek()[1] != "}":
                f = c.take()[1]; c.expect(":")
                if c.at("self", ".", "pid"):
                    c.i += 3; fields[f] = "self.pid"
                elif c.at(var, ".", "stream_type", "(", ")"):
                    c.i += 5
                    v = fresh(); pre.append("let %s ← Stmt.streamType %s" % (v, var)); fields[f] = v
                elif c.at("sect"):
                    c.take(); fields[f] = "sect"
                elif c.at("&", var):
                    c.i += 2; fields[f] = var
                else:
                    raise ParseError("unsupported ByStream field %s" % f)
                c.maybe(",")
            c.expect("}"); c.expect(")"); c.expect(";")
            if set(fields) != {"program_pid", "stream_type", "pmt", "stream_info"} or fields["pmt"] != "sect" or fields["stream_info"] != var:
                raise ParseError("ByStream fields %s" % fields)
            lines += pre + ["let (%s, ctx) ← construct ctx (Stmt.RawReq.byStream %s %s sect %s)" % (filt, fields["program_pid"], fields["stream_type"], var)]
            continue
        if c.at("ctx", ".", "filter_changeset", "(", ")", ".", "insert", "("):
            c.i += 8
            p, a = epid(); c.expect(",")
            if c.take()[1] != filt:
                raise ParseError("inserted value is not the constructed filter")
            c.expect(")"); c.expect(";")
            lines += p + ["let q := q ++ [Change.insert %s %s]" % (a, filt)]
            continue
        if c.at(seen, ".", "insert", "("):
            c.i += 4
            p, a = epid(); c.expect(")"); c.expect(";")
            lines += p + ["let %s := %s ++ [%s]" % (seen, seen, a)]
            continue
        if c.at("self", ".") and c.peek(3)[1] == "." and c.peek(4)[1] == "insert":
            fld = c.peek(2)[1]
            c.i += 6
            p, a = epid(); c.expect(")"); c.expect(";")
            lines += p + ["let self := { self with %s := self.%s ++ [%s] }" % (fld, fld, a)]
            continue
        raise ParseError("unsupported statement in the PMT loop at %r" % " ".join(x[1] for x in c.t[c.i:c.i + 6]))
    c.expect("}")
    c.expect("self", ".", "remove_outdated", "(", "ctx", ",", seen, ")", ";", "}")
    out = ["if (%d != header.tableId) then do" % tid, "  pure (self, ctx, q)", "else do",
           "  let %s : List Nat := []" % seen,
           "  let it ← PmtGen.PmtSection.streams sect",
           "  let (self, ctx, q, %s) ← forIter PmtGen.StreamInfoIter.next (it.buf.len + 1) it (self, ctx, q, %s)" % (seen, seen),
           "    (fun %s st => do" % var,
           "      let (self, ctx, q, %s) := st" % seen]
    out += ["      " + l for l in lines]
    out += ["      pure (self, ctx, q, %s))" % seen,
            "  let (self, q) ← remove_outdated self q %s" % seen,
            "  pure (self, ctx, q)"]
    return out


def gen_pmt_section(toks, consts):
    c = T(toks)
    c.expect("{", "let", "start", "=")
    a = c.take()[1]; c.expect("+"); b = c.take()[1]; c.expect(";")
    for x in (a, b):
        if x not in consts:
            raise ParseError("unknown constant %s" % x)
    c.expect("let", "end", "=", "data", ".", "len", "(", ")", "-")
    n = c.take()
    if n[0] != "num":
        raise ParseError("CRC size")
    c.expect(";")
    c.expect("match", "PmtSection::from_bytes", "(", "&", "data", "[", "start", "..", "end", "]", ")", "{")
    arms = {}
    for _ in range(2):
        k = c.take()[1]
        c.expect("(")
        v = c.take()[1]
        c.expect(")", "=>")
        if k == "Ok":
            c.expect("self", ".", "new_table", "(", "ctx", ",", "header", ",", "table_syntax_header", ",", "&", v, ")")
            arms["Ok"] = v
        elif k == "Err":
            if not c.skip_warn():
                raise ParseError("Err arm is not a warn!")
            arms["Err"] = v
        else:
            raise ParseError("unsupported arm %s" % k)
        c.maybe(",")
    c.expect("}"); c.maybe(";"); c.expect("}")
    if set(arms) != {"Ok", "Err"}:
        raise ParseError("match arms")
    return ["let start := (%d + %d)" % (consts[a], consts[b]),
            "let t1 ← subR data.len %d" % int(n[1]),
            "let t2 ← data.sub start t1",
            "let t3 ← PmtGen.PmtSection.from_bytes t2",
            "match t3 with",
            "| some %s => new_table construct self ctx q header %s" % (arms["Ok"], arms["Ok"]),
            "| none => pure (self, ctx, q)"]


def main():
    try:
        defaults = json.load(open(DEFAULTS_PATH))
    except Exception:
        defaults = {}
    try:
        src = strip(open(os.path.join(REPO, "src", "demultiplex.rs")).read())
        psi = strip(open(os.path.join(REPO, "src", "psi", "mod.rs")).read())
        consts = {}
        for st in ("SectionCommonHeader", "TableSyntaxHeader"):
            for im in re.finditer(r"impl(?:<[^>]*>)?\s+%s(?:<[^>]*>)?\s*\{" % st, psi):
                blk = psi[im.end():match_brace(psi, im.end() - 1)]
                for cm in re.finditer(r"const (\w+): usize = (\d+);", blk):
                    consts["psi::%s::%s" % (st, cm.group(1))] = int(cm.group(2))
        m = re.search(r"struct PatProcessor<Ctx: DemuxContext>\s*\{([^}]*)\}", src)
        if not m:
            raise ParseError("struct PatProcessor not found")
        fields = [f.group(1) for f in re.finditer(r"(\w+)\s*:\s*fixedbitset::FixedBitSet", m.group(1))]
        if len(fields) != 1:
            raise ParseError("PatProcessor fields")
        fld = fields[0]
        dm = re.search(r"fn default\(\) -> PatProcessor<Ctx>\s*\{\s*PatProcessor\s*\{\s*%s:\s*fixedbitset::FixedBitSet::with_capacity\(" % fld, src)
        if not dm:
            raise ParseError("PatProcessor::default")
        blocks = []
        for im in re.finditer(r"impl<Ctx: DemuxContext>\s+(?:psi::WholeSectionSyntaxPayloadParser for\s+)?PatProcessor<Ctx>\s*\{", src):
            blocks.append(src[im.end():match_brace(src, im.end() - 1)])
        blk = "\n".join(blocks)
        p_ro, b_ro = fn_body(blk, "remove_outdated")
        fld2, seen, ro_lines = gen_remove_outdated(p_ro, b_ro)
        if fld2 != fld:
            raise ParseError("remove_outdated uses another field")
        _, b_nt = fn_body(blk, "new_table")
        nt_lines = gen_new_table(b_nt, "table_id")
        _, b_se = fn_body(blk, "section")
        body_se = b_se
        # tolerate the trailing comma / line breaks of rustfmt in the call
        se_toks = tokenize(body_se)
        se_lines = gen_section_tokens(se_toks, consts)
        out = ["import Ts.Gen.ItersGen", "import Ts.Gen.PmtGen", "import Ts.Refl.StmtVec", "import Ts.Refl.StmtTbl", "import Ts.Model.App",
               "/-! GENERATED by tools/gen_tables.py from PatProcessor::{default, section, new_table, remove_outdated} and PmtProcessor::{new, section, new_table, remove_outdated} of /repo/src/demultiplex.rs — do not edit -/",
               "set_option linter.unusedVariables false", "namespace Ts.Gen.TablesGen", "open Ts Ts.Demux Ts.StmtVec",
               "variable {C H : Type}",
               "/-- `struct PatProcessor` (the bit set as a membership list) -/",
               "structure PatProcessor where\n  %s : List Nat" % fld,
               "namespace PatProcessor",
               "/-- `PatProcessor::default` -/", "def default : PatProcessor := { %s := [] }" % fld,
               "/-- `PatProcessor::remove_outdated` -/",
               "def remove_outdated (self : PatProcessor) (q : List (Change H)) (%s : List Nat) : R (PatProcessor × List (Change H)) := do" % seen]
        out += ["  " + l for l in ro_lines]
        out += ["/-- `PatProcessor::new_table` -/",
                "def new_table (construct : C → App.Req → R (H × C)) (self : PatProcessor) (ctx : C) (q : List (Change H)) (header : Psi.Header) (sect : Stmt.Slice) : R (PatProcessor × C × List (Change H)) := do"]
        out += ["  " + l for l in nt_lines]
        out += ["/-- `PatProcessor::section` -/",
                "def «section» (construct : C → App.Req → R (H × C)) (self : PatProcessor) (ctx : C) (q : List (Change H)) (header : Psi.Header) (data : Stmt.Slice) : R (PatProcessor × C × List (Change H)) := do"]
        out += ["  " + l for l in se_lines]
        out += ["end PatProcessor"]
        # ---- PmtProcessor
        m = re.search(r"struct PmtProcessor<Ctx: DemuxContext>\s*\{([^}]*)\}", src)
        if not m:
            raise ParseError("struct PmtProcessor not found")
        fl = re.findall(r"(\w+)\s*:\s*([^,\n]+),", m.group(1))
        want = [("pid", "packet::Pid"), ("program_number", "u16"), (fld, "fixedbitset::FixedBitSet"), ("phantom", "marker::PhantomData<Ctx>")]
        if [(a, b.strip()) for a, b in fl] != want:
            raise ParseError("PmtProcessor fields %s" % fl)
        nm = re.search(r"pub fn new\(pid: packet::Pid, program_number: u16\) -> PmtProcessor<Ctx>\s*\{\s*PmtProcessor\s*\{\s*pid,\s*program_number,\s*%s:\s*fixedbitset::FixedBitSet::with_capacity\(" % fld, src)
        if not nm:
            raise ParseError("PmtProcessor::new")
        blocks = []
        for im in re.finditer(r"impl<Ctx: DemuxContext>\s+(?:psi::WholeSectionSyntaxPayloadParser for\s+)?PmtProcessor<Ctx>\s*\{", src):
            blocks.append(src[im.end():match_brace(src, im.end() - 1)])
        pblk = "\n".join(blocks)
        p_ro2, b_ro2 = fn_body(pblk, "remove_outdated")
        fld3, seen2, ro2 = gen_remove_outdated(p_ro2, b_ro2)
        if fld3 != fld:
            raise ParseError("PmtProcessor::remove_outdated uses another field")
        _, b_nt2 = fn_body(pblk, "new_table")
        nt2 = gen_pmt_new_table(b_nt2)
        _, b_se2 = fn_body(pblk, "section")
        se2 = gen_pmt_section(tokenize(b_se2), consts)
        out[0:0] = []
        out += ["/-- `struct PmtProcessor` -/",
                "structure PmtProcessor where\n  pid : Nat\n  program_number : Nat\n  %s : List Nat" % fld,
                "namespace PmtProcessor",
                "/-- `PmtProcessor::new` -/",
                "def new (pid program_number : Nat) : PmtProcessor := { pid := pid, program_number := program_number, %s := [] }" % fld,
                "/-- `PmtProcessor::remove_outdated` -/",
                "def remove_outdated (self : PmtProcessor) (q : List (Change H)) (%s : List Nat) : R (PmtProcessor × List (Change H)) := do" % seen2]
        out += ["  " + l for l in ro2]
        out += ["/-- `PmtProcessor::new_table` -/",
                "def new_table (construct : C → Stmt.RawReq → R (H × C)) (self : PmtProcessor) (ctx : C) (q : List (Change H)) (header : Psi.Header) (sect : Stmt.Slice) : R (PmtProcessor × C × List (Change H)) := do"]
        out += ["  " + l for l in nt2]
        out += ["/-- `PmtProcessor::section` -/",
                "def «section» (construct : C → Stmt.RawReq → R (H × C)) (self : PmtProcessor) (ctx : C) (q : List (Change H)) (header : Psi.Header) (data : Stmt.Slice) : R (PmtProcessor × C × List (Change H)) := do"]
        out += ["  " + l for l in se2]
        out += ["end PmtProcessor", "end Ts.Gen.TablesGen"]
        text = "\n".join(out) + "\n"
        if "--write-defaults" in sys.argv:
            defaults["tables"] = text
            json.dump(defaults, open(DEFAULTS_PATH, "w"))
            print("wrote tables to " + DEFAULTS_PATH)
    except Exception as ex:  # anything unexpected in the source: fall back, never crash
        print("gen_tables: could not extract (recorded translation used; tie by correspondence only): PAT processor (%s)" % str(ex).replace("\n", " "), file=sys.stderr)
        text = defaults.get("tables")
        if text is None:
            text = "/-! GENERATED: translation FAILED (%s) and no recorded default -/\n" % ex
        else:
            text = text.replace("GENERATED by tools/gen_tables.py", "FALLBACK to the recorded translation (%s); GENERATED by tools/gen_tables.py" % str(ex).replace("-/", "").replace("\n", " "), 1)
    with open(OUT, "w") as f:
        f.write(text)
    return 0


def gen_section_tokens(toks, consts):
    c = T(toks)
    c.expect("{", "let", "start", "=")
    a = c.take()[1]; c.expect("+"); b = c.take()[1]; c.expect(";")
    for x in (a, b):
        if x not in consts:
            raise ParseError("unknown constant %s" % x)
    c.expect("let", "end", "=", "data", ".", "len", "(", ")", "-")
    n = c.take()
    if n[0] != "num":
        raise ParseError("CRC size")
    c.expect(";")
    c.expect("self", ".", "new_table", "(", "ctx", ",", "header", ",", "table_syntax_header", ",", "&")
    if c.take()[1] not in ("pat::PatSection::new", "PatSection::new"):
        raise ParseError("section wrapper")
    c.expect("(", "&", "data", "[", "start", "..", "end", "]", ")")
    c.maybe(",")
    c.expect(")", ";", "}")
    return ["let start := (%d + %d)" % (consts[a], consts[b]),
            "let t1 ← subR data.len %d" % int(n[1]),
            "let t2 ← data.sub start t1",
            "new_table construct self ctx q header t2"]


if __name__ == "__main__":
    sys.exit(main())
