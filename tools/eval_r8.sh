#!/bin/sh
# tools/eval_r8.sh <P> [round-tag]: evaluate /tmp/wt/<tag>-<P>/out/m*/ with eval_mutant.py (unique demo names)
P=$1; TAG=${2:-r8}
WT=/tmp/wt/$TAG-$P
cd /verif
for d in $WT/out/m*/; do
  k=$(basename $d)
  sid=$P-$TAG$k
  [ -f /verif/seeded/$sid/meta.json ] && continue
  demo=$d/demo_${P}_${TAG}${k}.rs
  cp $d/demo.rs $demo
  python3 tools/eval_mutant.py $WT $d/patch.diff $demo $d/meta.json $sid $EXTRA_PROPS
  rm -f $WT/tests/demo_${P}_${TAG}${k}.rs
done
