#!/usr/bin/env python3
"""tools/gen_iters.py — statement-level Rust -> Lean translation of the two table iterators

  ProgramIter::next      (/repo/src/psi/pat.rs,        the PAT entry loop)
  DescriptorIter::next   (/repo/src/descriptor/mod.rs, every descriptor loop)

`fn next(&mut self) -> Option<Item>` becomes `Self → R (Self × Option Item)`: the iterator's remaining
buffer after the call and what it yielded.  Built on the value-function translator of
tools/gen_packet.py, extended with `self.buf = e;`, `let (a, b) = self.buf.split_at(n);` (checked like
`split_at`), `.is_empty()`, the item constructors (`ProgramDescriptor::from_bytes`,
`Descriptor::from_bytes` — the model's `patEntryFromBytes` / `coreFromBytes`, whose bit fields and tag
table are tied separately) and the `DescriptorError` variants (their numeric payloads are not
modelled).  Anything else raises ParseError: the recorded translation (tools/gen_defaults.json, key
"iters") is written instead, the header says so, and the loops are tied through the correspondence only.

Output: lean/Ts/Gen/ItersGen.lean; `Ts/Props/Ties/StmtIters.lean` proves that the model's
run-to-exhaustion functions `patPrograms` / `descIter` ARE the translated `next` iterated.
"""
import json, os, re, sys

sys.path.insert(0, os.path.dirname(os.path.abspath(__file__)))
from gen_psi import tokenize, match_brace, ParseError, strip  # noqa: E402
import gen_packet  # noqa: E402

REPO = os.environ.get("VERIF_REPO", "/repo")
HERE = os.path.dirname(os.path.abspath(__file__))
OUT = os.environ.get("VERIF_GEN_ITERS_OUT") or os.path.join(HERE, "..", "lean", "Ts", "Gen", "ItersGen.lean")
DEFAULTS_PATH = os.path.join(HERE, "gen_defaults.json")


class Tr(gen_packet.Tr):
    def __init__(self, toks, env, item):
        super().__init__(toks, env, {}, {})
        self.item = item          # "pat" or "desc"

    def skip_braces(self):
        self.expect("{"); d = 1
        while d:
            t = self.take()
            if t[0] == "eof":
                raise ParseError("unterminated {")
            d += (t[1] == "{") - (t[1] == "}")

    def postfix(self, p, a, t):
        while t == "slice" and self.at(".", "is_empty", "(", ")"):
            self.i += 4
            a, t = "%s.bytes.isEmpty" % a, "bool"
        return super().postfix(p, a, t)

    def primary(self):
        k = self.peek()
        if k[0] == "id":
            n = k[1]
            if n == "None":
                self.take(); return [], "none", "optitem"
            if n == "Some":
                self.take(); self.expect("("); p, a, t = self.expr(); self.expect(")")
                if t != "item":
                    raise ParseError("Some(%s)" % t)
                return p, "(some %s)" % a, "optitem"
            if n == "ProgramDescriptor::from_bytes" and self.item == "pat":
                self.take(); self.expect("("); p, a, t = self.expr(); self.expect(")")
                if t != "slice":
                    raise ParseError("%s(%s)" % (n, t))
                v = self.fresh()
                return p + ["let %s ← Tables.patEntryFromBytes %s.bytes" % (v, a)], v, "item"
            if n == "Descriptor::from_bytes" and self.item == "desc":
                self.take(); self.expect("("); p, a, t = self.expr(); self.expect(")")
                if t != "slice":
                    raise ParseError("%s(%s)" % (n, t))
                v = self.fresh()
                return p + ["let %s ← Tables.coreFromBytes %s.bytes" % (v, a)], v, "item"
            if n == "Err" and self.item == "desc":
                self.take(); self.expect("(")
                e = self.take()[1]
                m = re.fullmatch(r"DescriptorError::(BufferTooShort|NotEnoughData|TagTooLongForBuffer)", e)
                if not m:
                    raise ParseError("unsupported error %s" % e)
                if self.peek()[1] == "{":
                    self.skip_braces()
                self.expect(")")
                ctor = {"BufferTooShort": "bufferTooShort", "NotEnoughData": "notEnoughData", "TagTooLongForBuffer": "tagTooLongForBuffer"}[m.group(1)]
                return [], "(Tables.DescItem.err Tables.DescErr.%s)" % ctor, "item"
        return super().primary()

    def block(self):
        self.expect("{")
        out = []
        while self.peek()[1] != "}":
            if self.peek()[0] == "id" and self.peek()[1] in ("warn", "debug", "info", "trace", "error") and self.peek(1)[1] == "!":
                self.take(); self.take(); self.skip_parens(); self.maybe(";"); continue
            if self.at("self", ".", "buf", "=") and self.peek(4)[1] != "=":
                self.i += 4
                p, a, t = self.expr(); self.expect(";")
                if t != "slice":
                    raise ParseError("self.buf = %s" % t)
                out.append(("setbuf", p, a)); continue
            if self.at("let", "("):
                self.i += 2
                x = self.take()[1]; self.expect(","); y = self.take()[1]; self.expect(")"); self.expect("=")
                p, a, t = self.postfix(*self.primary())
                if t != "slice" or not self.at(".", "split_at", "("):
                    raise ParseError("only `let (a, b) = <slice>.split_at(n)` is supported")
                self.i += 3
                q, n, _ = self.expr(); self.expect(")"); self.expect(";")
                for v in (x, y):
                    if v in self.env:
                        raise ParseError("let shadows %s" % v)
                    self.env[v] = "slice"
                out.append(("let2", x, y, p + q, a, n)); continue
            if self.peek() == ("id", "return"):
                self.take()
                p, a, t = self.expr(); self.expect(";")
                out.append(("value", p, a, t)); continue
            if self.peek() == ("id", "let"):
                self.take(); name = self.take()[1]; self.expect("=")
                p, a, t = self.expr(); self.expect(";")
                if name in self.env:
                    raise ParseError("let shadows %s" % name)
                self.env[name] = t
                out.append(("let", name, p, a)); continue
            if self.peek() == ("id", "if"):
                out.append(self.if_stmt()); self.maybe(";"); continue
            p, a, t = self.expr()
            if self.peek()[1] != "}":
                raise ParseError("expression statement not in tail position")
            out.append(("value", p, a, t))
        self.expect("}")
        return out


def gen(stmts):
    if not stmts:
        raise ParseError("a path ends without a value")
    s, rest = stmts[0], stmts[1:]
    k = s[0]
    if k == "value":
        if s[3] != "optitem":
            raise ParseError("value of type %s" % s[3])
        return s[1] + ["pure (self, %s)" % s[2]]
    if k == "let":
        return s[2] + ["let %s := %s" % (s[1], s[3])] + gen(rest)
    if k == "let2":
        # `split_at(n)` panics when n > len: both halves are checked slices
        return s[3] + ["let %s ← %s.upto %s" % (s[1], s[4], s[5]), "let %s ← %s.from %s" % (s[2], s[4], s[5])] + gen(rest)
    if k == "setbuf":
        return s[1] + ["let self := { self with buf := %s }" % s[2]] + gen(rest)
    if k == "if":
        a = gen(s[3] + rest)
        b = gen(s[4] + rest)
        return s[1] + ["if %s then do" % s[2]] + ["  " + l for l in a] + ["else do"] + ["  " + l for l in b]
    raise ParseError("cannot generate %r" % (k,))


def next_body(src, impl_re):
    im = re.search(impl_re, src)
    if not im:
        raise ParseError("impl not found: %s" % impl_re)
    i = src.index("{", im.end() - 1)
    blk = src[i + 1:match_brace(src, i)]
    fm = re.search(r"\bfn next\s*\(\s*&mut self\s*\)\s*->\s*Option<Self::Item>\s*", blk)
    if not fm:
        raise ParseError("fn next not found")
    bs = blk.index("{", fm.end() - 1)
    return blk[bs:match_brace(blk, bs) + 1]


def main():
    try:
        defaults = json.load(open(DEFAULTS_PATH))
    except Exception:
        defaults = {}
    try:
        pat = strip(open(os.path.join(REPO, "src", "psi", "pat.rs")).read())
        desc = strip(open(os.path.join(REPO, "src", "descriptor", "mod.rs")).read())
        out = ["import Ts.Refl.Stmt", "import Ts.Model.Tables",
               "/-! GENERATED by tools/gen_iters.py from ProgramIter::next (psi/pat.rs) and DescriptorIter::next (descriptor/mod.rs) — do not edit -/",
               "set_option linter.unusedVariables false", "namespace Ts.Gen.ItersGen", "open Ts",
               "/-- the iterator's field: the bytes not yet consumed -/", "structure Self where\n  buf : Stmt.Slice"]
        for (name, src, impl_re, item, ity) in (
                ("ProgramIter", pat, r"impl<'buf> Iterator for ProgramIter<'buf>\s*", "pat", "Tables.PatEntry"),
                ("DescriptorIter", desc, r"impl<'buf, Desc> Iterator for DescriptorIter<'buf, Desc>\s*where[^{]*", "desc", "Tables.DescItem")):
            body = next_body(src, impl_re)
            tr = Tr(tokenize(body), {}, item)
            lines = gen(tr.block())
            out.append("/-- `%s::next` -/" % name)
            out.append("def %s.next (self : Self) : R (Self × Option %s) := do" % (name, ity))
            out += ["  " + l for l in lines]
        out.append("end Ts.Gen.ItersGen")
        text = "\n".join(out) + "\n"
        if "--write-defaults" in sys.argv:
            defaults["iters"] = text
            json.dump(defaults, open(DEFAULTS_PATH, "w"))
            print("wrote iters to " + DEFAULTS_PATH)
    except Exception as ex:  # anything unexpected in the source: fall back, never crash
        print("gen_iters: could not extract (recorded translation used; tie by correspondence only): table iterators (%s)" % ex, file=sys.stderr)
        text = defaults.get("iters")
        if text is None:
            text = "/-! GENERATED: translation FAILED (%s) and no recorded default -/\n" % ex
        else:
            text = text.replace("GENERATED by tools/gen_iters.py", "FALLBACK to the recorded translation (%s); GENERATED by tools/gen_iters.py" % str(ex).replace("-/", ""), 1)
    with open(OUT, "w") as f:
        f.write(text)
    return 0


if __name__ == "__main__":
    sys.exit(main())
