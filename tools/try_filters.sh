#!/bin/sh
# tools/try_filters.sh <repo-dir>: as try_psi.sh, for tools/gen_filters.py and Ts/Props/Ties/StmtFilters.lean
R=${1:-/repo}
T=$(mktemp -d /tmp/filtry.XXXXXX)
mkdir -p $T/lib
cp -rs /verif/lean/.lake/build/lib/lean/Ts $T/lib/ 2>/dev/null
for f in /verif/lean/.lake/build/lib/lean/Ts.*; do ln -s $f $T/lib/; done
rm -f $T/lib/Ts/Gen/FiltersGen.* $T/lib/Ts/Props/Ties/StmtFilters.*
VERIF_REPO=$R VERIF_GEN_FILTERS_OUT=$T/FiltersGen.lean python3 /verif/tools/gen_filters.py 2>$T/err
if grep -q "could not extract" $T/err; then echo "FALLBACK: $(cat $T/err | cut -c1-200)"; else echo TRANSLATED; fi
LP=$T/lib
if (cd $T && LEAN_PATH=$LP lean -o $T/lib/Ts/Gen/FiltersGen.olean FiltersGen.lean) > $T/gen.log 2>&1 && (cd /verif/lean && LEAN_PATH=$LP lean Ts/Props/Ties/StmtFilters.lean) > $T/tie.log 2>&1; then
  echo TIE-OK
else
  echo TIE-BROKEN; cat $T/gen.log $T/tie.log 2>/dev/null | grep -h "error" | head -4
fi
rm -rf $T
