#!/usr/bin/env python3
"""tools/mutation_campaign.py — systematic single-token mutation of /repo/src against the checks.

    mutation_campaign.py list                          print the mutants (id, file:line, kind, before -> after)
    mutation_campaign.py run  <root> <workers> [ids]   run the campaign in scratch copies under <root>
    mutation_campaign.py summary <results.jsonl>       table of the outcome

For every mutant that still compiles and passes the crate's own 63 unit tests (so the existing suite
does not see it) the checks of the properties that concern the mutated file are run (quick tier) in
a private copy of /verif whose harness points at a private copy of /repo, so neither /repo nor
/verif is touched.  A surviving mutant that no check reports is either an equivalent mutant (no
observable behaviour changed) or a detection gap; those are triaged by hand (DESIGN.md section 12).

This is a test of the machinery, never a registered check.
"""
import json, os, re, shutil, subprocess, sys, time
from concurrent.futures import ThreadPoolExecutor

REPO = "/repo"
VERIF = os.path.dirname(os.path.dirname(os.path.abspath(__file__)))
FILES = ["packet.rs", "pes.rs", "psi/mod.rs", "psi/pat.rs", "psi/pmt.rs", "demultiplex.rs", "mpegts_crc.rs",
         "descriptor/mod.rs", "descriptor/avcvideo.rs", "descriptor/iso_639_language.rs",
         "descriptor/max_bitrate.rs", "descriptor/registration.rs", "lib.rs"]
# which properties concern which file (C01 concerns every file)
PROPS_OF = {
    "packet.rs": ["C12", "C13", "C15", "C06", "C01"],
    "pes.rs": ["C14", "C15", "C08", "C09", "C02", "C01"],
    "psi/mod.rs": ["C03", "C04", "C10", "C11", "C19", "C01"],
    "psi/pat.rs": ["C16", "C05", "C01"],
    "psi/pmt.rs": ["C16", "C05", "C17", "C01"],
    "demultiplex.rs": ["C06", "C07", "C18", "C05", "C10", "C04", "C01"],
    "mpegts_crc.rs": ["C04"],
    "descriptor/mod.rs": ["C17", "C16", "C01"],
    "descriptor/avcvideo.rs": ["C17"],
    "descriptor/iso_639_language.rs": ["C17", "C01"],
    "descriptor/max_bitrate.rs": ["C17"],
    "descriptor/registration.rs": ["C17"],
    "lib.rs": ["C05", "C02"],
}

def non_test_lines(text):
    """(line number, text) of the non-test part, skipping comments, attributes, log/assert messages"""
    cut = text.find("#[cfg(test)]")
    body = text if cut < 0 else text[:cut]
    out = []
    in_macro_msg = 0
    for i, line in enumerate(body.split("\n"), 1):
        s = line.strip()
        if not s or s.startswith("//") or s.startswith("#[") or s.startswith("#!["):
            continue
        # skip the arguments of warn!( … ) (messages only; the branch around it is still mutated)
        if re.match(r"(warn|info|debug|trace|error)!\(", s) or in_macro_msg:
            in_macro_msg += s.count("(") - s.count(")")
            if in_macro_msg <= 0:
                in_macro_msg = 0
            continue
        out.append((i, line))
    return out

NUM = re.compile(r"(?<![\w.])(0b[01_]+|0x[0-9a-fA-F_]+|\d[\d_]*)(?![\w.]*\()")
def num_mutants(tok):
    t = tok.replace("_", "")
    v = int(t, 0)
    res = []
    def fmt(x):
        if x < 0:
            return None
        if tok.startswith("0b"):
            return "0b" + format(x, "0%db" % (len(t) - 2))
        if tok.startswith("0x"):
            return "0x" + format(x, "0%dx" % (len(t) - 2))
        return str(x)
    if not tok.startswith("0b") or v == 0:
        for x in ((v + 1,) if v >= 0x100 else (v + 1, v - 1)):
            f = fmt(x)
            if f is not None:
                res.append(f)
    if tok.startswith("0b") and v:
        # drop the lowest set bit / set the next higher bit (mask too narrow / too wide)
        low = v & -v
        res.append(fmt(v & ~low))
        res.append(fmt(v | (1 << v.bit_length())))
    return [r for r in dict.fromkeys(res) if r is not None and r != tok]

SWAPS = [("<=", "<"), (">=", ">"), ("==", "!="), ("!=", "=="), ("&&", "||"), ("||", "&&"),
         (" < ", " <= "), (" > ", " >= "), (" + ", " - "), (" - ", " + "), ("<<", ">>"), (">>", "<<"),
         (" & ", " | "), (" | ", " & ")]

DELETABLE = re.compile(r"^\s*(self\.[\w.]+\s*=\s*[^;]+;|self\.[\w.]+\([^;]*\);|[\w.]+\.(clear|reset|remove|insert|push|extend_from_slice|truncate)\([^;]*\);|return;|break[^;]*;|continue;)\s*$")

def mutants():
    out = []
    for f in FILES:
        text = open(os.path.join(REPO, "src", f)).read()
        for (ln, line) in non_test_lines(text):
            code = line.split("//")[0]
            if f == "lib.rs" and re.search(r"pub const \w+: StreamType", code):
                continue          # names of stream types: no property speaks about them (is_pes ranges are kept)
            if "\"" in code and ("panic!" in code or "assert" in code or "write!" in code or "format_args" in code or "debug_struct" in code or ".field(" in code):
                # format strings / messages: only the condition part of an assert is interesting
                if "assert" not in code:
                    continue
            for k, m in enumerate(NUM.finditer(code)):
                tok = m.group(1)
                if f == "mpegts_crc.rs" and tok.startswith("0x") and len(tok) == 10 and (ln * 8 + k) % 16 != 0:
                    continue          # the CRC table: every 16th entry
                if m.start() > 0 and code[m.start() - 1] in "'\"":
                    continue
                for r in num_mutants(tok):
                    out.append((f, ln, m.start(), tok, r, "num"))
            for (a, b) in SWAPS:
                start = 0
                while True:
                    j = code.find(a, start)
                    if j < 0:
                        break
                    start = j + len(a)
                    # do not touch generics / arrows / lifetimes / references
                    ctx = code[max(0, j - 2):j + len(a) + 2]
                    if a.strip() in ("<", ">") and ("->" in ctx or "=>" in ctx or "<'" in code or "::<" in code or "impl" in code or "fn " in code or "Option<" in code or "Result<" in code):
                        continue
                    if a.strip() in ("&", "|") and ("&self" in code or "&mut" in code or "&'" in code or "|s|" in code or "||" in ctx or "&&" in ctx or "&[" in code or "(&" in code or "|v|" in code or "|e|" in code or "|_|" in code):
                        continue
                    if a in ("<<", ">>") and ("<<=" in ctx or ">>=" in ctx or ">>>" in ctx):
                        continue
                    if a in ("<=", ">=") and "=>" in ctx:
                        continue
                    out.append((f, ln, j, a, b, "op"))
            if DELETABLE.match(code):
                out.append((f, ln, 0, code.strip(), "", "del"))
            m = re.match(r"^(\s*)(if|while) (.+) \{\s*$", code)
            if m and "let " not in m.group(3):
                out.append((f, ln, 0, code.rstrip(), "%s%s !(%s) {" % (m.group(1), m.group(2), m.group(3)), "neg"))
    return [dict(id=i, file=f, line=ln, col=c, before=a, after=b, kind=k) for i, (f, ln, c, a, b, k) in enumerate(out)]

def apply(repo, mu):
    p = os.path.join(repo, "src", mu["file"])
    lines = open(p).read().split("\n")
    line = lines[mu["line"] - 1]
    if mu["kind"] == "del":
        ind = re.match(r"\s*", line).group(0)
        lines[mu["line"] - 1] = ind + "// mutant: deleted"
    elif mu["kind"] == "neg":
        lines[mu["line"] - 1] = mu["after"]
    else:
        c = mu["col"]
        assert line[c:c + len(mu["before"])] == mu["before"], (line, mu)
        lines[mu["line"] - 1] = line[:c] + mu["after"] + line[c + len(mu["before"]):]
    open(p, "w").write("\n".join(lines))

def sh(cmd, cwd, env=None, timeout=1800):
    e = dict(os.environ); e["CARGO_NET_OFFLINE"] = "true"
    if env:
        e.update(env)
    try:
        p = subprocess.run(cmd, cwd=cwd, shell=True, env=e, stdout=subprocess.PIPE, stderr=subprocess.STDOUT, text=True, timeout=timeout)
        return p.returncode, p.stdout
    except subprocess.TimeoutExpired:
        return 124, "TIMEOUT"

def setup_worker(root, w):
    d = os.path.join(root, "w%d" % w)
    repo, verif = os.path.join(d, "repo"), os.path.join(d, "verif")
    if not os.path.exists(repo):
        os.makedirs(d, exist_ok=True)
        sh("git -C /repo worktree prune; cp -r /repo %s && rm -rf %s/target %s/.git" % (repo, repo, repo), "/")
        sh("rsync -a --exclude .git --exclude replays --exclude work --exclude seeded --exclude corpus %s/ %s/" % (VERIF, verif), "/")
        os.makedirs(os.path.join(verif, "corpus"), exist_ok=True)
        ct = os.path.join(verif, "harness", "Cargo.toml")
        open(ct, "w").write(open(ct).read().replace('path = "/repo"', 'path = "%s"' % repo))
    return repo, verif

def run_one(root, w, mu, results_path):
    repo, verif = setup_worker(root, w)
    orig = open(os.path.join(REPO, "src", mu["file"])).read()
    t0 = time.time()
    res = dict(mu)
    try:
        apply(repo, mu)
        rc, out = sh("cargo test --offline --lib 2>&1 | tail -40", repo, timeout=900)
        if "test result: ok" not in out:
            res["suite"] = "compile-error" if ("error[" in out or "error:" in out) and "test result" not in out else "killed-by-tests"
        else:
            res["suite"] = "passes"
            res["checks"] = {}
            for p in PROPS_OF[mu["file"]]:
                rc, out = sh("./check %s --tier quick" % p, verif, env={"VERIF_REPO": repo}, timeout=2400)
                v = [l for l in out.splitlines() if l.startswith("VIOLATION")]
                res["checks"][p] = {"exit": rc, "violation": (v[0][:160] if v else "")}
                if rc != 0:
                    break          # caught: no need to run the remaining checks
            res["caught_by"] = [p for p, r in res["checks"].items() if r["exit"] != 0]
    finally:
        open(os.path.join(repo, "src", mu["file"]), "w").write(orig)
    res["wall_s"] = round(time.time() - t0, 1)
    with open(results_path, "a") as f:
        f.write(json.dumps(res) + "\n")
    return res

def main():
    cmd = sys.argv[1]
    if cmd == "list":
        for m in mutants():
            print("%4d %-28s %-4s %r -> %r" % (m["id"], "%s:%d" % (m["file"], m["line"]), m["kind"], m["before"][:50], m["after"][:50]))
        return
    if cmd == "run":
        root, workers = sys.argv[2], int(sys.argv[3])
        ms = mutants()
        if len(sys.argv) > 4:
            ids = set()
            for a in sys.argv[4:]:
                if "-" in a:
                    lo, hi = a.split("-"); ids |= set(range(int(lo), int(hi) + 1))
                elif a.startswith("%"):
                    k = int(a[1:]); ids |= set(range(0, len(ms), k))
                else:
                    ids.add(int(a))
            ms = [m for m in ms if m["id"] in ids]
        results = os.path.join(root, "results.jsonl")
        os.makedirs(root, exist_ok=True)
        done = set()
        if os.path.exists(results):
            done = {json.loads(l)["id"] for l in open(results)}
        ms = [m for m in ms if m["id"] not in done]
        print("%d mutants to run with %d workers" % (len(ms), workers), flush=True)
        import queue
        q = queue.Queue()
        for m in ms:
            q.put(m)
        def worker(w):
            while True:
                try:
                    m = q.get_nowait()
                except queue.Empty:
                    return
                r = run_one(root, w, m, results)
                print("w%d #%d %s:%d %s %s -> %s" % (w, m["id"], m["file"], m["line"], m["kind"], r.get("suite"), r.get("caught_by")), flush=True)
        with ThreadPoolExecutor(workers) as ex:
            list(ex.map(worker, range(workers)))
        return
    if cmd == "summary":
        rs = [json.loads(l) for l in open(sys.argv[2])]
        n = len(rs)
        comp = [r for r in rs if r["suite"] == "compile-error"]
        killed = [r for r in rs if r["suite"] == "killed-by-tests"]
        passes = [r for r in rs if r["suite"] == "passes"]
        caught = [r for r in passes if r["caught_by"]]
        missed = [r for r in passes if not r["caught_by"]]
        print("mutants %d: compile-error %d, killed by the existing tests %d, pass the suite %d -> caught by a check %d, not reported %d"
              % (n, len(comp), len(killed), len(passes), len(caught), len(missed)))
        for r in missed:
            print("  NOT REPORTED #%d %s:%d %s %r -> %r (ran %s)" % (r["id"], r["file"], r["line"], r["kind"], r["before"][:60], r["after"][:60], ",".join(r["checks"])))
        return

if __name__ == "__main__":
    main()
