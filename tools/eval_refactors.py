#!/usr/bin/env python3
"""tools/eval_refactors.py <dir-with-refactorN.diff>: apply each behaviour-preserving rewrite to /repo,
run every check (quick), undo; a check that raises an alarm here is a FALSE alarm."""
import glob, json, os, subprocess, sys
def sh(cmd, cwd=None):
    p = subprocess.run(cmd, cwd=cwd, shell=True, stdout=subprocess.PIPE, stderr=subprocess.STDOUT, text=True)
    return p.returncode, p.stdout
d = sys.argv[1]
props = ["C%02d" % i for i in range(1, 20)]
rc, out = sh("git -C /repo status --porcelain")
assert not out.strip(), "repo not clean"
res = {}
for f in sorted(glob.glob(os.path.join(d, "refactor*.diff"))):
    name = os.path.basename(f)
    rc, out = sh("git -C /repo apply %s" % f)
    if rc != 0:
        print(name, "does not apply", out[:200]); continue
    alarms = {}
    try:
        rc, out = sh("cd /repo && cargo test --offline --lib 2>&1 | grep '^test result'")
        suite = out.strip()
        for p in props:
            rc, out = sh("./check %s --tier quick" % p, cwd="/verif")
            if rc != 0:
                alarms[p] = [l for l in out.splitlines() if l.startswith("VIOLATION")][:3]
    finally:
        sh("git -C /repo checkout -- .")
    res[name] = {"existing_suite": suite, "alarms": alarms}
    print(name, suite, "ALARMS:" if alarms else "no alarm", json.dumps(alarms)[:400])
json.dump(res, open("/verif/seeded/refactors_result.json", "w"), indent=1)
