#!/usr/bin/env python3
"""tools/gen_exprs.py — a small Rust-expression -> Lean translator for the bit-field extraction
expressions of /repo/src (brief: "the model is regenerated from the source on every run by a
translator you write").

For every target of TARGETS the script locates the expression in the CURRENT source text (anchor
regex ending immediately before the expression), parses it with Rust's operator precedence
(`as` > `* / %` > `+ -` > `<< >>` > `&` > `^` > `|` > comparisons), infers integer widths
(`buf[i]` and named scalars are u8; `uN::from(e)` / `e as uN` give N; a left shift is truncated to
the width of its left operand, as in Rust) and writes a Lean definition over a byte environment
`e : Nat → Nat` into lean/Ts/Gen/Exprs.lean.  The theorems of lean/Ts/Props/Ties/Expr*.lean then
prove, for ALL byte values, that the translated expression equals the corresponding expression of
the hand-written model (semantically: `decide +kernel` over the byte values for one- and two-byte
expressions, the OR-homomorphism extensionality principle of Ts/Refl/OrHom.lean for wider ones),
so a changed mask, shift, index, width or operator in the source breaks a proof obligation of the
property that depends on it, while a harmless re-association or an equivalent mask/shift rewrite
does not.

If a target cannot be located or parsed (the source was restructured) the recorded translation in
tools/gen_defaults.json is used, the file header and stderr say so, and that expression is then
tied through the correspondence run only (no alarm from the translator itself).
"""
import json, os, re, sys

REPO = os.environ.get("VERIF_REPO", "/repo")
HERE = os.path.dirname(os.path.abspath(__file__))
OUT = os.environ.get("VERIF_GEN_EXPRS_OUT") or os.path.join(HERE, "..", "lean", "Ts", "Gen", "Exprs.lean")
DEFAULTS_PATH = os.path.join(HERE, "gen_defaults.json")

class ParseError(Exception):
    pass

# ------------------------------------------------------------------------------------------------
# tokenizer
TOK = re.compile(r"""\s*(?:
    (?P<str>"(?:\\.|[^"\\])*")
  | (?P<num>0b[01_]+|0x[0-9a-fA-F_]+|[0-9][0-9_]*)(?P<suf>u8|u16|u32|u64|usize)?
  | (?P<id>[A-Za-z_][A-Za-z0-9_]*(?:(?:::|\.)[A-Za-z0-9_]+)*)
  | (?P<op>=>|<<|>>|==|!=|<=|>=|&&|\|\||[-+*/%&|^()\[\]<>!,;{}=])
)""", re.X)

def tokenize(s):
    pos, out = 0, []
    while pos < len(s):
        m = TOK.match(s, pos)
        if not m:
            if s[pos:].strip() == "":
                break
            raise ParseError("cannot tokenize at %r" % s[pos:pos + 20])
        pos = m.end()
        if m.group("str"):
            out.append(("str", "<string>", None))
        elif m.group("num"):
            out.append(("num", m.group("num"), m.group("suf")))
        elif m.group("id"):
            out.append(("id", m.group("id"), None))
        else:
            out.append(("op", m.group("op"), None))
    return out

WIDTHS = {"u8": 8, "u16": 16, "u32": 32, "u64": 64, "usize": 64}

class Node:
    def __init__(self, kind, width, lean, linear, bytes_used, binds=None):
        self.kind, self.width, self.lean, self.linear, self.bytes = kind, width, lean, linear, bytes_used
        self.binds = binds or []      # [(var, Option-valued Lean expression)] evaluated before `lean`

class Parser:
    """precedence-climbing parser over the token list; stops at the first token that cannot
    continue the expression (`,` `;` `)` `}` …)."""
    def __init__(self, toks, arrays, scalars, calls=None, consts=None):
        self.t, self.i, self.arrays, self.scalars = toks, 0, arrays, scalars
        self.calls, self.consts, self.fresh = calls or {}, consts or {}, 0
    def var(self):
        self.fresh += 1
        return "v%d" % self.fresh
    def peek(self):
        return self.t[self.i] if self.i < len(self.t) else ("eof", "", None)
    def take(self):
        x = self.peek(); self.i += 1; return x
    def expect(self, v):
        k = self.take()
        if k[1] != v:
            raise ParseError("expected %r, got %r" % (v, k[1]))

    LEVELS = [["==", "!="], ["|"], ["^"], ["&"], ["<<", ">>"], ["+", "-"], ["*"]]

    def parse(self, lvl=0):
        if lvl == len(self.LEVELS):
            return self.cast()
        left = self.parse(lvl + 1)
        while self.peek()[0] == "op" and self.peek()[1] in self.LEVELS[lvl]:
            op = self.take()[1]
            right = self.parse(lvl + 1)
            left = self.binop(op, left, right)
            if lvl == 0:
                break            # comparisons do not chain
        return left

    def cast(self):
        x = self.atom()
        while self.peek() == ("id", "as", None):
            self.take()
            ty = self.take()
            if ty[0] != "id" or ty[1] not in WIDTHS:
                raise ParseError("unsupported cast target %r" % (ty[1],))
            w = WIDTHS[ty[1]]
            if x.kind == "bool":
                raise ParseError("cast of bool")
            if x.width is not None and x.width > w:
                x = Node("int", w, "(%s %% 2 ^ %d)" % (x.lean, w), x.linear, x.bytes)
            else:
                x = Node("int", w, x.lean, x.linear, x.bytes)
        return x

    def atom(self):
        k = self.take()
        if k[0] == "num":
            v = int(k[1].replace("_", ""), 0)
            return Node("lit", WIDTHS.get(k[2]) if k[2] else None, str(v), True, set())
        if k == ("op", "(", None):
            x = self.parse(0)
            self.expect(")")
            return Node(x.kind, x.width, x.lean, x.linear, x.bytes)
        if k[0] == "id":
            name = k[1]
            m = re.fullmatch(r"(u8|u16|u32|u64|usize)::from", name)
            if m:
                self.expect("(")
                x = self.parse(0)
                self.expect(")")
                if x.kind == "bool":
                    return Node("int", WIDTHS[m.group(1)], "(if %s then 1 else 0)" % x.lean, False, x.bytes, x.binds)
                return Node("int", WIDTHS[m.group(1)], x.lean, x.linear, x.bytes, x.binds)
            if name == "if":
                c = self.parse(0)
                if c.kind != "bool":
                    raise ParseError("if on a non-bool")
                self.expect("{"); a = self.parse(0); self.expect("}")
                k = self.take()
                if k[1] != "else":
                    raise ParseError("if without else")
                self.expect("{"); b = self.parse(0); self.expect("}")
                if a.binds or b.binds:
                    raise ParseError("partial call inside a branch")
                if a.kind == "bool" or b.kind == "bool":
                    raise ParseError("bool-valued if")
                w = a.width if a.width is not None else b.width
                return Node("int", w, "(if %s then %s else %s)" % (c.lean, a.lean, b.lean), False, c.bytes | a.bytes | b.bytes, c.binds)
            if name == "match":
                sc = self.parse(0)
                self.expect("{")
                arms, w, used, has_panic = [], None, set(sc.bytes), False
                while self.peek()[1] != "}":
                    pat = self.take()
                    self.expect("=>")
                    if self.peek() == ("id", "panic", None):
                        self.take(); self.expect("!"); self.expect("(")
                        depth = 1
                        while depth:
                            t = self.take()
                            if t[0] == "eof":
                                raise ParseError("unterminated panic!")
                            depth += (t[1] == "(") - (t[1] == ")")
                        body = None; has_panic = True
                    else:
                        body = self.parse(0)
                        if body.binds or body.kind == "bool":
                            raise ParseError("unsupported match arm")
                        w = w if w is not None else body.width
                        used |= body.bytes
                    if self.peek()[1] == ",":
                        self.take()
                    if pat[0] == "num":
                        arms.append((str(int(pat[1].replace("_", ""), 0)), body))
                    elif pat[0] == "id":
                        arms.append(("_", body))
                    else:
                        raise ParseError("unsupported pattern")
                self.expect("}")
                if has_panic:
                    v = self.var()
                    txt = "(match %s with %s)" % (sc.lean, " ".join("| %s => %s" % (p_, ("some %s" % b_.lean) if b_ is not None else "none") for p_, b_ in arms))
                    return Node("int", w, v, False, used, sc.binds + [(v, txt)])
                txt = "(match %s with %s)" % (sc.lean, " ".join("| %s => %s" % (p_, b_.lean) for p_, b_ in arms))
                return Node("int", w, txt, False, used, sc.binds)
            if name in self.consts:
                return Node("lit", 64, str(self.consts[name]), True, set())
            if name in self.calls and self.peek()[1] == "(":
                self.take(); self.expect(")")
                lname, kind, partial = self.calls[name]
                if partial:
                    v = self.var()
                    return Node("int", 64, v, False, set(), [(v, "%s e" % lname)])
                return Node("bool" if kind == "Bool" else "int", None if kind == "Bool" else (8 if kind == "Nat8" else 64), "%s e" % lname, False, set())
            if name in self.arrays:
                self.expect("[")
                idx = self.take()
                if idx[0] != "num":
                    raise ParseError("non-literal index")
                self.expect("]")
                n = int(idx[1].replace("_", ""), 0)
                return Node("int", 8, "e %d" % n, True, {n})
            if name in self.scalars:
                n = self.scalars[name]
                return Node("int", 8, "e %d" % n, True, {n})
            raise ParseError("unknown identifier %r" % name)
        raise ParseError("unexpected token %r" % (k[1],))

    def binop(self, op, a, b):
        if a.kind == "bool" or b.kind == "bool":
            raise ParseError("operator on bool")
        w = a.width if a.width is not None else b.width
        if a.width is not None and b.width is not None and a.width != b.width and op not in ("<<", ">>"):
            raise ParseError("width mismatch %s %s %s" % (a.width, op, b.width))
        used = a.bytes | b.bytes
        if a.binds or b.binds:
            n = self.binop_pure(op, a, b)
            n.binds = a.binds + b.binds
            return n
        return self.binop_pure(op, a, b)

    def binop_pure(self, op, a, b):
        w = a.width if a.width is not None else b.width
        used = a.bytes | b.bytes
        if a.kind == "lit" and b.kind == "lit" and op in ("&", "|", "^", "<<", ">>", "+", "*"):
            # constant folding (the literal takes its width from the context, as in Rust)
            x, y = int(a.lean), int(b.lean)
            v = {"&": x & y, "|": x | y, "^": x ^ y, "<<": x << y, ">>": x >> y, "+": x + y, "*": x * y}[op]
            if w is not None:
                v %= 1 << w
            return Node("lit", w if op not in ("<<", ">>") else a.width, str(v), True, set())
        if op in ("==", "!="):
            return Node("bool", None, "(%s %s %s)" % (a.lean, op, b.lean), False, used)
        if op == "&":
            lin = a.linear and b.linear and (a.kind == "lit" or b.kind == "lit")
            return Node("int", w, "(%s &&& %s)" % (a.lean, b.lean), lin, used)
        if op == "|":
            lin = a.linear and b.linear and a.kind != "lit" and b.kind != "lit"
            return Node("int", w, "(%s ||| %s)" % (a.lean, b.lean), lin, used)
        if op == "^":
            return Node("int", w, "(%s ^^^ %s)" % (a.lean, b.lean), False, used)
        if op in ("<<", ">>"):
            if b.kind != "lit":
                raise ParseError("non-literal shift amount")
            k = int(b.lean)
            wl = a.width
            if wl is None:
                raise ParseError("shift of an untyped literal")
            if k >= wl:
                raise ParseError("shift amount %d >= width %d (panics in Rust)" % (k, wl))
            if op == "<<":
                return Node("int", wl, "((%s <<< %d) %% 2 ^ %d)" % (a.lean, k, wl), a.linear, used)
            return Node("int", wl, "(%s >>> %d)" % (a.lean, k), a.linear, used)
        if op in ("+", "-", "*"):
            if w is None:
                w = 64            # untyped integer arithmetic in a `usize` function
            if op == "-":
                raise ParseError("subtraction not supported")
            return Node("int", w, "((%s %s %s) %% 2 ^ %d)" % (a.lean, op, b.lean, w), False, used)
        raise ParseError("operator %r" % op)

# ------------------------------------------------------------------------------------------------
# targets: lean name -> (file, anchor regex (DOTALL) ending just before the expression,
#                        array names, scalar names -> byte index)
A_SELFBUF = ["self.buf"]
def fn_body(name, ret):
    return r"fn %s\(&self\) -> %s \{\s*" % (name, ret)

TARGETS = [
    # ---- packet.rs: fixed header (C12)
    ("pk_tei", "packet.rs", fn_body("transport_error_indicator", "bool"), A_SELFBUF, {}),
    ("pk_pusi", "packet.rs", fn_body("payload_unit_start_indicator", "bool"), A_SELFBUF, {}),
    ("pk_prio", "packet.rs", fn_body("transport_priority", "bool"), A_SELFBUF, {}),
    ("pk_pid", "packet.rs", fn_body("pid", "Pid") + r"Pid\(", A_SELFBUF, {}),
    ("pk_cc", "packet.rs", fn_body("continuity_counter", "ContinuityCounter") + r"ContinuityCounter::new\(", A_SELFBUF, {}),
    ("pk_af_len", "packet.rs", fn_body("adaptation_field_length", "usize"), A_SELFBUF, {}),
    ("ac_new", "packet.rs", r"fn new\(header_byte: u8\) -> AdaptationControl \{\s*AdaptationControl\(", [], {"header_byte": 0}),
    ("ac_has_payload", "packet.rs", fn_body("has_payload", "bool"), [], {"self.0": 0}),
    ("ac_has_af", "packet.rs", fn_body("has_adaptation_field", "bool"), [], {"self.0": 0}),
    ("tsc_new", "packet.rs", r"fn from_byte_four\(val: u8\) -> TransportScramblingControl \{\s*TransportScramblingControl\(", [], {"val": 0}),
    ("tsc_is_scrambled", "packet.rs", fn_body("is_scrambled", "bool"), [], {"self.0": 0}),
    ("tsc_scheme", "packet.rs", r"fn scheme\(&self\) -> Option<NonZeroU8> \{\s*let scheme = ", [], {"self.0": 0}),
    ("cc_follows", "packet.rs", r"fn follows\(self, other: ContinuityCounter\) -> bool \{\s*", [], {"other.val": 0, "self.val": 1}),
    # ---- packet.rs: clock reference (C15), adaptation field (C13)
    ("cref_base", "packet.rs", r"fn from_slice\(data: &\[u8\]\) -> ClockRef \{\s*ClockRef \{\s*base: ", ["data"], {}),
    ("cref_ext", "packet.rs", r"fn from_slice\(data: &\[u8\]\) -> ClockRef \{.*?\n\s*extension: ", ["data"], {}),
    ("af_discontinuity", "packet.rs", fn_body("discontinuity_indicator", "bool"), A_SELFBUF, {}),
    ("af_random_access", "packet.rs", fn_body("random_access_indicator", "bool"), A_SELFBUF, {}),
    ("af_es_priority", "packet.rs", fn_body("elementary_stream_priority_indicator", "u8"), A_SELFBUF, {}),
    ("af_pcr_flag", "packet.rs", fn_body("pcr_flag", "bool"), A_SELFBUF, {}),
    ("af_opcr_flag", "packet.rs", fn_body("opcr_flag", "bool"), A_SELFBUF, {}),
    ("af_splice_flag", "packet.rs", fn_body("splicing_point_flag", "bool"), A_SELFBUF, {}),
    ("af_private_flag", "packet.rs", fn_body("transport_private_data_flag", "bool"), A_SELFBUF, {}),
    ("af_ext_flag", "packet.rs", fn_body("adaptation_field_extension_flag", "bool"), A_SELFBUF, {}),
    ("ext_ltw_flag", "packet.rs", fn_body("ltw_flag", "bool"), A_SELFBUF, {}),
    ("ext_piecewise_flag", "packet.rs", fn_body("piecewise_rate_flag", "bool"), A_SELFBUF, {}),
    ("ext_seamless_flag", "packet.rs", fn_body("seamless_splice_flag", "bool"), A_SELFBUF, {}),
    ("ext_ltw_valid", "packet.rs", r"let ltw_valid_flag = ", ["dat"], {}),
    ("ext_ltw_offset", "packet.rs", r"Ok\(if ltw_valid_flag \{\s*Some\(", ["dat"], {}),
    ("ext_piecewise_rate", "packet.rs", r"fn piecewise_rate\(&self\) -> Result<u32, AdaptationFieldError> \{.*?\n\s*Ok\(", ["dat"], {}),
    ("ext_splice_type", "packet.rs", r"splice_type: ", ["dat"], {}),
    # ---- pes.rs: PES header (C14) and timestamps (C15)
    ("pes_start_code", "pes.rs", r"let packet_start_code_prefix =\s*", ["buf"], {}),
    ("pes_packet_length", "pes.rs", r"fn pes_packet_length\(&self\) -> PesLength \{\s*let len = ", A_SELFBUF, {}),
    ("pes_check_bits", "pes.rs", r"let check_bits = ", ["buf"], {}),
    ("pes_priority", "pes.rs", fn_body("pes_priority", "u8"), A_SELFBUF, {}),
    ("pes_data_alignment", "pes.rs", fn_body("data_alignment_indicator", "DataAlignment") + r"if ", A_SELFBUF, {}),
    ("pes_copyright", "pes.rs", fn_body("copyright", "Copyright") + r"if ", A_SELFBUF, {}),
    ("pes_original", "pes.rs", fn_body("original_or_copy", "OriginalOrCopy") + r"if ", A_SELFBUF, {}),
    ("pes_pts_dts_flags", "pes.rs", fn_body("pts_dts_flags", "u8"), A_SELFBUF, {}),
    ("pes_escr_flag", "pes.rs", fn_body("escr_flag", "bool"), A_SELFBUF, {}),
    ("pes_esrate_flag", "pes.rs", fn_body("esrate_flag", "bool"), A_SELFBUF, {}),
    ("pes_trick_flag", "pes.rs", fn_body("dsm_trick_mode_flag", "bool"), A_SELFBUF, {}),
    ("pes_copy_info_flag", "pes.rs", fn_body("additional_copy_info_flag", "bool"), A_SELFBUF, {}),
    ("pes_crc_flag", "pes.rs", fn_body("pes_crc_flag", "bool"), A_SELFBUF, {}),
    ("pes_ext_flag", "pes.rs", fn_body("pes_extension_flag", "bool"), A_SELFBUF, {}),
    ("pes_header_data_len", "pes.rs", fn_body("pes_header_data_len", "usize"), A_SELFBUF, {}),
    ("pes_escr_base", "pes.rs", r"fn escr\(&self\) -> Result<ClockRef, PesError> \{.*?let base = ", ["s"], {}),
    ("pes_escr_ext", "pes.rs", r"fn escr\(&self\) -> Result<ClockRef, PesError> \{.*?let extension =\s*", ["s"], {}),
    ("pes_es_rate", "pes.rs", r"EsRate::new\(\s*", ["s"], {}),
    ("pes_trick_control", "pes.rs", r"let trick_mode_control = ", ["s"], {}),
    ("pes_trick_data", "pes.rs", r"let trick_mode_data = ", ["s"], {}),
    ("pes_trick_field_id", "pes.rs", r"DsmTrickMode::FastForward \{\s*field_id: ", [], {"trick_mode_data": 0}),
    ("pes_trick_intra", "pes.rs", r"DsmTrickMode::FastForward \{.*?intra_slice_refresh: ", [], {"trick_mode_data": 0}),
    ("pes_trick_freq", "pes.rs", r"DsmTrickMode::FastForward \{.*?from_id\(\s*", [], {"trick_mode_data": 0}),
    ("pes_trick_freeze_reserved", "pes.rs", r"DsmTrickMode::FreezeFrame \{.*?reserved: ", [], {"trick_mode_data": 0}),
    ("pes_copy_info_marker_clear", "pes.rs", r"fn additional_copy_info\(&self\).*?\.and_then\(\|s\| \{\s*if ", ["s"], {}),
    ("pes_copy_info", "pes.rs", r"fn additional_copy_info\(&self\).*?\} else \{\s*Ok\(", ["s"], {}),
    ("pes_prev_crc", "pes.rs", r"fn previous_pes_packet_crc\(&self\).*?\.map\(\|s\| ", ["s"], {}),
    ("ts_prefix", "pes.rs", r"let actual = ", ["buf"], {}),
    ("ts_val", "pes.rs", r"Ok\(Timestamp \{\s*val: ", ["buf"], {}),
    # ---- psi: section headers (C03/C16), PAT/PMT bodies (C16)
    ("tsh_id", "psi/mod.rs", fn_body("id", "u16"), A_SELFBUF, {}),
    ("tsh_version", "psi/mod.rs", fn_body("version", "u8"), A_SELFBUF, {}),
    ("sch_syntax", "psi/mod.rs", r"SectionCommonHeader \{\s*table_id: buf\[0\],\s*section_syntax_indicator: ", ["buf"], {}),
    ("sch_private", "psi/mod.rs", r"SectionCommonHeader \{\s*table_id: .*?private_indicator: ", ["buf"], {}),
    ("sch_length", "psi/mod.rs", r"SectionCommonHeader \{\s*table_id: .*?section_length: ", ["buf"], {}),
    ("pat_program_number", "psi/pat.rs", r"let program_number = ", ["data"], {}),
    ("pat_pid", "psi/pat.rs", r"let pid = packet::Pid::new\(", ["data"], {}),
    ("pmt_pcr_pid", "psi/pmt.rs", fn_body("pcr_pid", "packet::Pid") + r"packet::Pid::new\(", ["self.data"], {}),
    ("pmt_program_info_length", "psi/pmt.rs", fn_body("program_info_length", "u16"), ["self.data"], {}),
    ("pmt_elementary_pid", "psi/pmt.rs", fn_body("elementary_pid", "packet::Pid") + r"packet::Pid::new\(", ["self.data"], {}),
    ("pmt_es_info_length", "psi/pmt.rs", fn_body("es_info_length", "u16"), ["self.data"], {}),
    # ---- descriptors (C17)
    ("avc_cs0", "descriptor/avcvideo.rs", fn_body("constraint_set0_flag", "bool"), A_SELFBUF, {}),
    ("avc_cs1", "descriptor/avcvideo.rs", fn_body("constraint_set1_flag", "bool"), A_SELFBUF, {}),
    ("avc_cs2", "descriptor/avcvideo.rs", fn_body("constraint_set2_flag", "bool"), A_SELFBUF, {}),
    ("avc_cs3", "descriptor/avcvideo.rs", fn_body("constraint_set3_flag", "bool"), A_SELFBUF, {}),
    ("avc_cs4", "descriptor/avcvideo.rs", fn_body("constraint_set4_flag", "bool"), A_SELFBUF, {}),
    ("avc_cs5", "descriptor/avcvideo.rs", fn_body("constraint_set5_flag", "bool"), A_SELFBUF, {}),
    ("avc_compat", "descriptor/avcvideo.rs", fn_body("avc_compatible_flags", "u8"), A_SELFBUF, {}),
    ("avc_still", "descriptor/avcvideo.rs", fn_body("avc_still_present", "bool"), A_SELFBUF, {}),
    ("avc_24h", "descriptor/avcvideo.rs", fn_body("avc_24_hour_picture_flag", "bool"), A_SELFBUF, {}),
    ("avc_fpsei", "descriptor/avcvideo.rs", fn_body("frame_packing_sei_not_present_flag", "bool"), A_SELFBUF, {}),
    ("maxbr_rate", "descriptor/max_bitrate.rs", fn_body("maximum_bitrate", "u32"), A_SELFBUF, {}),
]

# ---- flag-dependent offset chains (control flow: if / match / calls to the flag accessors above)
AF_CALLS = {"self.pcr_flag": ("af_pcr_flag", "Bool", False), "self.opcr_flag": ("af_opcr_flag", "Bool", False),
            "self.splicing_point_flag": ("af_splice_flag", "Bool", False),
            "self.transport_private_data_flag": ("af_private_flag", "Bool", False),
            "self.opcr_offset": ("af_opcr_offset", "Nat", False),
            "self.splice_countdown_offset": ("af_splice_offset", "Nat", False)}
EXT_CALLS = {"self.ltw_flag": ("ext_ltw_flag", "Bool", False), "self.piecewise_rate_flag": ("ext_piecewise_flag", "Bool", False),
             "self.piecewise_rate_offset": ("ext_piecewise_offset", "Nat", False)}
PES_CALLS = {"self.pts_dts_flags": ("pes_pts_dts_flags", "Nat8", False), "self.escr_flag": ("pes_escr_flag", "Bool", False),
             "self.esrate_flag": ("pes_esrate_flag", "Bool", False), "self.dsm_trick_mode_flag": ("pes_trick_flag", "Bool", False),
             "self.additional_copy_info_flag": ("pes_copy_info_flag", "Bool", False), "self.pes_crc_flag": ("pes_crc_flag", "Bool", False),
             "self.pts_dts_end": ("pes_pts_dts_end", "Nat", True), "self.escr_end": ("pes_escr_end", "Nat", True),
             "self.es_rate_end": ("pes_es_rate_end", "Nat", True), "self.dsm_trick_mode_end": ("pes_trick_end", "Nat", True),
             "self.additional_copy_info_end": ("pes_copy_info_end", "Nat", True)}
def usize_fn(name):
    return r"fn %s\(&self\) -> usize \{\s*" % name
# (lean name, file, anchor, calls, impl block that holds the `Self::` constants)
CHAIN_TARGETS = [
    ("af_opcr_offset", "packet.rs", usize_fn("opcr_offset"), AF_CALLS, "impl<'buf> AdaptationField<'buf>"),
    ("af_splice_offset", "packet.rs", usize_fn("splice_countdown_offset"), AF_CALLS, "impl<'buf> AdaptationField<'buf>"),
    ("af_private_offset", "packet.rs", usize_fn("transport_private_data_offset"), AF_CALLS, "impl<'buf> AdaptationField<'buf>"),
    ("ext_piecewise_offset", "packet.rs", usize_fn("piecewise_rate_offset"), EXT_CALLS, "impl<'buf> AdaptationFieldExtension<'buf>"),
    ("ext_seamless_offset", "packet.rs", usize_fn("seamless_splice_offset"), EXT_CALLS, "impl<'buf> AdaptationFieldExtension<'buf>"),
    ("pes_pts_dts_end", "pes.rs", usize_fn("pts_dts_end"), PES_CALLS, "impl<'buf> PesParsedContents<'buf>"),
    ("pes_escr_end", "pes.rs", usize_fn("escr_end"), PES_CALLS, "impl<'buf> PesParsedContents<'buf>"),
    ("pes_es_rate_end", "pes.rs", usize_fn("es_rate_end"), PES_CALLS, "impl<'buf> PesParsedContents<'buf>"),
    ("pes_trick_end", "pes.rs", usize_fn("dsm_trick_mode_end"), PES_CALLS, "impl<'buf> PesParsedContents<'buf>"),
    ("pes_copy_info_end", "pes.rs", usize_fn("additional_copy_info_end"), PES_CALLS, "impl<'buf> PesParsedContents<'buf>"),
    ("pes_crc_end", "pes.rs", usize_fn("pes_crc_end"), PES_CALLS, "impl<'buf> PesParsedContents<'buf>"),
]

def self_consts(text, impl_header):
    """`const NAME: usize = <literal or literal arithmetic>;` inside the given impl block -> {"Self::NAME": value}"""
    i = text.find(impl_header)
    if i < 0:
        raise ParseError("impl block %r not found" % impl_header)
    j = text.find("\nimpl", i + 1)
    block = text[i: j if j > 0 else len(text)]
    out = {}
    for m in re.finditer(r"const\s+(\w+)\s*:\s*usize\s*=\s*([^;]+);", block):
        try:
            toks = tokenize(m.group(2))
            n = Parser([(k, v.replace("usize", "") if k == "num" else v, None) for (k, v, _) in toks], [], {}, consts=dict(out)).parse(0)
            if n.kind == "lit":
                out["Self::" + m.group(1)] = int(n.lean)
        except ParseError:
            pass
    return out

def translate_chain(name, fname, anchor, calls, impl_header):
    with open(os.path.join(REPO, "src", fname)) as f:
        text = strip_comments(strip_tests(f.read()))
    i = text.find(impl_header)
    if i < 0:
        raise ParseError("impl block not found")
    j = text.find("\nimpl", i + 1)
    block = text[i: j if j > 0 else len(text)]
    m = re.search(anchor, block, re.S)
    if not m:
        raise ParseError("anchor not found")
    toks = tokenize_prefix(block[m.end():m.end() + 1500])
    p = Parser(toks, [], {}, calls=calls, consts=self_consts(text, impl_header))
    node = p.parse(0)
    if p.peek()[1] != "}":
        raise ParseError("function body continues with %r" % (p.peek()[1],))
    if node.kind == "bool":
        raise ParseError("bool-valued chain function")
    if node.binds:
        body = "do " + "; ".join("let %s ← %s" % (v, x) for v, x in node.binds) + "; pure %s" % node.lean
        return {"lean": body, "kind": "Option Nat", "bytes": [], "linear": False, "file": fname}
    return {"lean": node.lean, "kind": "Nat", "bytes": [], "linear": False, "file": fname}

def strip_tests(s):
    i = s.find("#[cfg(test)]")
    return s if i < 0 else s[:i]

def strip_comments(s):
    return re.sub(r"//[^\n]*", "", s)

def translate(name, fname, anchor, arrays, scalars):
    with open(os.path.join(REPO, "src", fname)) as f:
        text = strip_comments(strip_tests(f.read()))
    m = re.search(anchor, text, re.S)
    if not m:
        raise ParseError("anchor not found")
    rest = text[m.end():m.end() + 1200]
    toks = tokenize_prefix(rest)
    p = Parser(toks, arrays, scalars)
    node = p.parse(0)
    nxt = p.peek()
    if nxt[0] != "eof" and nxt[1] not in (",", ";", ")", "}", "{"):
        raise ParseError("expression continues with %r" % (nxt[1],))
    return node

def tokenize_prefix(s):
    """tokenize as far as the grammar allows (the tail after the expression may contain anything)"""
    pos, out = 0, []
    while pos < len(s):
        m = TOK.match(s, pos)
        if not m:
            break
        pos = m.end()
        if m.group("str"):
            out.append(("str", "<string>", None))
        elif m.group("num"):
            out.append(("num", m.group("num"), m.group("suf")))
        elif m.group("id"):
            out.append(("id", m.group("id"), None))
        else:
            out.append(("op", m.group("op"), None))
    return out

def main():
    try:
        defaults = json.load(open(DEFAULTS_PATH))
    except Exception:
        defaults = {}
    dex = defaults.get("exprs", {})
    out, missing, extracted = [], [], {}
    for (name, fname, anchor, arrays, scalars) in TARGETS:
        try:
            n = translate(name, fname, anchor, arrays, scalars)
            rec = {"lean": n.lean, "kind": "Bool" if n.kind == "bool" else "Nat",
                   "bytes": sorted(n.bytes), "linear": bool(n.linear and n.kind != "bool"), "file": fname}
            extracted[name] = rec
            out.append((name, rec, None))
        except Exception as ex:  # anything unexpected in the source: fall back for this target
            missing.append("%s (%s)" % (name, ex))
            if name in dex:
                out.append((name, dex[name], str(ex)))
            else:
                out.append((name, None, str(ex)))
    for (name, fname, anchor, calls, impl_header) in CHAIN_TARGETS:
        try:
            rec = translate_chain(name, fname, anchor, calls, impl_header)
            want_partial = calls.get("self." + {v[0]: k for k, v in calls.items()}.get(name, "").replace("self.", ""), (None, None, None))[2]
            if want_partial is not None and want_partial != (rec["kind"] == "Option Nat"):
                raise ParseError("partiality changed (panic arm added or removed)")
            extracted[name] = rec
            out.append((name, rec, None))
        except Exception as ex:  # anything unexpected in the source: fall back for this target
            missing.append("%s (%s)" % (name, ex))
            out.append((name, dex.get(name), str(ex)))
    with open(OUT, "w") as f:
        if missing:
            f.write("/-! GENERATED by tools/gen_exprs.py — FALLBACK to recorded translations for: %s -/\n" % "; ".join(missing))
        else:
            f.write("/-! GENERATED by tools/gen_exprs.py from the expressions of /repo/src — do not edit -/\n")
        f.write("namespace Ts.Gen.Expr\n")
        for (name, rec, err) in out:
            if rec is None:
                f.write("-- %s: NOT TRANSLATED (%s) and no recorded default\n" % (name, err))
                continue
            f.write("/-- `%s` — bytes %s%s%s -/\n" % (rec["file"], rec["bytes"], ", OR-linear" if rec["linear"] else "",
                                                 (" — FALLBACK: " + err) if err else ""))
            f.write("def %s (e : Nat → Nat) : %s := %s\n" % (name, rec["kind"], rec["lean"]))
        f.write("end Ts.Gen.Expr\n")
    if missing:
        print("gen_exprs: could not extract (recorded translations used; tie by correspondence only): " + ", ".join(missing), file=sys.stderr)
    if "--write-defaults" in sys.argv and not missing:
        defaults["exprs"] = extracted
        json.dump(defaults, open(DEFAULTS_PATH, "w"))
        print("wrote exprs to " + DEFAULTS_PATH)
    return 0

if __name__ == "__main__":
    sys.exit(main())
