#!/bin/sh
# tools/try_tie.sh <psi|filters|packet|pes|iters|pmt|tables|push> <repo-dir>: translate <repo-dir>/src with the statement translator
# into a private directory and check its tie module against it (nothing under /verif/lean is written).
K=$1; R=${2:-/repo}; TIE2=
case $K in
  psi) TOOL=gen_psi.py; VAR=VERIF_GEN_PSI_OUT; GEN=PsiGen; TIE=StmtPsi; TIE2="StmtPsiGate StmtPsiApp StmtCapstone";;
  filters) TOOL=gen_filters.py; VAR=VERIF_GEN_FILTERS_OUT; GEN=FiltersGen; TIE=StmtFilters;;
  packet) TOOL=gen_packet.py; VAR=VERIF_GEN_PACKET_OUT; GEN=PacketGen; TIE=StmtPacket;;
  pes) TOOL=gen_pes.py; VAR=VERIF_GEN_PES_OUT; GEN=PesGen; TIE=StmtPes;;
  iters) TOOL=gen_iters.py; VAR=VERIF_GEN_ITERS_OUT; GEN=ItersGen; TIE=StmtIters;;
  pmt) TOOL=gen_pmt.py; VAR=VERIF_GEN_PMT_OUT; GEN=PmtGen; TIE=StmtPmt;;
  tables) TOOL=gen_tables.py; VAR=VERIF_GEN_TABLES_OUT; GEN=TablesGen; TIE=StmtTables; TIE2="StmtTablesPmt StmtCapstone";;
  push) TOOL=gen_push.py; VAR=VERIF_GEN_PUSH_OUT; GEN=PushGen; TIE=StmtPush;;
  *) echo "usage: try_tie.sh psi|filters|packet|pes|iters|pmt|tables|push <repo>"; exit 2;;
esac
T=$(mktemp -d /tmp/tietry.XXXXXX)
mkdir -p $T/lib
cp -rs /verif/lean/.lake/build/lib/lean/Ts $T/lib/ 2>/dev/null
for f in /verif/lean/.lake/build/lib/lean/Ts.*; do ln -s $f $T/lib/; done
rm -f $T/lib/Ts/Gen/$GEN.* $T/lib/Ts/Props/Ties/$TIE.*
env VERIF_REPO=$R $VAR=$T/$GEN.lean python3 /verif/tools/$TOOL 2>$T/err
if grep -q "could not extract" $T/err; then echo "FALLBACK: $(cat $T/err | cut -c1-200)"; else echo TRANSLATED; fi
ok=1
(cd $T && LEAN_PATH=$T/lib lean -o $T/lib/Ts/Gen/$GEN.olean $GEN.lean) > $T/gen.log 2>&1 || ok=0
: > $T/tie.log
for M in $TIE $TIE2; do
  [ $ok = 1 ] || break
  rm -f $T/lib/Ts/Props/Ties/$M.*
  (cd /verif/lean && LEAN_PATH=$T/lib lean -o $T/lib/Ts/Props/Ties/$M.olean Ts/Props/Ties/$M.lean) >> $T/tie.log 2>&1 || ok=0
done
if [ $ok = 1 ]; then
  echo TIE-OK
else
  echo TIE-BROKEN; cat $T/gen.log $T/tie.log 2>/dev/null | grep -h "error" | head -4
fi
rm -rf $T
