#!/bin/sh
# tools/eval_batch.sh [base-dir] [id-tag]: evaluate every seeded change found under <base>/<P>/
# (patch.diff / patch2.diff / patch3.diff) that is not yet recorded in /verif/seeded
BASE=${1:-/tmp/mut}
TAG=${2:-m}
cd /verif
for d in $BASE/*/; do
  P=$(basename $d)
  for n in 1 2 3; do
    if [ $n = 1 ]; then pf=patch.diff; mf=meta.json; df=tests/demo_$P.rs; else pf=patch$n.diff; mf=meta$n.json; df=tests/demo_${P}_$n.rs; fi
    if [ -f $d/$pf ] && [ -f $d/$df ] && [ ! -f /verif/seeded/$P-$TAG$n/meta.json ]; then
      python3 tools/eval_mutant.py $d $d/$pf $d/$df $d/$mf $P-$TAG$n
    fi
  done
done
echo BATCH-DONE
