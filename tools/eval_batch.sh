#!/bin/sh
# evaluate every mutant found under /tmp/mut/<P>/ (patch.diff / patch2.diff) that is not yet in /verif/seeded
cd /verif
for d in /tmp/mut/C*/; do
  P=$(basename $d)
  if [ -f $d/patch.diff ] && [ ! -f /verif/seeded/$P-m1/meta.json ]; then
    python3 tools/eval_mutant.py $d $d/patch.diff $d/tests/demo_$P.rs $d/meta.json $P-m1 "$@"
  fi
  if [ -f $d/patch2.diff ] && [ ! -f /verif/seeded/$P-m2/meta.json ]; then
    python3 tools/eval_mutant.py $d $d/patch2.diff $d/tests/demo_${P}_2.rs $d/meta2.json $P-m2 "$@"
  fi
done
echo BATCH-DONE
