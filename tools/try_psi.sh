#!/bin/sh
# tools/try_psi.sh <repo-dir>: translate <repo-dir>/src/psi/mod.rs with gen_psi.py into a private
# directory and check Ts/Props/Ties/StmtPsi.lean against it (nothing under /verif/lean is written).
# Prints TRANSLATED or FALLBACK, and TIE-OK or TIE-BROKEN.
R=${1:-/repo}
T=$(mktemp -d /tmp/psitry.XXXXXX)
mkdir -p $T/lib
cp -rs /verif/lean/.lake/build/lib/lean/Ts $T/lib/ 2>/dev/null
for f in /verif/lean/.lake/build/lib/lean/Ts.*; do ln -s $f $T/lib/; done
rm -f $T/lib/Ts/Gen/PsiGen.* $T/lib/Ts/Props/Ties/StmtPsi.*
VERIF_REPO=$R VERIF_GEN_PSI_OUT=$T/PsiGen.lean python3 /verif/tools/gen_psi.py 2>$T/err
if grep -q "could not extract" $T/err; then echo "FALLBACK: $(cat $T/err | cut -c1-200)"; else echo TRANSLATED; fi
LP=$T/lib
if (cd $T && LEAN_PATH=$LP lean -o $T/lib/Ts/Gen/PsiGen.olean PsiGen.lean) > $T/gen.log 2>&1 && (cd /verif/lean && LEAN_PATH=$LP lean Ts/Props/Ties/StmtPsi.lean) > $T/tie.log 2>&1; then
  echo TIE-OK
else
  echo TIE-BROKEN; cat $T/gen.log $T/tie.log 2>/dev/null | grep -h "error" | head -5
fi
rm -rf $T
