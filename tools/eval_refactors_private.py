#!/usr/bin/env python3
"""tools/eval_refactors_private.py <dir-with-refactorN.diff> <scratch-root>: like eval_refactors.py, but in a
private copy of /verif whose harness points at a private copy of /repo (so /repo and /verif are not
touched and work can go on meanwhile).  A check that raises an alarm here is a FALSE alarm."""
import glob, json, os, subprocess, sys
def sh(cmd, cwd=None, env=None):
    e = dict(os.environ); e["CARGO_NET_OFFLINE"] = "true"
    if env: e.update(env)
    p = subprocess.run(cmd, cwd=cwd, shell=True, env=e, stdout=subprocess.PIPE, stderr=subprocess.STDOUT, text=True)
    return p.returncode, p.stdout
d, root = sys.argv[1], sys.argv[2]
repo, verif = os.path.join(root, "repo"), os.path.join(root, "verif")
sh("rm -rf %s && mkdir -p %s" % (root, root))
sh("cp -r /repo %s && rm -rf %s/target %s/.git" % (repo, repo, repo))
sh("rsync -a --exclude .git --exclude replays --exclude work --exclude seeded /verif/ %s/" % verif)
ct = os.path.join(verif, "harness", "Cargo.toml")
_txt = open(ct).read().replace('path = "/repo"', 'path = "%s"' % repo)
open(ct, "w").write(_txt)
props = sys.argv[3].split(",") if len(sys.argv) > 3 else ["C%02d" % i for i in range(1, 20)]
res = {}
for f in sorted(glob.glob(os.path.join(d, "refactor*.diff"))):
    name = os.path.basename(f)
    rc, out = sh("patch -p1 -s < %s" % f, cwd=repo)
    if rc != 0:
        print(name, "does not apply", out[:200]); continue
    alarms = {}
    rc, out = sh("cargo test --offline --lib 2>&1 | grep '^test result'", cwd=repo)
    suite = out.strip()
    for p in props:
        rc, out = sh("./check %s --tier quick" % p, cwd=verif, env={"VERIF_REPO": repo})
        if rc != 0:
            alarms[p] = [l for l in out.splitlines() if l.startswith("VIOLATION")][:3]
    sh("patch -p1 -R -s < %s" % f, cwd=repo)
    res[name] = {"existing_suite": suite, "alarms": alarms}
    print(name, suite, "ALARMS:" if alarms else "no alarm", json.dumps(alarms)[:400], flush=True)
json.dump(res, open(os.path.join(root, "refactors_result.json"), "w"), indent=1)
