#!/usr/bin/env python3
"""Write /verif/MANIFEST.json from the table below (kept in one place so it stays valid)."""
import json, os
V = os.path.join(os.path.dirname(os.path.abspath(__file__)), "..")
CLAIMED = json.load(open(os.path.join(V, "tools", "claims.json")))
props = [json.loads(l) for l in open(os.path.join(V, "properties.jsonl"))]
checks = []; na = []
for p in props:
    pid = p["id"]
    c = CLAIMED.get(pid)
    if not c or not c.get("claimed"):
        na.append({"property_id": pid, "reason": (c or {}).get("reason", "not built yet: model exists, theorems and correspondence generator for this property are still to be written (see DESIGN.md section 11)")})
        continue
    checks.append({
        "property_id": pid,
        "quick_cmd": "./check %s --tier quick" % pid,
        "thorough_cmd": "./check %s --tier thorough" % pid,
        "evidence_file": "/verif/evidence/%s.json" % pid,
        "replay_cmd_template": "./check %s --replay {path}" % pid,
        "engine": "lean-proof+correspondence",
        "level_claimed": {"category": "proof", "text": c["text"], "design_ref": c.get("design_ref", "DESIGN.md section 6, " + pid)},
        "level_note": c["note"],
        "technique": c.get("technique", "Lean 4 theorems about a hand-written executable model + differential correspondence check model vs implementation"),
    })
m = {
    "version": 1,
    "setup_cmd": "./setup.sh",
    "hooks": {"guard": "--cfg mpeg2ts_reader_verif", "enable": "no hooks are needed: every observable is reached through the public API; cfg(fuzzing) (already in the library) selects the CRC-bypass build for C01", "baseline_off_cmd": "cd /repo && cargo test --workspace --no-fail-fast --offline", "source_commits": [], "add_only": True},
    "engines": [{"name": "lean-proof+correspondence", "path": "/verif/check", "serves_properties": [c["property_id"] for c in checks], "kind_free_text": "Lean 4 kernel-checked theorems over a model (lean/Ts) + Rust differential harness (harness/) driven by check"}],
    "checks": checks,
    "notes": "fix: commits in /repo (F1a, F1b, F3, F4, F6, F11) are recorded in known_findings.json; see DESIGN.md section 8",
    "not_applicable": na,
}
json.dump(m, open(os.path.join(V, "MANIFEST.json"), "w"), indent=1)
print("claimed:", [c["property_id"] for c in checks])
