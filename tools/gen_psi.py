#!/usr/bin/env python3
"""tools/gen_psi.py — statement-level Rust -> Lean translation of the section reassembly chain of
/repo/src/psi/mod.rs:

  SectionPacketConsumer::consume
  SectionSyntaxSectionProcessor / CompactSyntaxSectionProcessor   {start_section, continue_section, reset}
  DedupSectionSyntaxPayloadParser                                 {start_syntax_section, continue_syntax_section, reset}
  BufferSectionSyntaxParser / BufferCompactSyntaxParser           {start_*_section, continue_*_section, reset}
  CrcCheckWholeSectionSyntaxPayloadParser                         {section}

Every struct becomes a Lean namespace with a `Self` record (the struct's own fields; the field of
generic type — the wrapped inner layer — is left out), `new` (from the struct literal in `fn new`)
and one Lean function per method, of type `… → R (Self × List Call)`: the new value of the fields and
the calls made on the inner layer, in order.  `Call` is generated from the calls the source makes.
The body is translated statement by statement in continuation-passing style into the panic monad
`R` (`Ts/Basic.lean`): every slice / index / `usize` subtraction / asserting constructor / `assert!`
is a checked operation, bound with `←` in the order the source evaluates it.

Supported Rust: `let`, `if` / `else` / `else if` (statement and expression), `if let Some(x) = e`,
`match self.state { Enum::A => …, Enum::B(x) => … }`, `match pk.payload() { Some(x) => …, None => … }`,
`self.f = e`, `self.f.clear()`, `self.f.extend_from_slice(e)`, `self.<inner>.<m>(ctx, args…)`,
`return;`, `assert!(e)`, `warn!(…)` (skipped), `+ - == != < <= > >= && || !`, `x.len()`, `x[i]`,
`&x[a..b]` (all four forms), `e as usize`, `T::CONST`, `Self::CONST`, `T::new(e)`, `cfg!(fuzzing)`,
`mpegts_crc::sum32(e)`, `a.saturating_sub(b)`, `a.min(b)`, `a.max(b)`, `Some(e)`, `None`, enum constructors of
the struct's state enum.
Anything else raises ParseError for that struct: the recorded translation
(tools/gen_defaults.json, key "psi") is then written for the WHOLE file, the header says so, and the
chain is tied through the correspondence only.

Output: lean/Ts/Gen/PsiGen.lean;  `Ts/Props/Ties/StmtPsi.lean` proves the translated chain equal
to the model (`Ts/Model/Psi.lean`) for every state and every input.
"""
import json, os, re, sys

REPO = os.environ.get("VERIF_REPO", "/repo")
HERE = os.path.dirname(os.path.abspath(__file__))
OUT = os.environ.get("VERIF_GEN_PSI_OUT") or os.path.join(HERE, "..", "lean", "Ts", "Gen", "PsiGen.lean")
DEFAULTS_PATH = os.path.join(HERE, "gen_defaults.json")


class ParseError(Exception):
    pass


LEAN_KW = {"section", "end", "at", "from", "open", "namespace", "variable", "instance", "structure", "class", "def",
           "theorem", "example", "where", "with", "match", "do", "then", "else", "if", "let", "have", "show", "fun", "in"}


def ln(n):
    return "\u00ab%s\u00bb" % n if n in LEAN_KW else n


TOK = re.compile(r"""\s*(?:
    (?P<str>"(?:\\.|[^"\\])*")
  | (?P<life>'[A-Za-z_][A-Za-z0-9_]*(?!'))
  | (?P<id>[A-Za-z_][A-Za-z0-9_]*(?:::[A-Za-z_][A-Za-z0-9_]*)*)
  | (?P<num>0b[01_]+|0x[0-9a-fA-F_]+|[0-9][0-9_]*)
  | (?P<op>=>|==|!=|<=|>=|&&|\|\||\.\.|->|[-+*/%&|^()\[\]<>!,;{}=.:#])
)""", re.X)


def tokenize(s):
    pos, out = 0, []
    while pos < len(s):
        m = TOK.match(s, pos)
        if not m:
            if s[pos:].strip() == "":
                break
            raise ParseError("cannot tokenize at %r" % s[pos:pos + 30])
        pos = m.end()
        for k in ("str", "life", "id", "num", "op"):
            if m.group(k) is not None:
                out.append((k, m.group(k)))
                break
    return out


def match_brace(src, i, open_="{", close="}"):
    """index of the brace closing the one at src[i]"""
    d, j = 0, i
    while j < len(src):
        if src[j] == open_:
            d += 1
        elif src[j] == close:
            d -= 1
            if d == 0:
                return j
        j += 1
    raise ParseError("unbalanced %s" % open_)


# ------------------------------------------------------------------------------------------------
# expressions: AST = tuples
#   ("num", n) ("bool", b) ("var", name) ("self", field) ("fld", e, name) ("const", lean) ("none",)
#   ("some", e) ("bin", op, a, b) ("not", e) ("len", e) ("idx", e, i) ("slice", e, a|None, b|None)
#   ("call", fn, [args]) ("ife", c, a, b) ("enum", ctor, [args]) ("fuzzing",)
# ------------------------------------------------------------------------------------------------
class P:
    def __init__(self, toks, ctx):
        self.t, self.i, self.ctx = toks, 0, ctx

    def peek(self, k=0):
        return self.t[self.i + k] if self.i + k < len(self.t) else ("eof", "")

    def take(self):
        x = self.peek(); self.i += 1; return x

    def expect(self, v):
        x = self.take()
        if x[1] != v:
            raise ParseError("expected %r, got %r" % (v, x[1]))

    def at(self, *vals):
        return all(self.peek(k)[1] == v for k, v in enumerate(vals))

    def maybe(self, v):
        if self.peek()[1] == v:
            self.take(); return True
        return False

    def skip_parens(self):
        self.expect("("); d = 1
        while d:
            t = self.take()
            if t[0] == "eof":
                raise ParseError("unterminated (")
            d += (t[1] == "(") - (t[1] == ")")

    # ---- expressions
    def expr(self):
        a = self.conj()
        while self.peek()[1] == "||":
            self.take(); a = ("bin", "||", a, self.conj())
        return a

    def conj(self):
        a = self.cmp()
        while self.peek()[1] == "&&":
            self.take(); a = ("bin", "&&", a, self.cmp())
        return a

    def cmp(self):
        a = self.add()
        if self.peek()[1] in ("==", "!=", "<", ">", "<=", ">="):
            op = self.take()[1]
            return ("bin", op, a, self.add())
        return a

    def add(self):
        a = self.unary()
        while self.peek()[1] in ("+", "-"):
            op = self.take()[1]
            a = ("bin", op, a, self.unary())
        return a

    def unary(self):
        if self.peek()[1] == "!":
            self.take(); return ("not", self.unary())
        if self.peek()[1] == "&":
            self.take(); return self.unary()          # a borrow of a slice expression is the slice
        return self.postfix(self.primary())

    def postfix(self, e):
        while True:
            if self.at(".", "len", "(", ")"):
                self.i += 4; e = ("len", e); continue
            if self.peek()[1] == "." and self.peek(1)[1] in ("saturating_sub", "min", "max") and self.peek(2)[1] == "(":
                m = self.peek(1)[1]
                self.i += 3
                b = self.expr(); self.expect(")")
                e = ("natop", m, e, b); continue
            if self.at(".", "version", "(", ")"):
                self.i += 4; e = ("call", "tshVersion", [e]); continue
            if self.at(".", "payload", "(", ")"):
                self.i += 4; e = ("fld", e, "payload"); continue
            if self.at(".", "payload_unit_start_indicator", "(", ")"):
                self.i += 4; e = ("fld", e, "pusi"); continue
            if self.peek()[1] == "." and self.peek(1)[0] == "id" and self.peek(2)[1] != "(":
                self.take(); e = ("fld", e, self.take()[1]); continue
            if self.peek()[1] == "[":
                self.take()
                if self.maybe(".."):
                    if self.maybe("]"):
                        e = ("slice", e, None, None)
                    else:
                        b = self.expr(); self.expect("]"); e = ("slice", e, None, b)
                else:
                    a = self.expr()
                    if self.maybe(".."):
                        if self.maybe("]"):
                            e = ("slice", e, a, None)
                        else:
                            b = self.expr(); self.expect("]"); e = ("slice", e, a, b)
                    else:
                        self.expect("]"); e = ("idx", e, a)
                continue
            if self.peek() == ("id", "as"):
                self.take(); ty = self.take()[1]
                if ty not in ("usize", "u16", "u32", "u64"):
                    raise ParseError("unsupported cast to %s" % ty)
                continue                               # widening of a byte: the number itself
            return e

    def primary(self):
        k = self.take()
        if k[1] == "(":
            e = self.expr(); self.expect(")"); return e
        if k[0] == "num":
            return ("num", int(k[1].replace("_", ""), 0))
        if k[0] != "id":
            raise ParseError("unsupported expression at %r" % (k[1],))
        name = k[1]
        if name in ("true", "false"):
            return ("bool", name == "true")
        if name == "None":
            return ("none",)
        if name == "Some":
            self.expect("("); e = self.expr(); self.expect(")"); return ("some", e)
        if name == "cfg" and self.peek()[1] == "!":
            self.take(); self.expect("("); self.expect("fuzzing"); self.expect(")")
            return ("fuzzing",)
        if name == "if":
            c = self.expr()
            self.expect("{"); a = self.expr(); self.expect("}")
            x = self.take()
            if x != ("id", "else"):
                raise ParseError("if expression without else")
            self.expect("{"); b = self.expr(); self.expect("}")
            return ("ife", c, a, b)
        if name == "self":
            self.expect("."); f = self.take()[1]
            if f not in self.ctx["fields"]:
                raise ParseError("unknown field self.%s" % f)
            return ("self", f)
        if name == "mpegts_crc::sum32":
            self.expect("("); e = self.expr(); self.expect(")"); return ("call", "sum32", [e])
        if name == "SectionCommonHeader::new":
            self.expect("("); e = self.expr(); self.expect(")"); return ("call", "headerNew", [e])
        if name == "TableSyntaxHeader::new":
            self.expect("("); e = self.expr(); self.expect(")"); return ("call", "tshNew", [e])
        if "::" in name:
            head, last = name.rsplit("::", 1)
            if head == self.ctx.get("enum") and last in self.ctx["ctors"]:
                args = []
                if self.peek()[1] == "(":
                    self.take(); args.append(self.expr()); self.expect(")")
                if len(args) != self.ctx["ctors"][last]:
                    raise ParseError("constructor %s arity" % name)
                return ("enum", last, args)
            if head == "Self" and last in self.ctx["consts"]:
                return ("num", self.ctx["consts"][last])
            if name in self.ctx["gconsts"]:
                return ("num", self.ctx["gconsts"][name])
            raise ParseError("unknown path %s" % name)
        if self.peek()[1] == "(":
            raise ParseError("unsupported call %s(…)" % name)
        return ("var", name)

    # ---- statements: ("let", x, e) ("if", c, A, B) ("iflet", x, e, A, B) ("match", e, [(ctor, [vars], body)])
    #      ("set", f, e) ("clear", f) ("extend", f, e) ("call", m, [args]) ("return",) ("assert", e, text)
    def block(self):
        self.expect("{")
        out = []
        while self.peek()[1] != "}":
            if self.peek()[0] == "id" and self.peek()[1] in ("warn", "debug", "info", "trace", "error") and self.peek(1)[1] == "!":
                self.take(); self.take(); self.skip_parens(); self.maybe(";"); continue
            if self.peek() == ("id", "assert") and self.peek(1)[1] == "!":
                self.take(); self.take(); self.expect("(")
                j = self.i
                e = self.expr()
                text = " ".join(x[1] for x in self.t[j:self.i])
                self.expect(")"); self.maybe(";")
                out.append(("assert", e, text)); continue
            if self.peek() == ("id", "return"):
                self.take(); self.expect(";"); out.append(("return",)); continue
            if self.peek() == ("id", "let"):
                self.take(); name = self.take()
                if name[0] != "id":
                    raise ParseError("unsupported let pattern")
                self.expect("="); e = self.expr(); self.expect(";")
                out.append(("let", name[1], e)); continue
            if self.peek() == ("id", "if"):
                out.append(self.if_stmt()); self.maybe(";"); continue
            if self.peek() == ("id", "match"):
                out.append(self.match_stmt()); self.maybe(";"); continue
            if self.at("self", ".") and self.peek(2)[1] in self.ctx["inner"] and self.peek(3)[1] == ".":
                self.i += 4
                m = self.take()[1]
                self.expect("(")
                args = []
                while self.peek()[1] != ")":
                    args.append(self.expr()); self.maybe(",")
                self.expect(")"); self.maybe(";")
                args = [a for a in args if a != ("var", "ctx")]
                out.append(("call", m, args)); continue
            if self.at("self", ".") and self.peek(2)[1] in self.ctx["fields"]:
                f = self.peek(2)[1]
                if self.peek(3)[1] == "=" :
                    self.i += 4; e = self.expr(); self.expect(";")
                    out.append(("set", f, e)); continue
                if self.peek(3)[1] == "." and self.peek(4)[1] == "clear":
                    self.i += 5; self.expect("("); self.expect(")"); self.maybe(";")
                    out.append(("clear", f)); continue
                if self.peek(3)[1] == "." and self.peek(4)[1] == "extend_from_slice":
                    self.i += 5; self.expect("("); e = self.expr(); self.expect(")"); self.maybe(";")
                    out.append(("extend", f, e)); continue
            raise ParseError("unsupported statement at %r" % " ".join(x[1] for x in self.t[self.i:self.i + 6]))
        self.expect("}")
        return out

    def if_stmt(self):
        x = self.take()
        assert x == ("id", "if")
        if self.peek() == ("id", "let"):
            self.take()
            if self.take() != ("id", "Some"):
                raise ParseError("unsupported if-let pattern")
            self.expect("("); name = self.take()[1]; self.expect(")"); self.expect("=")
            e = self.expr()
            a = self.block(); b = []
            if self.peek() == ("id", "else"):
                self.take(); b = self.block()
            return ("iflet", name, e, a, b)
        c = self.expr()
        a = self.block(); b = []
        if self.peek() == ("id", "else"):
            self.take()
            b = [self.if_stmt()] if self.peek() == ("id", "if") else self.block()
        return ("if", c, a, b)

    def match_stmt(self):
        self.take()
        e = self.expr()
        self.expect("{")
        arms = []
        while self.peek()[1] != "}":
            pat = self.take()
            if pat[0] != "id":
                raise ParseError("unsupported pattern %r" % pat[1])
            vs = []
            if self.peek()[1] == "(":
                self.take(); vs.append(self.take()[1]); self.expect(")")
            self.expect("=>")
            body = self.block()
            self.maybe(",")
            arms.append((pat[1], vs, body))
        self.expect("}")
        return ("match", e, arms)


# ------------------------------------------------------------------------------------------------
# code generation (ANF in the monad R, continuation-passing for statements)
# ------------------------------------------------------------------------------------------------
class Gen:
    def __init__(self, ctx):
        self.ctx = ctx
        self.n = 0
        self.calls = ctx["calls"]          # method -> list of arg types (shared per struct)

    def fresh(self):
        self.n += 1
        return "t%d" % self.n

    HEADER_FIELDS = {"section_length": ("sectionLength", "nat"), "section_syntax_indicator": ("syntaxInd", "bool"),
                     "private_indicator": ("privateInd", "bool"), "table_id": ("tableId", "nat")}

    def ex(self, e, env):
        """-> (prelude lines, Lean atom/term, type)"""
        k = e[0]
        if k == "num":
            return [], str(e[1]), "nat"
        if k == "bool":
            return [], ("true" if e[1] else "false"), "bool"
        if k == "none":
            return [], "none", "opt"
        if k == "fuzzing":
            return [], "fuzzing", "bool"
        if k == "some":
            p, a, t = self.ex(e[1], env)
            return p, "(some %s)" % a, "opt"
        if k == "var":
            if e[1] not in env:
                raise ParseError("unbound variable %s" % e[1])
            return [], e[1], env[e[1]]
        if k == "self":
            return [], "self.%s" % e[1], self.ctx["fields"][e[1]]
        if k == "fld":
            p, a, t = self.ex(e[1], env)
            if t == "header" and e[2] in self.HEADER_FIELDS:
                f, ty = self.HEADER_FIELDS[e[2]]
                return p, "%s.%s" % (a, f), ty
            if t == "pk" and e[2] == "payload":
                return p, "%s.payload" % a, "optslice"
            if t == "pk" and e[2] == "pusi":
                return p, "%s.pusi" % a, "bool"
            raise ParseError("unsupported field access .%s on %s" % (e[2], t))
        if k == "not":
            p, a, t = self.ex(e[1], env)
            return p, "(!%s)" % a, "bool"
        if k == "natop":
            pa, a, ta = self.ex(e[2], env)
            pb, b, tb = self.ex(e[3], env)
            if ta != "nat" or tb != "nat":
                raise ParseError("%s on %s, %s" % (e[1], ta, tb))
            # usize::saturating_sub is truncated subtraction on Nat; min / max as usual
            term = {"saturating_sub": "(%s - %s)", "min": "(min %s %s)", "max": "(max %s %s)"}[e[1]] % (a, b)
            return pa + pb, term, "nat"
        if k == "len":
            p, a, t = self.ex(e[1], env)
            if t == "slice":
                return p, "%s.len" % a, "nat"
            if t == "bytes":
                return p, "%s.length" % a, "nat"
            raise ParseError("len() of %s" % t)
        if k == "idx":
            p, a, t = self.slice_of(e[1], env)
            q, i, _ = self.ex(e[2], env)
            v = self.fresh()
            return p + q + ["let %s ← %s.get %s" % (v, a, i)], v, "nat"
        if k == "slice":
            p, a, t = self.slice_of(e[1], env)
            if e[2] is None and e[3] is None:
                return p, a, "slice"
            v = self.fresh()
            if e[2] is None:
                q, b, _ = self.ex(e[3], env)
                return p + q + ["let %s ← %s.upto %s" % (v, a, b)], v, "slice"
            if e[3] is None:
                q, b, _ = self.ex(e[2], env)
                return p + q + ["let %s ← %s.from %s" % (v, a, b)], v, "slice"
            q, b, _ = self.ex(e[2], env)
            r, c, _ = self.ex(e[3], env)
            return p + q + r + ["let %s ← %s.sub %s %s" % (v, a, b, c)], v, "slice"
        if k == "call":
            ps, args = [], []
            for x in e[2]:
                p, a, t = self.slice_of(x, env) if e[1] in ("headerNew", "tshNew", "sum32") else self.ex(x, env)
                ps += p; args.append(a)
            v = self.fresh()
            ty = {"headerNew": "header", "tshNew": "tsh", "tshVersion": "nat", "sum32": "nat"}[e[1]]
            return ps + ["let %s ← Stmt.%s %s" % (v, e[1], " ".join(args))], v, ty
        if k == "enum":
            ps, args = [], []
            for x in e[2]:
                p, a, t = self.ex(x, env); ps += p; args.append(a)
            return ps, "(%s.%s%s)" % (self.ctx["enum"], e[1], "".join(" " + a for a in args)), "state"
        if k == "ife":
            pc, c, _ = self.ex(e[1], env)
            pa, a, ta = self.ex(e[2], env)
            pb, b, tb = self.ex(e[3], env)
            if not pa and not pb:
                return pc, "(if %s then %s else %s)" % (c, a, b), ta
            v = self.fresh()
            lines = ["let %s ← (" % v, "  if %s then do" % c]
            lines += ["    " + l for l in pa] + ["    pure %s" % a, "  else do"]
            lines += ["    " + l for l in pb] + ["    pure %s)" % b]
            return pc + lines, v, ta
        if k == "bin":
            op = e[1]
            pa, a, ta = self.ex(e[2], env)
            pb, b, tb = self.ex(e[3], env)
            if op in ("&&", "||"):
                if not pb:
                    return pa, "(%s %s %s)" % (a, op, b), "bool"
                v = self.fresh()      # short circuit: the right operand is evaluated only when needed
                if op == "&&":
                    lines = ["let %s ← (" % v, "  if %s then do" % a] + ["    " + l for l in pb] + ["    pure %s" % b, "  else do", "    pure false)"]
                else:
                    lines = ["let %s ← (" % v, "  if %s then do" % a, "    pure true", "  else do"] + ["    " + l for l in pb] + ["    pure %s)" % b]
                return pa + lines, v, "bool"
            if op == "-":
                v = self.fresh()
                return pa + pb + ["let %s ← subR %s %s" % (v, a, b)], v, "nat"
            if op == "+":
                return pa + pb, "(%s + %s)" % (a, b), "nat"
            lop = {"==": "==", "!=": "!=", "<": "<", ">": ">", "<=": "≤", ">=": "≥"}[op]
            if op in ("==", "!="):
                return pa + pb, "(%s %s %s)" % (a, lop, b), "bool"
            return pa + pb, "(decide (%s %s %s))" % (a, lop, b), "bool"
        raise ParseError("cannot generate %r" % (k,))

    def slice_of(self, e, env):
        p, a, t = self.ex(e, env)
        if t == "bytes":
            return p, "(Stmt.Slice.ofVec %s)" % a, "slice"
        if t in ("slice", "tsh"):
            return p, a, "slice"
        raise ParseError("expected a slice, got %s" % t)

    RET = "pure (self, calls)"

    def stmts(self, ss, env):
        """lines of a do block for the statement list (ending with the final return)"""
        if not ss:
            return [self.RET]
        s, rest = ss[0], ss[1:]
        k = s[0]
        if k == "return":
            return [self.RET]
        if k == "let":
            if s[1] in env:
                raise ParseError("let shadows %s" % s[1])
            p, a, t = self.ex(s[2], env)
            env2 = dict(env); env2[s[1]] = t
            return p + ["let %s := %s" % (s[1], a)] + self.stmts(rest, env2)
        if k == "assert":
            p, a, t = self.ex(s[1], env)
            return p + ["assertR %s %s" % (a, json.dumps("assert!(" + s[2] + ")"))] + self.stmts(rest, env)
        if k == "set":
            p, a, t = self.ex(s[2], env)
            return p + ["let self := { self with %s := %s }" % (s[1], a)] + self.stmts(rest, env)
        if k == "clear":
            return ["let self := { self with %s := [] }" % s[1]] + self.stmts(rest, env)
        if k == "extend":
            p, a, t = self.slice_of(s[2], env)
            return p + ["let self := { self with %s := self.%s ++ %s.bytes }" % (s[1], s[1], a)] + self.stmts(rest, env)
        if k == "call":
            ps, args, tys = [], [], []
            for x in s[2]:
                p, a, t = self.ex(x, env)
                if t == "bytes":
                    p, a, t = self.slice_of(x, env)
                ps += p; args.append(a); tys.append(t)
            if self.calls.setdefault(s[1], tys) != tys:
                raise ParseError("inner method %s called with different argument types" % s[1])
            return ps + ["let calls := calls ++ [Call.%s%s]" % (ln(s[1]), "".join(" " + a for a in args))] + self.stmts(rest, env)
        if k == "if":
            p, c, t = self.ex(s[1], env)
            self.no_shadow(s[2] + s[3], env)
            a = self.stmts(s[2] + rest, env)
            b = self.stmts(s[3] + rest, env)
            return p + ["if %s then do" % c] + ["  " + l for l in a] + ["else do"] + ["  " + l for l in b]
        if k == "iflet":
            p, c, t = self.ex(s[2], env)
            if s[1] in env:
                raise ParseError("if-let shadows %s" % s[1])
            env2 = dict(env); env2[s[1]] = {"optnat": "nat", "optslice": "slice"}.get(t, "nat")
            a = self.stmts(s[3] + rest, env2)
            b = self.stmts(s[4] + rest, env)
            return p + ["match %s with" % c, "| some %s => do" % s[1]] + ["  " + l for l in a] + ["| none => do"] + ["  " + l for l in b]
        if k == "match":
            p, c, t = self.ex(s[1], env)
            out = p + ["match %s with" % c]
            if t == "state":
                seen = set()
                for (pat, vs, body) in s[2]:
                    head, _, last = pat.rpartition("::")
                    if head != self.ctx["enum"] or last not in self.ctx["ctors"] or len(vs) != self.ctx["ctors"][last]:
                        raise ParseError("unsupported pattern %s" % pat)
                    seen.add(last)
                    env2 = dict(env)
                    for v in vs:
                        if v in env:
                            raise ParseError("pattern shadows %s" % v)
                        env2[v] = "nat"
                    out += ["| %s.%s%s => do" % (self.ctx["enum"], last, "".join(" " + v for v in vs))]
                    out += ["  " + l for l in self.stmts(body + rest, env2)]
                if seen != set(self.ctx["ctors"]):
                    raise ParseError("non-exhaustive match")
                return out
            if t == "optslice":
                arms = {pat: (vs, body) for (pat, vs, body) in s[2]}
                if set(arms) != {"Some", "None"}:
                    raise ParseError("unsupported Option match")
                vs, body = arms["Some"]
                env2 = dict(env); env2[vs[0]] = "slice"
                out += ["| some %s => do" % vs[0]] + ["  " + l for l in self.stmts(body + rest, env2)]
                out += ["| none => do"] + ["  " + l for l in self.stmts(arms["None"][1] + rest, env)]
                return out
            raise ParseError("match on %s" % t)
        raise ParseError("cannot generate statement %r" % (k,))

    def no_shadow(self, ss, env):
        for s in ss:
            if s[0] == "let" and s[1] in env:
                raise ParseError("let shadows %s" % s[1])


# ------------------------------------------------------------------------------------------------
FIELD_TYPES = {"Vec<u8>": ("bytes", "Bytes"), "bool": ("bool", "Bool"), "Option<u8>": ("optnat", "Option Nat")}
PARAM_TYPES = [("SectionCommonHeader", ("header", "Psi.Header")), ("TableSyntaxHeader", ("tsh", "Stmt.Slice")),
               ("[u8]", ("slice", "Stmt.Slice")), ("Packet", ("pk", "Stmt.Pk"))]
LEAN_OF = {"header": "Psi.Header", "tsh": "Stmt.Slice", "slice": "Stmt.Slice", "nat": "Nat", "bool": "Bool"}

STRUCTS = ["CrcCheckWholeSectionSyntaxPayloadParser", "BufferSectionSyntaxParser", "BufferCompactSyntaxParser",
           "DedupSectionSyntaxPayloadParser", "CompactSyntaxSectionProcessor", "SectionSyntaxSectionProcessor",
           "SectionPacketConsumer"]


def strip(src):
    cut = src.find("#[cfg(test)]")
    src = src if cut < 0 else src[:cut]
    return re.sub(r"//[^\n]*", "", src)


def global_consts(src):
    out = {}
    for m in re.finditer(r"impl(?:<[^>]*>)?\s+(\w+)(?:<[^>]*>)?\s*(?:where[^{]*)?\{", src):
        j = match_brace(src, m.end() - 1)
        for c in re.finditer(r"const (\w+): usize = (\d+);", src[m.end():j]):
            out["%s::%s" % (m.group(1), c.group(1))] = int(c.group(2))
    return out


def translate_struct(src, name, gconsts, enums):
    m = re.search(r"pub struct %s<(\w+)>\s*(?:where[^{]*)?\{" % name, src)
    if not m:
        raise ParseError("struct %s not found" % name)
    generic = m.group(1)
    body = src[m.end():match_brace(src, m.end() - 1)]
    fields, inner, lean_fields, enum = {}, [], [], None
    for fm in re.finditer(r"(\w+)\s*:\s*([^,\n]+),", body):
        f, ty = fm.group(1), fm.group(2).strip()
        if ty == generic:
            inner.append(f)
        elif ty in FIELD_TYPES:
            fields[f] = FIELD_TYPES[ty][0]; lean_fields.append((f, FIELD_TYPES[ty][1]))
        elif ty in enums:
            fields[f] = "state"; lean_fields.append((f, ty)); enum = ty
        else:
            raise ParseError("%s.%s: unsupported field type %s" % (name, f, ty))
    consts, fns = {}, []
    for im in re.finditer(r"impl<[^{;]*?>\s+(?:\w+\s+for\s+)?%s<[^{]*\{" % name, src):
        j = match_brace(src, im.end() - 1)
        blk = src[im.end():j]
        for c in re.finditer(r"const (\w+): usize = (\d+);", blk):
            consts[c.group(1)] = int(c.group(2))
        for fm in re.finditer(r"\bfn (\w+)(?:<[^>]*>)?\s*\(", blk):
            pe = match_brace(blk, fm.end() - 1, "(", ")")
            bs = blk.index("{", pe)
            be = match_brace(blk, bs)
            fns.append((fm.group(1), blk[fm.end():pe], blk[pe + 1:bs], blk[bs:be + 1]))
    ctx = {"fields": fields, "inner": inner, "consts": consts, "gconsts": gconsts, "enum": enum,
           "ctors": enums.get(enum, {}), "calls": {}}
    out_fns, new_init = [], None
    for (fname, params, ret, fbody) in fns:
        if fname == "new":
            lm = re.search(r"%s\s*\{([^{}]*)\}" % name, fbody, re.S)
            if not lm:
                raise ParseError("%s::new: struct literal not found" % name)
            init = {}
            for part in lm.group(1).split(","):
                part = part.strip()
                if not part or part in inner:
                    continue
                if ":" not in part:
                    raise ParseError("%s::new: unsupported initialiser %r" % (name, part))
                f, v = [x.strip() for x in part.split(":", 1)]
                if f in inner:
                    continue
                if f not in fields:
                    raise ParseError("%s::new: unknown field %s" % (name, f))
                if v == "vec![]" or v == "Vec::new()":
                    init[f] = "[]"
                elif v in ("true", "false"):
                    init[f] = v
                elif v == "None":
                    init[f] = "none"
                elif enum and v.startswith(enum + "::") and v[len(enum) + 2:] in ctx["ctors"] and ctx["ctors"][v[len(enum) + 2:]] == 0:
                    init[f] = "%s.%s" % (enum, v[len(enum) + 2:])
                else:
                    raise ParseError("%s::new: unsupported initial value %s" % (name, v))
            if set(init) != set(fields):
                raise ParseError("%s::new does not initialise every field" % name)
            new_init = init
            continue
        if "->" in ret:
            raise ParseError("%s::%s returns a value" % (name, fname))
        env, lparams = {}, []
        for prm in re.split(r",(?![^<]*>)", params):
            prm = prm.strip()
            if not prm or prm in ("&mut self", "&self"):
                continue
            pn, pt = [x.strip() for x in prm.split(":", 1)]
            if "Context" in pt or "Ctx" in pt:
                if pn not in ("ctx", "_", "_ctx"):
                    raise ParseError("context parameter named %s" % pn)
                continue
            for key, (ty, lty) in PARAM_TYPES:
                if key in pt:
                    env[pn] = ty; lparams.append((pn, lty)); break
            else:
                raise ParseError("%s::%s: unsupported parameter type %s" % (name, fname, pt))
        p = P(tokenize(fbody), ctx)
        ast = p.block()
        g = Gen(ctx)
        lines = g.stmts(ast, env)
        out_fns.append((fname, lparams, lines))
    if new_init is None:
        raise ParseError("%s::new not found" % name)
    return {"name": name, "lean_fields": lean_fields, "init": new_init, "calls": ctx["calls"], "fns": out_fns,
            "enum": enum}


def render(structs, enums, note):
    out = ["import Ts.Refl.Stmt", "/-! %s -/" % note, "set_option linter.unusedVariables false", "namespace Ts.Gen.PsiGen", "open Ts"]
    for en, ctors in enums.items():
        out.append("/-- `enum %s` -/" % en)
        out.append("inductive %s where\n" % en + "\n".join("  | %s%s" % (c, " (n : Nat)" * k) for c, k in ctors.items()) + "\n  deriving DecidableEq, Repr")
    for s in structs:
        out.append("")
        out.append("namespace %s" % s["name"])
        out.append("/-- the calls `%s` makes on the layer it wraps -/" % s["name"])
        out.append("inductive Call where\n" + "\n".join(
            "  | %s%s" % (ln(m), "".join(" (a%d : %s)" % (i, LEAN_OF[t]) for i, t in enumerate(tys))) for m, tys in sorted(s["calls"].items())) + "\n  deriving DecidableEq, Repr")
        out.append("/-- the struct's own fields (the wrapped layer is left out) -/")
        if s["lean_fields"]:
            out.append("structure Self where\n" + "\n".join("  %s : %s" % (f, t) for f, t in s["lean_fields"]) + "\n  deriving DecidableEq, Repr")
            out.append("/-- `%s::new` -/" % s["name"])
            out.append("def new : Self := { " + ", ".join("%s := %s" % (f, s["init"][f]) for f, _ in s["lean_fields"]) + " }")
        else:
            out.append("structure Self where\n  deriving DecidableEq, Repr")
            out.append("/-- `%s::new` -/" % s["name"])
            out.append("def new : Self := {}")
        for (fname, lparams, lines) in s["fns"]:
            out.append("/-- `%s::%s` -/" % (s["name"], fname))
            out.append("def %s (fuzzing : Bool) (self : Self)%s : R (Self × List Call) := do" % (
                ln(fname), "".join(" (%s : %s)" % (n, t) for n, t in lparams)))
            out.append("  let calls : List Call := []")
            out += ["  " + l for l in lines]
        out.append("end %s" % s["name"])
    out.append("")
    out.append("end Ts.Gen.PsiGen")
    return "\n".join(out) + "\n"


def main():
    try:
        defaults = json.load(open(DEFAULTS_PATH))
    except Exception:
        defaults = {}
    try:
        src = strip(open(os.path.join(REPO, "src", "psi", "mod.rs")).read())
        enums = {}
        for m in re.finditer(r"\benum (BufferSectionState) \{([^}]*)\}", src):
            ctors = {}
            for c in m.group(2).split(","):
                c = c.strip()
                if not c:
                    continue
                cm = re.fullmatch(r"(\w+)(\(usize\))?", c)
                if not cm:
                    raise ParseError("unsupported enum constructor %s" % c)
                ctors[cm.group(1)] = 1 if cm.group(2) else 0
            enums[m.group(1)] = ctors
        if not enums:
            raise ParseError("enum BufferSectionState not found")
        gconsts = global_consts(src)
        structs = [translate_struct(src, n, gconsts, enums) for n in STRUCTS]
        text = render(structs, enums,
                      "GENERATED by tools/gen_psi.py from the section reassembly chain of /repo/src/psi/mod.rs — do not edit")
        if "--write-defaults" in sys.argv:
            defaults["psi"] = text
            json.dump(defaults, open(DEFAULTS_PATH, "w"))
            print("wrote psi to " + DEFAULTS_PATH)
    except Exception as ex:  # anything unexpected in the source: fall back, never crash
        print("gen_psi: could not extract (recorded translation used; tie by correspondence only): section chain (%s)" % ex, file=sys.stderr)
        text = defaults.get("psi")
        if text is None:
            text = "/-! GENERATED: translation FAILED (%s) and no recorded default -/\n" % ex
        else:
            text = text.replace("GENERATED by tools/gen_psi.py", "FALLBACK to the recorded translation (%s); GENERATED by tools/gen_psi.py" % str(ex).replace("-/", ""), 1)
    with open(OUT, "w") as f:
        f.write(text)
    return 0


if __name__ == "__main__":
    sys.exit(main())
