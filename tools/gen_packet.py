#!/usr/bin/env python3
"""tools/gen_packet.py — statement-level Rust -> Lean translation of the adaptation-field / payload
split of /repo/src/packet.rs:

  Packet::{adaptation_field_length, adaptation_field, mk_af, payload, mk_payload, content_offset}

Value-returning methods: each becomes `… → R τ` in the panic monad (`Ts/Basic.lean`), statements in
continuation-passing style (an early `return e;` drops the continuation), expressions in A-normal
form so that every index / slice / subtraction / asserting constructor is a `←` bind in source order.

Supported Rust: `let`, `if` / `else` / `else if` (statement and tail value), `return e;`, a tail
expression, `match a.cmp(&b) { Ordering::Less => …, Ordering::Equal => …, Ordering::Greater => … }`,
`warn!(…)` (skipped), `self.buf[i]`, `&self.buf[a..b]` / `[a..]`, `self.buf.len()`, `e as usize`,
`+ - == != < <= > >=`, `Some(e)`, `None`, module constants and `Self::CONST` (read from the source,
`A + 1` folded), calls of the translated methods on `self`, `self.adaptation_control()` with
`.has_payload()` / `.has_adaptation_field()` (the model's bit tests, tied at expression level in
`Ts/Props/Ties/ExprPacket.lean`), `AdaptationField::new(e)`.
Anything else raises ParseError: the recorded translation (tools/gen_defaults.json, key "packet") is
written instead, the header says so, and the split is tied through the correspondence only.

Output: lean/Ts/Gen/PacketGen.lean; `Ts/Props/Ties/StmtPacket.lean` proves the translated functions
equal to the model's `Packet.contentOffset / mkPayload / payloadRange / mkAf / afRange`.
"""
import json, os, re, sys

sys.path.insert(0, os.path.dirname(os.path.abspath(__file__)))
from gen_psi import tokenize, match_brace, ParseError, strip  # noqa: E402

REPO = os.environ.get("VERIF_REPO", "/repo")
HERE = os.path.dirname(os.path.abspath(__file__))
OUT = os.environ.get("VERIF_GEN_PACKET_OUT") or os.path.join(HERE, "..", "lean", "Ts", "Gen", "PacketGen.lean")
DEFAULTS_PATH = os.path.join(HERE, "gen_defaults.json")

FNS = ["adaptation_field_length", "content_offset", "mk_payload", "payload", "mk_af", "adaptation_field"]
RET = {"usize": "nat", "Option<&'buf [u8]>": "optslice", "Option<AdaptationField<'buf>>": "optslice",
       "AdaptationField<'buf>": "slice"}
LEAN_TY = {"nat": "Nat", "optslice": "Option Stmt.Slice", "slice": "Stmt.Slice", "bool": "Bool"}


class Tr:
    def __init__(self, toks, env, sigs, consts):
        self.t, self.i = toks, 0
        self.env, self.sigs, self.consts = dict(env), sigs, consts
        self.n = 0

    def peek(self, k=0):
        return self.t[self.i + k] if self.i + k < len(self.t) else ("eof", "")

    def take(self):
        x = self.peek(); self.i += 1; return x

    def expect(self, v):
        x = self.take()
        if x[1] != v:
            raise ParseError("expected %r, got %r" % (v, x[1]))

    def at(self, *vals):
        return all(self.peek(k)[1] == v for k, v in enumerate(vals))

    def maybe(self, v):
        if self.peek()[1] == v:
            self.take(); return True
        return False

    def fresh(self):
        self.n += 1
        return "t%d" % self.n

    def skip_parens(self):
        self.expect("("); d = 1
        while d:
            t = self.take()
            if t[0] == "eof":
                raise ParseError("unterminated (")
            d += (t[1] == "(") - (t[1] == ")")

    # ---------------- expressions -> (prelude, term, type)
    def expr(self):
        p, a, t = self.add()
        if self.peek()[1] in ("==", "!=", "<", ">", "<=", ">="):
            op = self.take()[1]
            q, b, t2 = self.add()
            lop = {"==": "==", "!=": "!=", "<": "<", ">": ">", "<=": "≤", ">=": "≥"}[op]
            if op in ("==", "!="):
                return p + q, "(%s %s %s)" % (a, lop, b), "bool"
            return p + q, "(decide (%s %s %s))" % (a, lop, b), "bool"
        return p, a, t

    def add(self):
        p, a, t = self.unary()
        while self.peek()[1] in ("+", "-"):
            op = self.take()[1]
            q, b, _ = self.unary()
            if op == "+":
                p, a = p + q, "(%s + %s)" % (a, b)
            else:
                v = self.fresh()
                p, a = p + q + ["let %s ← subR %s %s" % (v, a, b)], v
        return p, a, t

    def unary(self):
        if self.peek()[1] == "!":
            self.take()
            p, a, t = self.unary()
            return p, "(!%s)" % a, "bool"
        if self.peek()[1] == "&":
            self.take()
            return self.unary()
        return self.postfix(*self.primary())

    def postfix(self, p, a, t):
        while True:
            if self.at(".", "len", "(", ")") and t == "slice":
                self.i += 4; a, t = "%s.len" % a, "nat"; continue
            if self.at(".", "has_payload", "(", ")") and t == "ac":
                self.i += 4; a, t = "(Packet.hasPayload %s)" % a, "bool"; continue
            if self.at(".", "has_adaptation_field", "(", ")") and t == "ac":
                self.i += 4; a, t = "(Packet.hasAf %s)" % a, "bool"; continue
            if self.peek()[1] == "[" and t == "slice":
                self.take()
                if self.maybe(".."):
                    q, b, _ = self.expr(); self.expect("]")
                    v = self.fresh()
                    p, a = p + q + ["let %s ← %s.upto %s" % (v, a, b)], v
                    continue
                q, b, _ = self.expr()
                if self.maybe(".."):
                    v = self.fresh()
                    if self.maybe("]"):
                        p, a = p + q + ["let %s ← %s.from %s" % (v, a, b)], v
                    else:
                        r, c, _ = self.expr(); self.expect("]")
                        p, a = p + q + r + ["let %s ← %s.sub %s %s" % (v, a, b, c)], v
                    continue
                self.expect("]")
                v = self.fresh()
                p, a, t = p + q + ["let %s ← %s.get %s" % (v, a, b)], v, "nat"
                continue
            if self.peek() == ("id", "as"):
                self.take(); ty = self.take()[1]
                if ty != "usize" or t != "nat":
                    raise ParseError("unsupported cast of %s to %s" % (t, ty))
                continue
            return p, a, t

    def primary(self):
        k = self.take()
        if k[1] == "(":
            p, a, t = self.expr(); self.expect(")"); return p, a, t
        if k[0] == "num":
            return [], str(int(k[1].replace("_", ""), 0)), "nat"
        if k[0] != "id":
            raise ParseError("unsupported expression at %r" % (k[1],))
        n = k[1]
        if n == "None":
            return [], "none", "optslice"
        if n == "Some":
            self.expect("("); p, a, t = self.expr(); self.expect(")")
            if t != "slice":
                raise ParseError("Some(%s)" % t)
            return p, "(some %s)" % a, "optslice"
        if n == "AdaptationField::new":
            self.expect("("); p, a, t = self.expr(); self.expect(")")
            if t != "slice":
                raise ParseError("AdaptationField::new(%s)" % t)
            v = self.fresh()
            return p + ["let %s ← Stmt.afNew %s" % (v, a)], v, "slice"
        if n == "self":
            self.expect(".")
            m = self.take()[1]
            if m == "buf":
                return [], "self.buf", "slice"
            if self.peek()[1] != "(":
                raise ParseError("unknown field self.%s" % m)
            if m == "adaptation_control":
                self.expect("("); self.expect(")")
                v = self.fresh()
                return ["let %s ← Stmt.byte3 self.buf" % v], v, "ac"
            if m in self.sigs:
                self.expect("(")
                ps, args = [], []
                while self.peek()[1] != ")":
                    p, a, t = self.expr(); ps += p; args.append((a, t)); self.maybe(",")
                self.expect(")")
                if [t for _, t in args] != [t for _, t in self.sigs[m]["params"]]:
                    raise ParseError("call of %s with %s" % (m, [t for _, t in args]))
                v = self.fresh()
                return ps + ["let %s ← %s self%s" % (v, m, "".join(" " + a for a, _ in args))], v, self.sigs[m]["ret"]
            raise ParseError("unknown method self.%s()" % m)
        if n in self.consts:
            return [], str(self.consts[n]), "nat"
        if n in self.env:
            return [], n, self.env[n]
        raise ParseError("unbound name %s" % n)

    # ---------------- statements (AST) then CPS generation
    def block(self):
        """-> list of statements; the last may be ("value", prelude, term, type)"""
        self.expect("{")
        out = []
        while self.peek()[1] != "}":
            if self.peek()[0] == "id" and self.peek()[1] in ("warn", "debug", "info", "trace", "error") and self.peek(1)[1] == "!":
                self.take(); self.take(); self.skip_parens(); self.maybe(";"); continue
            if self.peek() == ("id", "return"):
                self.take()
                p, a, t = self.expr(); self.expect(";")
                out.append(("value", p, a, t)); continue
            if self.peek() == ("id", "let"):
                self.take(); name = self.take()[1]; self.expect("=")
                p, a, t = self.expr(); self.expect(";")
                if name in self.env:
                    raise ParseError("let shadows %s" % name)
                self.env[name] = t
                out.append(("let", name, p, a)); continue
            if self.peek() == ("id", "if"):
                out.append(self.if_stmt()); self.maybe(";"); continue
            if self.peek() == ("id", "match"):
                out.append(self.match_stmt()); self.maybe(";"); continue
            p, a, t = self.expr()
            if self.peek()[1] != "}":
                raise ParseError("expression statement not in tail position")
            out.append(("value", p, a, t))
        self.expect("}")
        return out

    def scoped_block(self):
        saved = dict(self.env)
        b = self.block()
        self.env = saved
        return b

    def if_stmt(self):
        self.take()
        p, c, t = self.expr()
        a = self.scoped_block()
        b = []
        if self.peek() == ("id", "else"):
            self.take()
            b = [self.if_stmt()] if self.peek() == ("id", "if") else self.scoped_block()
        return ("if", p, c, a, b)

    def match_stmt(self):
        self.take()
        p, a, t = self.postfix(*self.primary_nocmp())
        if not self.at(".", "cmp", "("):
            raise ParseError("only `a.cmp(&b)` matches are supported")
        self.i += 3
        q, b, _ = self.expr(); self.expect(")")
        self.expect("{")
        arms = {}
        while self.peek()[1] != "}":
            pat = self.take()[1]
            m = re.fullmatch(r"(?:std::cmp::|cmp::)?Ordering::(Less|Equal|Greater)", pat)
            if not m:
                raise ParseError("unsupported pattern %s" % pat)
            self.expect("=>")
            if self.peek()[1] == "{":
                body = self.scoped_block()
            else:
                pp, aa, tt = self.expr()
                body = [("value", pp, aa, tt)]
            self.maybe(",")
            arms[m.group(1)] = body
        self.expect("}")
        if set(arms) != {"Less", "Equal", "Greater"}:
            raise ParseError("non-exhaustive Ordering match")
        return ("cmp", p + q, a, b, arms)

    def primary_nocmp(self):
        return self.primary()


def gen(stmts, ret):
    """lines of a do block; every path must end with a value of type `ret`"""
    if not stmts:
        raise ParseError("a path ends without a value")
    s, rest = stmts[0], stmts[1:]
    k = s[0]
    if k == "value":
        if s[3] != ret and not (ret == "optslice" and s[3] == "optslice"):
            raise ParseError("value of type %s where %s is expected" % (s[3], ret))
        return s[1] + ["pure %s" % s[2]]
    if k == "let":
        return s[2] + ["let %s := %s" % (s[1], s[3])] + gen(rest, ret)
    if k == "if":
        a = gen(s[3] + rest, ret)
        b = gen(s[4] + rest, ret)
        return s[1] + ["if %s then do" % s[2]] + ["  " + l for l in a] + ["else do"] + ["  " + l for l in b]
    if k == "cmp":
        out = s[1] + ["match compare %s %s with" % (s[2], s[3])]
        for nm, ctor in (("Less", "lt"), ("Equal", "eq"), ("Greater", "gt")):
            out += ["| .%s => do" % ctor] + ["  " + l for l in gen(s[4][nm] + rest, ret)]
        return out
    raise ParseError("cannot generate %r" % (k,))


def main():
    try:
        defaults = json.load(open(DEFAULTS_PATH))
    except Exception:
        defaults = {}
    try:
        src = strip(open(os.path.join(REPO, "src", "packet.rs")).read())
        consts = {}
        for m in re.finditer(r"^(?:pub )?const (\w+): usize = ([^;]+);", src, re.M):
            v = m.group(2).strip()
            mm = re.fullmatch(r"(\w+) \+ (\d+)", v)
            if v.isdigit():
                consts[m.group(1)] = int(v)
            elif mm and mm.group(1) in consts:
                consts[m.group(1)] = consts[mm.group(1)] + int(mm.group(2))
        im = re.search(r"impl<'buf> Packet<'buf>\s*\{", src)
        if not im:
            raise ParseError("impl Packet not found")
        blk = src[im.end():match_brace(src, im.end() - 1)]
        for m in re.finditer(r"pub const (\w+): usize = (\d+);", blk):
            consts["Self::" + m.group(1)] = int(m.group(2))
        fns, sigs = {}, {}
        for fn in FNS:
            fm = re.search(r"\bfn %s\s*\(" % fn, blk)
            if not fm:
                raise ParseError("Packet::%s not found" % fn)
            pe = match_brace(blk, fm.end() - 1, "(", ")")
            bs = blk.index("{", pe)
            be = match_brace(blk, bs)
            params = []
            for prm in blk[fm.end():pe].split(","):
                prm = prm.strip()
                if not prm or prm == "&self":
                    continue
                pn, pt = [x.strip() for x in prm.split(":", 1)]
                if pt != "usize":
                    raise ParseError("%s: unsupported parameter type %s" % (fn, pt))
                params.append((pn, "nat"))
            r = blk[pe + 1:bs].replace("->", "").strip()
            if r not in RET:
                raise ParseError("%s: unsupported return type %s" % (fn, r))
            sigs[fn] = {"params": params, "ret": RET[r]}
            fns[fn] = blk[bs:be + 1]
        out = ["import Ts.Refl.Stmt",
               "/-! GENERATED by tools/gen_packet.py from Packet::{%s} of /repo/src/packet.rs — do not edit -/" % ", ".join(FNS),
               "set_option linter.unusedVariables false", "namespace Ts.Gen.PacketGen", "open Ts",
               "/-- `Packet { buf }` -/", "structure Self where\n  buf : Stmt.Slice"]
        done = {}
        for fn in FNS:
            tr = Tr(tokenize(fns[fn]), dict(sigs[fn]["params"]), done, consts)
            ast = tr.block()
            lines = gen(ast, sigs[fn]["ret"])
            out.append("/-- `Packet::%s` -/" % fn)
            out.append("def %s (self : Self)%s : R (%s) := do" % (fn, "".join(" (%s : Nat)" % pn for pn, _ in sigs[fn]["params"]), LEAN_TY[sigs[fn]["ret"]]))
            out += ["  " + l for l in lines]
            done[fn] = sigs[fn]
        out.append("end Ts.Gen.PacketGen")
        text = "\n".join(out) + "\n"
        if "--write-defaults" in sys.argv:
            defaults["packet"] = text
            json.dump(defaults, open(DEFAULTS_PATH, "w"))
            print("wrote packet to " + DEFAULTS_PATH)
    except Exception as ex:  # anything unexpected in the source: fall back, never crash
        print("gen_packet: could not extract (recorded translation used; tie by correspondence only): Packet split (%s)" % ex, file=sys.stderr)
        text = defaults.get("packet")
        if text is None:
            text = "/-! GENERATED: translation FAILED (%s) and no recorded default -/\n" % ex
        else:
            text = text.replace("GENERATED by tools/gen_packet.py", "FALLBACK to the recorded translation (%s); GENERATED by tools/gen_packet.py" % str(ex).replace("-/", ""), 1)
    with open(OUT, "w") as f:
        f.write(text)
    return 0


if __name__ == "__main__":
    sys.exit(main())
