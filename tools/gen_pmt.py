#!/usr/bin/env python3
"""tools/gen_pmt.py — statement-level Rust -> Lean translation of the PMT stream loop of
/repo/src/psi/pmt.rs:

  PmtSection::from_bytes, PmtSection::streams, StreamInfo::from_bytes, StreamInfoIter::next

Built on tools/gen_iters.py (value-returning methods, `self.buf = e`, early returns), extended with
`Result` values (`Ok(v)` / `Err(DemuxError::… { … })`; the error payload is not modelled), struct
views `PmtSection { data }` / `StreamInfo { data }`, tuple values `Some((a, b))`,
`if let Some((a, b)) = StreamInfo::from_bytes(e) { … } else { … }`, `StreamInfoIter::new(e)` and the
two length accessors (`program_info_length()`, `es_info_length()`: the model's 12-bit expressions,
tied to the source at expression level by tools/gen_exprs.py).
Anything else raises ParseError: the recorded translation (tools/gen_defaults.json, key "pmt") is
written instead, the header says so, and the loop is tied through the correspondence only.

Output: lean/Ts/Gen/PmtGen.lean; `Ts/Props/Ties/StmtPmt.lean` proves the translated functions equal
to the model's `pmtFromBytes`, `streamInfoFromBytes`, `streamIter`, `pmtStreams`.
"""
import json, os, re, sys

sys.path.insert(0, os.path.dirname(os.path.abspath(__file__)))
from gen_psi import tokenize, match_brace, ParseError, strip  # noqa: E402
import gen_packet  # noqa: E402

REPO = os.environ.get("VERIF_REPO", "/repo")
HERE = os.path.dirname(os.path.abspath(__file__))
OUT = os.environ.get("VERIF_GEN_PMT_OUT") or os.path.join(HERE, "..", "lean", "Ts", "Gen", "PmtGen.lean")
DEFAULTS_PATH = os.path.join(HERE, "gen_defaults.json")


class Tr(gen_packet.Tr):
    def __init__(self, toks, env, consts, selfname):
        super().__init__(toks, env, {}, consts)
        self.selfname = selfname      # the field `self.<name>` holding the slice, or None

    def skip_braces(self):
        self.expect("{"); d = 1
        while d:
            t = self.take()
            if t[0] == "eof":
                raise ParseError("unterminated {")
            d += (t[1] == "{") - (t[1] == "}")

    def postfix(self, p, a, t):
        while True:
            if t == "slice" and self.at(".", "is_empty", "(", ")"):
                self.i += 4; a, t = "%s.bytes.isEmpty" % a, "bool"; continue
            if t == "pmtview" and self.at(".", "program_info_length", "(", ")"):
                self.i += 4
                v = self.fresh()
                p, a, t = p + ["let %s ← Tables.pmtProgramInfoLength %s.bytes" % (v, a)], v, "nat"; continue
            if t == "siview" and self.at(".", "es_info_length", "(", ")"):
                self.i += 4
                v = self.fresh()
                p, a, t = p + ["let %s ← Stmt.esInfoLen %s" % (v, a)], v, "nat"; continue
            break
        if t in ("pmtview", "siview"):
            return p, a, t
        return super().postfix(p, a, t)

    def primary(self):
        k = self.peek()
        if k[0] == "id":
            n = k[1]
            if n == "None":
                self.take(); return [], "none", "opt"
            if n == "Some":
                self.take(); self.expect("(")
                if self.peek()[1] == "(":
                    self.take()
                    p, a, t = self.expr(); self.expect(",")
                    q, b, t2 = self.expr(); self.expect(")"); self.expect(")")
                    if t != "siview" or t2 != "nat":
                        raise ParseError("Some((%s, %s))" % (t, t2))
                    return p + q, "(some (%s, %s))" % (a, b), "optpair"
                p, a, t = self.expr(); self.expect(")")
                if t not in ("siview", "slice"):
                    raise ParseError("Some(%s)" % t)
                return p, "(some %s)" % a, "optview"
            if n == "Ok":
                self.take(); self.expect("("); p, a, t = self.expr(); self.expect(")")
                if t != "pmtview":
                    raise ParseError("Ok(%s)" % t)
                return p, "(some %s)" % a, "resview"
            if n == "Err":
                self.take(); self.expect("(")
                e = self.take()[1]
                if not re.fullmatch(r"DemuxError::\w+", e):
                    raise ParseError("unsupported error %s" % e)
                if self.peek()[1] == "{":
                    self.skip_braces()
                self.expect(")")
                return [], "none", "resview"
            if n in ("PmtSection", "StreamInfo") and self.peek(1)[1] == "{":
                self.take(); self.take()
                f = self.take()[1]
                self.expect("}")
                if self.env.get(f) != "slice":
                    raise ParseError("%s { %s }" % (n, f))
                return [], f, "pmtview" if n == "PmtSection" else "siview"
            if n == "StreamInfoIter::new":
                self.take(); self.expect("("); p, a, t = self.expr(); self.expect(")")
                if t != "slice":
                    raise ParseError("StreamInfoIter::new(%s)" % t)
                return p, "(⟨%s⟩ : Self)" % a, "iter"
            if n == "StreamInfo::from_bytes":
                self.take(); self.expect("("); p, a, t = self.expr(); self.expect(")")
                if t != "slice":
                    raise ParseError("StreamInfo::from_bytes(%s)" % t)
                v = self.fresh()
                return p + ["let %s ← StreamInfo.from_bytes %s" % (v, a)], v, "optpair"
            if n == "self" and self.selfname and self.at("self", ".", self.selfname):
                self.i += 3
                return [], "self.buf" if self.selfname == "buf" else "self", "slice"
            if n == "self" and self.selfname == "data" and self.at("self", ".", "program_info_length", "(", ")"):
                self.i += 5
                v = self.fresh()
                return ["let %s ← Tables.pmtProgramInfoLength self.bytes" % v], v, "nat"
        return super().primary()

    def block(self):
        self.expect("{")
        out = []
        while self.peek()[1] != "}":
            if self.peek()[0] == "id" and self.peek()[1] in ("warn", "debug", "info", "trace", "error") and self.peek(1)[1] == "!":
                self.take(); self.take(); self.skip_parens(); self.maybe(";"); continue
            if self.selfname == "buf" and self.at("self", ".", "buf", "=") and self.peek(4)[1] != "=":
                self.i += 4
                p, a, t = self.expr(); self.expect(";")
                if t != "slice":
                    raise ParseError("self.buf = %s" % t)
                out.append(("setbuf", p, a)); continue
            if self.at("if", "let", "Some", "(", "("):
                self.i += 5
                x = self.take()[1]; self.expect(","); y = self.take()[1]; self.expect(")"); self.expect(")"); self.expect("=")
                p, a, t = self.expr()
                if t != "optpair":
                    raise ParseError("if let Some((..)) = %s" % t)
                saved = dict(self.env)
                self.env[x] = "siview"; self.env[y] = "nat"
                th = self.block()
                self.env = saved
                if self.take() != ("id", "else"):
                    raise ParseError("if let without else")
                el = self.scoped_block()
                out.append(("iflet2", p, a, x, y, th, el)); self.maybe(";"); continue
            if self.peek() == ("id", "return"):
                self.take()
                p, a, t = self.expr(); self.expect(";")
                out.append(("value", p, a, t)); continue
            if self.peek() == ("id", "let"):
                self.take(); name = self.take()[1]; self.expect("=")
                p, a, t = self.expr(); self.expect(";")
                if name in self.env:
                    raise ParseError("let shadows %s" % name)
                self.env[name] = t
                out.append(("let", name, p, a)); continue
            if self.peek() == ("id", "if"):
                out.append(self.if_stmt()); self.maybe(";"); continue
            p, a, t = self.expr()
            if self.peek()[1] != "}":
                raise ParseError("expression statement not in tail position")
            out.append(("value", p, a, t))
        self.expect("}")
        return out


def gen(stmts, ret, with_self):
    if not stmts:
        raise ParseError("a path ends without a value")
    s, rest = stmts[0], stmts[1:]
    k = s[0]
    if k == "value":
        t = s[3]
        ok = (t == ret) or (ret in ("optpair", "optview", "resview") and t == "opt")
        if not ok:
            raise ParseError("value of type %s where %s is expected" % (t, ret))
        return s[1] + ["pure (self, %s)" % s[2] if with_self else "pure %s" % s[2]]
    if k == "let":
        return s[2] + ["let %s := %s" % (s[1], s[3])] + gen(rest, ret, with_self)
    if k == "setbuf":
        return s[1] + ["let self := { self with buf := %s }" % s[2]] + gen(rest, ret, with_self)
    if k == "if":
        a = gen(s[3] + rest, ret, with_self)
        b = gen(s[4] + rest, ret, with_self)
        return s[1] + ["if %s then do" % s[2]] + ["  " + l for l in a] + ["else do"] + ["  " + l for l in b]
    if k == "iflet2":
        a = gen(s[5] + rest, ret, with_self)
        b = gen(s[6] + rest, ret, with_self)
        return s[1] + ["match %s with" % s[2], "| some (%s, %s) => do" % (s[3], s[4])] + ["  " + l for l in a] + ["| none => do"] + ["  " + l for l in b]
    raise ParseError("cannot generate %r" % (k,))


def fn_in(src, impl_re, fn_re):
    for im in re.finditer(impl_re, src):
        i = src.index("{", im.end() - 1)
        blk = src[i + 1:match_brace(src, i)]
        fm = re.search(fn_re, blk)
        if fm:
            bs = blk.index("{", fm.end() - 1)
            consts = {("Self::" + c.group(1)): int(c.group(2)) for c in re.finditer(r"const (\w+): usize = (\d+);", blk)}
            return blk[bs:match_brace(blk, bs) + 1], consts
    raise ParseError("not found: %s" % fn_re)


def main():
    try:
        defaults = json.load(open(DEFAULTS_PATH))
    except Exception:
        defaults = {}
    try:
        src = strip(open(os.path.join(REPO, "src", "psi", "pmt.rs")).read())
        out = ["import Ts.Refl.Stmt", "import Ts.Model.Tables",
               "/-! GENERATED by tools/gen_pmt.py from PmtSection::{from_bytes, streams}, StreamInfo::from_bytes and StreamInfoIter::next of /repo/src/psi/pmt.rs — do not edit -/",
               "set_option linter.unusedVariables false", "namespace Ts.Gen.PmtGen", "open Ts",
               "/-- `StreamInfoIter { buf }` -/", "structure Self where\n  buf : Stmt.Slice"]
        units = [
            ("StreamInfo.from_bytes", r"impl<'buf> StreamInfo<'buf>\s*", r"\bfn from_bytes\s*\(\s*data: &'buf \[u8\]\s*\)\s*->\s*Option<\(StreamInfo<'buf>, usize\)>\s*", {"data": "slice"}, None, "optpair", False, "(data : Stmt.Slice)", "Option (Stmt.Slice × Nat)"),
            ("StreamInfoIter.next", r"impl<'buf> Iterator for StreamInfoIter<'buf>\s*", r"\bfn next\s*\(\s*&mut self\s*\)\s*->\s*Option<Self::Item>\s*", {}, "buf", "optview", True, "(self : Self)", "Self × Option Stmt.Slice"),
            ("PmtSection.from_bytes", r"impl<'buf> PmtSection<'buf>\s*", r"\bfn from_bytes\s*\(\s*data: &'buf \[u8\]\s*\)\s*->\s*Result<PmtSection<'buf>, DemuxError>\s*", {"data": "slice"}, None, "resview", False, "(data : Stmt.Slice)", "Option Stmt.Slice"),
            ("PmtSection.streams", r"impl<'buf> PmtSection<'buf>\s*", r"\bfn streams\s*\(\s*&self\s*\)\s*->\s*impl Iterator<Item = StreamInfo<'buf>>\s*", {}, "data", "iter", False, "(self : Stmt.Slice)", "Self"),
        ]
        for (name, impl_re, fn_re, env, selfname, ret, with_self, params, rty) in units:
            body, consts = fn_in(src, impl_re, fn_re)
            tr = Tr(tokenize(body), env, consts, selfname)
            lines = gen(tr.block(), ret, with_self)
            out.append("/-- `%s` -/" % name.replace(".", "::"))
            out.append("def %s %s : R (%s) := do" % (name, params, rty))
            out += ["  " + l for l in lines]
        out.append("end Ts.Gen.PmtGen")
        text = "\n".join(out) + "\n"
        if "--write-defaults" in sys.argv:
            defaults["pmt"] = text
            json.dump(defaults, open(DEFAULTS_PATH, "w"))
            print("wrote pmt to " + DEFAULTS_PATH)
    except Exception as ex:  # anything unexpected in the source: fall back, never crash
        print("gen_pmt: could not extract (recorded translation used; tie by correspondence only): PMT stream loop (%s)" % ex, file=sys.stderr)
        text = defaults.get("pmt")
        if text is None:
            text = "/-! GENERATED: translation FAILED (%s) and no recorded default -/\n" % ex
        else:
            text = text.replace("GENERATED by tools/gen_pmt.py", "FALLBACK to the recorded translation (%s); GENERATED by tools/gen_pmt.py" % str(ex).replace("-/", ""), 1)
    with open(OUT, "w") as f:
        f.write(text)
    return 0


if __name__ == "__main__":
    sys.exit(main())
