#!/usr/bin/env python3
"""tools/rerun_seeded.py [--all-props] [ids...]: re-run the checks against the seeded changes kept
under /verif/seeded (apply to /repo, run, undo straight afterwards) and refresh each meta.json.
With --all-props every check is run against every change (detection matrix)."""
import json, os, subprocess, sys, glob

def sh(cmd, cwd=None):
    env = dict(os.environ); env["CARGO_NET_OFFLINE"] = "true"
    p = subprocess.run(cmd, cwd=cwd, shell=True, env=env, stdout=subprocess.PIPE, stderr=subprocess.STDOUT, text=True)
    return p.returncode, p.stdout

def main():
    args = sys.argv[1:]
    allp = "--all-props" in args
    ids = [a for a in args if not a.startswith("--")]
    dirs = sorted(glob.glob("/verif/seeded/*/"))
    rc, out = sh("git -C /repo status --porcelain")
    if out.strip():
        print("refusing: /repo not clean"); return 2
    for d in dirs:
        sid = os.path.basename(d.rstrip("/"))
        if ids and sid not in ids:
            continue
        mp = os.path.join(d, "meta.json")
        meta = json.load(open(mp))
        if not meta.get("confirmed_by_me"):
            continue
        props = ["C%02d" % i for i in range(1, 20)] if allp else [meta["property"]]
        rc, out = sh("git -C /repo apply %s" % os.path.join(d, "patch.diff"))
        if rc != 0:
            print(sid, "patch does not apply:", out[:200]); continue
        results = {}
        try:
            for p in props:
                rc, out = sh("./check %s --tier quick" % p, cwd="/verif")
                lines = [l for l in out.splitlines() if l.startswith(("VIOLATION", "OK ", "KNOWN-FINDING"))]
                # keep the verdict lines first (input replays before the others), then known findings
                lines.sort(key=lambda l: (0 if l.startswith("VIOLATION") and "no-failing-input-found" not in l else 1 if l.startswith(("VIOLATION", "OK ")) else 2))
                results[p] = {"exit": rc, "lines": lines[:6]}
                if rc != 0:
                    cdir = os.path.join("/verif/corpus", p); os.makedirs(cdir, exist_ok=True)
                    n = 0
                    for l in lines:
                        if l.startswith("VIOLATION") and "no-failing-input-found" not in l and n < 2 and p == meta["property"]:
                            rp = l.split("replay=")[1].split()[0]
                            try:
                                r = json.load(open(rp)); case = r["cases"][0]
                                cid, body = case.split(" ", 1)
                                open(os.path.join(cdir, "%s-%d.case" % (sid, n)), "w").write("%s%s_%d %s\n" % (cid[0], sid.replace("-", ""), n, body))
                                n += 1
                            except Exception:
                                pass
        finally:
            sh("git -C /repo checkout -- .")
        if allp:
            meta["matrix"] = {p: r["exit"] for p, r in results.items()}
        else:
            meta["checks_run_against_it"] = results
            meta["detected_by"] = sorted([p for p, r in results.items() if r["exit"] != 0])
        json.dump(meta, open(mp, "w"), indent=1)
        print(sid, {p: r["exit"] for p, r in results.items() if r["exit"] != 0} or "MISSED")
    return 0

if __name__ == "__main__":
    sys.exit(main())
