#!/usr/bin/env python3
"""tools/eval_mutant.py <worktree> <patch-file> <demo-test-file> <meta-json> <seed-id> [props...]

1. confirm the seeded change independently in the scratch worktree: existing suite passes with the
   change, the demonstration fails with it and passes without it;
2. apply it to /repo, run the named checks (default: the property it targets), undo it;
3. store it under /verif/seeded/<seed-id>/ with meta.json recording what was run and which checks
   raised an alarm.
"""
import json, os, shutil, subprocess, sys

def sh(cmd, cwd=None, timeout=3600):
    env = dict(os.environ); env["CARGO_NET_OFFLINE"] = "true"
    p = subprocess.run(cmd, cwd=cwd, shell=True, env=env, stdout=subprocess.PIPE, stderr=subprocess.STDOUT, text=True, timeout=timeout)
    return p.returncode, p.stdout

def main():
    wt, patch, demo, meta_in, sid = sys.argv[1:6]
    props = sys.argv[6:]
    patch = os.path.abspath(patch); demo = os.path.abspath(demo)
    meta = json.load(open(meta_in)) if os.path.exists(meta_in) else {}
    target_prop = meta.get("property", sid.split("-")[0])
    import re as _re
    if not _re.fullmatch(r"C\d\d", str(target_prop)):
        bp = meta.get("breaks_property") or meta.get("breaks") or meta.get("main_property")
        if isinstance(bp, list):
            bp = bp[0] if bp else None
        target_prop = bp if bp and _re.fullmatch(r"C\d\d", str(bp)) else sid.split("-")[0]
    if not props:
        props = [target_prop]
    demo_name = os.path.splitext(os.path.basename(demo))[0]
    ran = []
    # --- 1. confirm in the scratch worktree
    sh("git checkout -- src", cwd=wt)
    if not os.path.exists(os.path.join(wt, "tests", os.path.basename(demo))):
        os.makedirs(os.path.join(wt, "tests"), exist_ok=True)
        shutil.copy(demo, os.path.join(wt, "tests"))
    rc0, out0 = sh("cargo test --offline --test %s 2>&1 | tail -15" % demo_name, cwd=wt)
    demo_orig_pass = "test result: ok" in out0 and "FAILED" not in out0
    ran.append({"cmd": "cargo test --offline --test %s (original source)" % demo_name, "pass": demo_orig_pass})
    rc, out = sh("git apply --check %s && git apply %s" % (patch, patch), cwd=wt)
    applies = rc == 0
    ran.append({"cmd": "git apply patch (worktree)", "ok": applies, "out": out[-300:]})
    rc1, out1 = sh("cargo test --offline --lib 2>&1 | grep -E '^test result|FAILED|error' | head -5; cargo test --offline --doc 2>&1 | grep -E '^test result|FAILED|error' | head -5", cwd=wt)
    suite_pass = out1.count("test result: ok") >= 2 and "FAILED" not in out1 and "error:" not in out1 and "error[" not in out1
    ran.append({"cmd": "cargo test --offline --lib ; --doc (with the change)", "pass": suite_pass, "out": out1[-400:]})
    rc2, out2 = sh("cargo test --offline --test %s 2>&1 | tail -25" % demo_name, cwd=wt)
    demo_mut_fail = "FAILED" in out2 or "panicked" in out2
    ran.append({"cmd": "cargo test --offline --test %s (with the change)" % demo_name, "fails": demo_mut_fail, "out": out2[-600:]})
    sh("git checkout -- src", cwd=wt)
    confirmed = applies and demo_orig_pass and suite_pass and demo_mut_fail
    # --- 2. run the checks against /repo with the change applied
    results = {}
    if confirmed:
        rc, out = sh("git -C /repo status --porcelain")
        if out.strip():
            print("refusing: /repo is not clean:\n" + out); return 2
        rc, out = sh("git -C /repo apply %s" % patch)
        try:
            for p in props:
                rc, out = sh("./check %s --tier quick" % p, cwd="/verif")
                lines = [l for l in out.splitlines() if l.startswith("VIOLATION") or l.startswith("OK ") or l.startswith("KNOWN-FINDING")]
                # keep the verdict lines first (input replays before the others), then known findings
                lines.sort(key=lambda l: (0 if l.startswith("VIOLATION") and "no-failing-input-found" not in l else 1 if l.startswith(("VIOLATION", "OK ")) else 2))
                results[p] = {"exit": rc, "lines": lines[:6]}
            # keep the minimised failing inputs as corpus cases (they run first on every later check)
            for p in props:
                if results[p]["exit"] != 0:
                    cdir = os.path.join("/verif/corpus", p); os.makedirs(cdir, exist_ok=True)
                    n = 0
                    for l in results[p]["lines"]:
                        if l.startswith("VIOLATION") and "replay=" in l and "no-failing-input-found" not in l and n < 2:
                            rp = l.split("replay=")[1].split()[0]
                            try:
                                r = json.load(open(rp))
                                case = r["cases"][0]
                                cid, body = case.split(" ", 1)
                                with open(os.path.join(cdir, "%s-%d.case" % (sid, n)), "w") as f:
                                    f.write("%s%s_%d %s\n" % (cid[0], sid.replace("-", ""), n, body))
                                n += 1
                            except Exception as e:
                                pass
        finally:
            sh("git -C /repo checkout -- .")
        # restore evidence / Gen files to the unchanged tree's
        for p in props:
            sh("./check %s --tier quick" % p, cwd="/verif")
    # --- 3. store
    dst = os.path.join("/verif/seeded", sid)
    os.makedirs(dst, exist_ok=True)
    shutil.copy(patch, os.path.join(dst, "patch.diff"))
    shutil.copy(demo, os.path.join(dst, os.path.basename(demo)))
    meta_out = {
        "id": sid, "property": target_prop,
        "what_it_breaks": meta.get("what_it_breaks"), "needs_to_manifest": meta.get("needs_to_manifest"),
        "author": "independent sub-agent given only the property text and a scratch worktree",
        "confirmed_by_me": confirmed, "confirmation_runs": ran,
        "checks_run_against_it": results,
        "detected_by": sorted([p for p, r in results.items() if r["exit"] != 0]),
    }
    json.dump(meta_out, open(os.path.join(dst, "meta.json"), "w"), indent=1)
    print(sid, "confirmed" if confirmed else "NOT CONFIRMED", {p: r["exit"] for p, r in results.items()})
    for p, r in results.items():
        for l in r["lines"]:
            print("   ", p, l[:200])
    return 0

if __name__ == "__main__":
    sys.exit(main())
