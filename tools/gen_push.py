#!/usr/bin/env python3
"""tools/gen_push.py — statement-level Rust -> Lean translation of the dispatcher loop of
/repo/src/demultiplex.rs:

  Demultiplex::push (the two labelled loops) and Demultiplex::add_pid_filter

Every labelled `loop` becomes a fuel-indexed Lean function over the mutable state of `push`

  t   : Tab H            self.processor_by_pid
  c   : C                the application context without its changeset
  q   : List (Change H)  ctx.filter_changeset()  (pending changes, oldest first)
  pk  : Pk               the current packet
  itr : List Pk          the packets `itr` has not yielded yet

and the control statements are translated in continuation-passing style: `break 'l` continues with the
statements after loop `'l`, `continue 'l` / reaching the end of the body of `'l` re-enters loop `'l`,
`return` (and leaving the outermost loop) ends `push` with the state reached.  A loop nested in another
receives the enclosing loop as the continuation `outerK`, exactly as the hand-written transcription
`innerQ` / `outerQ` of Ts/Model/DemuxQ.lean does; `Ts/Props/Ties/StmtPush.lean` proves the translated
loops EQUAL to that transcription, hence (by `pushModelQ_eq_pushSpecQ`) to the one-packet-at-a-time
specification all the C06/C07/C18 theorems are about.

Fixed idioms (checked token by token, anything else raises ParseError):
  let mut itr = buf.chunks_exact(packet::Packet::SIZE).filter_map(packet::Packet::try_new);   -> frame buf base
  [let mut] pk = if let Some(p) = itr.next() { p } else { <diverging statements> };            -> match itr with ...
  let this_proc = self.processor_by_pid.get(X).unwrap();     -> the unwrap check now; `this_proc` = slot X
  this_proc.consume(ctx, &pk);                               -> get slot / sem.consume / store the handler / q ++ chg
  self.add_pid_filter(ctx, X);                               -> the translated add_pid_filter
  ctx.filter_changeset().apply(&mut self.processor_by_pid);  -> applyChanges t q, q := []
  let filter = ctx.construct(FilterRequest::ByPid(X)); self.processor_by_pid.insert(X, filter);
conditions: pk.transport_error_indicator(), pk.transport_scrambling_control().is_scrambled(), pk.pid(),
  self.processor_by_pid.contains(X), ctx.filter_changeset().is_empty(), `!`, `==`, `!=`, `&&`, `||`, parentheses.
`warn!` and `debug_assert!` statements are skipped (the latter restates that `apply` drains the changeset).

On ParseError (or anything unexpected) the recorded translation (tools/gen_defaults.json, key "push")
is written instead, the header says so, and the loops are tied through the correspondence only.
Output: lean/Ts/Gen/PushGen.lean.
"""
import json, os, re, sys

sys.path.insert(0, os.path.dirname(os.path.abspath(__file__)))
from gen_psi import tokenize, match_brace, ParseError, strip  # noqa: E402

REPO = os.environ.get("VERIF_REPO", "/repo")
HERE = os.path.dirname(os.path.abspath(__file__))
OUT = os.environ.get("VERIF_GEN_PUSH_OUT") or os.path.join(HERE, "..", "lean", "Ts", "Gen", "PushGen.lean")
DEFAULTS_PATH = os.path.join(HERE, "gen_defaults.json")

STATE = "t c q pk itr"
UNWRAP = '"called `Option::unwrap()` on a `None` value"'


class P:
    def __init__(self, toks):
        self.t, self.i = toks + [("eof", "")], 0
        self.nloops = 0

    def peek(self, k=0):
        return self.t[min(self.i + k, len(self.t) - 1)]

    def take(self):
        x = self.t[self.i]; self.i += 1; return x

    def at(self, *vals):
        return all(self.peek(k)[1] == v for k, v in enumerate(vals))

    def eat(self, *vals):
        if self.at(*vals):
            self.i += len(vals); return True
        return False

    def expect(self, *vals):
        for v in vals:
            if self.peek()[1] != v:
                raise ParseError("expected %r, found %r" % (v, " ".join(x[1] for x in self.t[self.i:self.i + 6])))
            self.i += 1

    def skip_parens(self):
        self.expect("("); d = 1
        while d:
            x = self.take()
            if x[0] == "eof":
                raise ParseError("unterminated (")
            d += (x[1] == "(") - (x[1] == ")")

    # ---------------------------------------------------------------- conditions / values
    def cond(self):
        a = self.conj()
        while self.eat("||"):
            a = "(%s || %s)" % (a, self.conj())
        return a

    def conj(self):
        a = self.cmp()
        while self.eat("&&"):
            a = "(%s && %s)" % (a, self.cmp())
        return a

    def cmp(self):
        a, ta = self.unary()
        if self.peek()[1] in ("==", "!="):
            op = self.take()[1]
            b, tb = self.unary()
            if ta != tb:
                raise ParseError("comparison of %s with %s" % (ta, tb))
            return "(%s %s %s)" % (a, op, b)
        if ta != "bool":
            raise ParseError("condition of type %s" % ta)
        return a

    def unary(self):
        if self.eat("!"):
            a, t = self.unary()
            if t != "bool":
                raise ParseError("! of %s" % t)
            return "(!%s)" % a, "bool"
        if self.eat("("):
            a = self.cond(); self.expect(")")
            return a, "bool"
        if self.eat("pk", ".", "transport_error_indicator", "(", ")"):
            return "pk.tei", "bool"
        if self.eat("pk", ".", "transport_scrambling_control", "(", ")", ".", "is_scrambled", "(", ")"):
            return "pk.scrambled", "bool"
        if self.eat("pk", ".", "pid", "(", ")"):
            return "pk.pid", "pid"
        if self.eat("self", ".", "processor_by_pid", ".", "contains", "("):
            x = self.pid(); self.expect(")")
            return "(t.contains %s)" % x, "bool"
        if self.eat("ctx", ".", "filter_changeset", "(", ")", ".", "is_empty", "(", ")"):
            return "q.isEmpty", "bool"
        k = self.peek()
        if k[0] == "id" and k[1] in self.pids:
            self.take(); return k[1], "pid"
        raise ParseError("unsupported expression at %r" % " ".join(x[1] for x in self.t[self.i:self.i + 6]))

    def pid(self):
        a, t = self.unary()
        if t != "pid":
            raise ParseError("a Pid is expected, found %s" % t)
        return a

    # ---------------------------------------------------------------- statements
    def block(self):
        self.expect("{")
        out = []
        while not self.at("}"):
            out.append(self.stmt())
        self.expect("}")
        return [s for s in out if s is not None]

    def next_or(self):
        """`if let Some(p) = itr.next() { p } else { ... }`"""
        self.expect("if", "let", "Some", "(")
        v = self.take()[1]
        self.expect(")", "=", "itr", ".", "next", "(", ")", "{", v, "}", "else")
        els = self.block()
        return els

    def stmt(self):
        k = self.peek()
        if k[0] == "life":
            lab = self.take()[1]; self.expect(":", "loop")
            body = self.block(); self.eat(";")
            return ("loop", lab, body)
        if k[0] == "id" and k[1] in ("warn", "debug", "info", "trace", "error", "debug_assert") and self.peek(1)[1] == "!":
            self.take(); self.take(); self.skip_parens(); self.eat(";")
            return None
        if self.eat("break"):
            lab = self.take()
            if lab[0] != "life":
                raise ParseError("unlabelled break")
            self.expect(";"); return ("break", lab[1])
        if self.eat("continue"):
            lab = self.take()
            if lab[0] != "life":
                raise ParseError("unlabelled continue")
            self.expect(";"); return ("continue", lab[1])
        if self.eat("return"):
            self.expect(";"); return ("return",)
        if self.at("if"):
            s = self.if_stmt(); self.eat(";"); return s
        if self.eat("let", "mut", "pk", "=") or self.eat("pk", "="):
            els = self.next_or(); self.expect(";")
            return ("nextpk", els)
        if self.eat("let", "this_proc", "=", "self", ".", "processor_by_pid", ".", "get", "("):
            x = self.pid(); self.expect(")", ".", "unwrap", "(", ")", ";")
            self.slot = x
            return ("unwrap", x)
        if self.at("let") and self.peek(1)[0] == "id" and self.peek(2)[1] == "=" and self.peek(3)[1] == "pk":
            self.take(); name = self.take()[1]; self.take()
            x = self.pid(); self.expect(";")
            if name in self.pids or name in STATE.split() + ["sem", "fuel", "outerK", "h", "chg", "s", "p"]:
                raise ParseError("let shadows %s" % name)
            self.pids.add(name)
            return ("let", name, x)
        if self.eat("self", ".", "add_pid_filter", "(", "ctx", ","):
            x = self.pid(); self.expect(")", ";")
            return ("addpid", x)
        if self.eat("this_proc", ".", "consume", "(", "ctx", ",", "&", "pk", ")", ";"):
            if self.slot is None:
                raise ParseError("this_proc used before it is bound")
            return ("consume", self.slot)
        if self.eat("ctx", ".", "filter_changeset", "(", ")", ".", "apply", "(", "&", "mut", "self", ".", "processor_by_pid", ")", ";"):
            return ("apply",)
        raise ParseError("unsupported statement at %r" % " ".join(x[1] for x in self.t[self.i:self.i + 8]))

    def if_stmt(self):
        self.expect("if")
        c = self.cond()
        th = self.block()
        el = []
        if self.eat("else"):
            el = [self.if_stmt()] if self.at("if") else self.block()
        return ("if", c, th, el)


# -------------------------------------------------------------------------------------------------
# generation (continuation-passing): K = {"fall": lines, "break": {label: lines}, "continue": {...}, "return": lines}
# `lines` may be a thunk (callable) so that the statements after a loop are generated where they are used.

def force(x):
    return x() if callable(x) else x


def ind(lines, n=2):
    return [" " * n + l for l in lines]


class Gen:
    def __init__(self):
        self.defs = []       # finished loop functions, innermost first
        self.free = {}       # label -> immutable lets in scope at the loop (parameters of its function)

    def add_def(self, name, lines):
        # a loop that follows an `if` is reached on both paths: it must be the same function on both
        for (n, l) in self.defs:
            if n == name:
                if l != lines:
                    raise ParseError("loop %s translates differently on two paths" % name)
                return
        self.defs.append((name, lines))

    def stmts(self, ss, K, scope):
        if not ss:
            return force(K["fall"])
        s, rest = ss[0], ss[1:]
        k = s[0]
        if k == "break":
            if s[1] not in K["break"]:
                raise ParseError("break %s outside that loop" % s[1])
            return force(K["break"][s[1]])
        if k == "continue":
            if s[1] not in K["continue"]:
                raise ParseError("continue %s outside that loop" % s[1])
            return force(K["continue"][s[1]])
        if k == "return":
            return force(K["return"])
        if k == "let":
            return ["let %s := %s" % (s[1], s[2])] + self.stmts(rest, K, scope + [s[1]])
        if k == "unwrap":
            return ["match t.get %s with" % s[1], "| none => .panic " + UNWRAP, "| some _ =>"] + ind(self.stmts(rest, K, scope))
        if k == "addpid":
            return ["match add_pid_filter sem t c q %s with" % s[1], "| .panic s => .panic s", "| .ok (t, c, q) =>"] + ind(self.stmts(rest, K, scope))
        if k == "consume":
            return ["match t.get %s with" % s[1], "| none => .panic " + UNWRAP, "| some h =>",
                    "  match sem.consume h c pk with", "  | .panic s => .panic s", "  | .ok (h, c, chg) =>",
                    "    let t := t.insert %s h" % s[1], "    let q := q ++ chg"] + ind(self.stmts(rest, K, scope), 4)
        if k == "apply":
            return ["let t := applyChanges t q", "let q : List (Change H) := []"] + self.stmts(rest, K, scope)
        if k == "nextpk":
            return ["match itr with", "| [] =>"] + ind(self.stmts(s[1], dict(K, fall=diverge), scope)) + \
                   ["| p :: itr =>", "  let pk := p"] + ind(self.stmts(rest, K, scope))
        if k == "if":
            return ["if %s then" % s[1]] + ind(self.stmts(s[2] + rest, K, scope)) + ["else"] + ind(self.stmts(s[3] + rest, K, scope))
        if k == "loop":
            return self.loop(s[1], s[2], rest, K, scope)
        raise ParseError("cannot generate %r" % (k,))

    def loop(self, lab, body, rest, K, scope):
        name = "loop_" + lab[1:]
        nested = bool(K["continue"])          # inside another loop: that loop is the continuation `outerK`
        if nested and "outerK" in K.get("used", ()):
            raise ParseError("loops nested more than two deep")
        params = "".join(" (%s : Nat)" % v for v in scope)
        args = "".join(" " + v for v in scope)
        if nested:
            # inside the function of `lab`, the enclosing loop is reached through `outerK`
            again_outer = ["outerK %s" % STATE]
            Kout = {"fall": again_outer, "return": K["return"], "used": ("outerK",),
                    "break": {l: K["break"][l] for l in K["break"]},
                    "continue": {l: again_outer for l in K["continue"]}}
            if len(K["continue"]) != 1:
                raise ParseError("loops nested more than two deep")
            # the statements after this loop run inside its function too (they are where `break lab` goes)
            after = lambda: self.stmts(rest, Kout, scope)
            again = ["%s sem%s %s outerK fuel" % (name, args, STATE)]
            Kin = {"fall": again, "return": K["return"], "used": ("outerK",),
                   "break": dict(Kout["break"], **{lab: after}),
                   "continue": dict(Kout["continue"], **{lab: again})}
            lines = self.stmts(body, Kin, scope)
            self.add_def(name,
                ["/-- the loop `%s` of `Demultiplex::push`; `outerK` re-enters the enclosing loop -/" % lab,
                 "def %s (sem : SemQ H C)%s (%s : Tab H) (c : C) (q : List (Change H)) (pk : Pk) (itr : List Pk)" % (name, params, "t"),
                 "    (outerK : Tab H → C → List (Change H) → Pk → List Pk → R (StQ H C)) : Nat → R (StQ H C)",
                 "  | 0 => .ok (t, c, q)", "  | fuel+1 =>"] + ind(lines, 4))
            (outer_name, outer_args) = K["self"]
            return ["%s sem%s %s (%s sem%s fuel) (fuel+1)" % (name, args, STATE, outer_name, outer_args)]
        if scope:
            raise ParseError("immutable lets before the outermost loop")
        again = ["%s sem fuel %s" % (name, STATE)]
        after = lambda: self.stmts(rest, K, scope)
        Kin = {"fall": again, "return": K["return"], "self": (name, ""),
               "break": dict(K["break"], **{lab: after}), "continue": dict(K["continue"], **{lab: again})}
        lines = self.stmts(body, Kin, scope)
        self.add_def(name,
            ["/-- the loop `%s` of `Demultiplex::push` -/" % lab,
             "def %s (sem : SemQ H C) : Nat → Tab H → C → List (Change H) → Pk → List Pk → R (StQ H C)" % name,
             "  | 0, t, c, q, _, _ => .ok (t, c, q)", "  | fuel+1, t, c, q, pk, itr =>"] + ind(lines, 4))
        return ["%s sem (itr.length + 1) %s" % (name, STATE)]


def diverge():
    raise ParseError("the else branch of `if let Some(p) = itr.next()` must break, continue or return")


def find_fn(src, fn):
    m = re.search(r"\bfn %s\s*\(" % fn, src)
    if not m:
        raise ParseError("fn %s not found" % fn)
    pe = match_brace(src, m.end() - 1, "(", ")")
    bs = src.index("{", pe)
    return re.sub(r"\s+", " ", src[m.end():pe].strip()), src[bs:match_brace(src, bs) + 1]


def main():
    try:
        defaults = json.load(open(DEFAULTS_PATH))
    except Exception:
        defaults = {}
    try:
        src = strip(open(os.path.join(REPO, "src", "demultiplex.rs")).read())
        im = re.search(r"impl<Ctx: DemuxContext> Demultiplex<Ctx>\s*\{", src)
        if not im:
            raise ParseError("impl Demultiplex not found")
        blk = src[im.end():match_brace(src, im.end() - 1)]
        out = ["import Ts.Model.DemuxQ",
               "/-! GENERATED by tools/gen_push.py from Demultiplex::{push, add_pid_filter} of /repo/src/demultiplex.rs — do not edit -/",
               "set_option linter.unusedVariables false", "namespace Ts.Gen.PushGen", "open Ts Ts.Demux Ts.DemuxQ",
               "variable {H C : Type}"]
        # add_pid_filter
        params, body = find_fn(blk, "add_pid_filter")
        if params != "&mut self, ctx: &mut Ctx, this_pid: packet::Pid":
            raise ParseError("add_pid_filter has parameters (%s)" % params)
        p = P(tokenize(body)); p.pids = {"this_pid"}; p.slot = None
        p.expect("{", "let")
        f = p.take()[1]
        p.expect("=", "ctx", ".", "construct", "(", "FilterRequest::ByPid", "(")
        x = p.pid()
        p.expect(")", ")", ";", "self", ".", "processor_by_pid", ".", "insert", "(")
        y = p.pid()
        p.expect(",", f, ")", ";", "}")
        out += ["/-- `Demultiplex::add_pid_filter`: what `construct` queues on the changeset stays pending -/",
                "def add_pid_filter (sem : SemQ H C) (t : Tab H) (c : C) (q : List (Change H)) (this_pid : Nat) : R (StQ H C) :=",
                "  match sem.construct c %s with" % x, "  | .panic s => .panic s", "  | .ok (filter, c, chg) =>",
                "    let q := q ++ chg", "    let t := t.insert %s filter" % y, "    .ok (t, c, q)"]
        # push
        params, body = find_fn(blk, "push")
        if params != "&mut self, ctx: &mut Ctx, buf: &[u8]":
            raise ParseError("push has parameters (%s)" % params)
        p = P(tokenize(body)); p.pids = set(); p.slot = None
        p.expect("{", "let", "mut", "itr", "=", "buf", ".", "chunks_exact", "(", "packet::Packet::SIZE", ")",
                 ".", "filter_map", "(", "packet::Packet::try_new", ")", ";")
        p.i -= 0
        ss = []
        while not p.at("}"):
            s = p.stmt()
            if s is not None:
                ss.append(s)
        p.expect("}")
        if p.peek()[0] != "eof":
            raise ParseError("trailing tokens after push")
        g = Gen()
        done = [".ok (t, c, q)"]
        lines = g.stmts(ss, {"fall": done, "return": done, "break": {}, "continue": {}}, [])
        for (_, d) in g.defs:
            out += d
        out += ["/-- the body of `Demultiplex::push` after `itr` has been set up -/",
                "def pushPks (sem : SemQ H C) (st : StQ H C) (itr : List Pk) : R (StQ H C) :=",
                "  match st with", "  | (t, c, q) =>"] + ind(lines, 4)
        out += ["/-- `Demultiplex::push`; `frame` is `chunks_exact(Packet::SIZE)` + `filter_map(Packet::try_new)` -/",
                "def push (sem : SemQ H C) (st : StQ H C) (buf : Bytes) (base : Nat) : R (StQ H C) :=",
                "  match frame buf base with", "  | .panic s => .panic s", "  | .ok itr => pushPks sem st itr"]
        out.append("end Ts.Gen.PushGen")
        text = "\n".join(out) + "\n"
        if "--write-defaults" in sys.argv:
            defaults["push"] = text
            json.dump(defaults, open(DEFAULTS_PATH, "w"))
            print("wrote push to " + DEFAULTS_PATH)
    except Exception as ex:  # anything unexpected in the source: fall back, never crash
        print("gen_push: could not extract (recorded translation used; tie by correspondence only): Demultiplex::push loops (%s)" % ex, file=sys.stderr)
        text = defaults.get("push")
        if text is None:
            text = "/-! GENERATED: translation FAILED (%s) and no recorded default -/\n" % ex
        else:
            text = text.replace("GENERATED by tools/gen_push.py", "FALLBACK to the recorded translation (%s); GENERATED by tools/gen_push.py" % str(ex).replace("-/", ""), 1)
    with open(OUT, "w") as f:
        f.write(text)
    return 0


if __name__ == "__main__":
    sys.exit(main())
