#!/bin/sh
# tools/selftest_ties.sh <scratch worktree of /repo>: apply every behaviour-preserving micro-edit of
# seeded/refactors/micro/ and every rewrite of seeded/refactors/ to the worktree and run the statement
# translator(s) concerned against it in a private directory: every tie must still check (TIE-OK), on a
# fresh translation or on the recorded fall-back.  Prints one line per edit; exit 1 if a tie breaks.
W=${1:-/tmp/rf2}
cd $W || exit 2
bad=0
git checkout -q -- src
for d in /verif/seeded/refactors/micro/*.diff; do
  n=$(basename $d .diff)
  k=$(python3 -c "import json;print([x['translator'] for x in json.load(open('/verif/seeded/refactors/micro/index.json')) if x['name']=='$n'][0])")
  git checkout -q -- src; git apply $d || { echo "$n: does not apply"; continue; }
  r=$(/verif/tools/try_tie.sh $k $W 2>&1 | head -2 | cut -c1-9 | tr '\n' ' ')
  echo "$n ($k): $r"
  case "$r" in *TIE-OK*) ;; *) bad=1;; esac
done
for d in /verif/seeded/refactors/refactor*.diff; do
  n=$(basename $d .diff)
  git checkout -q -- src; patch -p1 -s < $d || { echo "$n: does not apply"; continue; }
  for k in psi filters packet pes iters pmt tables push; do
    r=$(/verif/tools/try_tie.sh $k $W 2>&1 | grep -c "TIE-OK")
    [ "$r" = 1 ] || { echo "$n ($k): TIE BROKEN"; bad=1; }
  done
  echo "$n: all eight translators ok"
done
git checkout -q -- src
exit $bad
