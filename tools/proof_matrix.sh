#!/bin/sh
# tools/proof_matrix.sh <scratch worktree of /repo>: for every kept seeded change, which statement-level
# translator(s) see the files it touches, whether the change is inside the translated subset, and
# whether the tie still checks (TIE-BROKEN = caught by proof).  Nothing under /repo or /verif/lean is written.
W=${1:-/tmp/rf}
cd $W || exit 2
git checkout -q -- src
for d in /verif/seeded/*/; do
  id=$(basename $d); f=$d/patch.diff; [ -f $f ] || continue
  ks=""
  grep -q "src/psi/mod.rs" $f && ks="$ks psi"
  grep -q "src/demultiplex.rs" $f && grep -qE "filters_by_pid|updates|FilterChange|fn (insert|remove|contains|get|apply|is_empty)" $f && ks="$ks filters"
  grep -q "src/demultiplex.rs" $f && grep -qE "'outer|'inner|itr\.next|this_proc|this_pid|add_pid_filter" $f && ks="$ks push"
  grep -q "src/packet.rs" $f && ks="$ks packet"
  grep -q "src/pes.rs" $f && ks="$ks pes"
  [ -z "$ks" ] && continue
  git checkout -q -- src
  git apply $f 2>/dev/null || continue
  for k in $ks; do
    r=$(/verif/tools/try_tie.sh $k $W 2>&1 | head -2 | cut -c1-10 | tr '\n' ' ')
    echo "$k $id $r"
  done
done
git checkout -q -- src
