//! Case generators (one PRNG state per run; every random choice derives from the seed).
use std::io::Write;

pub struct Rng(pub u64);
impl Rng {
    pub fn new(seed: u64) -> Rng {
        Rng(seed.wrapping_mul(0x9E3779B97F4A7C15) ^ 0xD1B54A32D192ED03)
    }
    pub fn next(&mut self) -> u64 {
        let mut x = self.0;
        x ^= x << 13;
        x ^= x >> 7;
        x ^= x << 17;
        self.0 = x;
        x.wrapping_mul(0x2545F4914F6CDD1D)
    }
    pub fn below(&mut self, n: u64) -> u64 {
        if n == 0 { 0 } else { self.next() % n }
    }
    pub fn byte(&mut self) -> u8 {
        (self.next() >> 32) as u8
    }
    pub fn bytes(&mut self, n: usize) -> Vec<u8> {
        (0..n).map(|_| self.byte()).collect()
    }
    pub fn chance(&mut self, num: u64, den: u64) -> bool {
        self.below(den) < num
    }
}


pub struct Out<'a> {
    pub w: &'a mut dyn Write,
    pub n: usize,
}
impl<'a> Out<'a> {
    /// decisive case: the theorems equate the model with the property's specification on it
    pub fn d(&mut self, body: &str) -> String {
        let id = format!("d{}", self.n);
        self.n += 1;
        writeln!(self.w, "{} {}", id, body).unwrap();
        id
    }
    /// hostile / free-form case: only model-vs-implementation correspondence (and no-panic)
    pub fn h(&mut self, body: &str) -> String {
        let id = format!("h{}", self.n);
        self.n += 1;
        writeln!(self.w, "{} {}", id, body).unwrap();
        id
    }
    pub fn expect(&mut self, id: &str, exp: &str) {
        writeln!(self.w, "#expect {} {}", id, exp).unwrap();
    }
    pub fn meta(&mut self, k: &str, v: &str) {
        writeln!(self.w, "#meta {} {}", k, v).unwrap();
    }
}

pub fn hex(b: &[u8]) -> String {
    crate::ops::hex(b)
}

pub fn rand_packet(r: &mut Rng) -> Vec<u8> {
    let mut p = r.bytes(188);
    p[0] = 0x47;
    p
}

fn gen_c12(tier: &str, r: &mut Rng, o: &mut Out<'_>) {
    // exhaustive (byte1, byte2): PID / TEI / PUSI / priority
    let step = if tier == "thorough" { 1 } else { 1 };
    for b1 in (0..256usize).step_by(step) {
        for b2 in 0..256usize {
            let mut p = rand_packet(r);
            p[1] = b1 as u8;
            p[2] = b2 as u8;
            o.d(&format!("pkt {}", hex(&p)));
        }
    }
    // exhaustive byte3 x boundary adaptation_field_length
    let ls: Vec<usize> = if tier == "thorough" { (0..256).collect() } else { vec![0, 1, 2, 3, 90, 181, 182, 183, 184, 185, 254, 255] };
    for b3 in 0..256usize {
        for &l in ls.iter() {
            let mut p = rand_packet(r);
            p[3] = b3 as u8;
            p[4] = l as u8;
            o.d(&format!("pkt {}", hex(&p)));
        }
    }
    // every (adaptation_field_control, length) pair
    for afc in 0..4usize {
        for l in 0..256usize {
            let mut p = rand_packet(r);
            p[3] = (p[3] & 0xcf) | ((afc as u8) << 4);
            p[4] = l as u8;
            o.d(&format!("pkt {}", hex(&p)));
        }
    }
    let n = if tier == "thorough" { 400_000 } else { 4_000 };
    for _ in 0..n {
        let p = rand_packet(r);
        o.d(&format!("pkt {}", hex(&p)));
    }
    // a bad sync byte is refused
    let mut p = rand_packet(r);
    p[0] = 0x46;
    o.d(&format!("pkt {}", hex(&p)));
    o.meta("exhaustive", "byte1xbyte2 (65536), byte3 x length set, afc x length (1024)");
}

pub fn generate(prop: &str, tier: &str, seed: u64, w: &mut dyn Write) {
    let mut r = Rng::new(seed);
    let mut o = Out { w, n: 0 };
    match prop {
        "C12" => gen_c12(tier, &mut r, &mut o),
        _ => {
            o.h("crc -");
        }
    }
}
