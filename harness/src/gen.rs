//! Case generators (one PRNG state per run; every random choice derives from the seed).
use std::io::Write;

pub struct Rng(pub std::cell::Cell<u64>);
impl Rng {
    pub fn new(seed: u64) -> Rng {
        Rng(std::cell::Cell::new(seed.wrapping_mul(0x9E3779B97F4A7C15) ^ 0xD1B54A32D192ED03))
    }
    pub fn next(&self) -> u64 {
        let mut x = self.0.get();
        x ^= x << 13;
        x ^= x >> 7;
        x ^= x << 17;
        self.0.set(x);
        x.wrapping_mul(0x2545F4914F6CDD1D)
    }
    pub fn below(&self, n: u64) -> u64 {
        if n == 0 { 0 } else { self.next() % n }
    }
    pub fn byte(&self) -> u8 {
        (self.next() >> 32) as u8
    }
    pub fn bytes(&self, n: usize) -> Vec<u8> {
        (0..n).map(|_| self.byte()).collect()
    }
    pub fn chance(&self, num: u64, den: u64) -> bool {
        self.below(den) < num
    }
}


pub struct Out<'a> {
    pub w: &'a mut dyn Write,
    pub n: usize,
}
impl<'a> Out<'a> {
    /// decisive case: the theorems equate the model with the property's specification on it
    pub fn d(&mut self, body: &str) -> String {
        let id = format!("d{}", self.n);
        self.n += 1;
        writeln!(self.w, "{} {}", id, body).unwrap();
        id
    }
    /// hostile / free-form case: only model-vs-implementation correspondence (and no-panic)
    pub fn h(&mut self, body: &str) -> String {
        let id = format!("h{}", self.n);
        self.n += 1;
        writeln!(self.w, "{} {}", id, body).unwrap();
        id
    }
    pub fn expect(&mut self, id: &str, exp: &str) {
        writeln!(self.w, "#expect {} {}", id, exp).unwrap();
    }
    pub fn meta(&mut self, k: &str, v: &str) {
        writeln!(self.w, "#meta {} {}", k, v).unwrap();
    }
}

pub fn hex(b: &[u8]) -> String {
    crate::ops::hex(b)
}

pub fn rand_packet(r: &Rng) -> Vec<u8> {
    let mut p = r.bytes(188);
    p[0] = 0x47;
    p
}

fn gen_c12(tier: &str, r: &Rng, o: &mut Out<'_>) {
    // exhaustive (byte1, byte2): PID / TEI / PUSI / priority
    let step = if tier == "thorough" { 1 } else { 1 };
    for b1 in (0..256usize).step_by(step) {
        for b2 in 0..256usize {
            let mut p = rand_packet(r);
            p[1] = b1 as u8;
            p[2] = b2 as u8;
            o.d(&format!("pkt {}", hex(&p)));
        }
    }
    // exhaustive byte3 x boundary adaptation_field_length
    let ls: Vec<usize> = if tier == "thorough" { (0..256).collect() } else { vec![0, 1, 2, 3, 90, 181, 182, 183, 184, 185, 254, 255] };
    for b3 in 0..256usize {
        for &l in ls.iter() {
            let mut p = rand_packet(r);
            p[3] = b3 as u8;
            p[4] = l as u8;
            o.d(&format!("pkt {}", hex(&p)));
        }
    }
    // every (adaptation_field_control, length) pair
    for afc in 0..4usize {
        for l in 0..256usize {
            let mut p = rand_packet(r);
            p[3] = (p[3] & 0xcf) | ((afc as u8) << 4);
            p[4] = l as u8;
            o.d(&format!("pkt {}", hex(&p)));
        }
    }
    let n = if tier == "thorough" { 400_000 } else { 4_000 };
    for _ in 0..n {
        let p = rand_packet(r);
        o.d(&format!("pkt {}", hex(&p)));
    }
    // value types: Pid::new / TryFrom<u16>, ContinuityCounter::new (every argument value)
    for v in 0..=65535u32 {
        if tier != "thorough" && v > 0x2100 && v % 251 != 0 && v < 65500 && v.count_ones() > 2 { continue; }
        o.d(&format!("pidtry {}", v));
        o.d(&format!("pidnew {}", v));
    }
    for v in 0..=255u32 { o.d(&format!("ccnew {}", v)); }
    // ContinuityCounter::follows on every pair of counter values (public API, 16 x 16), and
    // From<u8> for ContinuityCounter (keeps the low four bits? no: it asserts like new) via ccnew above
    for a in 0..16u32 { for b in 0..16u32 { o.d(&format!("ccf {} {}", a, b)); } }
    // a bad sync byte is refused
    let mut p = rand_packet(r);
    p[0] = 0x46;
    o.d(&format!("pkt {}", hex(&p)));
    o.meta("exhaustive", "byte1xbyte2 (65536), byte3 x length set, afc x length (1024)");
}


// ---------------------------------------------------------------- C13: adaptation field

fn af_min_len(f: u8) -> usize {
    1 + if f & 0x10 != 0 { 6 } else { 0 } + if f & 0x08 != 0 { 6 } else { 0 } + if f & 0x04 != 0 { 1 } else { 0 }
}

/// build an AF body (flags byte first) of exactly `len` bytes following the layout for flags `f`
/// as far as it fits, with chosen private-data / extension length bytes
fn af_body(r: &Rng, f: u8, len: usize, priv_len: u8, ext_len: u8, ext_flags: u8, marker_ok: bool) -> Vec<u8> {
    let mut b = vec![f];
    if f & 0x10 != 0 { b.extend(r.bytes(6)); }
    if f & 0x08 != 0 { b.extend(r.bytes(6)); }
    if f & 0x04 != 0 { b.push(r.byte()); }
    if f & 0x02 != 0 { b.push(priv_len); b.extend(r.bytes(priv_len as usize)); }
    if f & 0x01 != 0 {
        b.push(ext_len);
        let mut e = vec![ext_flags | (r.byte() & 0x1f)];
        if ext_flags & 0x80 != 0 { e.extend(r.bytes(2)); }
        if ext_flags & 0x40 != 0 { e.extend(r.bytes(3)); }
        if ext_flags & 0x20 != 0 {
            let mut t = r.bytes(5);
            if marker_ok { t[0] |= 1; t[2] |= 1; t[4] |= 1; }
            e.extend(t);
        }
        e.extend(r.bytes(4));
        e.truncate(ext_len as usize);
        while e.len() < ext_len as usize { e.push(r.byte()); }
        b.extend(e);
    }
    b.extend(r.bytes(8));
    if b.len() > len { b.truncate(len); }
    while b.len() < len { b.push(r.byte()); }
    b
}

fn gen_c13(tier: &str, r: &Rng, o: &mut Out<'_>) {
    let thorough = tier == "thorough";
    for f in 0..256usize {
        let f = f as u8;
        let base = af_min_len(f);
        // boundary lengths of each layout
        let mut lens: Vec<usize> = vec![1, 2, base.saturating_sub(1).max(1), base, base + 1, base + 2, base + 3, base + 8, 183];
        if thorough { lens = (1..=183).collect(); }
        for &len in lens.iter() {
            for &pl in [0u8, 1, 5, 255].iter() {
                if f & 0x02 == 0 && pl != 0 { continue; }
                for &(el, ef) in [(0u8, 0u8), (1, 0xe0), (3, 0x80), (4, 0x40), (6, 0x20), (11, 0xe0), (10, 0xe0), (255, 0xe0), (12, 0xa0)].iter() {
                    if f & 0x01 == 0 && el != 0 { continue; }
                    let mk = r.chance(3, 4);
                    let body = af_body(r, f, len, pl, el, ef, mk);
                    o.d(&format!("af {}", hex(&body)));
                }
            }
        }
    }
    // exact-fit bodies: length == what the layout needs, and one byte less
    for f in 0..256usize {
        let f = f as u8;
        for &pl in [0u8, 3].iter() {
            for ef in 0..8u8 {
                let ef = ef << 5;
                let el = 1 + if ef & 0x80 != 0 { 2 } else { 0 } + if ef & 0x40 != 0 { 3 } else { 0 } + if ef & 0x20 != 0 { 5 } else { 0 };
                for dl in 0..3usize {
                    let el2 = (el as usize).saturating_sub(dl) as u8;
                    let need = af_min_len(f) + if f & 2 != 0 { 1 + pl as usize } else { 0 } + if f & 1 != 0 { 1 + el2 as usize } else { 0 };
                    for cut in 0..2usize {
                        if need <= cut { continue; }
                        let mk = r.chance(2, 3);
                        let body = af_body(r, f, need - cut, pl, el2, ef, mk);
                        o.d(&format!("af {}", hex(&body)));
                    }
                }
            }
        }
    }
    // private data / extension filling the field to its end: the length byte equal to what is left,
    // one less, one more — at the largest field sizes (183 for an AF-only packet, 182 with payload)
    // and a middle one; every length byte 170..=255 at the full size (seeded change C13-r10m2: an
    // early "cannot fit" test that is off by one only for the very largest legal value)
    for f in 0..256usize {
        let f = f as u8;
        if f & 0x03 == 0 { continue; }
        for &len in [183usize, 182, 181, 100].iter() {
            let fixed = af_min_len(f);
            if f & 0x02 != 0 {
                let avail = len as i64 - fixed as i64 - 1;
                for d in [-1i64, 0, 1] {
                    let pl = avail + d - if f & 1 != 0 { 1 } else { 0 };
                    if pl < 0 || pl > 255 { continue; }
                    let body = af_body(r, f, len, pl as u8, 0, 0, true);
                    o.d(&format!("af {}", hex(&body)));
                }
            }
            if f & 0x01 != 0 {
                let before = fixed + if f & 2 != 0 { 1 + 2 } else { 0 };
                let avail = len as i64 - before as i64 - 1;
                for d in [-1i64, 0, 1] {
                    let el = avail + d;
                    if el < 0 || el > 255 { continue; }
                    let body = af_body(r, f, len, 2, el as u8, 0xe0, true);
                    o.d(&format!("af {}", hex(&body)));
                }
            }
        }
    }
    for &f in [0x02u8, 0x03, 0x12, 0x1e, 0x1f, 0x06].iter() {
        for pl in 150..=255usize {
            let body = af_body(r, f, 183, pl as u8, 0, 0, true);
            o.d(&format!("af {}", hex(&body)));
        }
    }
    let n = if thorough { 300_000 } else { 5_000 };
    for _ in 0..n {
        let len = 1 + r.below(183) as usize;
        let mut body = r.bytes(len);
        // half of the random bodies get length bytes that make the variable parts fit or nearly fit
        if r.chance(1, 2) && len > 2 {
            let f = body[0];
            let fixed = af_min_len(f);
            if f & 2 != 0 && fixed < len { body[fixed] = (len - fixed - 1).saturating_sub(r.below(3) as usize).min(255) as u8; }
        }
        o.d(&format!("af {}", hex(&body)));
    }
    o.meta("exhaustive", "all 256 AF flag bytes x boundary lengths x private/extension length bytes x extension flag sets; fill-to-the-end length bytes at the largest field sizes");
}

// ---------------------------------------------------------------- C14: PES header

fn ts_bytes(r: &Rng, pfx: u8, v: u64, markers: bool) -> Vec<u8> {
    let m = if markers { 1u8 } else { if r.chance(1, 2) { 1 } else { 0 } };
    let m2 = if markers { 1u8 } else { if r.chance(1, 2) { 1 } else { 0 } };
    let m3 = if markers { 1u8 } else { if r.chance(1, 2) { 1 } else { 0 } };
    vec![
        (pfx << 4) | ((((v >> 30) & 7) as u8) << 1) | m,
        ((v >> 22) & 0xff) as u8,
        ((((v >> 15) & 0x7f) as u8) << 1) | m2,
        ((v >> 7) & 0xff) as u8,
        (((v & 0x7f) as u8) << 1) | m3,
    ]
}

/// optional-header bytes after the 6-byte PES packet header: flags `f`, declared hdl, actual fields
fn pes_optional(r: &Rng, b0: u8, f: u8, hdl: u8, ext_extra: usize) -> Vec<u8> {
    let mut c = vec![b0, f, hdl];
    match f >> 6 {
        2 => { let v = r.next() & 0x1_ffff_ffff; let m = r.chance(3, 4); c.extend(ts_bytes(r, 2, v, m)) }
        3 => {
            let v = r.next() & 0x1_ffff_ffff; let m = r.chance(3, 4); c.extend(ts_bytes(r, 3, v, m));
            let v = r.next() & 0x1_ffff_ffff; let m = r.chance(3, 4); c.extend(ts_bytes(r, 1, v, m));
        }
        _ => {}
    }
    if f & 0x20 != 0 { c.extend(r.bytes(6)); }
    if f & 0x10 != 0 { c.extend(r.bytes(3)); }
    if f & 0x08 != 0 { c.push(r.byte()); }
    if f & 0x04 != 0 { c.push(r.byte() | if r.chance(3, 4) { 0x80 } else { 0 }); }
    if f & 0x02 != 0 { c.extend(r.bytes(2)); }
    if f & 0x01 != 0 { c.extend(r.bytes(ext_extra)); }
    c
}

fn pes_need(f: u8) -> usize {
    (match f >> 6 { 2 => 5, 3 => 10, _ => 0 }) + if f & 0x20 != 0 { 6 } else { 0 } + if f & 0x10 != 0 { 3 } else { 0 }
        + if f & 0x08 != 0 { 1 } else { 0 } + if f & 0x04 != 0 { 1 } else { 0 } + if f & 0x02 != 0 { 2 } else { 0 }
}

fn gen_c14(tier: &str, r: &Rng, o: &mut Out<'_>) {
    let thorough = tier == "thorough";
    // every stream id, with a plausible optional header
    for sid in 0..256usize {
        for &f in [0x00u8, 0x80, 0xc0, 0xff].iter() {
            let mut b = vec![0, 0, 1, sid as u8, r.byte(), r.byte()];
            let need = pes_need(f);
            b.extend(pes_optional(r, 0x80 | (r.byte() & 0x3f), f, (need + 2) as u8, 2));
            b.extend(r.bytes(r.below(12) as usize));
            o.d(&format!("pes {}", hex(&b)));
        }
    }
    // every stream id x PES_packet_length below / at / above the bytes present (0 = unbounded): the
    // declared length is reported, never used to cut the bytes handed out (seeded change C14-r10m1)
    for sid in 0..256usize {
        for &present in [0usize, 1, 5, 20].iter() {
            for &dl in [0i64, 1, 2, present as i64 - 1, present as i64, present as i64 + 1, 65535].iter() {
                if dl < 0 { continue; }
                let mut b = vec![0, 0, 1, sid as u8, (dl >> 8) as u8, (dl & 0xff) as u8];
                let mut body = pes_optional(r, 0x80, 0x00, 0, 0);
                body.extend(r.bytes(present));
                body.truncate(present);
                b.extend(body);
                o.d(&format!("pes {}", hex(&b)));
            }
        }
    }
    // start code / length boundaries
    for len in 0..10usize {
        let mut b = vec![0, 0, 1, 0xe0, 0, 0, 0x80, 0, 0];
        b.truncate(len);
        o.d(&format!("pes {}", hex(&b)));
    }
    for i in 0..3usize {
        for v in [0u8, 1, 2, 0x80, 0xff].iter() {
            let mut b = vec![0, 0, 1, 0xe0, 0, 7, 0x80, 0, 0, 1, 2];
            b[i] = *v;
            o.d(&format!("pes {}", hex(&b)));
        }
    }
    // every flag byte x hdl around the flag-implied size x buffer length around each boundary
    for f in 0..256usize {
        let f = f as u8;
        let need = pes_need(f);
        let hdls: Vec<usize> = if thorough { (0..=(need + 4)).chain([255usize]).collect() } else { vec![need.saturating_sub(1), need, need + 1, need + 3, 0, 255] };
        for &hdl in hdls.iter() {
            for &b0 in [0x80u8, 0x8f, 0x00, 0x40, 0xc0, 0xbf].iter() {
                if b0 >> 6 != 2 && hdl != need { continue; }
                let c = pes_optional(r, b0, f, hdl as u8, 3);
                let full = 3 + hdl.min(40).max(need + 3);
                let cuts: Vec<usize> = if thorough { (0..=full + 2).collect() } else { vec![0, 2, 3, 3 + need.saturating_sub(1), 3 + need, 3 + hdl.min(300), 3 + hdl.min(300) + 1, (3 + hdl.min(300)).saturating_sub(1), full + 2] };
                for &cut in cuts.iter() {
                    let mut cc = c.clone();
                    while cc.len() < cut { cc.push(r.byte()); }
                    cc.truncate(cut);
                    let mut b = vec![0, 0, 1, 0xe0, r.byte(), r.byte()];
                    b.extend(cc);
                    o.d(&format!("pes {}", hex(&b)));
                }
            }
        }
    }
    // every trick-mode byte
    for t in 0..256usize {
        let b = vec![0, 0, 1, 0xe0, 0, 0, 0x80, 0x08, 1, t as u8, 0xaa];
        o.d(&format!("pes {}", hex(&b)));
    }
    // every first optional byte (marker / priority / alignment / copyright / original)
    for b0 in 0..256usize {
        let b = vec![0, 0, 1, 0xc0, 0, 9, b0 as u8, 0x00, 0, 0x11];
        o.d(&format!("pes {}", hex(&b)));
    }
    let n = if thorough { 300_000 } else { 5_000 };
    for _ in 0..n {
        let mut b = vec![0, 0, 1, r.byte(), r.byte(), r.byte()];
        let f = r.byte();
        let need = pes_need(f);
        let hdl = (need as i64 + r.below(5) as i64 - 1).max(0) as u8;
        b.extend(pes_optional(r, if r.chance(9, 10) { 0x80 | (r.byte() & 0x3f) } else { r.byte() }, f, hdl, r.below(6) as usize));
        b.extend(r.bytes(r.below(20) as usize));
        if r.chance(1, 5) { let l = r.below(b.len() as u64 + 1) as usize; b.truncate(l); }
        o.d(&format!("pes {}", hex(&b)));
    }
    // PES headers as the demultiplexer offers them (through Packet::payload and PesPacketFilter)
    mixed_scenarios(tier, r, o, "C14");
    o.meta("exhaustive", "256 stream ids; 256 flag bytes x header_data_length around implied size x buffer cuts; 256 trick-mode bytes; 256 first bytes");
}

// ---------------------------------------------------------------- C15: timestamps / clock refs

fn gen_c15(tier: &str, r: &Rng, o: &mut Out<'_>) {
    let thorough = tier == "thorough";
    let edge: Vec<u64> = vec![0, 1, 2, (1 << 32) - 1, 1 << 32, (1 << 32) + 1, (1 << 33) - 2, (1 << 33) - 1, 1 << 33, (1 << 33) + 1,
        (1 << 34) - 1, 1 << 34, (1 << 34) + 1, 1 << 63, u64::MAX - 1, u64::MAX];
    for &v in edge.iter() { o.d(&format!("tsu64 {}", v)); }
    // every single-bit value and sparse high-bit values (a range check done on a truncated or
    // partially shifted copy of the argument is only exposed by arguments whose excess bits are ALL
    // in the part it lost: seeded change C15-r9m2)
    for k in 0..64u32 {
        let one = 1u64 << k;
        for v in [one, one | 1, one | 1234, one.wrapping_sub(1), !one, one | (1u64 << 63)] { o.d(&format!("tsu64 {}", v)); }
    }
    let n = if thorough { 200_000 } else { 5_000 };
    for _ in 0..n {
        let v = match r.below(4) { 0 => r.next() & ((1 << 33) - 1), 1 => r.next() & ((1 << 35) - 1), 2 => (1u64 << 33).wrapping_add(r.below(64)).wrapping_sub(32), _ => r.next() };
        o.d(&format!("tsu64 {}", v));
    }
    // all 2^7 marker/prefix patterns x random values
    for pat in 0..128usize {
        let reps = if thorough { 200 } else { 12 };
        for _ in 0..reps {
            let v = r.next() & 0x1_ffff_ffff;
            let pfx = (pat >> 3) as u8;
            let mut b = ts_bytes(r, pfx, v, true);
            if pat & 1 == 0 { b[0] &= 0xfe; }
            if pat & 2 == 0 { b[2] &= 0xfe; }
            if pat & 4 == 0 { b[4] &= 0xfe; }
            b.extend(r.bytes(r.below(3) as usize));
            o.d(&format!("ts {}", hex(&b)));
        }
    }
    for &v in edge.iter() {
        let v = v & 0x1_ffff_ffff;
        for pfx in [1u8, 2, 3, 0, 15] { let b = ts_bytes(r, pfx, v, true); o.d(&format!("ts {}", hex(&b))); }
    }
    for _ in 0..n { let b = r.bytes(5); o.d(&format!("ts {}", hex(&b))); }
    // wrap detection
    let m33: u64 = (1 << 33) - 1;
    let mut pairs: Vec<(u64, u64)> = vec![];
    for &e in [0u64, 1, (1 << 32) - 1, 1 << 32, (1 << 32) + 1, m33 - 1, m33].iter() {
        for &d in [0u64, 1, 2, (1 << 32) - 1, 1 << 32, (1 << 32) + 1, m33].iter() {
            pairs.push(((e + d) & m33, e));
            pairs.push((e, (e + d) & m33));
        }
    }
    for _ in 0..n {
        let e = r.next() & m33;
        let d = match r.below(3) { 0 => r.below((1 << 32) + 1), 1 => (1u64 << 32) - 2 + r.below(5), _ => r.next() & m33 };
        pairs.push(((e + d) & m33, e));
        if r.chance(1, 4) { pairs.push((r.next() & m33, r.next() & m33)); }
    }
    for (a, b) in pairs { o.d(&format!("wrap {} {}", a, b)); }
    // clock references
    for &b in [0u64, 1, (1 << 33) - 1, 1 << 33, (1 << 33) + 1, u64::MAX, 1 << 40].iter() {
        for &e in [0u64, 1, 299, 300, 511, 512, 513, 65535].iter() { o.d(&format!("cref {} {}", b, e)); }
    }
    for k in 0..64u32 {
        let one = 1u64 << k;
        for b in [one, one | 1, one | 1234, one | (1u64 << 63), one | (1u64 << 50), one.wrapping_sub(1)] {
            for e in [0u64, 511, 512] { o.d(&format!("cref {} {}", b, e)); }
        }
    }
    for k in 0..16u32 {
        for b in [0u64, m33, 1 << 33, 1 << 49] { o.d(&format!("cref {} {}", b, 1u64 << k)); o.d(&format!("cref {} {}", b, (1u64 << k) | 1)); }
    }
    for _ in 0..n {
        // sparse arguments: a few random bits anywhere in the 64 / 16 bits
        let sb = (1u64 << r.below(64)) | (if r.chance(1, 2) { 1u64 << r.below(64) } else { 0 });
        let se = (1u64 << r.below(16)) | (if r.chance(1, 2) { 1u64 << r.below(16) } else { 0 });
        if r.chance(1, 4) { o.d(&format!("cref {} {}", sb, if r.chance(1, 2) { se } else { r.below(512) })); }
        let b = if r.chance(4, 5) { r.next() & m33 } else { r.next() };
        let e = if r.chance(4, 5) { r.below(512) } else { r.below(65536) };
        o.d(&format!("cref {} {}", b, e));
        let s = r.bytes(6 + r.below(3) as usize);
        o.d(&format!("crefs {}", hex(&s)));
    }
    o.d("crefs ffffffffffff");
    o.d("crefs 000000000000");
    o.meta("exhaustive", "all 128 marker/prefix patterns; boundary classes of from_u64 / from_parts / wrap");
}

// ---------------------------------------------------------------- C04 (checksum part)

pub fn crc32(data: &[u8]) -> u32 {
    // independent bit-serial implementation (Annex A): poly 0x04C11DB7, preset all ones, MSB first
    let mut c: u32 = 0xffff_ffff;
    for &d in data {
        for k in 0..8 {
            let bit = ((d >> (7 - k)) & 1) as u32;
            let top = (c >> 31) & 1;
            c <<= 1;
            if top ^ bit == 1 { c ^= 0x04C1_1DB7; }
        }
    }
    c
}

fn gen_crc_cases(tier: &str, r: &Rng, o: &mut Out<'_>) {
    let thorough = tier == "thorough";
    o.d("crc -");
    for b in 0..256usize { let id = o.d(&format!("crc {:02x}", b)); o.expect(&id, &format!("{}", crc32(&[b as u8]))); }
    if thorough {
        for a in 0..256usize { for b in 0..256usize { let id = o.d(&format!("crc {:02x}{:02x}", a, b)); o.expect(&id, &format!("{}", crc32(&[a as u8, b as u8]))); } }
    } else {
        for _ in 0..2000 { let v = r.bytes(2); let id = o.d(&format!("crc {}", hex(&v))); o.expect(&id, &format!("{}", crc32(&v))); }
    }
    let n = if thorough { 60_000 } else { 3_000 };
    for _ in 0..n {
        let len = r.below(1100) as usize;
        let v = r.bytes(len);
        let id = o.d(&format!("crc {}", hex(&v)));
        o.expect(&id, &format!("{}", crc32(&v)));
    }
    // message followed by its CRC sums to zero; corruptions do not
    for _ in 0..(n / 10) {
        let len = 1 + r.below(200) as usize;
        let mut v = r.bytes(len);
        let c = crc32(&v);
        v.extend_from_slice(&c.to_be_bytes());
        let id = o.d(&format!("crc {}", hex(&v)));
        o.expect(&id, "0");
        let bit = r.below(v.len() as u64 * 8) as usize;
        let mut w = v.clone();
        w[bit / 8] ^= 0x80 >> (bit % 8);
        let id = o.d(&format!("crc {}", hex(&w)));
        o.expect(&id, &format!("{}", crc32(&w)));
    }
}

// ---------------------------------------------------------------- C16 / C17: tables, descriptors

pub fn rand_desc(r: &Rng) -> Vec<u8> {
    let tag = match r.below(8) { 0 => 5, 1 => 10, 2 => 14, 3 => 40, _ => r.byte() };
    let len = match r.below(6) { 0 => 0, 1 => 3, 2 => 4, 3 => 8, _ => r.below(12) as usize };
    let mut d = vec![tag, len as u8];
    d.extend(r.bytes(len));
    d
}

/// one descriptor whose length byte is 253, 254 or 255 (or, now and then, anything from 200 up)
pub fn long_desc(r: &Rng) -> Vec<u8> {
    let tag = match r.below(6) { 0 => 5, 1 => 10, 2 => 14, 3 => 40, _ => r.byte() };
    let len = if r.chance(3, 4) { 253 + r.below(3) as usize } else { 200 + r.below(56) as usize };
    let mut d = vec![tag, len as u8];
    d.extend(r.bytes(len));
    d
}

pub fn rand_desc_loop(r: &Rng, max: usize) -> Vec<u8> {
    let mut b = vec![];
    for _ in 0..r.below(max as u64 + 1) { b.extend(rand_desc(r)); }
    b
}

fn gen_c17(tier: &str, r: &Rng, o: &mut Out<'_>) {
    let thorough = tier == "thorough";
    // every tag x payload lengths 0..=6 and 255
    for tag in 0..256usize {
        for &len in [0usize, 1, 2, 3, 4, 5, 6, 255].iter() {
            let mut d = vec![tag as u8, len as u8];
            d.extend(r.bytes(len));
            o.d(&format!("desc {}", hex(&d)));
        }
    }
    // CoreDescriptors::from_bytes called directly: empty / one byte / length byte beyond, at and
    // inside the buffer, every tag
    o.d("descfb -");
    for tag in 0..256usize {
        o.d(&format!("descfb {}", hex(&[tag as u8])));
        for &(len, have) in [(0usize, 0usize), (1, 0), (1, 1), (3, 2), (3, 3), (4, 4), (4, 6), (255, 10)].iter() {
            let mut d = vec![tag as u8, len as u8];
            d.extend(r.bytes(have));
            o.d(&format!("descfb {}", hex(&d)));
        }
    }
    // typed descriptors: every length 0..=255
    for &tag in [5u8, 10, 14, 40].iter() {
        for len in 0..256usize {
            if !thorough && len > 20 && len % 16 != 0 && len != 255 { continue; }
            let mut d = vec![tag, len as u8];
            d.extend(r.bytes(len));
            o.d(&format!("desc {}", hex(&d)));
        }
    }
    // loops of up to 3 descriptors over (tag class, length byte relative to what remains)
    let tags = [5u8, 10, 14, 40, 2, 0x80];
    let depth = 3;
    let mut stack: Vec<Vec<u8>> = vec![vec![]];
    for _ in 0..depth {
        let mut next = vec![];
        for pre in stack.iter() {
            for &t in tags.iter() {
                for &l in [0usize, 1, 3, 4, 5].iter() {
                    let mut b = pre.clone();
                    b.push(t); b.push(l as u8); b.extend(r.bytes(l));
                    next.push(b);
                }
            }
        }
        for b in next.iter() {
            if !thorough && r.chance(9, 10) && b.len() > 14 { continue; }
            o.d(&format!("desc {}", hex(b)));
            // truncations: remove 1..3 trailing bytes; length byte overrun; a single stray byte
            for cut in 1..=3usize { if b.len() >= cut { o.d(&format!("desc {}", hex(&b[..b.len() - cut]))); } }
            let mut c = b.clone(); c.push(r.byte()); o.d(&format!("desc {}", hex(&c)));
            let mut c = b.clone(); c.push(r.byte()); c.push(1 + r.below(255) as u8); o.d(&format!("desc {}", hex(&c)));
        }
        stack = if thorough { next } else { next.into_iter().filter(|_| r.chance(1, 6)).collect() };
    }
    let n = if thorough { 200_000 } else { 5_000 };
    for _ in 0..n {
        let mut b = rand_desc_loop(r, 5);
        if r.chance(1, 3) { let l = r.below(b.len() as u64 + 1) as usize; b.truncate(l); }
        if r.chance(1, 10) { b = r.bytes(r.below(30) as usize); }
        o.d(&format!("desc {}", hex(&b)));
    }
    o.d("desc -");
    o.meta("exhaustive", "256 tags x payload lengths {0..6,255}; typed descriptors x lengths; loops of <=3 descriptors over tag class x length");
}

fn gen_c16(tier: &str, r: &Rng, o: &mut Out<'_>) {
    let thorough = tier == "thorough";
    // PAT bodies of every length 0..=1012
    for len in 0..=1012usize {
        if !thorough && len > 40 && len % 37 != 0 && len < 1008 { continue; }
        let mut b = r.bytes(len);
        // make some entries network entries / boundary PIDs
        let mut i = 0;
        while i + 4 <= b.len() {
            match r.below(6) { 0 => { b[i] = 0; b[i + 1] = 0; } 1 => { b[i + 2] = 0xff; b[i + 3] = 0xff; } 2 => { b[i + 2] = 0xe0; b[i + 3] = 0; } _ => {} }
            i += 4;
        }
        o.d(&format!("pat {}", hex(&b)));
    }
    // PMT bodies
    let n = if thorough { 150_000 } else { 6_000 };
    for k in 0..n {
        let mut b = vec![r.byte(), r.byte()];
        let pd = rand_desc_loop(r, 3);
        // every bit of the 12-bit length fields is exercised (high bits set with a small low part)
        let pil = match r.below(10) { 0 => pd.len() + 1, 1 => pd.len().saturating_sub(1), 2 => 4095, 3 => (pd.len() & 0x3ff) | 0x400, 4 => (pd.len() & 0x3ff) | 0x800, 5 => (pd.len() & 0xff) | 0x100 << r.below(4), _ => pd.len() };
        b.push(((pil >> 8) as u8 & 0x0f) | (r.byte() & 0xf0)); b.push(pil as u8);
        b.extend(&pd);
        for _ in 0..r.below(5) {
            let ed = rand_desc_loop(r, 3);
            let esil = match r.below(12) { 0 => ed.len() + 1, 1 => ed.len().saturating_sub(1), 2 => 4095, 3 => (ed.len() & 0x3ff) | 0x400, 4 => (ed.len() & 0x3ff) | 0x800, 5 => (ed.len() & 0xff) | 0x100 << r.below(4), _ => ed.len() };
            b.push(r.byte());
            let pid = match r.below(4) { 0 => 0x1fff, 1 => 0, _ => r.below(0x2000) as u16 };
            b.push((r.byte() & 0xe0) | (pid >> 8) as u8); b.push(pid as u8);
            b.push(((esil >> 8) as u8 & 0x0f) | (r.byte() & 0xf0)); b.push(esil as u8);
            b.extend(&ed);
        }
        match r.below(6) { 0 => { b.extend(r.bytes(1 + r.below(4) as usize)); } 1 => { let l = r.below(b.len() as u64 + 1) as usize; b.truncate(l); } _ => {} }
        if k < 8 { b.truncate(k); }
        o.d(&format!("pmt {}", hex(&b)));
    }
    // long descriptor loops: program_info_length / ES_info_length above 255, 1023 and 2047 that FIT
    for k in 0..(if thorough { 400 } else { 40 }) {
        let want = [256usize, 300, 1023, 1024, 1025, 1500, 2047, 2048, 2049, 3000, 4095][k % 11];
        let mut pd = vec![];
        while pd.len() + 257 <= want { pd.push(0x80); pd.push(255); pd.extend(r.bytes(255)); }
        let rem = want - pd.len();
        if rem >= 2 { pd.push(0x81); pd.push((rem - 2) as u8); pd.extend(r.bytes(rem - 2)); } else { pd.extend(r.bytes(rem)); }
        let on_stream = k % 2 == 1;
        let mut b = vec![r.byte(), r.byte()];
        if on_stream {
            b.push(0xf0); b.push(0);
            b.extend_from_slice(&[0x1b, 0xe1, 0x00, 0xf0 | (want >> 8) as u8 & 0x0f, want as u8]);
            b.extend(&pd);
            b.extend_from_slice(&[0x0f, 0xe1, 0x01, 0xf0, 0x00]);
        } else {
            b.push(0xf0 | (want >> 8) as u8 & 0x0f); b.push(want as u8);
            b.extend(&pd);
            b.extend_from_slice(&[0x1b, 0xe1, 0x00, 0xf0, 0x00]);
        }
        if k % 5 == 4 { let l = b.len(); b.truncate(l - 1 - r.below(6) as usize); }
        o.d(&format!("pmt {}", hex(&b)));
    }
    // section common header (every value of bytes 1 and 2, wrong lengths panic as documented) and
    // table syntax header (every value of the version / current_next byte)
    for b1 in 0..256usize { for &b2 in [0u8, 1, 0x7f, 0x80, 0xfd, 0xff].iter() { o.d(&format!("sch {:02x}{:02x}{:02x}", r.byte(), b1, b2)); } }
    for b2 in 0..256usize { o.d(&format!("sch {:02x}{:02x}{:02x}", r.byte(), r.byte(), b2)); }
    for len in [0usize, 1, 2, 4, 5] { o.d(&format!("sch {}", hex(&r.bytes(len)))); }
    for b2 in 0..256usize { let mut b = r.bytes(5 + r.below(4) as usize); b[2] = b2 as u8; o.d(&format!("tsh {}", hex(&b))); }
    for len in 0..5usize { o.d(&format!("tsh {}", hex(&r.bytes(len)))); }
    for _ in 0..500 { o.d(&format!("tsh {}", hex(&r.bytes(5)))); }
    // every body length 0..=40 with boundary-valued length fields
    for len in 0..=40usize {
        for &pil in [0usize, 1, len.saturating_sub(5), len.saturating_sub(4), len.saturating_sub(3), 4095].iter() {
            let mut b = r.bytes(len);
            if len >= 4 { b[2] = (b[2] & 0xf0) | ((pil >> 8) as u8 & 0x0f); b[3] = pil as u8; }
            o.d(&format!("pmt {}", hex(&b)));
        }
    }
    o.meta("exhaustive", "PAT body lengths; PMT body lengths 0..=40 x boundary program_info_length");
}

// ================================================================ transport stream builders

/// one transport packet with `payload` (1..=184 bytes) and adaptation-field stuffing as needed.
/// `pcr`: put a PCR in the adaptation field when it is long enough.
pub fn mk_pkt(r: &Rng, pid: u16, pusi: bool, cc: u8, payload: &[u8], pcr: bool) -> Vec<u8> {
    assert!(payload.len() >= 1 && payload.len() <= 184);
    let mut p = vec![0x47, (if pusi { 0x40 } else { 0 }) | ((pid >> 8) as u8 & 0x1f) | if r.chance(1, 8) { 0x20 } else { 0 }, pid as u8];
    if payload.len() == 184 {
        p.push(0x10 | (cc & 0x0f));
    } else {
        p.push(0x30 | (cc & 0x0f));
        let l = 183 - payload.len();
        p.push(l as u8);
        if l > 0 {
            let mut af = vec![0u8; l];
            // indicator bits (discontinuity, random access, ES priority): no property depends on them
            af[0] = if r.chance(1, 3) { r.byte() & 0xe0 } else { 0 };
            for b in af[1..].iter_mut() { *b = 0xff; }
            if pcr && l >= 7 { af[0] |= 0x10; for b in af[1..7].iter_mut() { *b = r.byte(); } }
            p.extend(af);
        }
    }
    p.extend_from_slice(payload);
    assert_eq!(p.len(), 188);
    p
}

/// adaptation-field-only packet (no payload); the continuity counter does not advance
pub fn mk_af_only(r: &Rng, pid: u16, cc: u8) -> Vec<u8> {
    let mut p = vec![0x47, (pid >> 8) as u8 & 0x1f, pid as u8, 0x20 | (cc & 0x0f), 183, 0x10];
    p.extend(r.bytes(6));
    while p.len() < 188 { p.push(0xff); }
    p
}

pub fn null_pkt(r: &Rng) -> Vec<u8> {
    let mut p = vec![0x47, 0x1f, 0xff, 0x10 | (r.byte() & 0x0f)];
    while p.len() < 188 { p.push(0xff); }
    p
}

pub fn with_crc(mut s: Vec<u8>) -> Vec<u8> {
    let c = crc32(&s);
    s.extend_from_slice(&c.to_be_bytes());
    s
}

/// a section-syntax section: table_id, syntax bit set, section_length, 5-byte table syntax header,
/// body, CRC
pub fn syntax_section(table_id: u8, id: u16, version: u8, body: &[u8]) -> Vec<u8> {
    let sl = 5 + body.len() + 4;
    let mut s = vec![table_id, 0xb0 | ((sl >> 8) as u8 & 0x0f), sl as u8, (id >> 8) as u8, id as u8, 0xc1 | ((version & 0x1f) << 1), 0, 0];
    s.extend_from_slice(body);
    with_crc(s)
}

/// vary bits no property depends on (private_indicator, reserved bits, section numbers) and, with
/// `cni0`, clear current_next_indicator; the CRC is recomputed
pub fn vary_section(r: &Rng, sec: &[u8], cni0: bool) -> Vec<u8> {
    let mut s = sec[..sec.len() - 4].to_vec();
    if r.chance(1, 2) { s[1] = (s[1] & 0x8f) | (r.byte() & 0x70); }
    if r.chance(1, 2) { s[5] = (s[5] & 0x3f) | (r.byte() & 0xc0); }
    if r.chance(1, 4) { s[6] = r.byte(); s[7] = r.byte(); }
    if cni0 { s[5] &= 0xfe; }
    with_crc(s)
}

pub fn pat_section(tsid: u16, version: u8, entries: &[(u16, u16)]) -> Vec<u8> {
    let mut body = vec![];
    for &(pn, pid) in entries {
        body.extend_from_slice(&[(pn >> 8) as u8, pn as u8, 0xe0 | (pid >> 8) as u8 & 0x1f, pid as u8]);
    }
    syntax_section(0, tsid, version, &body)
}

pub fn pmt_section(prog: u16, version: u8, pcr_pid: u16, prog_desc: &[u8], streams: &[(u8, u16, Vec<u8>)]) -> Vec<u8> {
    let mut body = vec![0xe0 | (pcr_pid >> 8) as u8 & 0x1f, pcr_pid as u8, 0xf0 | (prog_desc.len() >> 8) as u8 & 0x0f, prog_desc.len() as u8];
    body.extend_from_slice(prog_desc);
    for (st, pid, d) in streams {
        body.extend_from_slice(&[*st, 0xe0 | (*pid >> 8) as u8 & 0x1f, *pid as u8, 0xf0 | (d.len() >> 8) as u8 & 0x0f, d.len() as u8]);
        body.extend_from_slice(d);
    }
    syntax_section(2, prog, version, &body)
}

/// how a section is cut into transport packets
pub struct SecPlan {
    pub pre: Vec<u8>,        // bytes before the section in the first packet (pointer_field = pre.len())
    pub first: usize,        // bytes of the section carried by the first packet
    pub conts: Vec<usize>,   // payload sizes of the continuation packets (the last one may hold trailing stuffing)
    pub trailing_stuff: bool, // fill the packet in which the section ends with 0xff (else shorten it with AF stuffing)
}

/// packetise `section` on `pid`; returns packets.  Requires 1 + pre.len() + first <= 184.
pub fn packetize_section(r: &Rng, pid: u16, cc: &mut u8, section: &[u8], plan: &SecPlan) -> Vec<Vec<u8>> {
    let mut out = vec![];
    let mut pl = vec![plan.pre.len() as u8];
    pl.extend_from_slice(&plan.pre);
    let first = plan.first.min(section.len());
    pl.extend_from_slice(&section[..first]);
    let mut pos = first;
    if pos == section.len() && plan.trailing_stuff { while pl.len() < 184 { pl.push(0xff); } }
    out.push(mk_pkt(r, pid, true, *cc, &pl, false));
    *cc = (*cc + 1) & 15;
    let mut i = 0;
    while pos < section.len() {
        let want = if i < plan.conts.len() { plan.conts[i] } else { 184 };
        let want = want.max(1).min(184);
        i += 1;
        let take = want.min(section.len() - pos);
        let mut pl = section[pos..pos + take].to_vec();
        pos += take;
        if pos == section.len() && plan.trailing_stuff { while pl.len() < 184 { pl.push(0xff); } }
        out.push(mk_pkt(r, pid, false, *cc, &pl, false));
        *cc = (*cc + 1) & 15;
    }
    out
}

/// Pack sections back to back on one PID, as real multiplexers do: when a section ends inside a
/// packet, its last `t` bytes travel as the pointer_field bytes of the packet that starts the next
/// section.  That packet carries `j` bytes of the new section (`j >= min_j`; the packet is
/// shortened by adaptation-field stuffing unless it is filled).  A final stuffing start (0xff…)
/// flushes the last tail.
pub fn pack_sections(r: &Rng, pid: u16, cc: &mut u8, secs: &[Vec<u8>], min_j: usize) -> Vec<Vec<u8>> {
    let mut out = vec![];
    let mut carry: Vec<u8> = vec![];
    for sec in secs.iter() {
        // pointer bytes must leave room for at least min_j (<= 183 - t) bytes of the new section
        while carry.len() + min_j.max(1) > 183 {
            let take = (carry.len() - (183 - min_j.max(1))).min(184).max(1);
            let pl: Vec<u8> = carry.drain(..take).collect();
            out.push(mk_pkt(r, pid, false, *cc, &pl, false)); *cc = (*cc + 1) & 15;
        }
        let j_max = (183 - carry.len()).min(sec.len());
        let lo = min_j.max(1).min(j_max);
        let j = match r.below(5) { 0 => lo, 1 => lo + r.below((j_max - lo + 1).min(9) as u64) as usize, 2 => lo + r.below((j_max - lo + 1) as u64) as usize, 3 => j_max.saturating_sub(1).max(lo), _ => j_max };
        let mut pl = vec![carry.len() as u8];
        pl.extend_from_slice(&carry);
        pl.extend_from_slice(&sec[..j]);
        if j == sec.len() && r.chance(1, 2) { while pl.len() < 184 { pl.push(0xff); } }
        out.push(mk_pkt(r, pid, true, *cc, &pl, false)); *cc = (*cc + 1) & 15;
        carry.clear();
        let mut pos = j;
        // continuation packets until at most `t` bytes are left for the next start packet
        let t = if r.chance(1, 3) { 0 } else { r.below(150) as usize };
        while sec.len() - pos > t {
            let rem = sec.len() - pos;
            let take = match r.below(5) { 0 => 1, 1 => 183, 2 => 182, _ => 184 }.min(rem - t.min(rem)).max(1).min(rem);
            out.push(mk_pkt(r, pid, false, *cc, &sec[pos..pos + take], false)); *cc = (*cc + 1) & 15;
            pos += take;
        }
        carry = sec[pos..].to_vec();
    }
    if !carry.is_empty() {
        while carry.len() > 183 {
            let pl: Vec<u8> = carry.drain(..184).collect();
            out.push(mk_pkt(r, pid, false, *cc, &pl, false)); *cc = (*cc + 1) & 15;
        }
        let mut pl = vec![carry.len() as u8];
        pl.extend_from_slice(&carry);
        while pl.len() < 184 { pl.push(0xff); }
        out.push(mk_pkt(r, pid, true, *cc, &pl, false)); *cc = (*cc + 1) & 15;
    }
    out
}

pub fn simple_plan(section_len: usize) -> SecPlan {
    SecPlan { pre: vec![], first: section_len.min(183), conts: vec![], trailing_stuff: true }
}

pub fn rand_plan(r: &Rng, section_len: usize, min_first: usize) -> SecPlan {
    let pre_len = if r.chance(1, 4) { r.below(40) as usize } else { 0 };
    let max_first = 183 - pre_len;
    let lo = min_first.min(section_len).min(max_first);
    // max_first fills the packet (184-byte payload); max_first - 1 gives a 183-byte payload, i.e. the
    // one-byte adaptation field of length 0
    let first = match r.below(6) { 0 | 1 => lo + r.below((max_first - lo + 1) as u64) as usize, 2 => max_first.saturating_sub(1).max(lo), _ => max_first };
    let conts = (0..8).map(|_| match r.below(8) { 0 => 1 + r.below(184) as usize, 1 => 1, 2 => 183, 3 => 182, 4 => 2, _ => 184 }).collect();
    SecPlan { pre: vec![0xff; pre_len], first, conts, trailing_stuff: r.chance(1, 2) }
}

// ---------------------------------------------------------------- PES

pub struct PesSpec {
    pub sid: u8,
    pub pts: Option<u64>,
    pub dts: Option<u64>,
    pub flags_extra: u8,   // ESCR 0x20, ES_rate 0x10, trick 0x08, copy 0x04, crc 0x02, ext 0x01
    pub ext_bytes: usize,
    pub declared_len: Option<u16>, // None: compute (0 if too large)
    pub payload: Vec<u8>,
}

/// returns (PES packet bytes, header length = offset of the payload)
pub fn pes_bytes(r: &Rng, s: &PesSpec) -> (Vec<u8>, usize) {
    let no_header = [0xbcu8, 0xbe, 0xbf, 0xf0, 0xf1, 0xff, 0xf2, 0xf8].contains(&s.sid);
    let mut opt = vec![];
    if !no_header {
        let mut f = s.flags_extra & 0x3f;
        let mut fields = vec![];
        match (s.pts, s.dts) {
            (Some(p), Some(d)) => { f |= 0xc0; fields.extend(ts_bytes(r, 3, p, true)); fields.extend(ts_bytes(r, 1, d, true)); }
            (Some(p), None) => { f |= 0x80; fields.extend(ts_bytes(r, 2, p, true)); }
            _ => {}
        }
        if f & 0x20 != 0 { fields.extend(r.bytes(6)); }
        if f & 0x10 != 0 { fields.extend(r.bytes(3)); }
        if f & 0x08 != 0 { fields.push(r.byte()); }
        if f & 0x04 != 0 { fields.push(r.byte() | 0x80); }
        if f & 0x02 != 0 { fields.extend(r.bytes(2)); }
        if f & 0x01 != 0 { fields.extend(r.bytes(s.ext_bytes)); } else { fields.extend(vec![0xff; s.ext_bytes]); }
        opt.push(0x80 | (r.byte() & 0x3f));
        opt.push(f);
        opt.push(fields.len() as u8);
        opt.extend(fields);
    }
    let total = opt.len() + s.payload.len();
    let len = match s.declared_len { Some(l) => l, None => if total > 65535 { 0 } else { total as u16 } };
    let mut b = vec![0, 0, 1, s.sid, (len >> 8) as u8, len as u8];
    b.extend(opt);
    let hl = b.len();
    b.extend_from_slice(&s.payload);
    (b, hl)
}

pub fn rand_pes(r: &Rng, max_payload: usize) -> PesSpec {
    let sid = match r.below(10) { 0 => 0xbd, 1 => [0xbcu8, 0xbe, 0xbf, 0xf0, 0xf1, 0xff, 0xf2, 0xf8][r.below(8) as usize], 2 => 0xc0 + (r.byte() & 0x1f), _ => 0xe0 + (r.byte() & 0x0f) };
    let (pts, dts) = match r.below(3) { 0 => (None, None), 1 => (Some(r.next() & 0x1_ffff_ffff), None), _ => (Some(r.next() & 0x1_ffff_ffff), Some(r.next() & 0x1_ffff_ffff)) };
    let plen = match r.below(6) { 0 => 0, 1 => 1, 2 => r.below(20) as usize, _ => r.below(max_payload as u64 + 1) as usize };
    PesSpec { sid, pts, dts, flags_extra: if r.chance(1, 2) { r.byte() & 0x3f } else { 0 }, ext_bytes: r.below(5) as usize,
        declared_len: if r.chance(1, 6) { Some(0) } else { None }, payload: r.bytes(plen) }
}

/// packetise one PES packet: the first transport packet carries the whole header plus `k` payload
/// bytes; each packet may be shortened by adaptation-field stuffing
pub fn packetize_pes(r: &Rng, pid: u16, cc: &mut u8, pes: &[u8], header_len: usize, exact_fit: bool) -> Vec<Vec<u8>> {
    let mut out = vec![];
    assert!(header_len <= 184);
    let max_first = pes.len().min(184);
    let first = if exact_fit || r.chance(1, 2) { max_first } else { header_len + r.below((max_first - header_len + 1) as u64) as usize };
    out.push(mk_pkt(r, pid, true, *cc, &pes[..first], r.chance(1, 4)));
    *cc = (*cc + 1) & 15;
    let mut pos = first;
    while pos < pes.len() {
        let rem = pes.len() - pos;
        let take = if exact_fit || r.chance(2, 3) { rem.min(184) } else { 1 + r.below(rem.min(184) as u64) as usize };
        out.push(mk_pkt(r, pid, false, *cc, &pes[pos..pos + take], r.chance(1, 6)));
        *cc = (*cc + 1) & 15;
        pos += take;
    }
    out
}

pub fn join(pkts: &[Vec<u8>]) -> String {
    pkts.iter().map(|p| hex(p)).collect::<Vec<_>>().join(" ")
}
pub fn concat(pkts: &[Vec<u8>]) -> Vec<u8> {
    let mut v = vec![];
    for p in pkts { v.extend_from_slice(p); }
    v
}

// ---------------------------------------------------------------- C03: section reassembly

fn rand_section(r: &Rng, syntax: bool, sl: usize) -> Vec<u8> {
    // sl = section_length (bytes after the 3-byte common header)
    let mut s = vec![r.byte(), (if syntax { 0x80 } else { 0 }) | (r.byte() & 0x70) | ((sl >> 8) as u8 & 0x0f), sl as u8];
    s.extend(r.bytes(sl));
    s
}

fn gen_c03(tier: &str, r: &Rng, o: &mut Out<'_>) {
    let thorough = tier == "thorough";
    for &syntax in [true, false].iter() {
        let kind = if syntax { "s" } else { "c" };
        let min_first = if syntax { 8 } else { 3 };
        for sl in 0..=1021usize {
            let reps = if thorough { 12 } else if sl < 30 || sl > 1000 || (170..200).contains(&sl) { 4 } else { 1 };
            for rep in 0..reps {
                let sec = rand_section(r, syntax, sl);
                let mut cc = r.byte() & 15;
                let mut pkts = vec![];
                // prior state: idle, mid-section (unfinished), or a previous section finished by the pointer bytes
                let prior = r.below(4);
                let mut plan = if rep == 0 { simple_plan(sec.len()) } else { rand_plan(r, sec.len(), min_first) };
                if prior == 1 {
                    // an unfinished section precedes
                    let prev = rand_section(r, syntax, 300 + r.below(400) as usize);
                    let pp = SecPlan { pre: vec![], first: 100, conts: vec![], trailing_stuff: false };
                    let mut all = packetize_section(r, 0x100, &mut cc, &prev, &pp);
                    all.truncate(1 + r.below(2) as usize);
                    pkts.extend(all);
                } else if prior == 2 && plan.pre.len() + 1 + min_first.min(sec.len()) <= 183 {
                    // previous section completed by the pointer_field bytes of our first packet
                    let tail = 1 + r.below(30) as usize;
                    let mut prev = rand_section(r, syntax, 150 + tail + r.below(20) as usize);
                    // the tail carried in front of the next section start is section data like any
                    // other, also when it looks like stuffing (all 0xff / all 0x00; seeded change C03-r11m2)
                    if r.chance(1, 3) { let n = prev.len(); let v = if r.chance(3, 4) { 0xff } else { 0x00 }; for b in prev[n - tail..].iter_mut() { *b = v; } }
                    let head_len = prev.len() - tail;
                    let pp = SecPlan { pre: vec![], first: head_len, conts: vec![], trailing_stuff: false };
                    let mut all = packetize_section(r, 0x100, &mut cc, &prev[..head_len], &pp);
                    all.truncate(1);
                    pkts.extend(all);
                    plan.pre = prev[head_len..].to_vec();
                    if 1 + plan.pre.len() + plan.first > 184 { plan.first = 184 - 1 - plan.pre.len(); }
                }
                else if prior == 3 {
                    // a REJECTED section start precedes (length above the limit, or the wrong syntax bit):
                    // the processor ignores its continuations, and must stop ignoring at our start
                    // (seeded change C03-r11m1: `ignore_rest` cleared only by `reset()`)
                    let mut rej = rand_section(r, syntax, 200 + r.below(300) as usize);
                    if r.chance(1, 2) { let l = 1022 + r.below(3000) as usize; rej[1] = (rej[1] & 0xf0) | ((l >> 8) as u8 & 0x0f); rej[2] = l as u8; } else { rej[1] ^= 0x80; }
                    let pp = SecPlan { pre: vec![], first: 100, conts: vec![], trailing_stuff: false };
                    let mut all = packetize_section(r, 0x100, &mut cc, &rej, &pp);
                    all.truncate(1 + r.below(2) as usize);
                    pkts.extend(all);
                }
                let lo = min_first.min(sec.len());
                if plan.first < lo { plan.first = lo; }
                if 1 + plan.pre.len() + plan.first > 184 { plan.first = 183 - plan.pre.len(); }
                pkts.extend(packetize_section(r, 0x100, &mut cc, &sec, &plan));
                // trailing stuffing / continuation packets after completion
                for _ in 0..r.below(3) { pkts.push(mk_pkt(r, 0x100, false, cc, &vec![0xff; 184], false)); cc = (cc + 1) & 15; }
                o.d(&format!("sec {} {}", kind, join(&pkts)));
            }
        }
        // over-limit lengths are never delivered
        for sl in 1022..=4095usize {
            if !thorough && sl % 97 != 0 && sl > 1030 && sl < 4090 { continue; }
            let mut sec = rand_section(r, syntax, sl.min(1500));
            sec[1] = (sec[1] & 0xf0) | ((sl >> 8) as u8 & 0x0f); sec[2] = sl as u8;
            let mut cc = 0;
            let pkts = packetize_section(r, 0x100, &mut cc, &sec, &SecPlan { pre: vec![], first: 183, conts: vec![], trailing_stuff: true });
            o.d(&format!("sec {} {}", kind, join(&pkts)));
        }
        // every (section_length, first share) pair near the boundaries
        let sls: Vec<usize> = if thorough { (0..=400).collect() } else { vec![0, 1, 4, 5, 9, 100, 175, 179, 180, 181, 182, 183, 184, 200, 365, 366, 367] };
        for &sl in sls.iter() {
            let sec = rand_section(r, syntax, sl);
            let lo = min_first.min(sec.len());
            for k in lo..=sec.len().min(183) {
                if !thorough && k > lo + 3 && k + 3 < sec.len().min(183) && k % 23 != 0 { continue; }
                let mut cc = 3;
                let plan = SecPlan { pre: vec![], first: k, conts: vec![1, 2, 184, 3], trailing_stuff: k % 2 == 0 };
                let pkts = packetize_section(r, 0x100, &mut cc, &sec, &plan);
                o.d(&format!("sec {} {}", kind, join(&pkts)));
            }
        }
        // hostile payload sequences (free-form: correspondence and no-panic only)
        let n = if thorough { 60_000 } else { 3_000 };
        for _ in 0..n {
            let mut pkts = vec![];
            let mut cc = 0u8;
            for _ in 0..(1 + r.below(6)) {
                let plen = match r.below(5) { 0 => 1, 1 => 2 + r.below(6) as usize, 2 => 184, _ => 1 + r.below(184) as usize };
                let mut pl = r.bytes(plen);
                let pusi = r.chance(1, 2);
                if pusi {
                    pl[0] = match r.below(4) { 0 => 0, 1 => r.below(plen as u64 + 2) as u8, _ => r.below(8) as u8 };
                    let start = 1 + pl[0] as usize;
                    if start + 3 <= pl.len() {
                        if r.chance(2, 3) { if syntax { pl[start + 1] |= 0x80 } else { pl[start + 1] &= 0x7f } }
                        if r.chance(2, 3) { pl[start + 1] &= 0xf0; pl[start + 1] |= (r.below(5) as u8) & 0x0f; }
                    }
                }
                let mut p = mk_pkt(r, 0x100, pusi, cc, &pl, false);
                if r.chance(1, 12) { p[3] = (p[3] & 0xcf) | ((r.byte() & 3) << 4); }
                if r.chance(1, 12) { p[4] = r.byte(); }
                cc = (cc + 1) & 15;
                pkts.push(p);
            }
            o.h(&format!("sec {} {}", kind, join(&pkts)));
        }
    }
    o.meta("exhaustive", "every section_length 0..=1021 in both syntaxes; over-limit lengths; (length, first share) boundaries");
}

// ---------------------------------------------------------------- C08 / C09: PES filter

fn sym_packet(r: &Rng, sym: usize, cc_prev: &mut Option<u8>) -> Vec<u8> {
    // sym in 0..48: pusi(2) x has_payload flag(2) x payload kind(3) x counter kind(4)
    let pusi = sym & 1 != 0;
    let has_payload = (sym >> 1) & 1 != 0;
    let kind = (sym >> 2) % 3;
    let cck = (sym >> 2) / 3;
    let expected = match *cc_prev { Some(c) => if has_payload { (c + 1) & 15 } else { c }, None => r.byte() & 15 };
    let cc = match cck { 0 => expected, 1 => expected.wrapping_sub(1) & 15, 2 => (expected + 2) & 15, _ => (expected + 1 + r.below(15) as u8) & 15 };
    *cc_prev = Some(cc);
    let mut p = if has_payload {
        let pl: Vec<u8> = match kind {
            0 => { let (b, _) = pes_bytes(r, &rand_pes(r, 150)); b[..b.len().min(184)].to_vec() }
            1 => { let mut v = r.bytes(1 + r.below(184) as usize); if v.len() >= 3 { v[2] = 2; } v }
            _ => {
                // very short payloads: arbitrary bytes, or a valid PES packet cut after 1..=8 bytes
                // (a start code with less than the 6-byte fixed header behind it: C08-r9m2)
                if r.chance(1, 2) { r.bytes(1 + r.below(5) as usize) } else { let (b, _) = pes_bytes(r, &rand_pes(r, 20)); b[..(1 + r.below(8) as usize).min(b.len())].to_vec() }
            }
        };
        mk_pkt(r, 0x101, pusi, cc, &pl, false)
    } else {
        let mut p = mk_af_only(r, 0x101, cc);
        if pusi { p[1] |= 0x40; }
        if kind == 1 { p[4] = r.byte(); }
        // the reserved adaptation_field_control value 00 (neither field nor payload): a packet like any
        // other for the continuity check — the counter is compared and recorded (seeded change C09-r12m2)
        if kind == 2 { p[3] &= 0xcf; }
        p
    };
    if kind == 2 && has_payload && r.chance(1, 3) { p[4] = 200; p[3] |= 0x20; }
    p
}

fn gen_pesf(tier: &str, r: &Rng, o: &mut Out<'_>, depth_quick: usize) {
    let thorough = tier == "thorough";
    let depth = if thorough { depth_quick + 1 } else { depth_quick };
    // prefixes reaching the three filter states
    let prefixes: Vec<Vec<usize>> = vec![vec![], vec![3], vec![3, 2 + 4 * 3 * 2], vec![7]];
    let mut seqs: Vec<Vec<usize>> = vec![vec![]];
    for _ in 0..depth {
        let mut next = vec![];
        for s in seqs.iter() { for sym in 0..48usize { let mut t = s.clone(); t.push(sym); next.push(t); } }
        seqs = next;
    }
    for pre in prefixes.iter() {
        for s in seqs.iter() {
            let mut ccp = None;
            let mut pkts = vec![];
            for &sym in pre.iter().chain(s.iter()) { pkts.push(sym_packet(r, sym, &mut ccp)); }
            o.d(&format!("pesf {}", join(&pkts)));
        }
    }
    // a unit start whose payload is a valid PES packet cut after L bytes, for every L up to the end of
    // the optional header (start-code prefixes, start code without the fixed header, header cut inside
    // each optional field), from each state, followed by a continuation and by a fresh unit start
    for pre in prefixes.iter() {
        for l in 1..=40usize {
            for variant in 0..3 {
                let mut ccp = None;
                let mut pkts = vec![];
                for &sym in pre.iter() { pkts.push(sym_packet(r, sym, &mut ccp)); }
                let (b, _) = pes_bytes(r, &rand_pes(r, 60));
                let cut = b[..l.min(b.len())].to_vec();
                let mut next_cc = |ccp: &mut Option<u8>| { let c = match *ccp { Some(c) => (c + 1) & 15, None => r.byte() & 15 }; *ccp = Some(c); c };
                let c = next_cc(&mut ccp);
                pkts.push(mk_pkt(r, 0x101, true, c, &cut, false));
                if variant != 1 { let c = next_cc(&mut ccp); pkts.push(mk_pkt(r, 0x101, false, c, &r.bytes(1 + r.below(184) as usize), false)); }
                if variant != 2 { let c = next_cc(&mut ccp); let (b2, _) = pes_bytes(r, &rand_pes(r, 100)); pkts.push(mk_pkt(r, 0x101, true, c, &b2[..b2.len().min(184)], false)); }
                let c = next_cc(&mut ccp);
                pkts.push(mk_pkt(r, 0x101, false, c, &r.bytes(8), false));
                o.d(&format!("pesf {}", join(&pkts)));
            }
        }
    }
    // all 16x16 counter pairs x payload flag x unit start, from each state
    for pre in prefixes.iter() {
        for c0 in 0..16u8 { for c1 in 0..16u8 { for hp in 0..2 { for us in 0..2 {
            let mut ccp = None;
            let mut pkts = vec![];
            for &sym in pre.iter() { pkts.push(sym_packet(r, sym, &mut ccp)); }
            let mut a = mk_pkt(r, 0x101, false, c0, &r.bytes(50), false);
            if pre.is_empty() { a[1] |= 0x40; a[187 - 49] = 0; a[188 - 49] = 0; a[189 - 49] = 1; }
            let mut b = if hp == 1 { mk_pkt(r, 0x101, us == 1, c1, &r.bytes(60), false) } else { let mut p = mk_af_only(r, 0x101, c1); if us == 1 { p[1] |= 0x40; } p };
            if us == 1 && hp == 1 { let n = b.len(); b[n - 60] = 0; b[n - 59] = 0; b[n - 58] = 1; }
            pkts.push(a); pkts.push(b);
            pkts.push(mk_pkt(r, 0x101, false, (c1 + 1) & 15, &r.bytes(10), false));
            o.d(&format!("pesf {}", join(&pkts)));
        } } } }
    }
    // long random sequences with arbitrary bytes
    let n = if thorough { 40_000 } else { 2_000 };
    for _ in 0..n {
        let mut ccp = None;
        let mut pkts = vec![];
        for _ in 0..(2 + r.below(14)) {
            let sym = if r.chance(3, 4) { [2usize, 3, 2, 2, 0][r.below(5) as usize] + if r.chance(1, 5) { 12 * (1 + r.below(3) as usize) } else { 0 } } else { r.below(48) as usize };
            let mut p = sym_packet(r, sym, &mut ccp);
            if r.chance(1, 20) { let i = 4 + r.below(184) as usize; p[i] = r.byte(); }
            pkts.push(p);
        }
        o.d(&format!("pesf {}", join(&pkts)));
    }
    o.meta("exhaustive", &format!("all symbol sequences of length <= {} over the 48-symbol alphabet from 4 prefixes; all 16x16x2x2 counter cases from each", depth));
}

// ================================================================ multiplex scenarios (demux op)

pub const PES_TYPES: [u8; 6] = [0x02, 0x03, 0x0f, 0x1b, 0x06, 0x81];
pub const NON_PES_TYPES: [u8; 3] = [0x05, 0x86, 0x00];

#[derive(Clone)]
pub struct Prog {
    pub num: u16,
    pub pmt_pid: u16,
    pub version: u8,
    pub pcr_pid: u16,
    pub prog_desc: Vec<u8>,
    pub streams: Vec<(u8, u16, Vec<u8>)>,
}

pub struct Mux<'r> {
    pub r: &'r Rng,
    pub cc: std::collections::HashMap<u16, u8>,
    pub out: Vec<Vec<u8>>,
}
impl<'r> Mux<'r> {
    pub fn new(r: &'r Rng) -> Mux<'r> { Mux { r, cc: Default::default(), out: vec![] } }
    pub fn cc(&mut self, pid: u16) -> u8 { let r = self.r; *self.cc.entry(pid).or_insert_with(|| r.byte() & 15) }
    /// queue a section on `pid` (packets appended in order)
    pub fn section(&mut self, pid: u16, sec: &[u8], plan: &SecPlan) -> Vec<Vec<u8>> {
        let mut c = self.cc(pid);
        let p = packetize_section(self.r, pid, &mut c, sec, plan);
        self.cc.insert(pid, c);
        p
    }
    pub fn packed(&mut self, pid: u16, secs: &[Vec<u8>], min_j: usize) -> Vec<Vec<u8>> {
        let mut c = self.cc(pid);
        let p = pack_sections(self.r, pid, &mut c, secs, min_j);
        self.cc.insert(pid, c);
        p
    }
    pub fn pes(&mut self, pid: u16, spec: &PesSpec, exact: bool) -> Vec<Vec<u8>> {
        let (b, hl) = pes_bytes(self.r, spec);
        let mut c = self.cc(pid);
        let p = packetize_pes(self.r, pid, &mut c, &b, hl, exact);
        self.cc.insert(pid, c);
        p
    }
    pub fn raw(&mut self, pid: u16, pusi: bool, payload: &[u8]) -> Vec<u8> {
        let c = self.cc(pid);
        self.cc.insert(pid, (c + 1) & 15);
        mk_pkt(self.r, pid, pusi, c, payload, false)
    }
    pub fn af_only(&mut self, pid: u16) -> Vec<u8> {
        // counter does not advance for payload-less packets: repeat the last value used
        let c = self.cc(pid);
        mk_af_only(self.r, pid, c.wrapping_sub(1) & 15)
    }
}

/// merge several packet queues preserving the order inside each queue
pub fn interleave(r: &Rng, mut qs: Vec<Vec<Vec<u8>>>) -> Vec<Vec<u8>> {
    let mut out = vec![];
    for q in qs.iter_mut() { q.reverse(); }
    loop {
        let live: Vec<usize> = (0..qs.len()).filter(|&i| !qs[i].is_empty()).collect();
        if live.is_empty() { break; }
        let i = live[r.below(live.len() as u64) as usize];
        // runs of 1..4 packets from the same queue
        for _ in 0..(1 + r.below(4)) { if let Some(p) = qs[i].pop() { out.push(p); } }
    }
    out
}

pub fn distinct_pids(r: &Rng, n: usize, avoid: &[u16]) -> Vec<u16> {
    let mut v: Vec<u16> = vec![];
    while v.len() < n {
        let p = 0x20 + r.below(0x1fd0) as u16;
        if !v.contains(&p) && !avoid.contains(&p) { v.push(p); }
    }
    v
}

pub fn rand_progs(r: &Rng, nprog: usize, max_streams: usize, used: &mut Vec<u16>) -> Vec<Prog> {
    let mut progs = vec![];
    for i in 0..nprog {
        let pmt_pid = distinct_pids(r, 1, used)[0]; used.push(pmt_pid);
        let ns = 1 + r.below(max_streams as u64) as usize;
        let mut pids = distinct_pids(r, ns, used);
        // boundary PIDs (first / last legal values) now and then
        for cand in [0x1fffu16, 0x1ffe, 0x0001, 0x0010] {
            if r.chance(1, 12) && !used.contains(&cand) && !pids.contains(&cand) { let k = r.below(pids.len() as u64) as usize; pids[k] = cand; }
        }
        used.extend(&pids);
        let streams: Vec<(u8, u16, Vec<u8>)> = pids.iter().map(|&p| {
            let st = if r.chance(5, 6) { PES_TYPES[r.below(6) as usize] } else { NON_PES_TYPES[r.below(3) as usize] };
            (st, p, if r.chance(1, 2) { rand_desc_loop(r, 2) } else { vec![] })
        }).collect();
        let mut streams = streams;
        let mut prog_desc = if r.chance(1, 3) { rand_desc_loop(r, 2) } else { vec![] };
        // descriptors at the top of the 8-bit length range (a PMT carrying one spans two packets)
        if r.chance(1, 10) { prog_desc.extend(long_desc(r)); }
        if r.chance(1, 10) { let k = r.below(streams.len() as u64) as usize; let d = long_desc(r); streams[k].2.extend(d); }
        progs.push(Prog { num: (i as u16 + 1) * 3 + r.below(3) as u16, pmt_pid, version: r.byte() & 31, pcr_pid: streams[0].1,
            prog_desc, streams });
    }
    progs
}

pub fn pat_of(progs: &[Prog], nit: Option<u16>) -> Vec<(u16, u16)> {
    let mut e: Vec<(u16, u16)> = vec![];
    if let Some(n) = nit { e.push((0, n)); }
    for p in progs { e.push((p.num, p.pmt_pid)); }
    e
}

pub fn pmt_of(p: &Prog) -> Vec<u8> { pmt_section(p.num, p.version, p.pcr_pid, &p.prog_desc, &p.streams) }

/// the packets of `n` transmissions of `sec` on `pid`, with payload-less (adaptation-field-only)
/// packets sprinkled between and inside them
fn table_reps(m: &mut Mux<'_>, pid: u16, sec: &[u8], n: usize) -> Vec<Vec<u8>> {
    let r = m.r;
    let mut q = vec![];
    for _ in 0..n {
        let pk = m.section(pid, sec, &plan_for(r, sec));
        for p in pk {
            q.push(p);
            if r.chance(1, 6) { q.push(m.af_only(pid)); }
        }
        if r.chance(1, 3) { q.push(m.af_only(pid)); }
    }
    q
}

fn plan_for(r: &Rng, sec: &[u8]) -> SecPlan {
    if r.chance(1, 2) { simple_plan(sec.len()) } else { rand_plan(r, sec.len(), 8) }
}

fn emit(o: &mut Out<'_>, decisive: bool, cfg: &str, pushes: &[Vec<u8>]) -> String {
    let body = format!("demux {} {}", cfg, pushes.iter().map(|p| hex(p)).collect::<Vec<_>>().join(" "));
    if decisive { o.d(&body) } else { o.h(&body) }
}

/// cut a packet list into pushes at random packet boundaries
pub fn rand_pushes(r: &Rng, pkts: &[Vec<u8>]) -> Vec<Vec<u8>> {
    let mut pushes = vec![];
    let mut cur: Vec<u8> = vec![];
    for p in pkts {
        cur.extend_from_slice(p);
        if r.chance(1, 5) { pushes.push(std::mem::take(&mut cur)); if r.chance(1, 10) { pushes.push(vec![]); } }
    }
    pushes.push(cur);
    pushes
}

/// a complete well-formed multiplex: PAT, PMTs, PES on every ES PID, tables repeated
fn wf_mux(r: &Rng, nprog: usize, max_streams: usize, pes_per_pid: usize, max_payload: usize, repeats: bool) -> Vec<Vec<u8>> {
    let mut m = Mux::new(r);
    let mut used = vec![0u16, 0x1fff];
    let progs = rand_progs(r, nprog, max_streams, &mut used);
    let nit = if r.chance(1, 3) { let n = distinct_pids(r, 1, &used)[0]; used.push(n); Some(n) } else { None };
    let pat = vary_section(r, &pat_section(r.below(65536) as u16, r.byte() & 31, &pat_of(&progs, nit)), r.chance(1, 8));
    let pmts: Vec<Vec<u8>> = progs.iter().map(|p| vary_section(r, &pmt_of(p), r.chance(1, 8))).collect();
    let mut head = vec![];
    head.extend(table_reps(&mut m, 0, &pat, 1));
    for (p, s) in progs.iter().zip(pmts.iter()) { head.extend(table_reps(&mut m, p.pmt_pid, s, 1)); }
    let mut qs = vec![];
    for p in progs.iter() {
        for (st, pid, _) in p.streams.iter() {
            let mut q = vec![];
            for _ in 0..(1 + r.below(pes_per_pid as u64)) {
                if PES_TYPES.contains(st) {
                    q.extend(m.pes(*pid, &rand_pes(r, max_payload), r.chance(1, 4)));
                    if r.chance(1, 5) { q.push(m.af_only(*pid)); }
                } else {
                    q.push(m.raw(*pid, r.chance(1, 2), &r.bytes(1 + r.below(184) as usize)));
                }
            }
            qs.push(q);
        }
    }
    if repeats {
        let n = 1 + r.below(4) as usize;
        qs.push(table_reps(&mut m, 0, &pat, n));
        for (p, s) in progs.iter().zip(pmts.iter()) {
            let n = 1 + r.below(4) as usize;
            qs.push(table_reps(&mut m, p.pmt_pid, s, n));
        }
    }
    if r.chance(1, 3) { qs.push((0..r.below(4)).map(|_| null_pkt(r)).collect()); }
    let mut all = head;
    all.extend(interleave(r, qs));
    all
}

// ---------------------------------------------------------------- C02 / C10

fn gen_c02(tier: &str, r: &Rng, o: &mut Out<'_>) {
    let n = if tier == "thorough" { 60_000 } else { 1_500 };
    for i in 0..n {
        let pkts = wf_mux(r, 1 + r.below(3) as usize, 1 + r.below(4) as usize, 3, if i % 4 == 0 { 700 } else { 300 }, i % 2 == 0);
        let pushes = if r.chance(1, 2) { vec![concat(&pkts)] } else { rand_pushes(r, &pkts) };
        emit(o, true, "b0t0", &pushes);
    }
    // exhaustive small sizes: PES payload 0..=400 with exact fit / random fill
    let top = if tier == "thorough" { 400 } else { 200 };
    for size in 0..=top {
        if tier != "thorough" && size > 10 && size % 7 != 0 && !(170..200).contains(&size) { continue; }
        for &shape in [0usize, 1, 2].iter() {
            let mut m = Mux::new(r);
            let pat = pat_section(1, 0, &[(1, 0x100)]);
            let pmt = pmt_section(1, 0, 0x101, &[], &[(0x1b, 0x101, vec![])]);
            let mut pkts = m.section(0, &pat, &simple_plan(pat.len()));
            pkts.extend(m.section(0x100, &pmt, &simple_plan(pmt.len())));
            for _ in 0..2 {
                let spec = PesSpec { sid: 0xe0, pts: if shape > 0 { Some(r.next() & 0x1_ffff_ffff) } else { None }, dts: if shape > 1 { Some(r.next() & 0x1_ffff_ffff) } else { None },
                    flags_extra: 0, ext_bytes: 0, declared_len: None, payload: r.bytes(size) };
                pkts.extend(m.pes(0x101, &spec, true));
            }
            emit(o, true, "b0t0", &[concat(&pkts)]);
        }
    }
    // PES_packet_length at the top of its 16-bit range (the packet really is that long), and declared
    // lengths that disagree with the bytes present (0xfffa..=0xffff, 1, actual +- 1): the filter does not
    // look at the field, every byte up to the next unit start is delivered (seeded change C02-r11m2:
    // a bounded-length bookkeeping whose u16 addition overflows for the last six values)
    let nbig = if tier == "thorough" { 24 } else { 3 };
    for k in 0..nbig {
        let mut m = Mux::new(r);
        let pat = pat_section(1, 0, &[(1, 0x100)]);
        let pmt = pmt_section(1, 0, 0x101, &[], &[(0x1b, 0x101, vec![])]);
        let mut pkts = m.section(0, &pat, &simple_plan(pat.len()));
        pkts.extend(m.section(0x100, &pmt, &simple_plan(pmt.len())));
        let want = 65535 - (k % 6);                      // PES_packet_length
        let spec = PesSpec { sid: 0xe0, pts: Some(r.next() & 0x1_ffff_ffff), dts: None, flags_extra: 0, ext_bytes: 0,
            declared_len: Some(want as u16), payload: r.bytes(want - 3 - 5) };
        pkts.extend(m.pes(0x101, &spec, true));
        pkts.extend(m.pes(0x101, &rand_pes(r, 100), true));
        emit(o, true, "b0t0", &[concat(&pkts)]);
    }
    let nlen = if tier == "thorough" { 6_000 } else { 200 };
    for _ in 0..nlen {
        let mut m = Mux::new(r);
        let pat = pat_section(1, 0, &[(1, 0x100)]);
        let pmt = pmt_section(1, 0, 0x101, &[], &[(0x1b, 0x101, vec![])]);
        let mut pkts = m.section(0, &pat, &simple_plan(pat.len()));
        pkts.extend(m.section(0x100, &pmt, &simple_plan(pmt.len())));
        for _ in 0..(1 + r.below(3)) {
            let mut spec = rand_pes(r, 600);
            let actual = spec.payload.len();
            spec.declared_len = Some(match r.below(6) { 0 => 0xfffa + r.below(6) as u16, 1 => 1, 2 => (actual as u16).wrapping_add(1), 3 => (actual as u16).saturating_sub(1), 4 => r.below(65536) as u16, _ => r.below(40) as u16 });
            pkts.extend(m.pes(0x101, &spec, r.chance(1, 2)));
        }
        emit(o, false, "b0t0", &rand_pushes(r, &pkts));
    }
    mixed_scenarios(tier, r, o, "C02");
    o.meta("plans", "1-3 programs, 1-4 streams, PES payload 0..=700, every header shape, stuffing, AF-only packets, repeated tables; PES_packet_length 65530..=65535 with that many bytes; declared lengths disagreeing with the bytes present");
}

fn gen_c10(tier: &str, r: &Rng, o: &mut Out<'_>) {
    let n = if tier == "thorough" { 50_000 } else { 1_500 };
    for i in 0..n {
        // tables repeated many times while PES packets are in flight
        let mut m = Mux::new(r);
        let mut used = vec![0u16, 0x1fff];
        let progs = rand_progs(r, 1 + r.below(2) as usize, 3, &mut used);
        let pat = vary_section(r, &pat_section(7, r.byte() & 31, &pat_of(&progs, None)), i % 7 == 3);
        let big = i % 3 == 0;
        let progs: Vec<Prog> = progs.into_iter().map(|mut p| { if big { p.prog_desc = { let mut d = vec![]; for _ in 0..20 { d.extend(rand_desc(r)); } d }; } p }).collect();
        let pmts: Vec<Vec<u8>> = progs.iter().map(|p| vary_section(r, &pmt_of(p), i % 7 == 5)).collect();
        let mut head = table_reps(&mut m, 0, &pat, 1);
        for (p, s) in progs.iter().zip(pmts.iter()) { head.extend(table_reps(&mut m, p.pmt_pid, s, 1)); }
        let mut qs = vec![];
        for p in progs.iter() { for (st, pid, _) in p.streams.iter() { if PES_TYPES.contains(st) {
            let mut q = vec![]; for _ in 0..3 { q.extend(m.pes(*pid, &rand_pes(r, 500), false)); } qs.push(q);
        } } }
        let reps = 1 + r.below(if i % 10 == 0 { 50 } else { 6 });
        let style = i % 4;
        let mut straddle = false;
        let mut foreign = false;
        if style == 1 {
            // repetitions packed back to back (section tails in the pointer bytes of the next start)
            let min_j = if i % 8 == 1 { 8 } else { straddle = true; 1 };
            qs.push(m.packed(0, &vec![pat.clone(); reps as usize], min_j));
            for (p, s) in progs.iter().zip(pmts.iter()) { qs.push(m.packed(p.pmt_pid, &vec![s.clone(); reps as usize], min_j)); }
        } else if style == 2 {
            // foreign sections on the table PIDs between repetitions: other table ids with their own
            // version, and sections longer than the 1021 limit (never looked at by the table filters)
            for (pid, sec) in std::iter::once((0u16, &pat)).chain(progs.iter().map(|p| p.pmt_pid).zip(pmts.iter())) {
                let mut list = vec![];
                for _ in 0..reps {
                    list.push(sec.clone());
                    if r.chance(1, 2) {
                        let sl = [1022usize, 1023, 1024, 1030, 1100, 2047, 2048, 2049 + r.below(100) as usize, 4093][r.below(9) as usize];
                        let mut f = vec![0x80 + r.below(8) as u8, 0xb0 | (sl >> 8) as u8, sl as u8, r.byte(), r.byte(), 0xc1 | ((r.byte() & 31) << 1), 0, 0];
                        f.extend(r.bytes(sl - 5));
                        list.push(f);
                    }
                    if r.chance(1, 3) {
                        // an in-limit private section (other table id, own version, section syntax),
                        // CRC valid or not: the de-duplication layer sees its version (DESIGN 8.1b)
                        let bl = r.below(40) as usize;
                        let l = 5 + bl + 4;
                        let mut f = vec![0x80 + r.below(0x40) as u8, 0xb0 | (l >> 8) as u8, l as u8, r.byte(), r.byte(), 0xc1 | ((r.byte() & 31) << 1), 0, 0];
                        f.extend(r.bytes(bl));
                        let mut f = with_crc(f);
                        if r.chance(1, 3) { let k = f.len() - 1; f[k] ^= 0x40; }
                        list.push(f);
                        foreign = true;
                    }
                }
                qs.push(m.packed(pid, &list, 8));
            }
        } else if style == 3 {
            // multi-section tables: two sections with the SAME version and different section_number
            for (pid, sec) in std::iter::once((0u16, &pat)).chain(progs.iter().map(|p| p.pmt_pid).zip(pmts.iter())) {
                let mut b = sec[..sec.len() - 4].to_vec();
                b[6] = 1; b[7] = 1;
                let sec_b = with_crc(b);
                let mut a = sec[..sec.len() - 4].to_vec();
                a[6] = 0; a[7] = 1;
                let sec_a = with_crc(a);
                let mut q = vec![];
                for k in 0..(2 * reps as usize) { let s2 = if k % 2 == 0 { &sec_a } else { &sec_b }; q.extend(m.section(pid, s2, &plan_for(r, s2))); }
                qs.push(q);
            }
        } else {
            qs.push(table_reps(&mut m, 0, &pat, reps as usize));
            for (p, s) in progs.iter().zip(pmts.iter()) { qs.push(table_reps(&mut m, p.pmt_pid, s, reps as usize)); }
        }
        let mut all = head; all.extend(interleave(r, qs));
        // version sequence v -> w -> v on one PMT at the end
        if i % 5 == 0 {
            let mut p2 = progs[0].clone(); p2.version = (p2.version + 1) & 31;
            let s2 = pmt_of(&p2); all.extend(m.section(p2.pmt_pid, &s2, &plan_for(r, &s2)));
            all.extend(m.section(p2.pmt_pid, &s2, &plan_for(r, &s2)));
            let s1 = pmt_of(&progs[0]); all.extend(m.section(p2.pmt_pid, &s1, &plan_for(r, &s1)));
        }
        // outside the hypotheses of the C10 theorems (header-straddling starts, foreign tables,
        // multi-section tables): correspondence cases, not decisive ones
        emit(o, !(straddle || foreign || style == 3), "b0t0", &rand_pushes(r, &all));
    }
    mixed_scenarios(tier, r, o, "C10");
    o.meta("plans", "tables repeated 1..50x (single- and multi-packet) interleaved with PES packets; v->w->v");
}

// ---------------------------------------------------------------- C06 / C07 / C18: dispatcher

fn rand_flag_packet(r: &Rng, pid: u16, cc: u8) -> Vec<u8> {
    let mut p = mk_pkt(r, pid, r.chance(1, 3), cc, &r.bytes(1 + r.below(184) as usize), false);
    match r.below(8) { 0 => p[1] |= 0x80, 1 => p[3] |= 0x40, 2 => p[3] |= 0x80, 3 => p[3] |= 0xc0, _ => {} }
    // every adaptation_field_control value under every flag combination: a flagged packet with no
    // payload (AF only, or the reserved value 00) is dropped like any other flagged packet
    match r.below(10) {
        0 => { p[3] = (p[3] & 0xcf) | 0x20; p[4] = 183; p[5] = if r.chance(1, 2) { 0 } else { 0x10 }; }
        1 => { p[3] &= 0xcf; }
        2 => { p[3] = (p[3] & 0xcf) | 0x20; p[4] = r.byte(); }
        _ => {}
    }
    p
}

fn dispatcher_stream(r: &Rng, npk: usize, bad_sync: bool) -> Vec<Vec<u8>> {
    let pool: Vec<u16> = { let mut v = distinct_pids(r, 2 + r.below(5) as usize, &[]); if r.chance(1, 3) { v.push(0x1fff); } if r.chance(1, 4) { v.push(0); } if r.chance(1, 4) { v.push(1); } v };
    let mut pkts = vec![];
    let mut cc = std::collections::HashMap::new();
    while pkts.len() < npk {
        let pid = pool[r.below(pool.len() as u64) as usize];
        for _ in 0..(1 + r.below(if r.chance(1, 5) { 30 } else { 4 })) {
            let c = cc.entry(pid).or_insert(0u8);
            let mut p = rand_flag_packet(r, pid, *c);
            *c = (*c + 1) & 15;
            if bad_sync && r.chance(1, 15) { p[0] = r.byte(); }
            pkts.push(p);
        }
    }
    pkts.truncate(npk);
    pkts
}

fn rand_script(r: &Rng, npk: usize, pids: &[u16]) -> String {
    let mut s = String::new();
    let n = 1 + r.below(6);
    let mut ks: Vec<usize> = (0..n).map(|_| r.below(npk as u64) as usize).collect();
    ks.sort(); ks.dedup();
    for k in ks {
        let ops: Vec<String> = (0..(1 + r.below(4))).map(|_| {
            let pid = match r.below(8) {
                0 => r.below(0x2000) as u16,
                1 => (pids[r.below(pids.len() as u64) as usize] + 1).min(0x1fff),
                2 => pids[r.below(pids.len() as u64) as usize].saturating_sub(1),
                3 => (*pids.iter().max().unwrap() + 1).min(0x1fff),   // = table length: first unallocated slot
                _ => pids[r.below(pids.len() as u64) as usize],
            };
            if r.chance(1, 2) { format!("i{}", pid) } else { format!("r{}", pid) }
        }).collect();
        s.push_str(&format!(";{}:{}", k, ops.join(",")));
    }
    s
}

/// construct script: changes queued from inside `construct(ByPid(pid))` for some of the stream's PIDs
fn rand_cscript(r: &Rng, pids: &[u16]) -> String {
    let mut s = String::new();
    let mut ps: Vec<u16> = (0..(1 + r.below(3))).map(|_| pids[r.below(pids.len() as u64) as usize]).collect();
    ps.sort(); ps.dedup();
    for p in ps {
        let ops: Vec<String> = (0..(1 + r.below(3))).map(|_| {
            let pid = match r.below(6) {
                0 => r.below(0x2000) as u16,
                1 => (pids[r.below(pids.len() as u64) as usize] + 1).min(0x1fff),
                2 => p,
                _ => pids[r.below(pids.len() as u64) as usize],
            };
            if r.chance(1, 2) { format!("i{}", pid) } else { format!("r{}", pid) }
        }).collect();
        s.push_str(&format!(";c{}:{}", p, ops.join(",")));
    }
    s
}

/// streams where the first packet of a PID (the one that makes the dispatcher call `construct`) is
/// often dropped (TEI / scrambled), so that what `construct` queued stays pending across dropped
/// packets, PID changes and the end of a push
fn cscript_stream(r: &Rng, npk: usize) -> Vec<Vec<u8>> {
    let pool: Vec<u16> = distinct_pids(r, 2 + r.below(4) as usize, &[0]);
    let mut seen: Vec<u16> = vec![];
    let mut pkts = vec![];
    let mut cc = std::collections::HashMap::new();
    while pkts.len() < npk {
        let pid = pool[r.below(pool.len() as u64) as usize];
        for _ in 0..(1 + r.below(3)) {
            let c = cc.entry(pid).or_insert(0u8);
            let mut p = mk_pkt(r, pid, false, *c, &r.bytes(184), false);
            *c = (*c + 1) & 15;
            let first = !seen.contains(&pid);
            if first { seen.push(pid); }
            if (first && r.chance(2, 3)) || r.chance(1, 6) {
                if r.chance(1, 2) { p[1] |= 0x80 } else { p[3] |= 0x80 }
            }
            pkts.push(p);
        }
    }
    pkts.truncate(npk);
    pkts
}

/// `cutsq` / `demuxq` cases: an application whose `construct` queues changes
fn gen_construct_queues(tier: &str, r: &Rng, o: &mut Out<'_>) {
    let thorough = tier == "thorough";
    let nstreams = if thorough { 400 } else { 60 };
    for i in 0..nstreams {
        let n = 2 + (i % 8);
        let pkts = cscript_stream(r, n);
        let pids = pids_of(&pkts);
        let cfg = format!("b0t0{}{}", if i % 3 == 0 { rand_script(r, n, &pids) } else { String::new() }, rand_cscript(r, &pids));
        let masks: Vec<String> = (0..(1u32 << (n - 1))).map(|m| format!("{:x}", m)).collect();
        o.d(&format!("cutsq {} {} {}", cfg, hex(&concat(&pkts)), masks.join(",")));
    }
    let nl = if thorough { 20_000 } else { 400 };
    for i in 0..nl {
        let n = 3 + r.below(30) as usize;
        let pkts = if i % 4 == 0 { dispatcher_stream(r, n, true) } else { cscript_stream(r, n) };
        let pids = pids_of(&pkts);
        let cfg = format!("b0t0{}{}", if i % 2 == 0 { rand_script(r, n, &pids) } else { String::new() }, rand_cscript(r, &pids));
        let pushes = if r.chance(1, 3) { vec![concat(&pkts)] } else { rand_pushes(r, &pkts) };
        let line = format!("demuxq {} {}", cfg, pushes.iter().map(|p| hex(p)).collect::<Vec<_>>().join(" "));
        o.d(&line);
    }
    // targeted: PID 0x200's handler is requested by a dropped packet; its construct queues the removal of 0x201's handler
    // / an insert for 0x202; the next consumed packet is on 0x201 / 0x202; every chunking
    let a = 0x200u16; let b = 0x201u16; let c = 0x202u16;
    for (cfg, pids, drop) in [
        ("b0t0;c512:r513", vec![b, a, b, b], vec![1usize]),
        ("b0t0;c512:i514", vec![a, c, c], vec![0]),
        ("b0t0;c512:i514", vec![a, a, c, c], vec![0, 1]),
        ("b0t0;c512:r512", vec![a, a, a], vec![0]),
        ("b0t0;c512:i512", vec![a, a, a], vec![0]),
        ("b0t0;c512:i513,r513", vec![a, b, b], vec![0]),
        ("b0t0;c512:i514;1:r514", vec![a, b, c, c], vec![0]),
        ("b0t0;c0:i513", vec![b, b], vec![]),
        ("b0t0;c512:r513", vec![b, a], vec![1]),
    ] {
        let pk: Vec<Vec<u8>> = pids.iter().enumerate().map(|(i, &p)| {
            let mut x = mk_pkt(r, p, false, i as u8 & 15, &r.bytes(184), false);
            if drop.contains(&i) { x[1] |= 0x80; }
            x
        }).collect();
        let n = pk.len();
        let masks: Vec<String> = (0..(1u32 << (n - 1))).map(|m| format!("{:x}", m)).collect();
        o.d(&format!("cutsq {} {} {}", cfg, hex(&concat(&pk)), masks.join(",")));
        o.d(&format!("demuxq {} {}", cfg, hex(&concat(&pk))));
        o.d(&format!("demuxq {} {}", cfg, pk.iter().map(|p| hex(p)).collect::<Vec<_>>().join(" ")));
    }
    o.meta("construct_queues", "applications whose construct() queues changes: pending across dropped packets / PID changes / push boundaries (cutsq: all chunkings; demuxq: traces)");
}

fn pids_of(pkts: &[Vec<u8>]) -> Vec<u16> {
    let mut v: Vec<u16> = pkts.iter().map(|p| (((p[1] & 0x1f) as u16) << 8) | p[2] as u16).collect();
    v.sort(); v.dedup(); v
}

/// `k` previously unseen PIDs in a row (each one packet), then a second pass over the same PIDs: a
/// dispatcher that bounds, batches or forgets handler requests per buffer shows up here
/// (seeded change C07-r13m3: at most 64 new PIDs per `push`)
fn many_pid_stream(r: &Rng, k: usize) -> Vec<Vec<u8>> {
    let base = 0x20 + r.below(0x1000) as usize;
    let pids: Vec<u16> = (0..k).map(|i| (base + (i * 7) % k) as u16).collect();
    let mut pkts: Vec<Vec<u8>> = pids.iter().map(|&p| mk_pkt(r, p, false, 0, &r.bytes(184), false)).collect();
    for &p in pids.iter().take(k.min(80)) { pkts.push(mk_pkt(r, p, false, 1, &r.bytes(184), false)); }
    pkts
}

fn gen_c06(tier: &str, r: &Rng, o: &mut Out<'_>) {
    let n = if tier == "thorough" { 80_000 } else { 3_000 };
    for i in 0..n {
        let npk = 2 + r.below(40) as usize;
        let pkts = dispatcher_stream(r, npk, i % 3 == 0);
        let cfg = if i % 2 == 0 { "b0t0".to_string() } else { format!("b0t0{}", rand_script(r, npk, &pids_of(&pkts))) };
        let pushes = if r.chance(1, 2) { vec![concat(&pkts)] } else { rand_pushes(r, &pkts) };
        emit(o, true, &cfg, &pushes);
    }
    // every TEI x scrambling combination on announced and unannounced PIDs
    for tei in 0..2u8 { for sc in 0..4u8 { for first in 0..2 {
        let mut pkts = vec![];
        if first == 1 { pkts.push(mk_pkt(r, 0x200, false, 0, &r.bytes(184), false)); }
        let mut p = mk_pkt(r, 0x200, false, 1, &r.bytes(184), false);
        p[1] |= tei << 7; p[3] |= sc << 6;
        pkts.push(p);
        pkts.push(mk_pkt(r, 0x200, false, 2, &r.bytes(184), false));
        pkts.push(mk_pkt(r, 0x201, false, 0, &r.bytes(184), false));
        emit(o, true, "b0t0", &[concat(&pkts)]);
    } } }
    // many unannounced PIDs in one buffer (and the same stream cut up)
    for &k in if tier == "thorough" { &[33usize, 64, 65, 66, 130, 257, 300, 1000][..] } else { &[65usize, 130, 300][..] } {
        let pkts = many_pid_stream(r, k);
        emit(o, true, "b0t0", &[concat(&pkts)]);
        emit(o, true, "b0t0", &rand_pushes(r, &pkts));
    }
    mixed_scenarios(tier, r, o, "C06");
    o.meta("plans", "random PID mixes (run lengths 1..30, PIDs incl. 0, 1, 0x1fff), TEI x scrambling exhaustive, bad sync bytes, scripted changes inside runs");
}

fn gen_c18(tier: &str, r: &Rng, o: &mut Out<'_>) {
    let n = if tier == "thorough" { 80_000 } else { 3_000 };
    for _ in 0..n {
        let npk = 2 + r.below(30) as usize;
        let pkts = dispatcher_stream(r, npk, false);
        let cfg = format!("b0t0{}", rand_script(r, npk, &pids_of(&pkts)));
        let pushes = if r.chance(1, 2) { vec![concat(&pkts)] } else { rand_pushes(r, &pkts) };
        emit(o, true, &cfg, &pushes);
    }
    // targeted: self-replace, self-remove, remove unregistered, last insert wins, change on last packet of a push
    let a = 0x300u16; let b = 0x301u16;
    let mk = |pids: &[u16]| -> Vec<Vec<u8>> { pids.iter().enumerate().map(|(i, &p)| mk_pkt(r, p, false, i as u8 & 15, &r.bytes(184), false)).collect() };
    let cases: Vec<(&str, Vec<u16>)> = vec![
        ("b0t0;0:i768", vec![a, a, a]), ("b0t0;0:r768", vec![a, a, a]), ("b0t0;1:r999", vec![a, a, b]),
        ("b0t0;0:i769,i769,r769,i769", vec![a, b, b]), ("b0t0;0:i769,r769", vec![a, b, b]), ("b0t0;1:r768,i768", vec![a, a, a, a]),
        ("b0t0;2:i769", vec![a, a, a]), ("b0t0;0:r769;1:i769", vec![b, a, b, b]), ("b0t0;0:r0", vec![a, 0, 0]),
        ("b0t0;0:r769", vec![a, a]), ("b0t0;0:r770", vec![a, a]), ("b0t0;0:r767", vec![a, a]), ("b0t0;0:r8191", vec![a, a]),
        ("b0t0;0:r6", vec![5, 5]), ("b0t0;0:r1", vec![5, 5]), ("b0t0;0:r8191,i8191,r8190", vec![0x1fff, 0x1fff, 0x1ffe]),
        ("b0t0;0:i8191;1:r8191", vec![a, a, 0x1fff]),
    ];
    for (cfg, pids) in cases {
        let pk = mk(&pids);
        emit(o, true, cfg, &[concat(&pk)]);
        let pushes: Vec<Vec<u8>> = pk.clone();
        emit(o, true, cfg, &pushes);
    }
    // many unannounced PIDs in one buffer, with a change queued in the middle
    for &k in if tier == "thorough" { &[65usize, 130, 300][..] } else { &[65usize, 130][..] } {
        let pkts = many_pid_stream(r, k);
        let cfg = format!("b0t0;{}:r{},i{}", k / 2, 0x20, 0x21);
        emit(o, true, &cfg, &[concat(&pkts)]);
    }
    mixed_scenarios(tier, r, o, "C18");
    o.meta("plans", "random scripts (any PIDs, repetitions, self-targeting, inside runs, last packet of a push) + 9 targeted scripts");
}

fn gen_c07(tier: &str, r: &Rng, o: &mut Out<'_>) {
    let thorough = tier == "thorough";
    // exhaustive chunkings of short streams
    let nstreams = if thorough { 150 } else { 40 };
    let maxn = if thorough { 11 } else { 9 };
    for i in 0..nstreams {
        let n = 2 + (i % (maxn - 1));
        let pkts: Vec<Vec<u8>> = match i % 3 {
            0 => { let mut p = wf_mux(r, 1, 2, 1, 200, true); p.truncate(n); p }
            1 => dispatcher_stream(r, n, true),
            _ => {
                // a table completing on the last packet of a chunk, then ES packets
                let mut m = Mux::new(r);
                let pat = pat_section(1, 0, &[(1, 0x100)]);
                let pmt = pmt_section(1, 0, 0x101, &[], &[(0x1b, 0x101, vec![]), (0x0f, 0x102, vec![])]);
                let mut p = m.section(0, &pat, &simple_plan(pat.len()));
                p.extend(m.section(0x100, &pmt, &simple_plan(pmt.len())));
                p.extend(m.pes(0x101, &rand_pes(r, 300), false));
                p.extend(m.pes(0x102, &rand_pes(r, 300), false));
                p.truncate(n.max(4));
                p
            }
        };
        let n = pkts.len();
        let cfg = if i % 4 == 1 { format!("b0t0{}", rand_script(r, n, &pids_of(&pkts))) } else { "b0t0".to_string() };
        let masks: Vec<String> = (0..(1u32 << (n - 1))).map(|m| format!("{:x}", m)).collect();
        o.d(&format!("cuts {} {} {}", cfg, hex(&concat(&pkts)), masks.join(",")));
    }
    // random chunkings of long hostile streams
    let nl = if thorough { 20_000 } else { 600 };
    for i in 0..nl {
        let pkts = if i % 2 == 0 { wf_mux(r, 2, 3, 2, 400, true) } else { dispatcher_stream(r, 10 + r.below(50) as usize, true) };
        let n = pkts.len();
        let cfg = if i % 5 == 1 { format!("b0t0{}", rand_script(r, n, &pids_of(&pkts))) } else { "b0t0".to_string() };
        let masks: Vec<String> = (0..6).map(|_| { let mut s = String::new(); for _ in 0..((n + 3) / 4) { s.push_str(&format!("{:x}", r.below(16))); } s }).collect();
        o.d(&format!("cuts {} {} {}", cfg, hex(&concat(&pkts)), masks.join(",")));
    }
    // many unannounced PIDs: one push, one packet per push, a few random cuttings
    for &k in if thorough { &[33usize, 64, 65, 66, 130, 257, 300, 1000][..] } else { &[65usize, 66, 130, 300][..] } {
        let pkts = many_pid_stream(r, k);
        let n = pkts.len();
        let digits = (n + 3) / 4;
        let mut masks: Vec<String> = vec!["0".repeat(digits), "f".repeat(digits)];
        for _ in 0..3 { let mut s = String::new(); for _ in 0..digits { s.push_str(&format!("{:x}", if r.chance(1, 8) { r.below(16) } else { 0 })); } masks.push(s); }
        o.d(&format!("cuts b0t0 {} {}", hex(&concat(&pkts)), masks.join(",")));
    }
    gen_construct_queues(tier, r, o);
    o.meta("exhaustive", &format!("all 2^(n-1) chunkings of {} streams with n <= {}", nstreams, maxn));
}

// ---------------------------------------------------------------- C05: routing follows the tables

fn probes(m: &mut Mux<'_>, pids: &[u16]) -> Vec<Vec<u8>> {
    let r = m.r;
    pids.iter().map(|&p| m.raw(p, false, &r.bytes(1 + r.below(184) as usize))).collect()
}

/// the stream entries of a PMT section built by `pmt_section`
fn streams_of_section(sec: &[u8]) -> Vec<(u8, u16, Vec<u8>)> {
    let body = &sec[8..sec.len() - 4];
    let pil = (((body[2] & 0x0f) as usize) << 8) | body[3] as usize;
    let mut off = 4 + pil;
    let mut v = vec![];
    while off + 5 <= body.len() {
        let esil = (((body[off + 3] & 0x0f) as usize) << 8) | body[off + 4] as usize;
        if off + 5 + esil > body.len() { break; }
        v.push((body[off], (((body[off + 1] & 0x1f) as u16) << 8) | body[off + 2] as u16, body[off + 5..off + 5 + esil].to_vec()));
        off += 5 + esil;
    }
    v
}

/// one random history of PAT / PMT versions with probe packets after every table
fn c05_history(r: &Rng, i: usize) -> Vec<Vec<u8>> {

    let mut m = Mux::new(r);
    let mut used = vec![0u16, 0x1fff];
    let mut progs = rand_progs(r, 1 + r.below(4) as usize, 4, &mut used);
    let mut nit = if r.chance(1, 3) { let n = distinct_pids(r, 1, &used)[0]; used.push(n); Some(n) } else { None };
    let mut patv = r.byte() & 31;
    let mut all: Vec<Vec<u8>> = vec![];
    let mut ever: Vec<u16> = vec![];
    let emit_pat = |m: &mut Mux<'_>, all: &mut Vec<Vec<u8>>, progs: &[Prog], nit: Option<u16>, v: u8| {
        let s = pat_section(9, v, &pat_of(progs, nit)); all.extend(m.section(0, &s, &plan_for(r, &s)));
    };
    emit_pat(&mut m, &mut all, &progs, nit, patv);
    for p in progs.iter() { let s = pmt_of(p); all.extend(m.section(p.pmt_pid, &s, &plan_for(r, &s))); for st in p.streams.iter() { ever.push(st.1); } }
    all.extend(probes(&mut m, &ever));
    for _step in 0..(1 + r.below(5)) {
        match r.below(if i % 4 == 0 { 3 } else { 6 }) {
            0 | 1 | 2 => {
                // new PMT version for one program: add / remove / re-type streams
                let k = r.below(progs.len() as u64) as usize;
                let p = &mut progs[k];
                p.version = (p.version + 1 + r.below(3) as u8) & 31;
                match r.below(6) {
                    4 | 5 => {
                        // a PID REPLACED by another one (same or larger number of streams): the old PID
                        // must go although the table did not shrink
                        let j = r.below(p.streams.len() as u64) as usize; p.streams.remove(j);
                        for _ in 0..(1 + r.below(2)) { let np = distinct_pids(r, 1, &used)[0]; used.push(np); p.streams.push((PES_TYPES[r.below(6) as usize], np, vec![])); ever.push(np); }
                    }
                    0 => { let np = distinct_pids(r, 1, &used)[0]; used.push(np); p.streams.push((PES_TYPES[r.below(6) as usize], np, vec![])); ever.push(np); }
                    1 => { if p.streams.len() > 1 { let j = r.below(p.streams.len() as u64) as usize; p.streams.remove(j); } }
                    2 => { let j = r.below(p.streams.len() as u64) as usize; p.streams[j].0 = if r.chance(1, 2) { 0x05 } else { PES_TYPES[r.below(6) as usize] }; }
                    _ => { let j = r.below(p.streams.len() as u64) as usize; let st = p.streams.remove(j); p.streams.push(st); }
                }
                let s = pmt_of(p); let pid = p.pmt_pid;
                if r.chance(1, 3) {
                    // two versions back to back: the tail of the first travels in the pointer
                    // bytes of the packet that starts (and may complete) the second
                    p.version = (p.version + 1) & 31;
                    if p.streams.len() > 1 && r.chance(1, 2) { p.streams.remove(0); }
                    else { let j = r.below(p.streams.len() as u64) as usize; p.streams[j].0 = PES_TYPES[r.below(6) as usize]; }
                    let mut s1 = s.clone();
                    if s1.len() < 200 && r.chance(1, 2) {
                        // make the first one span packets so that its tail really is carried over
                        let mut big = p.clone(); big.version = (p.version + 31) & 31; big.streams = streams_of_section(&s1);
                        for _ in 0..14 { big.prog_desc.extend(rand_desc(r)); }
                        s1 = pmt_of(&big);
                    }
                    let s2 = pmt_of(p);
                    all.extend(m.packed(pid, &[s1, s2], 8));
                } else {
                    all.extend(m.section(pid, &s, &plan_for(r, &s)));
                }
            }
            3 => {
                // new PAT version: add a program
                let mut np = rand_progs(r, 1, 3, &mut used);
                np[0].num = 100 + progs.len() as u16;
                for st in np[0].streams.iter() { ever.push(st.1); }
                patv = (patv + 1) & 31;
                progs.extend(np.clone());
                emit_pat(&mut m, &mut all, &progs, nit, patv);
                for p in progs.iter() { let s = pmt_of(p); all.extend(m.section(p.pmt_pid, &s, &plan_for(r, &s))); }
            }
            4 => {
                // new PAT version: drop a program / toggle the network entry
                patv = (patv + 1) & 31;
                if progs.len() > 1 && r.chance(2, 3) { let k = r.below(progs.len() as u64) as usize; progs.remove(k); }
                else if nit.is_some() { nit = None } else { let n = distinct_pids(r, 1, &used)[0]; used.push(n); nit = Some(n); }
                emit_pat(&mut m, &mut all, &progs, nit, patv);
                for p in progs.iter() { let s = pmt_of(p); all.extend(m.section(p.pmt_pid, &s, &plan_for(r, &s))); }
            }
            _ => {
                // PMT PID move for one program (PAT version bump)
                patv = (patv + 1) & 31;
                let k = r.below(progs.len() as u64) as usize;
                let np = distinct_pids(r, 1, &used)[0]; used.push(np);
                progs[k].pmt_pid = np;
                emit_pat(&mut m, &mut all, &progs, nit, patv);
                for p in progs.iter() { let s = pmt_of(p); all.extend(m.section(p.pmt_pid, &s, &plan_for(r, &s))); }
            }
        }
        let mut pp = ever.clone(); pp.sort(); pp.dedup();
        all.extend(probes(&mut m, &pp));
        if let Some(nn) = nit { all.extend(probes(&mut m, &[nn])); }
    }
    all
}

fn gen_c05(tier: &str, r: &Rng, o: &mut Out<'_>) {
    let n = if tier == "thorough" { 60_000 } else { 2_000 };
    for i in 0..n {
        let all = c05_history(r, i);
        emit(o, true, "b0t0", &rand_pushes(r, &all));
    }
    // legal shapes OUTSIDE the routing specification's vocabulary (DESIGN 8.1b): two programs on one
    // PMT PID, next-tables (current_next_indicator = 0), two-section PATs, duplicated packets.
    // Correspondence cases only: the model mirrors the code on them.
    let nb = if tier == "thorough" { 6_000 } else { 240 };
    for i in 0..nb {
        let mut m = Mux::new(r);
        let mut used = vec![0u16, 0x1fff];
        let mut progs = rand_progs(r, 2, 3, &mut used);
        let mut all = vec![];
        let recrc = |s: &Vec<u8>, f: &dyn Fn(&mut Vec<u8>)| { let mut b = s[..s.len() - 4].to_vec(); f(&mut b); with_crc(b) };
        match i % 4 {
            0 => {
                let shared = progs[0].pmt_pid;
                progs[1].pmt_pid = shared;
                if r.chance(1, 2) { progs[1].version = progs[0].version; }
                let pat = pat_section(7, r.byte() & 31, &pat_of(&progs, None));
                all.extend(m.section(0, &pat, &plan_for(r, &pat)));
                for _ in 0..(1 + r.below(3)) { for p in progs.iter() { let s = pmt_of(p); all.extend(m.section(shared, &s, &plan_for(r, &s))); } }
            }
            1 => {
                let pat = pat_section(7, r.byte() & 31, &pat_of(&progs, None));
                all.extend(m.section(0, &pat, &plan_for(r, &pat)));
                for p in progs.iter() { let s = pmt_of(p); all.extend(m.section(p.pmt_pid, &s, &plan_for(r, &s))); }
                // a "next" version of the first program's PMT and of the PAT
                let mut p2 = progs[0].clone(); p2.version = (p2.version + 1) & 31; p2.streams.pop();
                let s2 = recrc(&pmt_of(&p2), &|b| b[5] &= 0xfe);
                all.extend(m.section(p2.pmt_pid, &s2, &plan_for(r, &s2)));
                let pat2 = recrc(&pat_section(7, r.byte() & 31, &pat_of(&progs[..1], None)), &|b| b[5] &= 0xfe);
                all.extend(m.section(0, &pat2, &plan_for(r, &pat2)));
            }
            2 => {
                let ver = r.byte() & 31;
                let a = recrc(&pat_section(7, ver, &pat_of(&progs[..1], None)), &|b| { b[6] = 0; b[7] = 1; });
                let b2 = recrc(&pat_section(7, ver, &pat_of(&progs[1..], None)), &|b| { b[6] = 1; b[7] = 1; });
                for _ in 0..(1 + r.below(2)) { all.extend(m.section(0, &a, &plan_for(r, &a))); all.extend(m.section(0, &b2, &plan_for(r, &b2))); }
                for p in progs.iter() { let s = pmt_of(p); all.extend(m.section(p.pmt_pid, &s, &plan_for(r, &s))); }
            }
            _ => {
                let pat = pat_section(7, r.byte() & 31, &pat_of(&progs, None));
                all.extend(m.section(0, &pat, &plan_for(r, &pat)));
                for p in progs.iter_mut() { for _ in 0..12 { p.prog_desc.extend(rand_desc(r)); } }
                for p in progs.iter() { let s = pmt_of(p); let pk = m.section(p.pmt_pid, &s, &plan_for(r, &s));
                    for (k, q) in pk.iter().enumerate() { all.push(q.clone()); if r.chance(1, 3) || k == 0 && r.chance(1, 2) { all.push(q.clone()); } } }
            }
        }
        let pp: Vec<u16> = progs.iter().flat_map(|p| p.streams.iter().map(|s| s.1).chain(std::iter::once(p.pmt_pid))).collect();
        all.extend(probes(&mut m, &pp));
        emit(o, false, "b0t0", &rand_pushes(r, &all));
    }
    mixed_scenarios(tier, r, o, "C05");
    o.meta("plans", "histories of PAT/PMT versions: streams added/removed/re-typed/reordered, programs added/dropped, NIT toggled, PMT PID moves; probe packets after every table");
}

// ---------------------------------------------------------------- C04 gate / C11: damaged tables

fn base_tables(r: &Rng) -> (Vec<Prog>, Vec<u8>) {
    let mut used = vec![0u16, 0x1fff];
    let progs = rand_progs(r, 1 + r.below(2) as usize, 3, &mut used);
    let pat = pat_section(3, r.byte() & 31, &pat_of(&progs, None));
    (progs, pat)
}

fn gen_c04_gate(tier: &str, r: &Rng, o: &mut Out<'_>) {
    let nt = if tier == "thorough" { 300 } else { 12 };
    for t in 0..nt {
        let (progs, pat) = base_tables(r);
        let big = t % 3 == 0;
        // every single bit of the PAT flipped: nothing may be requested
        let target_pat = t % 2 == 0;
        let sec = if target_pat { pat.clone() } else {
            let mut p = progs[0].clone(); if big { for _ in 0..12 { p.prog_desc.extend(rand_desc(r)); } } pmt_of(&p)
        };
        let nbits = sec.len() * 8;
        let stride = if tier == "thorough" || nbits < 400 { 1 } else { 5 };
        for bit in (0..nbits).step_by(stride) {
            let mut bad = sec.clone();
            bad[bit / 8] ^= 0x80 >> (bit % 8);
            let mut m = Mux::new(r);
            let mut all = vec![];
            if target_pat { all.extend(m.section(0, &bad, &plan_for(r, &bad))); }
            else { all.extend(m.section(0, &pat, &simple_plan(pat.len()))); all.extend(m.section(progs[0].pmt_pid, &bad, &plan_for(r, &bad))); }
            let pp: Vec<u16> = progs.iter().flat_map(|p| p.streams.iter().map(|s| s.1).chain(std::iter::once(p.pmt_pid))).collect();
            all.extend(probes(&mut m, &pp));
            emit(o, true, "b0t0", &[concat(&all)]);
        }
        // bit pairs, bursts <= 32 bits, random byte damage
        for _ in 0..40 {
            let mut bad = sec.clone();
            match r.below(3) {
                0 => { for _ in 0..2 { let b = r.below(nbits as u64) as usize; bad[b / 8] ^= 0x80 >> (b % 8); } }
                1 => { let st = r.below(nbits as u64) as usize; let len = 1 + r.below(32) as usize; for b in st..(st + len).min(nbits) { if b == st || b == (st + len).min(nbits) - 1 || r.chance(1, 2) { bad[b / 8] ^= 0x80 >> (b % 8); } } }
                _ => { for _ in 0..(1 + r.below(4)) { let i = r.below(bad.len() as u64) as usize; bad[i] = r.byte(); } }
            }
            if bad == sec { continue; }
            let mut m = Mux::new(r);
            let mut all = vec![];
            if target_pat { all.extend(m.section(0, &bad, &plan_for(r, &bad))); }
            else { all.extend(m.section(0, &pat, &simple_plan(pat.len()))); all.extend(m.section(progs[0].pmt_pid, &bad, &plan_for(r, &bad))); }
            emit(o, true, "b0t0", &[concat(&all)]);
        }
    }
}

/// structured damage of the CRC_32 field itself (wiped to 00 00 00 00 / ff ff ff ff, bytes swapped,
/// last byte only) and tables of the maximum size (1020..=1024 bytes: the checksum covers every one of
/// them, intact ones are applied, a damaged tail is not) — seeded changes C04-r12m1 (an all-zero CRC
/// field taken for "no checksum") and C04-r12m3 (checksum over the first 1021 bytes only)
fn gen_c04_field_and_maxsize(tier: &str, r: &Rng, o: &mut Out<'_>) {
    let nt = if tier == "thorough" { 200 } else { 12 };
    for t in 0..nt {
        let (progs, pat) = base_tables(r);
        let target_pat = t % 2 == 0;
        let sec = if target_pat { pat.clone() } else { pmt_of(&progs[0]) };
        let n = sec.len();
        for kind in 0..6 {
            let mut bad = sec.clone();
            match kind {
                0 => { for b in bad[n - 4..].iter_mut() { *b = 0; } }
                1 => { for b in bad[n - 4..].iter_mut() { *b = 0xff; } }
                2 => { bad.swap(n - 4, n - 1); bad.swap(n - 3, n - 2); }
                3 => { bad[n - 1] ^= 1 << r.below(8); }
                4 => { bad[n - 1] = r.byte(); }
                _ => { bad[n - 4] = 0; bad[n - 3] = 0; }
            }
            if bad == sec { continue; }
            for &after_valid in [false, true].iter() {
                let mut m = Mux::new(r);
                let mut all = vec![];
                if !target_pat || after_valid { all.extend(m.section(0, &pat, &simple_plan(pat.len()))); }
                if after_valid && !target_pat { all.extend(m.section(progs[0].pmt_pid, &sec, &plan_for(r, &sec))); }
                if after_valid {
                    // the damaged copy claims another version, so the de-duplication layer lets it through
                    bad[5] = (bad[5] & 0xc1) | ((((bad[5] >> 1) & 31).wrapping_add(1 + r.below(30) as u8) & 31) << 1);
                }
                let pid = if target_pat { 0 } else { progs[0].pmt_pid };
                all.extend(m.section(pid, &bad, &plan_for(r, &bad)));
                let pp: Vec<u16> = progs.iter().flat_map(|p| p.streams.iter().map(|s| s.1).chain(std::iter::once(p.pmt_pid))).collect();
                all.extend(probes(&mut m, &pp));
                emit(o, true, "b0t0", &[concat(&all)]);
            }
        }
    }
    // maximum-size PATs: 252 / 253 programs (1020 / 1024 bytes) and a PMT padded to 1021..=1024 bytes
    let nm = if tier == "thorough" { 40 } else { 4 };
    for t in 0..nm {
        let nprog = if t % 2 == 0 { 253 } else { 252 };
        let entries: Vec<(u16, u16)> = (0..nprog).map(|k| (1 + k as u16, 0x20 + k as u16)).collect();
        let pat = pat_section(r.below(65536) as u16, r.byte() & 31, &entries);
        for dmg in 0..4 {
            let mut sec = pat.clone();
            let n = sec.len();
            match dmg { 0 => {} 1 => { sec[n - 1] ^= 1 << r.below(8); } 2 => { sec[n - 2] ^= 0x10; sec[n - 3] ^= 1; } _ => { let k = n - 1 - r.below(7) as usize; sec[k] = sec[k].wrapping_add(1 + r.below(200) as u8); } }
            let mut m = Mux::new(r);
            let mut all = m.section(0, &sec, &plan_for(r, &sec));
            all.extend(probes(&mut m, &[0x20, 0x21, 0x20 + nprog as u16 - 1]));
            emit(o, true, "b0t0", &[concat(&all)]);
        }
    }
}

/// a valid table is applied first, THEN damaged copies arrive whose version field differs (so the
/// de-duplication layer lets them through): nothing may be requested, replaced or removed by them
fn gen_c04_after_valid(tier: &str, r: &Rng, o: &mut Out<'_>) {
    let nt = if tier == "thorough" { 400 } else { 40 };
    for t in 0..nt {
        let (progs, pat) = base_tables(r);
        let target_pat = t % 2 == 0;
        let sec = if target_pat { pat.clone() } else { pmt_of(&progs[0]) };
        let pid = if target_pat { 0 } else { progs[0].pmt_pid };
        for vbit in 0..5usize {
            for extra in 0..3usize {
                let mut bad = sec.clone();
                bad[5] ^= 0x02 << vbit;                    // version_number bit: CRC field unchanged
                if extra == 1 { let i = 8 + r.below((bad.len() - 12).max(1) as u64) as usize; bad[i] ^= 1 << r.below(8); }
                if extra == 2 { let i = r.below(bad.len() as u64) as usize; bad[i] = bad[i].wrapping_add(1 + r.below(255) as u8); }
                if crc32(&bad) == 0 { continue; }
                let mut m = Mux::new(r);
                let mut all = vec![];
                if !target_pat { all.extend(m.section(0, &pat, &simple_plan(pat.len()))); }
                all.extend(m.section(pid, &sec, &plan_for(r, &sec)));
                for _ in 0..(1 + r.below(2)) { all.extend(m.section(pid, &bad, &plan_for(r, &bad))); }
                let pp: Vec<u16> = progs.iter().flat_map(|p| p.streams.iter().map(|s| s.1).chain(std::iter::once(p.pmt_pid))).collect();
                all.extend(probes(&mut m, &pp));
                emit(o, true, "b0t0", &rand_pushes(r, &all));
            }
        }
    }
}

/// runs of SEVERAL different damaged sections (each with its own version, so none is dropped as a
/// duplicate), with or without a valid table before / between them: no damaged one may be applied
fn gen_c04_runs_of_bad(tier: &str, r: &Rng, o: &mut Out<'_>) {
    let nt = if tier == "thorough" { 3_000 } else { 200 };
    for t in 0..nt {
        let (progs, pat) = base_tables(r);
        let target_pat = t % 2 == 0;
        let sec = if target_pat { pat.clone() } else { pmt_of(&progs[0]) };
        let pid = if target_pat { 0 } else { progs[0].pmt_pid };
        let mut m = Mux::new(r);
        let mut all = vec![];
        if !target_pat { all.extend(m.section(0, &pat, &simple_plan(pat.len()))); }
        if t % 3 == 0 { all.extend(m.section(pid, &sec, &plan_for(r, &sec))); }
        let v0 = (sec[5] >> 1) & 31;
        for k in 0..(2 + r.below(4)) {
            let mut bad = sec[..sec.len() - 4].to_vec();
            let v = (v0 + 1 + k as u8) & 31;
            bad[5] = (bad[5] & 0xc1) | (v << 1);
            // change the body too, then append a WRONG checksum (valid one with a few bits flipped)
            if bad.len() > 9 && r.chance(1, 2) { let i = 8 + r.below((bad.len() - 8) as u64) as usize; bad[i] ^= 1 << r.below(8); }
            let mut bad = with_crc(bad);
            let n = bad.len();
            for _ in 0..(1 + r.below(3)) { let b = r.below(32) as usize; bad[n - 4 + b / 8] ^= 0x80 >> (b % 8); }
            if crc32(&bad) == 0 { continue; }
            all.extend(m.section(pid, &bad, &plan_for(r, &bad)));
            if t % 5 == 4 && k == 1 { all.extend(m.section(pid, &sec, &plan_for(r, &sec))); }
        }
        let pp: Vec<u16> = progs.iter().flat_map(|p| p.streams.iter().map(|s| s.1).chain(std::iter::once(p.pmt_pid))).collect();
        all.extend(probes(&mut m, &pp));
        emit(o, true, "b0t0", &rand_pushes(r, &all));
    }
}

fn gen_c04(tier: &str, r: &Rng, o: &mut Out<'_>) {
    gen_crc_cases(tier, r, o);
    gen_c04_gate(tier, r, o);
    gen_c04_field_and_maxsize(tier, r, o);
    gen_c04_after_valid(tier, r, o);
    gen_c04_runs_of_bad(tier, r, o);
    mixed_scenarios(tier, r, o, "C04");
    o.meta("exhaustive", "all 256 one-byte CRC inputs (= every table row); every single-bit corruption of the generated tables");
}

/// one damaged-transmission history: optional previously applied version, a damaged transmission
/// (dmg: 0 bit flip, 1 lost continuation, 2 truncated after the first packet, 3 truncated later),
/// then the intact transmission (same or different version), then probes
fn c11_damage(r: &Rng, progs: &[Prog], pat: &[u8], pmt: &[u8], p0: &Prog, target_pat: bool, same_version: bool, dmg: usize) -> Vec<Vec<u8>> {
    let sec = if target_pat { pat.to_vec() } else { pmt.to_vec() };
    let pid = if target_pat { 0 } else { p0.pmt_pid };
    let _ = progs;
    let mut m = Mux::new(r);
    let mut all = vec![];
    if !target_pat { all.extend(m.section(0, pat, &simple_plan(pat.len()))); }
    let had_prev = r.chance(1, 2);
    if had_prev {
        let mut prev = sec.clone();
        prev[5] = (prev[5] & 0xc1) | ((((prev[5] >> 1) & 31).wrapping_add(7) & 31) << 1);
        let l = prev.len(); prev.truncate(l - 4); let prev = with_crc(prev);
        all.extend(m.section(pid, &prev, &plan_for(r, &prev)));
    }
    let mut damaged_pk = {
        let mut bad = sec.clone();
        // dmg 5: exactly one bit of version_number flipped (the copy reads as another version, its
        // CRC_32 field and length are those of the intact section); dmg 6: one bit flipped outside
        // the version and the CRC_32 field (seeded change C11-r10m2: a "seen this failing CRC
        // before" cache keyed on length + CRC_32 field)
        // dmg 7: one bit of the section_syntax_indicator / the two high bits of section_length flipped:
        // the copy is refused before the de-duplication layer sees it (syntax bit clear, or a length
        // above 1021), so the intact copy that follows is applied even with the SAME version
        // (seeded change C11-r12m1: section_length read as 10 bits)
        if dmg == 7 { bad[1] ^= [0x80u8, 0x08, 0x04][r.below(3) as usize]; }
        // dmg 8: one bit of table_id flipped (the first byte; dmg 0 starts at the fourth): a copy that
        // claims to be another table must not keep later intact copies out (seeded change C11-r12m2)
        if dmg == 8 { bad[0] ^= 1 << r.below(8); }
        if dmg == 5 { bad[5] ^= 2u8 << r.below(5); }
        if dmg == 6 { let n = bad.len(); let mut b = 8 + r.below((n - 12) as u64) as usize; if b >= n - 4 { b = 8; } bad[b] ^= 1 << r.below(8); }
        if dmg == 0 { let b = 24 + r.below((bad.len() * 8 - 24) as u64) as usize; bad[b / 8] ^= 0x80 >> (b % 8); if b / 8 == 5 && (b % 8) >= 2 && (b % 8) <= 6 { bad[5] ^= 0x80 >> (b % 8); let k = 8 % bad.len(); bad[k] ^= 1; } }
        let plan = if dmg == 0 || dmg >= 5 { plan_for(r, &bad) } else { SecPlan { pre: vec![], first: 30.min(bad.len() - 1).max(8), conts: vec![40, 50], trailing_stuff: true } };
        m.section(pid, &bad, &plan)
    };
    match dmg {
        1 => { if damaged_pk.len() > 1 { let k = 1 + r.below((damaged_pk.len() - 1) as u64) as usize; damaged_pk.remove(k); } }
        2 => { damaged_pk.truncate(1); }
        3 => { if damaged_pk.len() > 1 { damaged_pk.truncate(1 + r.below((damaged_pk.len() - 1) as u64) as usize); } }
        _ => {}
    }
    // dmg 4: the continuation packets of the damaged transmission are delayed and arrive only AFTER
    // the intact transmission (re-ordering / late tail)
    let mut late: Vec<Vec<u8>> = vec![];
    if dmg == 4 && damaged_pk.len() > 1 { late = damaged_pk.split_off(1); }
    all.extend(damaged_pk);
    let intact = if same_version { sec.clone() } else {
        let mut s2 = sec.clone(); s2[5] = (s2[5] & 0xc1) | ((((s2[5] >> 1) & 31).wrapping_add(1) & 31) << 1);
        let l = s2.len(); s2.truncate(l - 4); with_crc(s2)
    };
    if dmg == 6 {
        // damaged vA, intact vB, then intact vA again
        let mut s2 = sec.clone(); s2[5] = (s2[5] & 0xc1) | ((((s2[5] >> 1) & 31).wrapping_add(3) & 31) << 1);
        let l = s2.len(); s2.truncate(l - 4); let s2 = with_crc(s2);
        all.extend(m.section(pid, &s2, &plan_for(r, &s2)));
    }
    let intact = if dmg >= 5 && dmg != 8 { sec.clone() } else { intact };
    for k in 0..(1 + r.below(3)) {
        // the intact copy is sometimes forced into a single packet / several packets
        let plan = if dmg == 4 && k == 0 && intact.len() <= 183 { simple_plan(intact.len()) } else { plan_for(r, &intact) };
        all.extend(m.section(pid, &intact, &plan));
        if k == 0 { all.extend(late.drain(..)); }
    }
    let pp: Vec<u16> = p0.streams.iter().map(|s| s.1).chain(std::iter::once(p0.pmt_pid)).collect();
    all.extend(probes(&mut m, &pp));
    all
}

fn gen_c11(tier: &str, r: &Rng, o: &mut Out<'_>) {
    let nt = if tier == "thorough" { 4_000 } else { 150 };
    for t in 0..nt {
        let (progs, pat) = base_tables(r);
        let mut p0 = progs[0].clone();
        if t % 2 == 0 { for _ in 0..15 { p0.prog_desc.extend(rand_desc(r)); } }
        let pmt = pmt_of(&p0);
        for &target_pat in [true, false].iter() {
            for &same_version in [true, false].iter() {
                for dmg in [0usize, 1, 2, 3, 4, 8] {
                    let all = c11_damage(r, &progs, &pat, &pmt, &p0, target_pat, same_version, dmg);
                    let body = format!("demux b0t0 {}", hex(&concat(&all)));
                    // same-version-as-damaged-start is the recorded finding F2; everything else is decisive
                    if same_version { o.h(&body); } else { o.d(&body); }
                }
                // a damaged copy that READS as another version / vA damaged, vB, vA: the intact copy
                // differs in version from the last recorded start, so it is applied (decisive)
                for dmg in 5..8 {
                    let all = c11_damage(r, &progs, &pat, &pmt, &p0, target_pat, same_version, dmg);
                    o.d(&format!("demux b0t0 {}", hex(&concat(&all))));
                }
            }
        }
    }
    mixed_scenarios(tier, r, o, "C11");
    o.meta("plans", "each table x {bit flip, lost continuation, early restart, truncation, late tail after the intact copy} x following intact transmission (same / different version) x optional previously applied version");
}

/// a small sample of every scenario family, appended to each stateful property's own cases: a
/// change that breaks property P may only manifest through a history typical of another property
fn mixed_scenarios(tier: &str, r: &Rng, o: &mut Out<'_>, skip: &str) {
    let n = if tier == "thorough" { 6_000 } else { 300 };
    for i in 0..n {
        let kind = i % 6;
        let (pkts, decisive): (Vec<Vec<u8>>, bool) = match kind {
            0 => (wf_mux(r, 1 + r.below(3) as usize, 3, 2, 400, true), true),
            1 => { if skip == "C05" { continue; } (c05_history(r, i), true) }
            2 => {
                if skip == "C11" { continue; }
                let (progs, pat) = base_tables(r);
                let p0 = { let mut p = progs[0].clone(); for _ in 0..(12 + r.below(40)) { p.prog_desc.extend(rand_desc(r)); } p };
                let pmt = pmt_of(&p0);
                let same = r.chance(1, 2);
                (c11_damage(r, &progs, &pat, &pmt, &p0, r.chance(1, 2), same, r.below(5) as usize), !same)
            }
            3 => (psi_torture(r), false),
            4 => (dispatcher_stream(r, 10 + r.below(30) as usize, true), true),
            _ => { let mut p = hostile_psi_stream(r); p.extend(wf_mux(r, 1, 2, 1, 200, false)); (p, false) }
        };
        emit(o, decisive, "b0t0", &rand_pushes(r, &pkts));
    }
}

// ---------------------------------------------------------------- C01: hostile input, every accessor

fn mutate(r: &Rng, pkts: &mut Vec<Vec<u8>>) {
    for _ in 0..(1 + r.below(6)) {
        if pkts.is_empty() { return; }
        let i = r.below(pkts.len() as u64) as usize;
        match r.below(9) {
            0 => { let j = r.below(188) as usize; pkts[i][j] ^= 1 << r.below(8); }
            1 => { let j = r.below(188) as usize; pkts[i][j] = r.byte(); }
            2 => { pkts[i][4] = [0u8, 1, 182, 183, 184, 255][r.below(6) as usize]; pkts[i][3] |= 0x20; }
            3 => { pkts[i][3] = (pkts[i][3] & 0x0f) | (r.byte() & 0xf0); }
            4 => { pkts.remove(i); }
            5 => { let p = pkts[i].clone(); pkts.insert(i, p); }
            6 => { let j = 4 + r.below(20) as usize; pkts[i][j] = [0u8, 0xff, 0x0f, 0xf0, 0x80][r.below(5) as usize]; }
            7 => { let j = 4 + r.below(184) as usize; for k in j..188 { pkts[i][k] = 0xff; } }
            _ => { let j = r.below(pkts.len() as u64) as usize; pkts.swap(i, j); }
        }
    }
}

fn hostile_psi_stream(r: &Rng) -> Vec<Vec<u8>> {
    // sections with hostile bodies on the PAT PID and on a PMT PID (reach the processors when the CRC is bypassed)
    let mut m = Mux::new(r);
    let mut all = vec![];
    let pmt_pid = 0x100u16;
    let pat = pat_section(1, 0, &[(1, pmt_pid)]);
    all.extend(m.section(0, &pat, &simple_plan(pat.len())));
    for v in 1..(2 + r.below(5) as u8) {
        let on_pat = r.chance(1, 3);
        let blen = match r.below(5) { 0 => r.below(6) as usize, 1 => 1000 + r.below(13) as usize, _ => r.below(120) as usize };
        let mut body = if on_pat { r.bytes(blen) } else {
            let mut b = vec![r.byte(), r.byte()];
            let pd = rand_desc_loop(r, 3);
            let pil = match r.below(5) { 0 => pd.len() + 1 + r.below(5) as usize, 1 => 4095, _ => pd.len() };
            b.push(0xf0 | (pil >> 8) as u8 & 0x0f); b.push(pil as u8); b.extend(&pd);
            for _ in 0..r.below(4) {
                let ed = rand_desc_loop(r, 3);
                let esil = match r.below(6) { 0 => ed.len() + 1, 1 => 4095, _ => ed.len() };
                b.extend_from_slice(&[if r.chance(1, 2) { 0x1b } else { r.byte() }, r.byte(), r.byte(), 0xf0 | (esil >> 8) as u8 & 0x0f, esil as u8]);
                b.extend(&ed);
            }
            if r.chance(1, 3) { let l = r.below(b.len() as u64 + 1) as usize; b.truncate(l); }
            b
        };
        if body.len() > 1012 { body.truncate(1012); }
        let tid = if r.chance(4, 5) { if on_pat { 0 } else { 2 } } else { r.byte() };
        let mut sec = syntax_section(tid, 1, v, &body);
        match r.below(8) {
            0 => { sec[1] &= 0x7f; }                         // syntax bit cleared
            1 => { let sl = r.below(4096) as usize; sec[1] = (sec[1] & 0xf0) | (sl >> 8) as u8; sec[2] = sl as u8; }
            2 => { sec[5] &= 0xfe; }                         // current_next_indicator = 0
            3 => { let l = sec.len(); sec.truncate(l.saturating_sub(1 + r.below(6) as usize).max(3)); }
            _ => {}
        }
        let plan = rand_plan(r, sec.len(), 1);
        all.extend(m.section(if on_pat { 0 } else { pmt_pid }, &sec, &plan));
    }
    // tiny sections around the minimum CRC-bearing length (12 bytes), with a VALID CRC: they pass
    // every length guard that is too lax and must still be dropped before the table processors
    for _ in 0..r.below(4) {
        let on_pat = r.chance(1, 2);
        let total = 3 + r.below(12) as usize; // 3..=14 bytes
        let sl = total - 3;
        let mut sec = vec![if on_pat { 0 } else { 2 }, 0xb0 | ((sl >> 8) as u8 & 0x0f), sl as u8];
        while sec.len() + 4 < total { sec.push(r.byte()); }
        let sec = if total >= 7 { with_crc(sec) } else { let mut s2 = sec; while s2.len() < total { s2.push(r.byte()); } s2 };
        let plan = SecPlan { pre: vec![], first: sec.len(), conts: vec![], trailing_stuff: r.chance(2, 3) };
        all.extend(m.section(if on_pat { 0 } else { pmt_pid }, &sec, &plan));
    }
    all
}

/// adversarial PSI packet sequences on the PAT PID and a PMT PID: section starts that leave a
/// chosen number of bytes outstanding, pointer_field past the end of the payload, starts with
/// fewer than 3 / 8 bytes present, random continuations, payload-less packets, back-to-back packing
fn psi_torture(r: &Rng) -> Vec<Vec<u8>> {
    let mut m = Mux::new(r);
    let pmt_pid = 0x100u16;
    let pat = pat_section(1, 0, &[(1, pmt_pid)]);
    let mut all = m.section(0, &pat, &simple_plan(pat.len()));
    let mut ver = 1u8;
    for _ in 0..(2 + r.below(10)) {
        let pid = if r.chance(1, 2) { 0 } else { pmt_pid };
        match r.below(9) {
            0 | 1 => {
                // a start whose section leaves `owed` bytes outstanding after the first packet
                let first = 8 + r.below(176) as usize;
                let owed = [1usize, 2, 3, 4, 5, 7, 8, 9, 100, 183, 184, 185, 400][r.below(13) as usize];
                let sl = (first + owed).saturating_sub(3).min(1021).max(5);
                let mut sec = vec![if pid == 0 { 0 } else { 2 }, 0xb0 | (sl >> 8) as u8, sl as u8, 0, 1, 0xc1 | ((ver & 31) << 1), 0, 0];
                ver = ver.wrapping_add(1);
                sec.extend(r.bytes(sl - 5));
                let mut pl = vec![0u8]; pl.extend_from_slice(&sec[..first.min(sec.len())]);
                all.push(m.raw(pid, true, &pl));
            }
            2 => { let n = 1 + r.below(184) as usize; all.push(m.raw(pid, false, &r.bytes(n))); }
            3 => {
                // pointer_field at / past the end of the payload
                let n = 1 + r.below(184) as usize;
                let mut pl = r.bytes(n);
                pl[0] = (n as u8).wrapping_sub(r.below(3) as u8).wrapping_add(r.below(3) as u8);
                if r.chance(1, 3) { pl[0] = 0xff; }
                all.push(m.raw(pid, true, &pl));
            }
            4 => {
                // a start with only k < 8 bytes of the section present
                let k = r.below(9) as usize;
                let ptr = r.below(20) as usize;
                let mut pl = vec![ptr as u8]; pl.extend(r.bytes(ptr));
                let mut hdr = vec![if pid == 0 { 0 } else { 2 }, 0xb0, 40, 0, 1, 0xc1 | ((ver & 31) << 1), 0, 0, 9];
                ver = ver.wrapping_add(1);
                hdr.truncate(k);
                pl.extend(hdr);
                all.push(m.raw(pid, true, &pl));
            }
            5 => { all.push(m.af_only(pid)); }
            6 => {
                let secs: Vec<Vec<u8>> = (0..(1 + r.below(3))).map(|_| { ver = ver.wrapping_add(1); let body = r.bytes(r.below(300) as usize); syntax_section(if pid == 0 { 0 } else { 2 }, 1, ver, &body) }).collect();
                all.extend(m.packed(pid, &secs, 1));
            }
            7 => {
                ver = ver.wrapping_add(1);
                let sec = if pid == 0 { pat_section(1, ver, &[(1, pmt_pid), (0, 0x1fff), (2, 0x1ffe)]) } else { pmt_section(1, ver, 0x1fff, &[], &[(0x1b, 0x1fff, vec![]), (0x0f, 0x1ffe, vec![]), (0x05, 0, vec![])]) };
                all.extend(m.section(pid, &sec, &plan_for(r, &sec)));
            }
            _ => { let n = 1 + r.below(6) as usize; all.push(m.raw(pid, r.chance(1, 2), &r.bytes(n))); }
        }
    }
    all
}

fn gen_c01(tier: &str, r: &Rng, o: &mut Out<'_>) {
    let n = if tier == "thorough" { 50_000 } else { 1_200 };
    for i in 0..n {
        for &cfg in ["b0t1", "b1t1"].iter() {
            let mut pkts = match i % 6 {
                5 => psi_torture(r),
                0 => wf_mux(r, 1 + r.below(2) as usize, 3, 2, 300, true),
                1 => hostile_psi_stream(r),
                2 => dispatcher_stream(r, 5 + r.below(30) as usize, true),
                3 => { let mut p = hostile_psi_stream(r); p.extend(wf_mux(r, 1, 2, 1, 200, false)); p }
                _ => (0..(1 + r.below(20))).map(|_| { let mut p = rand_packet(r); if r.chance(1, 2) { p[1] &= 0x60; p[2] = [0u8, 0, 1, 0x11][r.below(4) as usize]; } if r.chance(1, 2) { p[3] &= 0x3f; } p }).collect(),
            };
            if i % 6 != 4 && (i % 6 != 5 || r.chance(1, 3)) { mutate(r, &mut pkts); }
            let mut bytes = concat(&pkts);
            // cut anywhere, packet-aligned or not
            let mut pushes = vec![];
            if r.chance(1, 2) { pushes = rand_pushes(r, &pkts); }
            else {
                if r.chance(1, 4) { let l = r.below(bytes.len() as u64 + 1) as usize; bytes.truncate(l); }
                let mut pos = 0;
                while pos < bytes.len() { let l = (1 + r.below(600) as usize).min(bytes.len() - pos); pushes.push(bytes[pos..pos + l].to_vec()); pos += l; }
                if pushes.is_empty() { pushes.push(vec![]); }
            }
            emit(o, false, cfg, &pushes);
        }
    }
    // leaf accessors on hostile bytes (every op must return, never PANIC)
    for _ in 0..(n / 2) {
        o.h(&format!("af {}", hex(&r.bytes(1 + r.below(184) as usize))));
        o.h(&format!("pes {}", hex(&{ let mut b = vec![0, 0, 1]; b.extend(r.bytes(r.below(40) as usize)); b })));
        o.h(&format!("pmt {}", hex(&r.bytes(r.below(60) as usize))));
        o.h(&format!("desc {}", hex(&r.bytes(r.below(40) as usize))));
        o.h(&format!("pat {}", hex(&r.bytes(r.below(40) as usize))));
        o.h(&format!("pkt {}", hex(&rand_packet(r))));
        // section headers, value types, timestamps, clock references on arbitrary bytes
        o.h(&format!("sch {}", hex(&r.bytes(r.below(6) as usize))));
        o.h(&format!("tsh {}", hex(&r.bytes(r.below(9) as usize))));
        o.h(&format!("ts {}", hex(&r.bytes(5))));
        o.h(&format!("crefs {}", hex(&r.bytes(6))));
        o.h(&format!("pidtry {}", r.below(70000)));
        o.h(&format!("tsu64 {}", r.next() >> (r.below(40) as u32)));
        // the raw section consumers and the PES filter on random 188-byte packets of one PID
        let pk: Vec<Vec<u8>> = (0..(1 + r.below(6))).map(|_| { let mut p = rand_packet(r); p[0] = 0x47; p[1] = (p[1] & 0x60) | 1; p[2] = 0; if r.chance(2, 3) { p[3] = (p[3] & 0x0f) | 0x10; } p }).collect();
        o.h(&format!("sec {} {}", if r.chance(1, 2) { "s" } else { "c" }, join(&pk)));
        o.h(&format!("pesf {}", join(&pk)));
    }
    // every flag byte with a PES_header_data_length around what the flags imply (and 0 / 255), in a
    // buffer long enough for all of it: headers whose declared length disagrees with their flags must be
    // refused, and every accessor of an accepted one must be total (seeded change C01-r11m3: the two
    // consistency checks of from_bytes merged, pes_extension() then slices backwards)
    for flags in 0..=255u8 {
        let mut need = match flags >> 6 { 2 => 5usize, 3 => 10, _ => 0 };
        if flags & 0x20 != 0 { need += 6; } if flags & 0x10 != 0 { need += 3; } if flags & 0x08 != 0 { need += 1; }
        if flags & 0x04 != 0 { need += 1; } if flags & 0x02 != 0 { need += 2; }
        for hdl in [0usize, need.saturating_sub(1), need, need + 1, need + 7, 255] {
            if hdl > 255 { continue; }
            let mut b = vec![0u8, 0, 1, 0xe0, 0, 0, 0x80 | (r.byte() & 0x3f), flags, hdl as u8];
            let mut body = r.bytes(300);
            // plausible timestamps so that accepted headers get past the marker checks
            for k in [0usize, 5] { if k + 4 < body.len() { body[k] |= 0x01; body[k + 2] |= 0x01; body[k + 4] |= 0x01; body[k] = (body[k] & 0x0f) | if k == 0 { (flags >> 6) << 4 } else { 0x10 }; } }
            b.extend(body);
            o.h(&format!("pes {}", hex(&b)));
        }
    }
    // valid PES packets cut after every length up to the end of a long optional header
    for l in 0..=70usize {
        for _ in 0..3 { let (b, _) = pes_bytes(r, &rand_pes(r, 80)); o.h(&format!("pes {}", hex(&b[..l.min(b.len())]))); }
    }
    o.meta("plans", "well-formed, hostile-PSI, dispatcher and random streams, mutated (bit flips, length-field edits, drops, duplicates, swaps), pushed whole / packet-aligned / at arbitrary byte offsets; both builds (cfg(fuzzing) bypasses the CRC); every callback touches every accessor and Debug impl");
}


// ---------------------------------------------------------------- C19: zero-copy, steady state, bounded

fn gen_c19(tier: &str, r: &Rng, o: &mut Out<'_>) {
    let thorough = tier == "thorough";
    let n = if thorough { 20_000 } else { 600 };
    for i in 0..n {
        // warm-up: every table applied, every PID seen; then steady pushes: more PES + repeated tables
        let mut m = Mux::new(r);
        let mut used = vec![0u16, 0x1fff];
        let mut progs = rand_progs(r, 1 + r.below(3) as usize, 4, &mut used);
        if i % 3 == 0 { for p in progs.iter_mut() { for _ in 0..15 { p.prog_desc.extend(rand_desc(r)); } } }
        let pat = pat_section(5, r.byte() & 31, &pat_of(&progs, None));
        let mut warm = m.section(0, &pat, &plan_for(r, &pat));
        for p in progs.iter() { let s = pmt_of(p); warm.extend(m.section(p.pmt_pid, &s, &plan_for(r, &s))); }
        let use_null = r.chance(1, 2);
        if use_null { warm.push(null_pkt(r)); }
        for p in progs.iter() { for (st, pid, _) in p.streams.iter() {
            if PES_TYPES.contains(st) { warm.extend(m.pes(*pid, &rand_pes(r, 300), false)); } else { warm.push(m.raw(*pid, false, &r.bytes(100))); }
        } }
        let mut pushes = vec![concat(&warm)];
        for _ in 0..(1 + r.below(4)) {
            let mut qs = vec![];
            for p in progs.iter() { for (st, pid, _) in p.streams.iter() {
                let mut q = vec![];
                for _ in 0..(1 + r.below(3)) {
                    if PES_TYPES.contains(st) { q.extend(m.pes(*pid, &rand_pes(r, 500), r.chance(1, 4))); if r.chance(1, 4) { q.push(m.af_only(*pid)); } }
                    else { q.push(m.raw(*pid, r.chance(1, 2), &r.bytes(1 + r.below(184) as usize))); }
                }
                qs.push(q);
            } }
            let mut q = vec![]; for _ in 0..(1 + r.below(3)) { q.extend(m.section(0, &pat, &plan_for(r, &pat))); } qs.push(q);
            for p in progs.iter() {
                let s = pmt_of(p);
                let mut q = vec![];
                for _ in 0..(1 + r.below(3)) {
                    // between repetitions, section starts that the section-syntax processor REJECTS
                    // (a private compact-syntax section; a section announcing more than 1021 bytes):
                    // they must leave the de-duplication state alone (seeded change C19-r10m1)
                    if i % 4 == 1 && r.chance(1, 2) {
                        let foreign = if r.chance(1, 2) { rand_section(r, false, 3 + r.below(150) as usize) } else { let mut f = rand_section(r, true, 40); let l = 1022 + r.below(3000) as usize; f[1] = (f[1] & 0xf0) | ((l >> 8) as u8 & 0x0f); f[2] = (l & 0xff) as u8; f };
                        q.extend(m.section(p.pmt_pid, &foreign, &simple_plan(foreign.len())));
                    }
                    q.extend(m.section(p.pmt_pid, &s, &plan_for(r, &s)));
                }
                qs.push(q);
            }
            if use_null { qs.push((0..r.below(3)).map(|_| null_pkt(r)).collect()); }
            pushes.push(concat(&interleave(r, qs)));
        }
        let id = o.d(&format!("steady b0t0 {}", pushes.iter().map(|p| hex(p)).collect::<Vec<_>>().join(" ")));
        let zeros = vec!["0"; pushes.len() - 1].join(",");
        o.expect(&id, &format!("allocs={} constructs={} copied=0", zeros, zeros));
    }
    // bounded retention: the same hostile block pushed again and again must reach a plateau
    let nb = if thorough { 3_000 } else { 150 };
    for i in 0..nb {
        let mut pkts = match i % 4 {
            0 => hostile_psi_stream(r),
            1 => dispatcher_stream(r, 20 + r.below(60) as usize, true),
            2 => { let mut p = wf_mux(r, 2, 3, 2, 300, true); mutate(r, &mut p); p }
            _ => { let mut p = hostile_psi_stream(r); p.extend(dispatcher_stream(r, 30, false)); mutate(r, &mut p); p }
        };
        if pkts.is_empty() { pkts.push(null_pkt(r)); }
        let id = o.d(&format!("retain b0t0 {} 12", hex(&concat(&pkts))));
        o.expect(&id, "plateau");
    }
    // application-level section consumers without the de-duplication layer (SDT/EIT style): the same
    // multi-packet table repeated; after two warm-up transmissions the reassembly buffer has its
    // capacity and no further allocation may happen
    let ns = if thorough { 2_000 } else { 100 };
    for i in 0..ns {
        let syntax = i % 2 == 0;
        let sl = 190 + r.below(800) as usize;
        let sec = rand_section(r, syntax, sl);
        let mut cc = 0u8;
        let mut pk = vec![];
        let mut warm = 0;
        for rep in 0..(6 + r.below(20)) {
            let plan = if rep < 2 { simple_plan(sec.len()) } else { rand_plan(r, sec.len(), if syntax { 8 } else { 3 }) };
            let mut plan = plan; plan.pre = vec![];
            if 1 + plan.first > 184 { plan.first = 183; }
            pk.extend(packetize_section(r, 0x11, &mut cc, &sec, &plan));
            if rep == 1 { warm = pk.len(); }
        }
        let id = o.d(&format!("secsteady {} {} {}", if syntax { "s" } else { "c" }, warm, join(&pk)));
        o.expect(&id, "allocs=0");
    }
    // zero-copy: ES payload ranges and single-packet sections are sub-slices of the pushed buffer
    let nz = if thorough { 10_000 } else { 400 };
    for i in 0..nz {
        let pkts = wf_mux(r, 1 + r.below(2) as usize, 3, 2, 400, true);
        if i % 4 == 3 {
            // pushes cut at arbitrary BYTE offsets: the packet a cut falls in is not reassembled (and
            // never copied): `chunks_exact` drops the incomplete tail of a push (seeded change C19-r11m2)
            let all = concat(&pkts);
            let mut pushes = vec![];
            let mut at = 0usize;
            while at < all.len() {
                let step = if r.chance(1, 3) { 188 * (1 + r.below(6) as usize) } else { 1 + r.below(188 * 5) as usize };
                let e = (at + step).min(all.len());
                pushes.push(all[at..e].to_vec());
                at = e;
            }
            emit(o, true, "b0t0", &pushes);
        } else {
            emit(o, true, "b0t0", &rand_pushes(r, &pkts));
        }
    }
    // PES packets whose unit-start packet carries only 1..=8 payload bytes (a long adaptation field):
    // the header does not fit, nothing may be stitched together on the heap (seeded change C19-r11m3);
    // as demux traces and in steady state
    let ny = if thorough { 3_000 } else { 120 };
    for i in 0..ny {
        let mut m = Mux::new(r);
        let mut used = vec![0u16, 0x1fff];
        let progs = rand_progs(r, 1, 3, &mut used);
        let pat = pat_section(5, r.byte() & 31, &pat_of(&progs, None));
        let mut warm = m.section(0, &pat, &plan_for(r, &pat));
        for p in progs.iter() { let s = pmt_of(p); warm.extend(m.section(p.pmt_pid, &s, &plan_for(r, &s))); }
        let es: Vec<u16> = progs.iter().flat_map(|p| p.streams.iter().filter(|(st, _, _)| PES_TYPES.contains(st)).map(|(_, pid, _)| *pid)).collect();
        if es.is_empty() { continue; }
        let tiny = |m: &mut Mux<'_>, pid: u16| -> Vec<Vec<u8>> {
            let (b, _hl) = pes_bytes(r, &rand_pes(r, 300));
            let k = (1 + r.below(8) as usize).min(b.len());
            let mut v = vec![m.raw(pid, true, &b[..k])];
            let mut at = k;
            while at < b.len() { let e = (at + 1 + r.below(184) as usize).min(b.len()); v.push(m.raw(pid, false, &b[at..e])); at = e; }
            v
        };
        for &pid in es.iter() { warm.extend(m.pes(pid, &rand_pes(r, 300), false)); warm.extend(tiny(&mut m, pid)); }
        let mut pushes = vec![concat(&warm)];
        for _ in 0..(1 + r.below(3)) {
            let mut q = vec![];
            for &pid in es.iter() {
                for _ in 0..(1 + r.below(3)) {
                    if r.chance(1, 2) { q.extend(tiny(&mut m, pid)); } else { q.extend(m.pes(pid, &rand_pes(r, 400), false)); }
                }
            }
            pushes.push(concat(&q));
        }
        if i % 2 == 0 {
            let id = o.d(&format!("steady b0t0 {}", pushes.iter().map(|p| hex(p)).collect::<Vec<_>>().join(" ")));
            let zeros = vec!["0"; pushes.len() - 1].join(",");
            o.expect(&id, &format!("allocs={} constructs={} copied=0", zeros, zeros));
        } else {
            emit(o, true, "b0t0", &pushes);
        }
    }
    for &syntax in [true, false].iter() {
        for sl in (0..=180usize).step_by(if thorough { 1 } else { 7 }) {
            let sec = rand_section(r, syntax, sl.max(if syntax { 5 } else { 0 }));
            let mut cc = 0;
            let pk = packetize_section(r, 0x100, &mut cc, &sec, &SecPlan { pre: vec![], first: sec.len(), conts: vec![], trailing_stuff: r.chance(1, 2) });
            o.d(&format!("sec {} {}", if syntax { "s" } else { "c" }, join(&pk)));
        }
    }
    // the same through the chain the library builds for PAT / PMT PIDs (de-duplication, reassembly,
    // CRC gate): valid tables of every size that fits one packet and a few that do not, each with
    // its own version so that de-duplication lets it through, in random packetisations, some
    // damaged; what reaches the table processor is recorded with its address
    let nt = if thorough { 6_000 } else { 300 };
    for i in 0..nt {
        let mut cc = 0u8;
        let mut pk = vec![];
        let mut ver = r.byte() & 31;
        for _ in 0..(1 + r.below(5)) {
            let nprog = if i % 3 == 0 { 1 + r.below(60) as usize } else { 1 + r.below(4) as usize };
            let entries: Vec<(u16, u16)> = (0..nprog).map(|k| (1 + k as u16, 0x100 + k as u16)).collect();
            let mut sec = pat_section(r.below(65536) as u16, ver, &entries);
            if r.chance(1, 6) { let k = r.below(sec.len() as u64) as usize; sec[k] ^= 1 << r.below(8); }
            let plan = if r.chance(1, 2) { simple_plan(sec.len()) } else { rand_plan(r, sec.len(), 8) };
            pk.extend(packetize_section(r, 0x100, &mut cc, &sec, &plan));
            if r.chance(2, 3) { ver = (ver + 1 + r.below(3) as u8) & 31; }
        }
        o.d(&format!("sec t {}", join(&pk)));
    }
    o.meta("plans", "steady-state pushes (allocations counted by a global allocator, callbacks in quiet mode), hostile blocks pushed 12x (live heap bytes must plateau), ES payload / single-packet section ranges inside the pushed buffer, tables through the PAT/PMT chain with the address of what reaches the processor");
}

/// fixed demonstration inputs for the recorded findings (used to build known_findings.json)
fn gen_probes(r: &Rng, o: &mut Out<'_>) {
    // F2: PAT with one CRC bit flipped, then the intact PAT (same version) three times
    let pat = pat_section(1, 0, &[(1, 0x100)]);
    let mut bad = pat.clone(); let n = bad.len(); bad[n - 1] ^= 1;
    let mut m = Mux::new(r); m.cc.insert(0, 0);
    let mut all = m.section(0, &bad, &simple_plan(bad.len()));
    for _ in 0..3 { all.extend(m.section(0, &pat, &simple_plan(pat.len()))); }
    writeln!(o.w, "F2 demux b0t0 {}", hex(&concat(&all))).unwrap();
    // F5: copyright bit set
    writeln!(o.w, "F5 pes 000001e00000820000").unwrap();
    // F7: PAT v0, PMT v0 {0x101,0x102}, PAT v1 (adds a program), PMT v1 {0x101}, probe on 0x102
    let mut m = Mux::new(r);
    for p in [0u16, 0x100, 0x110, 0x101, 0x102] { m.cc.insert(p, 0); }
    let pat0 = pat_section(1, 0, &[(1, 0x100)]);
    let pmt0 = pmt_section(1, 0, 0x101, &[], &[(0x1b, 0x101, vec![]), (0x0f, 0x102, vec![])]);
    let pat1 = pat_section(1, 1, &[(1, 0x100), (2, 0x110)]);
    let pmt1 = pmt_section(1, 1, 0x101, &[], &[(0x1b, 0x101, vec![])]);
    let mut all = m.section(0, &pat0, &simple_plan(pat0.len()));
    all.extend(m.section(0x100, &pmt0, &simple_plan(pmt0.len())));
    all.extend(m.section(0, &pat1, &simple_plan(pat1.len())));
    all.extend(m.section(0x100, &pmt1, &simple_plan(pmt1.len())));
    all.push(m.raw(0x102, false, &[0x55; 184]));
    writeln!(o.w, "F7 demux b0t0 {}", hex(&concat(&all))).unwrap();
    // control for F7: without the PAT bump the PID is removed and re-offered
    let mut m = Mux::new(r);
    for p in [0u16, 0x100, 0x110, 0x101, 0x102] { m.cc.insert(p, 0); }
    let mut all = m.section(0, &pat0, &simple_plan(pat0.len()));
    all.extend(m.section(0x100, &pmt0, &simple_plan(pmt0.len())));
    all.extend(m.section(0x100, &pmt1, &simple_plan(pmt1.len())));
    all.push(m.raw(0x102, false, &[0x55; 184]));
    writeln!(o.w, "F7control demux b0t0 {}", hex(&concat(&all))).unwrap();
}

pub fn generate(prop: &str, tier: &str, seed: u64, w: &mut dyn Write) {
    let r = Rng::new(seed);
    let mut o = Out { w, n: 0 };
    match prop {
        "probes" => gen_probes(&r, &mut o),
        "C12" => gen_c12(tier, &r, &mut o),
        "C13" => gen_c13(tier, &r, &mut o),
        "C14" => gen_c14(tier, &r, &mut o),
        "C15" => gen_c15(tier, &r, &mut o),
        "C16" => gen_c16(tier, &r, &mut o),
        "C17" => gen_c17(tier, &r, &mut o),
        "C04" => gen_c04(tier, &r, &mut o),
        "C05" => gen_c05(tier, &r, &mut o),
        "C11" => gen_c11(tier, &r, &mut o),
        "C01" => gen_c01(tier, &r, &mut o),
        "C19" => gen_c19(tier, &r, &mut o),
        "C03" => gen_c03(tier, &r, &mut o),
        "C02" => gen_c02(tier, &r, &mut o),
        "C06" => gen_c06(tier, &r, &mut o),
        "C07" => gen_c07(tier, &r, &mut o),
        "C10" => gen_c10(tier, &r, &mut o),
        "C18" => gen_c18(tier, &r, &mut o),
        "C08" => gen_pesf(tier, &r, &mut o, 2),
        "C09" => gen_pesf(tier, &r, &mut o, 1),
        _ => {
            o.h("crc -");
        }
    }
}
