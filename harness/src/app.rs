//! The harness application: the fuzz target's application made observable.
//! Mirrored by `/verif/lean/Ts/Model/App.lean`.

use crate::ops::{f_ptsdts, fb, hex, pes_len, stream_id_u8};
use mpeg2ts_reader::demultiplex::{
    DemuxContext, FilterChangeset, FilterRequest, PacketFilter, PatPacketFilter, PmtPacketFilter,
};
use mpeg2ts_reader::descriptor::CoreDescriptors;
use mpeg2ts_reader::packet::{Packet, Pid};
use mpeg2ts_reader::pes::{ElementaryStreamConsumer, PesContents, PesHeader, PesPacketFilter};
use mpeg2ts_reader::{packet_filter_switch, psi};

#[derive(Clone, Debug)]
pub enum ScriptOp {
    Ins(u16),
    Rem(u16),
}

#[derive(Clone, Debug, Default)]
pub struct Cfg {
    pub bypass_crc: bool, // informational: the harness binary is built with or without --cfg fuzzing
    pub touch: bool,
    pub script: Vec<(usize, Vec<ScriptOp>)>,
    /// construct script (`c<pid>:ops`): changes queued from inside `construct(ByPid(pid))`
    pub cscript: Vec<(u16, Vec<ScriptOp>)>,
}

pub fn parse_cfg(s: &str) -> Option<Cfg> {
    let mut parts = s.split(';');
    let hd = parts.next()?.as_bytes();
    if hd.len() != 4 || hd[0] != b'b' || hd[2] != b't' {
        return None;
    }
    let mut cfg = Cfg { bypass_crc: hd[1] == b'1', touch: hd[3] == b'1', script: vec![], cscript: vec![] };
    for e in parts {
        let mut kv = e.split(':');
        let key = kv.next()?;
        let ops = kv.next()?;
        let mut v = vec![];
        for o in ops.split(',') {
            if let Some(r) = o.strip_prefix('i') {
                if let Ok(p) = r.parse::<u16>() {
                    v.push(ScriptOp::Ins(p));
                }
            } else if let Some(r) = o.strip_prefix('r') {
                if let Ok(p) = r.parse::<u16>() {
                    v.push(ScriptOp::Rem(p));
                }
            }
        }
        if let Some(r) = key.strip_prefix('c') {
            cfg.cscript.push((r.parse::<u16>().ok()?, v));
        } else {
            cfg.script.push((key.parse::<usize>().ok()?, v));
        }
    }
    Some(cfg)
}

packet_filter_switch! {
    HFilter<HCtx> {
        Pat: PatPacketFilter<HCtx>,
        Pmt: PmtWrap,
        Pes: PesPacketFilter<HCtx, EsRec>,
        Rec: Recorder,
    }
}

pub struct HCtx {
    changeset: FilterChangeset<HFilter>,
    pub cfg: Cfg,
    pub next_tag: usize,
    pub trace: Vec<String>,
    /// address range of the concatenation of everything that will be pushed
    pub base: usize,
    pub total: usize,
    /// number of packets handed to PMT filters so far, and (that number, section address) of the
    /// section the last ByStream request came from, with the index of that request in the section
    pub pmt_pkt_seq: usize,
    last_section: (usize, usize),
    last_k: usize,
    /// quiet mode (C19 measurements): callbacks only count, they never allocate
    pub quiet: bool,
    pub n_events: usize,
    pub n_copied: usize,
    pub n_construct: usize,
}

/// `PmtPacketFilter` with a packet counter so that `construct` can tell which stream-loop entry a
/// `ByStream` request refers to (`StreamInfo` does not expose its bytes).
pub struct PmtWrap {
    inner: PmtPacketFilter<HCtx>,
}
impl PacketFilter for PmtWrap {
    type Ctx = HCtx;
    fn consume(&mut self, ctx: &mut HCtx, pk: &Packet<'_>) {
        ctx.pmt_pkt_seq += 1;
        self.inner.consume(ctx, pk);
    }
}

impl HCtx {
    pub fn new(cfg: Cfg, base: usize, total: usize) -> HCtx {
        HCtx {
            changeset: FilterChangeset::default(),
            cfg,
            next_tag: 0,
            trace: vec![],
            base,
            total,
            pmt_pkt_seq: 0,
            last_section: (usize::MAX, 0),
            last_k: 0,
            quiet: false,
            n_events: 0,
            n_copied: 0,
            n_construct: 0,
        }
    }
    /// global range of a slice handed to a callback, or `COPIED` if it is not inside the pushed data
    pub fn grange(&self, s: &[u8]) -> String {
        let a = s.as_ptr() as usize;
        if a >= self.base && a + s.len() <= self.base + self.total {
            format!("{}+{}", a - self.base, s.len())
        } else {
            format!("COPIED+{}", s.len())
        }
    }
    pub fn goff(&self, s: &[u8]) -> String {
        let a = s.as_ptr() as usize;
        if a >= self.base && a + s.len() <= self.base + self.total {
            format!("{}", a - self.base)
        } else {
            "COPIED".to_string()
        }
    }
    pub fn inside(&self, s: &[u8]) -> bool {
        let a = s.as_ptr() as usize;
        a >= self.base && a + s.len() <= self.base + self.total
    }
    fn tag(&mut self) -> usize {
        let t = self.next_tag;
        self.next_tag += 1;
        t
    }
}

impl DemuxContext for HCtx {
    type F = HFilter;
    fn filter_changeset(&mut self) -> &mut FilterChangeset<HFilter> {
        &mut self.changeset
    }
    fn construct(&mut self, req: FilterRequest<'_, '_>) -> HFilter {
        let tag = self.tag();
        if self.quiet {
            self.n_construct += 1;
            return match req {
                FilterRequest::ByPid(pid) => {
                    if pid == psi::pat::PAT_PID {
                        HFilter::Pat(PatPacketFilter::default())
                    } else {
                        HFilter::Rec(Recorder { tag })
                    }
                }
                FilterRequest::Pmt { pid, program_number } => {
                    HFilter::Pmt(PmtWrap { inner: PmtPacketFilter::new(pid, program_number) })
                }
                FilterRequest::Nit { .. } => HFilter::Rec(Recorder { tag }),
                FilterRequest::ByStream { stream_type, .. } => {
                    if stream_type.is_pes() {
                        HFilter::Pes(PesPacketFilter::new(EsRec { tag }))
                    } else {
                        HFilter::Rec(Recorder { tag })
                    }
                }
            };
        }
        match req {
            FilterRequest::ByPid(pid) => {
                self.trace.push(format!("C:bypid:{}>{}", u16::from(pid), tag));
                // construct script: queue changes from inside `construct`
                let ops: Option<Vec<ScriptOp>> =
                    self.cfg.cscript.iter().find(|(p, _)| *p == u16::from(pid)).map(|(_, v)| v.clone());
                if let Some(ops) = ops {
                    for op in ops {
                        match op {
                            ScriptOp::Ins(p) => {
                                let tag = self.tag();
                                self.trace.push(format!("S:ins:{}>{}", p, tag));
                                self.changeset.insert(Pid::new(p), HFilter::Rec(Recorder { tag }));
                            }
                            ScriptOp::Rem(p) => {
                                self.trace.push(format!("S:rem:{}", p));
                                self.changeset.remove(Pid::new(p));
                            }
                        }
                    }
                }
                if pid == psi::pat::PAT_PID {
                    HFilter::Pat(PatPacketFilter::default())
                } else {
                    HFilter::Rec(Recorder { tag })
                }
            }
            FilterRequest::Pmt { pid, program_number } => {
                self.trace.push(format!("C:pmt:{}:{}>{}", u16::from(pid), program_number, tag));
                HFilter::Pmt(PmtWrap { inner: PmtPacketFilter::new(pid, program_number) })
            }
            FilterRequest::Nit { pid } => {
                self.trace.push(format!("C:nit:{}>{}", u16::from(pid), tag));
                HFilter::Rec(Recorder { tag })
            }
            FilterRequest::ByStream { program_pid, stream_type, pmt, stream_info } => {
                if self.cfg.touch {
                    touch_str(&format!("{:?} {:?}", pmt, stream_info));
                    for d in stream_info.descriptors::<CoreDescriptors<'_>>() {
                        touch_str(&format!("{:?}", d));
                    }
                }
                let buf = pmt.buffer();
                let pil = (((buf[2] & 0x0f) as usize) << 8) | buf[3] as usize;
                let prog_desc = &buf[4..4 + pil];
                // which entry of the stream loop is this?  the k-th request made for this section
                let key = (self.pmt_pkt_seq, buf.as_ptr() as usize);
                if key == self.last_section {
                    self.last_k += 1;
                } else {
                    self.last_section = key;
                    self.last_k = 0;
                }
                let es_desc = es_desc_bytes(buf, pil, self.last_k);
                self.trace.push(format!(
                    "C:stream:{}:{}:{}:{}:{}:{}>{}",
                    u16::from(program_pid),
                    u8::from(stream_type),
                    u16::from(stream_info.elementary_pid()),
                    u16::from(pmt.pcr_pid()),
                    hex(es_desc),
                    hex(prog_desc),
                    tag
                ));
                if stream_type.is_pes() {
                    HFilter::Pes(PesPacketFilter::new(EsRec { tag }))
                } else {
                    HFilter::Rec(Recorder { tag })
                }
            }
        }
    }
}

/// descriptor bytes of the k-th entry of the stream loop, by the ISO 13818-1 2.4.4.8 layout
fn es_desc_bytes(buf: &[u8], pil: usize, k: usize) -> &[u8] {
    let mut off = 4 + pil;
    let mut i = 0;
    while off + 5 <= buf.len() {
        let esil = (((buf[off + 3] & 0x0f) as usize) << 8) | buf[off + 4] as usize;
        if off + 5 + esil > buf.len() {
            break;
        }
        if i == k {
            return &buf[off + 5..off + 5 + esil];
        }
        off += 5 + esil;
        i += 1;
    }
    &buf[0..0]
}

pub fn touch_str(s: &str) {
    std::hint::black_box(s.len());
}

pub struct Recorder {
    pub tag: usize,
}

pub fn touch_packet(pk: &Packet<'_>) {
    let mut s = format!(
        "{} {} {} {:?} {:?} {:?} {:?}",
        pk.transport_error_indicator(),
        pk.payload_unit_start_indicator(),
        pk.transport_priority(),
        pk.pid(),
        pk.transport_scrambling_control(),
        pk.adaptation_control(),
        pk.continuity_counter()
    );
    if let Some(af) = pk.adaptation_field() {
        s.push_str(&format!("{:?}", af));
        if let Ok(e) = af.adaptation_field_extension() {
            s.push_str(&format!("{:?}", e));
        }
        if let Ok(c) = af.pcr() {
            s.push_str(&format!("{}", u64::from(c)));
        }
        if let Ok(c) = af.opcr() {
            s.push_str(&format!("{}", u64::from(c)));
        }
    }
    if let Some(pl) = pk.payload() {
        if let Some(h) = PesHeader::from_bytes(pl) {
            touch_pes_header(&h, &mut s);
        }
    }
    touch_str(&s);
}

pub fn touch_pes_header(h: &PesHeader<'_>, s: &mut String) {
    s.push_str(&format!("{:?} {:?}", h.stream_id(), h.pes_packet_length()));
    match h.contents() {
        PesContents::Parsed(Some(c)) => {
            s.push_str(&format!("{:?}", c));
            let _ = c.pes_priority();
            if let Ok(e) = c.escr() {
                s.push_str(&format!("{}", u64::from(e)));
            }
            if let Ok(r) = c.es_rate() {
                s.push_str(&format!("{}", r.bytes_per_second()));
            }
            let _ = c.dsm_trick_mode();
            let _ = c.additional_copy_info();
            let _ = c.previous_pes_packet_crc();
            let _ = c.pes_extension();
            s.push_str(&format!("{}", c.payload().len()));
        }
        PesContents::Parsed(None) => {}
        PesContents::Payload(p) => s.push_str(&format!("{}", p.len())),
    }
}

impl PacketFilter for Recorder {
    type Ctx = HCtx;
    fn consume(&mut self, ctx: &mut HCtx, pk: &Packet<'_>) {
        if ctx.quiet {
            ctx.n_events += 1;
            if !ctx.inside(pk.buffer()) {
                ctx.n_copied += 1;
            }
            return;
        }
        if ctx.cfg.touch {
            touch_packet(pk);
        }
        let off = ctx.goff(pk.buffer());
        ctx.trace.push(format!("P:{}@{}", self.tag, off));
        if let Ok(o) = off.parse::<usize>() {
            let k = o / 188;
            let ops: Option<Vec<ScriptOp>> = ctx.cfg.script.iter().find(|(i, _)| *i == k).map(|(_, v)| v.clone());
            if let Some(ops) = ops {
                for op in ops {
                    match op {
                        ScriptOp::Ins(pid) => {
                            let tag = ctx.tag();
                            ctx.trace.push(format!("S:ins:{}>{}", pid, tag));
                            ctx.filter_changeset().insert(Pid::new(pid), HFilter::Rec(Recorder { tag }));
                        }
                        ScriptOp::Rem(pid) => {
                            ctx.trace.push(format!("S:rem:{}", pid));
                            ctx.filter_changeset().remove(Pid::new(pid));
                        }
                    }
                }
            }
        }
    }
}

pub struct EsRec {
    pub tag: usize,
}

impl ElementaryStreamConsumer<HCtx> for EsRec {
    fn start_stream(&mut self, ctx: &mut HCtx) {
        if ctx.quiet {
            ctx.n_events += 1;
            return;
        }
        ctx.trace.push(format!("E:{}:start", self.tag));
    }
    fn begin_packet(&mut self, ctx: &mut HCtx, header: PesHeader<'_>) {
        if ctx.quiet {
            ctx.n_events += 1;
            let ok = match header.contents() {
                PesContents::Payload(rest) => ctx.inside(rest),
                PesContents::Parsed(None) => true,
                PesContents::Parsed(Some(c)) => ctx.inside(c.payload()),
            };
            if !ok {
                ctx.n_copied += 1;
            }
            return;
        }
        if ctx.cfg.touch {
            let mut s = String::new();
            touch_pes_header(&header, &mut s);
            touch_str(&s);
        }
        let sid = stream_id_u8(&header, &[]);
        let len = pes_len(&header);
        let (kind, pd, pl) = match header.contents() {
            PesContents::Payload(rest) => ("payload", "na".to_string(), ctx.grange(rest)),
            PesContents::Parsed(None) => ("bad", "na".to_string(), "none".to_string()),
            PesContents::Parsed(Some(c)) => ("parsed", f_ptsdts(&c.pts_dts()), ctx.grange(c.payload())),
        };
        ctx.trace.push(format!("E:{}:begin:{}:{}:{}:{}:{}", self.tag, sid, len, kind, pd, pl));
    }
    fn continue_packet(&mut self, ctx: &mut HCtx, data: &[u8]) {
        if ctx.quiet {
            ctx.n_events += 1;
            if !ctx.inside(data) {
                ctx.n_copied += 1;
            }
            return;
        }
        let r = ctx.grange(data);
        ctx.trace.push(format!("E:{}:cont:{}", self.tag, r));
    }
    fn end_packet(&mut self, ctx: &mut HCtx) {
        if ctx.quiet {
            ctx.n_events += 1;
            return;
        }
        ctx.trace.push(format!("E:{}:end", self.tag));
    }
    fn continuity_error(&mut self, ctx: &mut HCtx) {
        if ctx.quiet {
            ctx.n_events += 1;
            return;
        }
        ctx.trace.push(format!("E:{}:ccerr", self.tag));
    }
}

#[allow(dead_code)]
pub fn unused(_: bool) -> &'static str {
    fb(true)
}
