//! Leaf ops: run the real code on one input and print the canonical result line
//! (same text as `/verif/lean/Main.lean`).

use mpeg2ts_reader::descriptor::iso_639_language::AudioType;
use mpeg2ts_reader::descriptor::{CoreDescriptors, DescriptorError, DescriptorIter, UnknownDescriptor};
use mpeg2ts_reader::mpegts_crc;
use mpeg2ts_reader::packet::{AdaptationField, AdaptationFieldError, ClockRef, Packet};
use mpeg2ts_reader::pes::{
    Copyright, DataAlignment, DsmTrickMode, FrequencyTruncationCoefficientSelection, OriginalOrCopy,
    PesContents, PesError, PesHeader, PesLength, PesParsedContents, PtsDts, Timestamp, TimestampError,
};
use mpeg2ts_reader::psi::pat::{PatSection, ProgramDescriptor};
use mpeg2ts_reader::psi::pmt::PmtSection;
use std::fmt::Write;

pub fn hex(b: &[u8]) -> String {
    if b.is_empty() {
        return "-".to_string();
    }
    let mut s = String::with_capacity(b.len() * 2);
    for x in b {
        write!(s, "{:02x}", x).unwrap();
    }
    s
}

pub fn unhex(s: &str) -> Vec<u8> {
    if s == "-" {
        return vec![];
    }
    let b = s.as_bytes();
    let mut out = Vec::with_capacity(b.len() / 2);
    let v = |c: u8| -> u8 {
        match c {
            b'0'..=b'9' => c - b'0',
            b'a'..=b'f' => c - b'a' + 10,
            b'A'..=b'F' => c - b'A' + 10,
            _ => 0,
        }
    };
    let mut i = 0;
    while i + 1 < b.len() {
        out.push(v(b[i]) * 16 + v(b[i + 1]));
        i += 2;
    }
    out
}

pub fn fb(b: bool) -> &'static str {
    if b {
        "1"
    } else {
        "0"
    }
}

/// range of `sub` inside `whole` as `off+len`
pub fn range_in(whole: &[u8], sub: &[u8]) -> String {
    let w0 = whole.as_ptr() as usize;
    let s0 = sub.as_ptr() as usize;
    if s0 < w0 || s0 + sub.len() > w0 + whole.len() {
        return format!("OUTSIDE+{}", sub.len());
    }
    format!("{}+{}", s0 - w0, sub.len())
}

pub fn op_pkt(p: &[u8]) -> String {
    let pk = match Packet::try_new(p) {
        Some(pk) => pk,
        None => return "nosync".to_string(),
    };
    let tsc = pk.transport_scrambling_control();
    let ac = pk.adaptation_control();
    let afc = (if ac.has_adaptation_field() { 2 } else { 0 }) + (if ac.has_payload() { 1 } else { 0 });
    let af = match pk.adaptation_field() {
        Some(_) => af_range_probe(p),
        None => "none".to_string(),
    };
    let pl = match pk.payload() {
        Some(pl) => range_in(p, pl),
        None => "none".to_string(),
    };
    // the values returned for adaptation_field_control and transport_scrambling_control must
    // carry the bits of that field only: a packet that differs in the OTHER bits of header byte 3
    // (other field, continuity counter) must yield values that compare equal
    let (aceq, tsceq) = {
        let mut q = p.to_vec();
        q[3] ^= 0xcf; // flips scrambling bits and continuity counter, keeps adaptation_field_control
        let mut r = p.to_vec();
        r[3] ^= 0x3f; // flips adaptation_field_control and continuity counter, keeps scrambling bits
        match (Packet::try_new(&q), Packet::try_new(&r)) {
            (Some(pq), Some(pr)) => (pq.adaptation_control() == ac, pr.transport_scrambling_control() == tsc),
            _ => (false, false),
        }
    };
    format!(
        "tei={} pusi={} prio={} pid={} scr={} scheme={} afc={} cc={} af={} pl={} aceq={} tsceq={}",
        fb(pk.transport_error_indicator()),
        fb(pk.payload_unit_start_indicator()),
        fb(pk.transport_priority()),
        u16::from(pk.pid()),
        fb(tsc.is_scrambled()),
        tsc.scheme().map(|v| v.get()).unwrap_or(0),
        afc,
        pk.continuity_counter().count(),
        af,
        pl,
        fb(aceq),
        fb(tsceq)
    )
}

/// `AdaptationField` keeps its slice private, so its extent is *measured* through the public
/// accessors on probe copies of the packet (same first five bytes, crafted field contents):
/// the start is where the flags byte is read from; the length is found with a private-data field
/// of growing size, which is `Ok` exactly while it fits inside the slice.
pub fn af_range_probe(p: &[u8]) -> String {
    let mut q = p.to_vec();
    for b in q[5..].iter_mut() {
        *b = 0;
    }
    // start: toggling byte 5 must toggle discontinuity_indicator
    let d0 = Packet::new(&q).adaptation_field().map(|a| a.discontinuity_indicator());
    q[5] = 0x80;
    let d1 = Packet::new(&q).adaptation_field().map(|a| a.discontinuity_indicator());
    if d0 != Some(false) || d1 != Some(true) {
        return "?+?".to_string();
    }
    q[5] = 0x02; // transport_private_data_flag only
    let mut len = 1usize;
    for n in 0..=255usize {
        q[6] = n as u8;
        let ok = match Packet::new(&q).adaptation_field() {
            Some(a) => a.transport_private_data().map(|d| d.len() == n).unwrap_or(false),
            None => false,
        };
        if ok {
            len = n + 2;
        } else {
            break;
        }
    }
    format!("5+{}", len)
}

fn f_ts_err(e: &TimestampError) -> String {
    match e {
        TimestampError::IncorrectPrefixBits { expected, actual } => format!("p{}.{}", expected, actual),
        TimestampError::MarkerBitNotSet { bit_number } => format!("m{}", bit_number),
    }
}
pub fn f_ts_res(r: &Result<Timestamp, TimestampError>) -> String {
    match r {
        Ok(t) => format!("{}", t.value()),
        Err(e) => f_ts_err(e),
    }
}
fn f_af_err(e: &AdaptationFieldError) -> String {
    match e {
        AdaptationFieldError::FieldNotPresent => "absent".into(),
        AdaptationFieldError::NotEnoughData => "short".into(),
        AdaptationFieldError::SpliceTimestampError(t) => format!("tserr:{}", f_ts_err(t)),
    }
}
fn f_af_res<T>(r: Result<T, AdaptationFieldError>, f: impl Fn(T) -> String) -> String {
    match r {
        Ok(v) => format!("ok:{}", f(v)),
        Err(e) => f_af_err(&e),
    }
}
fn f_cref(c: ClockRef) -> String {
    format!("{}:{}", c.base(), c.extension())
}

pub fn op_af(buf: &[u8]) -> String {
    let a = AdaptationField::new(buf);
    let ext = a.adaptation_field_extension();
    let (ltw, pw, ss) = match &ext {
        Ok(e) => (
            f_af_res(e.ltw_offset(), |o| match o {
                Some(v) => format!("{}", v),
                None => "none".into(),
            }),
            f_af_res(e.piecewise_rate(), |v| format!("{}", v)),
            f_af_res(e.seamless_splice(), |s| format!("{}:{}", s.splice_type, s.dts_next_au.value())),
        ),
        Err(_) => ("na".into(), "na".into(), "na".into()),
    };
    // the extension's bytes: recover through the field layout (the extension keeps its slice
    // private); printed from the AF buffer using the same offsets the accessor reported `ok` for.
    let ext_s = match &ext {
        Ok(_) => format!("ok:{}", hex(ext_bytes(buf))),
        Err(e) => f_af_err(e),
    };
    format!(
        "disc={} rai={} espi={} pcr={} opcr={} splice={} priv={} ext={} ltw={} pw={} ss={}",
        fb(a.discontinuity_indicator()),
        fb(a.random_access_indicator()),
        a.elementary_stream_priority_indicator(),
        f_af_res(a.pcr(), f_cref),
        f_af_res(a.opcr(), f_cref),
        f_af_res(a.splice_countdown(), |v| format!("{}", v)),
        f_af_res(a.transport_private_data(), |v| hex(v)),
        ext_s,
        ltw,
        pw,
        ss
    )
}

/// bytes of the adaptation field extension per ISO 13818-1 2.4.3.4 (only called when the
/// accessor returned Ok, so every index is in range); the extension *contents* are additionally
/// pinned by ltw/pw/ss.
fn ext_bytes(buf: &[u8]) -> &[u8] {
    let f = buf[0];
    let mut off = 1;
    if f & 0x10 != 0 {
        off += 6;
    }
    if f & 0x08 != 0 {
        off += 6;
    }
    if f & 0x04 != 0 {
        off += 1;
    }
    if f & 0x02 != 0 {
        off += 1 + buf[off] as usize;
    }
    let len = buf[off] as usize;
    &buf[off + 1..off + 1 + len]
}

fn f_pes_err(e: &PesError) -> String {
    match e {
        PesError::FieldNotPresent => "absent".into(),
        PesError::PtsDtsFlagsInvalid => "invalid".into(),
        PesError::NotEnoughData { .. } => "short".into(),
        PesError::MarkerBitNotSet => "marker".into(),
    }
}
fn f_pes_res<T>(r: Result<T, PesError>, f: impl Fn(T) -> String) -> String {
    match r {
        Ok(v) => format!("ok:{}", f(v)),
        Err(e) => f_pes_err(&e),
    }
}
pub fn f_ptsdts(r: &Result<PtsDts, PesError>) -> String {
    match r {
        Ok(PtsDts::PtsOnly(p)) => format!("pts:{}", f_ts_res(p)),
        Ok(PtsDts::Both { pts, dts }) => format!("both:{}:{}", f_ts_res(pts), f_ts_res(dts)),
        Ok(PtsDts::None) => "none".into(),
        Ok(PtsDts::Invalid) => "invalidv".into(),
        Err(e) => f_pes_err(e),
    }
}
fn f_freq(f: &FrequencyTruncationCoefficientSelection) -> u8 {
    match f {
        FrequencyTruncationCoefficientSelection::DCNonZero => 0,
        FrequencyTruncationCoefficientSelection::FirstThreeNonZero => 1,
        FrequencyTruncationCoefficientSelection::FirstSixNonZero => 2,
        FrequencyTruncationCoefficientSelection::AllMaybeNonZero => 3,
    }
}
fn f_trick(t: DsmTrickMode) -> String {
    match t {
        DsmTrickMode::FastForward { field_id, intra_slice_refresh, frequency_truncation } => {
            format!("ff:{}:{}:{}", field_id, fb(intra_slice_refresh), f_freq(&frequency_truncation))
        }
        DsmTrickMode::SlowMotion { rep_cntrl } => format!("sm:{}", rep_cntrl),
        DsmTrickMode::FreezeFrame { field_id, reserved } => format!("fz:{}:{}", field_id, reserved),
        DsmTrickMode::FastReverse { field_id, intra_slice_refresh, frequency_truncation } => {
            format!("fr:{}:{}:{}", field_id, fb(intra_slice_refresh), f_freq(&frequency_truncation))
        }
        DsmTrickMode::SlowReverse { rep_cntrl } => format!("sr:{}", rep_cntrl),
        DsmTrickMode::Reserved { reserved } => format!("rs:{}", reserved),
    }
}

pub fn f_parsed(c: &PesParsedContents<'_>, rest: &[u8]) -> String {
    let pl = c.payload();
    // PesExtension keeps its slice private; its derived Debug prints the bytes. The slice must be
    // the tail of the optional header (it ends at 3 + PES_header_data_length): it is located by
    // its length and compared byte for byte with the header bytes at that place.
    let extn = match c.pes_extension() {
        Ok(e) => {
            let dbg = format!("{:?}", e);
            let end = 3 + rest[2] as usize;
            // the derived Debug is `PesExtension { _buf: [a, b, ..] }`; if the formatting is ever
            // changed (the source says "TODO manual Debug") the bytes can no longer be read back and
            // the range is taken from the flags instead (Debug output is not part of any property)
            let parsed: Option<Vec<u8>> = match (dbg.find('['), dbg.rfind(']')) {
                (Some(a), Some(b)) if a < b && dbg.matches('[').count() == 1 => {
                    let inner = dbg[a + 1..b].trim();
                    if inner.is_empty() { Some(vec![]) } else { inner.split(',').map(|x| x.trim().parse::<u8>().ok()).collect() }
                }
                _ => None,
            };
            match parsed {
                Some(bytes) => {
                    if bytes.len() <= end && end <= rest.len() && rest[end - bytes.len()..end] == bytes[..] {
                        format!("ok:{}+{}", end - bytes.len(), bytes.len())
                    } else {
                        format!("ok:elsewhere:{}", hex(&bytes))
                    }
                }
                None => {
                    let f = rest[1];
                    let mut a = 3usize;
                    a += match f >> 6 { 2 => 5, 3 => 10, _ => 0 };
                    if f & 0x20 != 0 { a += 6 }
                    if f & 0x10 != 0 { a += 3 }
                    if f & 0x08 != 0 { a += 1 }
                    if f & 0x04 != 0 { a += 1 }
                    if f & 0x02 != 0 { a += 2 }
                    format!("ok:{}+{}", a, end - a)
                }
            }
        }
        Err(e) => f_pes_err(&e),
    };
    format!(
        "prio={} align={} cr={} orig={} ptsdts={} escr={} esrate={} trick={} aci={} crc={} extn={} pl={}",
        c.pes_priority(),
        fb(c.data_alignment_indicator() == DataAlignment::Aligned),
        fb(c.copyright() == Copyright::Undefined),
        fb(c.original_or_copy() == OriginalOrCopy::Original),
        f_ptsdts(&c.pts_dts()),
        f_pes_res(c.escr(), f_cref),
        f_pes_res(c.es_rate(), |r| { let bps = r.bytes_per_second(); format!("{}.{}", u32::from(r), bps) }),
        f_pes_res(c.dsm_trick_mode(), f_trick),
        f_pes_res(c.additional_copy_info(), |v| format!("{}", v)),
        f_pes_res(c.previous_pes_packet_crc(), |v| format!("{}", v)),
        extn,
        range_in(rest, pl)
    )
}

pub fn pes_len(h: &PesHeader<'_>) -> u16 {
    match h.pes_packet_length() {
        PesLength::Unbounded => 0,
        PesLength::Bounded(n) => n.get(),
    }
}

pub fn op_pes(buf: &[u8]) -> String {
    match PesHeader::from_bytes(buf) {
        None => "none".into(),
        Some(h) => {
            let sid = stream_id_u8(&h, buf);
            let len = pes_len(&h);
            match h.contents() {
                PesContents::Payload(rest) => format!("sid={} len={} c=payload:{}", sid, len, range_in(buf, rest)),
                PesContents::Parsed(None) => format!("sid={} len={} c=bad", sid, len),
                PesContents::Parsed(Some(c)) => {
                    format!("sid={} len={} c=parsed {}", sid, len, f_parsed(&c, &buf[6..]))
                }
            }
        }
    }
}

/// `StreamId` keeps its value private; compare against every constant and the Debug rendering
/// for the audio/video/unknown ranges.
pub fn stream_id_u8(h: &PesHeader<'_>, _buf: &[u8]) -> u8 {
    use mpeg2ts_reader::pes::StreamId;
    let s = h.stream_id();
    let named: [(StreamId, u8); 22] = [
        (StreamId::PROGRAM_STREAM_MAP, 0xbc),
        (StreamId::PRIVATE_STREAM1, 0xbd),
        (StreamId::PADDING_STREAM, 0xbe),
        (StreamId::PRIVATE_STREAM2, 0xbf),
        (StreamId::ECM_STREAM, 0xf0),
        (StreamId::EMM_STREAM, 0xf1),
        (StreamId::DSM_CC, 0xf2),
        (StreamId::ISO_13522_STREAM, 0xf3),
        (StreamId::H222_1_TYPE_A, 0xf4),
        (StreamId::H222_1_TYPE_B, 0xf5),
        (StreamId::H222_1_TYPE_C, 0xf6),
        (StreamId::H222_1_TYPE_D, 0xf7),
        (StreamId::H222_1_TYPE_E, 0xf8),
        (StreamId::ANCILLARY_STREAM, 0xf9),
        (StreamId::SL_PACKETIZED_STREAM, 0xfa),
        (StreamId::FLEX_MUX_STREAM, 0xfb),
        (StreamId::METADATA_STREAM, 0xfc),
        (StreamId::EXTENDED_STREAM_ID, 0xfd),
        (StreamId::RESERVED_DATA_STREAM, 0xfe),
        (StreamId::PROGRAM_STREAM_DIRECTORY, 0xff),
        (StreamId::PADDING_STREAM, 0xbe),
        (StreamId::PADDING_STREAM, 0xbe),
    ];
    for (k, v) in named.iter() {
        if *k == s {
            return *v;
        }
    }
    let d = format!("{:?}", s);
    let num = |p: &str| -> Option<u8> {
        d.strip_prefix(p).and_then(|r| r.strip_suffix(')')).and_then(|n| n.parse::<u8>().ok())
    };
    if let Some(n) = num("Audio(") {
        return 0xc0 | n;
    }
    if let Some(n) = num("Video(") {
        return 0xe0 | n;
    }
    if let Some(n) = num("Unknown(") {
        return n;
    }
    255
}

pub fn op_ts(buf: &[u8]) -> String {
    format!(
        "fb={} pts={} dts={}",
        f_ts_res(&Timestamp::from_bytes(buf)),
        f_ts_res(&Timestamp::from_pts_bytes(buf)),
        f_ts_res(&Timestamp::from_dts_bytes(buf))
    )
}

pub fn op_tsu64(v: u64) -> String {
    match std::panic::catch_unwind(|| Timestamp::from_u64(v).value()) {
        Ok(x) => format!("ok:{}", x),
        Err(_) => "refused".into(),
    }
}

pub fn op_wrap(a: u64, b: u64) -> String {
    // inputs are 33-bit values; construct through from_bytes-independent route
    let ta = Timestamp::from_u64(a);
    let tb = Timestamp::from_u64(b);
    fb(ta.likely_wrapped_since(tb)).to_string()
}

pub fn op_cref(base: u64, ext: u64) -> String {
    if ext > u16::MAX as u64 {
        return "refused".into(); // not representable as the argument type
    }
    match std::panic::catch_unwind(|| u64::from(ClockRef::from_parts(base, ext as u16))) {
        Ok(x) => format!("ok:{}", x),
        Err(_) => "refused".into(),
    }
}

pub fn op_crefs(buf: &[u8]) -> String {
    let c = ClockRef::from_slice(buf);
    format!("{}:{}:{}", c.base(), c.extension(), u64::from(c))
}

pub fn op_crc(buf: &[u8]) -> String {
    format!("{}", mpegts_crc::sum32(buf))
}

pub fn op_pat(buf: &[u8]) -> String {
    let s = PatSection::new(buf);
    let items: Vec<String> = s
        .programs()
        .map(|e| {
            // the public accessor `ProgramDescriptor::pid()` must agree with the variant's field
            let acc = if match e {
                ProgramDescriptor::Network { pid } | ProgramDescriptor::Program { pid, .. } => pid == e.pid(),
            } { "" } else { "!pid()" };
            match e {
                ProgramDescriptor::Network { pid } => format!("n:{}{}", u16::from(pid), acc),
                ProgramDescriptor::Program { program_number, pid } => format!("p:{}:{}{}", program_number, u16::from(pid), acc),
            }
        })
        .collect();
    if items.is_empty() {
        "-".into()
    } else {
        items.join(",")
    }
}

fn variant_name(d: &CoreDescriptors<'_>) -> String {
    let s = format!("{:?}", d);
    s.split('(').next().unwrap_or("").to_string()
}

fn unknown_of<'a>(d: &'a CoreDescriptors<'a>) -> Option<&'a UnknownDescriptor<'a>> {
    use CoreDescriptors::*;
    match d {
        Reserved(u) | VideoStream(u) | AudioStream(u) | Hierarchy(u) | DataStreamAlignment(u)
        | TargetBackgroundGrid(u) | VideoWindow(u) | CA(u) | SystemClock(u) | MultiplexBufferUtilization(u)
        | Copyright(u) | PrivateDataIndicator(u) | SmoothingBuffer(u) | STD(u) | IBP(u) | IsoIec13818dash6(u)
        | MPEG4Video(u) | MPEG4Audio(u) | IOD(u) | SL(u) | FMC(u) | ExternalESID(u) | MuxCode(u)
        | FmxBufferSize(u) | MultiplexBuffer(u) | MontentLabeling(u) | MetadataPointer(u) | Metadata(u)
        | MetadataStd(u) | IPMP(u) | AvcTimingAndHrd(u) | Mpeg2AacAudio(u) | FlexMuxTiming(u) | Mpeg4Text(u)
        | Mpeg4AudioExtension(u) | AuxiliaryVideoStream(u) | SvcExtension(u) | MvcExtension(u) | J2kVideo(u)
        | MvcOperationPoint(u) | Mpeg2StereoscopicVideoFormat(u) | StereoscopicProgramInfo(u)
        | StereoscopicVideoInfo(u) | TransportProfile(u) | HevcVideo(u) | Extension(u) | UserPrivate(u) => Some(u),
        Registration(_) | ISO639Language(_) | MaximumBitrate(_) | AvcVideo(_) => None,
    }
}

fn f_desc_item(r: Result<CoreDescriptors<'_>, DescriptorError>, raw: &[u8]) -> String {
    match r {
        Err(DescriptorError::NotEnoughData { .. }) => "err:ned".into(),
        Err(DescriptorError::TagTooLongForBuffer { .. }) => "err:toolong".into(),
        Err(DescriptorError::BufferTooShort { .. }) => "err:short".into(),
        Err(DescriptorError::UnhandledTagValue(_)) => "err:unhandled".into(),
        Ok(d) => {
            let name = variant_name(&d);
            // tag / payload: from the UnknownDescriptor where the variant carries one, else from
            // the raw descriptor bytes delimited by the iterator (typed variants keep them private;
            // their fields are printed below and pin the payload).
            let (tag, payload_hex) = match unknown_of(&d) {
                Some(u) => (u.tag, hex(u.payload)),
                None => (raw[0], hex(&raw[2..2 + raw[1] as usize])),
            };
            let base = format!("ok:{}:{}:{}", name, tag, payload_hex);
            match &d {
                CoreDescriptors::Registration(r) => {
                    // FormatIdentifier: compare via its 4 bytes
                    let fi = r.format_identifier();
                    let fi_bytes = fmt_id_bytes(&fi);
                    // `is_format` compares with `format_identifier()`: true for its own identifier,
                    // false for one that differs in the last byte
                    let other = mpeg2ts_reader::smptera::FormatIdentifier::from(&[fi_bytes[0], fi_bytes[1], fi_bytes[2], fi_bytes[3] ^ 1][..]);
                    let isf = if r.is_format(fi) && !r.is_format(other) { "" } else { "!is_format" };
                    format!("{}:{}:{}{}", base, hex(&fi_bytes), hex(r.additional_identification_info()), isf)
                }
                CoreDescriptors::ISO639Language(l) => {
                    let ls: Vec<String> = l
                        .languages()
                        .map(|x| match x {
                            Ok(lang) => {
                                let code = lang.code();
                                // every code point in full (latin1: byte b decodes to U+00b)
                                let cp: Vec<String> = code.chars().map(|c| format!("{:04x}", c as u32)).collect();
                                let at = match lang.audio_type() {
                                    AudioType::Undefined => 0,
                                    AudioType::CleanEffects => 1,
                                    AudioType::HearingImpaired => 2,
                                    AudioType::VisualImpairedCommentary => 3,
                                    AudioType::Reserved(v) => v,
                                };
                                format!("{}.{}", cp.join(""), at)
                            }
                            Err(mpeg2ts_reader::descriptor::iso_639_language::LangError::TooShort { actual }) => {
                                format!("short.{}", actual)
                            }
                        })
                        .collect();
                    format!("{}:{}", base, ls.join("/"))
                }
                CoreDescriptors::MaximumBitrate(m) => {
                    format!("{}:{}.{}", base, m.maximum_bitrate(), m.maximum_bits_per_second())
                }
                CoreDescriptors::AvcVideo(a) => format!(
                    "{}:{}.{}{}{}{}{}{}.{}.{}.{}{}{}",
                    base,
                    a.profile_idc(),
                    fb(a.constraint_set0_flag()),
                    fb(a.constraint_set1_flag()),
                    fb(a.constraint_set2_flag()),
                    fb(a.constraint_set3_flag()),
                    fb(a.constraint_set4_flag()),
                    fb(a.constraint_set5_flag()),
                    a.avc_compatible_flags(),
                    a.level_idc(),
                    fb(a.avc_still_present()),
                    fb(a.avc_24_hour_picture_flag()),
                    fb(a.frame_packing_sei_not_present_flag())
                ),
                _ => base,
            }
        }
    }
}

fn fmt_id_bytes(fi: &mpeg2ts_reader::smptera::FormatIdentifier) -> [u8; 4] {
    // FormatIdentifier is an enum with an Unknown(u32) fallback; its `From<&[u8]>`/`Into<u32>`?
    // Use the Debug-free route: try every registered constant is impractical, so rely on the
    // crate's conversion back to u32.
    let b: &[u8] = fi.into();
    [b[0], b[1], b[2], b[3]]
}

/// iterate a descriptor loop, keeping the raw bytes of each complete descriptor alongside
pub fn f_descs(buf: &[u8]) -> String {
    let mut items = vec![];
    let mut off = 0usize;
    for r in DescriptorIter::<CoreDescriptors<'_>>::new(buf) {
        // raw bytes of this item per the generic layout (only used for typed variants, which were
        // only produced if the iterator found a complete descriptor at `off`)
        let raw = &buf[off.min(buf.len())..];
        let adv = if raw.len() >= 2 && raw.len() >= 2 + raw[1] as usize { 2 + raw[1] as usize } else { raw.len() };
        items.push(f_desc_item(r, raw));
        off += adv;
    }
    if items.is_empty() {
        "-".into()
    } else {
        items.join(",")
    }
}

/// `CoreDescriptors::from_bytes` called directly (public API; the iterator checks the lengths before
/// it calls it, so the two error results for short buffers are only reachable this way)
pub fn op_descfb(buf: &[u8]) -> String {
    use mpeg2ts_reader::descriptor::Descriptor;
    f_desc_item(CoreDescriptors::from_bytes(buf), buf)
}

pub fn op_desc(buf: &[u8]) -> String {
    f_descs(buf)
}

pub fn op_pmt(buf: &[u8]) -> String {
    match PmtSection::from_bytes(buf) {
        Err(_) => "err".into(),
        Ok(s) => {
            let pil = (((buf[2] & 0x0f) as usize) << 8) | buf[3] as usize;
            let ds = f_descs_iter(s.descriptors::<CoreDescriptors<'_>>(), &buf[4..4 + pil]);
            let mut sts = vec![];
            for st in s.streams() {
                let raw = stream_desc_bytes(buf, &sts, pil);
                let d = f_descs_iter(st.descriptors::<CoreDescriptors<'_>>(), raw);
                sts.push(format!("{}:{}:[{}]", u8::from(st.stream_type()), u16::from(st.elementary_pid()), d));
            }
            format!("pcr={} desc=[{}] streams=[{}]", u16::from(s.pcr_pid()), ds, sts.join(";"))
        }
    }
}

/// descriptor bytes of the k-th stream entry (k = number already printed) per the PMT layout
fn stream_desc_bytes<'a>(buf: &'a [u8], done: &[String], pil: usize) -> &'a [u8] {
    let mut off = 4 + pil;
    for _ in 0..done.len() {
        let esil = (((buf[off + 3] & 0x0f) as usize) << 8) | buf[off + 4] as usize;
        off += 5 + esil;
    }
    let esil = (((buf[off + 3] & 0x0f) as usize) << 8) | buf[off + 4] as usize;
    &buf[off + 5..off + 5 + esil]
}

pub fn f_descs_iter<'a>(
    it: impl Iterator<Item = Result<CoreDescriptors<'a>, DescriptorError>>,
    raw_loop: &[u8],
) -> String {
    let mut items = vec![];
    let mut off = 0usize;
    for r in it {
        let raw = &raw_loop[off.min(raw_loop.len())..];
        let adv = if raw.len() >= 2 && raw.len() >= 2 + raw[1] as usize { 2 + raw[1] as usize } else { raw.len() };
        items.push(f_desc_item(r, raw));
        off += adv;
    }
    if items.is_empty() {
        "-".into()
    } else {
        items.join(",")
    }
}
