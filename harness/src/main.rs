//! Correspondence harness: runs the real mpeg2ts-reader code on the cases of the line protocol.
//!   harness run            stdin: `<id> <op> <args…>` lines; stdout: `<id> <canonical result>`
//!   harness gen <prop> <tier> <seed>   stdout: case lines

mod app;
mod gen;
mod ops;

use mpeg2ts_reader::demultiplex::{Demultiplex, PacketFilter};
use mpeg2ts_reader::packet::Packet;
use mpeg2ts_reader::pes::{ElementaryStreamConsumer, PesHeader, PesPacketFilter};
use mpeg2ts_reader::psi;
use ops::*;
use std::io::{BufRead, Write};
use std::panic::{catch_unwind, AssertUnwindSafe};

// ---------- counting allocator (C19) ----------
use std::alloc::{GlobalAlloc, Layout, System};
use std::sync::atomic::{AtomicIsize, AtomicUsize, Ordering};
pub static N_ALLOCS: AtomicUsize = AtomicUsize::new(0);
pub static LIVE_BYTES: AtomicIsize = AtomicIsize::new(0);
struct CountingAlloc;
unsafe impl GlobalAlloc for CountingAlloc {
    unsafe fn alloc(&self, l: Layout) -> *mut u8 {
        N_ALLOCS.fetch_add(1, Ordering::Relaxed);
        LIVE_BYTES.fetch_add(l.size() as isize, Ordering::Relaxed);
        System.alloc(l)
    }
    unsafe fn dealloc(&self, p: *mut u8, l: Layout) {
        LIVE_BYTES.fetch_sub(l.size() as isize, Ordering::Relaxed);
        System.dealloc(p, l)
    }
    unsafe fn realloc(&self, p: *mut u8, l: Layout, new_size: usize) -> *mut u8 {
        N_ALLOCS.fetch_add(1, Ordering::Relaxed);
        LIVE_BYTES.fetch_add(new_size as isize - l.size() as isize, Ordering::Relaxed);
        System.realloc(p, l, new_size)
    }
}
#[global_allocator]
static GLOBAL: CountingAlloc = CountingAlloc;

struct SinkLogger;
impl log::Log for SinkLogger {
    fn enabled(&self, _: &log::Metadata<'_>) -> bool {
        true
    }
    fn log(&self, record: &log::Record<'_>) {
        // evaluate and format the arguments exactly as a real logger would, then discard
        let s = format!("{}", record.args());
        std::hint::black_box(s.len());
    }
    fn flush(&self) {}
}
static LOGGER: SinkLogger = SinkLogger;

// ---------- sec op: raw section reassembly chains (no dedup / CRC) ----------

struct SecCtx {
    out: Vec<String>,
    pkt_idx: usize,
    pkt_addr: usize,
}
mpeg2ts_reader::demux_context!(NullCtx, NullF);
pub struct NullF;
impl PacketFilter for NullF {
    type Ctx = NullCtx;
    fn consume(&mut self, _: &mut NullCtx, _: &Packet<'_>) {}
}
impl NullCtx {
    fn do_construct(&mut self, _: mpeg2ts_reader::demultiplex::FilterRequest<'_, '_>) -> NullF {
        NullF
    }
}

fn sec_item(ctx: &mut SecCtx, data: &[u8]) {
    let a = data.as_ptr() as usize;
    if a >= ctx.pkt_addr && a + data.len() <= ctx.pkt_addr + 188 {
        ctx.out.push(format!("{}:in:{}+{}:{}", ctx.pkt_idx, a - ctx.pkt_addr, data.len(), hex(data)));
    } else {
        ctx.out.push(format!("{}:buf:{}", ctx.pkt_idx, hex(data)));
    }
}
struct SecSyntaxRec;
impl psi::WholeSectionSyntaxPayloadParser for SecSyntaxRec {
    type Context = SecCtx;
    fn section<'a>(
        &mut self,
        ctx: &mut SecCtx,
        _h: &psi::SectionCommonHeader,
        _t: &psi::TableSyntaxHeader<'a>,
        data: &'a [u8],
    ) {
        sec_item(ctx, data);
    }
}
struct SecCompactRec;
impl psi::WholeCompactSyntaxPayloadParser for SecCompactRec {
    type Context = SecCtx;
    fn section(&mut self, ctx: &mut SecCtx, _h: &psi::SectionCommonHeader, data: &[u8]) {
        sec_item(ctx, data);
    }
}

fn op_sec(kind: &str, pkts: &[Vec<u8>]) -> String {
    let mut ctx = SecCtx { out: vec![], pkt_idx: 0, pkt_addr: 0 };
    if kind == "t" {
        // the chain the library builds for PAT / PMT PIDs: version de-duplication, reassembly,
        // CRC gate; what reaches the table processor is recorded with its address (a section that
        // lies wholly in the packet that starts it must arrive as a slice of that packet)
        let mut c = psi::SectionPacketConsumer::new(psi::SectionSyntaxSectionProcessor::new(
            psi::DedupSectionSyntaxPayloadParser::new(psi::BufferSectionSyntaxParser::new(
                psi::CrcCheckWholeSectionSyntaxPayloadParser::new(SecSyntaxRec),
            )),
        ));
        for (i, p) in pkts.iter().enumerate() {
            ctx.pkt_idx = i;
            ctx.pkt_addr = p.as_ptr() as usize;
            c.consume(&mut ctx, &Packet::new(p));
        }
    } else if kind == "s" {
        let mut c = psi::SectionPacketConsumer::new(psi::SectionSyntaxSectionProcessor::new(
            psi::BufferSectionSyntaxParser::new(SecSyntaxRec),
        ));
        for (i, p) in pkts.iter().enumerate() {
            ctx.pkt_idx = i;
            ctx.pkt_addr = p.as_ptr() as usize;
            c.consume(&mut ctx, &Packet::new(p));
        }
    } else {
        let mut c = psi::SectionPacketConsumer::new(psi::CompactSyntaxSectionProcessor::new(
            psi::BufferCompactSyntaxParser::new(SecCompactRec),
        ));
        for (i, p) in pkts.iter().enumerate() {
            ctx.pkt_idx = i;
            ctx.pkt_addr = p.as_ptr() as usize;
            c.consume(&mut ctx, &Packet::new(p));
        }
    }
    if ctx.out.is_empty() {
        "-".into()
    } else {
        ctx.out.join(" ")
    }
}

// ---------- pesf op: PesPacketFilter alone ----------

struct PesfRec;
impl ElementaryStreamConsumer<app::HCtx> for PesfRec {
    fn start_stream(&mut self, ctx: &mut app::HCtx) {
        ctx.trace.push(format!("{}:start", ctx.next_tag));
    }
    fn begin_packet(&mut self, ctx: &mut app::HCtx, header: PesHeader<'_>) {
        // the header's own buffer is private: its start is 6 bytes before the `contents()` slice
        // and it extends to the end of the packet payload.
        let r = match header.contents() {
            mpeg2ts_reader::pes::PesContents::Payload(rest) => Some(rest.as_ptr() as usize),
            mpeg2ts_reader::pes::PesContents::Parsed(Some(c)) => {
                // parsed contents start at header+6; payload() starts 3+hdl later: use the packet end
                let pl = c.payload();
                Some(pl.as_ptr() as usize + pl.len())
            }
            mpeg2ts_reader::pes::PesContents::Parsed(None) => None,
        };
        let _ = r;
        // range is reported by the caller (op_pesf) from Packet::payload(), which is what
        // PesHeader::from_bytes was given
        ctx.trace.push(format!("{}:begin", ctx.next_tag));
    }
    fn continue_packet(&mut self, ctx: &mut app::HCtx, data: &[u8]) {
        let a = data.as_ptr() as usize - ctx.base;
        ctx.trace.push(format!("{}:cont:{}+{}", ctx.next_tag, a, data.len()));
    }
    fn end_packet(&mut self, ctx: &mut app::HCtx) {
        ctx.trace.push(format!("{}:end", ctx.next_tag));
    }
    fn continuity_error(&mut self, ctx: &mut app::HCtx) {
        ctx.trace.push(format!("{}:ccerr", ctx.next_tag));
    }
}

fn op_pesf(pkts: &[Vec<u8>]) -> String {
    let mut ctx = app::HCtx::new(app::Cfg::default(), 0, 0);
    let mut f = PesPacketFilter::new(PesfRec);
    for (i, p) in pkts.iter().enumerate() {
        ctx.next_tag = i; // used as the packet index by PesfRec
        ctx.base = p.as_ptr() as usize;
        let pk = Packet::new(p);
        let before = ctx.trace.len();
        f.consume(&mut ctx, &pk);
        // attach the header range (= the packet payload) to a `begin` event
        for e in ctx.trace[before..].iter_mut() {
            if e.ends_with(":begin") {
                if let Some(pl) = pk.payload() {
                    e.push_str(&format!(":{}", range_in(p, pl)));
                }
            }
        }
    }
    if ctx.trace.is_empty() {
        "-".into()
    } else {
        ctx.trace.join(" ")
    }
}

// ---------- demux op ----------

pub fn run_demux(cfg: &app::Cfg, pushes: &[Vec<u8>]) -> Vec<String> {
    let mut all: Vec<u8> = vec![];
    for p in pushes {
        all.extend_from_slice(p);
    }
    let mut ctx = app::HCtx::new(cfg.clone(), all.as_ptr() as usize, all.len());
    let mut d = Demultiplex::new(&mut ctx);
    let mut off = 0;
    for p in pushes {
        d.push(&mut ctx, &all[off..off + p.len()]);
        off += p.len();
    }
    ctx.trace
}

/// `demuxq`: as `demux`, for configurations with a construct script; also reports whether the
/// changeset is empty when the last push returns
pub fn run_demux_q(cfg: &app::Cfg, pushes: &[Vec<u8>]) -> Vec<String> {
    use mpeg2ts_reader::demultiplex::DemuxContext;
    let mut all: Vec<u8> = vec![];
    for p in pushes {
        all.extend_from_slice(p);
    }
    let mut ctx = app::HCtx::new(cfg.clone(), all.as_ptr() as usize, all.len());
    let mut d = Demultiplex::new(&mut ctx);
    let mut off = 0;
    for p in pushes {
        d.push(&mut ctx, &all[off..off + p.len()]);
        off += p.len();
    }
    let pending = if ctx.filter_changeset().is_empty() { 0 } else { 1 };
    let mut t = ctx.trace;
    t.push(format!("pending={}", pending));
    t
}

fn op_demux_q(cfg: &str, pushes: &[Vec<u8>]) -> String {
    let cfg = match app::parse_cfg(cfg) {
        Some(c) => c,
        None => return "bad-op".into(),
    };
    if cfg.bypass_crc != cfg!(fuzzing) {
        return "SKIP".into();
    }
    run_demux_q(&cfg, pushes).join(" ")
}

fn op_cuts_q(cfg: &str, stream: &[u8], masks: &str) -> String {
    let cfg = match app::parse_cfg(cfg) {
        Some(c) => c,
        None => return "bad-op".into(),
    };
    let whole = run_demux_q(&cfg, &[stream.to_vec()]).join(" ");
    let mut out = vec![];
    for m in masks.split(',') {
        let t = run_demux_q(&cfg, &split_by_mask(stream, m)).join(" ");
        out.push(if t == whole { "same" } else { "diff" });
    }
    out.join(",")
}

fn op_demux(cfg: &str, pushes: &[Vec<u8>]) -> String {
    let cfg = match app::parse_cfg(cfg) {
        Some(c) => c,
        None => return "bad-op".into(),
    };
    if cfg.bypass_crc != cfg!(fuzzing) {
        return "SKIP".into();
    }
    run_demux(&cfg, pushes).join(" ")
}

/// bit `j` of the hexadecimal number `mask` (least significant bit = bit 0)
fn mask_bit(mask: &str, j: usize) -> bool {
    let b = mask.as_bytes();
    let n = j / 4;
    if n >= b.len() {
        return false;
    }
    let c = b[b.len() - 1 - n];
    let v = match c {
        b'0'..=b'9' => c - b'0',
        b'a'..=b'f' => c - b'a' + 10,
        _ => 0,
    };
    (v >> (j % 4)) & 1 == 1
}

/// split a packet-aligned stream after packet j for every set bit j of the mask
pub fn split_by_mask(stream: &[u8], mask: &str) -> Vec<Vec<u8>> {
    let n = stream.len() / 188;
    let mut pushes = vec![];
    let mut start = 0;
    for j in 0..n {
        if j + 1 < n && mask_bit(mask, j) {
            pushes.push(stream[start..(j + 1) * 188].to_vec());
            start = (j + 1) * 188;
        }
    }
    pushes.push(stream[start..].to_vec());
    pushes
}

fn op_cuts(cfg: &str, stream: &[u8], masks: &str) -> String {
    let cfg = match app::parse_cfg(cfg) {
        Some(c) => c,
        None => return "bad-op".into(),
    };
    let whole = run_demux(&cfg, &[stream.to_vec()]).join(" ");
    let mut out = vec![];
    for m in masks.split(',') {
        let t = run_demux(&cfg, &split_by_mask(stream, m)).join(" ");
        out.push(if t == whole { "same" } else { "diff" });
    }
    out.join(",")
}

/// `steady <cfg> <warm-up> <steady push>…`: heap allocations performed by each steady-state push
/// (application callbacks in quiet mode allocate nothing, the log level is Off as in a build
/// without a logger), and slices delivered that do not lie inside the pushed buffer
fn op_steady(cfg: &str, pushes: &[Vec<u8>]) -> String {
    let cfg = match app::parse_cfg(cfg) {
        Some(c) => c,
        None => return "bad-op".into(),
    };
    let mut all: Vec<u8> = vec![];
    for p in pushes {
        all.extend_from_slice(p);
    }
    let mut ctx = app::HCtx::new(cfg, all.as_ptr() as usize, all.len());
    ctx.quiet = true;
    log::set_max_level(log::LevelFilter::Off);
    let mut d = Demultiplex::new(&mut ctx);
    let mut off = 0;
    let mut counts = Vec::with_capacity(pushes.len() + 1);
    let mut constructs = Vec::with_capacity(pushes.len() + 1);
    for (i, p) in pushes.iter().enumerate() {
        let c0 = ctx.n_construct;
        let a0 = N_ALLOCS.load(Ordering::Relaxed);
        d.push(&mut ctx, &all[off..off + p.len()]);
        let a1 = N_ALLOCS.load(Ordering::Relaxed);
        off += p.len();
        if i > 0 {
            counts.push(a1 - a0);
            constructs.push(ctx.n_construct - c0);
        }
    }
    log::set_max_level(log::LevelFilter::Trace);
    let s = |v: &Vec<usize>| v.iter().map(|x| x.to_string()).collect::<Vec<_>>().join(",");
    format!("allocs={} constructs={} copied={}", s(&counts), s(&constructs), ctx.n_copied)
}

/// `retain <cfg> <block> <rounds>`: push the same block `rounds` times; live heap bytes must reach a
/// plateau (retained memory independent of input length)
fn op_retain(cfg: &str, block: &[u8], rounds: usize) -> String {
    let cfg = match app::parse_cfg(cfg) {
        Some(c) => c,
        None => return "bad-op".into(),
    };
    let mut ctx = app::HCtx::new(cfg, block.as_ptr() as usize, block.len());
    ctx.quiet = true;
    log::set_max_level(log::LevelFilter::Off);
    let mut d = Demultiplex::new(&mut ctx);
    let mut live = Vec::with_capacity(rounds + 1);
    for _ in 0..rounds {
        d.push(&mut ctx, block);
        live.push(LIVE_BYTES.load(Ordering::Relaxed));
    }
    log::set_max_level(log::LevelFilter::Trace);
    let half = live[rounds / 2];
    let last = live[rounds - 1];
    if last <= half {
        "plateau".into()
    } else {
        format!("grow:{}", last - half)
    }
}

/// `secsteady <s|c> <warm> <packets…>`: a section consumer built from the public psi layers WITHOUT
/// the de-duplication layer (an SDT/EIT-style application filter); heap allocations performed
/// after the first `warm` packets, and the number of sections delivered
struct CountSyntax(usize);
impl psi::WholeSectionSyntaxPayloadParser for CountSyntax {
    type Context = ();
    fn section<'a>(&mut self, _: &mut (), _h: &psi::SectionCommonHeader, _t: &psi::TableSyntaxHeader<'a>, data: &'a [u8]) {
        self.0 += 1;
        std::hint::black_box(data.len());
    }
}
struct CountCompact(usize);
impl psi::WholeCompactSyntaxPayloadParser for CountCompact {
    type Context = ();
    fn section(&mut self, _: &mut (), _h: &psi::SectionCommonHeader, data: &[u8]) {
        self.0 += 1;
        std::hint::black_box(data.len());
    }
}
fn op_secsteady(kind: &str, warm: usize, pkts: &[Vec<u8>]) -> String {
    log::set_max_level(log::LevelFilter::Off);
    let mut ctx = ();
    let (allocs, delivered);
    if kind == "s" {
        let mut c = psi::SectionPacketConsumer::new(psi::SectionSyntaxSectionProcessor::new(
            psi::BufferSectionSyntaxParser::new(CountSyntax(0)),
        ));
        for p in pkts.iter().take(warm) {
            c.consume(&mut ctx, &Packet::new(p));
        }
        let a0 = N_ALLOCS.load(Ordering::Relaxed);
        for p in pkts.iter().skip(warm) {
            c.consume(&mut ctx, &Packet::new(p));
        }
        allocs = N_ALLOCS.load(Ordering::Relaxed) - a0;
        delivered = 0usize; // counted by the model side only for the buffered chain; see below
        let _ = delivered;
    } else {
        let mut c = psi::SectionPacketConsumer::new(psi::CompactSyntaxSectionProcessor::new(
            psi::BufferCompactSyntaxParser::new(CountCompact(0)),
        ));
        for p in pkts.iter().take(warm) {
            c.consume(&mut ctx, &Packet::new(p));
        }
        let a0 = N_ALLOCS.load(Ordering::Relaxed);
        for p in pkts.iter().skip(warm) {
            c.consume(&mut ctx, &Packet::new(p));
        }
        allocs = N_ALLOCS.load(Ordering::Relaxed) - a0;
    }
    log::set_max_level(log::LevelFilter::Trace);
    format!("allocs={}", allocs)
}

fn step(rest: &str) -> String {
    let mut it = rest.split(' ');
    let op = it.next().unwrap_or("");
    let args: Vec<&str> = it.collect();
    match (op, args.len()) {
        ("pkt", 1) => op_pkt(&unhex(args[0])),
        ("af", 1) => op_af(&unhex(args[0])),
        ("pes", 1) => op_pes(&unhex(args[0])),
        ("ts", 1) => op_ts(&unhex(args[0])),
        ("tsu64", 1) => args[0].parse::<u128>().map(|v| if v > u64::MAX as u128 { "refused".into() } else { op_tsu64(v as u64) }).unwrap_or("bad-op".into()),
        ("wrap", 2) => match (args[0].parse::<u64>(), args[1].parse::<u64>()) {
            (Ok(a), Ok(b)) => op_wrap(a, b),
            _ => "bad-op".into(),
        },
        ("cref", 2) => match (args[0].parse::<u64>(), args[1].parse::<u64>()) {
            (Ok(a), Ok(b)) => op_cref(a, b),
            _ => "bad-op".into(),
        },
        ("crefs", 1) => op_crefs(&unhex(args[0])),
        ("pidtry", 1) => match args[0].parse::<u64>() {
            Ok(v) if v <= u16::MAX as u64 => {
                use std::convert::TryFrom;
                match mpeg2ts_reader::packet::Pid::try_from(v as u16) {
                    Ok(p) => format!("ok:{}", u16::from(p)),
                    Err(()) => "err".into(),
                }
            }
            Ok(_) => "err".into(), // not representable as the argument type
            Err(_) => "bad-op".into(),
        },
        ("pidnew", 1) => match args[0].parse::<u64>() {
            Ok(v) if v <= u16::MAX as u64 => {
                match catch_unwind(|| u16::from(mpeg2ts_reader::packet::Pid::new(v as u16))) {
                    Ok(p) => format!("ok:{}", p),
                    Err(_) => "refused".into(),
                }
            }
            Ok(_) => "refused".into(),
            Err(_) => "bad-op".into(),
        },
        ("ccnew", 1) => match args[0].parse::<u64>() {
            Ok(v) if v <= u8::MAX as u64 => {
                match catch_unwind(|| mpeg2ts_reader::packet::ContinuityCounter::new(v as u8).count()) {
                    Ok(p) => format!("ok:{}", p),
                    Err(_) => "refused".into(),
                }
            }
            Ok(_) => "refused".into(),
            Err(_) => "bad-op".into(),
        },
        ("ccf", 2) => match (args[0].parse::<u8>(), args[1].parse::<u8>()) {
            (Ok(a), Ok(b)) if a < 16 && b < 16 => {
                use mpeg2ts_reader::packet::ContinuityCounter;
                // `a.follows(b)`; `From<u8>` is the other public constructor: must agree with `new`
                let x = ContinuityCounter::new(a);
                let y = ContinuityCounter::from(b);
                format!("{}{}", fb(x.follows(y)), if y.count() == b && x.count() == a { "" } else { "!count" })
            }
            _ => "bad-op".into(),
        },
        ("tsh", 1) => {
            let b = unhex(args[0]);
            let t = psi::TableSyntaxHeader::new(&b);
            let s = format!("{:?}", t);
            std::hint::black_box(s.len());
            format!(
                "id={} ver={} cur={} sn={} lsn={}",
                t.id(),
                t.version(),
                fb(t.current_next_indicator() == psi::CurrentNext::Current),
                t.section_number(),
                t.last_section_number()
            )
        }
        ("sch", 1) => {
            let b = unhex(args[0]);
            let h = psi::SectionCommonHeader::new(&b);
            format!("tid={} syn={} priv={} len={}", h.table_id, fb(h.section_syntax_indicator), fb(h.private_indicator), h.section_length)
        }
        ("crc", 1) => op_crc(&unhex(args[0])),
        ("pat", 1) => op_pat(&unhex(args[0])),
        ("pmt", 1) => op_pmt(&unhex(args[0])),
        ("desc", 1) => op_desc(&unhex(args[0])),
        ("descfb", 1) => op_descfb(&unhex(args[0])),
        ("sec", n) if n >= 1 => {
            let pk: Vec<Vec<u8>> = args[1..].iter().map(|h| unhex(h)).collect();
            op_sec(args[0], &pk)
        }
        ("pesf", _) => {
            let pk: Vec<Vec<u8>> = args.iter().map(|h| unhex(h)).collect();
            op_pesf(&pk)
        }
        ("steady", n) if n >= 2 => {
            let pk: Vec<Vec<u8>> = args[1..].iter().map(|h| unhex(h)).collect();
            op_steady(args[0], &pk)
        }
        ("secsteady", n) if n >= 2 => {
            let pk: Vec<Vec<u8>> = args[2..].iter().map(|h| unhex(h)).collect();
            op_secsteady(args[0], args[1].parse::<usize>().unwrap_or(0), &pk)
        }
        ("retain", 3) => op_retain(args[0], &unhex(args[1]), args[2].parse::<usize>().unwrap_or(8).max(2)),
        ("cuts", 3) => op_cuts(args[0], &unhex(args[1]), args[2]),
        ("cutsq", 3) => op_cuts_q(args[0], &unhex(args[1]), args[2]),
        ("demuxq", n) if n >= 1 => {
            let pk: Vec<Vec<u8>> = args[1..].iter().map(|h| unhex(h)).collect();
            op_demux_q(args[0], &pk)
        }
        ("demux", n) if n >= 1 => {
            let pk: Vec<Vec<u8>> = args[1..].iter().map(|h| unhex(h)).collect();
            op_demux(args[0], &pk)
        }
        _ => "bad-op".into(),
    }
}

fn main() {
    let argv: Vec<String> = std::env::args().collect();
    let _ = log::set_logger(&LOGGER);
    log::set_max_level(log::LevelFilter::Trace);
    std::panic::set_hook(Box::new(|_| {}));
    match argv.get(1).map(|s| s.as_str()) {
        Some("run") => {
            let stdin = std::io::stdin();
            let stdout = std::io::stdout();
            let mut out = std::io::BufWriter::with_capacity(1 << 20, stdout.lock());
            let mut n_done = 0usize;
            for line in stdin.lock().lines() {
                n_done += 1;
                if n_done % 64 == 0 {
                    out.flush().unwrap();
                }
                let line = line.unwrap();
                let line = line.trim();
                if line.is_empty() {
                    continue;
                }
                let (id, rest) = match line.find(' ') {
                    Some(i) => (&line[..i], &line[i + 1..]),
                    None => (line, ""),
                };
                let r = catch_unwind(AssertUnwindSafe(|| step(rest))).unwrap_or_else(|_| "PANIC".to_string());
                writeln!(out, "{} {}", id, r).unwrap();
            }
            out.flush().unwrap();
        }
        Some("gen") => {
            let prop = argv.get(2).expect("prop");
            let tier = argv.get(3).map(|s| s.as_str()).unwrap_or("quick");
            let seed = argv.get(4).and_then(|s| s.parse::<u64>().ok()).unwrap_or(1);
            let stdout = std::io::stdout();
            let mut out = std::io::BufWriter::with_capacity(1 << 20, stdout.lock());
            gen::generate(prop, tier, seed, &mut out);
            out.flush().unwrap();
        }
        _ => {
            eprintln!("usage: harness run | gen <prop> <tier> <seed>");
            std::process::exit(2);
        }
    }
}
