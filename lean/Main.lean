import Ts.Basic
import Ts.Model.Packet
import Ts.Model.Time
import Ts.Model.Af
import Ts.Model.Pes
import Ts.Model.PesFilter
import Ts.Model.Crc
import Ts.Model.Psi
import Ts.Model.Tables
import Ts.Model.Demux
import Ts.Model.App
import Ts.Model.AppQ
import Ts.Model.Values
import Ts.Gen.Consts
/-!
# Line-protocol driver: one op per line in, one canonical result line out.

The Rust harness (`/verif/harness`) prints the same canonical text from the real code.
-/
open Ts

def fb (b : Bool) : String := if b then "1" else "0"
def fr : Option (Nat × Nat) → String
  | some (o, l) => s!"{o}+{l}"
  | none => "none"
def hx (b : Bytes) : String := if b.isEmpty then "-" else hexOfBytes b
/-- a code point as four hex digits -/
def hx4 (n : Nat) : String :=
  String.ofList [hexDigit (n / 4096 % 16), hexDigit (n / 256 % 16), hexDigit (n / 16 % 16), hexDigit (n % 16)]
/-- the number the harness prints for an `AudioType` variant -/
def audioTypeNum : Tables.AudioType → Nat
  | .undefined => 0 | .cleanEffects => 1 | .hearingImpaired => 2 | .visualImpairedCommentary => 3
  | .reserved v => v

def rOut {α} (r : R α) (f : α → String) : String :=
  match r with
  | .ok a => f a
  | .panic _ => "PANIC"

/-- run an `R String` computation -/
def runS (r : R String) : String := rOut r id

/-! ### pkt -/
def opPkt (p : Bytes) : R String := do
  match ← Packet.tryNew p with
  | none => pure "nosync"
  | some _ =>
  let tei ← Packet.tei p; let pusi ← Packet.pusi p; let prio ← Packet.prio p; let pid ← Packet.pid p
  let b3 ← Packet.byte3 p
  let cc ← Packet.cc p
  let af ← Packet.afRange p
  let pl ← Packet.payloadRange p
  let afc := (if Packet.hasAf b3 then 2 else 0) + (if Packet.hasPayload b3 then 1 else 0)
  pure s!"tei={fb tei} pusi={fb pusi} prio={fb prio} pid={pid} scr={fb (Packet.isScrambled b3)} scheme={Packet.scheme b3} afc={afc} cc={cc} af={fr af} pl={fr pl} aceq=1 tsceq=1"

/-! ### af -/
def fTsErr : Time.TsErr → String
  | .incorrectPrefix e a => s!"p{e}.{a}"
  | .markerBitNotSet b => s!"m{b}"
def fTsRes : Time.TsRes → String
  | .ok v => s!"{v}"
  | .error e => fTsErr e
def fAfErr : Af.AfErr → String
  | .fieldNotPresent => "absent"
  | .notEnoughData => "short"
  | .spliceTimestampError e => s!"tserr:{fTsErr e}"
def fAfRes {α} (f : α → String) : Af.Res α → String
  | .ok v => "ok:" ++ f v
  | .error e => fAfErr e
def fCref (c : Time.ClockRef) : String := s!"{c.base}:{c.ext}"

def opAf (buf : Bytes) : R String := do
  let a ← Af.new buf
  let disc ← Af.discontinuity a; let rai ← Af.randomAccess a; let espi ← Af.esPriority a
  let pcr ← Af.pcr a; let opcr ← Af.opcr a; let sp ← Af.spliceCountdown a; let pv ← Af.privateData a
  let ext ← Af.extension a
  let (ltw, pw, ss) ← (match ext with
    | .ok e => do
      let l ← Af.ltwOffset e; let p ← Af.piecewiseRate e; let s ← Af.seamlessSplice e
      pure (fAfRes (fun o => match o with | some v => s!"{v}" | none => "none") l,
            fAfRes (fun v => s!"{v}") p, fAfRes (fun (v : Nat × Nat) => s!"{v.1}:{v.2}") s)
    | .error _ => pure ("na", "na", "na") : R (String × String × String))
  pure s!"disc={fb disc} rai={fb rai} espi={espi} pcr={fAfRes fCref pcr} opcr={fAfRes fCref opcr} splice={fAfRes (fun v => s!"{v}") sp} priv={fAfRes hx pv} ext={fAfRes hx ext} ltw={ltw} pw={pw} ss={ss}"

/-! ### pes -/
def fPesErr : Pes.PesErr → String
  | .fieldNotPresent => "absent"
  | .ptsDtsFlagsInvalid => "invalid"
  | .notEnoughData => "short"
  | .markerBitNotSet => "marker"
def fPesRes {α} (f : α → String) : Pes.Res α → String
  | .ok v => "ok:" ++ f v
  | .error e => fPesErr e
def fPtsDts : Pes.Res Pes.PtsDts → String
  | .ok (.ptsOnly p) => s!"pts:{fTsRes p}"
  | .ok (.both p d) => s!"both:{fTsRes p}:{fTsRes d}"
  | .error e => fPesErr e
def fTrick : Pes.Trick → String
  | .fastForward f i q => s!"ff:{f}:{fb i}:{q}"
  | .slowMotion r => s!"sm:{r}"
  | .freezeFrame f r => s!"fz:{f}:{r}"
  | .fastReverse f i q => s!"fr:{f}:{fb i}:{q}"
  | .slowReverse r => s!"sr:{r}"
  | .reserved r => s!"rs:{r}"

def fParsed (c : Bytes) : R String := do
  let prio ← Pes.pesPriority c; let al ← Pes.dataAlignment c; let cr ← Pes.copyrightUndefined c; let orig ← Pes.original c
  let pd ← Pes.ptsDts c; let escr ← Pes.escr c; let er ← Pes.esRate c; let tr ← Pes.dsmTrickMode c
  let aci ← Pes.additionalCopyInfo c; let crc ← Pes.previousCrc c; let ex ← Pes.pesExtension c
  let po ← Pes.payloadOffset c
  pure s!"prio={prio} align={fb al} cr={fb cr} orig={fb orig} ptsdts={fPtsDts pd} escr={fPesRes fCref escr} esrate={fPesRes (fun v => s!"{v}.{Pes.bytesPerSecond v}") er} trick={fPesRes fTrick tr} aci={fPesRes (fun v => s!"{v}") aci} crc={fPesRes (fun v => s!"{v}") crc} extn={fPesRes (fun (v : Nat × Nat) => s!"{v.1}+{v.2}") ex} pl={po}+{c.length - po}"

def opPes (buf : Bytes) : R String := do
  match ← Pes.headerFromBytes buf with
  | none => pure "none"
  | some h => do
    let sid ← Pes.streamId h; let len ← Pes.pesPacketLength h
    match ← Pes.contents h with
    | .payload rest => pure s!"sid={sid} len={len} c=payload:6+{rest.length}"
    | .parsed none => pure s!"sid={sid} len={len} c=bad"
    | .parsed (some c) => do
      let s ← fParsed c
      pure s!"sid={sid} len={len} c=parsed {s}"

/-! ### timestamps -/
def opTs (buf : Bytes) : R String := do
  let a ← Time.fromBytes buf; let b ← Time.fromPtsBytes buf; let c ← Time.fromDtsBytes buf
  pure s!"fb={fTsRes a} pts={fTsRes b} dts={fTsRes c}"

def opTsU64 (v : Nat) : String :=
  match Time.fromU64 Ts.Gen.tsFromU64Bound v with
  | .ok x => s!"ok:{x}"
  | .panic _ => "refused"

def opCref (b e : Nat) : String :=
  match (do let c ← Time.crefFromParts b e; Time.crefTo27MHz c : R Nat) with
  | .ok x => s!"ok:{x}"
  | .panic _ => "refused"

def opCrefs (buf : Bytes) : R String := do
  let c ← Time.crefFromSlice buf
  let v ← Time.crefTo27MHz c
  pure s!"{c.base}:{c.ext}:{v}"

/-! ### tables -/
def fPat (es : List Tables.PatEntry) : String :=
  if es.isEmpty then "-" else
  ",".intercalate (es.map fun
    | .network p => s!"n:{p}"
    | .program n p => s!"p:{n}:{p}")

def fLang : Tables.LangItem → String
  | .lang code at_ => s!"{String.join ((Tables.langCodePoints code).map hx4)}.{audioTypeNum (Tables.audioTypeOf at_)}"
  | .tooShort n => s!"short.{n}"

def fDescItem : Tables.DescItem → R String
  | .err .notEnoughData => pure "err:ned"
  | .err .tagTooLongForBuffer => pure "err:toolong"
  | .err .bufferTooShort => pure "err:short"
  | .ok tag payload => do
    let base := s!"ok:{Tables.variantName tag}:{tag}:{hx payload}"
    if tag == 5 then do
      let (f, a) ← Tables.regFields payload
      pure s!"{base}:{hx f}:{hx a}"
    else if tag == 10 then do
      let ls ← Tables.languagesAll payload
      pure s!"{base}:{"/".intercalate (ls.map fLang)}"
    else if tag == 14 then do
      let (r, bps) ← Tables.maxBitrateFields payload
      pure s!"{base}:{r}.{bps}"
    else if tag == 40 then do
      let a ← Tables.avcFields payload
      pure s!"{base}:{a.profileIdc}.{fb a.cs0}{fb a.cs1}{fb a.cs2}{fb a.cs3}{fb a.cs4}{fb a.cs5}.{a.compat}.{a.levelIdc}.{fb a.still}{fb a.h24}{fb a.fpSei}"
    else pure base

def fDescs (b : Bytes) : R String := do
  let items ← Tables.descIterAll b
  let ss ← items.mapM fDescItem
  pure (if ss.isEmpty then "-" else ",".intercalate ss)

def opPmt (data : Bytes) : R String := do
  match ← Tables.pmtFromBytes data with
  | none => pure "err"
  | some sect => do
    let pcr ← Tables.pmtPcrPid sect
    let db ← Tables.pmtDescriptorBytes sect
    let ds ← fDescs db
    let ss ← Tables.pmtStreams sect
    let sts ← ss.mapM (fun s => do let d ← fDescs s.descBytes; pure s!"{s.streamType}:{s.pid}:[{d}]")
    pure s!"pcr={pcr} desc=[{ds}] streams=[{";".intercalate sts}]"

/-! ### sec / pesf -/
def opSec (cfg : Psi.Cfg) (pkts : List Bytes) : R String := do
  let (_, dss) ← Psi.run cfg {} pkts
  let rec go (i : Nat) : List (List Psi.Delivery) → List String
    | [] => []
    | ds :: rest => (ds.map fun d =>
        match d.inplace with
        | some o => s!"{i}:in:{o}+{d.bytes.length}:{hx d.bytes}"
        | none => s!"{i}:buf:{hx d.bytes}") ++ go (i+1) rest
  let items := go 0 dss
  pure (if items.isEmpty then "-" else " ".intercalate items)

/-- `sec t`: the PAT/PMT chain (de-duplication, reassembly, CRC gate; release build): what reaches the
table processor, with where it lies -/
def opSecTable (pkts : List Bytes) : R String := do
  let (_, dss) ← Psi.run Psi.table {} pkts
  let rec go (i : Nat) : List (List Psi.Delivery) → R (List String)
    | [] => pure []
    | ds :: rest => do
      let mut here : List String := []
      for d in ds do
        let ok ← Psi.crcPass false d.bytes
        if ok then
          here := here ++ [match d.inplace with
            | some o => s!"{i}:in:{o}+{d.bytes.length}:{hx d.bytes}"
            | none => s!"{i}:buf:{hx d.bytes}"]
      let tl ← go (i+1) rest
      pure (here ++ tl)
  let items ← go 0 dss
  pure (if items.isEmpty then "-" else " ".intercalate items)

def fPesfEv (i : Nat) : PesFilter.Ev → String
  | .start => s!"{i}:start"
  | .beginPkt o l => s!"{i}:begin:{o}+{l}"
  | .cont o l => s!"{i}:cont:{o}+{l}"
  | .endPkt => s!"{i}:end"
  | .ccErr => s!"{i}:ccerr"

def opPesf (pkts : List Bytes) : R String := do
  let (_, evs) ← PesFilter.run {} pkts
  let rec go (i : Nat) : List (List PesFilter.Ev) → List String
    | [] => []
    | es :: rest => es.map (fPesfEv i) ++ go (i+1) rest
  let items := go 0 evs
  pure (if items.isEmpty then "-" else " ".intercalate items)

/-! ### demux -/
def fReq : App.Req → String
  | .byPid p => s!"bypid:{p}"
  | .pmt p n => s!"pmt:{p}:{n}"
  | .nit p => s!"nit:{p}"
  | .stream pp st p pcr ed pd => s!"stream:{pp}:{st}:{p}:{pcr}:{hx ed}:{hx pd}"

def fEv : App.Ev → String
  | .construct r t => s!"C:{fReq r}>{t}"
  | .scriptIns p t => s!"S:ins:{p}>{t}"
  | .scriptRem p => s!"S:rem:{p}"
  | .pkt t o => s!"P:{t}@{o}"
  | .esStart t => s!"E:{t}:start"
  | .esBegin t bi =>
    let k := if bi.kind == 0 then "payload" else if bi.kind == 1 then "parsed" else "bad"
    let pd := match bi.ptsDts with | some r => fPtsDts r | none => "na"
    s!"E:{t}:begin:{bi.sid}:{bi.len}:{k}:{pd}:{fr bi.pl}"
  | .esCont t o l => s!"E:{t}:cont:{o}+{l}"
  | .esEnd t => s!"E:{t}:end"
  | .esCcErr t => s!"E:{t}:ccerr"

def parseScriptOp (s : String) : Option App.ScriptOp :=
  match s.toList with
  | 'i' :: r => (String.ofList r).toNat?.map App.ScriptOp.ins
  | 'r' :: r => (String.ofList r).toNat?.map App.ScriptOp.rem
  | _ => none

/-- `b<0|1>t<0|1>[;k:op,op…]…` -/
def parseCfg (s : String) : Option App.Cfg :=
  match s.splitOn ";" with
  | [] => none
  | hd :: entries =>
    match hd.toList with
    | ['b', b, 't', t] =>
      let script := entries.filterMap fun e =>
        match e.splitOn ":" with
        | [k, ops] => match k.toNat? with
          | some kn => some (kn, (ops.splitOn ",").filterMap parseScriptOp)
          | none => none
        | _ => none
      some { bypassCrc := b == '1', touch := t == '1', script := script }
    | _ => none

def opDemux (cfg : App.Cfg) (pushes : List Bytes) : String :=
  match App.runApp cfg pushes with
  | .panic _ => "PANIC"
  | .ok (_, c) =>
    let evs := c.trace.reverse.map fEv
    " ".intercalate evs

/-! ### C19: steady state -/
def psiStates (t : Demux.Tab App.Handler) : List (Bytes × Option Nat) :=
  t.filterMap fun
    | some (.pat s _) => some (s.buf, s.remaining)
    | some (.pmt _ _ s _) => some (s.buf, s.remaining)
    | _ => none

/-- model-level allocation-relevant activity of one push: handler constructions, table growth,
section-buffer writes (the only `Vec`/bitset operations of the library) -/
def pushActivity (before after : Demux.Tab App.Handler × App.Ctx) : Nat × Nat :=
  let constructs := after.2.nextTag - before.2.nextTag
  let grow := after.1.length - before.1.length
  let bufs := if psiStates before.1 == psiStates after.1 then 0 else 1
  (constructs + grow + bufs, constructs)

def opSteady (cfg : App.Cfg) (pushes : List Bytes) : String :=
  let rec go (tc : Demux.Tab App.Handler × App.Ctx) (base : Nat) (first : Bool) :
      List Bytes → R (List (Nat × Nat))
    | [] => .ok []
    | b :: bs => do
      let tc' ← Demux.push App.sem tc b base
      let rest ← go tc' (base + b.length) false bs
      pure (if first then rest else pushActivity tc tc' :: rest)
  match go (App.init cfg) 0 true pushes with
  | .panic _ => "PANIC"
  | .ok acts =>
    let f := fun (l : List Nat) => ",".intercalate (l.map toString)
    s!"allocs={f (acts.map (·.1))} constructs={f (acts.map (·.2))} copied=0"

/-- bit `j` of the hexadecimal number `mask` (least significant bit = bit 0) -/
def maskBit (mask : List Char) (j : Nat) : Bool :=
  let n := j / 4
  if n ≥ mask.length then false else
  let c := mask.getD (mask.length - 1 - n) '0'
  (hexVal c >>> (j % 4)) &&& 1 == 1

def splitByMask (stream : Bytes) (mask : List Char) : List Bytes :=
  let n := stream.length / 188
  let rec go (j start : Nat) (fuel : Nat) (acc : List Bytes) : List Bytes :=
    match fuel with
    | 0 => acc.reverse
    | fuel+1 =>
      if j ≥ n then (((stream.drop start)) :: acc).reverse
      else if j + 1 < n && maskBit mask j then
        go (j+1) ((j+1) * 188) fuel (((stream.drop start).take ((j+1)*188 - start)) :: acc)
      else go (j+1) start fuel acc
  go 0 0 (n + 2) []

def opCuts (cfg : App.Cfg) (stream : Bytes) (masks : String) : String :=
  let whole := opDemux cfg [stream]
  ",".intercalate ((masks.splitOn ",").map fun m =>
    if opDemux cfg (splitByMask stream m.toList) == whole then "same" else "diff")

/-! ### `construct` that queues changes (DemuxQ) -/

/-- `c<pid>:op,op…` entries of a configuration string: the construct script -/
def parseCScript (s : String) : List (Nat × List App.ScriptOp) :=
  (s.splitOn ";").filterMap fun e =>
    match e.splitOn ":" with
    | [k, ops] => (match k.toList with
      | 'c' :: r => (match (String.ofList r).toNat? with
        | some pid => some (pid, (ops.splitOn ",").filterMap parseScriptOp)
        | none => none)
      | _ => none)
    | _ => none

def opDemuxQ (cfg : App.Cfg) (cs : List (Nat × List App.ScriptOp)) (pushes : List Bytes) : String :=
  match AppQ.runAppQ cfg cs pushes with
  | .panic _ => "PANIC"
  | .ok (_, c, q) =>
    let evs := c.trace.reverse.map fEv
    " ".intercalate (evs ++ [s!"pending={if q.isEmpty then 0 else 1}"])

def opCutsQ (cfg : App.Cfg) (cs : List (Nat × List App.ScriptOp)) (stream : Bytes) (masks : String) : String :=
  let whole := opDemuxQ cfg cs [stream]
  ",".intercalate ((masks.splitOn ",").map fun m =>
    if opDemuxQ cfg cs (splitByMask stream m.toList) == whole then "same" else "diff")

/-! ### dispatcher -/
def step (line : String) : String :=
  match line.trimAscii.toString.splitOn " " with
  | ["pkt", h] => runS (opPkt (bytesOfHex h))
  | ["af", h] => runS (opAf (bytesOfHex h))
  | ["pes", h] => runS (opPes (bytesOfHex h))
  | ["ts", h] => runS (opTs (bytesOfHex h))
  | ["tsu64", v] => (match v.toNat? with | some n => opTsU64 n | none => "bad-op")
  | ["wrap", a, b] => (match a.toNat?, b.toNat? with
      | some x, some y => fb (Time.likelyWrappedSince x y)
      | _, _ => "bad-op")
  | ["cref", a, b] => (match a.toNat?, b.toNat? with
      | some x, some y => opCref x y
      | _, _ => "bad-op")
  | ["crefs", h] => runS (opCrefs (bytesOfHex h))
  | ["pidtry", v] => (match v.toNat? with
      | some n => (match Values.pidTryFrom n with | some p => s!"ok:{p}" | none => "err")
      | none => "bad-op")
  | ["pidnew", v] => (match v.toNat? with
      | some n => (match Values.pidNew n with | .ok p => s!"ok:{p}" | .panic _ => "refused")
      | none => "bad-op")
  | ["ccnew", v] => (match v.toNat? with
      | some n => (match Values.ccNew n with | .ok p => s!"ok:{p}" | .panic _ => "refused")
      | none => "bad-op")
  | ["ccf", a, b] => (match a.toNat?, b.toNat? with
      | some x, some y => if x < 16 && y < 16 then fb (Packet.follows x y) else "bad-op"
      | _, _ => "bad-op")
  | ["tsh", h] => runS (do
      let t ← Values.tshFields (bytesOfHex h)
      pure s!"id={t.id} ver={t.version} cur={fb t.current} sn={t.sectionNumber} lsn={t.lastSectionNumber}")
  | ["sch", h] => runS (do
      let t ← Psi.headerNew (bytesOfHex h)
      pure s!"tid={t.tableId} syn={fb t.syntaxInd} priv={fb t.privateInd} len={t.sectionLength}")
  | ["crc", h] => runS (do let c ← Crc.sum32 (bytesOfHex h); pure s!"{c}")
  | ["pat", h] => runS (do let es ← Tables.patProgramsAll (bytesOfHex h); pure (fPat es))
  | ["pmt", h] => runS (opPmt (bytesOfHex h))
  | ["desc", h] => runS (fDescs (bytesOfHex h))
  | ["descfb", h] => runS (do let it ← Tables.coreFromBytes (bytesOfHex h); fDescItem it)
  | "sec" :: "t" :: pk => runS (opSecTable (pk.map bytesOfHex))
  | "sec" :: k :: pk => runS (opSec (if k == "s" then Psi.rawSection else Psi.rawCompact) (pk.map bytesOfHex))
  | "pesf" :: pk => runS (opPesf (pk.map bytesOfHex))
  | "steady" :: c :: pushes => (match parseCfg c with
      | some cfg => opSteady cfg (pushes.map bytesOfHex)
      | none => "bad-op")
  | ["retain", _, _, _] => "plateau"
  | "secsteady" :: _ :: _ :: _ => "allocs=0"
  | ["cuts", c, st, masks] => (match parseCfg c with
      | some cfg => opCuts cfg (bytesOfHex st) masks
      | none => "bad-op")
  | "demux" :: c :: pushes => (match parseCfg c with
      | some cfg => opDemux cfg (pushes.map bytesOfHex)
      | none => "bad-op")
  | "demuxq" :: c :: pushes => (match parseCfg c with
      | some cfg => opDemuxQ cfg (parseCScript c) (pushes.map bytesOfHex)
      | none => "bad-op")
  | ["cutsq", c, st, masks] => (match parseCfg c with
      | some cfg => opCutsQ cfg (parseCScript c) (bytesOfHex st) masks
      | none => "bad-op")
  | _ => "bad-op"

partial def loop (hin : IO.FS.Stream) (hout : IO.FS.Stream) : IO Unit := do
  let line ← hin.getLine
  if line.isEmpty then return ()
  -- `<id> <op> <args…>` → `<id> <result>`
  let l := line.trimAscii.toString
  match l.splitOn " " with
  | id :: rest =>
    hout.putStrLn (id ++ " " ++ step (" ".intercalate rest))
  | [] => pure ()
  loop hin hout

def main : IO Unit := do
  let hin ← IO.getStdin
  let hout ← IO.getStdout
  loop hin hout
  hout.flush
