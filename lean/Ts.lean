-- root of the library: everything `lake build Ts` must check
import Ts.Basic
import Ts.AuditLib
import Ts.Gen.CrcTable
import Ts.Gen.Consts
import Ts.Model.Packet
import Ts.Model.Time
import Ts.Model.Af
import Ts.Model.Pes
import Ts.Model.PesFilter
import Ts.Model.Crc
import Ts.Model.Psi
import Ts.Model.Tables
import Ts.Model.Demux
import Ts.Model.App
import Ts.Props.C12
import Ts.Props.C15
import Ts.Props.C13
