import Ts.Spec.Bits
import Ts.Model.Tables
/-!
# Specification of PAT / PMT bodies and descriptor loops (ISO/IEC 13818-1 2.4.4.3, 2.4.4.8, 2.6)

Written independently of the model (`Ts/Model/Tables.lean`), which is only imported for the *result
data types* (`PatEntry`, `DescItem`, `StreamInfo`, `LangItem`, `AvcFields`):

* the model runs the code's iterators with a fuel counter, `take`/`drop` and byte masks/shifts;
* here every structure is described (a) by an **encoder** that concatenates the fields of the syntax
  table most-significant-bit first into one number which is then cut into bytes, and (b) by a
  **fuel-free parser** (structural or well-founded recursion on the bytes) whose fields are named by
  their `uimsbf` bit positions (`readBits`).

```
 PAT entry          program_number 16 | reserved 3 | network_PID / program_map_PID 13
 PMT body           reserved 3 | PCR_PID 13 | reserved 4 | program_info_length 12 | descriptors | streams
 PMT stream entry   stream_type 8 | reserved 3 | elementary_PID 13 | reserved 4 | ES_info_length 12 | descriptors
 descriptor         descriptor_tag 8 | descriptor_length 8 | payload
```
-/
namespace Ts.Spec.TableSpec
open Ts Ts.Spec Ts.Tables

/-! ### bit-field encoders -/

/-- append the `n`-bit field `x` (only its low `n` bits) below the bits gathered so far -/
def cat (acc n x : Nat) : Nat := acc * 2 ^ n + x % 2 ^ n

/-- byte `i` (0 = first) of a `k`-byte big-endian number -/
def beByte (w k i : Nat) : UInt8 := UInt8.ofNat (w / 2 ^ (8 * (k - 1 - i)) % 256)

/-! ### PAT (2.4.4.3) -/

/-- complete 4-byte groups of a byte string, in order; an incomplete tail is dropped -/
def chunks4 : Bytes → List Bytes
  | a :: b :: c :: d :: rest => [a, b, c, d] :: chunks4 rest
  | _ => []

/-- one PAT entry read from a 4-byte group -/
def patEntryOf (g : Bytes) : PatEntry :=
  if readBits g 0 16 = 0 then .network (readBits g 19 13)
  else .program (readBits g 0 16) (readBits g 19 13)

/-- the PAT loop: one entry per complete 4-byte group -/
def specPat (body : Bytes) : List PatEntry := (chunks4 body).map patEntryOf

/-- the program number carried by an entry (0 = network) -/
def patProgramNumber : PatEntry → Nat
  | .network _ => 0
  | .program n _ => n

/-- 4-byte encoding of an entry, with the 3 reserved bits given -/
def encodePatEntry (reserved : Nat) (e : PatEntry) : Bytes :=
  let w := cat (cat (cat 0 16 (patProgramNumber e)) 3 reserved) 13 e.pid
  [beByte w 4 0, beByte w 4 1, beByte w 4 2, beByte w 4 3]

/-- a PAT body from a list of (reserved bits, entry) -/
def encodePat (es : List (Nat × PatEntry)) : Bytes :=
  (es.map fun x => encodePatEntry x.1 x.2).flatten

/-- entries that a PAT can represent -/
def PatWf : PatEntry → Prop
  | .network pid => pid ≤ 0x1fff
  | .program n pid => n ≠ 0 ∧ n < 2 ^ 16 ∧ pid ≤ 0x1fff

instance (e : PatEntry) : Decidable (PatWf e) := by cases e <;> unfold PatWf <;> infer_instance

/-! ### descriptor loops (2.6.1) -/

/-- the descriptor loop: `(tag, payload)` of every complete descriptor, and the trailing bytes that
do not hold a complete descriptor (empty when the loop tiles the buffer exactly) -/
def specDescLoop : Bytes → List (Nat × Bytes) × Bytes
  | tag :: len :: rest =>
    if len.toNat ≤ rest.length then
      let r := specDescLoop (rest.drop len.toNat)
      ((tag.toNat, rest.take len.toNat) :: r.1, r.2)
    else ([], tag :: len :: rest)
  | buf => ([], buf)
termination_by buf => buf.length
decreasing_by simp; omega

/-- `descriptor_tag, descriptor_length, payload` -/
def encodeDesc (d : Nat × Bytes) : Bytes :=
  [UInt8.ofNat d.1, UInt8.ofNat d.2.length] ++ d.2

/-- a descriptor that the 8-bit tag / length fields can represent -/
def DescWf (d : Nat × Bytes) : Prop := d.1 < 256 ∧ d.2.length ≤ 255

instance (d : Nat × Bytes) : Decidable (DescWf d) := by unfold DescWf; infer_instance

/-- length of the fixed part of the descriptor types that the crate parses field by field:
registration_descriptor (format_identifier 32), maximum_bitrate_descriptor (reserved 2,
maximum_bitrate 22), AVC_video_descriptor (4 bytes of fixed fields); ISO_639_language_descriptor has
no fixed part -/
def typedMinLength (tag : Nat) : Nat :=
  match tag with
  | 5 => 4
  | 14 => 3
  | 40 => 4
  | _ => 0

/-- the item yielded for a complete descriptor -/
def classify (d : Nat × Bytes) : DescItem :=
  if d.2.length < typedMinLength d.1 then .err .notEnoughData else .ok d.1 d.2

/-- the item yielded for the trailing bytes -/
def trailingItems (trailing : Bytes) : List DescItem :=
  if trailing = [] then []
  else if trailing.length < 2 then [.err .bufferTooShort]
  else [.err .notEnoughData]

/-- everything a descriptor iterator yields -/
def specDescItems (buf : Bytes) : List DescItem :=
  (specDescLoop buf).1.map classify ++ trailingItems (specDescLoop buf).2

/-! ### descriptor tags (Table 2-45), as documented on `CoreDescriptors` -/

/-- `(first tag, last tag, variant)`: typed in from the doc comments of `CoreDescriptors` -/
def variantRanges : List (Nat × Nat × String) :=
  [ (0, 1, "Reserved"),
    (2, 2, "VideoStream"),
    (3, 3, "AudioStream"),
    (4, 4, "Hierarchy"),
    (5, 5, "Registration"),
    (6, 6, "DataStreamAlignment"),
    (7, 7, "TargetBackgroundGrid"),
    (8, 8, "VideoWindow"),
    (9, 9, "CA"),
    (10, 10, "ISO639Language"),
    (11, 11, "SystemClock"),
    (12, 12, "MultiplexBufferUtilization"),
    (13, 13, "Copyright"),
    (14, 14, "MaximumBitrate"),
    (15, 15, "PrivateDataIndicator"),
    (16, 16, "SmoothingBuffer"),
    (17, 17, "STD"),
    (18, 18, "IBP"),
    (19, 26, "IsoIec13818dash6"),
    (27, 27, "MPEG4Video"),
    (28, 28, "MPEG4Audio"),
    (29, 29, "IOD"),
    (30, 30, "SL"),
    (31, 31, "FMC"),
    (32, 32, "ExternalESID"),
    (33, 33, "MuxCode"),
    (34, 34, "FmxBufferSize"),
    (35, 35, "MultiplexBuffer"),
    (36, 36, "MontentLabeling"),
    (37, 37, "MetadataPointer"),
    (38, 38, "Metadata"),
    (39, 39, "MetadataStd"),
    (40, 40, "AvcVideo"),
    (41, 41, "IPMP"),
    (42, 42, "AvcTimingAndHrd"),
    (43, 43, "Mpeg2AacAudio"),
    (44, 44, "FlexMuxTiming"),
    (45, 45, "Mpeg4Text"),
    (46, 46, "Mpeg4AudioExtension"),
    (47, 47, "AuxiliaryVideoStream"),
    (48, 48, "SvcExtension"),
    (49, 49, "MvcExtension"),
    (50, 50, "J2kVideo"),
    (51, 51, "MvcOperationPoint"),
    (52, 52, "Mpeg2StereoscopicVideoFormat"),
    (53, 53, "StereoscopicProgramInfo"),
    (54, 54, "StereoscopicVideoInfo"),
    (55, 55, "TransportProfile"),
    (56, 56, "HevcVideo"),
    (57, 62, "Reserved"),
    (63, 63, "Extension"),
    (64, 255, "UserPrivate") ]

/-- first range of the table containing `tag` -/
def lookupRange (tag : Nat) : List (Nat × Nat × String) → Option String
  | [] => none
  | (lo, hi, name) :: rest => if lo ≤ tag ∧ tag ≤ hi then some name else lookupRange tag rest

def specVariant (tag : Nat) : String := (lookupRange tag variantRanges).getD "?"

/-- the ranges are listed in increasing order and tile `next ..= 255` without gap or overlap -/
def rangesTile (next : Nat) : List (Nat × Nat × String) → Bool
  | [] => next == 256
  | (lo, hi, _) :: rest => lo == next && decide (lo ≤ hi) && rangesTile (hi + 1) rest

/-! ### ISO_639_language_descriptor (2.6.18): N × (ISO_639_language_code 24, audio_type 8) -/

def langOf (g : Bytes) : LangItem := .lang (g.take 3) (readBits g 24 8)

def specLanguages (p : Bytes) : List LangItem :=
  (chunks4 p).map langOf ++ (if p.length % 4 = 0 then [] else [.tooShort (p.length % 4)])

/-! ### AVC_video_descriptor (2.6.64) -/

def specAvc (p : Bytes) : AvcFields :=
  { profileIdc := readBits p 0 8,
    cs0 := readBits p 8 1 == 1, cs1 := readBits p 9 1 == 1, cs2 := readBits p 10 1 == 1,
    cs3 := readBits p 11 1 == 1, cs4 := readBits p 12 1 == 1, cs5 := readBits p 13 1 == 1,
    compat := readBits p 14 2, levelIdc := readBits p 16 8,
    still := readBits p 24 1 == 1, h24 := readBits p 25 1 == 1, fpSei := readBits p 26 1 == 1 }

/-! ### PMT (2.4.4.8) -/

/-- `program_info_length` -/
abbrev pmtPil (data : Bytes) : Nat := readBits data 20 12

/-- the body is long enough for the fixed header and the program descriptors -/
def specPmtAccept (data : Bytes) : Prop := 4 ≤ data.length ∧ 4 + pmtPil data ≤ data.length

instance (data : Bytes) : Decidable (specPmtAccept data) := by unfold specPmtAccept; infer_instance

/-- `PCR_PID` -/
abbrev specPcrPid (data : Bytes) : Nat := readBits data 3 13

/-- the program descriptor loop: bytes `[4, 4 + program_info_length)` -/
def specProgramDescBytes (data : Bytes) : Bytes := (data.drop 4).take (pmtPil data)

/-- the stream loop: everything after the program descriptors -/
def specStreamBytes (data : Bytes) : Bytes := data.drop (4 + pmtPil data)

/-- one stream entry with all of its bits (the two reserved fields included) -/
structure StreamEnc where
  streamType : Nat
  reserved1 : Nat
  pid : Nat
  reserved2 : Nat
  descBytes : Bytes
  deriving DecidableEq, Repr

/-- what the crate exposes of an entry -/
def StreamEnc.info (e : StreamEnc) : StreamInfo := ⟨e.streamType, e.pid, e.descBytes⟩

def StreamWf (e : StreamEnc) : Prop :=
  e.streamType < 256 ∧ e.reserved1 < 8 ∧ e.pid ≤ 0x1fff ∧ e.reserved2 < 16 ∧ e.descBytes.length < 4096

instance (e : StreamEnc) : Decidable (StreamWf e) := by unfold StreamWf; infer_instance

def encodeStream (e : StreamEnc) : Bytes :=
  let w := cat (cat (cat (cat (cat 0 8 e.streamType) 3 e.reserved1) 13 e.pid) 4 e.reserved2) 12
    e.descBytes.length
  [beByte w 5 0, beByte w 5 1, beByte w 5 2, beByte w 5 3, beByte w 5 4] ++ e.descBytes

/-- `ES_info_length` of the entry at the head of `buf` -/
abbrev esInfoLength (buf : Bytes) : Nat := readBits buf 28 12

/-- a complete stream entry lies at the head of `buf` -/
def streamFits (buf : Bytes) : Prop := 5 ≤ buf.length ∧ 5 + esInfoLength buf ≤ buf.length

instance (buf : Bytes) : Decidable (streamFits buf) := by unfold streamFits; infer_instance

/-- the entry at the head of `buf` -/
def streamAt (buf : Bytes) : StreamEnc :=
  { streamType := readBits buf 0 8, reserved1 := readBits buf 8 3, pid := readBits buf 11 13,
    reserved2 := readBits buf 24 4, descBytes := (buf.drop 5).take (esInfoLength buf) }

/-- the stream loop: entries while a complete one fits, and the leftover bytes -/
def specStreams (buf : Bytes) : List StreamEnc × Bytes :=
  if streamFits buf then
    let r := specStreams (buf.drop (5 + esInfoLength buf))
    (streamAt buf :: r.1, r.2)
  else ([], buf)
termination_by buf.length
decreasing_by unfold streamFits at *; simp; omega

/-- a whole PMT body -/
def encodePmt (reservedA pcrPid reservedB : Nat) (progDesc : Bytes) (streams : List StreamEnc) : Bytes :=
  let w := cat (cat (cat (cat 0 3 reservedA) 13 pcrPid) 4 reservedB) 12 progDesc.length
  [beByte w 4 0, beByte w 4 1, beByte w 4 2, beByte w 4 3] ++ progDesc ++ (streams.map encodeStream).flatten

/-- example body used by the non-vacuity checks: PCR PID 0x100, no program descriptors, an H.264
stream without descriptors and an AAC stream with an ISO-639 descriptor -/
def pmtExample : Bytes :=
  [0xe1, 0x00, 0xf0, 0x00,
   0x1b, 0xe1, 0x00, 0xf0, 0x00,
   0x0f, 0xe1, 0x01, 0xf0, 0x06, 0x0a, 0x04, 0x65, 0x6e, 0x67, 0x00]

/-! ## Readings and scope (review C)

* **12-bit lengths.**  `program_info_length` (`pmtPil`) and `ES_info_length` (`esInfoLength`) are read
  as full 12-bit `uimsbf` fields, as the code does.  The standard says the first two bits of each
  "shall be '00'"; a value ≥ 1024 is therefore not rejected as such here (lenient reading) — it only
  fails `specPmtAccept` / `streamFits` when that many bytes are not present.
* **Tag table.**  `variantRanges` above was typed in from the doc comments of `CoreDescriptors`, so
  `Ts.Props.C17.tag_variant_table` compares the code with its own documentation.  The comparison
  with ISO/IEC 13818-1 Table 2-45 is `Ts.Props.C17.tag_table_iso13818_1`, `…_tail`, `…_ranges`,
  whose table is written out in the theorem statements.  Known differences from later editions of
  the standard: tag 1 is "forbidden" (2012 and later), tags 57 / 58 are VVC / EVC video
  descriptors (2021 and later); the crate's variant for tag 36 is misspelt `MontentLabeling`.
* **Not specified here because not modelled:** the `AudioType` classification of `audio_type`
  (Table 2-60: 0x00 undefined, 0x01 clean effects, 0x02 hearing impaired, 0x03 visual impaired
  commentary, 0x04–0x7F user private, 0x80–0xFF reserved — the crate labels all of 0x04..=0xFF
  `Reserved`), the latin-1 decoding of `ISO_639_language_code`, and `FormatIdentifier`.
  `LangItem.lang` keeps the raw bytes.
* **Fuel.**  The model's iterators are fuel-bounded and return `.ok []` on exhaustion; the parsers in
  this file are fuel-free (structural / well-founded recursion), and equality with them is what
  carries termination.
-/

end Ts.Spec.TableSpec
