import Ts.Basic
/-!
# `uimsbf`: the standard's bit-field reading, defined bit by bit

`readBits bs off n` = the `n`-bit unsigned integer, most significant bit first, found at bit offset
`off` of the byte string `bs` (bit 0 = MSB of byte 0), exactly as the syntax tables of
ISO/IEC 13818-1 are read.  The *model* instead uses the code's byte masks and shifts; the property
theorems equate the two.
-/
namespace Ts.Spec
open Ts

def bitAt (bs : Bytes) (i : Nat) : Nat := (byteD bs (i / 8) / 2 ^ (7 - i % 8)) % 2

def readBits (bs : Bytes) (off : Nat) : Nat → Nat
  | 0 => 0
  | n+1 => readBits bs off n * 2 + bitAt bs (off + n)

theorem readBits_add (bs : Bytes) (off m n : Nat) :
    readBits bs off (m + n) = readBits bs off m * 2^n + readBits bs (off + m) n := by
  induction n with
  | zero => simp [readBits]
  | succ n ih =>
    rw [← Nat.add_assoc, readBits, ih, readBits, Nat.pow_succ]
    have : off + (m + n) = off + m + n := by omega
    rw [this]
    generalize readBits bs off m = a
    generalize readBits bs (off + m) n = b
    generalize bitAt bs (off + m + n) = c
    rw [Nat.add_mul, Nat.mul_assoc]
    omega

theorem bitAt_lt (bs : Bytes) (i : Nat) : bitAt bs i < 2 := by unfold bitAt; omega

theorem readBits_lt (bs : Bytes) (off n : Nat) : readBits bs off n < 2^n := by
  induction n with
  | zero => simp [readBits]
  | succ n ih =>
    rw [readBits, Nat.pow_succ]
    have := bitAt_lt bs (off + n)
    omega

/-- a field that lies inside one byte: bits `o .. o+n` of byte `i` -/
theorem readBits_sub (bs : Bytes) (i o n : Nat) (h : o + n ≤ 8) :
    readBits bs (8*i + o) n = (byteD bs i / 2^(8-o-n)) % 2^n := by
  induction n with
  | zero => simp [readBits, Nat.mod_one]
  | succ n ih =>
    have ih' := ih (by omega)
    rw [readBits, ih']
    unfold bitAt
    have e1 : (8*i + o + n) / 8 = i := by omega
    have e2 : (8*i + o + n) % 8 = o + n := by omega
    rw [e1, e2]
    have e3 : 8 - o - n = (7 - (o + n)) + 1 := by omega
    have e4 : 8 - o - (n+1) = 7 - (o + n) := by omega
    rw [e3, e4]
    generalize byteD bs i = b
    generalize 7 - (o + n) = k
    rw [Nat.pow_succ, ← Nat.div_div_eq_div_mul]
    generalize b / 2^k = x
    rw [Nat.pow_succ]
    have h2 : 0 < 2^n := Nat.two_pow_pos n
    -- x / 2 % 2^n * 2 + x % 2 = x % (2^n * 2)
    have : x % (2^n * 2) = (x / 2 % 2^n) * 2 + x % 2 := by
      rw [Nat.mul_comm (2^n) 2, Nat.mod_mul, Nat.mul_comm]
      omega
    omega

/-- a whole byte -/
theorem readBits_byte (bs : Bytes) (i : Nat) : readBits bs (8*i) 8 = byteD bs i := by
  have := readBits_sub bs i 0 8 (by omega)
  simp at this
  rw [this]
  exact Nat.mod_eq_of_lt (byteD_lt bs i)

end Ts.Spec
