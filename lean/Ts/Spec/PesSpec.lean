import Ts.Spec.Bits
/-!
# Specification of the PES packet header (ISO/IEC 13818-1 2.4.3.6 / 2.4.3.7, Table 2-21)

Written independently of the model (`Ts/Model/Pes.lean`).  The model follows the code: every
accessor recomputes its byte offset from the flag byte and decodes with byte masks and shifts.
Here the syntax table is read *top to bottom by one sequential parser that threads a cursor*, and
every field value is a `uimsbf` bit field (`readBits`) at the bit position the table gives it.

```
  packet_start_code_prefix   24      bit 0  of the packet          (must be 0x000001)
  stream_id                   8      bit 24
  PES_packet_length          16      bit 32
  -- the following only if stream_id is not one of `noHeaderIds`; `c` = bytes after the first 6
  '10'                        2      bit 0  of c
  PES_scrambling_control      2      bit 2
  PES_priority                1      bit 4
  data_alignment_indicator    1      bit 5
  copyright                   1      bit 6      (1 = protected by copyright)
  original_or_copy            1      bit 7      (1 = original)
  PTS_DTS_flags               2      bit 8
  ESCR_flag                   1      bit 10
  ES_rate_flag                1      bit 11
  DSM_trick_mode_flag         1      bit 12
  additional_copy_info_flag   1      bit 13
  PES_CRC_flag                1      bit 14
  PES_extension_flag          1      bit 15
  PES_header_data_length      8      bit 16
  -- cursor = byte 3
  PTS (5 bytes) | PTS, DTS (10 bytes)     if PTS_DTS_flags = '10' | '11'
  ESCR (6 bytes)                          if ESCR_flag
  ES_rate (3 bytes)                       if ES_rate_flag
  trick mode (1 byte)                     if DSM_trick_mode_flag
  additional_copy_info (1 byte)           if additional_copy_info_flag
  previous_PES_packet_CRC (2 bytes)       if PES_CRC_flag
  PES extension: the rest, up to byte 3 + PES_header_data_length      if PES_extension_flag
  -- payload starts at byte 3 + PES_header_data_length
```
-/
namespace Ts.Spec.PesSpec
open Ts Ts.Spec

/-! ## the 6-byte packet header -/

/-- stream ids of Table 2-18 whose PES packets carry *no* optional header (2.4.3.7):
program_stream_map, padding_stream, private_stream_2, ECM, EMM, program_stream_directory,
DSMCC_stream, ITU-T H.222.1 type E -/
def noHeaderIds : List Nat := [0xBC, 0xBE, 0xBF, 0xF0, 0xF1, 0xFF, 0xF2, 0xF8]

/-- a byte string starts a PES packet: six header bytes, `packet_start_code_prefix = 0x000001` -/
def headerAccepted (buf : Bytes) : Prop := 6 ≤ buf.length ∧ readBits buf 0 24 = 1
instance (buf : Bytes) : Decidable (headerAccepted buf) := by unfold headerAccepted; infer_instance

def streamId (buf : Bytes) : Nat := readBits buf 24 8
def packetLength (buf : Bytes) : Nat := readBits buf 32 16

/-! ## values of the optional fields -/

/-- outcome of looking at one optional field -/
inductive Field (α : Type) where
  /-- its flag is clear -/
  | absent
  /-- `PTS_DTS_flags = '01'`, forbidden by the standard (only used for PTS/DTS) -/
  | forbidden
  /-- its flag is set but the field does not end inside the declared header / the bytes present -/
  | truncated
  | present (v : α)
  deriving DecidableEq, Repr

/-- a 33-bit time stamp in the 5-byte PTS/DTS layout -/
inductive Ts33 where
  /-- the first cleared marker bit (bit offset inside the 5 bytes: 7, 23 or 39) -/
  | markerCleared (bit : Nat)
  | value (v : Nat)
  deriving DecidableEq, Repr

/-- the 5-byte structure at byte `p`:
`4 prefix | TS[32..30] 3 | marker | TS[29..15] 15 | marker | TS[14..0] 15 | marker`.
(The 4-bit prefix is not examined: the code uses `Timestamp::from_bytes`.) -/
def timestampAt (c : Bytes) (p : Nat) : Ts33 :=
  if readBits c (8 * p + 7) 1 = 0 then .markerCleared 7
  else if readBits c (8 * p + 23) 1 = 0 then .markerCleared 23
  else if readBits c (8 * p + 39) 1 = 0 then .markerCleared 39
  else .value (readBits c (8 * p + 4) 3 * 2 ^ 30 + readBits c (8 * p + 8) 15 * 2 ^ 15
                + readBits c (8 * p + 24) 15)

inductive PtsDtsVal where
  | ptsOnly (pts : Ts33)
  | both (pts dts : Ts33)
  deriving DecidableEq, Repr

structure EscrVal where
  base : Nat
  ext : Nat
  deriving DecidableEq, Repr

/-- ESCR, 6 bytes at byte `p`:
`reserved 2 | base[32..30] 3 | marker | base[29..15] 15 | marker | base[14..0] 15 | marker |
 extension 9 | marker` (the markers are not examined) -/
def escrAt (c : Bytes) (p : Nat) : EscrVal :=
  { base := readBits c (8 * p + 2) 3 * 2 ^ 30 + readBits c (8 * p + 6) 15 * 2 ^ 15
              + readBits c (8 * p + 22) 15
    ext := readBits c (8 * p + 38) 9 }

/-- ES_rate, 3 bytes at byte `p`: `marker | ES_rate 22 | marker` -/
def esRateAt (c : Bytes) (p : Nat) : Nat := readBits c (8 * p + 1) 22

inductive TrickVal where
  | fastForward (fieldId : Nat) (intraSliceRefresh : Bool) (frequencyTruncation : Nat)
  | slowMotion (repCntrl : Nat)
  | freezeFrame (fieldId reserved : Nat)
  | fastReverse (fieldId : Nat) (intraSliceRefresh : Bool) (frequencyTruncation : Nat)
  | slowReverse (repCntrl : Nat)
  /-- trick_mode_control values 5..7 are reserved; the control code is exposed -/
  | reserved (control : Nat)
  deriving DecidableEq, Repr

/-- the trick-mode byte at byte `p`: `trick_mode_control 3`, then 5 bits read according to it -/
def trickAt (c : Bytes) (p : Nat) : TrickVal :=
  match readBits c (8 * p) 3 with
  | 0 => .fastForward (readBits c (8 * p + 3) 2) (readBits c (8 * p + 5) 1 == 1) (readBits c (8 * p + 6) 2)
  | 1 => .slowMotion (readBits c (8 * p + 3) 5)
  | 2 => .freezeFrame (readBits c (8 * p + 3) 2) (readBits c (8 * p + 5) 3)
  | 3 => .fastReverse (readBits c (8 * p + 3) 2) (readBits c (8 * p + 5) 1 == 1) (readBits c (8 * p + 6) 2)
  | 4 => .slowReverse (readBits c (8 * p + 3) 5)
  | k => .reserved k

inductive CopyInfoVal where
  | markerCleared
  | value (v : Nat)
  deriving DecidableEq, Repr

/-- `marker | additional_copy_info 7` at byte `p` -/
def copyInfoAt (c : Bytes) (p : Nat) : CopyInfoVal :=
  if readBits c (8 * p) 1 = 0 then .markerCleared else .value (readBits c (8 * p + 1) 7)

/-- previous_PES_packet_CRC, 16 bits at byte `p` -/
def crcAt (c : Bytes) (p : Nat) : Nat := readBits c (8 * p) 16

/-! ## the sequential parser -/

structure Flags where
  ptsDts : Nat
  escr : Bool
  esRate : Bool
  trick : Bool
  copyInfo : Bool
  crc : Bool
  ext : Bool
  deriving DecidableEq, Repr

/-- the one-bit field at bit `pos` -/
def flagBit (c : Bytes) (pos : Nat) : Bool := readBits c pos 1 == 1

def flagsOf (c : Bytes) : Flags :=
  { ptsDts := readBits c 8 2
    escr := flagBit c 10
    esRate := flagBit c 11
    trick := flagBit c 12
    copyInfo := flagBit c 13
    crc := flagBit c 14
    ext := flagBit c 15 }

/-- PES_header_data_length -/
def hdl (c : Bytes) : Nat := readBits c 16 8

/-- the first byte position no optional field may reach: the declared end of the header, or the
end of the bytes present, whichever comes first -/
def limit (c : Bytes) : Nat := min (3 + hdl c) c.length

/-- one step of the parser for an `n`-byte field guarded by `flag`: the outcome, and the cursor
after the step.  The cursor advances by the size of a flagged field whether or not its bytes are
there. -/
def field {α : Type} (c : Bytes) (flag : Bool) (n : Nat) (decode : Nat → α) (cur : Nat) :
    Field α × Nat :=
  (if !flag then .absent else if cur + n ≤ limit c then .present (decode cur) else .truncated,
   if flag then cur + n else cur)

structure Header where
  priority : Nat
  dataAlignment : Bool
  /-- `true` = the material is protected by copyright (bit = 1) -/
  copyright : Bool
  /-- `true` = original (bit = 1) -/
  original : Bool
  ptsDts : Field PtsDtsVal
  escr : Field EscrVal
  esRate : Field Nat
  trick : Field TrickVal
  copyInfo : Field CopyInfoVal
  prevCrc : Field Nat
  /-- the PES extension bytes as a range `(offset, length)` of `c` -/
  extension : Field (Nat × Nat)
  /-- cursor after the fixed-size optional fields -/
  fixedEnd : Nat
  payloadOffset : Nat
  deriving Repr

/-- read the optional PES header from `c` (the bytes after the 6-byte packet header) -/
def parse (c : Bytes) : Header :=
  let F := flagsOf c
  let cur := 3
  let (ptsDts, cur) :=
    match F.ptsDts with
    | 2 => field c true 5 (fun p => PtsDtsVal.ptsOnly (timestampAt c p)) cur
    | 3 => field c true 10 (fun p => PtsDtsVal.both (timestampAt c p) (timestampAt c (p + 5))) cur
    | 1 => (Field.forbidden, cur)
    | _ => (Field.absent, cur)
  let (escr, cur) := field c F.escr 6 (escrAt c) cur
  let (esRate, cur) := field c F.esRate 3 (esRateAt c) cur
  let (trick, cur) := field c F.trick 1 (trickAt c) cur
  let (copyInfo, cur) := field c F.copyInfo 1 (copyInfoAt c) cur
  let (prevCrc, cur) := field c F.crc 2 (crcAt c) cur
  let extension : Field (Nat × Nat) :=
    if !F.ext then .absent
    else if cur ≤ 3 + hdl c ∧ 3 + hdl c ≤ c.length then .present (cur, 3 + hdl c - cur)
    else .truncated
  { priority := readBits c 4 1
    dataAlignment := flagBit c 5
    copyright := flagBit c 6
    original := flagBit c 7
    ptsDts, escr, esRate, trick, copyInfo, prevCrc, extension
    fixedEnd := cur
    payloadOffset := 3 + hdl c }

/-! ## acceptance -/

/-- where the fixed-size optional fields end, as a function of the flags alone: skip each flagged
field in table order, starting at byte 3 -/
def fixedFieldsEnd (F : Flags) : Nat :=
  let skip (flag : Bool) (n cur : Nat) : Nat := if flag then cur + n else cur
  let cur := 3
  let cur := match F.ptsDts with
    | 2 => cur + 5
    | 3 => cur + 10
    | _ => cur
  let cur := skip F.escr 6 cur
  let cur := skip F.esRate 3 cur
  let cur := skip F.trick 1 cur
  let cur := skip F.copyInfo 1 cur
  skip F.crc 2 cur

/-- `c` holds a well-formed optional header: the three fixed bytes are there, the `'10'` marker is
right, the declared header fits in the bytes available, and the flag-implied fixed-size fields
fit in the declared header -/
def parsedAccepted (c : Bytes) : Prop :=
  3 ≤ c.length ∧ readBits c 0 2 = 2 ∧ 3 + hdl c ≤ c.length ∧ fixedFieldsEnd (flagsOf c) ≤ 3 + hdl c
instance (c : Bytes) : Decidable (parsedAccepted c) := by unfold parsedAccepted; infer_instance

/-! ## Readings chosen where the code checks or exposes less than the standard defines (review C)

`parse` above describes what the crate's accessors *return*.  In four places that is less than
Table 2-21 defines; they are spelled out here so that the difference is visible in the
specification itself (the theorems are in `Ts/Props/C14.lean`, section "readings").

### 1. trick mode: which bits of the trick-mode byte each variant exposes

```
 bits 0..3  trick_mode_control
 control 000 fast_forward   bits 3..5 field_id | bit 5 intra_slice_refresh | bits 6..8 frequency_truncation
 control 001 slow_motion    bits 3..8 rep_cntrl
 control 010 freeze_frame   bits 3..5 field_id | bits 5..8 reserved
 control 011 fast_reverse   as fast_forward
 control 100 slow_reverse   bits 3..8 rep_cntrl
 control 101,110,111        bits 3..8 reserved (5 bits)
```

For control codes 0..4 the crate's `DsmTrickMode` exposes **all eight bits**.  For the reserved
control codes 5, 6, 7 it is `DsmTrickMode::Reserved { reserved: trick_mode_control }`: the value
carried is the 3-bit **control code** (bits 0..3), and the five data bits (bits 3..8) are **not
observable** through the API.  (Decision recorded for this verification: not a defect — the control
code is exposed exactly; the data bits of a reserved code have no defined meaning.)

`TrickStd` / `trickStdAt` is the standard's full reading, keeping the five data bits of a reserved
code; `TrickStd.exposed` forgets exactly those five bits and yields the `TrickVal` that `trickAt`
(hence `parse`) reports: `Ts.Props.C14.trickAt_eq_exposed`. -/

/-- the standard's reading of the trick-mode byte: like `TrickVal`, but a reserved control code
keeps its five data bits -/
inductive TrickStd where
  | fastForward (fieldId : Nat) (intraSliceRefresh : Bool) (frequencyTruncation : Nat)
  | slowMotion (repCntrl : Nat)
  | freezeFrame (fieldId reserved : Nat)
  | fastReverse (fieldId : Nat) (intraSliceRefresh : Bool) (frequencyTruncation : Nat)
  | slowReverse (repCntrl : Nat)
  /-- trick_mode_control 5..7: the control code and the 5 reserved data bits -/
  | reserved (control : Nat) (dataBits : Nat)
  deriving DecidableEq, Repr

/-- the trick-mode byte at byte `p`, every bit kept -/
def trickStdAt (c : Bytes) (p : Nat) : TrickStd :=
  match readBits c (8 * p) 3 with
  | 0 => .fastForward (readBits c (8 * p + 3) 2) (readBits c (8 * p + 5) 1 == 1) (readBits c (8 * p + 6) 2)
  | 1 => .slowMotion (readBits c (8 * p + 3) 5)
  | 2 => .freezeFrame (readBits c (8 * p + 3) 2) (readBits c (8 * p + 5) 3)
  | 3 => .fastReverse (readBits c (8 * p + 3) 2) (readBits c (8 * p + 5) 1 == 1) (readBits c (8 * p + 6) 2)
  | 4 => .slowReverse (readBits c (8 * p + 3) 5)
  | k => .reserved k (readBits c (8 * p + 3) 5)

/-- what the API exposes of a trick-mode byte: everything, except that a reserved control code
loses its five data bits -/
def TrickStd.exposed : TrickStd → TrickVal
  | .fastForward a b c => .fastForward a b c
  | .slowMotion r => .slowMotion r
  | .freezeFrame a b => .freezeFrame a b
  | .fastReverse a b c => .fastReverse a b c
  | .slowReverse r => .slowReverse r
  | .reserved k _ => .reserved k

/-- byte position of the trick-mode byte, from the flags: after the three fixed bytes, PTS/DTS
(5 or 10 bytes), ESCR (6) and ES_rate (3) -/
def trickPos (F : Flags) : Nat :=
  3 + (match F.ptsDts with | 2 => 5 | 3 => 10 | _ => 0) + (if F.escr then 6 else 0)
    + (if F.esRate then 3 else 0)

/-! ### 2. PTS / DTS: the 4-bit prefix is not examined by `pts_dts()`

Table 2-21 fixes the first four bits of each 5-byte time stamp: `'0010'` for a lone PTS
(PTS_DTS_flags `'10'`), `'0011'` for the PTS and `'0001'` for the DTS of a pair (`'11'`).
`PesParsedContents::pts_dts()` decodes with `Timestamp::from_bytes`, which checks the three marker
bits but **not** the prefix, and `timestampAt` above follows it.  Reading chosen: `pts_dts()` is
*lenient* — any prefix is accepted and the prefix does not influence the value.  Conversely the
public helpers `Timestamp::from_pts_bytes` / `from_dts_bytes` (C15) demand `'0010'` / `'0001'`, so
`from_pts_bytes` **rejects** the standard-conforming `'0011'` PTS of a PTS+DTS pair. -/

/-- the 4-bit prefix of the 5-byte time stamp at byte `p` -/
def tsPrefixAt (c : Bytes) (p : Nat) : Nat := readBits c (8 * p) 4

/-- the prefixes Table 2-21 prescribes for the time stamps announced by PTS_DTS_flags (PTS at
byte 3, DTS at byte 8) -/
def ptsDtsPrefixStd (c : Bytes) : Prop :=
  match (flagsOf c).ptsDts with
  | 2 => tsPrefixAt c 3 = 0b0010
  | 3 => tsPrefixAt c 3 = 0b0011 ∧ tsPrefixAt c 8 = 0b0001
  | _ => True
instance (c : Bytes) : Decidable (ptsDtsPrefixStd c) := by
  unfold ptsDtsPrefixStd; split <;> infer_instance

/-! ### 3. / 4. ESCR and ES_rate: the marker bits are not examined

ESCR (6 bytes) carries four `marker_bit`s at bit offsets 5, 21, 37, 47; ES_rate (3 bytes) two, at
bit offsets 0 and 23.  Unlike the PTS/DTS markers and the additional_copy_info marker (which are
checked and reported), the crate ignores these six bits, and `escrAt` / `esRateAt` follow it.
Reading chosen: lenient — the bits are neither checked nor part of any value. -/

/-- the four marker bits of the ESCR at byte `p` are all set (what the standard prescribes) -/
def escrMarkersStd (c : Bytes) (p : Nat) : Prop :=
  readBits c (8 * p + 5) 1 = 1 ∧ readBits c (8 * p + 21) 1 = 1 ∧ readBits c (8 * p + 37) 1 = 1
    ∧ readBits c (8 * p + 47) 1 = 1
instance (c : Bytes) (p : Nat) : Decidable (escrMarkersStd c p) := by
  unfold escrMarkersStd; infer_instance

/-- the two marker bits of the ES_rate field at byte `p` are set -/
def esRateMarkersStd (c : Bytes) (p : Nat) : Prop :=
  readBits c (8 * p) 1 = 1 ∧ readBits c (8 * p + 23) 1 = 1
instance (c : Bytes) (p : Nat) : Decidable (esRateMarkersStd c p) := by
  unfold esRateMarkersStd; infer_instance

end Ts.Spec.PesSpec
