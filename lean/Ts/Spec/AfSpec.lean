import Ts.Basic
import Ts.Spec.Bits
import Ts.Model.Af
/-!
# Specification of the adaptation field (ISO/IEC 13818-1 2.4.3.4) and its extension (2.4.3.5)

An *independent* specification, written as a **sequential cursor parser**: the syntax table is read
top to bottom, `if (flag) { element }` either reads the element's bytes at the cursor and advances,
or skips.  No offset is ever computed from the flags (that is what the model / the Rust code does);
all values are `uimsbf` bit-fields (`readBits`) of the bytes read at the cursor.

`buf` is the adaptation field *after* `adaptation_field_length` (what `AdaptationField::new` gets):
bit 0 discontinuity_indicator, 1 random_access_indicator, 2 elementary_stream_priority_indicator,
3 PCR_flag, 4 OPCR_flag, 5 splicing_point_flag, 6 transport_private_data_flag,
7 adaptation_field_extension_flag; then the optional elements in that order.

The only things shared with the model are the result vocabulary (`Af.Res`, `ClockRef`).
-/
namespace Ts.Spec.AfSpec
open Ts Ts.Spec Ts.Time

/-- outcome of one optional syntax element -/
inductive Field (α : Type) where
  | absent                 -- its flag is clear
  | truncated              -- its flag is set but it does not fit inside the field
  | present (v : α)
  deriving Repr, DecidableEq

def Field.map {α β} (f : α → β) : Field α → Field β
  | .absent => .absent
  | .truncated => .truncated
  | .present v => .present (f v)

/-- how the API reports a `Field` -/
def toRes {α} : Field α → Af.Res α
  | .absent => .error .fieldNotPresent
  | .truncated => .error .notEnoughData
  | .present v => .ok v

/-- the `n` bytes at the cursor, provided all of them lie inside `buf` -/
def readN (buf : Bytes) (cur n : Nat) : Option Bytes :=
  if cur + n ≤ buf.length then some ((buf.drop cur).take n) else none

def ofOpt {α} : Option α → Field α
  | some v => .present v
  | none => .truncated

/-- `if (flag) { element : n bytes }` at the cursor; returns the element and the new cursor -/
def optElem (flag : Bool) (buf : Bytes) (cur n : Nat) : Field Bytes × Nat :=
  if flag then (ofOpt (readN buf cur n), cur + n) else (.absent, cur)

/-- `length : 8 uimsbf ; length bytes` at the cursor.  If the length byte itself is missing the
element is truncated and the cursor is past the end of `buf`, so everything after it is truncated too. -/
def lenPrefixed (buf : Bytes) (cur : Nat) : Field Bytes × Nat :=
  match readN buf cur 1 with
  | none => (.truncated, cur + 1)
  | some l => (ofOpt (readN buf (cur + 1) (readBits l 0 8)), cur + 1 + readBits l 0 8)

/-- `if (flag) { length ; bytes }` -/
def optLenPrefixed (flag : Bool) (buf : Bytes) (cur : Nat) : Field Bytes × Nat :=
  if flag then lenPrefixed buf cur else (.absent, cur)

/-- program_clock_reference_base 33, reserved 6, program_clock_reference_extension 9 -/
def clockOf (d : Bytes) : ClockRef := ⟨readBits d 0 33, readBits d 39 9⟩

/-- an adaptation_field_extension with no bytes has no flags byte: `AdaptationFieldExtension::new`
reports it as not-enough-data -/
def nonEmpty : Field Bytes → Field Bytes
  | .present [] => .truncated
  | x => x

structure AfFields where
  discontinuity : Bool
  randomAccess : Bool
  esPriority : Nat
  pcr : Field ClockRef
  opcr : Field ClockRef
  splice : Field Nat
  priv : Field Bytes
  ext : Field Bytes

/-- 2.4.3.4, read top to bottom -/
def specAf (buf : Bytes) : AfFields :=
  let cur := 1
  let (pcr, cur) := optElem (readBits buf 3 1 == 1) buf cur 6
  let (opcr, cur) := optElem (readBits buf 4 1 == 1) buf cur 6
  let (splice, cur) := optElem (readBits buf 5 1 == 1) buf cur 1
  let (priv, cur) := optLenPrefixed (readBits buf 6 1 == 1) buf cur
  let (ext, _) := optLenPrefixed (readBits buf 7 1 == 1) buf cur
  { discontinuity := readBits buf 0 1 == 1
    randomAccess := readBits buf 1 1 == 1
    esPriority := readBits buf 2 1
    pcr := pcr.map clockOf
    opcr := opcr.map clockOf
    splice := splice.map (fun b => readBits b 0 8)
    priv := priv
    ext := nonEmpty ext }

/-! ### extension (2.4.3.5); `e` = the bytes after `adaptation_field_extension_length` -/

/-- ltw_valid_flag 1, ltw_offset 15 -/
def ltwOf (d : Bytes) : Option Nat :=
  if readBits d 0 1 == 1 then some (readBits d 1 15) else none

/-- reserved 2, piecewise_rate 22 -/
def piecewiseOf (d : Bytes) : Nat := readBits d 2 22

/-- splice_type 4, DTS_next_AU[32..30] 3, marker, DTS_next_AU[29..15] 15, marker,
DTS_next_AU[14..0] 15, marker.  `error n` = marker bit `n` is the first cleared one. -/
def seamlessOf (d : Bytes) : Except Nat (Nat × Nat) :=
  if readBits d 7 1 ≠ 1 then .error 7
  else if readBits d 23 1 ≠ 1 then .error 23
  else if readBits d 39 1 ≠ 1 then .error 39
  else .ok (readBits d 0 4, readBits d 4 3 * 2 ^ 30 + readBits d 8 15 * 2 ^ 15 + readBits d 24 15)

structure ExtFields where
  ltw : Field (Option Nat)
  piecewise : Field Nat
  seamless : Field (Except Nat (Nat × Nat))

def specExt (e : Bytes) : ExtFields :=
  let cur := 1
  let (ltw, cur) := optElem (readBits e 0 1 == 1) e cur 2
  let (pw, cur) := optElem (readBits e 1 1 == 1) e cur 3
  let (ss, _) := optElem (readBits e 2 1 == 1) e cur 5
  { ltw := ltw.map ltwOf
    piecewise := pw.map piecewiseOf
    seamless := ss.map seamlessOf }

/-- how the API reports the seamless-splice element: a cleared marker bit is
`SpliceTimestampError(MarkerBitNotSet(n))` -/
def toResSplice : Field (Except Nat (Nat × Nat)) → Af.Res (Nat × Nat)
  | .absent => .error .fieldNotPresent
  | .truncated => .error .notEnoughData
  | .present (.error n) => .error (.spliceTimestampError (.markerBitNotSet n))
  | .present (.ok v) => .ok v

/-! ## Readings chosen where the code and the standard differ, and closed-form positions (review C)

### `splice_countdown` is `8 tcimsbf` in the standard, `u8` in the code

ISO/IEC 13818-1 2.4.3.4 declares `splice_countdown` as `8 tcimsbf` (two's complement integer, msb
= sign bit first): `0xFF` means −1 (one packet *after* the splicing point).  The crate returns the
raw byte as `u8` (`packet.rs:241`, 255 for `0xFF`); `specAf` above follows the crate and reads
`readBits b 0 8` (unsigned).  The reading chosen here: the API value is the *unsigned byte*; the
standard's value is `spliceSigned` of it (`Ts.Props.C13.splice_countdown_signed_reading`). -/

/-- `tcimsbf`: the `n`-bit two's complement integer at bit offset `off` (`n ≥ 1`): the first bit has
weight `−2^(n−1)`, the remaining `n−1` bits are `uimsbf` -/
def readSigned (bs : Bytes) (off n : Nat) : Int :=
  (readBits bs (off + 1) (n - 1) : Int) - (readBits bs off 1 : Int) * 2 ^ (n - 1)

/-- the standard's (signed) `splice_countdown` as a function of the unsigned byte the API returns -/
def spliceSigned (b : Nat) : Int := if b < 128 then (b : Int) else (b : Int) - 256

/-! ### closed-form positions of the optional elements

The byte position at which each optional element starts, written directly from the flag bits (the
sequential parser `specAf` threads the same positions through its cursor; equality is
`Ts.Lemmas.RevC.cur*_pos`).  PCR always starts at byte 1. -/

/-- start of OPCR: after the flags byte and the 6 PCR bytes if PCR_flag -/
def posOpcr (buf : Bytes) : Nat := 1 + (if readBits buf 3 1 = 1 then 6 else 0)
/-- start of splice_countdown: after OPCR's 6 bytes if OPCR_flag -/
def posSplice (buf : Bytes) : Nat := posOpcr buf + (if readBits buf 4 1 = 1 then 6 else 0)
/-- start of transport_private_data_length: after splice_countdown's byte if splicing_point_flag -/
def posPriv (buf : Bytes) : Nat := posSplice buf + (if readBits buf 5 1 = 1 then 1 else 0)
/-- start of adaptation_field_extension_length: after the private data (length byte + that many
bytes) if transport_private_data_flag.  (A length byte beyond the end of `buf` reads as 0.) -/
def posExt (buf : Bytes) : Nat :=
  posPriv buf + (if readBits buf 6 1 = 1 then 1 + readBits buf (8 * posPriv buf) 8 else 0)

/-- start of piecewise_rate inside the extension: after the flags byte and ltw's 2 bytes if ltw_flag -/
def posPiecewise (e : Bytes) : Nat := 1 + (if readBits e 0 1 = 1 then 2 else 0)
/-- start of the seamless-splice element: after piecewise_rate's 3 bytes if piecewise_rate_flag -/
def posSeamless (e : Bytes) : Nat := posPiecewise e + (if readBits e 1 1 = 1 then 3 else 0)

end Ts.Spec.AfSpec
