import Ts.Spec.Routing
import Ts.Spec.CrcSpec
import Ts.Lemmas.C10
/-!
# Specification of routing over a whole HISTORY of PAT / PMT versions (property C05)

`Ts/Spec/Routing.lean` says what ONE applied table means.  This file composes it over histories:

* `Route` — the abstract routing state: the PAT filter's last version and current entries; per PMT
  PID the handler instance (its generation = the tag of the request that built it, the last version
  it applied, the stream list it last applied); the routing function `slots : pid ↦ (request, tag)`
  and the list of all requests made so far (a request's tag is its position in that list).
* `routeOf r pid : Option ReqKind` — the kind of request `pid` is currently routed by (tags, PCR PID
  and descriptor bytes forgotten).
* `Event` / `stepRoute` — one step of the history, by the rules of the property INCLUDING the pinned
  quirks of the code (documented at `stepRoute`).
* `wfEv` / `WF` — decidable well-formedness of a history (checked against the abstract state only).
* `CollisionFree` — the global disjointness condition under which routing is the "ideal" one.
* `Transmits` / `RealisesEv` / `Realises` — which transport packets realise a history; built from the
  packet-level vocabulary of C03 / C10 / C11 (`WellFormedSection`, `WellFormedMux`, `plOf`,
  `versionOf`, `RepPacket`).

* `Current` / `currentOf` / `CollisionFreeNow` / `CollisionFreeNowAll` — the tables IN FORCE after a
  history and their disjointness, per prefix (weaker than `CollisionFree`).
* `DroppedClausePmt'` — the dropped clause as a statement about handler tags.
* `Foreign` / `Interleaves` / `RealisesEvI` / `RealisesI` — realisations with elementary-stream packets
  between the packets of one table.
* `DistinctPmtPids` / `DistinctPmtPidsAll` / `pmtPidOf` — the scope in which "PMT of a PMT PID" (what
  `Event.pmtApplied` / `currentOf` say) is "PMT of a PROGRAM" (what the property says): no two programs of
  one PAT share a PMT PID.

Why `slots` is part of the state and not computed from "latest PAT + latest PMTs": because of the
quirks, routing is history dependent — a PID can stay routed to a handler that no current table lists.
-/
namespace Ts.Spec.RoutingHistory
open Ts Ts.Tables Ts.App Ts.Demux Ts.Spec Ts.Spec.TableSpec Ts.Spec.Routing Ts.Spec.SectionMux
open Ts.Lemmas.C03 Ts.Lemmas.C10

/-! ### the abstract state -/

/-- what a handler request names, ignoring the tag it was answered with, the PCR PID and the
descriptor bytes -/
inductive ReqKind where
  | byPid (pid : Nat)
  | pmt (pid prog : Nat)
  | nit (pid : Nat)
  | stream (progPid streamType pid : Nat)
  deriving DecidableEq, Repr

def kindOf : Req → ReqKind
  | .byPid p => .byPid p
  | .pmt p n => .pmt p n
  | .nit p => .nit p
  | .stream pp st p _ _ _ => .stream pp st p

/-- one PMT handler instance -/
structure PmtInst where
  /-- generation: the tag of the `construct` request that built this instance -/
  gen : Nat
  /-- `version_number` of the last PMT it applied (`none`: fresh) -/
  ver : Option Nat
  /-- the stream list it last applied (`[]`: fresh) — its `filters_registered` -/
  streams : List StreamInfo
  deriving Repr

structure Route where
  /-- `version_number` of the last PAT applied by the PAT filter -/
  patVersion : Option Nat
  /-- the entries of that PAT — the PAT filter's `filters_registered` -/
  patEntries : List PatEntry
  /-- per PMT PID: the current handler instance (meaningful while the PID is routed to a PMT handler) -/
  pmt : Nat → PmtInst
  /-- the routing function: request the current handler of a PID was built from, and its tag -/
  slots : Nat → Option (Req × Nat)
  /-- every request made so far, oldest first; a request's tag is its index -/
  reqs : List Req

/-- `Demultiplex::new`: the PAT filter on PID 0, requested as `ByPid(0)` with tag 0 -/
def initRoute : Route :=
  { patVersion := none, patEntries := [], pmt := fun _ => ⟨0, none, []⟩,
    slots := fun p => if p = 0 then some (.byPid 0, 0) else none, reqs := [.byPid 0] }

/-- the request kind `pid` is currently routed by (`none`: no handler) -/
def routeOf (r : Route) (pid : Nat) : Option ReqKind := (r.slots pid).map fun x => kindOf x.1

/-- the tag of the handler instance `pid` is routed to -/
def tagOf (r : Route) (pid : Nat) : Option Nat := (r.slots pid).map (·.2)

/-! ### when the dispatcher's table agrees with a route -/

/-- a table filter that is not reassembling a section and last applied version `ov` -/
def Idle (ov : Option Nat) (s : Psi.St) : Prop := s.lastVersion = ov ∧ s.remaining = none

/-- slot `p` of the dispatcher's table (`o = t.get p`) agrees with the abstract slot `a`: it holds
the kind of handler the application answers the abstract slot's request with
(`Spec.Routing.handlerFor`), carrying the abstract slot's tag —
* no request: the slot is empty;
* `ByPid(0)`: only on PID 0; the PAT filter, idle, remembering the route's PAT version, having
  registered exactly the PIDs of the route's PAT entries;
* `Pmt(pid, prog)`: a PMT filter with these parameters, idle, remembering the instance's version,
  having registered exactly the PIDs of the instance's stream list;
* `Nit`, `ByPid(≠0)`: the recorder with the slot's tag;
* `Stream`: the PES filter with the slot's tag iff the stream type `is_pes`, else the recorder with
  the slot's tag -/
def SlotRel (r : Route) (p : Nat) : Option (Req × Nat) → Option Handler → Prop
  | none, o => o = none
  | some (.byPid 0, _), o =>
      p = 0 ∧ ∃ s, o = some (.pat s (r.patEntries.map PatEntry.pid)) ∧ Idle r.patVersion s
  | some (.byPid (_ + 1), tag), o => o = some (.recorder tag)
  | some (.pmt a b, _), o =>
      ∃ s, o = some (.pmt a b s ((r.pmt p).streams.map StreamInfo.pid)) ∧ Idle (r.pmt p).ver s
  | some (.nit _, tag), o => o = some (.recorder tag)
  | some (.stream _ st _ _ _ _, tag), o =>
      if isPes st then ∃ f, o = some (.pes tag f) else o = some (.recorder tag)

/-- the PID a request names -/
def reqPid : Req → Nat
  | .byPid p => p
  | .pmt p _ => p
  | .nit p => p
  | .stream _ _ p _ _ _ => p

/-! ### events -/

inductive Event where
  /-- a PAT section whose `version_number` `ver` differs from the PAT filter's last version is
  delivered intact on PID 0; `entries` = its program loop -/
  | patApplied (ver : Nat) (entries : List PatEntry)
  /-- likewise a PMT section with body `body` (bytes `[8, len-4)`) on a PID currently routed to a
  PMT handler -/
  | pmtApplied (pmtPid ver : Nat) (body : Bytes)
  /-- any packet on a PID (≠ 0) not currently routed to a PAT / PMT handler -/
  | esPacket (pid : Nat)
  /-- a packet on a PID routed to a PAT / PMT handler that is a repetition in the sense of C10 (or
  carries no payload / only a continuation while nothing is being reassembled / is flagged) -/
  | repetition (pid : Nat)

/-- consecutive tags from `n` -/
def tagged : Nat → List (Nat × Req) → List (Nat × (Req × Nat))
  | _, [] => []
  | n, (p, q) :: rest => (p, (q, n)) :: tagged (n + 1) rest

/-- the stream requests of a PMT body received on `pmtPid` (`Spec.Routing.pmtRequests`) -/
def pmtReqs (pmtPid : Nat) (body : Bytes) : List (Nat × Req) :=
  pmtRequests pmtPid (specPcrPid body) (specProgramDescBytes body) (streamsOf body)

/-- One step of the history.

* `patApplied ver es`: one request per entry in order (`patRequests`), tags consecutive; the routing
  function is updated by `Spec.Routing.applied`: a listed PID is routed by the request of its LAST
  entry; a PID of the previous PAT that is no longer listed is un-routed; nothing else moves.
  **Quirk (known finding F7):** EVERY listed program gets a FRESH PMT handler instance — also
  programs whose PMT PID is unchanged — whose remembered stream list is empty.
  **Quirk:** the elementary-stream handlers of a program the PAT drops are NOT un-routed (only the
  PMT PID itself is).
* `pmtApplied p ver body`: one request per stream entry in order (`pmtRequests`); `applied` again,
  where "previous version" is the stream list remembered by the CURRENT instance on `p`.
  **Quirk (F7):** stream PIDs installed through an EARLIER instance on `p` (before a PAT version
  change) are therefore not un-routed when a newer PMT drops them.
* `esPacket p`: if `p` is un-routed the application is asked `ByPid(p)`; otherwise nothing.
* `repetition p`: nothing. -/
def stepRoute (r : Route) : Event → Route
  | .patApplied ver es =>
    let listed := tagged r.reqs.length (patRequests es)
    { patVersion := some ver
      patEntries := es
      pmt := fun p => match lastFor listed p with
        | some (.pmt _ _, tag) => ⟨tag, none, []⟩
        | _ => r.pmt p
      slots := applied r.slots listed (r.patEntries.map PatEntry.pid)
      reqs := r.reqs ++ (patRequests es).map (·.2) }
  | .pmtApplied p ver body =>
    let listed := tagged r.reqs.length (pmtReqs p body)
    { r with
      pmt := fun q => if q = p then { r.pmt p with ver := some ver, streams := streamsOf body } else r.pmt q
      slots := applied r.slots listed ((r.pmt p).streams.map StreamInfo.pid)
      reqs := r.reqs ++ (pmtReqs p body).map (·.2) }
  | .esPacket p =>
    match r.slots p with
    | none => { r with
        slots := fun q => if q = p then some (.byPid p, r.reqs.length) else r.slots q
        reqs := r.reqs ++ [.byPid p] }
    | some _ => r
  | .repetition _ => r

/-- the state after a history -/
def run (r : Route) (evs : List Event) : Route := evs.foldl stepRoute r

/-- the requests one event makes, in order -/
def eventRequests (r : Route) : Event → List Req
  | .patApplied _ es => (patRequests es).map (·.2)
  | .pmtApplied p _ body => (pmtReqs p body).map (·.2)
  | .esPacket p => match r.slots p with
    | none => [.byPid p]
    | some _ => []
  | .repetition _ => []

/-- the concatenation of the per-event request lists along a history -/
def historyRequests : Route → List Event → List Req
  | _, [] => []
  | r, ev :: evs => eventRequests r ev ++ historyRequests (stepRoute r ev) evs

/-! ### well-formedness of a history (decidable) -/

/-- PID 0 is routed to the PAT handler -/
def patRouted (r : Route) : Bool :=
  match r.slots 0 with
  | some (.byPid 0, _) => true
  | _ => false

/-- `p` is routed to a PMT handler (requested as the program-map PID `p`) -/
def pmtRouted (r : Route) (p : Nat) : Bool :=
  match r.slots p with
  | some (.pmt q _, _) => q == p
  | _ => false

/-- `p` is routed to a PAT or PMT handler -/
def tableRouted (r : Route) (p : Nat) : Bool :=
  match r.slots p with
  | some (.byPid 0, _) => true
  | some (.pmt _ _, _) => true
  | _ => false

/-- the last version applied by the table handler `p` is routed to -/
def tableVersion (r : Route) (p : Nat) : Option Nat :=
  match r.slots p with
  | some (.byPid 0, _) => r.patVersion
  | _ => (r.pmt p).ver

def wfEv (r : Route) : Event → Prop
  | .patApplied ver es =>
    patRouted r = true ∧ r.patVersion ≠ some ver ∧ ∀ e ∈ es, e.pid ≤ 0x1fff ∧ e.pid ≠ 0
  | .pmtApplied p ver body =>
    pmtRouted r p = true ∧ (r.pmt p).ver ≠ some ver ∧ ∀ s ∈ streamsOf body, s.pid ≤ 0x1fff ∧ s.pid ≠ p
  | .esPacket p => p ≠ 0 ∧ tableRouted r p = false
  | .repetition p => tableRouted r p = true

instance (r : Route) (ev : Event) : Decidable (wfEv r ev) := by
  cases ev <;> unfold wfEv <;> infer_instance

/-- every event is well-formed in the state it happens in -/
def WF : Route → List Event → Prop
  | _, [] => True
  | r, ev :: evs => wfEv r ev ∧ WF (stepRoute r ev) evs

instance WF.dec : (r : Route) → (evs : List Event) → Decidable (WF r evs)
  | _, [] => isTrue trivial
  | r, ev :: evs =>
    have := WF.dec (stepRoute r ev) evs
    inferInstanceAs (Decidable (wfEv r ev ∧ WF (stepRoute r ev) evs))

/-! ### collision-freedom of a history (global, decidable) -/

/-- every PAT entry of the history -/
def patEntriesOf : List Event → List PatEntry
  | [] => []
  | .patApplied _ es :: evs => es ++ patEntriesOf evs
  | _ :: evs => patEntriesOf evs

/-- every (program-map PID, elementary PID) pair of the history -/
def esPairsOf : List Event → List (Nat × Nat)
  | [] => []
  | .pmtApplied p _ body :: evs => (streamsOf body).map (fun s => (p, s.pid)) ++ esPairsOf evs
  | _ :: evs => esPairsOf evs

def isProgram : PatEntry → Bool
  | .program _ _ => true
  | .network _ => false

/-- program-map PIDs, NIT PIDs, elementary PIDs and PID 0 are pairwise disjoint, and no elementary
PID is listed by two different program maps -/
def CollisionFree (evs : List Event) : Prop :=
  (∀ e ∈ patEntriesOf evs, e.pid ≠ 0) ∧
  (∀ x ∈ esPairsOf evs, x.2 ≠ 0) ∧
  (∀ e ∈ patEntriesOf evs, ∀ e' ∈ patEntriesOf evs, e.pid = e'.pid → isProgram e = isProgram e') ∧
  (∀ x ∈ esPairsOf evs, ∀ e ∈ patEntriesOf evs, x.2 ≠ e.pid) ∧
  (∀ x ∈ esPairsOf evs, ∀ y ∈ esPairsOf evs, x.2 = y.2 → x.1 = y.1)

instance (evs : List Event) : Decidable (CollisionFree evs) := by
  unfold CollisionFree; infer_instance

/-! ### the "dropped PIDs" clause of C05 at full strength (FALSE of the pinned code: F7) -/

/-- **The "dropped PIDs" clause at full strength, for PMTs**: in a well-formed collision-free
history, a PID listed by a PMT version on `p` and not listed by the NEXT PMT version applied on `p` is
un-routed after that version. -/
def DroppedClausePmt : Prop :=
  ∀ (pre mid : List Event) (p v1 v2 : Nat) (b1 b2 : Bytes) (q : Nat),
    WF initRoute (pre ++ (.pmtApplied p v1 b1 :: mid ++ [.pmtApplied p v2 b2])) →
    CollisionFree (pre ++ (.pmtApplied p v1 b1 :: mid ++ [.pmtApplied p v2 b2])) →
    (∀ ev ∈ mid, ∀ v b, ev ≠ .pmtApplied p v b) →
    q ∈ (streamsOf b1).map StreamInfo.pid → q ∉ (streamsOf b2).map StreamInfo.pid →
    routeOf (run initRoute (pre ++ (.pmtApplied p v1 b1 :: mid ++ [.pmtApplied p v2 b2]))) q = none

/-! ### which packets realise a history -/

/-- `pks` are the packets of ONE intact transmission of the section `S` on PID `pid`: every packet
is an unflagged 188-byte packet of that PID; their payload views (C12 / C03 `plOf`) are a
well-formed packetisation of `S`; `S` is a well-formed section-syntax section of at least 12 bytes
whose CRC-32 verifies -/
structure Transmits (pid : Nat) (S : Bytes) (pks : List Pk) : Prop where
  wf : WellFormedSection .syntax S
  len : 12 ≤ S.length
  crc : Ts.CrcSpec.crc S = 0
  pkts : ∀ pk ∈ pks, pk.pid = pid ∧ pk.flagged = false ∧ pk.bytes.length = 188
  mux : ∃ m off rest, WellFormedMux .syntax S m ∧
    (pks.map (·.bytes)).filterMap plOf = ⟨true, m.first S, off⟩ :: rest ∧
    (∀ q ∈ rest, q.us = false) ∧ rest.map (·.bytes) = m.rest

/-- a packet that cannot complete a new section on a table filter that last applied `ov` and is
not reassembling: a repetition packet of that version (C10), or — for a fresh filter — a packet
without payload or with a continuation payload -/
def RepPacketO : Option Nat → Bytes → Prop
  | some v, p => RepPacket v p
  | none, p => p.length = 188 ∧ ∀ q, plOf p = some q → q.us = false

/-- the packets of one event (in the abstract state the event happens in) -/
def RealisesEv (r : Route) : Event → List Pk → Prop
  | .patApplied ver es, pks =>
    ∃ S, Transmits 0 S pks ∧ byteD S 0 = 0 ∧ versionOf S = ver ∧ specPat (sectionBody S) = es
  | .pmtApplied p ver body, pks =>
    ∃ S, Transmits p S pks ∧ byteD S 0 = 2 ∧ versionOf S = ver ∧ sectionBody S = body ∧ specPmtAccept body
  | .esPacket p, pks => ∃ pk, pks = [pk] ∧ pk.pid = p ∧ pk.bytes.length = 188
  | .repetition p, pks =>
    ∃ pk, pks = [pk] ∧ pk.pid = p ∧ (pk.flagged = true ∨ RepPacketO (tableVersion r p) pk.bytes)

/-- the packet list is the concatenation of the packets of the events, in order -/
inductive Realises : Route → List Event → List Pk → Prop where
  | nil (r : Route) : Realises r [] []
  | cons {r : Route} {ev : Event} {evs : List Event} {pks1 pks2 : List Pk} :
      RealisesEv r ev pks1 → Realises (stepRoute r ev) evs pks2 → Realises r (ev :: evs) (pks1 ++ pks2)

/-! ### collision-freedom of the tables IN FORCE (per prefix; weaker than `CollisionFree`) -/

/-- the program-map PIDs a PAT announces -/
def progPids (es : List PatEntry) : List Nat := (es.filter isProgram).map PatEntry.pid

/-- The tables in force after a history: the entries of the most recent PAT and, per program-map
PID, the body of the most recent PMT applied on it SINCE that PID has continuously been announced as
a program-map PID (`pmt` holds at most one body per PID).

Why this is not read off `Route`: `Route.pmt p` is the memory of the current handler INSTANCE on `p`,
which every PAT version resets (F7); the tables in force are a function of the history alone. -/
structure Current where
  pat : List PatEntry
  pmt : List (Nat × Bytes)

/-- * a PAT replaces the entry list and forgets the PMT of every PID it does not announce as a
  program-map PID (a program that is dropped and announced again starts without a PMT);
* a PMT on `p` replaces the body remembered for `p`;
* other events change nothing. -/
def stepCurrent (T : Current) : Event → Current
  | .patApplied _ es => { pat := es, pmt := T.pmt.filter fun x => decide (x.1 ∈ progPids es) }
  | .pmtApplied p _ body => { T with pmt := (p, body) :: T.pmt.filter fun x => decide (x.1 ≠ p) }
  | _ => T

def curFrom (T : Current) (evs : List Event) : Current := evs.foldl stepCurrent T

/-- the tables in force after the history `evs` (from `Demultiplex::new`) -/
def currentOf (evs : List Event) : Current := curFrom ⟨[], []⟩ evs

/-- **Collision-freedom of the tables in force.**  Only the CURRENT PAT and the CURRENT PMT of each
announced program are compared:
1. PAT entries with the same PID are of the same kind (program / network);
2. no stream PID of a PMT in force is the PID of a current PAT entry;
3. no stream PID is listed by the PMTs in force of two different program-map PIDs.
Nothing is said about tables that have been superseded, so a PID may move between programs or change
role over time.  (PID 0 needs no clause: `wfEv` keeps it out of PAT entries.) -/
def CollisionFreeNow (T : Current) : Prop :=
  (∀ e ∈ T.pat, ∀ e' ∈ T.pat, e.pid = e'.pid → isProgram e = isProgram e') ∧
  (∀ x ∈ T.pmt, ∀ s ∈ streamsOf x.2, ∀ e ∈ T.pat, s.pid ≠ e.pid) ∧
  (∀ x ∈ T.pmt, ∀ y ∈ T.pmt, ∀ s ∈ streamsOf x.2, ∀ s' ∈ streamsOf y.2, s.pid = s'.pid → x.1 = y.1)

instance (T : Current) : Decidable (CollisionFreeNow T) := by
  unfold CollisionFreeNow; infer_instance

/-- the tables in force are collision-free after every prefix of the history (decidable: only the
prefixes up to the length matter, `collisionFreeNowAll_iff`) -/
def CollisionFreeNowAll (evs : List Event) : Prop := ∀ k, CollisionFreeNow (currentOf (evs.take k))

/-! ### the "dropped PIDs" clause of C05 with TAGS, at full strength (FALSE of the pinned code: F7) -/

/-- **"PIDs dropped by a newer version of the same table stop being handled by the handler that table
installed"**, for PMTs, as a statement about handler tags: if right after PMT version `v1` on `p`
PID `q` (listed by it) is routed to the handler instance with tag `tag`, and the NEXT PMT version
applied on `p` does not list `q`, then after that version `q` is no longer routed to the instance
with tag `tag`.  (Weaker than `DroppedClausePmt`, which demands that `q` is un-routed.) -/
def DroppedClausePmt' : Prop :=
  ∀ (pre mid : List Event) (p v1 v2 : Nat) (b1 b2 : Bytes) (q tag : Nat),
    WF initRoute (pre ++ (.pmtApplied p v1 b1 :: mid ++ [.pmtApplied p v2 b2])) →
    CollisionFree (pre ++ (.pmtApplied p v1 b1 :: mid ++ [.pmtApplied p v2 b2])) →
    (∀ ev ∈ mid, ∀ v b, ev ≠ .pmtApplied p v b) →
    tagOf (run initRoute (pre ++ [.pmtApplied p v1 b1])) q = some tag →
    q ∈ (streamsOf b1).map StreamInfo.pid → q ∉ (streamsOf b2).map StreamInfo.pid →
    tagOf (run initRoute (pre ++ (.pmtApplied p v1 b1 :: mid ++ [.pmtApplied p v2 b2]))) q ≠ some tag

/-! ### interleaved realisation: elementary-stream packets BETWEEN the packets of one table -/

/-- `q` is not named by the table event `ev` happening in state `r`: neither listed by the new
version nor installed by the version it supersedes (as remembered by the handler instance).  For the
one-packet events (`esPacket`, `repetition`) nothing can be interleaved. -/
def Unnamed (r : Route) (q : Nat) : Event → Prop
  | .patApplied _ es => q ∉ es.map PatEntry.pid ∧ q ∉ r.patEntries.map PatEntry.pid
  | .pmtApplied p _ body =>
      q ∉ (streamsOf body).map StreamInfo.pid ∧ q ∉ (r.pmt p).streams.map StreamInfo.pid
  | _ => False

/-- `q` is routed to a PES filter (a stream request whose stream type `is_pes`) -/
def pesRouted (r : Route) (q : Nat) : Prop :=
  ∃ pp st a pcr d1 d2 tag, r.slots q = some (.stream pp st a pcr d1 d2, tag) ∧ isPes st = true

/-- a packet that may sit between (before, after) the packets of the table event `ev` happening in
state `r`: an unflagged 188-byte packet on a PID that is routed to a PES filter and is not named by
the event -/
def Foreign (r : Route) (ev : Event) (pk : Pk) : Prop :=
  pk.flagged = false ∧ pk.bytes.length = 188 ∧ pesRouted r pk.pid ∧ Unnamed r pk.pid ev

/-- `pks` is `own` with packets satisfying `F` inserted at arbitrary positions (order kept) -/
inductive Interleaves (F : Pk → Prop) : List Pk → List Pk → Prop where
  | nil : Interleaves F [] []
  | own {o pks : List Pk} (pk : Pk) : Interleaves F o pks → Interleaves F (pk :: o) (pk :: pks)
  | foreign {o pks : List Pk} (pk : Pk) : F pk → Interleaves F o pks → Interleaves F o (pk :: pks)

/-- the packets of one event with foreign packets interleaved -/
def RealisesEvI (r : Route) (ev : Event) (pks : List Pk) : Prop :=
  ∃ own, RealisesEv r ev own ∧ Interleaves (Foreign r ev) own pks

/-- `Realises` with interleaving inside every table transmission.  (Packets on PIDs NOT routed to a
PES filter — other tables, recorders, unknown PIDs — must still sit between events.) -/
inductive RealisesI : Route → List Event → List Pk → Prop where
  | nil (r : Route) : RealisesI r [] []
  | cons {r : Route} {ev : Event} {evs : List Event} {pks1 pks2 : List Pk} :
      RealisesEvI r ev pks1 → RealisesI (stepRoute r ev) evs pks2 → RealisesI r (ev :: evs) (pks1 ++ pks2)

/-! ### scope of the reading "PMT of a PROGRAM": distinct program-map PIDs (DESIGN 8.1b)

`Event.pmtApplied pmtPid ver body` carries NO program number, `wfEv` compares `ver` only with the memory
of the handler instance on `pmtPid`, and `currentOf` is keyed by `pmtPid`: this file formalises "the
most recent PMT of a program" as "the most recent PMT applied on that program's PMT PID".  The two
readings coincide only when a PMT PID stands for ONE program; `DistinctPmtPids` says so.  ISO/IEC
13818-1 does not forbid two PAT entries naming the same PID, so histories violating it are LEGAL inputs
outside this vocabulary (witnesses: `Ts.Props.C05History.shared_pmt_pid_same_version_unrouted`,
`shared_pmt_pid_alternating`). -/

/-- the program number a PAT entry announces (`none`: the network entry, program number 0) -/
def progNum : PatEntry → Option Nat
  | .program n _ => some n
  | .network _ => none

/-- Within ONE PAT, entries naming the same PID announce the same thing: two program entries with
DIFFERENT program numbers name different PIDs, and a program entry and a network entry name different
PIDs.  (The same entry listed twice, and one program number listed with two different PIDs, are not
excluded.) -/
def DistinctPmtPids (es : List PatEntry) : Prop :=
  ∀ e ∈ es, ∀ e' ∈ es, e.pid = e'.pid → progNum e = progNum e'

instance (es : List PatEntry) : Decidable (DistinctPmtPids es) := by
  unfold DistinctPmtPids; infer_instance

/-- every PAT version applied in the history satisfies `DistinctPmtPids`
(`Ts.Props.C05History.distinctPmtPidsAll_iff`: `∀ v es, .patApplied v es ∈ evs → DistinctPmtPids es`) -/
def DistinctPmtPidsAll : List Event → Prop
  | [] => True
  | .patApplied _ es :: evs => DistinctPmtPids es ∧ DistinctPmtPidsAll evs
  | _ :: evs => DistinctPmtPidsAll evs

instance DistinctPmtPidsAll.dec : (evs : List Event) → Decidable (DistinctPmtPidsAll evs)
  | [] => isTrue trivial
  | .patApplied _ es :: evs =>
    have := DistinctPmtPidsAll.dec evs
    inferInstanceAs (Decidable (DistinctPmtPids es ∧ DistinctPmtPidsAll evs))
  | .pmtApplied _ _ _ :: evs => DistinctPmtPidsAll.dec evs
  | .esPacket _ :: evs => DistinctPmtPidsAll.dec evs
  | .repetition _ :: evs => DistinctPmtPidsAll.dec evs

/-- the PMT PID a PAT announces for program number `prog`: the PID of the FIRST program entry with
that number (`none`: the PAT does not list the program) -/
def pmtPidOf (es : List PatEntry) (prog : Nat) : Option Nat :=
  es.findSome? fun e => match e with
    | .program n p => if n = prog then some p else none
    | .network _ => none

end Ts.Spec.RoutingHistory
