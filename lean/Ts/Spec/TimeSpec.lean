import Ts.Spec.Bits
/-!
# Specification of the PTS/DTS and PCR layouts (ISO/IEC 13818-1 2.4.3.7 and 2.4.3.5)

Written independently of the model (`Ts/Model/Time.lean`): the model *decodes* with the code's byte
masks and shifts; here the 5-byte PTS/DTS structure is *encoded* by concatenating the fields of the
syntax table, most significant bit first, into one 40-bit number that is then cut into bytes, and
the decoded fields are named by their `uimsbf` bit positions (`readBits`).

```
  '0010' / '0001' / ...   4   bslbf      bit offset 0
  TS [32..30]             3   bslbf      bit offset 4
  marker_bit              1   bslbf      bit offset 7
  TS [29..15]            15   bslbf      bit offset 8
  marker_bit              1   bslbf      bit offset 23
  TS [14..0]             15   bslbf      bit offset 24
  marker_bit              1   bslbf      bit offset 39
```
-/
namespace Ts.Spec.TimeSpec
open Ts Ts.Spec

/-- append the `n`-bit field `x` (only its low `n` bits) below the bits gathered so far -/
def cat (acc n x : Nat) : Nat := acc * 2 ^ n + x % 2 ^ n

/-- the 40 bits of the PTS/DTS structure, read as one unsigned number (first bit = bit 39) -/
def tsWord (pfx v : Nat) : Nat :=
  let w := cat 0 4 pfx              -- 4-bit prefix
  let w := cat w 3 (v / 2 ^ 30)     -- TS[32..30]
  let w := cat w 1 1                -- marker_bit
  let w := cat w 15 (v / 2 ^ 15)    -- TS[29..15]
  let w := cat w 1 1                -- marker_bit
  let w := cat w 15 v               -- TS[14..0]
  cat w 1 1                         -- marker_bit

/-- byte `i` (0 = first) of a `k`-byte big-endian number -/
def beByte (w k i : Nat) : UInt8 := UInt8.ofNat (w / 2 ^ (8 * (k - 1 - i)) % 256)

/-- the 5-byte PTS/DTS structure carrying the prefix `pfx` and the 33-bit value `v` -/
def encodeTs (pfx v : Nat) : Bytes :=
  let w := tsWord pfx v
  [beByte w 5 0, beByte w 5 1, beByte w 5 2, beByte w 5 3, beByte w 5 4]

/-! ### field positions (bit offsets from the start of the structure) -/

/-- the 4-bit prefix (`'0010'` for a lone PTS, `'0011'`/`'0001'` for PTS/DTS pairs) -/
abbrev tsPrefix (buf : Bytes) : Nat := readBits buf 0 4
/-- TS[32..30] -/
abbrev tsHi (buf : Bytes) : Nat := readBits buf 4 3
/-- TS[29..15] -/
abbrev tsMid (buf : Bytes) : Nat := readBits buf 8 15
/-- TS[14..0] -/
abbrev tsLo (buf : Bytes) : Nat := readBits buf 24 15
/-- a marker bit; the three of the structure sit at bit offsets 7, 23 and 39 -/
abbrev tsMarker (buf : Bytes) (bit : Nat) : Nat := readBits buf bit 1
/-- the 33-bit value carried by the three fields -/
abbrev tsValue (buf : Bytes) : Nat := tsHi buf * 2 ^ 30 + tsMid buf * 2 ^ 15 + tsLo buf

/-- PCR (2.4.3.5): `program_clock_reference_base` 33 uimsbf at bit 0, 6 reserved bits,
`program_clock_reference_extension` 9 uimsbf at bit 39 -/
abbrev pcrBase (d : Bytes) : Nat := readBits d 0 33
abbrev pcrExt (d : Bytes) : Nat := readBits d 39 9

end Ts.Spec.TimeSpec
