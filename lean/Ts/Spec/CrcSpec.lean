import Ts.Basic
/-!
# The CRC of ISO/IEC 13818-1 Annex A, bit by bit (independent specification)

Annex A describes the decoder as a 32-stage shift register `z(0) … z(31)`, preset to all ones.
On every clock the incoming message bit is added (mod 2) to the output of `z(31)`; that feedback
bit is fed to `z(0)` and added into the inputs of the stages named by the generator polynomial

  `x^32 + x^26 + x^23 + x^22 + x^16 + x^12 + x^11 + x^10 + x^8 + x^7 + x^5 + x^4 + x^2 + x + 1`,

i.e. `0x04C11DB7` below `x^32`.  Message bytes are fed most significant bit first; there is no
final inversion and no bit reflection.  The register is the number whose bit `i` is `z(i)`.

Nothing here mentions a table or a byte-at-a-time step: the model (`Ts.Crc.sum32`) is tied to this
definition by `Ts.Props.C04.sum32_eq_bitserial`.
-/
namespace Ts.CrcSpec
open Ts

/-- generator polynomial without its `x^32` term -/
def poly : Nat := 0x04C11DB7
/-- `2^32` -/
def M : Nat := 4294967296
/-- register preset: all ones -/
def preset : Nat := 0xFFFFFFFF

/-- one clock of the shift register; `b` (0 or 1) is the incoming message bit -/
def step (c b : Nat) : Nat := ((c <<< 1) % M) ^^^ (((c >>> 31) ^^^ b) * poly)

/-- the 8 bits of a byte value, most significant first -/
def byteBits (d : Nat) : List Nat := (List.range 8).map fun k => (d >>> (7 - k)) % 2

/-- the bits of a byte string in transmission order -/
def bits (data : Bytes) : List Nat := data.flatMap fun d => byteBits d.toNat

/-- clock the register once per bit -/
def run (c : Nat) (bs : List Nat) : Nat := bs.foldl step c

/-- register after `data`, started from `c` -/
def crcFrom (c : Nat) (data : Bytes) : Nat := run c (bits data)

/-- **CRC_32 of Annex A**: register preset to all ones -/
def crc (data : Bytes) : Nat := crcFrom preset data

/-- the same register started from zero (the linear part; used to state error detection) -/
def crc0 (data : Bytes) : Nat := crcFrom 0 data

/-- the 32-bit value `v` as 4 bytes, most significant first (how `CRC_32` is carried in a section) -/
def be32 (v : Nat) : Bytes :=
  [UInt8.ofNat (v >>> 24), UInt8.ofNat (v >>> 16), UInt8.ofNat (v >>> 8), UInt8.ofNat v]

/-- corruption: xor of a message with an error pattern of the same length -/
def xorBytes (m e : Bytes) : Bytes := List.zipWith (· ^^^ ·) m e

/-- bit `i` of a byte string in transmission order: bit `7 - i % 8` of byte `i / 8`
(0 beyond the end) -/
def bitAt (bs : Bytes) (i : Nat) : Nat := (byteD bs (i / 8) >>> (7 - i % 8)) % 2

/-- the error pattern of `n` bytes whose only set bit is bit `p` (in transmission order) -/
def singleBit (n p : Nat) : Bytes :=
  (List.range n).map fun i => if i = p / 8 then UInt8.ofNat (128 >>> (p % 8)) else 0

/-- `m` with bit `p` (in transmission order) inverted -/
def flipBit (m : Bytes) (p : Nat) : Bytes := xorBytes m (singleBit m.length p)

end Ts.CrcSpec
