import Ts.Model.App
import Ts.Spec.TableSpec
/-!
# Specification of routing: what ONE applied table (a PAT or a PMT version) means

Written independently of `patSection` / `pmtSection` (`Ts/Model/App.lean`), which fold over the
entries threading the context and a change queue; here

* `patRequests` / `pmtRequests` say which request a table entry stands for,
* `handlerFor` says which kind of handler the harness application answers a request with,
* `built` / `constructEvents` hand out consecutive tags,
* `Outdated` is the set difference `registered \ seen` (over the 13-bit PID space); the model's
  `App.outdated` (used to abbreviate the change queues `patChanges` / `pmtChanges`) is proved to be its
  strictly ascending enumeration (`C05.outdated_spec`),
* `applied` is the routing table `pid ↦ handler` as a FUNCTION, updated by one applied table:
  the last entry listing a PID wins; PIDs of the previous version that are no longer listed are
  un-routed; nothing else moves.
-/
namespace Ts.Spec.Routing
open Ts Ts.Tables Ts.App Ts.Demux Ts.Spec.TableSpec

/-- the request a PAT entry stands for: program-map PID with the announced program number, or NIT
PID for program number 0 -/
def patRequest : PatEntry → Req
  | .program pn pid => .pmt pid pn
  | .network pid => .nit pid

/-- (pid, request) per PAT entry, in order -/
def patRequests (es : List PatEntry) : List (Nat × Req) := es.map fun e => (e.pid, patRequest e)

/-- the request a PMT stream entry stands for: elementary PID, its stream type, the owning
program-map PID, and the section's PCR PID / descriptors -/
def streamRequest (pmtPid pcr : Nat) (progDesc : Bytes) (s : StreamInfo) : Req :=
  .stream pmtPid s.streamType s.pid pcr s.descBytes progDesc

/-- (pid, request) per PMT stream entry, in order -/
def pmtRequests (pmtPid pcr : Nat) (progDesc : Bytes) (ss : List StreamInfo) : List (Nat × Req) :=
  ss.map fun s => (s.pid, streamRequest pmtPid pcr progDesc s)

/-- the harness application's policy (`app.rs`, `do_construct`): PID 0 gets the PAT filter, a
program-map PID a fresh PMT filter (nothing registered yet), an elementary stream a PES filter iff
its stream type `is_pes`, everything else a packet recorder; `tag` identifies the instance -/
def handlerFor : Req → Nat → Handler
  | .byPid 0, _ => .pat {} []
  | .byPid _, tag => .recorder tag
  | .pmt pid prog, _ => .pmt pid prog {} []
  | .nit _, tag => .recorder tag
  | .stream _ st _ _ _ _, tag => if isPes st then .pes tag {} else .recorder tag

/-- handlers built for a list of requests when tags are handed out consecutively from `tag` -/
def built : Nat → List (Nat × Req) → List (Nat × Handler)
  | _, [] => []
  | tag, (p, r) :: rest => (p, handlerFor r tag) :: built (tag + 1) rest

/-- the `construct` callbacks for a list of requests, oldest first, consecutive tags from `tag` -/
def constructEvents : Nat → List (Nat × Req) → List Ev
  | _, [] => []
  | tag, (_, r) :: rest => .construct r tag :: constructEvents (tag + 1) rest

/-- the application context after the `construct` callbacks for `reqs`: the tag counter advanced by
one per request, the trace (most recent first) extended by exactly these events, nothing else -/
def ctxAfter (c : Ctx) (reqs : List (Nat × Req)) : Ctx :=
  { c with nextTag := c.nextTag + reqs.length,
           trace := (constructEvents c.nextTag reqs).reverse ++ c.trace }

/-- the stream entries of a PMT body as the crate exposes them (stream type, elementary PID,
descriptor bytes), from the spec's stream loop (`TableSpec.specStreams`) -/
def streamsOf (body : Bytes) : List StreamInfo := (specStreams (specStreamBytes body)).1.map StreamEnc.info

/-- the section body handed to the table parser: bytes `[8, len - 4)` (after the common header and
the table-syntax header, before the CRC) -/
def sectionBody (data : Bytes) : Bytes := (data.drop 8).take (data.length - 12)

/-- the change queue of one applied PAT with body `body`, by a PAT filter whose previous version
had installed `reg`, in a context whose next tag is `c.nextTag`: one insert per entry in order, then
one remove per outdated PID, ascending -/
def patChanges (c : Ctx) (reg : List Nat) (body : Bytes) : List (Change Handler) :=
  (built c.nextTag (patRequests (specPat body))).map (fun x => Change.insert x.1 x.2)
    ++ (outdated reg ((specPat body).map PatEntry.pid)).map Change.remove

/-- the same for one applied PMT received on `pmtPid` -/
def pmtChanges (c : Ctx) (pmtPid : Nat) (reg : List Nat) (body : Bytes) : List (Change Handler) :=
  (built c.nextTag (pmtRequests pmtPid (specPcrPid body) (specProgramDescBytes body) (streamsOf body))).map
      (fun x => Change.insert x.1 x.2)
    ++ (outdated reg ((streamsOf body).map StreamInfo.pid)).map Change.remove

/-- `p` was installed by the previous version of the table and is not listed by this one -/
def Outdated (registered seen : List Nat) (p : Nat) : Prop := p < 8192 ∧ p ∈ registered ∧ p ∉ seen

instance (registered seen : List Nat) (p : Nat) : Decidable (Outdated registered seen p) := by
  unfold Outdated; infer_instance

/-- the value of the LAST entry of `listed` for `p` -/
def lastFor {α : Type} (listed : List (Nat × α)) (p : Nat) : Option α :=
  (listed.reverse.find? (fun x => x.1 == p)).map (·.2)

/-- routing `pid ↦ handler` after one table is applied to routing `r`: `listed` = what the table
lists (last entry for a PID wins), `registered` = what the previous version had installed -/
def applied {α : Type} (r : Nat → Option α) (listed : List (Nat × α)) (registered : List Nat) (p : Nat) :
    Option α :=
  match lastFor listed p with
  | some a => some a
  | none => if Outdated registered (listed.map (·.1)) p then none else r p

/-! ### example sections used by the non-vacuity checks -/

/-- a PAT section (table_id 0, version 1) listing the NIT on 0x10 and program 1 on 0x100, CRC bytes
arbitrary (the processor does not look at them) -/
def patSectionEx : Bytes :=
  [0x00, 0xb0, 0x11, 0x00, 0x01, 0xc3, 0x00, 0x00, 0x00, 0x00, 0xe0, 0x10, 0x00, 0x01, 0xe1, 0x00, 0, 0, 0, 0]

/-- a PMT section (table_id 2) whose body is `pmtExample` (H.264 on 0x100, AAC on 0x101) -/
def pmtSectionEx : Bytes := [0x02, 0xb0, 0x1d, 0x00, 0x01, 0xc1, 0x00, 0x00] ++ pmtExample ++ [0, 0, 0, 0]

end Ts.Spec.Routing
