import Ts.Model.App
/-!
# Specification of routing: what ONE applied table (a PAT or a PMT version) means

Written independently of `patSection` / `pmtSection` (`Ts/Model/App.lean`), which fold over the
entries threading the context and a change queue; here

* `patRequests` / `pmtRequests` say which request a table entry stands for,
* `handlerFor` says which kind of handler the harness application answers a request with,
* `built` / `constructEvents` hand out consecutive tags,
* `Outdated` is the set difference `registered \ seen` (over the 13-bit PID space),
* `applied` is the routing table `pid ↦ handler` as a FUNCTION, updated by one applied table:
  the last entry listing a PID wins; PIDs of the previous version that are no longer listed are
  un-routed; nothing else moves.
-/
namespace Ts.Spec.Routing
open Ts Ts.Tables Ts.App Ts.Demux

/-- the request a PAT entry stands for: program-map PID with the announced program number, or NIT
PID for program number 0 -/
def patRequest : PatEntry → Req
  | .program pn pid => .pmt pid pn
  | .network pid => .nit pid

/-- (pid, request) per PAT entry, in order -/
def patRequests (es : List PatEntry) : List (Nat × Req) := es.map fun e => (e.pid, patRequest e)

/-- the request a PMT stream entry stands for: elementary PID, its stream type, the owning
program-map PID, and the section's PCR PID / descriptors -/
def streamRequest (pmtPid pcr : Nat) (progDesc : Bytes) (s : StreamInfo) : Req :=
  .stream pmtPid s.streamType s.pid pcr s.descBytes progDesc

/-- (pid, request) per PMT stream entry, in order -/
def pmtRequests (pmtPid pcr : Nat) (progDesc : Bytes) (ss : List StreamInfo) : List (Nat × Req) :=
  ss.map fun s => (s.pid, streamRequest pmtPid pcr progDesc s)

/-- the harness application's policy (`app.rs`, `do_construct`): PID 0 gets the PAT filter, a
program-map PID a fresh PMT filter (nothing registered yet), an elementary stream a PES filter iff
its stream type `is_pes`, everything else a packet recorder; `tag` identifies the instance -/
def handlerFor : Req → Nat → Handler
  | .byPid 0, _ => .pat {} []
  | .byPid _, tag => .recorder tag
  | .pmt pid prog, _ => .pmt pid prog {} []
  | .nit _, tag => .recorder tag
  | .stream _ st _ _ _ _, tag => if isPes st then .pes tag {} else .recorder tag

/-- handlers built for a list of requests when tags are handed out consecutively from `tag` -/
def built : Nat → List (Nat × Req) → List (Nat × Handler)
  | _, [] => []
  | tag, (p, r) :: rest => (p, handlerFor r tag) :: built (tag + 1) rest

/-- the `construct` callbacks for a list of requests, oldest first, consecutive tags from `tag` -/
def constructEvents : Nat → List (Nat × Req) → List Ev
  | _, [] => []
  | tag, (_, r) :: rest => .construct r tag :: constructEvents (tag + 1) rest

/-- `p` was installed by the previous version of the table and is not listed by this one -/
def Outdated (registered seen : List Nat) (p : Nat) : Prop := p < 8192 ∧ p ∈ registered ∧ p ∉ seen

instance (registered seen : List Nat) (p : Nat) : Decidable (Outdated registered seen p) := by
  unfold Outdated; infer_instance

/-- the value of the LAST entry of `listed` for `p` -/
def lastFor {α : Type} (listed : List (Nat × α)) (p : Nat) : Option α :=
  (listed.reverse.find? (fun x => x.1 == p)).map (·.2)

/-- routing `pid ↦ handler` after one table is applied to routing `r`: `listed` = what the table
lists (last entry for a PID wins), `registered` = what the previous version had installed -/
def applied {α : Type} (r : Nat → Option α) (listed : List (Nat × α)) (registered : List Nat) (p : Nat) :
    Option α :=
  match lastFor listed p with
  | some a => some a
  | none => if Outdated registered (listed.map (·.1)) p then none else r p

end Ts.Spec.Routing
