import Ts.Spec.Bits
import Ts.Spec.PesSpec
import Ts.Spec.TimeSpec
import Ts.Props.C12
import Ts.Model.PesFilter
/-!
# Specification: PES packets and their packetisation into transport packets (C02)

An *independent* description of the inputs of property C02, written as an **encoder** (the model
and the code only ever *decode*):

* `PesPkt` / `encodePes` — a PES packet (ISO/IEC 13818-1 2.4.3.6, Table 2-21) is built field by
  field: `packet_start_code_prefix` `00 00 01`, `stream_id`, `PES_packet_length`, and — unless the
  stream id is one of the eight ids of `PesSpec.noHeaderIds`, whose packets carry no optional
  header — the byte `'10' ‖ 6 flag bits`, the flags byte `PTS_DTS_flags ‖ 6 flag bits`,
  `PES_header_data_length`, PTS (`'0010'`/`'0011'` prefix) and DTS (`'0001'` prefix) in the 5-byte
  layout of `TimeSpec.encodeTs`, the remaining optional-header bytes `optExtra` (ESCR … extension
  as announced by the six flag bits, then stuffing), and finally the payload.
* `Plan` / `WellFormedPlan` — how a multiplexer may spread ONE PES packet over consecutive
  188-byte transport packets of one PID (2.4.3.2 – 2.4.3.5): the first packet has
  `payload_unit_start_indicator = 1` and carries the first `k` bytes with the whole PES header
  inside (`headerLen ≤ k`); every later packet has the indicator clear and either carries the
  next non-empty slice (counter + 1 mod 16) or carries no payload at all
  (`adaptation_field_control = '10'`, e.g. a PCR-only packet; counter repeated).  Where a payload
  sits inside a packet is given by C12's table `splitSpec` over (`adaptation_field_control`,
  `adaptation_field_length`): ANY legal amount of adaptation-field stuffing in ANY packet.
* the *expected observations* (`openEvs`, `planEvs`, `streamEvs`, `delivered`) in the callback
  vocabulary `PesFilter.Ev`, which is all this file shares with the model.
-/
namespace Ts.Spec.PesMux
open Ts Ts.Spec Ts.Spec.PesSpec Ts.Spec.TimeSpec

/-! ## PES packets -/

structure PesPkt where
  /-- stream_id -/
  sid : Nat
  /-- PES_packet_length as declared (0 = unbounded); NOT tied to the actual size -/
  len : Nat
  /-- PES_scrambling_control(2) priority(1) data_alignment(1) copyright(1) original_or_copy(1) -/
  low6 : Nat := 0
  pts : Option Nat := none
  dts : Option Nat := none
  /-- ESCR_flag ES_rate_flag DSM_trick_mode_flag additional_copy_info_flag PES_CRC_flag
  PES_extension_flag -/
  flags6 : Nat := 0
  /-- the optional-header bytes after PTS/DTS that `PES_header_data_length` counts: the fields the
  six flags announce, then stuffing bytes -/
  optExtra : Bytes := []
  payload : Bytes := []
  deriving DecidableEq, Repr

/-- the stream id is one of those whose packets have no optional header -/
def PesPkt.noHeader (pk : PesPkt) : Prop := pk.sid ∈ noHeaderIds
instance (pk : PesPkt) : Decidable pk.noHeader := by unfold PesPkt.noHeader; infer_instance

/-- PTS_DTS_flags: `'10'` PTS only, `'11'` PTS and DTS, `'00'` neither -/
def PesPkt.ptsDtsFlags (pk : PesPkt) : Nat :=
  match pk.pts, pk.dts with
  | some _, some _ => 3
  | some _, none => 2
  | none, _ => 0

/-- the PTS / DTS fields -/
def PesPkt.tsBytes (pk : PesPkt) : Bytes :=
  match pk.pts, pk.dts with
  | some p, some d => encodeTs 3 p ++ encodeTs 1 d
  | some p, none => encodeTs 2 p
  | none, _ => []

/-- bit `k` of a flag group -/
def bit (x k : Nat) : Nat := x / 2 ^ k % 2

/-- bytes taken by the fixed-size optional fields the six flags announce: ESCR 6, ES_rate 3,
trick mode 1, additional copy info 1, previous CRC 2 (the extension takes what is left) -/
def optFieldsLen (fl : Nat) : Nat :=
  6 * bit fl 5 + 3 * bit fl 4 + bit fl 3 + bit fl 2 + 2 * bit fl 1

/-- PES_header_data_length -/
def PesPkt.hdl (pk : PesPkt) : Nat := pk.tsBytes.length + pk.optExtra.length

def PesPkt.WF (pk : PesPkt) : Prop :=
  pk.sid < 256 ∧ pk.len < 65536 ∧ pk.low6 < 64 ∧ pk.flags6 < 64
  ∧ (∀ v ∈ pk.pts, v < 2 ^ 33) ∧ (∀ v ∈ pk.dts, v < 2 ^ 33)
  -- a DTS only together with a PTS
  ∧ (pk.dts.isSome → pk.pts.isSome)
  ∧ pk.hdl < 256
  -- the announced fixed-size fields fit in the declared header
  ∧ optFieldsLen pk.flags6 ≤ pk.optExtra.length
  -- no optional header at all for the no-header stream ids
  ∧ (pk.noHeader → pk.pts = none ∧ pk.dts = none ∧ pk.optExtra = [] ∧ pk.flags6 = 0 ∧ pk.low6 = 0)

instance (pk : PesPkt) : Decidable pk.WF := by unfold PesPkt.WF; infer_instance

/-- the six bytes every PES packet starts with -/
def PesPkt.fixed6 (pk : PesPkt) : Bytes :=
  [0x00, 0x00, 0x01, UInt8.ofNat pk.sid, UInt8.ofNat (pk.len / 256), UInt8.ofNat (pk.len % 256)]

/-- the optional PES header (empty for the no-header stream ids) -/
def PesPkt.optHeader (pk : PesPkt) : Bytes :=
  if pk.noHeader then []
  else [UInt8.ofNat (0x80 + pk.low6), UInt8.ofNat (pk.ptsDtsFlags * 64 + pk.flags6), UInt8.ofNat pk.hdl]
        ++ (pk.tsBytes ++ pk.optExtra)

/-- THE ENCODER -/
def encodePes (pk : PesPkt) : Bytes := pk.fixed6 ++ (pk.optHeader ++ pk.payload)

/-- number of bytes before the payload -/
def headerLen (pk : PesPkt) : Nat := 6 + pk.optHeader.length

/-! ## transport packets (2.4.3.2): the fields a plan talks about, as `uimsbf` bit fields -/

def tpPusi (p : Bytes) : Bool := readBits p 9 1 == 1
/-- adaptation_field_control, first bit: an adaptation field is present -/
def tpAfFlag (p : Bytes) : Bool := readBits p 26 1 == 1
/-- adaptation_field_control, second bit: a payload is present -/
def tpPayloadFlag (p : Bytes) : Bool := readBits p 27 1 == 1
def tpCc (p : Bytes) : Nat := readBits p 28 4
/-- adaptation_field_length (meaningful when `tpAfFlag`) -/
def tpAfLen (p : Bytes) : Nat := readBits p 32 8

/-- where the payload is, as a range `(offset, length)` of the packet: C12's split table -/
def tpPayload (p : Bytes) : Option (Nat × Nat) :=
  (Ts.Props.C12.splitSpec (tpAfFlag p) (tpPayloadFlag p) (tpAfLen p)).2

def tpPayloadBytes (p : Bytes) : Bytes :=
  match tpPayload p with
  | some r => Packet.rangeBytes p r
  | none => []

/-! ## the plan for one PES packet -/

structure Plan where
  first : Bytes
  conts : List Bytes
  deriving DecidableEq, Repr

def Plan.packets (pl : Plan) : List Bytes := pl.first :: pl.conts

/-- the continuation packets, given the bytes `rest` still to be sent and the counter `c` of the
previous packet: each is 188 bytes with the unit-start flag clear and EITHER has a payload, which
is the next slice of `rest` (never empty, by `C12.split_sound`), counter `c + 1 mod 16`, OR has no
payload (`adaptation_field_control = '10'`), counter `c` again.  At the end nothing is left. -/
def Conts : Bytes → Nat → List Bytes → Prop
  | rest, _, [] => rest = []
  | rest, c, p :: ps =>
    p.length = 188 ∧ tpPusi p = false ∧
    (((tpPayload p).isSome = true ∧ tpPayloadBytes p = rest.take (tpPayloadBytes p).length
        ∧ tpCc p = (c + 1) % 16 ∧ Conts (rest.drop (tpPayloadBytes p).length) (tpCc p) ps)
     ∨ (tpPayloadFlag p = false ∧ tpAfFlag p = true ∧ tpCc p = c ∧ Conts rest c ps))

instance Conts.dec : (rest : Bytes) → (c : Nat) → (ps : List Bytes) → Decidable (Conts rest c ps)
  | rest, _, [] => inferInstanceAs (Decidable (rest = []))
  | rest, c, p :: ps =>
    have := Conts.dec (rest.drop (tpPayloadBytes p).length) (tpCc p) ps
    have := Conts.dec rest c ps
    inferInstanceAs (Decidable (p.length = 188 ∧ tpPusi p = false ∧
      (((tpPayload p).isSome = true ∧ tpPayloadBytes p = rest.take (tpPayloadBytes p).length
          ∧ tpCc p = (c + 1) % 16 ∧ Conts (rest.drop (tpPayloadBytes p).length) (tpCc p) ps)
       ∨ (tpPayloadFlag p = false ∧ tpAfFlag p = true ∧ tpCc p = c ∧ Conts rest c ps))))

/-- number of PES bytes the first packet carries -/
def Plan.k (pl : Plan) : Nat := (tpPayloadBytes pl.first).length

def WellFormedPlan (pes : PesPkt) (pl : Plan) : Prop :=
  pl.first.length = 188 ∧ tpPusi pl.first = true ∧ (tpPayload pl.first).isSome = true
  -- the first payload is the first `k` bytes of the PES packet …
  ∧ tpPayloadBytes pl.first = (encodePes pes).take pl.k
  -- … and the PES header lies wholly inside it
  ∧ headerLen pes ≤ pl.k
  ∧ Conts ((encodePes pes).drop pl.k) (tpCc pl.first) pl.conts

instance (pes : PesPkt) (pl : Plan) : Decidable (WellFormedPlan pes pl) := by
  unfold WellFormedPlan; infer_instance

/-- counter of the last packet of the plan -/
def Plan.lastCc (pl : Plan) : Nat := tpCc (pl.packets.getLast (by simp [Plan.packets]))

/-- a stream: PES packets with their plans, one after the other on the same PID; `cc` is the
counter of the packet before (`none`: nothing was seen before).  Counters continue across PES
packets: a first packet carries a payload, so it advances the counter. -/
def PesStream : Option Nat → List (PesPkt × Plan) → Prop
  | _, [] => True
  | cc, (pes, pl) :: rest =>
    pes.WF ∧ WellFormedPlan pes pl ∧ (∀ c ∈ cc, tpCc pl.first = (c + 1) % 16)
      ∧ PesStream (some pl.lastCc) rest

instance PesStream.dec : (cc : Option Nat) → (s : List (PesPkt × Plan)) → Decidable (PesStream cc s)
  | _, [] => isTrue trivial
  | cc, (pes, pl) :: rest =>
    have := PesStream.dec (some pl.lastCc) rest
    inferInstanceAs (Decidable (pes.WF ∧ WellFormedPlan pes pl ∧ (∀ c ∈ cc, tpCc pl.first = (c + 1) % 16)
      ∧ PesStream (some pl.lastCc) rest))

/-! ## expected observations, in the consumer's callback vocabulary -/

open Ts.PesFilter in
/-- what precedes a `begin_packet`: `start_stream` the very first time, `end_packet` when a packet
is open, nothing after an abandoned packet -/
def openEvs : St → List Ev
  | .begin => [.start]
  | .started => [.endPkt]
  | .ignoreRest => []

open Ts.PesFilter in
/-- the packet that starts a PES packet: `begin_packet` with the packet's payload range -/
def firstEvs (st : St) (p : Bytes) : List Ev :=
  openEvs st ++ (match tpPayload p with | some (o, l) => [Ev.beginPkt o l] | none => [])

open Ts.PesFilter in
/-- a continuation packet: one `continue_packet` with its payload range; NOTHING for a packet
without payload -/
def contEvs (p : Bytes) : List Ev :=
  match tpPayload p with
  | some (o, l) => [Ev.cont o l]
  | none => []

open Ts.PesFilter in
def planEvs (st : St) (pl : Plan) : List (List Ev) := firstEvs st pl.first :: pl.conts.map contEvs

open Ts.PesFilter in
/-- a stream of plans: the first `begin_packet` is preceded according to the initial state, every
later one by `end_packet` -/
def streamEvs : St → List Plan → List (List Ev)
  | _, [] => []
  | st, pl :: pls => planEvs st pl ++ streamEvs .started pls

open Ts.PesFilter in
/-- the bytes a callback hands to the consumer (`header.buf` for `begin_packet`) -/
def evBytes (p : Bytes) : Ev → Bytes
  | .beginPkt o l => Packet.rangeBytes p (o, l)
  | .cont o l => Packet.rangeBytes p (o, l)
  | _ => []

open Ts.PesFilter in
/-- all bytes handed to the consumer, in order, given the packets and the callbacks each caused -/
def delivered : List Bytes → List (List Ev) → Bytes
  | p :: ps, es :: ess => (es.map (evBytes p)).flatten ++ delivered ps ess
  | _, _ => []

/-! ## a transport-packet encoder (for the non-vacuity examples) -/

/-- a transport packet of PID `pid` with counter `cc`: `af = some a` puts an adaptation field with
content `a` (so `adaptation_field_length = a.length`), `payload = []` means no payload.  The result
is 188 bytes iff the sizes add up. -/
def mkTp (pusi : Bool) (pid cc : Nat) (af : Option Bytes) (payload : Bytes) : Bytes :=
  [0x47, UInt8.ofNat ((if pusi then 64 else 0) + pid / 256), UInt8.ofNat (pid % 256),
   UInt8.ofNat ((if af.isSome then 32 else 0) + (if payload.isEmpty then 0 else 16) + cc)]
  ++ (match af with | some a => UInt8.ofNat a.length :: a | none => []) ++ payload

/-- an adaptation field of `n ≥ 1` bytes that is all stuffing: flags byte 0, then `ff` -/
def stuffingAf (n : Nat) : Bytes := 0x00 :: List.replicate (n - 1) 0xff

/-- an adaptation field carrying only a PCR (flags `0x10`, 6 PCR bytes), padded to `n` bytes -/
def pcrAf (n : Nat) : Bytes := [0x10, 0x00, 0x00, 0x00, 0x00, 0x7e, 0x00] ++ List.replicate (n - 7) 0xff

end Ts.Spec.PesMux
