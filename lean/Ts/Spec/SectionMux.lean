import Ts.Basic
import Ts.Spec.Bits
/-!
# Specification: PSI sections and their packetisation (ISO/IEC 13818-1 2.4.4, C03)

An *independent* description of the inputs of property C03, written without reference to the
model (`Ts.Model.Psi`): what a well-formed section is, and how a multiplexer may spread one section
over the payloads of consecutive transport packets of one PID.

* A **section** `S` is a byte string whose 12-bit `section_length` field (bits 12..23, `uimsbf`)
  counts the bytes following the 3-byte common header: `S.length = 3 + sectionLength S`.
  Bit 8 is `section_syntax_indicator`.
* A **packetisation** (`Mux`) is described at the level of transport-packet *payloads* (the
  payload of a packet is characterised by C12):
  - the first payload (payload_unit_start_indicator = 1) is
    `pointer_field :: pre ++ S.take k ++ tailBytes`, with `pointer_field = pre.length`; `pre` is
    whatever ended before the section (tail of the previous section, or garbage);
  - either `k = S.length` (the section ends inside the first payload; `tailBytes` is arbitrary
    trailing stuffing) or `k < S.length`, `tailBytes = []`, and the continuation payloads `conts`
    (payload_unit_start_indicator = 0) *carry* `S.drop k`: each one is a strict prefix of what is
    still owed until one contains all of the rest as a prefix (trailing bytes allowed);
  - `extra` are any further continuation payloads (stuffing) before the next unit start.
-/
namespace Ts.Spec.SectionMux
open Ts Ts.Spec

/-- which of the two section formats the PID carries -/
inductive Kind where
  | syntax    -- section_syntax_indicator = 1 ("long" sections: PAT, PMT, …)
  | compact   -- section_syntax_indicator = 0 ("short" sections)
  deriving DecidableEq, Repr

/-- `section_length`: 12 bits at bit offset 12 -/
def sectionLength (S : Bytes) : Nat := readBits S 12 12

/-- `section_syntax_indicator`: 1 bit at bit offset 8 -/
def syntaxBit (S : Bytes) : Nat := readBits S 8 1

/-- largest `section_length` of a PSI section (2.4.4.x: "shall not exceed 1021") -/
def maxSectionLength : Nat := 1021

/-- bytes of the section's fixed header that the starting packet has to carry: common header (3)
plus, for section syntax, the table-syntax header (5) -/
def minHeader : Kind → Nat
  | .syntax => 8
  | .compact => 3

def WellFormedSection (kind : Kind) (S : Bytes) : Prop :=
  3 ≤ S.length ∧ S.length = 3 + sectionLength S ∧ sectionLength S ≤ maxSectionLength
    ∧ (syntaxBit S = 1 ↔ kind = .syntax)

instance (kind : Kind) (S : Bytes) : Decidable (WellFormedSection kind S) := by
  unfold WellFormedSection; infer_instance

/-- the continuation payloads carry exactly `rest` (then possibly trailing bytes): either this
payload holds the whole of `rest` as a prefix (the section ends here), or it is a strict prefix of
`rest` and the following payloads carry the remainder -/
def Carries : Bytes → List Bytes → Prop
  | _, [] => False
  | rest, p :: ps => (rest.length ≤ p.length ∧ p.take rest.length = rest)
                     ∨ (p.length < rest.length ∧ p = rest.take p.length ∧ Carries (rest.drop p.length) ps)

instance Carries.dec : (rest : Bytes) → (ps : List Bytes) → Decidable (Carries rest ps)
  | _, [] => isFalse (fun h => h)
  | rest, p :: ps =>
    have := Carries.dec (rest.drop p.length) ps
    inferInstanceAs (Decidable ((rest.length ≤ p.length ∧ p.take rest.length = rest)
      ∨ (p.length < rest.length ∧ p = rest.take p.length ∧ Carries (rest.drop p.length) ps)))

/-- one section's packetisation -/
structure Mux where
  pre : Bytes              -- bytes between pointer_field and the section start
  k : Nat                  -- how many bytes of the section the first payload carries
  tailBytes : Bytes        -- what follows the section's bytes in the first payload
  conts : List Bytes       -- continuation payloads carrying the rest of the section
  extra : List Bytes       -- further continuation payloads (stuffing)
  deriving DecidableEq, Repr

/-- payload of the packet in which the section starts -/
def Mux.first (m : Mux) (S : Bytes) : Bytes :=
  UInt8.ofNat m.pre.length :: (m.pre ++ (S.take m.k ++ m.tailBytes))

/-- payloads of the continuation packets -/
def Mux.rest (m : Mux) : List Bytes := m.conts ++ m.extra

/-- a transport-packet payload has 1..184 bytes -/
def PayloadSize (b : Bytes) : Prop := 1 ≤ b.length ∧ b.length ≤ 184

instance (b : Bytes) : Decidable (PayloadSize b) := by unfold PayloadSize; infer_instance

def WellFormedMux (kind : Kind) (S : Bytes) (m : Mux) : Prop :=
  m.k ≤ S.length
  -- the starting packet carries at least the fixed header's worth of bytes after the pointer bytes
  ∧ minHeader kind ≤ (S.take m.k ++ m.tailBytes).length
  ∧ PayloadSize (m.first S)
  ∧ (m.k = S.length ∨ (m.k < S.length ∧ m.tailBytes = [] ∧ Carries (S.drop m.k) m.conts))
  ∧ (∀ c ∈ m.rest, PayloadSize c)

instance (kind : Kind) (S : Bytes) (m : Mux) : Decidable (WellFormedMux kind S m) := by
  unfold WellFormedMux; infer_instance

/-! ### an encoder (used for non-vacuity: every section has packetisations of every shape) -/

/-- cut `rest` into payloads of at most `n+1` bytes -/
def chop (n : Nat) (rest : Bytes) : List Bytes :=
  if h : rest.length ≤ n + 1 then [rest]
  else rest.take (n + 1) :: chop n (rest.drop (n + 1))
termination_by rest.length
decreasing_by simp; omega

theorem carries_chop (n : Nat) (rest : Bytes) : Carries rest (chop n rest) := by
  induction h : rest.length using Nat.strongRecOn generalizing rest with
  | _ len ih =>
    unfold chop
    by_cases hl : rest.length ≤ n + 1
    · simp [hl, Carries]
    · simp only [hl, dite_false, Carries]
      refine Or.inr ⟨?_, ?_, ?_⟩
      · simp; omega
      · simp
      · have e : (List.take (n + 1) rest).length = n + 1 := by simp; omega
        rw [e]
        exact ih (rest.drop (n + 1)).length (by simp; omega) _ rfl

end Ts.Spec.SectionMux
