import Ts.Model.PesFilter
/-!
# The documented `ElementaryStreamConsumer` callback protocol, as an acceptor

Independent specification for C08/C09, written from the doc comments of
`trait ElementaryStreamConsumer` (`pes.rs:22-48`) only:

* `start_stream`     — "called before the first call to `begin_packet()`" (hence once, first);
* `begin_packet`     — opens a PES packet (none may already be open);
* `continue_packet`  — "called after an earlier call to `begin_packet()`" (a packet is open);
* `end_packet`       — "called when a PES packet ends, prior to the next call to `begin_packet()`"
                       (closes the open packet);
* `continuity_error` — data was lost: an open packet is thereby closed; it may also be reported
                       when no packet is open (also before the stream has started).

Only the event vocabulary `PesFilter.Ev` is shared with the model; the acceptor knows nothing about
the filter's own states or transition function.
-/
namespace Ts.Spec.Protocol
open Ts.PesFilter

inductive PState where
  | notStarted | idle | open_
  deriving DecidableEq, Repr

/-- one protocol transition; `none` = the callback is illegal in this state -/
def protoStep : PState → Ev → Option PState
  | .notStarted, .start => some .idle
  | .idle, .beginPkt _ _ => some .open_
  | .open_, .cont _ _ => some .open_
  | .open_, .endPkt => some .idle
  | .open_, .ccErr => some .idle
  | .idle, .ccErr => some .idle
  | .notStarted, .ccErr => some .notStarted
  | _, _ => none

/-- run the acceptor over a trace; `some s` = every callback was legal, final state `s` -/
def accepts : PState → List Ev → Option PState
  | s, [] => some s
  | s, e :: es =>
    match protoStep s e with
    | some s' => accepts s' es
    | none => none

@[simp] theorem accepts_nil (s : PState) : accepts s [] = some s := rfl

theorem accepts_cons (s : PState) (e : Ev) (es : List Ev) :
    accepts s (e :: es) = (protoStep s e).bind (fun s' => accepts s' es) := by
  simp only [accepts]; cases protoStep s e <;> rfl

theorem accepts_append (s : PState) (a b : List Ev) :
    accepts s (a ++ b) = (accepts s a).bind (fun s' => accepts s' b) := by
  induction a generalizing s with
  | nil => rfl
  | cons e es ih =>
    simp only [List.cons_append, accepts]
    cases protoStep s e with
    | none => rfl
    | some s' => exact ih s'

/-- splitting an accepted trace: both halves are accepted, through some intermediate state -/
theorem accepts_append_some {s s' : PState} {a b : List Ev} (h : accepts s (a ++ b) = some s') :
    ∃ m, accepts s a = some m ∧ accepts m b = some s' := by
  rw [accepts_append] at h
  cases hm : accepts s a with
  | none => rw [hm] at h; cases h
  | some m => rw [hm] at h; exact ⟨m, rfl, h⟩

theorem accepts_cons_some {s s' : PState} {e : Ev} {es : List Ev} (h : accepts s (e :: es) = some s') :
    ∃ m, protoStep s e = some m ∧ accepts m es = some s' := by
  simp only [accepts] at h
  cases hm : protoStep s e with
  | none => rw [hm] at h; cases h
  | some m => rw [hm] at h; exact ⟨m, rfl, h⟩

/-! ### inversion of single transitions -/

theorem step_start {s m : PState} (h : protoStep s .start = some m) : s = .notStarted ∧ m = .idle := by
  cases s <;> simp [protoStep] at h <;> simp [h]

theorem step_begin {s m : PState} {o l : Nat} (h : protoStep s (.beginPkt o l) = some m) :
    s = .idle ∧ m = .open_ := by
  cases s <;> simp [protoStep] at h <;> simp [h]

theorem step_cont {s m : PState} {o l : Nat} (h : protoStep s (.cont o l) = some m) :
    s = .open_ ∧ m = .open_ := by
  cases s <;> simp [protoStep] at h <;> simp [h]

theorem step_end {s m : PState} (h : protoStep s .endPkt = some m) : s = .open_ ∧ m = .idle := by
  cases s <;> simp [protoStep] at h <;> simp [h]

theorem step_ccErr {s m : PState} (h : protoStep s .ccErr = some m) :
    m ≠ .open_ ∧ (s = .notStarted ↔ m = .notStarted) := by
  cases s <;> simp [protoStep] at h <;> subst h <;> simp

/-- the only way *into* (or to stay in) `open_` is `beginPkt` from `idle`, or `cont` from `open_` -/
theorem step_to_open {s : PState} {e : Ev} (h : protoStep s e = some .open_) :
    (s = .idle ∧ ∃ o l, e = .beginPkt o l) ∨ (s = .open_ ∧ ∃ o l, e = .cont o l) := by
  cases s <;> cases e <;> simp [protoStep] at h ⊢

/-- `notStarted` is never re-entered -/
theorem step_from_started {s m : PState} {e : Ev} (h : protoStep s e = some m) (hs : s ≠ .notStarted) :
    m ≠ .notStarted ∧ e ≠ .start := by
  cases s <;> cases e <;> simp [protoStep] at h hs ⊢ <;> subst h <;> simp

/-! ### derived facts about accepted traces (acceptor only) -/

/-- once the stream has started, `start` cannot occur again (and `notStarted` is not re-entered) -/
theorem no_start_after_started {s s' : PState} {tr : List Ev} (h : accepts s tr = some s')
    (hs : s ≠ .notStarted) : Ev.start ∉ tr ∧ s' ≠ .notStarted := by
  induction tr generalizing s with
  | nil => simp at h; subst h; simp [hs]
  | cons e es ih =>
    obtain ⟨m, hm, hrest⟩ := accepts_cons_some h
    have ⟨h1, h2⟩ := step_from_started hm hs
    have ⟨h3, h4⟩ := ih hrest h1
    refine ⟨?_, h4⟩
    simp only [List.mem_cons, not_or]
    exact ⟨fun x => h2 x.symm, h3⟩

/-- **`start_stream` occurs at most once** in any trace accepted from `notStarted` -/
theorem start_at_most_once {s' : PState} {tr : List Ev} (h : accepts .notStarted tr = some s') :
    tr.count .start ≤ 1 := by
  induction tr with
  | nil => simp
  | cons e es ih =>
    obtain ⟨m, hm, hrest⟩ := accepts_cons_some h
    cases e with
    | start =>
      have := (step_start hm).2; subst this
      have := (no_start_after_started hrest (by simp)).1
      simp [List.count_eq_zero_of_not_mem this]
    | ccErr =>
      have : m = .notStarted := ((step_ccErr hm).2).mp rfl
      subst this
      simpa [List.count_cons] using ih hrest
    | beginPkt o l => simp [protoStep] at hm
    | cont o l => simp [protoStep] at hm
    | endPkt => simp [protoStep] at hm

/-- a trace that leaves `notStarted` contains `start` -/
theorem start_mem_of_left_notStarted {s' : PState} {tr : List Ev}
    (h : accepts .notStarted tr = some s') (hs : s' ≠ .notStarted) : Ev.start ∈ tr := by
  induction tr with
  | nil => simp at h; exact absurd h.symm hs
  | cons e es ih =>
    obtain ⟨m, hm, hrest⟩ := accepts_cons_some h
    cases e with
    | start => simp
    | ccErr =>
      have : m = .notStarted := ((step_ccErr hm).2).mp rfl
      subst this
      exact List.mem_cons_of_mem _ (ih hrest)
    | beginPkt o l => simp [protoStep] at hm
    | cont o l => simp [protoStep] at hm
    | endPkt => simp [protoStep] at hm

/-- **`start_stream` precedes every `begin_packet`** -/
theorem start_before_begin {s' : PState} {pre post : List Ev} {o l : Nat}
    (h : accepts .notStarted (pre ++ .beginPkt o l :: post) = some s') : Ev.start ∈ pre := by
  obtain ⟨m, hpre, hpost⟩ := accepts_append_some h
  obtain ⟨m', hm', _⟩ := accepts_cons_some hpost
  have := (step_begin hm').1; subst this
  exact start_mem_of_left_notStarted hpre (by simp)

/-- a callback is "continuation data" -/
def isCont : Ev → Prop
  | .cont _ _ => True
  | _ => False

/-- how `open_` is reached: either we started there and saw only `cont`, or the trace contains a
`beginPkt` followed by nothing but `cont` -/
theorem open_reached {s : PState} {tr : List Ev} (h : accepts s tr = some .open_) :
    (s = .open_ ∧ ∀ x ∈ tr, isCont x) ∨
    (∃ pre o l mid, tr = pre ++ .beginPkt o l :: mid ∧ ∀ x ∈ mid, isCont x) := by
  induction tr generalizing s with
  | nil => simp at h; subst h; simp
  | cons e es ih =>
    obtain ⟨m, hm, hrest⟩ := accepts_cons_some h
    rcases ih hrest with ⟨hmo, hall⟩ | ⟨pre, o, l, mid, heq, hall⟩
    · subst hmo
      rcases step_to_open hm with ⟨_, o, l, he⟩ | ⟨hs, o, l, he⟩
      · exact .inr ⟨[], o, l, es, by simp [he], hall⟩
      · refine .inl ⟨hs, ?_⟩
        intro x hx
        rcases List.mem_cons.mp hx with hx | hx
        · subst hx; subst he; trivial
        · exact hall x hx
    · exact .inr ⟨e :: pre, o, l, mid, by simp [heq], hall⟩

/-- **`continue_packet` / `end_packet` occur only while a packet is open**: in a trace accepted from
a state with no open packet, every `cont`/`endPkt` is preceded by a `beginPkt` with nothing but
continuation data (in particular no `endPkt`, no `ccErr`) in between -/
theorem cont_end_preceded_by_begin {s s' : PState} {pre post : List Ev} {e : Ev}
    (h : accepts s (pre ++ e :: post) = some s') (hs : s ≠ .open_)
    (he : (∃ o l, e = .cont o l) ∨ e = .endPkt) :
    ∃ pre' o l mid, pre = pre' ++ .beginPkt o l :: mid ∧ ∀ x ∈ mid, isCont x := by
  obtain ⟨m, hpre, hpost⟩ := accepts_append_some h
  obtain ⟨m', hm', _⟩ := accepts_cons_some hpost
  have hm : m = .open_ := by
    rcases he with ⟨o, l, he⟩ | he
    · subst he; exact (step_cont hm').1
    · subst he; exact (step_end hm').1
  subst hm
  rcases open_reached hpre with ⟨h1, _⟩ | h2
  · exact absurd h1 hs
  · exact h2

theorem isCont_ne {x : Ev} (h : isCont x) : x ≠ .endPkt ∧ x ≠ .ccErr ∧ x ≠ .start ∧ ∀ o l, x ≠ .beginPkt o l := by
  cases x <;> simp [isCont] at h ⊢

/-- without a `beginPkt`, a trace accepted from a non-open state contains neither `cont` nor
`endPkt`, and ends in a non-open state -/
theorem closed_without_begin {s s' : PState} {tr : List Ev} (h : accepts s tr = some s')
    (hs : s ≠ .open_) (hnb : ∀ o l, Ev.beginPkt o l ∉ tr) :
    (∀ o l, Ev.cont o l ∉ tr) ∧ Ev.endPkt ∉ tr ∧ s' ≠ .open_ := by
  induction tr generalizing s with
  | nil => simp at h; subst h; simp [hs]
  | cons e es ih =>
    obtain ⟨m, hm, hrest⟩ := accepts_cons_some h
    have hmo : m ≠ .open_ := by
      intro hmo; subst hmo
      rcases step_to_open hm with ⟨_, o, l, he⟩ | ⟨hso, _⟩
      · exact hnb o l (by simp [he])
      · exact hs hso
    have ⟨h1, h2, h3⟩ := ih hrest hmo (fun o l hx => hnb o l (List.mem_cons_of_mem _ hx))
    refine ⟨?_, ?_, h3⟩
    · intro o l hx
      rcases List.mem_cons.mp hx with hx | hx
      · subst hx; exact hs (step_cont hm).1
      · exact h1 o l hx
    · intro hx
      rcases List.mem_cons.mp hx with hx | hx
      · subst hx; exact hs (step_end hm).1
      · exact h2 hx

/-- **a packet is closed at most once**: after a closing callback (`endPkt`, or `ccErr`) no further
`endPkt` (nor `cont`) is legal until another `beginPkt` has opened a new packet -/
theorem closed_at_most_once {s s' : PState} {pre mid post : List Ev} {c e : Ev}
    (h : accepts s (pre ++ c :: (mid ++ e :: post)) = some s')
    (hc : c = .endPkt ∨ c = .ccErr) (he : (∃ o l, e = .cont o l) ∨ e = .endPkt) :
    ∃ o l, Ev.beginPkt o l ∈ mid := by
  obtain ⟨m, _, hpost⟩ := accepts_append_some h
  obtain ⟨m', hm', hrest⟩ := accepts_cons_some hpost
  have hm'o : m' ≠ .open_ := by
    rcases hc with hc | hc
    · subst hc; rw [(step_end hm').2]; simp
    · subst hc; exact (step_ccErr hm').1
  obtain ⟨pre', o, l, mid', heq, _⟩ := cont_end_preceded_by_begin hrest hm'o he
  exact ⟨o, l, by simp [heq]⟩

/-! ### non-vacuity: the acceptor accepts a typical trace and rejects the two defect traces -/
example : accepts .notStarted [.ccErr, .start, .beginPkt 4 184, .cont 4 184, .endPkt, .beginPkt 4 184,
    .ccErr, .ccErr, .beginPkt 12 176, .endPkt] = some .idle := by decide
example : accepts .notStarted [.ccErr, .beginPkt 4 184] = none := by decide
example : accepts .notStarted [.start, .cont 4 184, .endPkt, .beginPkt 4 184] = none := by decide
example : accepts .notStarted [.start, .start] = none := by decide
example : accepts .notStarted [.start, .beginPkt 4 184, .endPkt, .endPkt] = none := by decide

end Ts.Spec.Protocol
