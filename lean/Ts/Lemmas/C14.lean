import Ts.Lemmas.BitOps
import Ts.Spec.Bits
import Ts.Spec.PesSpec
import Ts.Model.Pes
/-!
Helper lemmas for C14 (PES header), part 1: translations between the spec's and the model's
result types, bit-field lemmas, the closed form of the sequential parser, and the flag-byte
tables (checked on all 256 flag bytes).
-/
namespace Ts.Lemmas.C14
open Ts Ts.Spec Ts.Spec.PesSpec

/-! ### translations: spec outcomes to the model's (= the code's) result types -/

def tsRes : Ts33 → Time.TsRes
  | .markerCleared b => .error (.markerBitNotSet b)
  | .value v => .ok v

def ptsDtsConv : PtsDtsVal → Pes.PtsDts
  | .ptsOnly p => .ptsOnly (tsRes p)
  | .both p d => .both (tsRes p) (tsRes d)

def escrConv (e : EscrVal) : Time.ClockRef := ⟨e.base, e.ext⟩

def trickConv : TrickVal → Pes.Trick
  | .fastForward a b c => .fastForward a b c
  | .slowMotion r => .slowMotion r
  | .freezeFrame a b => .freezeFrame a b
  | .fastReverse a b c => .fastReverse a b c
  | .slowReverse r => .slowReverse r
  | .reserved k => .reserved k

/-- present ↦ `Ok`, absent ↦ `FieldNotPresent`, truncated ↦ `NotEnoughData`,
forbidden ↦ `PtsDtsFlagsInvalid` -/
def resOf {α β : Type} (conv : α → β) : Field α → Pes.Res β
  | .absent => .error .fieldNotPresent
  | .forbidden => .error .ptsDtsFlagsInvalid
  | .truncated => .error .notEnoughData
  | .present v => .ok (conv v)

/-- additional_copy_info: a present field with a cleared marker is `MarkerBitNotSet` -/
def copyInfoRes : Field CopyInfoVal → Pes.Res Nat
  | .absent => .error .fieldNotPresent
  | .forbidden => .error .ptsDtsFlagsInvalid
  | .truncated => .error .notEnoughData
  | .present .markerCleared => .error .markerBitNotSet
  | .present (.value v) => .ok v

/-! ### `R` results as options (to state finite tables decidably) -/

def okVal {α : Type} : R α → Option α
  | .ok a => some a
  | .panic _ => none

theorem eq_ok_of_okVal {α : Type} {x : R α} {v : α} (h : okVal x = some v) : x = .ok v := by
  cases x with
  | ok a => simp [okVal] at h; rw [h]
  | panic s => simp [okVal] at h

/-! ### bit fields at symbolic byte positions -/

/-- a field inside byte `i`, at a bit position given as any expression equal to `8*i + o` -/
theorem rb (c : Bytes) (pos i o n : Nat) (hp : pos = 8 * i + o) (h : o + n ≤ 8) :
    readBits c pos n = byteD c i / 2 ^ (8 - o - n) % 2 ^ n := by
  subst hp; exact readBits_sub c i o n h

theorem rb_byte (c : Bytes) (pos i : Nat) (hp : pos = 8 * i) : readBits c pos 8 = byteD c i := by
  subst hp; exact readBits_byte c i

theorem flagBit_eq (c : Bytes) (pos i o : Nat) (hp : pos = 8 * i + o) (h : o + 1 ≤ 8) :
    flagBit c pos = (byteD c i / 2 ^ (8 - o - 1) % 2 == 1) := by
  unfold flagBit; rw [rb c pos i o 1 hp h]

/-! ### the flag byte -/

def flagsOfByte (f : Nat) : Flags :=
  { ptsDts := f / 64 % 4
    escr := f / 32 % 2 == 1
    esRate := f / 16 % 2 == 1
    trick := f / 8 % 2 == 1
    copyInfo := f / 4 % 2 == 1
    crc := f / 2 % 2 == 1
    ext := f % 2 == 1 }

theorem flagsOf_eq (c : Bytes) : flagsOf c = flagsOfByte (byteD c 1) := by
  unfold flagsOf flagsOfByte
  rw [rb c 8 1 0 2 (by omega) (by omega), flagBit_eq c 10 1 2 (by omega) (by omega),
    flagBit_eq c 11 1 3 (by omega) (by omega), flagBit_eq c 12 1 4 (by omega) (by omega),
    flagBit_eq c 13 1 5 (by omega) (by omega), flagBit_eq c 14 1 6 (by omega) (by omega),
    flagBit_eq c 15 1 7 (by omega) (by omega)]
  simp

theorem hdl_eq (c : Bytes) : hdl c = byteD c 2 := rb_byte c 16 2 (by omega)

/-! ### closed form of the sequential parser: where each field is read -/

def ptsDtsSize : Nat → Nat
  | 2 => 5
  | 3 => 10
  | _ => 0

/-- cursor after an `n`-byte field guarded by `flag` -/
def adv (flag : Bool) (n cur : Nat) : Nat := if flag then cur + n else cur

theorem le_adv (flag : Bool) (n cur : Nat) : cur ≤ adv flag n cur := by
  unfold adv; split <;> omega

def curEscr (F : Flags) : Nat := 3 + ptsDtsSize F.ptsDts
def curEsRate (F : Flags) : Nat := adv F.escr 6 (curEscr F)
def curTrick (F : Flags) : Nat := adv F.esRate 3 (curEsRate F)
def curCopyInfo (F : Flags) : Nat := adv F.trick 1 (curTrick F)
def curCrc (F : Flags) : Nat := adv F.copyInfo 1 (curCopyInfo F)
def curExt (F : Flags) : Nat := adv F.crc 2 (curCrc F)

/-- outcome of an `n`-byte field read at `cur` -/
def fieldAt {α : Type} (c : Bytes) (flag : Bool) (n : Nat) (decode : Nat → α) (cur : Nat) : Field α :=
  if !flag then .absent else if cur + n ≤ limit c then .present (decode cur) else .truncated

theorem parse_ptsDts (c : Bytes) : (parse c).ptsDts =
    match (flagsOf c).ptsDts with
    | 2 => fieldAt c true 5 (fun p => PtsDtsVal.ptsOnly (timestampAt c p)) 3
    | 3 => fieldAt c true 10 (fun p => PtsDtsVal.both (timestampAt c p) (timestampAt c (p + 5))) 3
    | 1 => Field.forbidden
    | _ => Field.absent := by
  unfold parse
  generalize flagsOf c = F
  obtain ⟨pd, e, r, t, a, k, x⟩ := F
  match pd with
  | 0 | 1 | 2 | 3 | _ + 4 => rfl

theorem parse_escr (c : Bytes) :
    (parse c).escr = fieldAt c (flagsOf c).escr 6 (escrAt c) (curEscr (flagsOf c)) := by
  unfold parse
  generalize flagsOf c = F
  obtain ⟨pd, e, r, t, a, k, x⟩ := F
  match pd with
  | 0 | 1 | 2 | 3 | _ + 4 => rfl

theorem parse_esRate (c : Bytes) :
    (parse c).esRate = fieldAt c (flagsOf c).esRate 3 (esRateAt c) (curEsRate (flagsOf c)) := by
  unfold parse
  generalize flagsOf c = F
  obtain ⟨pd, e, r, t, a, k, x⟩ := F
  match pd with
  | 0 | 1 | 2 | 3 | _ + 4 => rfl

theorem parse_trick (c : Bytes) :
    (parse c).trick = fieldAt c (flagsOf c).trick 1 (trickAt c) (curTrick (flagsOf c)) := by
  unfold parse
  generalize flagsOf c = F
  obtain ⟨pd, e, r, t, a, k, x⟩ := F
  match pd with
  | 0 | 1 | 2 | 3 | _ + 4 => rfl

theorem parse_copyInfo (c : Bytes) :
    (parse c).copyInfo = fieldAt c (flagsOf c).copyInfo 1 (copyInfoAt c) (curCopyInfo (flagsOf c)) := by
  unfold parse
  generalize flagsOf c = F
  obtain ⟨pd, e, r, t, a, k, x⟩ := F
  match pd with
  | 0 | 1 | 2 | 3 | _ + 4 => rfl

theorem parse_prevCrc (c : Bytes) :
    (parse c).prevCrc = fieldAt c (flagsOf c).crc 2 (crcAt c) (curCrc (flagsOf c)) := by
  unfold parse
  generalize flagsOf c = F
  obtain ⟨pd, e, r, t, a, k, x⟩ := F
  match pd with
  | 0 | 1 | 2 | 3 | _ + 4 => rfl

theorem parse_extension (c : Bytes) :
    (parse c).extension =
      if !(flagsOf c).ext then .absent
      else if curExt (flagsOf c) ≤ 3 + hdl c ∧ 3 + hdl c ≤ c.length then
        .present (curExt (flagsOf c), 3 + hdl c - curExt (flagsOf c))
      else .truncated := by
  unfold parse
  generalize flagsOf c = F
  obtain ⟨pd, e, r, t, a, k, x⟩ := F
  match pd with
  | 0 | 1 | 2 | 3 | _ + 4 => rfl

theorem parse_fixedEnd (c : Bytes) : (parse c).fixedEnd = curExt (flagsOf c) := by
  unfold parse
  generalize flagsOf c = F
  obtain ⟨pd, e, r, t, a, k, x⟩ := F
  match pd with
  | 0 | 1 | 2 | 3 | _ + 4 => rfl

theorem fixedFieldsEnd_eq (F : Flags) : fixedFieldsEnd F = curExt F := by
  obtain ⟨pd, e, r, t, a, k, x⟩ := F
  match pd with
  | 0 | 1 | 2 | 3 | _ + 4 => rfl

theorem parse_payloadOffset (c : Bytes) : (parse c).payloadOffset = 3 + hdl c := by
  unfold parse
  generalize flagsOf c = F
  obtain ⟨pd, e, r, t, a, k, x⟩ := F
  match pd with
  | 0 | 1 | 2 | 3 | _ + 4 => rfl

theorem parse_bits (c : Bytes) : (parse c).priority = readBits c 4 1 ∧
    (parse c).dataAlignment = flagBit c 5 ∧ (parse c).copyright = flagBit c 6 ∧
    (parse c).original = flagBit c 7 := by
  unfold parse
  generalize flagsOf c = F
  obtain ⟨pd, e, r, t, a, k, x⟩ := F
  match pd with
  | 0 | 1 | 2 | 3 | _ + 4 => exact ⟨rfl, rfl, rfl, rfl⟩

theorem three_le_curExt (F : Flags) : 3 ≤ curExt F := by
  have h0 : 3 ≤ curEscr F := by unfold curEscr; omega
  have h1 := le_adv F.escr 6 (curEscr F)
  have h2 := le_adv F.esRate 3 (curEsRate F)
  have h3 := le_adv F.trick 1 (curTrick F)
  have h4 := le_adv F.copyInfo 1 (curCopyInfo F)
  have h5 := le_adv F.crc 2 (curCrc F)
  unfold curExt curCrc curCopyInfo curTrick curEsRate at *
  omega

/-! ### flag-byte tables: the model's offset chain equals the parser's cursor (all 256 bytes) -/

theorem tbl_flags : ∀ f : Fin 256,
    Pes.ptsDtsFlags f.val = (flagsOfByte f.val).ptsDts ∧
    Pes.escrFlag f.val = (flagsOfByte f.val).escr ∧
    Pes.esRateFlag f.val = (flagsOfByte f.val).esRate ∧
    Pes.trickFlag f.val = (flagsOfByte f.val).trick ∧
    Pes.aciFlag f.val = (flagsOfByte f.val).copyInfo ∧
    Pes.crcFlag f.val = (flagsOfByte f.val).crc ∧
    Pes.extFlag f.val = (flagsOfByte f.val).ext := by decide +kernel

theorem tbl_ends : ∀ f : Fin 256,
    okVal (Pes.ptsDtsEnd f.val) = some (curEscr (flagsOfByte f.val)) ∧
    okVal (Pes.escrEnd f.val) = some (curEsRate (flagsOfByte f.val)) ∧
    okVal (Pes.esRateEnd f.val) = some (curTrick (flagsOfByte f.val)) ∧
    okVal (Pes.trickEnd f.val) = some (curCopyInfo (flagsOfByte f.val)) ∧
    okVal (Pes.aciEnd f.val) = some (curCrc (flagsOfByte f.val)) ∧
    okVal (Pes.crcEnd f.val) = some (curExt (flagsOfByte f.val)) := by decide +kernel

theorem ptsDts_lt (f : Nat) : (flagsOfByte f).ptsDts < 4 := by
  unfold flagsOfByte; exact Nat.mod_lt _ (by decide)

section
variable (f : Nat) (hf : f < 256)
include hf
theorem ptsDtsFlags_eq : Pes.ptsDtsFlags f = (flagsOfByte f).ptsDts := (tbl_flags ⟨f, hf⟩).1
theorem escrFlag_eq : Pes.escrFlag f = (flagsOfByte f).escr := (tbl_flags ⟨f, hf⟩).2.1
theorem esRateFlag_eq : Pes.esRateFlag f = (flagsOfByte f).esRate := (tbl_flags ⟨f, hf⟩).2.2.1
theorem trickFlag_eq : Pes.trickFlag f = (flagsOfByte f).trick := (tbl_flags ⟨f, hf⟩).2.2.2.1
theorem aciFlag_eq : Pes.aciFlag f = (flagsOfByte f).copyInfo := (tbl_flags ⟨f, hf⟩).2.2.2.2.1
theorem crcFlag_eq : Pes.crcFlag f = (flagsOfByte f).crc := (tbl_flags ⟨f, hf⟩).2.2.2.2.2.1
theorem extFlag_eq : Pes.extFlag f = (flagsOfByte f).ext := (tbl_flags ⟨f, hf⟩).2.2.2.2.2.2
theorem ptsDtsEnd_eq : Pes.ptsDtsEnd f = .ok (curEscr (flagsOfByte f)) :=
  eq_ok_of_okVal (tbl_ends ⟨f, hf⟩).1
theorem escrEnd_eq : Pes.escrEnd f = .ok (curEsRate (flagsOfByte f)) :=
  eq_ok_of_okVal (tbl_ends ⟨f, hf⟩).2.1
theorem esRateEnd_eq : Pes.esRateEnd f = .ok (curTrick (flagsOfByte f)) :=
  eq_ok_of_okVal (tbl_ends ⟨f, hf⟩).2.2.1
theorem trickEnd_eq : Pes.trickEnd f = .ok (curCopyInfo (flagsOfByte f)) :=
  eq_ok_of_okVal (tbl_ends ⟨f, hf⟩).2.2.2.1
theorem aciEnd_eq : Pes.aciEnd f = .ok (curCrc (flagsOfByte f)) :=
  eq_ok_of_okVal (tbl_ends ⟨f, hf⟩).2.2.2.2.1
theorem crcEnd_eq : Pes.crcEnd f = .ok (curExt (flagsOfByte f)) :=
  eq_ok_of_okVal (tbl_ends ⟨f, hf⟩).2.2.2.2.2
end

end Ts.Lemmas.C14
