import Ts.Lemmas.Projb
import Ts.Lemmas.C10b
/-!
# Helper lemmas for C02, part 3: satisfiable hypotheses for the interleaving theorems

`QueuesNothingFor App.sem p pk` is unsatisfiable (`Ts.Props.C02.queuesNothingFor_unsat`).  This file
provides what replaces it:

* `keeps_of_quietAlong`: the run-relative `QuietAlong` (C02b) implies the run-relative `Keeps` (Projb);
* `Benign`: an INPUT-LEVEL condition on one packet relative to the table at the START of the run —
  its PID holds a PES handler (another elementary stream), or a quiescent PAT/PMT handler and the
  packet is a repetition (C10 `RepPacket`), or a recorder / nothing (e.g. null packets) and the
  harness script has no entry for it;
* `quietAlong_of_benign`, `keeps_of_benign`: if every packet of the interleaving is benign then no
  handler taking part in the run queues any change, hence `QuietAlong` for every `p`, hence `Keeps`.
-/
namespace Ts.Lemmas.C02
open Ts Ts.Demux Ts.App Ts.Lemmas.Proj
open Ts.Lemmas.C19 (R.bind_eq_ok R.ok_inj)
open Ts.Lemmas.C10 (RepPacket QuiescentH RepRel app_rep_noop pes_consume_shape)

/-! ### `QuietAlong` implies `Keeps` -/

/-- one dispatcher step on the PID of a PES handler (ANY packet length, flagged or not): if it
succeeds the slot holds a PES handler with the same tag, every other slot is untouched -/
theorem specStep_pes_slot (t : Tab Handler) (c : Ctx) (pk : Pk) (tag : Nat) (f : PesFilter.F)
    (hg : t.get pk.pid = some (.pes tag f)) (t1 : Tab Handler) (c1 : Ctx)
    (h : specStep App.sem (t, c) pk = .ok (t1, c1)) :
    (∃ f1, t1.get pk.pid = some (.pes tag f1)) ∧ ∀ r, r ≠ pk.pid → t1.get r = t.get r := by
  obtain ⟨f1, a, b, _⟩ := Ts.Lemmas.C10.pes_step_result t c pk tag f hg t1 c1 h
  exact ⟨⟨f1, a⟩, b⟩

/-- a run that is quiet for `p` never replaces or removes the PES handler in slot `p` -/
theorem keeps_of_quietAlong (p τ : Nat) : ∀ (xs : List Pk) (t : Tab Handler) (c : Ctx)
    (f : PesFilter.F), t.get p = some (.pes τ f) → QuietAlong App.sem p (t, c) xs →
    Keeps p τ (t, c) xs = true := by
  intro xs
  induction xs with
  | nil => intro t c f _ _; rfl
  | cons pk xs ih =>
    intro t c f hg hQ
    unfold Keeps
    cases hstep : specStep App.sem (t, c) pk with
    | panic s => rfl
    | ok r =>
      obtain ⟨t1, c1⟩ := r
      dsimp only
      have key : ∃ f1, t1.get p = some (.pes τ f1) := by
        by_cases hp : pk.pid = p
        · subst hp
          exact (specStep_pes_slot t c pk τ f hg t1 c1 hstep).1
        · refine ⟨f, ?_⟩
          rw [specStep_frame' App.sem t c pk t1 c1 p hp hstep (fun hf => hQ.1 hp hf)]
          exact hg
      obtain ⟨f1, hf1⟩ := key
      rw [(holdsPes_iff t1 p τ).2 ⟨f1, hf1⟩, ih t1 c1 f1 hf1 (hQ.2 (t1, c1) hstep)]
      rfl

/-! ### benign traffic -/

/-- INPUT-LEVEL condition on a packet `pk`, relative to a table `t` (the table at the START of the
run), the versions `ver q` the table handlers are quiescent at, and the harness script:
* (ES) the slot of `pk.pid` holds a PES handler — `pk` belongs to an elementary stream; or
* (TABLE) it holds a PAT / PMT handler quiescent at version `ver pk.pid` (C10 `QuiescentH`) and `pk`
  is flagged (transport error / scrambled: not consumed) or a repetition packet of that version
  (C10 `RepPacket`: 188 bytes whose payload, if any, is a continuation payload or the first payload
  of a packetisation of a well-formed section with that version); or
* (REC) it holds a recorder, or nothing and `pk.pid ≠ 0` (the application then constructs a
  recorder; e.g. null packets on PID 0x1fff), and `pk` is flagged or the script has no entry for
  the packet's index. -/
def Benign (ver : Nat → Nat) (script : List (Nat × List ScriptOp)) (t : Tab Handler) (pk : Pk) : Prop :=
  (∃ σ g, t.get pk.pid = some (.pes σ g))
  ∨ ((∃ h, t.get pk.pid = some h ∧ QuiescentH (ver pk.pid) h)
      ∧ (pk.flagged = true ∨ RepPacket (ver pk.pid) pk.bytes))
  ∨ (((∃ σ, t.get pk.pid = some (.recorder σ)) ∨ (t.get pk.pid = none ∧ pk.pid ≠ 0))
      ∧ (pk.flagged = true ∨ script.lookup (pk.off / 188) = none))

/-- the same for the handler that consumes the packet (after lookup-or-construct) -/
def HOk (v : Nat) (script : List (Nat × List ScriptOp)) (h : Handler) (pk : Pk) : Prop :=
  (∃ σ g, h = .pes σ g)
  ∨ (QuiescentH v h ∧ (pk.flagged = true ∨ RepPacket v pk.bytes))
  ∨ ((∃ σ, h = .recorder σ) ∧ (pk.flagged = true ∨ script.lookup (pk.off / 188) = none))

theorem benign_of_some (ver : Nat → Nat) (s : List (Nat × List ScriptOp)) (t : Tab Handler) (pk : Pk)
    (h : Handler) (hg : t.get pk.pid = some h) : Benign ver s t pk ↔ HOk (ver pk.pid) s h pk := by
  unfold Benign HOk
  rw [hg]
  constructor
  · rintro (⟨σ, g, e⟩ | ⟨⟨h0, e, hq⟩, x⟩ | ⟨(⟨σ, e⟩ | ⟨e, _⟩), x⟩)
    · injection e with e; exact Or.inl ⟨σ, g, e⟩
    · injection e with e; subst e; exact Or.inr (Or.inl ⟨hq, x⟩)
    · injection e with e; exact Or.inr (Or.inr ⟨⟨σ, e⟩, x⟩)
    · cases e
  · rintro (⟨σ, g, e⟩ | ⟨hq, x⟩ | ⟨⟨σ, e⟩, x⟩)
    · exact Or.inl ⟨σ, g, by rw [e]⟩
    · exact Or.inr (Or.inl ⟨⟨h, rfl, hq⟩, x⟩)
    · exact Or.inr (Or.inr ⟨Or.inl ⟨σ, by rw [e]⟩, x⟩)

theorem benign_of_none (ver : Nat → Nat) (s : List (Nat × List ScriptOp)) (t : Tab Handler) (pk : Pk)
    (hg : t.get pk.pid = none) :
    Benign ver s t pk ↔ pk.pid ≠ 0 ∧ (pk.flagged = true ∨ s.lookup (pk.off / 188) = none) := by
  unfold Benign
  rw [hg]
  constructor
  · rintro (⟨σ, g, e⟩ | ⟨⟨h0, e, hq⟩, x⟩ | ⟨(⟨σ, e⟩ | ⟨_, e⟩), x⟩)
    · cases e
    · cases e
    · cases e
    · exact ⟨e, x⟩
  · rintro ⟨e, x⟩
    exact Or.inr (Or.inr ⟨Or.inr ⟨rfl, e⟩, x⟩)

/-- `construct(ByPid(pid))` for `pid ≠ 0` yields a recorder -/
theorem construct_byPid_ne_zero (c : Ctx) (pid : Nat) (h : pid ≠ 0) :
    (construct c (.byPid pid)).1 = .recorder c.nextTag := by
  cases pid with
  | zero => exact absurd rfl h
  | succ n => rfl

/-- ONE `consume` by a handler that is OK for the unflagged packet `pk`: NO change is queued, and
the handler it returns is OK for exactly the packets the old one was OK for -/
theorem hok_consume (v : Nat) (h : Handler) (c : Ctx) (pk : Pk) (h' : Handler) (c' : Ctx)
    (chg : List (Change Handler)) (hk : HOk v c.cfg.script h pk) (hf : pk.flagged = false)
    (hc : App.consume h c pk = .ok (h', c', chg)) :
    chg = [] ∧ ∀ pk', HOk v c.cfg.script h pk' → HOk v c.cfg.script h' pk' := by
  rcases hk with ⟨σ, g, e⟩ | ⟨hq, x⟩ | ⟨⟨σ, e⟩, x⟩
  · subst e
    obtain ⟨e1, f', e2⟩ := pes_consume_shape σ g c pk h' c' chg hc
    exact ⟨e1, fun _ _ => Or.inl ⟨σ, f', e2⟩⟩
  · have hp : RepPacket v pk.bytes := by
      rcases x with x | x
      · rw [hf] at x; cases x
      · exact x
    obtain ⟨h'', h1, h2⟩ := app_rep_noop v h hq c pk hp
    rw [h1] at hc
    have := R.ok_inj hc
    simp only [Prod.mk.injEq] at this
    obtain ⟨e1, _, e3⟩ := this
    subst e1
    refine ⟨e3.symm, ?_⟩
    intro pk' hk'
    rcases hk' with ⟨σ, g, e⟩ | ⟨_, y⟩ | ⟨⟨σ, e⟩, _⟩
    · subst e; exact absurd hq (by simp [QuiescentH])
    · exact Or.inr (Or.inl ⟨h2.quiescent, y⟩)
    · subst e; exact absurd hq (by simp [QuiescentH])
  · subst e
    have hl : c.cfg.script.lookup (pk.off / 188) = none := by
      rcases x with x | x
      · rw [hf] at x; cases x
      · exact x
    unfold App.consume at hc
    dsimp only at hc
    rw [hl] at hc
    have key : R.ok (Handler.recorder σ, c.emit (.pkt σ pk.off), ([] : List (Change Handler)))
        = R.ok (h', c', chg) := by
      split at hc
      · obtain ⟨_, _, hc⟩ := R.bind_eq_ok hc
        exact hc
      · exact hc
    have := R.ok_inj key
    simp only [Prod.mk.injEq] at this
    obtain ⟨e1, _, e3⟩ := this
    subst e1
    exact ⟨e3.symm, fun _ hk' => hk'⟩

/-- lookup-or-construct for a benign packet: the handler then registered for its PID is OK for it
(and for every later benign packet of that PID); the configuration is untouched; other slots too -/
theorem ensure_benign (ver : Nat → Nat) (t : Tab Handler) (c : Ctx) (pk : Pk) (t0 : Tab Handler)
    (c0 : Ctx) (hb : Benign ver c.cfg.script t pk) (hE : ensure App.sem t c pk.pid = .ok (t0, c0)) :
    c0.cfg = c.cfg ∧ (∀ r, r ≠ pk.pid → t0.get r = t.get r) ∧
    ∃ h0, t0.get pk.pid = some h0 ∧ HOk (ver pk.pid) c.cfg.script h0 pk ∧
      ∀ pk', pk'.pid = pk.pid → Benign ver c.cfg.script t pk' → HOk (ver pk.pid) c.cfg.script h0 pk' := by
  refine ⟨?_, fun r hr => ensure_get_ne App.sem t c pk.pid t0 c0 hE r hr, ?_⟩
  · rcases ensure_cases t c pk.pid t0 c0 hE with ⟨_, _, e⟩ | ⟨_, _, e⟩
    · rw [e]
    · rw [e, construct_ctx]; rfl
  · rcases ensure_cases t c pk.pid t0 c0 hE with ⟨hc, e1, _⟩ | ⟨hn, e1, _⟩
    · obtain ⟨h, hg⟩ := (Tab.contains_eq_true_iff _ _).1 hc
      rw [e1]
      refine ⟨h, hg, (benign_of_some ver _ t pk h hg).1 hb, ?_⟩
      intro pk' hp' hb'
      have := (benign_of_some ver _ t pk' h (by rw [hp']; exact hg)).1 hb'
      rw [hp'] at this
      exact this
    · have h0 := ((benign_of_none ver _ t pk hn).1 hb)
      rw [e1, construct_byPid_ne_zero c pk.pid h0.1]
      refine ⟨_, Tab.get_insert_self _ _ _, Or.inr (Or.inr ⟨⟨_, rfl⟩, h0.2⟩), ?_⟩
      intro pk' hp' hb'
      have := ((benign_of_none ver _ t pk' (by rw [hp']; exact hn)).1 hb').2
      exact Or.inr (Or.inr ⟨⟨_, rfl⟩, this⟩)

/-- no handler that consumes a benign packet queues a change (the step condition of `QuietAlong`,
for every `p` at once) -/
theorem benign_queues_nothing (ver : Nat → Nat) (t : Tab Handler) (c : Ctx) (pk : Pk)
    (hb : Benign ver c.cfg.script t pk) (hf : pk.flagged = false)
    (t1 : Tab Handler) (c1 : Ctx) (h h' : Handler) (c2 : Ctx) (chg : List (Change Handler))
    (hE : ensure App.sem t c pk.pid = .ok (t1, c1)) (hg : t1.get pk.pid = some h)
    (hc : App.sem.consume h c1 pk = .ok (h', c2, chg)) : chg = [] := by
  obtain ⟨hcfg, _, h0, hg0, hk0, _⟩ := ensure_benign ver t c pk t1 c1 hb hE
  rw [hg] at hg0
  injection hg0 with hg0
  subst hg0
  rw [← hcfg] at hk0
  exact (hok_consume (ver pk.pid) h c1 pk h' c2 chg hk0 hf hc).1

/-- ONE dispatcher step on a benign packet: the configuration is untouched and every packet that
was benign for the table before the step is benign for the table after it -/
theorem benign_step (ver : Nat → Nat) (t : Tab Handler) (c : Ctx) (pk : Pk) (t1 : Tab Handler)
    (c1 : Ctx) (hb : Benign ver c.cfg.script t pk)
    (hstep : specStep App.sem (t, c) pk = .ok (t1, c1)) :
    c1.cfg = c.cfg ∧ ∀ pk', Benign ver c.cfg.script t pk' → Benign ver c.cfg.script t1 pk' := by
  rw [specStep_eq] at hstep
  obtain ⟨r, hE, hstep⟩ := R.bind_eq_ok hstep
  obtain ⟨t0, c0⟩ := r
  obtain ⟨hcfg, hne, h0, hg0, hk0, hall⟩ := ensure_benign ver t c pk t0 c0 hb hE
  dsimp only at hstep
  -- the slot of `pk.pid` after the step holds a handler that is OK for whatever `h0` was OK for
  have key : c1.cfg = c.cfg ∧ (∀ r, r ≠ pk.pid → t1.get r = t.get r) ∧
      ∃ h1, t1.get pk.pid = some h1 ∧
        ∀ pk', HOk (ver pk.pid) c.cfg.script h0 pk' → HOk (ver pk.pid) c.cfg.script h1 pk' := by
    cases hf : pk.flagged with
    | true =>
      rw [hf] at hstep
      simp only [if_true] at hstep
      have := R.ok_inj hstep
      simp only [Prod.mk.injEq] at this
      obtain ⟨e1, e2⟩ := this
      subst e1 e2
      exact ⟨hcfg, hne, h0, hg0, fun _ h => h⟩
    | false =>
      rw [hf] at hstep
      simp only [Bool.false_eq_true, if_false, hg0] at hstep
      obtain ⟨x, hx, hstep⟩ := R.bind_eq_ok hstep
      obtain ⟨h', c2, chg⟩ := x
      have := R.ok_inj hstep
      simp only [Prod.mk.injEq] at this
      obtain ⟨e1, e2⟩ := this
      subst e1 e2
      have hx' : App.consume h0 c0 pk = .ok (h', c2, chg) := hx
      obtain ⟨⟨⟨hc2, _⟩, _⟩, _⟩ := consume_facts h0 c0 pk h' c2 chg hx'
      have hk0' : HOk (ver pk.pid) c0.cfg.script h0 pk := by rw [hcfg]; exact hk0
      obtain ⟨hnil, hpres⟩ := hok_consume (ver pk.pid) h0 c0 pk h' c2 chg hk0' hf hx'
      subst hnil
      rw [hcfg] at hpres
      refine ⟨by rw [hc2, hcfg], ?_, h', ?_, hpres⟩
      · intro r hr
        show (applyChanges (t0.insert pk.pid h') []).get r = _
        rw [applyChanges_nil, Tab.get_insert_ne _ _ _ _ hr, hne r hr]
      · show (applyChanges (t0.insert pk.pid h') []).get pk.pid = _
        rw [applyChanges_nil, Tab.get_insert_self]
  obtain ⟨k1, k2, h1, k3, k4⟩ := key
  refine ⟨k1, ?_⟩
  intro pk' hb'
  by_cases hp' : pk'.pid = pk.pid
  · have := k4 pk' (hall pk' hp' hb')
    rw [← hp'] at this
    exact (benign_of_some ver _ t1 pk' h1 (by rw [hp']; exact k3)).2 this
  · unfold Benign at hb' ⊢
    rw [k2 pk'.pid hp']
    exact hb'

/-- INPUT-LEVEL ⇒ RUN-RELATIVE: if every packet of `xs` is benign for the table `t` at the start
(`Benign`, with the script of the context `c` at the start), then along the run no handler that
consumes a packet queues ANY change; in particular the run is quiet for every `p` -/
theorem quietAlong_of_benign (ver : Nat → Nat) (p : Nat) : ∀ (xs : List Pk) (t : Tab Handler) (c : Ctx),
    (∀ pk ∈ xs, Benign ver c.cfg.script t pk) → QuietAlong App.sem p (t, c) xs := by
  intro xs
  induction xs with
  | nil => intro _ _ _; trivial
  | cons pk xs ih =>
    intro t c hall
    refine ⟨?_, ?_⟩
    · intro _ hf t1 c1 h h' c2 chg hE hg hc ch hch
      rw [benign_queues_nothing ver t c pk (hall pk List.mem_cons_self) hf t1 c1 h h' c2 chg hE hg hc] at hch
      cases hch
    · rintro ⟨t1, c1⟩ hstep
      obtain ⟨hcfg, hpres⟩ := benign_step ver t c pk t1 c1 (hall pk List.mem_cons_self) hstep
      apply ih t1 c1
      intro pk' hm
      show Benign ver c1.cfg.script t1 pk'
      rw [hcfg]
      exact hpres pk' (hall pk' (List.mem_cons_of_mem _ hm))

/-- a packet on the PID of a PES handler is benign -/
theorem benign_of_pes (ver : Nat → Nat) (s : List (Nat × List ScriptOp)) (t : Tab Handler) (pk : Pk)
    (σ : Nat) (g : PesFilter.F) (hg : t.get pk.pid = some (.pes σ g)) : Benign ver s t pk :=
  Or.inl ⟨σ, g, hg⟩

/-- INPUT-LEVEL ⇒ `Keeps`: slot `p` holds a PES handler tagged `τ`, every packet of another PID is
benign; then the consumer `τ` is never replaced or removed along the run -/
theorem keeps_of_benign (ver : Nat → Nat) (p τ : Nat) (xs : List Pk) (t : Tab Handler) (c : Ctx)
    (f : PesFilter.F) (hg : t.get p = some (.pes τ f))
    (hall : ∀ pk ∈ xs, pk.pid ≠ p → Benign ver c.cfg.script t pk) :
    Keeps p τ (t, c) xs = true := by
  refine keeps_of_quietAlong p τ xs t c f hg (quietAlong_of_benign ver p xs t c ?_)
  intro pk hm
  by_cases hp : pk.pid = p
  · exact benign_of_pes ver _ t pk τ f (by rw [hp]; exact hg)
  · exact hall pk hm hp

/-! ### concrete data for the non-vacuity examples: an interleaving with repeated tables -/

section data
open Ts.Spec.PesMux Ts.Spec.SectionMux Ts.Lemmas.C10 Ts.Lemmas.C03

/-- the section carried by `exPat` (16 bytes, `version_number = 0`; CRC bytes are garbage, which a
repetition never gets to: the dedup layer drops it first) -/
def exPatSec : Bytes :=
  [0x00, 0xB0, 0x0D, 0x00, 0x01, 0xC1, 0x00, 0x00, 0x00, 0x01, 0xE0, 0x20, 0xDE, 0xAD, 0xBE, 0xEF]

/-- the section carried by `exPmt2` (26 bytes, `version_number = 0`) -/
def exPmtSec : Bytes :=
  [0x02, 0xB0, 0x17, 0x00, 0x01, 0xC1, 0x00, 0x00, 0xE0, 0x21, 0xF0, 0x00,
   0x1B, 0xE0, 0x21, 0xF0, 0x00, 0x0F, 0xE0, 0x22, 0xF0, 0x00, 0xDE, 0xAD, 0xBE, 0xEF]

/-- `exPat` again is a repetition packet of version 0 (C10 `RepPacket`) -/
theorem exPat_rep : RepPacket 0 exPat := by
  refine ⟨by decide +kernel, ?_⟩
  intro q hq
  have : plOf exPat = some ⟨true, plBytesOf exPatSec, 4⟩ := by decide +kernel
  rw [this] at hq
  cases hq
  exact Or.inr ⟨exPatSec, muxOf exPatSec, by decide +kernel, by decide +kernel, by decide +kernel,
    by decide +kernel, rfl, by decide +kernel⟩

/-- `exPmt2` again is a repetition packet of version 0 -/
theorem exPmt2_rep : RepPacket 0 exPmt2 := by
  refine ⟨by decide +kernel, ?_⟩
  intro q hq
  have : plOf exPmt2 = some ⟨true, plBytesOf exPmtSec, 4⟩ := by decide +kernel
  rw [this] at hq
  cases hq
  exact Or.inr ⟨exPmtSec, muxOf exPmtSec, by decide +kernel, by decide +kernel, by decide +kernel,
    by decide +kernel, rfl, by decide +kernel⟩

/-- a null packet (PID 0x1fff, payload only, all stuffing) -/
def exNull : Bytes := mkTp false 0x1fff 0 none (List.replicate 184 0xff)

/-- the elementary-stream interleaving of `exPks` (PIDs 0x21 and 0x22) with a repeated PAT packet, a
repeated PMT packet and a null packet in between: `A PAT B PMT B null A A`, offsets continuing
from 376 -/
def exPksRep : List Pk :=
  [⟨exA0, 376, 0x21, false, false⟩, ⟨exPat, 564, 0, false, false⟩, ⟨exB0, 752, 0x22, false, false⟩,
   ⟨exPmt2, 940, 0x20, false, false⟩, ⟨exB1, 1128, 0x22, false, false⟩,
   ⟨exNull, 1316, 0x1fff, false, false⟩, ⟨exA1, 1504, 0x21, false, false⟩,
   ⟨exA2, 1692, 0x21, false, false⟩]

/-- every packet of `exPksRep` is benign for the table after PAT and PMT (`exTab0`): PIDs 0x21 and
0x22 hold PES handlers, PIDs 0 and 0x20 hold PAT / PMT handlers quiescent at version 0 and their
packets are repetitions, PID 0x1fff is unregistered and the script is empty -/
theorem exPksRep_benign : ∀ pk ∈ exPksRep, Benign (fun _ => 0) exCtx0.cfg.script exTab0 pk := by
  have g21 : exTab0.get 0x21 = some (.pes 2 {}) := by decide +kernel
  have g22 : exTab0.get 0x22 = some (.pes 3 {}) := by decide +kernel
  have g0 : exTab0.get 0 = some (.pat { lastVersion := some 0 } [0x20]) := by decide +kernel
  have g20 : exTab0.get 0x20 = some (.pmt 0x20 1 { lastVersion := some 0 } [0x21, 0x22]) := by
    decide +kernel
  have gn : exTab0.get 0x1fff = none := by decide +kernel
  intro pk hm
  simp only [exPksRep, List.mem_cons, List.not_mem_nil, or_false] at hm
  rcases hm with rfl | rfl | rfl | rfl | rfl | rfl | rfl | rfl
  · exact Or.inl ⟨_, _, g21⟩
  · exact Or.inr (Or.inl ⟨⟨_, g0, ⟨rfl, rfl⟩⟩, Or.inr exPat_rep⟩)
  · exact Or.inl ⟨_, _, g22⟩
  · exact Or.inr (Or.inl ⟨⟨_, g20, ⟨rfl, rfl⟩⟩, Or.inr exPmt2_rep⟩)
  · exact Or.inl ⟨_, _, g22⟩
  · exact Or.inr (Or.inr ⟨Or.inr ⟨gn, by decide⟩, Or.inr rfl⟩)
  · exact Or.inl ⟨_, _, g21⟩
  · exact Or.inl ⟨_, _, g21⟩

end data

end Ts.Lemmas.C02
