import Ts.Lemmas.C16
/-! Helper lemmas for C17 (descriptor loops and typed descriptors). -/
namespace Ts.Lemmas.C17
open Ts Ts.Spec Ts.Tables Ts.Spec.TableSpec Ts.Lemmas.C16

/-! ### the spec loop, one step at a time -/

theorem loop_nil : specDescLoop [] = ([], []) := by rw [specDescLoop]; simp
theorem loop_one (a : UInt8) : specDescLoop [a] = ([], [a]) := by rw [specDescLoop]; simp
theorem loop_fits (tag len : UInt8) (rest : Bytes) (h : len.toNat ≤ rest.length) :
    specDescLoop (tag :: len :: rest) = ((tag.toNat, rest.take len.toNat) :: (specDescLoop (rest.drop len.toNat)).1,
      (specDescLoop (rest.drop len.toNat)).2) := by
  rw [specDescLoop]; simp [h]
theorem loop_stop (tag len : UInt8) (rest : Bytes) (h : ¬ len.toNat ≤ rest.length) :
    specDescLoop (tag :: len :: rest) = ([], tag :: len :: rest) := by
  rw [specDescLoop]; simp [h]

/-! ### typed constructors -/

theorem typedNew_eq (tag : Nat) (p : Bytes) :
    typedNew tag p = .ok (if p.length < typedMinLength tag then .error .notEnoughData else .ok ()) := by
  unfold typedNew
  by_cases h5 : tag = 5
  · subst h5; simp [typedMinLength, descriptorLen]
  by_cases h10 : tag = 10
  · subst h10; simp [typedMinLength]
  by_cases h14 : tag = 14
  · subst h14; simp [typedMinLength, descriptorLen, assertR]
  by_cases h40 : tag = 40
  · subst h40; simp [typedMinLength, descriptorLen, assertR]
  · have : typedMinLength tag = 0 := by
      unfold typedMinLength; split <;> simp_all
    simp [h5, h10, h14, h40, this]

theorem core_eq (tag len : UInt8) (payload : Bytes) (h : len.toNat = payload.length) :
    coreFromBytes (tag :: len :: payload) = .ok (classify (tag.toNat, payload)) := by
  unfold coreFromBytes
  have h2 : ¬ ((tag :: len :: payload).length < 2) := by simp
  rw [if_neg h2, byteAt_ok _ 0 (by simp), byteAt_ok _ 1 (by simp)]
  simp only [R.ok_bind, byteD_cons_zero, byteD_cons_succ]
  have h3 : ¬ (len.toNat + 2 > (tag :: len :: payload).length) := by simp; omega
  rw [if_neg h3, Nat.add_comm, sliceR_ok _ 2 _ (by simp; omega)]
  simp only [R.ok_bind, typedNew_eq, classify]
  have : ((tag :: len :: payload).drop 2).take len.toNat = payload := by simp [h]
  rw [this]
  by_cases hm : payload.length < typedMinLength tag.toNat <;> simp [hm]

/-! ### the iterator: model = spec for every fuel that exceeds the length -/

theorem descIter_eq : ∀ (fuel : Nat) (buf : Bytes), buf.length < fuel →
    descIter fuel buf = .ok (specDescItems buf) := by
  intro fuel
  induction fuel with
  | zero => intro buf h; omega
  | succ n ih =>
    intro buf h
    rcases buf with _ | ⟨a, _ | ⟨b, rest⟩⟩
    · simp [descIter, specDescItems, loop_nil, trailingItems]
    · simp [descIter, specDescItems, loop_one, trailingItems]
    · have e0 : (a :: b :: rest).isEmpty = false := rfl
      have e1 : ¬ ((a :: b :: rest).length < 2) := by simp
      unfold descIter
      simp only [e0, Bool.false_eq_true, if_false, e1]
      rw [byteAt_ok _ 0 (by simp), byteAt_ok _ 1 (by simp)]
      simp only [R.ok_bind, byteD_cons_zero, byteD_cons_succ]
      have es : subR (a :: b :: rest).length 2 = .ok rest.length := by simp [subR]
      rw [es]
      simp only [R.ok_bind]
      by_cases hf : b.toNat ≤ rest.length
      · have hn : ¬ (b.toNat > rest.length) := by omega
        rw [if_neg hn, assertR_ok _ _ (by simp; omega)]
        simp only [R.ok_bind]
        have et : (a :: b :: rest).take (b.toNat + 2) = a :: b :: rest.take b.toNat := by
          simp [List.take_succ_cons]
        have ed : (a :: b :: rest).drop (b.toNat + 2) = rest.drop b.toNat := by simp
        have hl : (rest.drop b.toNat).length < n := by
          simp only [List.length_cons] at h; simp; omega
        rw [et, ed, core_eq a b _ (by simp [hf]), ih _ hl]
        simp [specDescItems, loop_fits a b rest hf]
      · have hn : b.toNat > rest.length := by omega
        rw [if_pos hn]
        simp [specDescItems, loop_stop a b rest hf, trailingItems]

/-! ### the spec loop tiles the buffer -/

theorem loop_props : ∀ (n : Nat) (buf : Bytes), buf.length < n →
    ((specDescLoop buf).1.map encodeDesc).flatten ++ (specDescLoop buf).2 = buf ∧
    (∀ d ∈ (specDescLoop buf).1, DescWf d) ∧
    ((specDescLoop buf).2.length < 2 ∨
      (specDescLoop buf).2.length < 2 + byteD (specDescLoop buf).2 1) := by
  intro n
  induction n with
  | zero => intro buf h; omega
  | succ n ih =>
    intro buf h
    rcases buf with _ | ⟨a, _ | ⟨b, rest⟩⟩
    · simp [loop_nil]
    · simp [loop_one]
    · by_cases hf : b.toNat ≤ rest.length
      · have hl : (rest.drop b.toNat).length < n := by
          simp only [List.length_cons] at h; simp; omega
        obtain ⟨i1, i2, i3⟩ := ih _ hl
        rw [loop_fits a b rest hf]
        refine ⟨?_, ?_, i3⟩
        · simp only [List.map_cons, List.flatten_cons, List.append_assoc]
          rw [i1]
          simp [encodeDesc, Nat.min_eq_left hf]
        · intro d hd
          simp only [List.mem_cons] at hd
          rcases hd with rfl | hd
          · have := UInt8.toNat_lt a
            have := UInt8.toNat_lt b
            unfold DescWf
            simp only [List.length_take]
            omega
          · exact i2 d hd
      · rw [loop_stop a b rest hf]
        simp [byteD_cons_zero, byteD_cons_succ]
        omega

theorem loop_encode (ds : List (Nat × Bytes)) (h : ∀ d ∈ ds, DescWf d) :
    specDescLoop ((ds.map encodeDesc).flatten) = (ds, []) := by
  induction ds with
  | nil => simpa using loop_nil
  | cons d ds ih =>
    have ih' := ih (fun y hy => h y (by simp [hy]))
    obtain ⟨h1, h2⟩ := h d (by simp)
    have e : ((d :: ds).map encodeDesc).flatten
        = UInt8.ofNat d.1 :: UInt8.ofNat d.2.length :: (d.2 ++ (ds.map encodeDesc).flatten) := by
      simp [encodeDesc]
    have hlen : (UInt8.ofNat d.2.length).toNat = d.2.length := by
      simp; omega
    have htag : (UInt8.ofNat d.1).toNat = d.1 := by
      simp; omega
    rw [e, loop_fits _ _ _ (by rw [hlen]; simp), hlen, htag]
    simp [ih']



/-! ### typed descriptors -/

theorem regFields_eq (p : Bytes) (h : 4 ≤ p.length) : regFields p = .ok (p.take 4, p.drop 4) := by
  unfold regFields
  have e := sliceR_ok p 0 4 (by omega)
  simp only [Nat.zero_add, List.drop_zero] at e
  rw [e, sliceFrom_ok p 4 h]
  rfl

theorem bitrate_arith (b0 b1 b2 : Nat) (h0 : b0 < 256) (h1 : b1 < 256) (h2 : b2 < 256) :
    ((b0 &&& 0b0011_1111) <<< 16) ||| (b1 <<< 8) ||| b2 = b0 % 64 * 65536 + b1 * 256 + b2 := by
  rw [and_3f b0 h0]
  simp only [Nat.shiftLeft_eq]
  rw [or_eq_add 16 (Nat.dvd_mul_left _ _) (by omega), or_eq_add 8 (by omega) h2]

theorem bitrate_field (p : Bytes) :
    readBits p 2 22 = byteD p 0 % 64 * 65536 + byteD p 1 * 256 + byteD p 2 := by
  have e : readBits p 2 22 = readBits p 2 6 * 2 ^ 16 + readBits p 8 16 := readBits_add p 2 6 16
  have r1 : readBits p 2 6 = byteD p 0 % 64 := by
    have := readBits_sub p 0 2 6 (by omega)
    simpa using this
  have r2 : readBits p 8 16 = byteD p 1 * 256 + byteD p 2 := field_0_16 p 1
  rw [e, r1, r2]
  omega

theorem maxBitrate_eq (p : Bytes) (h : 3 ≤ p.length) :
    maxBitrateFields p = .ok (readBits p 2 22, readBits p 2 22 * 400) := by
  unfold maxBitrateFields
  rw [byteAt_ok p 0 (by omega), byteAt_ok p 1 (by omega), byteAt_ok p 2 (by omega)]
  simp only [R.ok_bind]
  rw [bitrate_arith _ _ _ (byteD_lt p 0) (byteD_lt p 1) (byteD_lt p 2), ← bitrate_field]
  have := readBits_lt p 2 22
  rw [assertR_ok _ _ (by simp; omega), assertR_ok _ _ (by simp; omega)]
  simp only [R.ok_bind, R.pure_eq]
  congr 2
  omega

theorem bit_field (p : Bytes) (i o : Nat) (h : o < 8) :
    readBits p (8 * i + o) 1 = byteD p i / 2 ^ (7 - o) % 2 := by
  have r := readBits_sub p i o 1 (by omega)
  rw [r, show 8 - o - 1 = 7 - o by omega]

theorem avcFields_eq (p : Bytes) (h : 4 ≤ p.length) : avcFields p = .ok (specAvc p) := by
  unfold avcFields specAvc
  rw [byteAt_ok p 0 (by omega), byteAt_ok p 1 (by omega), byteAt_ok p 2 (by omega),
    byteAt_ok p 3 (by omega)]
  simp only [R.ok_bind, R.pure_eq]
  have b1 := byteD_lt p 1
  have b3 := byteD_lt p 3
  have f0 := readBits_byte p 0
  have f2 := readBits_byte p 2
  have c0 := bit_field p 1 0 (by omega)
  have c1 := bit_field p 1 1 (by omega)
  have c2 := bit_field p 1 2 (by omega)
  have c3 := bit_field p 1 3 (by omega)
  have c4 := bit_field p 1 4 (by omega)
  have c5 := bit_field p 1 5 (by omega)
  have s0 := bit_field p 3 0 (by omega)
  have s1 := bit_field p 3 1 (by omega)
  have s2 := bit_field p 3 2 (by omega)
  have cc := readBits_sub p 1 6 2 (by omega)
  simp only [Nat.mul_zero, Nat.mul_one, Nat.add_zero, Nat.reduceMul, Nat.reduceAdd, Nat.reduceSub,
    Nat.reducePow, Nat.div_one] at f0 f2 c0 c1 c2 c3 c4 c5 s0 s1 s2 cc
  rw [f0, f2, c0, c1, c2, c3, c4, c5, s0, s1, s2, cc]
  rw [and_80 _ b1, and_40 _ b1, and_20 _ b1, and_10 _ b1, and_08 _ b1, and_04 _ b1, and_03 _ b1,
    and_80 _ b3, and_40 _ b3, and_20 _ b3]

/-! ### ISO 639 language iterator -/

theorem langOf_four (a b c d : UInt8) : langOf [a, b, c, d] = .lang [a, b, c] d.toNat := by
  unfold langOf
  rw [readBits_byte [a, b, c, d] 3]
  simp [byteD_cons_zero, byteD_cons_succ]

theorem languages_eq : ∀ (fuel : Nat) (buf : Bytes), buf.length < fuel →
    languages fuel buf = .ok (specLanguages buf) := by
  intro fuel
  induction fuel with
  | zero => intro buf h; omega
  | succ n ih =>
    intro buf h
    rcases buf with _ | ⟨a, _ | ⟨b, _ | ⟨c, _ | ⟨d, rest⟩⟩⟩⟩
    · simp [languages, specLanguages, chunks4]
    · simp [languages, specLanguages, chunks4]
    · simp [languages, specLanguages, chunks4]
    · simp [languages, specLanguages, chunks4]
    · have hl : rest.length < n := by simp at h; omega
      have e : languages (n + 1) (a :: b :: c :: d :: rest) = (do
          assertR (([a, b, c, d] : Bytes).length == 4) "assert_eq!(buf.len(), 4)"
          let code ← sliceR [a, b, c, d] 0 3
          let at_ ← byteAt [a, b, c, d] 3
          let r ← languages n rest
          pure (LangItem.lang code at_ :: r)) := by
        simp [languages]
        intro hh; omega
      have e1 : sliceR [a, b, c, d] 0 3 = .ok [a, b, c] := by
        have := sliceR_ok [a, b, c, d] 0 3 (by simp)
        simpa using this
      have e2 : byteAt [a, b, c, d] 3 = .ok d.toNat := by
        rw [byteAt_ok _ 3 (by simp)]; simp [byteD_cons_zero, byteD_cons_succ]
      rw [e, assertR_ok _ _ (by simp), e1, e2, ih rest hl]
      simp only [R.ok_bind, R.pure_eq, specLanguages, chunks4_cons, List.map_cons, langOf_four,
        List.length_cons]
      have : (rest.length + 1 + 1 + 1 + 1) % 4 = rest.length % 4 := by omega
      rw [this]
      rfl

theorem lang_get (p : Bytes) (i : Nat) (h : i < p.length / 4) :
    (specLanguages p)[i]? = some (.lang ((p.drop (4 * i)).take 3) (byteD p (4 * i + 3))) := by
  unfold specLanguages
  have hl : i < ((chunks4 p).map langOf).length := by
    rw [List.length_map, chunks4_length _ p (Nat.lt_succ_self _)]; exact h
  rw [List.getElem?_append_left hl, List.getElem?_map, chunks4_get i p h]
  simp only [Option.map_some, langOf]
  rw [readBits_byte _ 3, byteD_take _ 4 3 (by omega), byteD_drop, List.take_take]
  simp

theorem specLanguages_length (p : Bytes) :
    (specLanguages p).length = p.length / 4 + (if p.length % 4 = 0 then 0 else 1) := by
  unfold specLanguages
  rw [List.length_append, List.length_map, chunks4_length _ p (Nat.lt_succ_self _)]
  split <;> simp


theorem lang_last (p : Bytes) :
    (specLanguages p)[p.length / 4]?
      = if p.length % 4 = 0 then none else some (.tooShort (p.length % 4)) := by
  unfold specLanguages
  have hl : ((chunks4 p).map langOf).length = p.length / 4 := by
    rw [List.length_map, chunks4_length _ p (Nat.lt_succ_self _)]
  rw [List.getElem?_append_right (by omega), hl, Nat.sub_self]
  split <;> simp

end Ts.Lemmas.C17
