import Ts.Lemmas.Demux
import Ts.Lemmas.C08
import Ts.Model.App
/-!
# Helper lemmas for C02, part 2: the dispatcher frame (packets of other PIDs leave a slot alone)

`specStep_frame'` / `specStep_frame`: one step, any handler semantics, hypothesis on the handler that
actually consumes the packet.  `QuietAlong`: the same hypothesis along a whole run (run-relative).
`pushSpec_pes_slot`: the slot of a PES handler over a quiet run.  `QueuesNothingFor` is an older,
unsatisfiable hypothesis kept only for `Ts.Props.C02.queuesNothingFor_unsat`.
-/
namespace Ts.Lemmas.C02
open Ts Ts.Demux Ts.Lemmas.C08

variable {H C : Type}

/-- "whatever handler consumes `pk`, in whatever context, none of the changes it queues names PID `p`".

WARNING: this quantifies over ALL handlers `h` and ALL contexts `c0`, not over the handler that is
actually registered for `pk.pid` in a run.  For the application semantics `App.sem` it is FALSE for
every `p` and every `pk` (`Ts.Props.C02.queuesNothingFor_unsat`: a `.recorder` handler whose context
carries the script `[(pk.off / 188, [.ins p])]` queues an insertion for `p`).  It is kept only so
that this fact can be stated; no theorem uses it as a hypothesis any more.  The run-relative
replacement is `QuietAlong`. -/
def QueuesNothingFor (sem : Sem H C) (p : Nat) (pk : Pk) : Prop :=
  ∀ h c0 h' c1 chg, sem.consume h c0 pk = .ok (h', c1, chg) → ∀ ch ∈ chg, ch.pid ≠ p

/-- RUN-RELATIVE quietness: along the ACTUAL run of the dispatcher spec from `tc` over `xs`, every
unflagged packet of a PID other than `p` is consumed by a handler — THE handler registered for its
PID at that point of the run, after lookup-or-construct — that queues no change naming `p`.
Nothing is said about handlers that do not take part in the run, nor about steps after a panic. -/
def QuietAlong (sem : Sem H C) (p : Nat) : Tab H × C → List Pk → Prop
  | _, [] => True
  | tc, pk :: pks =>
    (pk.pid ≠ p → pk.flagged = false →
      ∀ t1 c1 h h' c2 chg, ensure sem tc.1 tc.2 pk.pid = .ok (t1, c1) → t1.get pk.pid = some h →
        sem.consume h c1 pk = .ok (h', c2, chg) → ∀ ch ∈ chg, ch.pid ≠ p)
    ∧ ∀ tc', specStep sem tc pk = .ok tc' → QuietAlong sem p tc' pks

theorem quietAlong_nil (sem : Sem H C) (p : Nat) (tc : Tab H × C) : QuietAlong sem p tc [] := trivial

theorem quietAlong_cons (sem : Sem H C) (p : Nat) (tc : Tab H × C) (pk : Pk) (pks : List Pk) :
    QuietAlong sem p tc (pk :: pks) ↔
      (pk.pid ≠ p → pk.flagged = false →
        ∀ t1 c1 h h' c2 chg, ensure sem tc.1 tc.2 pk.pid = .ok (t1, c1) → t1.get pk.pid = some h →
          sem.consume h c1 pk = .ok (h', c2, chg) → ∀ ch ∈ chg, ch.pid ≠ p)
      ∧ ∀ tc', specStep sem tc pk = .ok tc' → QuietAlong sem p tc' pks := Iff.rfl

/-- FRAME, one step, any handler semantics: a packet of PID `q ≠ p` leaves slot `p` exactly as it
was, unless the handler that consumes it (the one registered for `q` after lookup-or-construct)
queues a change naming `p` -/
theorem specStep_frame' (sem : Sem H C) (t : Tab H) (c : C) (pk : Pk) (t' : Tab H) (c' : C) (p : Nat)
    (hne : pk.pid ≠ p) (hstep : specStep sem (t, c) pk = .ok (t', c'))
    (hN : pk.flagged = false → ∀ t1 c1 h h' c2 chg, ensure sem t c pk.pid = .ok (t1, c1) →
      t1.get pk.pid = some h → sem.consume h c1 pk = .ok (h', c2, chg) → ∀ ch ∈ chg, ch.pid ≠ p) :
    t'.get p = t.get p := by
  rw [specStep_eq] at hstep
  cases hE : ensure sem t c pk.pid with
  | panic s => rw [hE] at hstep; cases hstep
  | ok r =>
    obtain ⟨t1, c1⟩ := r
    have hget : t1.get p = t.get p := ensure_get_ne sem t c pk.pid t1 c1 hE p (Ne.symm hne)
    rw [hE] at hstep
    simp only [R.ok_bind] at hstep
    cases hf : pk.flagged with
    | true =>
      rw [hf] at hstep
      simp only [if_true] at hstep
      injection hstep with hstep
      injection hstep with e1 e2
      rw [← e1]; exact hget
    | false =>
      rw [hf] at hstep
      simp only [Bool.false_eq_true, if_false] at hstep
      cases hg : t1.get pk.pid with
      | none => rw [hg] at hstep; cases hstep
      | some h =>
        rw [hg] at hstep
        simp only [] at hstep
        cases hk : sem.consume h c1 pk with
        | panic s => rw [hk] at hstep; cases hstep
        | ok x =>
          obtain ⟨h', c2, chg⟩ := x
          rw [hk] at hstep
          simp only [R.ok_bind] at hstep
          injection hstep with hstep
          injection hstep with e1 e2
          rw [← e1, get_applyChanges_untouched chg _ p (hN hf t1 c1 h h' c2 chg hE hg hk),
            Tab.get_insert_ne _ _ _ _ (Ne.symm hne), hget]

/-- the same with the hypothesis on the consuming handler not restricted to unflagged packets -/
theorem specStep_frame (sem : Sem H C) (t : Tab H) (c : C) (pk : Pk) (t' : Tab H) (c' : C) (p : Nat)
    (hne : pk.pid ≠ p) (hstep : specStep sem (t, c) pk = .ok (t', c'))
    (hN : ∀ t1 c1 h h' c2 chg, ensure sem t c pk.pid = .ok (t1, c1) → t1.get pk.pid = some h →
      sem.consume h c1 pk = .ok (h', c2, chg) → ∀ ch ∈ chg, ch.pid ≠ p) :
    t'.get p = t.get p :=
  specStep_frame' sem t c pk t' c' p hne hstep (fun _ => hN)

/-- one step on the PID of a PES handler: the packet goes through `PesFilter.consume` (= the pure
step of C08), its callbacks are replayed into the context, the slot holds the new filter state,
nothing else in the table changes -/
theorem specStep_pes (t : Tab App.Handler) (c : App.Ctx) (pk : Pk) (tag : Nat) (f : PesFilter.F)
    (hg : t.get pk.pid = some (.pes tag f)) (hf : pk.flagged = false) (h188 : pk.bytes.length = 188) :
    specStep App.sem (t, c) pk =
      (App.esEvents c.cfg.touch tag pk.bytes pk.off c (stepOf f pk.bytes).2 >>= fun c' =>
        R.ok (t.insert pk.pid (.pes tag (stepOf f pk.bytes).1), c')) := by
  have hc : t.contains pk.pid = true := (Tab.contains_eq_true_iff _ _).2 ⟨_, hg⟩
  rw [specStep_consume_of_contains App.sem t c pk _ hc hf hg]
  show (App.consume (.pes tag f) c pk >>= _) = _
  unfold App.consume
  simp only [consume_eq f pk.bytes h188, R.ok_bind]
  cases App.esEvents c.cfg.touch tag pk.bytes pk.off c (stepOf f pk.bytes).2 with
  | panic s => rfl
  | ok c' => rfl

/-- the slot of a PES handler over an interleaved run that is quiet for `p` (`QuietAlong`: the
handlers that actually consume the packets of other PIDs queue no change naming `p`): those
packets, and flagged packets, are invisible to it; the state evolves as `PesFilter.run` (its pure
form `runPure`) over the unflagged packets of PID `p`, in order -/
theorem pushSpec_pes_slot (p tag : Nat) : ∀ (xs : List Pk) (t : Tab App.Handler) (c : App.Ctx)
    (f : PesFilter.F) (t' : Tab App.Handler) (c' : App.Ctx),
    t.get p = some (.pes tag f) →
    (∀ pk ∈ xs, pk.pid = p → pk.bytes.length = 188) →
    QuietAlong App.sem p (t, c) xs →
    pushSpec App.sem (t, c) xs = .ok (t', c') →
    t'.get p = some (.pes tag
      (runPure f ((xs.filter (fun pk => pk.pid == p && !pk.flagged)).map (·.bytes))).1) := by
  intro xs
  induction xs with
  | nil =>
    intro t c f t' c' hg _ _ hrun
    rw [pushSpec_nil] at hrun
    injection hrun with hrun
    injection hrun with e1 e2
    rw [← e1]; exact hg
  | cons pk xs ih =>
    intro t c f t' c' hg h188 hN hrun
    rw [pushSpec_cons] at hrun
    cases hstep : specStep App.sem (t, c) pk with
    | panic s => rw [hstep] at hrun; cases hrun
    | ok r =>
      obtain ⟨t1, c1⟩ := r
      rw [hstep] at hrun
      simp only [R.ok_bind] at hrun
      have h188' : ∀ q ∈ xs, q.pid = p → q.bytes.length = 188 :=
        fun q hq => h188 q (List.mem_cons_of_mem _ hq)
      have hN' : QuietAlong App.sem p (t1, c1) xs := hN.2 (t1, c1) hstep
      by_cases hp : pk.pid = p
      · cases hf : pk.flagged with
        | true =>
          have hc : t.contains pk.pid = true := (Tab.contains_eq_true_iff _ _).2 ⟨_, hp ▸ hg⟩
          rw [specStep_flagged_of_contains App.sem t c pk hc hf] at hstep
          injection hstep with hstep
          injection hstep with e1 e2
          have := ih t1 c1 f t' c' (e1 ▸ hg) h188' hN' hrun
          simpa [List.filter_cons, hp, hf] using this
        | false =>
          have hb := h188 pk List.mem_cons_self hp
          rw [specStep_pes t c pk tag f (hp ▸ hg) hf hb] at hstep
          cases he : App.esEvents c.cfg.touch tag pk.bytes pk.off c (stepOf f pk.bytes).2 with
          | panic s => rw [he] at hstep; cases hstep
          | ok c2 =>
            rw [he] at hstep
            simp only [R.ok_bind] at hstep
            injection hstep with hstep
            injection hstep with e1 e2
            have hg1 : t1.get p = some (.pes tag (stepOf f pk.bytes).1) := by
              rw [← e1, hp]; exact Tab.get_insert_self _ _ _
            have := ih t1 c1 _ t' c' hg1 h188' hN' hrun
            simpa [List.filter_cons, hp, hf, runPure] using this
      · have hg1 : t1.get p = some (.pes tag f) := by
          rw [specStep_frame' App.sem t c pk t1 c1 p hp hstep (fun hf => hN.1 hp hf)]
          exact hg
        have := ih t1 c1 f t' c' hg1 h188' hN' hrun
        simpa [List.filter_cons, hp] using this

end Ts.Lemmas.C02
