import Ts.Lemmas.C19b
import Ts.Lemmas.C10
import Ts.Lemmas.C10b
/-!
# C19 helper lemmas, part 3

* `steadyB` / `steadyB_sound`: a Boolean check implying `Steady` (used to instantiate the
  steady-state theorems on a concrete run by kernel evaluation); `steady_of_frame_base`: `Steady`
  does not depend on the global offset of the push.
* `nvSetup`, `nvSteady`, `twoPkBuf`: concrete pushes (valid CRCs) for the non-vacuity examples.
* changeset bound: `outdated_length_le`, `patPrograms_length`, `pmtStreams_length`,
  `patSection_len`, `pmtSection_len`, `app_consume_len`; the invariant `Inv2` (C19b's `Inv` plus
  `RegInv`, `ScriptLenOk`) and its preservation; the high-water marks `chgHigh`, `chgHighPush`,
  `chgHighAll` and `chgHighAll_le`.
* operation level: `mayAlloc` (a Boolean function of a step's inputs), `mayAlloc_false_step`
  (what `false` means in the model), `steady_mayAlloc_false`, `steady_run_mayAlloc_false`.
* `repeatPkt_of_c10`, `steadyPk_of_c10`: C10's repetition vocabulary implies C19's.
-/
namespace Ts.Lemmas.C19
open Ts Ts.Demux

/-! ### a Boolean check for the steady-state hypothesis -/

/-- `RepeatPayload`, as a Boolean -/
def repeatPayloadB (v : Nat) (q : C03.Pl) : Bool :=
  !q.us ||
    (decide (byteD q.bytes 0 + 9 ≤ q.bytes.length) &&
      C03.hdrSyn ((q.bytes.drop 1).drop (byteD q.bytes 0)) &&
      decide (C03.hdrLen ((q.bytes.drop 1).drop (byteD q.bytes 0)) ≤ 1021) &&
      versionOf ((q.bytes.drop 1).drop (byteD q.bytes 0)) == v)

/-- `RepeatPkt`, as a Boolean -/
def repeatPktB (v : Nat) (p : Bytes) : Bool :=
  match C03.plOf p with
  | none => true
  | some q => repeatPayloadB v q

/-- `SteadyPk`, as a Boolean -/
def steadyPkB (t : Tab App.Handler) (pk : Pk) : Bool :=
  pk.bytes.length == 188 && t.contains pk.pid &&
    match t.get pk.pid with
    | none => true
    | some h =>
      match psiOf h with
      | none => true
      | some s =>
        match s.lastVersion with
        | none => false
        | some v => s.remaining.isNone && repeatPktB v pk.bytes

/-- `Steady`, as a Boolean -/
def steadyB (t : Tab App.Handler) (pks : List Pk) : Bool := pks.all (steadyPkB t)

theorem repeatPayloadB_sound (v : Nat) (q : C03.Pl) (h : repeatPayloadB v q = true) :
    RepeatPayload v q := by
  unfold repeatPayloadB at h
  cases hus : q.us with
  | false => exact Or.inl hus
  | true =>
    rw [hus] at h
    simp only [Bool.not_true, Bool.false_or, Bool.and_eq_true, decide_eq_true_eq, beq_iff_eq] at h
    exact Or.inr ⟨h.1.1.1, h.1.1.2, h.1.2, h.2⟩

theorem repeatPktB_sound (v : Nat) (p : Bytes) (h : repeatPktB v p = true) : RepeatPkt v p := by
  intro q hq
  unfold repeatPktB at h
  rw [hq] at h
  exact repeatPayloadB_sound v q h

theorem steadyPkB_sound (t : Tab App.Handler) (pk : Pk) (h : steadyPkB t pk = true) :
    SteadyPk t pk := by
  unfold steadyPkB at h
  simp only [Bool.and_eq_true, beq_iff_eq] at h
  obtain ⟨⟨h1, h2⟩, h3⟩ := h
  refine ⟨h1, h2, ?_⟩
  intro hd s hg hp
  rw [hg] at h3
  simp only [hp] at h3
  cases hv : s.lastVersion with
  | none => rw [hv] at h3; cases h3
  | some v =>
    rw [hv] at h3
    simp only [Bool.and_eq_true, Option.isNone_iff_eq_none] at h3
    exact ⟨v, ⟨hv, h3.1⟩, repeatPktB_sound v pk.bytes h3.2⟩

/-- the Boolean check implies the steady-state hypothesis of `steady_state_no_alloc` -/
theorem steadyB_sound (t : Tab App.Handler) (pks : List Pk) (h : steadyB t pks = true) :
    Steady t pks := by
  intro pk hpk
  unfold steadyB at h
  rw [List.all_eq_true] at h
  exact steadyPkB_sound t pk (h pk hpk)

/-! ### `Steady` looks at a packet's bytes and PID only -/

theorem steadyPk_of_same (t : Tab App.Handler) (pk pk' : Pk) (hb : pk'.bytes = pk.bytes)
    (hp : pk'.pid = pk.pid) (h : SteadyPk t pk) : SteadyPk t pk' := by
  unfold SteadyPk at h ⊢
  rw [hb, hp]
  exact h

theorem framePure_base (chs : List Bytes) : ∀ (off off' : Nat) (pk : Pk), pk ∈ framePure chs off →
    ∃ pk' ∈ framePure chs off', pk'.bytes = pk.bytes ∧ pk'.pid = pk.pid := by
  induction chs with
  | nil => intro off off' pk h; simp [framePure] at h
  | cons ch chs ih =>
    intro off off' pk h
    unfold framePure at h ⊢
    unfold pkOf at h ⊢
    by_cases h47 : byteD ch 0 = 0x47
    · simp only [h47, if_true] at h ⊢
      rcases List.mem_cons.1 h with e | e
      · subst e
        exact ⟨_, List.mem_cons_self, rfl, rfl⟩
      · obtain ⟨pk', h1, h2⟩ := ih (off + 188) (off' + 188) pk e
        exact ⟨pk', List.mem_cons_of_mem _ h1, h2⟩
    · simp only [h47, if_false] at h ⊢
      exact ih (off + 188) (off' + 188) pk h

/-- if the packets framed from `b` at one global offset are steady for `t`, so are those framed
at any other offset (only `Pk.off` differs) -/
theorem steady_of_frame_base (t : Tab App.Handler) (b : Bytes) (base : Nat) (pks : List Pk)
    (hf : frame b base = .ok pks) (hs : Steady t pks) :
    ∀ bs pks', frame b bs = .ok pks' → Steady t pks' := by
  intro bs pks' hf'
  rw [frame_eq_pure] at hf hf'
  have e := R.ok_inj hf
  have e' := R.ok_inj hf'
  subst e e'
  intro pk hpk
  obtain ⟨pk0, h0, hb, hp⟩ := framePure_base (chunks b) bs base pk hpk
  exact steadyPk_of_same t pk0 pk hb.symm hp.symm (hs pk0 h0)

/-! ### concrete data: a run that reaches steady state, then a steady push -/

def pad188 (b : Bytes) : Bytes := b ++ List.replicate (188 - b.length) 0xff

/-- PAT on PID 0, version 0: program 1 → PMT PID 0x1e0 (valid CRC); continuity counter `cc` -/
def nvPat (cc : UInt8) : Bytes := pad188 [0x47, 0x40, 0x00, 0x10 + cc, 0x00,
  0x00, 0xb0, 0x0d, 0x00, 0x01, 0xc1, 0x00, 0x00, 0x00, 0x01, 0xe1, 0xe0, 0x2d, 0x50, 0x78, 0x04]

/-- PMT on PID 0x1e0, version 0: PCR PID 0x21, H.264 video on PID 0x21, AAC audio on PID 0x22
(valid CRC); continuity counter `cc` -/
def nvPmt (cc : UInt8) : Bytes := pad188 [0x47, 0x41, 0xe0, 0x10 + cc, 0x00,
  0x02, 0xb0, 0x17, 0x00, 0x01, 0xc1, 0x00, 0x00, 0xe0, 0x21, 0xf0, 0x00,
  0x1b, 0xe0, 0x21, 0xf0, 0x00, 0x0f, 0xe0, 0x22, 0xf0, 0x00, 0xfa, 0x81, 0x67, 0x0f]

/-- PES packet start on PID 0x21: header `00 00 01 e0 00 00`, optional header `80 00 00`, 175
payload bytes -/
def nvEsStart (cc fill : UInt8) : Bytes :=
  [0x47, 0x40, 0x21, 0x10 + cc, 0, 0, 1, 0xe0, 0, 0, 0x80, 0, 0] ++ List.replicate 175 fill

/-- PES continuation packet on PID 0x21: 184 payload bytes -/
def nvEsCont (cc fill : UInt8) : Bytes := [0x47, 0x00, 0x21, 0x10 + cc] ++ List.replicate 184 fill

/-- first push: PAT, PMT, start of a PES packet on PID 0x21 -/
def nvSetup : Bytes := nvPat 0 ++ nvPmt 0 ++ nvEsStart 0 0x11

/-- steady push: PES continuation, PAT repetition, PMT repetition, next PES packet start -/
def nvSteady : Bytes := nvEsCont 1 0x12 ++ nvPat 1 ++ nvPmt 1 ++ nvEsStart 2 0x13

/-- a push of 379 bytes: a payload-only packet on PID 5, the PAT packet `patPkt`, 3 stray bytes -/
def twoPkBuf : Bytes := pid5Pkt ++ patPkt ++ [0x47, 0x00, 0x00]

/-- what kind of handler sits in a slot (0 PAT, 1 PMT, 2 PES, 3 recorder) -/
def handlerKind : App.Handler → Nat
  | .pat _ _ => 0
  | .pmt _ _ _ _ => 1
  | .pes _ _ => 2
  | .recorder _ => 3


/-! ### how many changes one packet can queue -/

/-- `R` is a lawful monad (used only to unfold `List.mapM`) -/
local instance : LawfulMonad R := LawfulMonad.mk' (m := R)
  (id_map := by intro α x; cases x <;> rfl)
  (pure_bind := by intros; rfl)
  (bind_assoc := by intro α β γ x f g; cases x <;> rfl)

theorem countP_split (f : Nat → Bool) (a : Nat) : ∀ xs : List Nat,
    xs.countP f ≤ xs.count a + xs.countP (fun p => f p && p != a) := by
  intro xs
  induction xs with
  | nil => simp
  | cons x xs ih =>
    simp only [List.countP_cons, List.count_cons]
    by_cases hx : x = a
    · subst hx
      cases f x <;> simp <;> omega
    · have hx' : (x == a) = false := by simpa using hx
      cases f x <;> simp [hx, hx'] <;> omega

theorem countP_le_of_mem (xs : List Nat) (hnd : xs.Nodup) : ∀ (reg : List Nat) (f : Nat → Bool),
    (∀ p, f p = true → p ∈ reg) → xs.countP f ≤ reg.length := by
  intro reg
  induction reg with
  | nil =>
    intro f h
    have : xs.countP f = 0 := by
      rw [List.countP_eq_zero]
      intro p _ hp
      have := h p hp
      cases this
    omega
  | cons a reg ih =>
    intro f h
    have h1 := countP_split f a xs
    have h2 : xs.count a ≤ 1 := by rw [hnd.count]; split <;> omega
    have h3 := ih (fun p => f p && p != a) (by
      intro p hp
      simp only [Bool.and_eq_true, bne_iff_ne, ne_eq] at hp
      rcases List.mem_cons.1 (h p hp.1) with e | e
      · exact absurd e hp.2
      · exact e)
    simp only [List.length_cons]
    omega

/-- `remove_outdated` queues at most one removal per previously registered PID -/
theorem outdated_length_le (reg seen : List Nat) :
    (App.outdated (reg ++ seen) seen).length ≤ reg.length := by
  unfold App.outdated
  rw [← List.countP_eq_length_filter]
  apply countP_le_of_mem _ List.nodup_range
  intro p hp
  simp only [Bool.and_eq_true, List.contains_eq_mem, List.mem_append, decide_eq_true_eq,
    Bool.not_eq_true', decide_eq_false_iff_not] at hp
  rcases hp.1 with e | e
  · exact e
  · exact absurd e hp.2

theorem patPrograms_length : ∀ (fuel : Nat) (buf : Bytes) (es : List Tables.PatEntry),
    Tables.patPrograms fuel buf = .ok es → 4 * es.length ≤ buf.length := by
  intro fuel
  induction fuel with
  | zero =>
    intro buf es h
    have := R.ok_inj h; subst this; simp
  | succ fuel ih =>
    intro buf es h
    unfold Tables.patPrograms at h
    split at h
    · have := R.ok_inj h; subst this; simp
    · split at h
      · have := R.ok_inj h; subst this; simp
      · rename_i _ hl
        obtain ⟨e, he, h⟩ := R.bind_eq_ok h
        obtain ⟨rest, hrest, h⟩ := R.bind_eq_ok h
        have := R.ok_inj h; subst this
        have := ih _ _ hrest
        rw [List.length_drop] at this
        simp only [List.length_cons]
        omega

theorem streamInfo_len (d : Bytes) (si : Tables.StreamInfo) (n : Nat)
    (h : Tables.streamInfoFromBytes d = .ok (some (si, n))) : 5 ≤ n ∧ n ≤ d.length := by
  unfold Tables.streamInfoFromBytes at h
  split at h
  · cases h
  · obtain ⟨d3, _, h⟩ := R.bind_eq_ok h
    obtain ⟨d4, _, h⟩ := R.bind_eq_ok h
    dsimp only at h
    split at h
    · cases h
    · rename_i hle
      obtain ⟨st, _, h⟩ := R.bind_eq_ok h
      obtain ⟨d1, _, h⟩ := R.bind_eq_ok h
      obtain ⟨d2, _, h⟩ := R.bind_eq_ok h
      obtain ⟨pid, hpid, h⟩ := R.bind_eq_ok h
      obtain ⟨db, _, h⟩ := R.bind_eq_ok h
      have := R.ok_inj h
      simp only [Option.some.injEq, Prod.mk.injEq] at this
      rw [← this.2]
      omega

theorem streamIter_length : ∀ (fuel : Nat) (buf : Bytes) (ss : List Tables.StreamInfo),
    Tables.streamIter fuel buf = .ok ss → 5 * ss.length ≤ buf.length := by
  intro fuel
  induction fuel with
  | zero =>
    intro buf ss h
    have := R.ok_inj h; subst this; simp
  | succ fuel ih =>
    intro buf ss h
    unfold Tables.streamIter at h
    split at h
    · have := R.ok_inj h; subst this; simp
    · obtain ⟨r, hr, h⟩ := R.bind_eq_ok h
      cases r with
      | none => have := R.ok_inj h; subst this; simp
      | some x =>
        obtain ⟨si, n⟩ := x
        simp only [] at h
        obtain ⟨rest0, hr0, h⟩ := R.bind_eq_ok h
        obtain ⟨rest, hrest, h⟩ := R.bind_eq_ok h
        have := R.ok_inj h; subst this
        obtain ⟨_, e0⟩ := sliceFrom_eq_ok _ _ _ hr0
        have := ih _ _ hrest
        rw [e0, List.length_drop] at this
        have := streamInfo_len _ _ _ hr
        simp only [List.length_cons]
        omega

theorem pmtStreams_length (data : Bytes) (ss : List Tables.StreamInfo)
    (h : Tables.pmtStreams data = .ok ss) : 5 * ss.length ≤ data.length := by
  unfold Tables.pmtStreams at h
  obtain ⟨pil, _, h⟩ := R.bind_eq_ok h
  dsimp only at h
  split at h
  · obtain ⟨e, he, h⟩ := R.bind_eq_ok h
    have := streamIter_length _ _ _ h
    unfold sliceR at he
    simp only [Nat.lt_irrefl, if_false, Nat.sub_self, List.take_zero, gt_iff_lt, Nat.not_lt_zero,
      List.drop_zero] at he
    have := R.ok_inj he; subst this
    simp only [List.length_nil] at this
    omega
  · obtain ⟨r, hr, h⟩ := R.bind_eq_ok h
    obtain ⟨_, e0⟩ := sliceFrom_eq_ok _ _ _ hr
    have := streamIter_length _ _ _ h
    rw [e0, List.length_drop] at this
    omega

theorem foldl_construct_length {α : Type} (req : α → App.Req) (pidOf : α → Nat)
    (g : App.Ctx × List (Change App.Handler) → α → App.Ctx × List (Change App.Handler))
    (hg : ∀ acc e, g acc e = ((App.construct acc.1 (req e)).2,
      acc.2 ++ [Change.insert (pidOf e) (App.construct acc.1 (req e)).1])) :
    ∀ (es : List α) (acc : App.Ctx × List (Change App.Handler)),
      (es.foldl g acc).2.length = acc.2.length + es.length := by
  intro es
  induction es with
  | nil => intro acc; rfl
  | cons e es ih =>
    intro acc
    rw [List.foldl_cons, ih, hg]
    simp only [List.length_append, List.length_cons, List.length_nil]
    omega

theorem mapM_remove_length : ∀ (l : List Nat) (r : List (Change App.Handler)),
    l.mapM (fun p => do let q ← Tables.pidNew p; pure (Change.remove (H := App.Handler) q)) = .ok r →
    r.length = l.length ∧ ∀ ch ∈ r, ch.val = none := by
  intro l
  induction l with
  | nil =>
    intro r h
    rw [List.mapM_nil] at h
    have := R.ok_inj h
    subst this
    simp
  | cons a l ih =>
    intro r h
    rw [List.mapM_cons] at h
    obtain ⟨x, hx, h⟩ := R.bind_eq_ok h
    obtain ⟨xs, hxs, h⟩ := R.bind_eq_ok h
    have := R.ok_inj h
    subst this
    obtain ⟨q, hq, hx⟩ := R.bind_eq_ok hx
    have := R.ok_inj hx
    subst this
    obtain ⟨a1, a2⟩ := ih xs hxs
    refine ⟨by simp only [List.length_cons, a1], ?_⟩
    intro ch hch
    rcases List.mem_cons.1 hch with e | e
    · subst e; rfl
    · exact a2 ch e

theorem sliceR_length (b r : Bytes) (frm to : Nat) (h : sliceR b frm to = .ok r) :
    r.length ≤ to - frm := by
  unfold sliceR at h
  split at h
  · cases h
  · split at h
    · cases h
    · have := R.ok_inj h; subst this
      rw [List.length_take]; omega

theorem subR_ok (a b r : Nat) (h : subR a b = .ok r) : r = a - b := by
  unfold subR at h
  split at h
  · exact (R.ok_inj h).symm
  · cases h

/-- the PIDs a PAT/PMT processor has registered (`filters_registered`), `[]` for other handlers -/
def regOf : App.Handler → List Nat
  | .pat _ reg => reg
  | .pmt _ _ _ reg => reg
  | _ => []

/-- most table entries a section of at most 1024 bytes can carry: `(1024 - 12) / 4` four-byte PAT
entries (a PMT carries at most `(1024 - 16) / 5 = 201` five-byte stream entries) -/
def MAX_ENTRIES : Nat := 253

/-- a handler remembers at most `MAX_ENTRIES` registered PIDs -/
def RegOk (h : App.Handler) : Prop := (regOf h).length ≤ MAX_ENTRIES

/-- most changes one packet can queue: two deliveries, each inserting at most `MAX_ENTRIES`
handlers and removing at most `MAX_ENTRIES` previously registered ones -/
def CHG_MAX : Nat := 2 * (2 * MAX_ENTRIES)

/-- every handler a change inserts remembers no more than `MAX_ENTRIES` PIDs -/
def ChgReg (ch : Change App.Handler) : Prop := ∀ h, ch.val = some h → RegOk h

theorem construct_regOf (c : App.Ctx) (req : App.Req) : regOf (App.construct c req).1 = [] := by
  unfold App.construct
  simp only []
  split
  · rfl
  · rfl
  · rfl
  · rfl
  · split <;> rfl

theorem chgReg_of_fold {α : Type} (req : α → App.Req) (pidOf : α → Nat) (es : List α)
    (ch : Change App.Handler)
    (h : ch ∈ ([] : List (Change App.Handler)) ∨
      ∃ e ∈ es, ∃ c0, ch = Change.insert (pidOf e) (App.construct c0 (req e)).1) : ChgReg ch := by
  rcases h with h | ⟨e, _, c0, hc⟩
  · cases h
  · subst hc
    intro h hv
    injection hv with hv
    subst hv
    unfold RegOk
    rw [construct_regOf]
    exact Nat.zero_le _

/-- what a table processor may do with one section of at most 1024 bytes -/
def SectLen (reg : List Nat) (reg' : List Nat) (chg : List (Change App.Handler)) : Prop :=
  chg.length ≤ MAX_ENTRIES + reg.length ∧ (reg' = reg ∨ reg'.length ≤ MAX_ENTRIES)
    ∧ ∀ ch ∈ chg, ChgReg ch

theorem sectLen_triv (reg : List Nat) : SectLen reg reg [] :=
  ⟨Nat.zero_le _, Or.inl rfl, by simp⟩

theorem patSection_len (c : App.Ctx) (reg : List Nat) (data : Bytes) (c' : App.Ctx) (reg' : List Nat)
    (chg : List (Change App.Handler)) (hd : data.length ≤ 1024)
    (h : App.patSection c reg data = .ok (c', reg', chg)) : SectLen reg reg' chg := by
  unfold App.patSection at h
  dsimp only at h
  obtain ⟨end_, hend, h⟩ := R.bind_eq_ok h
  obtain ⟨body, hbody, h⟩ := R.bind_eq_ok h
  obtain ⟨tid, _, h⟩ := R.bind_eq_ok h
  split at h
  · have := R.ok_inj h
    simp only [Prod.mk.injEq] at this
    obtain ⟨_, e2, e3⟩ := this
    subst e2 e3
    exact sectLen_triv reg
  · obtain ⟨entries, hent, h⟩ := R.bind_eq_ok h
    obtain ⟨rem, hrem, h⟩ := R.bind_eq_ok h
    have := R.ok_inj h
    simp only [Prod.mk.injEq] at this
    obtain ⟨_, e2, e3⟩ := this
    have hf := foldl_construct
      (fun e : Tables.PatEntry => match e with
        | .program pn pid => App.Req.pmt pid pn
        | .network pid => App.Req.nit pid) Tables.PatEntry.pid _ (fun _ _ => rfl) entries (c, [])
    have hfl := foldl_construct_length
      (fun e : Tables.PatEntry => match e with
        | .program pn pid => App.Req.pmt pid pn
        | .network pid => App.Req.nit pid) Tables.PatEntry.pid _ (fun _ _ => rfl) entries (c, [])
    have hbl := sliceR_length _ _ _ _ hbody
    have hel := subR_ok _ _ _ hend
    have hpl := patPrograms_length _ _ _ hent
    have hne : entries.length ≤ MAX_ENTRIES := by unfold MAX_ENTRIES; omega
    obtain ⟨r1, r2⟩ := mapM_remove_length _ _ hrem
    have ho := outdated_length_le reg (entries.map Tables.PatEntry.pid)
    have hlen : chg.length = 0 + entries.length + rem.length := by
      rw [← e3, List.length_append]
      exact congrArg (· + rem.length) hfl
    refine ⟨?_, Or.inr (by rw [← e2, List.length_map]; exact hne), ?_⟩
    · rw [hlen, r1]
      omega
    · intro ch hch
      rw [← e3] at hch
      rcases List.mem_append.1 hch with h1 | h1
      · exact chgReg_of_fold _ _ entries ch (hf.2 ch h1)
      · intro h hv; rw [r2 ch h1] at hv; cases hv

theorem pmtFromBytes_some (b sect : Bytes) (h : Tables.pmtFromBytes b = .ok (some sect)) : sect = b := by
  unfold Tables.pmtFromBytes at h
  split at h
  · cases h
  · obtain ⟨d2, _, h⟩ := R.bind_eq_ok h
    obtain ⟨d3, _, h⟩ := R.bind_eq_ok h
    dsimp only at h
    split at h
    · cases h
    · have := R.ok_inj h
      injection this with this
      exact this.symm

theorem pmtSection_len (c : App.Ctx) (pmtPid : Nat) (reg : List Nat) (data : Bytes) (c' : App.Ctx)
    (reg' : List Nat) (chg : List (Change App.Handler)) (hd : data.length ≤ 1024)
    (h : App.pmtSection c pmtPid reg data = .ok (c', reg', chg)) : SectLen reg reg' chg := by
  unfold App.pmtSection at h
  dsimp only at h
  obtain ⟨end_, hend, h⟩ := R.bind_eq_ok h
  obtain ⟨body, hbody, h⟩ := R.bind_eq_ok h
  obtain ⟨r, hr, h⟩ := R.bind_eq_ok h
  have triv : ∀ {x : App.Ctx × List Nat × List (Change App.Handler)},
      x = (c, reg, []) → R.ok x = R.ok (c', reg', chg) → SectLen reg reg' chg := by
    intro x hx h
    subst hx
    have := R.ok_inj h
    simp only [Prod.mk.injEq] at this
    obtain ⟨_, e2, e3⟩ := this
    subst e2 e3
    exact sectLen_triv reg
  cases r with
  | none => exact triv rfl h
  | some sect =>
    dsimp only at h
    obtain ⟨tid, _, h⟩ := R.bind_eq_ok h
    split at h
    · exact triv rfl h
    · obtain ⟨streams, hst, h⟩ := R.bind_eq_ok h
      obtain ⟨pcr, _, h⟩ := R.bind_eq_ok h
      obtain ⟨progDesc, _, h⟩ := R.bind_eq_ok h
      have hsb := pmtFromBytes_some _ _ hr
      have hbl := sliceR_length _ _ _ _ hbody
      have hel := subR_ok _ _ _ hend
      have hpl := pmtStreams_length _ _ hst
      have hne : streams.length ≤ MAX_ENTRIES := by
        unfold MAX_ENTRIES; rw [hsb] at hpl; omega
      split at h
      case' isTrue => obtain ⟨_, _, h⟩ := R.bind_eq_ok h
      all_goals (
        obtain ⟨rem, hrem, h⟩ := R.bind_eq_ok h
        have := R.ok_inj h
        simp only [Prod.mk.injEq] at this
        obtain ⟨_, e2, e3⟩ := this
        have hf := foldl_construct
          (fun s : Tables.StreamInfo => App.Req.stream pmtPid s.streamType s.pid pcr s.descBytes progDesc)
          Tables.StreamInfo.pid _ (fun _ _ => rfl) streams (c, [])
        have hfl := foldl_construct_length
          (fun s : Tables.StreamInfo => App.Req.stream pmtPid s.streamType s.pid pcr s.descBytes progDesc)
          Tables.StreamInfo.pid _ (fun _ _ => rfl) streams (c, [])
        obtain ⟨r1, r2⟩ := mapM_remove_length _ _ hrem
        have ho := outdated_length_le reg (streams.map Tables.StreamInfo.pid)
        have hlen : chg.length = 0 + streams.length + rem.length := by
          rw [← e3, List.length_append]
          exact congrArg (· + rem.length) hfl
        refine ⟨?_, Or.inr (by rw [← e2, List.length_map]; exact hne), ?_⟩
        · rw [hlen, r1]
          omega
        · intro ch hch
          rw [← e3] at hch
          rcases List.mem_append.1 hch with h1 | h1
          · exact chgReg_of_fold _ _ streams ch (hf.2 ch h1)
          · intro h hv; rw [r2 ch h1] at hv; cases hv)

theorem runDeliveries_len (sect : App.Ctx → List Nat → Bytes → R (App.Ctx × List Nat × List (Change App.Handler)))
    (hsect : ∀ c reg d c' reg' chg, d.length ≤ 1024 → sect c reg d = .ok (c', reg', chg) →
      SectLen reg reg' chg) :
    ∀ (ds : List Psi.Delivery) (c : App.Ctx) (reg : List Nat) (c' : App.Ctx) (reg' : List Nat)
      (chg : List (Change App.Handler)), (∀ d ∈ ds, d.bytes.length ≤ 1024) →
      reg.length ≤ MAX_ENTRIES →
      App.runDeliveries sect c reg ds = .ok (c', reg', chg) →
      chg.length ≤ ds.length * (2 * MAX_ENTRIES) ∧ reg'.length ≤ MAX_ENTRIES
        ∧ ∀ ch ∈ chg, ChgReg ch := by
  intro ds
  induction ds with
  | nil =>
    intro c reg c' reg' chg _ hr h
    have := R.ok_inj h
    simp only [Prod.mk.injEq] at this
    obtain ⟨_, e2, e3⟩ := this
    subst e2 e3
    exact ⟨Nat.zero_le _, hr, by simp⟩
  | cons d ds ih =>
    intro c reg c' reg' chg hds hr h
    have hd := hds d List.mem_cons_self
    have hrest := fun d' hd' => hds d' (List.mem_cons_of_mem _ hd')
    unfold App.runDeliveries at h
    obtain ⟨b, _, h⟩ := R.bind_eq_ok h
    split at h
    · obtain ⟨r1, h1, h⟩ := R.bind_eq_ok h
      obtain ⟨c1, reg1, chg1⟩ := r1
      dsimp only at h
      obtain ⟨r2, h2, h⟩ := R.bind_eq_ok h
      obtain ⟨c2, reg2, chg2⟩ := r2
      have := R.ok_inj h
      simp only [Prod.mk.injEq] at this
      obtain ⟨_, e2, e3⟩ := this
      subst e2 e3
      obtain ⟨a1, a2, a3⟩ := hsect _ _ _ _ _ _ hd h1
      have hr1 : reg1.length ≤ MAX_ENTRIES := by
        rcases a2 with e | e
        · rw [e]; exact hr
        · exact e
      obtain ⟨b1, b2, b3⟩ := ih _ _ _ _ _ hrest hr1 h2
      refine ⟨?_, b2, ?_⟩
      · simp only [List.length_append, List.length_cons]
        rw [Nat.add_mul]
        omega
      · intro ch hch
        rcases List.mem_append.1 hch with x | x
        · exact a3 ch x
        · exact b3 ch x
    · obtain ⟨b1, b2, b3⟩ := ih _ _ _ _ _ hrest hr h
      refine ⟨?_, b2, b3⟩
      simp only [List.length_cons]
      rw [Nat.add_mul]
      omega

/-- `SectionPacketConsumer::consume` yields at most two whole sections of at most 1024 bytes -/
theorem psi_consume_deliveries (s s' : Psi.St) (ds : List Psi.Delivery) (p : Bytes)
    (hs : C03.PsiInv .syntax s) (hp : p.length = 188)
    (h : Psi.consume Psi.table s p = .ok (s', ds)) :
    ds.length ≤ 2 ∧ ∀ d ∈ ds, d.bytes.length ≤ 1024 := by
  rw [C03.consume_eq_plOf Psi.table s p hp] at h
  cases hq : C03.plOf p with
  | none =>
    rw [hq] at h
    have := R.ok_inj h
    simp only [Prod.mk.injEq] at this
    rw [← this.2]
    simp
  | some q =>
    rw [hq] at h
    have hsz := C03.plOf_size p hp q hq
    change C03.consumePayload Psi.table s q.us q.bytes q.off = _ at h
    rw [C03.consumePayload_eq Psi.table C03.cfgOk_table s q.us q.bytes q.off hsz.1 hs] at h
    have := R.ok_inj h
    have e : ds = (C03.consumeSpec Psi.table s q.us q.bytes q.off).2 := by rw [this]
    rw [e]
    exact C03.consumeSpec_deliveries_weak Psi.table s _ _ _ hs

/-- recorder scripts (test-harness input) queue at most `CHG_MAX` changes per packet -/
def ScriptLenOk (cfg : App.Cfg) : Prop := ∀ k ops, (k, ops) ∈ cfg.script → ops.length ≤ CHG_MAX

theorem scriptChanges_len : ∀ (ops : List App.ScriptOp) (c : App.Ctx),
    (App.scriptChanges c ops).2.length = ops.length
      ∧ ∀ ch ∈ (App.scriptChanges c ops).2, ChgReg ch := by
  intro ops
  induction ops with
  | nil => intro c; exact ⟨rfl, by simp [App.scriptChanges]⟩
  | cons op ops ih =>
    intro c
    cases op with
    | ins pid =>
      obtain ⟨a1, a2⟩ := ih ({ c with nextTag := c.nextTag + 1 }.emit (.scriptIns pid c.nextTag))
      simp only [App.scriptChanges, List.length_cons]
      refine ⟨by rw [a1], ?_⟩
      intro ch hch
      rcases List.mem_cons.1 hch with x | x
      · subst x
        intro h hv
        injection hv with hv
        subst hv
        exact Nat.zero_le _
      · exact a2 ch x
    | rem pid =>
      obtain ⟨a1, a2⟩ := ih (c.emit (.scriptRem pid))
      simp only [App.scriptChanges, List.length_cons]
      refine ⟨by rw [a1], ?_⟩
      intro ch hch
      rcases List.mem_cons.1 hch with x | x
      · subst x
        intro h hv; cases hv
      · exact a2 ch x

/-- one `consume` of any application handler on a 188-byte packet queues at most `CHG_MAX`
changes; the handler and every inserted handler remember at most `MAX_ENTRIES` PIDs -/
theorem app_consume_len (h : App.Handler) (c : App.Ctx) (pk : Pk) (h' : App.Handler) (c' : App.Ctx)
    (chg : List (Change App.Handler)) (hh : HOk h) (hr : RegOk h) (hlen : pk.bytes.length = 188)
    (hsl : ScriptLenOk c.cfg) (hc : App.consume h c pk = .ok (h', c', chg)) :
    chg.length ≤ CHG_MAX ∧ RegOk h' ∧ ∀ ch ∈ chg, ChgReg ch := by
  cases h with
  | pat s reg =>
    unfold App.consume at hc
    dsimp only at hc
    obtain ⟨r1, h1, hc⟩ := R.bind_eq_ok hc
    obtain ⟨s', ds⟩ := r1
    dsimp only at hc
    obtain ⟨r2, h2, hc⟩ := R.bind_eq_ok hc
    obtain ⟨c2, reg2, chg2⟩ := r2
    have := R.ok_inj hc
    simp only [Prod.mk.injEq] at this
    obtain ⟨e1, e2, e3⟩ := this
    subst e1 e2 e3
    obtain ⟨d1, d2⟩ := psi_consume_deliveries s s' ds pk.bytes (hh s rfl).1 hlen h1
    obtain ⟨a1, a2, a3⟩ := runDeliveries_len _ patSection_len ds _ _ _ _ _ d2 hr h2
    refine ⟨?_, a2, a3⟩
    have : ds.length * (2 * MAX_ENTRIES) ≤ 2 * (2 * MAX_ENTRIES) := Nat.mul_le_mul_right _ d1
    unfold CHG_MAX
    omega
  | pmt pid prog s reg =>
    unfold App.consume at hc
    dsimp only at hc
    obtain ⟨r1, h1, hc⟩ := R.bind_eq_ok hc
    obtain ⟨s', ds⟩ := r1
    dsimp only at hc
    obtain ⟨r2, h2, hc⟩ := R.bind_eq_ok hc
    obtain ⟨c2, reg2, chg2⟩ := r2
    have := R.ok_inj hc
    simp only [Prod.mk.injEq] at this
    obtain ⟨e1, e2, e3⟩ := this
    subst e1 e2 e3
    obtain ⟨d1, d2⟩ := psi_consume_deliveries s s' ds pk.bytes (hh s rfl).1 hlen h1
    obtain ⟨a1, a2, a3⟩ := runDeliveries_len _ (fun c r d => pmtSection_len c pid r d) ds _ _ _ _ _ d2 hr h2
    refine ⟨?_, a2, a3⟩
    have : ds.length * (2 * MAX_ENTRIES) ≤ 2 * (2 * MAX_ENTRIES) := Nat.mul_le_mul_right _ d1
    unfold CHG_MAX
    omega
  | pes tag f =>
    obtain ⟨out, f', e1, e2, _⟩ := pes_consume_events tag f c pk h' c' chg hlen hc
    subst e1 e2
    exact ⟨Nat.zero_le _, Nat.zero_le _, by simp⟩
  | recorder tag =>
    unfold App.consume at hc
    dsimp only at hc
    have key : (match c.cfg.script.lookup (pk.off / 188) with
        | some ops => pure (App.Handler.recorder tag, (App.scriptChanges (c.emit (.pkt tag pk.off)) ops).1,
            (App.scriptChanges (c.emit (.pkt tag pk.off)) ops).2)
        | none => pure (App.Handler.recorder tag, c.emit (.pkt tag pk.off), [])) = R.ok (h', c', chg) := by
      split at hc
      · obtain ⟨_, _, hc⟩ := R.bind_eq_ok hc
        exact hc
      · exact hc
    clear hc
    cases hl : c.cfg.script.lookup (pk.off / 188) with
    | none =>
      rw [hl] at key
      have := R.ok_inj key
      simp only [Prod.mk.injEq] at this
      obtain ⟨e1, e2, e3⟩ := this
      subst e1 e2 e3
      exact ⟨Nat.zero_le _, Nat.zero_le _, by simp⟩
    | some ops =>
      rw [hl] at key
      have := R.ok_inj key
      simp only [Prod.mk.injEq] at this
      obtain ⟨e1, e2, e3⟩ := this
      subst e1 e2 e3
      have hops := hsl _ _ (mem_of_lookup _ _ _ hl)
      obtain ⟨a1, a2⟩ := scriptChanges_len ops (c.emit (.pkt tag pk.off))
      exact ⟨by rw [a1]; exact hops, Nat.zero_le _, a2⟩


/-! ### the invariant with registered-PID bounds, and the changeset high-water mark -/

/-- every handler in the table remembers at most `MAX_ENTRIES` PIDs -/
def RegInv (t : Tab App.Handler) : Prop := ∀ p h, t.get p = some h → RegOk h

theorem regInv_insert (t : Tab App.Handler) (p : Nat) (h : App.Handler) (ht : RegInv t)
    (hh : RegOk h) : RegInv (t.insert p h) := by
  intro q h' hg
  rw [Tab.get_insert] at hg
  split at hg
  · injection hg with hg; subst hg; exact hh
  · exact ht q h' hg

theorem regInv_remove (t : Tab App.Handler) (p : Nat) (ht : RegInv t) : RegInv (t.remove p) := by
  intro q h' hg
  rw [Tab.get_remove] at hg
  split at hg
  · cases hg
  · exact ht q h' hg

theorem regInv_applyChange (t : Tab App.Handler) (ch : Change App.Handler) (ht : RegInv t)
    (hc : ChgReg ch) : RegInv (applyChange t ch) := by
  cases ch with
  | insert p h => exact regInv_insert t p h ht (hc h rfl)
  | remove p => exact regInv_remove t p ht

theorem regInv_applyChanges (cs : List (Change App.Handler)) : ∀ (t : Tab App.Handler),
    RegInv t → (∀ ch ∈ cs, ChgReg ch) → RegInv (applyChanges t cs) := by
  induction cs with
  | nil => intro t ht _; exact ht
  | cons a cs ih =>
    intro t ht hc
    rw [applyChanges_cons]
    exact ih _ (regInv_applyChange t a ht (hc a List.mem_cons_self))
      (fun ch hch => hc ch (List.mem_cons_of_mem _ hch))

/-- the dispatcher-level invariant of C19b plus: every handler remembers at most `MAX_ENTRIES`
PIDs, and recorder scripts queue at most `CHG_MAX` changes per packet -/
def Inv2 (tc : Tab App.Handler × App.Ctx) : Prop :=
  Inv tc ∧ RegInv tc.1 ∧ ScriptLenOk tc.2.cfg

theorem ensure_inv2 (t : Tab App.Handler) (c : App.Ctx) (pid : Nat) (t1 : Tab App.Handler) (c1 : App.Ctx)
    (hi : Inv2 (t, c)) (hp : pid < 8192) (h : ensure App.sem t c pid = .ok (t1, c1)) :
    Inv2 (t1, c1) := by
  refine ⟨ensure_inv t c pid t1 c1 hi.1 hp h, ?_⟩
  unfold ensure at h
  split at h
  · have := R.ok_inj h
    simp only [Prod.mk.injEq] at this
    rw [← this.1, ← this.2]; exact hi.2
  · have h' : R.ok ((t.insert pid (App.construct c (.byPid pid)).1), (App.construct c (.byPid pid)).2)
        = R.ok (t1, c1) := h
    have := R.ok_inj h'
    simp only [Prod.mk.injEq] at this
    rw [← this.1, ← this.2]
    refine ⟨regInv_insert t pid _ hi.2.1 ?_, ?_⟩
    · unfold RegOk; rw [construct_regOf]; exact Nat.zero_le _
    · show ScriptLenOk (App.construct c (.byPid pid)).2.cfg
      rw [construct_cfg]; exact hi.2.2

/-- one dispatcher step on a framed packet preserves `Inv2` and queues at most `CHG_MAX` changes -/
theorem specStep_inv2 (tc : Tab App.Handler × App.Ctx) (pk : Pk) (tc' : Tab App.Handler × App.Ctx)
    (hi : Inv2 tc) (hpk : PkOk pk) (h : specStep App.sem tc pk = .ok tc') : Inv2 tc' := by
  refine ⟨specStep_inv tc pk tc' hi.1 hpk h, ?_⟩
  obtain ⟨t, c⟩ := tc
  rw [specStep_eq] at h
  obtain ⟨r, hE, h⟩ := R.bind_eq_ok h
  obtain ⟨t1, c1⟩ := r
  have hi1 := ensure_inv2 t c pk.pid t1 c1 hi hpk.2 hE
  dsimp only at h
  split at h
  · have := R.ok_inj h
    rw [← this]; exact hi1.2
  · cases hg : t1.get pk.pid with
    | none => rw [hg] at h; cases h
    | some hd =>
      rw [hg] at h
      dsimp only at h
      obtain ⟨x, hx, h⟩ := R.bind_eq_ok h
      obtain ⟨h', c', chg⟩ := x
      have := R.ok_inj h
      rw [← this]
      obtain ⟨_, a2, _⟩ := app_consume_ok hd c1 pk h' c' chg (hi1.1.1.2 _ _ hg) hpk.1 hi1.1.2 hx
      obtain ⟨_, b2, b3⟩ := app_consume_len hd c1 pk h' c' chg (hi1.1.1.2 _ _ hg) (hi1.2.1 _ _ hg)
        hpk.1 hi1.2.2 hx
      exact ⟨regInv_applyChanges chg _ (regInv_insert t1 pk.pid h' hi1.2.1 b2) b3, by
        show ScriptLenOk c'.cfg
        rw [a2]; exact hi1.2.2⟩

theorem stepChg_le (tc : Tab App.Handler × App.Ctx) (pk : Pk) (chg : List (Change App.Handler))
    (hi : Inv2 tc) (hpk : PkOk pk) (h : stepChg tc pk = .ok chg) : chg.length ≤ CHG_MAX := by
  obtain ⟨t, c⟩ := tc
  unfold stepChg at h
  obtain ⟨r, hE, h⟩ := R.bind_eq_ok h
  obtain ⟨t1, c1⟩ := r
  have hi1 := ensure_inv2 t c pk.pid t1 c1 hi hpk.2 hE
  dsimp only at h
  split at h
  · have := R.ok_inj h
    rw [← this]; exact Nat.zero_le _
  · cases hg : t1.get pk.pid with
    | none => rw [hg] at h; cases h
    | some hd =>
      rw [hg] at h
      dsimp only at h
      obtain ⟨x, hx, h⟩ := R.bind_eq_ok h
      obtain ⟨h', c', chg'⟩ := x
      have := R.ok_inj h
      rw [← this]
      exact (app_consume_len hd c1 pk h' c' chg' (hi1.1.1.2 _ _ hg) (hi1.2.1 _ _ hg)
        hpk.1 hi1.2.2 hx).1

/-- number of changes the handler of `pk.pid` queues for this packet (0 if the step panics) -/
def stepChgLen (tc : Tab App.Handler × App.Ctx) (pk : Pk) : Nat :=
  match stepChg tc pk with
  | .ok chg => chg.length
  | .panic _ => 0

/-- high-water mark of the `FilterChangeset` over the run `pushSpec App.sem tc pks`: the largest
number of changes queued by any single packet (up to the first panic, if any) -/
def chgHigh (tc : Tab App.Handler × App.Ctx) : List Pk → Nat
  | [] => 0
  | pk :: rest =>
    max (stepChgLen tc pk)
      (match specStep App.sem tc pk with
       | .ok tc' => chgHigh tc' rest
       | .panic _ => 0)

/-- … over one `push(buf)` -/
def chgHighPush (tc : Tab App.Handler × App.Ctx) (buf : Bytes) (base : Nat) : Nat :=
  match frame buf base with
  | .ok pks => chgHigh tc pks
  | .panic _ => 0

/-- … over successive pushes -/
def chgHighAll (tc : Tab App.Handler × App.Ctx) : List Bytes → Nat → Nat
  | [], _ => 0
  | b :: bs, base =>
    max (chgHighPush tc b base)
      (match push App.sem tc b base with
       | .ok tc' => chgHighAll tc' bs (base + b.length)
       | .panic _ => 0)

theorem stepChgLen_le (tc : Tab App.Handler × App.Ctx) (pk : Pk) (hi : Inv2 tc) (hpk : PkOk pk) :
    stepChgLen tc pk ≤ CHG_MAX := by
  unfold stepChgLen
  cases h : stepChg tc pk with
  | ok chg => exact stepChg_le tc pk chg hi hpk h
  | panic s => exact Nat.zero_le _

theorem chgHigh_le : ∀ (pks : List Pk) (tc : Tab App.Handler × App.Ctx), Inv2 tc →
    (∀ pk ∈ pks, PkOk pk) → chgHigh tc pks ≤ CHG_MAX := by
  intro pks
  induction pks with
  | nil => intro tc _ _; exact Nat.zero_le _
  | cons pk pks ih =>
    intro tc hi hpk
    unfold chgHigh
    have h0 := hpk pk List.mem_cons_self
    apply Nat.max_le.2
    refine ⟨stepChgLen_le tc pk hi h0, ?_⟩
    cases h : specStep App.sem tc pk with
    | ok tc' =>
      exact ih tc' (specStep_inv2 tc pk tc' hi h0 h) (fun p hp => hpk p (List.mem_cons_of_mem _ hp))
    | panic s => exact Nat.zero_le _

theorem pushSpec_inv2 : ∀ (pks : List Pk) (tc tc' : Tab App.Handler × App.Ctx), Inv2 tc →
    (∀ pk ∈ pks, PkOk pk) → pushSpec App.sem tc pks = .ok tc' → Inv2 tc' := by
  intro pks
  induction pks with
  | nil =>
    intro tc tc' hi _ h
    have := R.ok_inj h
    rw [← this]; exact hi
  | cons pk pks ih =>
    intro tc tc' hi hpk h
    rw [pushSpec_cons] at h
    obtain ⟨tc1, h1, h⟩ := R.bind_eq_ok h
    exact ih tc1 tc' (specStep_inv2 tc pk tc1 hi (hpk pk List.mem_cons_self) h1)
      (fun p hp => hpk p (List.mem_cons_of_mem _ hp)) h

theorem push_inv2 (tc : Tab App.Handler × App.Ctx) (buf : Bytes) (base : Nat)
    (tc' : Tab App.Handler × App.Ctx) (hi : Inv2 tc) (h : push App.sem tc buf base = .ok tc') :
    Inv2 tc' := by
  unfold push at h
  obtain ⟨pks, hf, h⟩ := R.bind_eq_ok h
  rw [pushModel_eq_pushSpec] at h
  exact pushSpec_inv2 pks tc tc' hi (frame_pkOk buf base pks hf) h

theorem chgHighPush_le (tc : Tab App.Handler × App.Ctx) (buf : Bytes) (base : Nat) (hi : Inv2 tc) :
    chgHighPush tc buf base ≤ CHG_MAX := by
  unfold chgHighPush
  cases hf : frame buf base with
  | ok pks => exact chgHigh_le pks tc hi (frame_pkOk buf base pks hf)
  | panic s => exact Nat.zero_le _

theorem chgHighAll_le : ∀ (bufs : List Bytes) (tc : Tab App.Handler × App.Ctx) (base : Nat),
    Inv2 tc → chgHighAll tc bufs base ≤ CHG_MAX := by
  intro bufs
  induction bufs with
  | nil => intro tc base _; exact Nat.zero_le _
  | cons b bs ih =>
    intro tc base hi
    unfold chgHighAll
    apply Nat.max_le.2
    refine ⟨chgHighPush_le tc b base hi, ?_⟩
    cases h : push App.sem tc b base with
    | ok tc' => exact ih tc' _ (push_inv2 tc b base tc' hi h)
    | panic s => exact Nat.zero_le _

theorem pushAll_inv2 : ∀ (bufs : List Bytes) (tc : Tab App.Handler × App.Ctx) (base : Nat)
    (tc' : Tab App.Handler × App.Ctx), Inv2 tc → pushAll App.sem tc bufs base = .ok tc' → Inv2 tc' := by
  intro bufs
  induction bufs with
  | nil =>
    intro tc base tc' hi h
    have := R.ok_inj h
    rw [← this]; exact hi
  | cons b bs ih =>
    intro tc base tc' hi h
    unfold pushAll at h
    obtain ⟨tc1, h1, h⟩ := R.bind_eq_ok h
    exact ih tc1 _ tc' (push_inv2 tc b base tc1 hi h1) h

theorem init_inv2 (cfg : App.Cfg) (hs : ScriptOk cfg) (hl : ScriptLenOk cfg) : Inv2 (App.init cfg) := by
  refine ⟨init_inv cfg hs, ?_, ?_⟩
  · unfold App.init
    dsimp only
    apply regInv_insert
    · intro p h' hg
      rw [Tab.get_of_ge _ _ (by simp)] at hg
      cases hg
    · unfold RegOk; rw [construct_regOf]; exact Nat.zero_le _
  · show ScriptLenOk (App.construct { cfg := cfg } (.byPid 0)).2.cfg
    rw [construct_cfg]; exact hl


/-! ### operation level: which steps can reach an allocating operation

`mayAlloc tc pk` is a Boolean function of the INPUTS of a dispatcher step.  It is `true` whenever
the step (i) constructs a handler (`add_pid_filter`), (ii) can queue a change (a scripted
recorder), (iii) hands bytes to the buffer layer of a PAT/PMT section consumer while it is
`Buffering` (`extend_from_slice`) or starts a section there (`start_*_section`: in-place delivery
or `clear` + `extend_from_slice`), hence also whenever (iv) a whole section can reach
`PatProcessor/PmtProcessor::section` (`FixedBitSet::with_capacity`, `construct`,
`FilterChangeset::insert/remove`).  It is conservative: `true` does not mean the allocator is
called. -/

/-- continuation bytes would reach `Buffer…::continue_*_section` while it is `Buffering(n)` -/
def contReaches (s : Psi.St) : Bool := !s.ignoreRest && !s.dedupIgnore && s.remaining.isSome

/-- the payload `q` makes the `Psi.table` chain of a PAT/PMT consumer in state `s` reach its buffer
layer: continuation bytes (a non-unit-start payload, or the `pointer_field` bytes of a unit start)
arrive while `Buffering`, or a section start passes the processor's checks (`startOk`) and the
dedup layer (`version_number` differs from the remembered one) and so reaches
`Buffer…::start_*_section`.  A unit start whose `pointer_field` points past the payload only
resets (`Vec::clear`). -/
def psiTouches (s : Psi.St) (q : C03.Pl) : Bool :=
  if q.us then
    if 0 < byteD q.bytes 0 ∧ (q.bytes.drop 1).length ≤ byteD q.bytes 0 then false
    else
      (decide (0 < byteD q.bytes 0) && contReaches s)
      || (decide (3 ≤ ((q.bytes.drop 1).drop (byteD q.bytes 0)).length)
          && C03.startOk Psi.table ((q.bytes.drop 1).drop (byteD q.bytes 0))
          && (s.lastVersion != some (versionOf ((q.bytes.drop 1).drop (byteD q.bytes 0)))))
  else contReaches s

/-- … for a 188-byte packet (no payload: nothing reaches the consumer) -/
def psiMayAlloc (s : Psi.St) (p : Bytes) : Bool :=
  match C03.plOf p with
  | none => false
  | some q => psiTouches s q

/-- can `consume` of this handler on this packet reach an allocating operation?  PAT/PMT: see
`psiTouches`; PES filter: never (it keeps no buffer and queues nothing, `es_payload_in_packet`);
recorder (harness): when a script entry exists for this packet index. -/
def handlerMayAlloc (c : App.Ctx) (pk : Pk) : App.Handler → Bool
  | .pat s _ => psiMayAlloc s pk.bytes
  | .pmt _ _ s _ => psiMayAlloc s pk.bytes
  | .pes _ _ => false
  | .recorder _ => (c.cfg.script.lookup (pk.off / 188)).isSome

/-- can the dispatcher step on `pk` from `tc` reach an allocating operation? -/
def mayAlloc (tc : Tab App.Handler × App.Ctx) (pk : Pk) : Bool :=
  !tc.1.contains pk.pid ||
    (!pk.flagged &&
      match tc.1.get pk.pid with
      | some h => handlerMayAlloc tc.2 pk h
      | none => false)

/-- does any step of the run `pushSpec App.sem tc pks` (up to its first panic) satisfy `mayAlloc`? -/
def runMayAlloc (tc : Tab App.Handler × App.Ctx) : List Pk → Bool
  | [] => false
  | pk :: rest =>
    mayAlloc tc pk ||
      (match specStep App.sem tc pk with
       | .ok tc' => runMayAlloc tc' rest
       | .panic _ => false)

/-- what a non-touching payload can do to a section consumer: buffer contents, `Buffering` state
and remembered version unchanged (only the `ignoreRest`/`dedupIgnore` flags may flip), or the
consumer is reset (`Vec::clear`, version forgotten) -/
def PsiQuiet (s s' : Psi.St) : Prop :=
  (s'.buf = s.buf ∧ s'.remaining = s.remaining ∧ s'.lastVersion = s.lastVersion)
    ∨ (s'.buf = [] ∧ s'.remaining = none ∧ s'.lastVersion = none)

theorem contSpec_unreached (s : Psi.St) (d : Bytes) (h : contReaches s = false) :
    C03.contSpec Psi.table s d = (s, []) := by
  unfold C03.contSpec C03.bufContSpec
  unfold contReaches at h
  cases h1 : s.ignoreRest <;> cases h2 : s.dedupIgnore <;> cases h3 : s.remaining <;>
    simp_all [Psi.table]

theorem procReset_quiet (s : Psi.St) : PsiQuiet s (Psi.procReset Psi.table s) :=
  Or.inr ⟨rfl, rfl, rfl⟩

/-- `psiTouches = false`: the chain delivers no section and leaves the consumer `PsiQuiet` -/
theorem psi_untouched (s : Psi.St) (q : C03.Pl) (h : psiTouches s q = false) :
    (C03.consumeSpec Psi.table s q.us q.bytes q.off).2 = [] ∧
      PsiQuiet s (C03.consumeSpec Psi.table s q.us q.bytes q.off).1 := by
  unfold psiTouches at h
  unfold C03.consumeSpec
  cases hus : q.us with
  | false =>
    rw [hus] at h
    simp only [Bool.false_eq_true, if_false] at h ⊢
    rw [contSpec_unreached s _ h]
    exact ⟨rfl, Or.inl ⟨rfl, rfl, rfl⟩⟩
  | true =>
    rw [hus] at h
    simp only [if_true] at h ⊢
    by_cases hreset : 0 < byteD q.bytes 0 ∧ (q.bytes.drop 1).length ≤ byteD q.bytes 0
    · simp only [hreset, and_self, if_true]
      exact ⟨by first | rfl | trivial, procReset_quiet s⟩
    · simp only [hreset, if_false, Bool.or_eq_false_iff] at h ⊢
      obtain ⟨hc, hstart⟩ := h
      have hr1 : (if 0 < byteD q.bytes 0 then
          C03.contSpec Psi.table s ((q.bytes.drop 1).take (byteD q.bytes 0)) else (s, [])) = (s, []) := by
        split
        · rename_i hp
          simp only [hp, decide_true, Bool.true_and] at hc
          exact contSpec_unreached s _ hc
        · rfl
      rw [hr1]
      by_cases h3 : ((q.bytes.drop 1).drop (byteD q.bytes 0)).length < 3
      · simp only [h3, if_true]
        exact ⟨by first | rfl | trivial, procReset_quiet s⟩
      · simp only [h3, if_false, List.nil_append]
        have h3' : 3 ≤ ((q.bytes.drop 1).drop (byteD q.bytes 0)).length := by omega
        simp only [h3', decide_true, Bool.true_and] at hstart
        unfold C03.startSpec
        by_cases hok : C03.startOk Psi.table ((q.bytes.drop 1).drop (byteD q.bytes 0)) = true
        · simp only [hok, Bool.true_and, bne_eq_false_iff_eq] at hstart
          simp only [hok, if_true]
          unfold C03.dedupStartSpec
          have hd : Psi.table.dedup = true := rfl
          have hb : (s.lastVersion ==
              some ((byteD ((q.bytes.drop 1).drop (byteD q.bytes 0)) 5 >>> 1) &&& 0b0001_1111)) = true := by
            rw [hstart]; simp [versionOf]
          simp only [hd, if_true, hb]
          exact ⟨by first | rfl | trivial, Or.inl ⟨rfl, rfl, rfl⟩⟩
        · simp only [hok]
          exact ⟨by first | rfl | trivial, Or.inl ⟨rfl, rfl, rfl⟩⟩

/-- `psiMayAlloc = false` on a 188-byte packet: `Psi.consume` succeeds with NO delivery (so the
table processor's `section` is not called) and leaves the consumer `PsiQuiet` -/
theorem psi_quiet_consume (s : Psi.St) (p : Bytes) (hs : C03.PsiInv .syntax s) (hp : p.length = 188)
    (h : psiMayAlloc s p = false) :
    ∃ s', Psi.consume Psi.table s p = .ok (s', []) ∧ PsiQuiet s s' := by
  rw [C03.consume_eq_plOf Psi.table s p hp]
  unfold psiMayAlloc at h
  cases hpl : C03.plOf p with
  | none => exact ⟨s, rfl, Or.inl ⟨rfl, rfl, rfl⟩⟩
  | some q =>
    rw [hpl] at h
    have hsz := C03.plOf_size p hp q hpl
    obtain ⟨h1, h2⟩ := psi_untouched s q h
    refine ⟨(C03.consumeSpec Psi.table s q.us q.bytes q.off).1, ?_, h2⟩
    show C03.consumePayload Psi.table s q.us q.bytes q.off = _
    rw [C03.consumePayload_eq Psi.table C03.cfgOk_table s q.us q.bytes q.off hsz.1 hs, ← h1]

/-- relation between a handler before and after a quiet `consume` -/
def HandlerQuiet (pk : Pk) (h h' : App.Handler) : Prop :=
  match h with
  | .pat s reg => ∃ s', h' = .pat s' reg ∧ Psi.consume Psi.table s pk.bytes = .ok (s', []) ∧ PsiQuiet s s'
  | .pmt pid prog s reg =>
    ∃ s', h' = .pmt pid prog s' reg ∧ Psi.consume Psi.table s pk.bytes = .ok (s', []) ∧ PsiQuiet s s'
  | .pes tag _ => ∃ f', h' = .pes tag f'
  | .recorder tag => h' = .recorder tag

/-- `handlerMayAlloc = false`: `consume` queues nothing, constructs nothing (`nextTag` unchanged),
and a PAT/PMT handler's section consumer delivers no section and stays `PsiQuiet` -/
theorem quiet_consume (h : App.Handler) (c : App.Ctx) (pk : Pk) (h' : App.Handler) (c' : App.Ctx)
    (chg : List (Change App.Handler)) (hh : HOk h) (hlen : pk.bytes.length = 188)
    (hm : handlerMayAlloc c pk h = false) (hc : App.consume h c pk = .ok (h', c', chg)) :
    chg = [] ∧ c'.nextTag = c.nextTag ∧ c'.cfg = c.cfg ∧ HandlerQuiet pk h h' := by
  cases h with
  | pat s reg =>
    obtain ⟨s', h1, h2⟩ := psi_quiet_consume s pk.bytes (hh s rfl).1 hlen hm
    unfold App.consume at hc
    dsimp only at hc
    rw [h1] at hc
    have := R.ok_inj hc
    simp only [Prod.mk.injEq] at this
    obtain ⟨e1, e2, e3⟩ := this
    subst e1 e2 e3
    exact ⟨rfl, rfl, rfl, s', rfl, h1, h2⟩
  | pmt pid prog s reg =>
    obtain ⟨s', h1, h2⟩ := psi_quiet_consume s pk.bytes (hh s rfl).1 hlen hm
    unfold App.consume at hc
    dsimp only at hc
    rw [h1] at hc
    have := R.ok_inj hc
    simp only [Prod.mk.injEq] at this
    obtain ⟨e1, e2, e3⟩ := this
    subst e1 e2 e3
    exact ⟨rfl, rfl, rfl, s', rfl, h1, h2⟩
  | pes tag f =>
    obtain ⟨out, f', e1, e2, _, _, e5, e6⟩ := pes_consume_events tag f c pk h' c' chg hlen hc
    subst e1 e2
    exact ⟨rfl, e5, e6, f', rfl⟩
  | recorder tag =>
    unfold App.consume at hc
    dsimp only at hc
    have hl : c.cfg.script.lookup (pk.off / 188) = none := by
      simpa [handlerMayAlloc] using hm
    rw [hl] at hc
    have key : R.ok (App.Handler.recorder tag, c.emit (.pkt tag pk.off), ([] : List (Change App.Handler)))
        = R.ok (h', c', chg) := by
      split at hc
      · obtain ⟨_, _, hc⟩ := R.bind_eq_ok hc
        exact hc
      · exact hc
    have := R.ok_inj key
    simp only [Prod.mk.injEq] at this
    obtain ⟨e1, e2, e3⟩ := this
    subst e1 e2 e3
    exact ⟨rfl, rfl, rfl, rfl⟩

/-- what a step with `mayAlloc = false` does: the PID already has a handler (nothing is
constructed by `add_pid_filter`); a flagged packet changes nothing; otherwise the handler `h` of
`pk.pid` is replaced by `h'` with `HandlerQuiet pk h h'`, no change is queued, no tag handed out -/
def StepQuiet (tc : Tab App.Handler × App.Ctx) (pk : Pk) (tc' : Tab App.Handler × App.Ctx) : Prop :=
  tc.1.contains pk.pid = true ∧ stepChg tc pk = .ok [] ∧ tc'.2.nextTag = tc.2.nextTag
    ∧ tc'.2.cfg = tc.2.cfg ∧ tc'.1.length = tc.1.length
    ∧ ((pk.flagged = true ∧ tc' = tc) ∨
       (pk.flagged = false ∧ ∃ h h', tc.1.get pk.pid = some h ∧ tc'.1 = tc.1.insert pk.pid h'
          ∧ HandlerQuiet pk h h'))

/-- soundness of `mayAlloc` with respect to the model: a successful step with `mayAlloc = false`
from a `Bounded` table on a 188-byte packet is `StepQuiet` -/
theorem mayAlloc_false_step (t : Tab App.Handler) (c : App.Ctx) (pk : Pk)
    (tc' : Tab App.Handler × App.Ctx) (hb : Bounded t) (hlen : pk.bytes.length = 188)
    (hm : mayAlloc (t, c) pk = false) (h : specStep App.sem (t, c) pk = .ok tc') :
    StepQuiet (t, c) pk tc' := by
  unfold mayAlloc at hm
  simp only [Bool.or_eq_false_iff, Bool.not_eq_false', Bool.and_eq_false_iff, Bool.not_eq_false'] at hm
  obtain ⟨hcont, hm⟩ := hm
  obtain ⟨hd, hg⟩ := (Tab.contains_eq_true_iff t pk.pid).1 hcont
  cases hf : pk.flagged with
  | true =>
    rw [specStep_flagged_of_contains App.sem t c pk hcont hf] at h
    have := R.ok_inj h
    subst this
    refine ⟨hcont, ?_, rfl, rfl, rfl, Or.inl ⟨hf, rfl⟩⟩
    unfold stepChg
    rw [ensure_of_contains App.sem t c pk.pid hcont]
    simp only [R.ok_bind, hf, if_true]
  | false =>
    rw [hf] at hm
    have hm' : handlerMayAlloc c pk hd = false := by
      rcases hm with hm | hm
      · cases hm
      · rw [hg] at hm; exact hm
    rw [specStep_consume_of_contains App.sem t c pk hd hcont hf hg] at h
    obtain ⟨x, hx, h⟩ := R.bind_eq_ok h
    obtain ⟨h', c', chg⟩ := x
    have := R.ok_inj h
    subst this
    obtain ⟨e1, e2, e3, e4⟩ := quiet_consume hd c pk h' c' chg (hb.2 _ _ hg) hlen hm' hx
    subst e1
    refine ⟨hcont, ?_, e2, e3, length_insert_same t pk.pid hd h' hg, Or.inr ⟨hf, hd, h', hg, rfl, e4⟩⟩
    unfold stepChg
    rw [ensure_of_contains App.sem t c pk.pid hcont]
    simp only [R.ok_bind, hf, Bool.false_eq_true, if_false, hg]
    have hx' : App.consume hd c pk = .ok (h', c', []) := hx
    rw [hx']; rfl

/-- in steady state (no recorder script) `mayAlloc` is `false` for the packet -/
theorem steady_mayAlloc_false (t : Tab App.Handler) (c : App.Ctx) (pk : Pk)
    (hsc : c.cfg.script = []) (hst : SteadyPk t pk) : mayAlloc (t, c) pk = false := by
  obtain ⟨hlen, hcont, hq⟩ := hst
  obtain ⟨hd, hg⟩ := (Tab.contains_eq_true_iff t pk.pid).1 hcont
  unfold mayAlloc
  simp only [hcont, Bool.not_true, Bool.false_or, hg, Bool.and_eq_false_iff, Bool.not_eq_false']
  refine Or.inr ?_
  have hpsi : ∀ s, psiOf hd = some s → psiMayAlloc s pk.bytes = false := by
    intro s hs
    obtain ⟨v, ⟨hlv, hrem⟩, hr⟩ := hq hd s hg hs
    unfold psiMayAlloc
    cases hpl : C03.plOf pk.bytes with
    | none => rfl
    | some q =>
      have hcr : contReaches s = false := by unfold contReaches; rw [hrem]; simp
      show psiTouches s q = false
      unfold psiTouches
      rcases hr q hpl with hus | ⟨h9, hsyn, hl, hv⟩
      · rw [hus]; simpa using hcr
      · cases hus : q.us with
        | false => simpa using hcr
        | true =>
          simp only [if_true, hcr, Bool.and_false, Bool.false_or]
          split
          · rfl
          · rw [hlv, hv]; simp
  cases hd with
  | pat s reg => exact hpsi s rfl
  | pmt pid prog s reg => exact hpsi s rfl
  | pes tag f => rfl
  | recorder tag => simp [handlerMayAlloc, hsc]

/-- … and for every step of a steady run -/
theorem steady_run_mayAlloc_false : ∀ (pks : List Pk) (t : Tab App.Handler) (c : App.Ctx),
    c.cfg.script = [] → Steady t pks → runMayAlloc (t, c) pks = false := by
  intro pks
  induction pks with
  | nil => intro t c _ _; rfl
  | cons pk pks ih =>
    intro t c hsc hst
    unfold runMayAlloc
    rw [steady_mayAlloc_false t c pk hsc (hst pk List.mem_cons_self), Bool.false_or]
    cases h : specStep App.sem (t, c) pk with
    | panic s => rfl
    | ok tc1 =>
      obtain ⟨_, a2, a3⟩ := steady_step t c pk tc1 hsc (hst pk List.mem_cons_self) h
      obtain ⟨t1, c1⟩ := tc1
      have hst1 : Steady t1 pks := fun p hp =>
        steadyPk_congr t t1 p a2 (hst p (List.mem_cons_of_mem _ hp))
      exact ih t1 c1 (by rw [show c1.cfg = c.cfg from a3]; exact hsc) hst1


/-! ### C19's steady-state vocabulary versus C10's

C10 (`Ts/Lemmas/C10.lean`) describes a repetition packet through the SPECIFICATION of a section
transmission (`WellFormedSection`, `WellFormedMux`); C19 only looks at the bytes the dedup layer
reads.  Every C10 repetition packet is a C19 repetition packet, so `steady_state_no_alloc` covers
all traffic C10's theorems talk about. -/

theorem quiescent_iff_c10 (s : Psi.St) (v : Nat) : Quiescent s v ↔ C10.Quiescent v s := Iff.rfl

/-- C19's `versionOf` (what `tshVersion` computes) is the standard's `version_number` field -/
theorem versionOf_eq_c10 (ns : Bytes) : versionOf ns = C10.versionOf ns :=
  (C10.versionOf_eq ns).symm

theorem repeatPayload_of_c10 (v : Nat) (q : C03.Pl) (h : C10.RepPayload v q) : RepeatPayload v q := by
  rcases h with hus | ⟨S, m, hS, h8, hver, hm, _, hb⟩
  · exact Or.inl hus
  · obtain ⟨hk, hmin, hcase⟩ := C10.mux_case S m hm
    have hsz := hm.2.2.1
    have hfl := C10.first_length S m
    have hp : m.pre.length < 256 := by have := hsz.2; omega
    have hb0 : byteD q.bytes 0 = m.pre.length := by
      rw [hb]
      unfold Spec.SectionMux.Mux.first
      rw [C03.byteD_cons_zero, UInt8.toNat_ofNat']
      exact Nat.mod_eq_of_lt hp
    have hns : (q.bytes.drop 1).drop (byteD q.bytes 0) = S.take m.k ++ m.tailBytes := by
      rw [hb0, hb]
      unfold Spec.SectionMux.Mux.first
      simp only [List.drop_succ_cons, List.drop_zero, List.drop_left']
    have hok := C10.share_startOk S hS m.k m.tailBytes hk hmin hcase
    have hv := C10.share_version S m.k m.tailBytes h8 hk hmin hcase
    obtain ⟨o1, _, o3⟩ := (C03.startOk_iff _ _).1 hok
    refine Or.inr ⟨?_, ?_, ?_, ?_⟩
    · rw [hb0, hb, hfl]; omega
    · rw [hns]; exact o1
    · rw [hns]; exact o3
    · rw [hns]
      show C10.verField _ = v
      rw [hv, hver]

/-- every repetition packet in the sense of C10 is one in the sense of C19 -/
theorem repeatPkt_of_c10 (v : Nat) (p : Bytes) (h : C10.RepPacket v p) : RepeatPkt v p :=
  fun q hq => repeatPayload_of_c10 v q (h.2 q hq)


/-- C10's hypotheses about one packet (`run_rep_noop`: its PID's handler is a PAT/PMT handler
quiescent at `v`, the packet is a C10 repetition packet of version `v`) imply C19's `SteadyPk` -/
theorem steadyPk_of_c10 (t : Tab App.Handler) (pk : Pk) (v : Nat) (h : App.Handler)
    (hg : t.get pk.pid = some h) (hq : C10.QuiescentH v h) (hp : C10.RepPacket v pk.bytes) :
    SteadyPk t pk := by
  refine ⟨hp.1, (Tab.contains_eq_true_iff t pk.pid).2 ⟨h, hg⟩, ?_⟩
  intro h' s hg' hs
  rw [hg] at hg'
  injection hg' with hg'
  subst hg'
  cases h with
  | pat s0 reg =>
    injection hs with hs; subst hs
    exact ⟨v, hq, repeatPkt_of_c10 v pk.bytes hp⟩
  | pmt pid prog s0 reg =>
    injection hs with hs; subst hs
    exact ⟨v, hq, repeatPkt_of_c10 v pk.bytes hp⟩
  | pes _ _ => cases hs
  | recorder _ => cases hs

end Ts.Lemmas.C19
