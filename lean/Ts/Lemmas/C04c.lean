import Ts.Lemmas.C04b
/-!
# C04 helper lemmas, part 3: the gate along a whole run (any number of pushes, any chunking)

* Part A — `framedAll`: the packets all the `push` calls of a run iterate over, in order;
  `pushAll_eq_pushSpec`: successive `push` calls compute the one-packet-at-a-time fold `pushSpec`
  over `framedAll`.
* Part B — `runApp_history`: the history form of the gate for `runApp` on any list of pushes;
  `FromVerifiedDelivery`: the request-level reading of `StepEv`.
* Part C — `TabGate`: every PAT / PMT handler of a reachable table satisfies `GateInv`.
* Part D — `BlockedRun` / `pushSpec_blocked_pass`: a list of packets each served by a PAT / PMT
  handler whose reassembler completes no section that passes the CRC layer leaves the context
  untouched and every table slot's handler unchanged up to the reassembly state.

Like `Ts.Lemmas.C04b`, nothing here uses any fact about the checksum function.
-/
namespace Ts.Lemmas.C04c
open Ts Ts.Psi Ts.Demux Ts.App Ts.Lemmas.Proj Ts.Lemmas.C04b
open Ts.Lemmas.C19 (R.bind_eq_ok R.ok_inj)

/-! ## Part A: several pushes = one fold over all framed packets -/

/-- the packets that the successive calls `push(b₀), push(b₁), …` iterate over, in order; `base` =
number of bytes pushed before `b₀`.  Each buffer is framed on its own (`frame`: `chunks_exact(188)`
+ `try_new`), so an incomplete tail of a buffer is dropped, exactly as in `pushAll`.
(`frame` never panics: `frame_eq_pure`; the `.panic` arm is dead.) -/
def framedAll : List Bytes → Nat → List Pk
  | [], _ => []
  | b :: bs, base =>
    (match frame b base with
      | .ok pks => pks
      | .panic _ => []) ++ framedAll bs (base + b.length)

theorem framedAll_cons (b : Bytes) (bs : List Bytes) (base : Nat) :
    framedAll (b :: bs) base = framePure (chunks b) base ++ framedAll bs (base + b.length) := by
  show (match frame b base with | .ok pks => pks | .panic _ => []) ++ _ = _
  rw [frame_eq_pure]

/-- one push: `framedAll [buf] 0` is what `frame buf 0` returns -/
theorem framedAll_single (buf : Bytes) (pks : List Pk) (h : frame buf 0 = .ok pks) :
    framedAll [buf] 0 = pks := by
  show (match frame buf 0 with | .ok pks => pks | .panic _ => []) ++ [] = _
  rw [h, List.append_nil]

theorem pkOf_bytes (ch : Bytes) (off : Nat) (pk : Pk) (h : pkOf ch off = some pk) : pk.bytes = ch := by
  unfold pkOf at h
  split at h
  · injection h with h; rw [← h]
  · cases h

theorem framePure_len : ∀ (chs : List Bytes) (off : Nat), (∀ ch ∈ chs, ch.length = 188) →
    ∀ pk ∈ framePure chs off, pk.bytes.length = 188 := by
  intro chs
  induction chs with
  | nil => intro off _ pk hm; cases hm
  | cons ch chs ih =>
    intro off hl pk hm
    have ih' := ih (off + 188) (fun x hx => hl x (List.mem_cons_of_mem _ hx))
    unfold framePure at hm
    cases hp : pkOf ch off with
    | none => rw [hp] at hm; exact ih' pk hm
    | some p =>
      rw [hp] at hm
      rcases List.mem_cons.1 hm with e | e
      · rw [e, pkOf_bytes ch off p hp]; exact hl ch List.mem_cons_self
      · exact ih' pk e

/-- every framed packet has 188 bytes -/
theorem framedAll_len : ∀ (bufs : List Bytes) (base : Nat), ∀ pk ∈ framedAll bufs base,
    pk.bytes.length = 188 := by
  intro bufs
  induction bufs with
  | nil => intro base pk hm; cases hm
  | cons b bs ih =>
    intro base pk hm
    rw [framedAll_cons] at hm
    rcases List.mem_append.1 hm with e | e
    · exact framePure_len _ base (chunks_all_188 b) pk e
    · exact ih _ pk e

/-- **successive `push` calls compute the packet-at-a-time fold over all framed packets**, for any
handler semantics, any start state and any list of buffers of any lengths -/
theorem pushAll_eq_pushSpec {H C : Type} (sem : Sem H C) : ∀ (bufs : List Bytes) (tc : Tab H × C)
    (base : Nat), pushAll sem tc bufs base = pushSpec sem tc (framedAll bufs base) := by
  intro bufs
  induction bufs with
  | nil => intro tc base; rfl
  | cons b bs ih =>
    intro tc base
    rw [framedAll_cons, pushSpec_append_aux]
    unfold pushAll push
    rw [frame_eq_pure]
    simp only [R.ok_bind]
    rw [pushModel_eq_pushSpec]
    cases pushSpec sem tc (framePure (chunks b) base) with
    | panic s => rfl
    | ok tc1 => simp only [R.ok_bind]; exact ih tc1 _

theorem runApp_eq_pushSpec (cfg : App.Cfg) (pushes : List Bytes) :
    runApp cfg pushes = pushSpec App.sem (App.init cfg) (framedAll pushes 0) :=
  pushAll_eq_pushSpec App.sem pushes (App.init cfg) 0

/-! ## Part B: history form for a whole run -/

/-- every event of the final trace of a successful run with the check compiled in is the initial
`ByPid(0)` request or was appended by the dispatcher step on some framed packet, from the state
reached after the framed packets before it, and satisfies `StepEv` there -/
theorem runApp_history (cfg : App.Cfg) (hb : cfg.bypassCrc = false) (pushes : List Bytes)
    (t : Tab Handler) (c : Ctx) (h : runApp cfg pushes = .ok (t, c)) :
    ∀ e ∈ c.trace, e = Ev.construct (.byPid 0) 0 ∨
      ∃ pre pk post t1 c1, framedAll pushes 0 = pre ++ pk :: post ∧
        pushSpec App.sem (App.init cfg) pre = .ok (t1, c1) ∧ StepEv t1 c1 pk e := by
  rw [runApp_eq_pushSpec] at h
  obtain ⟨_, _, out, hout, hall⟩ := pushSpec_gated (framedAll pushes 0) (App.init cfg) (t, c) hb h
  intro e hm
  rw [show (t, c).2 = c from rfl] at hout
  rw [hout, (init_trace cfg).1] at hm
  rcases List.mem_append.1 hm with hm | hm
  · exact Or.inr (hall e hm)
  · simp only [List.mem_singleton] at hm
    exact Or.inl hm

/-- the request `req` is one of the requests computed from a section `d.bytes` that the
reassembler of the PAT / PMT handler serving `pk.pid` in state `(t, c)` delivers ON THE PACKET `pk`
(`d ∈ ds`, `Psi.consume Psi.table s pk.bytes = .ok (s', ds)`, `s` the handler's reassembly state
found in `t`) and that satisfies `Verified`.  "Serving": the handler registered for `pk.pid` in `t`,
or, if the slot is empty, the one `construct` returns for the `ByPid(pk.pid)` request. -/
def FromVerifiedDelivery (t : Tab Handler) (c : Ctx) (pk : Pk) (req : Req) : Prop :=
  ∃ h0, (t.get pk.pid = some h0 ∨ (t.get pk.pid = none ∧ h0 = (construct c (.byPid pk.pid)).1)) ∧
    ((∃ s reg s' ds d, h0 = .pat s reg ∧ Psi.consume Psi.table s pk.bytes = .ok (s', ds) ∧ d ∈ ds
        ∧ Verified d.bytes ∧ req ∈ patRequests d.bytes) ∨
     (∃ pid prog s reg s' ds d, h0 = .pmt pid prog s reg
        ∧ Psi.consume Psi.table s pk.bytes = .ok (s', ds) ∧ d ∈ ds
        ∧ Verified d.bytes ∧ req ∈ pmtRequests pid d.bytes))

theorem fromVerifiedDelivery_of_stepEv (t : Tab Handler) (c : Ctx) (pk : Pk) (req : Req) (tag : Nat)
    (h : StepEv t c pk (Ev.construct req tag)) :
    req = Req.byPid pk.pid ∨ FromVerifiedDelivery t c pk req := by
  rcases h with ⟨tag', he⟩ | ⟨h0, hserv, hg⟩
  · injection he with he _
    exact Or.inl he
  · refine Or.inr ⟨h0, hserv, ?_⟩
    cases h0 with
    | pat s reg =>
      obtain ⟨s', ds, d, hP, hd, hv, r, tg, hr, hm⟩ := hg
      injection hr with hr _; subst hr
      exact Or.inl ⟨s, reg, s', ds, d, rfl, hP, hd, hv, hm⟩
    | pmt pid prog s reg =>
      obtain ⟨s', ds, d, hP, hd, hv, r, tg, hr, hm⟩ := hg
      injection hr with hr _; subst hr
      exact Or.inr ⟨pid, prog, s, reg, s', ds, d, rfl, hP, hd, hv, hm⟩
    | pes σ f => exact absurd rfl (hg req tag)
    | recorder σ => exact absurd rfl (hg req tag)

/-- forgetting where the section was delivered -/
theorem fromVerifiedDelivery_weaken (t : Tab Handler) (c : Ctx) (pk : Pk) (req : Req)
    (h : FromVerifiedDelivery t c pk req) :
    ∃ S, Verified S ∧ (req ∈ patRequests S ∨ ∃ pid, req ∈ pmtRequests pid S) := by
  obtain ⟨_, _, h | h⟩ := h
  · obtain ⟨_, _, _, _, d, _, _, _, hv, hm⟩ := h
    exact ⟨d.bytes, hv, Or.inl hm⟩
  · obtain ⟨pid, _, _, _, _, _, d, _, _, _, hv, hm⟩ := h
    exact ⟨d.bytes, hv, Or.inr ⟨pid, hm⟩⟩

/-! ## Part C: every PAT / PMT handler of a reachable table satisfies `GateInv` -/

/-- the reassembly state of a PAT / PMT handler satisfies `GateInv` -/
def HGate : Handler → Prop
  | .pat s _ => GateInv s
  | .pmt _ _ s _ => GateInv s
  | .pes _ _ => True
  | .recorder _ => True

def TabGate (t : Tab Handler) : Prop := ∀ q h, t.get q = some h → HGate h

def ChgGate (cs : List (Change Handler)) : Prop := ∀ q h, Change.insert q h ∈ cs → HGate h

theorem chgGate_nil : ChgGate [] := by intro q h hm; cases hm

theorem chgGate_append {a b : List (Change Handler)} (ha : ChgGate a) (hb : ChgGate b) :
    ChgGate (a ++ b) := by
  intro q h hm
  rcases List.mem_append.1 hm with e | e
  · exact ha q h e
  · exact hb q h e

theorem chgGate_removes (cs : List (Change Handler)) (hr : ∀ ch ∈ cs, ∃ q, ch = Change.remove q) :
    ChgGate cs := by
  intro q h hm
  obtain ⟨q', hq'⟩ := hr _ hm
  cases hq'

theorem construct_hgate (c : Ctx) (req : Req) : HGate (construct c req).1 := by
  unfold construct
  simp only []
  split
  · exact gateInv_init
  · trivial
  · exact gateInv_init
  · trivial
  · split <;> trivial

theorem foldl_construct_chgGate {α : Type} (req : α → Req) (pidOf : α → Nat)
    (g : Ctx × List (Change Handler) → α → Ctx × List (Change Handler))
    (hg : ∀ acc e, g acc e = ((construct acc.1 (req e)).2,
      acc.2 ++ [Change.insert (pidOf e) (construct acc.1 (req e)).1])) :
    ∀ (es : List α) (acc : Ctx × List (Change Handler)), ChgGate acc.2 → ChgGate (es.foldl g acc).2 := by
  intro es
  induction es with
  | nil => intro acc h; exact h
  | cons e es ih =>
    intro acc h
    rw [List.foldl_cons]
    refine ih (g acc e) ?_
    rw [hg]
    refine chgGate_append h ?_
    intro q x hm
    simp only [List.mem_singleton] at hm
    injection hm with _ hm
    rw [hm]; exact construct_hgate _ _

theorem patSection_chgGate (c : Ctx) (reg : List Nat) (data : Bytes) (c' : Ctx) (reg' : List Nat)
    (chg : List (Change Handler)) (h : patSection c reg data = .ok (c', reg', chg)) : ChgGate chg := by
  unfold patSection at h
  dsimp only at h
  obtain ⟨end_, _, h⟩ := R.bind_eq_ok h
  obtain ⟨body, _, h⟩ := R.bind_eq_ok h
  obtain ⟨tid, _, h⟩ := R.bind_eq_ok h
  split at h
  · have := R.ok_inj h
    simp only [Prod.mk.injEq] at this
    rw [← this.2.2]; exact chgGate_nil
  · obtain ⟨entries, hent, h⟩ := R.bind_eq_ok h
    obtain ⟨rem, hrem, h⟩ := R.bind_eq_ok h
    have := R.ok_inj h
    simp only [Prod.mk.injEq] at this
    rw [← this.2.2]
    exact chgGate_append
      (foldl_construct_chgGate
        (fun e : Tables.PatEntry => match e with
          | .program pn pid => Req.pmt pid pn
          | .network pid => Req.nit pid) Tables.PatEntry.pid _ (fun _ _ => rfl) entries (c, [])
        chgGate_nil)
      (chgGate_removes _ (mapM_remove_shape _ _ hrem))

theorem pmtSection_chgGate (c : Ctx) (pmtPid : Nat) (reg : List Nat) (data : Bytes) (c' : Ctx)
    (reg' : List Nat) (chg : List (Change Handler))
    (h : pmtSection c pmtPid reg data = .ok (c', reg', chg)) : ChgGate chg := by
  unfold pmtSection at h
  dsimp only at h
  obtain ⟨end_, _, h⟩ := R.bind_eq_ok h
  obtain ⟨body, _, h⟩ := R.bind_eq_ok h
  obtain ⟨r, _, h⟩ := R.bind_eq_ok h
  have triv : ∀ {x : Ctx × List Nat × List (Change Handler)},
      x = (c, reg, []) → R.ok x = R.ok (c', reg', chg) → ChgGate chg := by
    intro x hx h
    subst hx
    have := R.ok_inj h
    simp only [Prod.mk.injEq] at this
    rw [← this.2.2]; exact chgGate_nil
  cases r with
  | none => exact triv rfl h
  | some sect =>
    dsimp only at h
    obtain ⟨tid, _, h⟩ := R.bind_eq_ok h
    split at h
    · exact triv rfl h
    · obtain ⟨streams, hst, h⟩ := R.bind_eq_ok h
      obtain ⟨pcr, _, h⟩ := R.bind_eq_ok h
      obtain ⟨progDesc, _, h⟩ := R.bind_eq_ok h
      split at h
      case' isTrue => obtain ⟨_, _, h⟩ := R.bind_eq_ok h
      all_goals (
        obtain ⟨rem, hrem, h⟩ := R.bind_eq_ok h
        have := R.ok_inj h
        simp only [Prod.mk.injEq] at this
        rw [← this.2.2]
        exact chgGate_append
          (foldl_construct_chgGate
            (fun s : Tables.StreamInfo => Req.stream pmtPid s.streamType s.pid pcr s.descBytes progDesc)
            Tables.StreamInfo.pid _ (fun _ _ => rfl) streams (c, []) chgGate_nil)
          (chgGate_removes _ (mapM_remove_shape _ _ hrem)))

theorem runDeliveries_chgGate
    (sect : Ctx → List Nat → Bytes → R (Ctx × List Nat × List (Change Handler)))
    (hsect : ∀ c reg d c' reg' chg, sect c reg d = .ok (c', reg', chg) → ChgGate chg) :
    ∀ (ds : List Psi.Delivery) (c : Ctx) (reg : List Nat) (c' : Ctx) (reg' : List Nat)
      (chg : List (Change Handler)),
      runDeliveries sect c reg ds = .ok (c', reg', chg) → ChgGate chg := by
  intro ds
  induction ds with
  | nil =>
    intro c reg c' reg' chg h
    have := R.ok_inj h
    simp only [Prod.mk.injEq] at this
    rw [← this.2.2]; exact chgGate_nil
  | cons d ds ih =>
    intro c reg c' reg' chg h
    unfold runDeliveries at h
    obtain ⟨b, _, h⟩ := R.bind_eq_ok h
    split at h
    · obtain ⟨r1, h1, h⟩ := R.bind_eq_ok h
      obtain ⟨c1, reg1, chg1⟩ := r1
      dsimp only at h
      obtain ⟨r2, h2, h⟩ := R.bind_eq_ok h
      obtain ⟨c2, reg2, chg2⟩ := r2
      have := R.ok_inj h
      simp only [Prod.mk.injEq] at this
      rw [← this.2.2]
      exact chgGate_append (hsect _ _ _ _ _ _ h1) (ih _ _ _ _ _ h2)
    · exact ih _ _ _ _ _ h

theorem scriptChanges_chgGate : ∀ (ops : List ScriptOp) (c : Ctx), ChgGate (scriptChanges c ops).2 := by
  intro ops
  induction ops with
  | nil => intro c; exact chgGate_nil
  | cons op ops ih =>
    intro c
    cases op with
    | ins pid =>
      have a := ih ({ c with nextTag := c.nextTag + 1 }.emit (.scriptIns pid c.nextTag))
      simp only [scriptChanges]
      intro q h hm
      rcases List.mem_cons.1 hm with e | e
      · injection e with _ e; rw [e]; trivial
      · exact a q h e
    | rem pid =>
      have a := ih (c.emit (.scriptRem pid))
      simp only [scriptChanges]
      intro q h hm
      rcases List.mem_cons.1 hm with e | e
      · cases e
      · exact a q h e

/-- one `consume` on a 188-byte packet keeps `HGate` and queues only handlers satisfying it -/
theorem consume_hgate (h : Handler) (c : Ctx) (pk : Pk) (h' : Handler) (c' : Ctx)
    (chg : List (Change Handler)) (hl : pk.bytes.length = 188) (hh : HGate h)
    (hc : App.consume h c pk = .ok (h', c', chg)) : HGate h' ∧ ChgGate chg := by
  cases h with
  | pat s reg =>
    unfold App.consume at hc
    dsimp only at hc
    obtain ⟨r1, h1, hc⟩ := R.bind_eq_ok hc
    obtain ⟨s', ds⟩ := r1
    dsimp only at hc
    obtain ⟨r2, h2, hc⟩ := R.bind_eq_ok hc
    obtain ⟨c2, reg2, chg2⟩ := r2
    have := R.ok_inj hc
    simp only [Prod.mk.injEq] at this
    rw [← this.1, ← this.2.2]
    exact ⟨(consume_table_gateInv s hh pk.bytes hl s' ds h1).1,
      runDeliveries_chgGate _ patSection_chgGate _ _ _ _ _ _ h2⟩
  | pmt pid prog s reg =>
    unfold App.consume at hc
    dsimp only at hc
    obtain ⟨r1, h1, hc⟩ := R.bind_eq_ok hc
    obtain ⟨s', ds⟩ := r1
    dsimp only at hc
    obtain ⟨r2, h2, hc⟩ := R.bind_eq_ok hc
    obtain ⟨c2, reg2, chg2⟩ := r2
    have := R.ok_inj hc
    simp only [Prod.mk.injEq] at this
    rw [← this.1, ← this.2.2]
    exact ⟨(consume_table_gateInv s hh pk.bytes hl s' ds h1).1,
      runDeliveries_chgGate _ (fun c r d => pmtSection_chgGate c pid r d) _ _ _ _ _ _ h2⟩
  | pes tag f =>
    unfold App.consume at hc
    dsimp only at hc
    obtain ⟨r1, h1, hc⟩ := R.bind_eq_ok hc
    obtain ⟨f', evs⟩ := r1
    dsimp only at hc
    obtain ⟨c2, h2, hc⟩ := R.bind_eq_ok hc
    have := R.ok_inj hc
    simp only [Prod.mk.injEq] at this
    rw [← this.1, ← this.2.2]
    exact ⟨trivial, chgGate_nil⟩
  | recorder tag =>
    unfold App.consume at hc
    dsimp only at hc
    have key : (match c.cfg.script.lookup (pk.off / 188) with
        | some ops => pure (Handler.recorder tag, (scriptChanges (c.emit (.pkt tag pk.off)) ops).1,
            (scriptChanges (c.emit (.pkt tag pk.off)) ops).2)
        | none => pure (Handler.recorder tag, c.emit (.pkt tag pk.off), [])) = R.ok (h', c', chg) := by
      split at hc
      · obtain ⟨_, _, hc⟩ := R.bind_eq_ok hc
        exact hc
      · exact hc
    clear hc
    cases hlk : c.cfg.script.lookup (pk.off / 188) with
    | none =>
      rw [hlk] at key
      have := R.ok_inj key
      simp only [Prod.mk.injEq] at this
      rw [← this.1, ← this.2.2]
      exact ⟨trivial, chgGate_nil⟩
    | some ops =>
      rw [hlk] at key
      have := R.ok_inj key
      simp only [Prod.mk.injEq] at this
      rw [← this.1, ← this.2.2]
      exact ⟨trivial, scriptChanges_chgGate ops _⟩

theorem tabGate_insert (t : Tab Handler) (p : Nat) (h : Handler) (ht : TabGate t) (hh : HGate h) :
    TabGate (t.insert p h) := by
  intro q x hg
  rw [Tab.get_insert] at hg
  split at hg
  · injection hg with hg; rw [← hg]; exact hh
  · exact ht q x hg

theorem tabGate_applyChanges (cs : List (Change Handler)) (t : Tab Handler) (ht : TabGate t)
    (hc : ChgGate cs) : TabGate (applyChanges t cs) := by
  intro q x hg
  rcases get_applyChanges_cases cs t q x hg with e | e
  · exact ht q x e
  · exact hc q x e

theorem specStep_tabGate (t : Tab Handler) (c : Ctx) (pk : Pk) (t' : Tab Handler) (c' : Ctx)
    (hl : pk.bytes.length = 188) (ht : TabGate t) (h : specStep App.sem (t, c) pk = .ok (t', c')) :
    TabGate t' := by
  rw [specStep_eq] at h
  obtain ⟨r, hE, h⟩ := R.bind_eq_ok h
  obtain ⟨t1, c1⟩ := r
  have ht1 : TabGate t1 := by
    rcases ensure_cases t c pk.pid t1 c1 hE with ⟨_, e, _⟩ | ⟨_, e, _⟩
    · rw [e]; exact ht
    · rw [e]; exact tabGate_insert _ _ _ ht (construct_hgate _ _)
  dsimp only at h
  split at h
  · have := R.ok_inj h
    simp only [Prod.mk.injEq] at this
    rw [← this.1]; exact ht1
  · cases hg : t1.get pk.pid with
    | none => rw [hg] at h; cases h
    | some hd =>
      rw [hg] at h
      dsimp only at h
      obtain ⟨x, hx, h⟩ := R.bind_eq_ok h
      obtain ⟨h', c2, chg⟩ := x
      have := R.ok_inj h
      simp only [Prod.mk.injEq] at this
      rw [← this.1]
      obtain ⟨a, b⟩ := consume_hgate hd c1 pk h' c2 chg hl (ht1 _ _ hg) hx
      exact tabGate_applyChanges _ _ (tabGate_insert _ _ _ ht1 a) b

theorem pushSpec_tabGate : ∀ (pks : List Pk) (tc tc' : Tab Handler × Ctx),
    (∀ pk ∈ pks, pk.bytes.length = 188) → TabGate tc.1 → pushSpec App.sem tc pks = .ok tc' →
    TabGate tc'.1 := by
  intro pks
  induction pks with
  | nil =>
    intro tc tc' _ ht h
    have := R.ok_inj h
    rw [← this]; exact ht
  | cons pk pks ih =>
    intro tc tc' hl ht h
    rw [pushSpec_cons] at h
    obtain ⟨tc1, h1, h⟩ := R.bind_eq_ok h
    obtain ⟨t, c⟩ := tc
    obtain ⟨t1, c1⟩ := tc1
    exact ih (t1, c1) tc' (fun x hx => hl x (List.mem_cons_of_mem _ hx))
      (specStep_tabGate t c pk t1 c1 (hl pk List.mem_cons_self) ht h1) h

theorem init_tabGate (cfg : App.Cfg) : TabGate (App.init cfg).1 := by
  show TabGate (Tab.insert [] 0 (construct { cfg := cfg } (.byPid 0)).1)
  refine tabGate_insert _ _ _ ?_ (construct_hgate _ _)
  intro q h hg
  rw [Tab.get_of_ge _ _ (Nat.zero_le _)] at hg
  cases hg

/-- **reachable tables**: after any prefix of the framed packets of any run, every PAT / PMT
handler in the table has a reassembly state satisfying `GateInv` -/
theorem reachable_tabGate (cfg : App.Cfg) (pushes : List Bytes) (pre post : List Pk)
    (hsplit : framedAll pushes 0 = pre ++ post) (t1 : Tab Handler) (c1 : Ctx)
    (hpre : pushSpec App.sem (App.init cfg) pre = .ok (t1, c1)) : TabGate t1 :=
  pushSpec_tabGate pre (App.init cfg) (t1, c1)
    (fun pk hm => framedAll_len pushes 0 pk (by rw [hsplit]; exact List.mem_append_left _ hm))
    (init_tabGate cfg) hpre

/-! ## Part D: a list of packets none of which completes an acceptable section -/

/-- the section-reassembly state of a PAT / PMT handler -/
def tableSt : Handler → Option Psi.St
  | .pat s _ => some s
  | .pmt _ _ s _ => some s
  | .pes _ _ => none
  | .recorder _ => none

/-- the same handler with reassembly state `s'` -/
def withSt : Handler → Psi.St → Handler
  | .pat _ reg, s' => .pat s' reg
  | .pmt pid prog _ reg, s' => .pmt pid prog s' reg
  | .pes tag f, _ => .pes tag f
  | .recorder tag, _ => .recorder tag

/-- the handler with its section-reassembly state forgotten: kind, PMT PID / program number and
the registered set (`filters_registered`) are kept; PES filters and recorders are kept whole -/
def forgetSt : Handler → Handler
  | .pat _ reg => .pat {} reg
  | .pmt pid prog _ reg => .pmt pid prog {} reg
  | .pes tag f => .pes tag f
  | .recorder tag => .recorder tag

theorem forgetSt_withSt (h : Handler) (s' : Psi.St) : forgetSt (withSt h s') = forgetSt h := by
  cases h <;> rfl

/-- `pks` is a list of unflagged packets each of which, in the table as it stands when the packet
is reached (starting from `t`, advancing only the reassembly state of the serving handler), is
served by a PAT / PMT handler whose reassembler returns on it and completes only sections
satisfying `bad` -/
def BlockedRun (bad : Bytes → Prop) : Tab Handler → List Pk → Prop
  | _, [] => True
  | t, pk :: rest => pk.flagged = false ∧ ∃ h s s' ds, t.get pk.pid = some h ∧ tableSt h = some s
      ∧ Psi.consume Psi.table s pk.bytes = .ok (s', ds) ∧ (∀ d ∈ ds, bad d.bytes)
      ∧ BlockedRun bad (t.insert pk.pid (withSt h s')) rest

/-- lifting of a one-step "blocked" fact (`hstep`) over a packet list -/
theorem pushSpec_blocked (bad : Bytes → Prop)
    (hstep : ∀ (t : Tab Handler) (c : Ctx) (pk : Pk) (h : Handler) (s s' : Psi.St)
      (ds : List Psi.Delivery), c.cfg.bypassCrc = false → t.get pk.pid = some h → tableSt h = some s →
      GateInv s → pk.flagged = false → pk.bytes.length = 188 →
      Psi.consume Psi.table s pk.bytes = .ok (s', ds) → (∀ d ∈ ds, bad d.bytes) →
      specStep App.sem (t, c) pk = .ok (t.insert pk.pid (withSt h s'), c)) :
    ∀ (pks : List Pk) (t : Tab Handler) (c : Ctx), c.cfg.bypassCrc = false → TabGate t →
      (∀ pk ∈ pks, pk.bytes.length = 188) → BlockedRun bad t pks →
      ∃ t2, pushSpec App.sem (t, c) pks = .ok (t2, c)
        ∧ (∀ q, (t2.get q).map forgetSt = (t.get q).map forgetSt)
        ∧ (∀ q, (∀ pk ∈ pks, pk.pid ≠ q) → t2.get q = t.get q) := by
  intro pks
  induction pks with
  | nil => intro t c _ _ _ _; exact ⟨t, rfl, fun _ => rfl, fun _ _ => rfl⟩
  | cons pk pks ih =>
    intro t c hb ht hl hr
    obtain ⟨hf, h, s, s', ds, hg, hs, hP, hbad, hrest⟩ := hr
    have hgi : GateInv s := by
      have := ht _ _ hg
      cases h with
      | pat s0 reg => injection hs with hs; subst hs; exact this
      | pmt pid prog s0 reg => injection hs with hs; subst hs; exact this
      | pes _ _ => cases hs
      | recorder _ => cases hs
    have hl0 := hl pk List.mem_cons_self
    have h1 := hstep t c pk h s s' ds hb hg hs hgi hf hl0 hP hbad
    have ht1 := specStep_tabGate t c pk _ c hl0 ht h1
    obtain ⟨t2, h2, k1, k2⟩ := ih _ c hb ht1 (fun x hx => hl x (List.mem_cons_of_mem _ hx)) hrest
    refine ⟨t2, by rw [pushSpec_cons, h1]; exact h2, ?_, ?_⟩
    · intro q
      rw [k1 q, Tab.get_insert]
      split
      · rename_i e
        rw [e, hg]
        show some (forgetSt (withSt h s')) = some (forgetSt h)
        rw [forgetSt_withSt]
      · rfl
    · intro q hq
      rw [k2 q (fun x hx => hq x (List.mem_cons_of_mem _ hx)),
        Tab.get_insert_ne _ _ _ _ (fun e => hq pk List.mem_cons_self e.symm)]

end Ts.Lemmas.C04c
