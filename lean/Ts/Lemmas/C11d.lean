import Ts.Lemmas.C11c
/-!
# C11 helper data, part 4 (second review round)

* `first_payload_incomplete`: what the starting payload of a MULTI-packet transmission delivers.
* the bytes of reviewer case `N5` / `N5ctl` (`/tmp/pr/rev2e_cases.txt`): a legal DUPLICATE of the
  first packet of a two-packet PMT, and their evaluation on the whole model (`runApp {}` = harness
  mode `demux b0t0`).  Inputs are byte LISTS; the concatenations are byte-for-byte the hex strings
  of the case lines (checked outside Lean: model driver and real code print the same lines).
-/
namespace Ts.Lemmas.C11c
open Ts Ts.Psi Ts.Spec Ts.Spec.SectionMux Ts.Lemmas.C03 Ts.Lemmas.C10 Ts.App Ts.Demux

/-- the starting payload of a well-formed packetisation that does NOT hold the whole section
(`m.k < S.length`), in any state with the buffer invariant: no panic; the only deliveries are what
the pointer bytes complete of the old buffer; the version of `S` is recorded -/
theorem first_payload_incomplete (S : Bytes) (hS : WellFormedSection .syntax S) (h8 : 8 ≤ S.length)
    (m : Mux) (hm : WellFormedMux .syntax S m) (hk : m.k < S.length)
    (s : St) (hs : PsiInv .syntax s) (off : Nat) :
    ∃ s1, consumePayload Psi.table s true (m.first S) off = .ok (s1, (preSpec Psi.table s m.pre).2)
      ∧ s1.lastVersion = some (versionOf S) ∧ PsiInv .syntax s1 := by
  obtain ⟨hk', hmin, hcase⟩ := mux_case S m hm
  have hne : 1 ≤ (m.first S).length := by rw [first_length]; omega
  have h1 := consumePayload_eq Psi.table cfgOk_table s true (m.first S) off hne hs
  have hi := consumeSpec_inv Psi.table s true (m.first S) off hs
  have hok := share_startOk S hS m.k m.tailBytes hk' hmin hcase
  have hver := share_version S m.k m.tailBytes h8 hk' hmin hcase
  refine ⟨(consumeSpec Psi.table s true (m.first S) off).1, ?_, ?_, hi⟩
  · rw [h1, consumeSpec_first_table S m hm s off]
    by_cases hv : (preSpec Psi.table s m.pre).1.lastVersion = some (verField (S.take m.k ++ m.tailBytes))
    · rw [startSpec_table_same _ _ _ hok hv]; simp
    · rw [startSpec_table_diff _ _ _ hok hv]
      have hstart := startSpec_wf .syntax S hS
        ({ (preSpec Psi.table s m.pre).1 with dedupIgnore := false, lastVersion := some (verField (S.take m.k ++ m.tailBytes)) } : St)
        m.k m.tailBytes (off + 1 + m.pre.length) hk' hmin hcase
      simp only [cfgOf] at hstart
      rw [hstart, if_neg (by omega)]
      simp
  · rw [consumeSpec_first_table S m hm s off]
    show (startSpec Psi.table _ _ _).1.lastVersion = _
    rw [startSpec_records _ _ _ hok, hver]

/-! ### reviewer case N5: a duplicated first packet of a two-packet PMT -/

/-- PAT section, version 0: program 1 → PMT PID 0x100 -/
def patN5 : Bytes :=
  [0x00, 0xb0, 0x0d, 0x00, 0x01, 0xc1, 0x00, 0x00, 0x00, 0x01, 0xe1, 0x00, 0xe8, 0xf9, 0x5e, 0x7d]

/-- PMT section of program 1, VERSION 1, PCR PID 0x101, 40 H.264 streams on PIDs 0x101 … 0x128:
216 bytes, so it needs two transport packets; valid CRC -/
def pmtN5 : Bytes :=
  [0x02, 0xb0, 0xd5, 0x00, 0x01, 0xc3, 0x00, 0x00, 0xe1, 0x01, 0xf0, 0x00]
    ++ (List.range 40).flatMap (fun i => [0x1b, 0xe1, UInt8.ofNat (i + 1), 0xf0, 0x00])
    ++ [0x3d, 0x11, 0xbe, 0x0b]

/-- packet `a`: PID 0x100, unit start, continuity counter 0, `pointer_field = 0`, the first 183
bytes of `pmtN5` -/
def n5a : Bytes := [0x47, 0x41, 0x00, 0x10, 0x00] ++ pmtN5.take 183

/-- packet `b`: PID 0x100, continuation, continuity counter 1, the remaining 33 bytes, stuffing -/
def n5b : Bytes := [0x47, 0x01, 0x00, 0x11] ++ pmtN5.drop 183 ++ List.replicate 151 0xff

/-- the packetisation of `pmtN5` used by `n5a`, `n5b` -/
def n5Mux : Mux := ⟨[], 183, [], [pmtN5.drop 183 ++ List.replicate 151 0xff], []⟩

theorem pmtN5_facts :
    WellFormedSection .syntax pmtN5 ∧ pmtN5.length = 216 ∧ Ts.CrcSpec.crc pmtN5 = 0
      ∧ versionOf pmtN5 = 1 ∧ byteD pmtN5 0 = 2 ∧ WellFormedMux .syntax pmtN5 n5Mux
      ∧ n5Mux.k < pmtN5.length ∧ n5Mux.pre = [] := by decide +kernel

theorem n5_plOf :
    n5a.length = 188 ∧ n5b.length = 188
      ∧ plOf n5a = some ⟨true, n5Mux.first pmtN5, 4⟩
      ∧ plOf n5b = some ⟨false, pmtN5.drop 183 ++ List.replicate 151 0xff, 4⟩
      ∧ readBits n5a 28 4 = 0 ∧ readBits n5b 28 4 = 1 := by decide +kernel

/-- reviewer case `N5`: PAT, then `a`, `a` (a legal duplicate: identical packet, same continuity
counter), `b` -/
def n5Bytes : Bytes := pktOf patN5 ++ n5a ++ n5a ++ n5b

/-- control `N5ctl`: PAT, `a`, `b` -/
def n5CtlBytes : Bytes := pktOf patN5 ++ n5a ++ n5b

/-- the PMT slot (PID 0x100) after a run: section-filter state and registered PIDs -/
def pmtSlot100 : R (Tab Handler × Ctx) → Option (St × List Nat)
  | .ok (t, _) => match t.get 0x100 with
    | some (.pmt _ _ s reg) => some (s, reg)
    | _ => none
  | .panic _ => none

theorem n5_run : requests (runApp {} [n5Bytes]) = [.byPid 0, .pmt 0x100 1] := by decide +kernel

theorem n5_slot : pmtSlot100 (runApp {} [n5Bytes])
    = some ({ lastVersion := some 1, dedupIgnore := true, buf := pmtN5.take 183, remaining := some 33 }, []) := by
  decide +kernel

theorem n5_ctl_run : requests (runApp {} [n5CtlBytes])
    = .byPid 0 :: .pmt 0x100 1 ::
        (List.range 40).map (fun i => Req.stream 0x100 0x1b (0x101 + i) 0x101 [] []) := by decide +kernel

/-- however many intact copies (`a`, `b`) follow the duplicated start: still nothing -/
theorem n5_run_more : requests (runApp {} [n5Bytes ++ n5a ++ n5b ++ n5a ++ n5b]) = [.byPid 0, .pmt 0x100 1] := by
  decide +kernel

end Ts.Lemmas.C11c
