import Ts.Lemmas.C10
/-!
# C10 / C11 helper lemmas, part 2: application handlers and the dispatcher

* `runDeliveries_append`, `crcPass_valid`
* `consume_pat_eq` / `consume_pmt_eq`: `App.consume` of a table handler in terms of `Psi.consume`
* `app_rep_noop`: a repetition packet is a no-op for a quiescent PAT / PMT handler
* `step_rep_noop`, `run_rep_noop`: the same for `specStep` / `pushSpec`
* `pes_step_eq`, `es_straddle`: an elementary-stream handler does not notice repetitions
* `consumeAll`, `pat_consumeAll`, `pmt_consumeAll`: a handler fed a packet sequence
-/
namespace Ts.Lemmas.C10
open Ts Ts.Psi Ts.Spec Ts.Spec.SectionMux Ts.Lemmas.C03 Ts.App Ts.Demux

abbrev Sect := Ctx → List Nat → Bytes → R (Ctx × List Nat × List (Change Handler))

/-! ### `runDeliveries` -/

theorem runDeliveries_append (sect : Sect) (a b : List Delivery) : ∀ (c : Ctx) (reg : List Nat),
    runDeliveries sect c reg (a ++ b) =
      (runDeliveries sect c reg a >>= fun r1 =>
        runDeliveries sect r1.1 r1.2.1 b >>= fun r2 => R.ok (r2.1, r2.2.1, r1.2.2 ++ r2.2.2)) := by
  induction a with
  | nil =>
    intro c reg
    simp only [List.nil_append, runDeliveries, R.ok_bind, List.nil_append]
    cases runDeliveries sect c reg b with
    | panic s => rfl
    | ok r => rfl
  | cons d a ih =>
    intro c reg
    simp only [List.cons_append, runDeliveries]
    cases crcPass c.cfg.bypassCrc d.bytes with
    | panic s => rfl
    | ok pass =>
      simp only [R.ok_bind]
      cases pass with
      | false => simp only [Bool.false_eq_true, if_false]; exact ih c reg
      | true =>
        simp only [if_true]
        cases sect c reg d.bytes with
        | panic s => rfl
        | ok r =>
          obtain ⟨c1, reg1, chg1⟩ := r
          simp only [R.ok_bind]
          rw [ih c1 reg1]
          cases runDeliveries sect c1 reg1 a with
          | panic s => rfl
          | ok r1 =>
            obtain ⟨c2, reg2, chg2⟩ := r1
            simp only [R.ok_bind, R.pure_eq]
            cases runDeliveries sect c2 reg2 b with
            | panic s => rfl
            | ok r2 =>
              obtain ⟨c3, reg3, chg3⟩ := r2
              simp only [R.ok_bind, List.append_assoc]

/-- a well-formed section-syntax section of at least 12 bytes whose CRC verifies passes the CRC
layer, in the normal and in the `cfg(fuzzing)` build -/
theorem crcPass_valid (b : Bool) (S : Bytes) (hS : WellFormedSection .syntax S) (h12 : 12 ≤ S.length)
    (hcrc : Ts.CrcSpec.crc S = 0) : Psi.crcPass b S = .ok true := by
  have hsyn : syntaxBit S = 1 := hS.2.2.2.2 rfl
  rw [syntaxBit_eq] at hsyn
  have hb1 := byteD_lt S 1
  have h80 : (byteD S 1 &&& 0b1000_0000 != 0) = true := by
    rw [and_80 _ hb1, hsyn]; rfl
  unfold Psi.crcPass
  rw [byteAt_ok S 1 (by omega)]
  have hl : ¬ S.length < 3 + 5 + 4 := by omega
  simp only [R.ok_bind, assertR, h80, if_true, Psi.COMMON, Psi.TSH, hl, if_false]
  cases b
  · simp only [Bool.false_eq_true, if_false, Ts.Props.C04.sum32_eq_bitserial, R.ok_bind, hcrc]; rfl
  · rfl

/-- the last delivery of a packet, when it passes the CRC layer, reaches the table processor
right after the earlier deliveries of that packet -/
theorem runDeliveries_last (sect : Sect) (c : Ctx) (reg : List Nat) (ds : List Delivery)
    (d : Delivery) (hpass : ∀ b, Psi.crcPass b d.bytes = .ok true) :
    runDeliveries sect c reg (ds ++ [d]) =
      (runDeliveries sect c reg ds >>= fun r1 =>
        sect r1.1 r1.2.1 d.bytes >>= fun r2 => R.ok (r2.1, r2.2.1, r1.2.2 ++ r2.2.2)) := by
  rw [runDeliveries_append]
  cases runDeliveries sect c reg ds with
  | panic s => rfl
  | ok r1 =>
    obtain ⟨c1, reg1, chg1⟩ := r1
    simp only [R.ok_bind, runDeliveries, hpass, if_true]
    cases sect c1 reg1 d.bytes with
    | panic s => rfl
    | ok r2 =>
      obtain ⟨c2, reg2, chg2⟩ := r2
      simp only [R.ok_bind, R.pure_eq, List.append_nil]

/-! ### table handlers in terms of `Psi.consume` -/

theorem consume_pat_eq (s s' : St) (reg : List Nat) (c : Ctx) (pk : Pk) (ds : List Delivery)
    (h : Psi.consume Psi.table s pk.bytes = .ok (s', ds)) :
    App.consume (.pat s reg) c pk =
      (runDeliveries patSection c reg ds >>= fun r => R.ok (.pat s' r.2.1, r.1, r.2.2)) := by
  simp only [App.consume, h, R.ok_bind]
  cases runDeliveries patSection c reg ds with
  | panic m => rfl
  | ok r => rfl

theorem consume_pmt_eq (pid prog : Nat) (s s' : St) (reg : List Nat) (c : Ctx) (pk : Pk)
    (ds : List Delivery) (h : Psi.consume Psi.table s pk.bytes = .ok (s', ds)) :
    App.consume (.pmt pid prog s reg) c pk =
      (runDeliveries (fun c r d => pmtSection c pid r d) c reg ds >>= fun r =>
        R.ok (.pmt pid prog s' r.2.1, r.1, r.2.2)) := by
  simp only [App.consume, h, R.ok_bind]
  cases runDeliveries (fun c r d => pmtSection c pid r d) c reg ds with
  | panic m => rfl
  | ok r => rfl

/-! ### repetition packets at the handler level -/

/-- a PAT / PMT handler whose section filter is quiescent at version `v` -/
def QuiescentH (v : Nat) : Handler → Prop
  | .pat s _ => Quiescent v s
  | .pmt _ _ s _ => Quiescent v s
  | _ => False

/-- `h'` is the table handler `h` after repetitions of version `v`: same kind, same parameters,
same registered set (`filters_registered`), still quiescent at `v`, inner buffer untouched -/
def RepRel (v : Nat) : Handler → Handler → Prop
  | .pat s reg, .pat s' reg' => reg' = reg ∧ Quiescent v s' ∧ s'.buf = s.buf
  | .pmt pid prog s reg, .pmt pid' prog' s' reg' =>
      pid' = pid ∧ prog' = prog ∧ reg' = reg ∧ Quiescent v s' ∧ s'.buf = s.buf
  | _, _ => False

theorem RepRel.quiescent {v : Nat} {h h' : Handler} (r : RepRel v h h') : QuiescentH v h' := by
  cases h <;> cases h' <;> simp only [RepRel] at r
  · exact r.2.1
  · exact r.2.2.2.1

theorem RepRel.refl {v : Nat} {h : Handler} (q : QuiescentH v h) : RepRel v h h := by
  cases h <;> simp only [QuiescentH] at q
  · exact ⟨rfl, q, rfl⟩
  · exact ⟨rfl, rfl, rfl, q, rfl⟩

theorem RepRel.trans {v : Nat} {h1 h2 h3 : Handler} (a : RepRel v h1 h2) (b : RepRel v h2 h3) :
    RepRel v h1 h3 := by
  cases h1 <;> cases h2 <;> simp only [RepRel] at a <;> cases h3 <;> simp only [RepRel] at b
  · exact ⟨by rw [b.1, a.1], b.2.1, by rw [b.2.2, a.2.2]⟩
  · exact ⟨by rw [b.1, a.1], by rw [b.2.1, a.2.1], by rw [b.2.2.1, a.2.2.1], b.2.2.2.1,
      by rw [b.2.2.2.2, a.2.2.2.2]⟩

/-- one repetition packet through the section filter -/
theorem psi_rep_packet (v : Nat) (s : St) (hq : Quiescent v s) (p : Bytes) (hp : RepPacket v p) :
    ∃ s', Psi.consume Psi.table s p = .ok (s', []) ∧ Quiescent v s' ∧ s'.buf = s.buf := by
  obtain ⟨hl, hr⟩ := hp
  rw [consume_eq_plOf Psi.table s p hl]
  cases hpl : plOf p with
  | none => exact ⟨s, rfl, hq, rfl⟩
  | some q => exact rep_step v s hq q (hr q hpl) (plOf_size p hl q hpl).1

/-- **C10, handler level**: a repetition packet (or a payload-less packet) is a no-op for a
quiescent PAT / PMT handler: context unchanged, no change queued -/
theorem app_rep_noop (v : Nat) (h : Handler) (hq : QuiescentH v h) (c : Ctx) (pk : Pk)
    (hp : RepPacket v pk.bytes) :
    ∃ h', App.consume h c pk = .ok (h', c, []) ∧ RepRel v h h' := by
  cases h with
  | pat s reg =>
    obtain ⟨s', h1, h2, h3⟩ := psi_rep_packet v s hq pk.bytes hp
    refine ⟨.pat s' reg, ?_, rfl, h2, h3⟩
    rw [consume_pat_eq s s' reg c pk [] h1]; rfl
  | pmt pid prog s reg =>
    obtain ⟨s', h1, h2, h3⟩ := psi_rep_packet v s hq pk.bytes hp
    refine ⟨.pmt pid prog s' reg, ?_, rfl, rfl, rfl, h2, h3⟩
    rw [consume_pmt_eq pid prog s s' reg c pk [] h1]; rfl
  | pes tag f => exact absurd hq (by simp [QuiescentH])
  | recorder tag => exact absurd hq (by simp [QuiescentH])

/-! ### repetition packets at the dispatcher level -/

theorem contains_of_get {H : Type} (t : Tab H) (p : Nat) (h : H) (hg : t.get p = some h) :
    t.contains p = true := (Tab.contains_eq_true_iff t p).2 ⟨h, hg⟩

/-- **C10, dispatcher level**: one repetition packet only rewrites its own slot with an
equivalent handler; the context (trace, tag counter) is returned unchanged -/
theorem step_rep_noop (v : Nat) (t : Tab Handler) (c : Ctx) (pk : Pk) (h : Handler)
    (hg : t.get pk.pid = some h) (hq : QuiescentH v h) (hf : pk.flagged = false)
    (hp : RepPacket v pk.bytes) :
    ∃ h', RepRel v h h' ∧ specStep App.sem (t, c) pk = .ok (t.insert pk.pid h', c) := by
  obtain ⟨h', h1, h2⟩ := app_rep_noop v h hq c pk hp
  refine ⟨h', h2, ?_⟩
  rw [specStep_consume_of_contains App.sem t c pk h (contains_of_get t pk.pid h hg) hf hg]
  show (App.consume h c pk >>= _) = _
  rw [h1]; rfl

/-- any run of repetition packets, possibly of several table PIDs (`ver` gives each PID's
version): context unchanged; slots of other PIDs unchanged; every quiescent table handler is
replaced by an equivalent one at most -/
theorem run_rep_noop (ver : Nat → Nat) (c : Ctx) (pks : List Pk) : ∀ (t : Tab Handler),
    (∀ pk ∈ pks, pk.flagged = false ∧ RepPacket (ver pk.pid) pk.bytes
      ∧ ∃ h, t.get pk.pid = some h ∧ QuiescentH (ver pk.pid) h) →
    ∃ t', pushSpec App.sem (t, c) pks = .ok (t', c)
      ∧ (∀ q, (∀ pk ∈ pks, pk.pid ≠ q) → t'.get q = t.get q)
      ∧ (∀ q h, t.get q = some h → QuiescentH (ver q) h →
           ∃ h', t'.get q = some h' ∧ RepRel (ver q) h h') := by
  induction pks with
  | nil =>
    intro t _
    exact ⟨t, rfl, fun _ _ => rfl, fun q h hg hq => ⟨h, hg, RepRel.refl hq⟩⟩
  | cons pk pks ih =>
    intro t hall
    obtain ⟨hf, hp, h, hg, hq⟩ := hall pk (List.mem_cons_self ..)
    obtain ⟨h1, hr1, hstep⟩ := step_rep_noop (ver pk.pid) t c pk h hg hq hf hp
    have hall' : ∀ pk' ∈ pks, pk'.flagged = false ∧ RepPacket (ver pk'.pid) pk'.bytes
        ∧ ∃ h, (t.insert pk.pid h1).get pk'.pid = some h ∧ QuiescentH (ver pk'.pid) h := by
      intro pk' hm
      obtain ⟨a, b, h', hg', hq'⟩ := hall pk' (List.mem_cons_of_mem _ hm)
      refine ⟨a, b, ?_⟩
      by_cases e : pk'.pid = pk.pid
      · rw [e, Tab.get_insert_self]; exact ⟨h1, rfl, hr1.quiescent⟩
      · rw [Tab.get_insert_ne _ _ _ _ e]; exact ⟨h', hg', hq'⟩
    obtain ⟨t', hrun, ha, hb⟩ := ih (t.insert pk.pid h1) hall'
    refine ⟨t', ?_, ?_, ?_⟩
    · rw [pushSpec_cons, hstep]; exact hrun
    · intro q hqn
      have hne : q ≠ pk.pid := fun e => hqn pk (List.mem_cons_self ..) e.symm
      rw [ha q (fun pk' hm => hqn pk' (List.mem_cons_of_mem _ hm)), Tab.get_insert_ne _ _ _ _ hne]
    · intro q h0 hg0 hq0
      by_cases e : q = pk.pid
      · subst e
        rw [hg] at hg0
        cases hg0
        obtain ⟨h', hg', hr'⟩ := hb pk.pid h1 (Tab.get_insert_self _ _ _) hr1.quiescent
        exact ⟨h', hg', hr1.trans hr'⟩
      · exact hb q h0 (by rw [Tab.get_insert_ne _ _ _ _ e]; exact hg0) hq0

/-! ### elementary-stream handlers do not notice repetitions -/

theorem pes_consume_shape (tag : Nat) (f : PesFilter.F) (c : Ctx) (pk : Pk)
    (h' : Handler) (c' : Ctx) (chg : List (Change Handler))
    (h : App.consume (.pes tag f) c pk = .ok (h', c', chg)) : chg = [] ∧ ∃ f', h' = .pes tag f' := by
  simp only [App.consume] at h
  cases h1 : PesFilter.consume f pk.bytes with
  | panic m => rw [h1] at h; cases h
  | ok r =>
    obtain ⟨f', evs⟩ := r
    rw [h1] at h
    simp only [R.ok_bind] at h
    cases h2 : esEvents c.cfg.touch tag pk.bytes pk.off c evs with
    | panic m => rw [h2] at h; cases h
    | ok c2 =>
      rw [h2] at h
      cases h
      exact ⟨rfl, f', rfl⟩

/-- one dispatcher step on a PID whose slot holds an elementary-stream handler: the step depends
on the table only through that slot -/
theorem pes_step_eq (t : Tab Handler) (c : Ctx) (pk : Pk) (tag : Nat) (f : PesFilter.F)
    (hg : t.get pk.pid = some (.pes tag f)) :
    specStep App.sem (t, c) pk =
      if pk.flagged then .ok (t, c)
      else (App.consume (.pes tag f) c pk >>= fun x => R.ok (t.insert pk.pid x.1, x.2.1)) := by
  have hc := contains_of_get t pk.pid _ hg
  cases hf : pk.flagged with
  | true => simp only [if_true]; exact specStep_flagged_of_contains App.sem t c pk hc hf
  | false =>
    simp only [Bool.false_eq_true, if_false]
    rw [specStep_consume_of_contains App.sem t c pk _ hc hf hg]
    show (App.consume (.pes tag f) c pk >>= _) = _
    cases hcons : App.consume (.pes tag f) c pk with
    | panic m => rfl
    | ok x =>
      obtain ⟨h', c', chg⟩ := x
      obtain ⟨e, _⟩ := pes_consume_shape tag f c pk h' c' chg hcons
      subst e
      rfl

theorem pes_step_result (t : Tab Handler) (c : Ctx) (pk : Pk) (tag : Nat) (f : PesFilter.F)
    (hg : t.get pk.pid = some (.pes tag f)) (t1 : Tab Handler) (c1 : Ctx)
    (h : specStep App.sem (t, c) pk = .ok (t1, c1)) :
    ∃ f1, t1.get pk.pid = some (.pes tag f1) ∧ (∀ r, r ≠ pk.pid → t1.get r = t.get r) ∧
      ∀ (tX : Tab Handler), tX.get pk.pid = some (.pes tag f) →
        ∃ tX1, specStep App.sem (tX, c) pk = .ok (tX1, c1) ∧ tX1.get pk.pid = some (.pes tag f1)
          ∧ (∀ r, r ≠ pk.pid → tX1.get r = tX.get r) := by
  rw [pes_step_eq t c pk tag f hg] at h
  cases hf : pk.flagged with
  | true =>
    rw [hf] at h
    simp only [if_true] at h
    cases h
    refine ⟨f, hg, fun _ _ => rfl, ?_⟩
    intro tX hX
    refine ⟨tX, ?_, hX, fun _ _ => rfl⟩
    rw [pes_step_eq tX c pk tag f hX, hf]; rfl
  | false =>
    rw [hf] at h
    simp only [Bool.false_eq_true, if_false] at h
    cases hcons : App.consume (.pes tag f) c pk with
    | panic m => rw [hcons] at h; cases h
    | ok x =>
      obtain ⟨h', c', chg⟩ := x
      obtain ⟨_, f1, e⟩ := pes_consume_shape tag f c pk h' c' chg hcons
      subst e
      rw [hcons] at h
      cases h
      refine ⟨f1, Tab.get_insert_self _ _ _, fun r hr => Tab.get_insert_ne _ _ _ _ hr, ?_⟩
      intro tX hX
      refine ⟨tX.insert pk.pid (.pes tag f1), ?_, Tab.get_insert_self _ _ _,
        fun r hr => Tab.get_insert_ne _ _ _ _ hr⟩
      rw [pes_step_eq tX c pk tag f hX, hf, hcons]; rfl

/-- **C10, straddling**: two packets `pk1`, `pk2` of an elementary-stream PID with any run of
table repetition packets (of other PIDs) between them: the context after `pk2` (the whole trace of
stream-start / begin / continue / end / continuity-error events) and the stream handler's state
are exactly those of the run without the repetitions -/
theorem es_straddle (ver : Nat → Nat) (t : Tab Handler) (c : Ctx) (pk1 pk2 : Pk) (reps : List Pk)
    (tag : Nat) (f : PesFilter.F) (hpid : pk2.pid = pk1.pid)
    (hg : t.get pk1.pid = some (.pes tag f))
    (hreps : ∀ pk ∈ reps, pk.pid ≠ pk1.pid ∧ pk.flagged = false ∧ RepPacket (ver pk.pid) pk.bytes
      ∧ ∃ h, t.get pk.pid = some h ∧ QuiescentH (ver pk.pid) h)
    (tB : Tab Handler) (cB : Ctx) (hB : pushSpec App.sem (t, c) [pk1, pk2] = .ok (tB, cB)) :
    ∃ tA, pushSpec App.sem (t, c) (pk1 :: (reps ++ [pk2])) = .ok (tA, cB)
      ∧ tA.get pk1.pid = tB.get pk1.pid
      ∧ (∀ r, (∀ pk ∈ reps, pk.pid ≠ r) → tA.get r = tB.get r) := by
  rw [pushSpec_cons] at hB
  cases h1 : specStep App.sem (t, c) pk1 with
  | panic m => rw [h1] at hB; cases hB
  | ok tc1 =>
    obtain ⟨t1, c1⟩ := tc1
    rw [h1] at hB
    simp only [R.ok_bind, pushSpec_cons, pushSpec_nil] at hB
    obtain ⟨f1, hg1, hne1, _⟩ := pes_step_result t c pk1 tag f hg t1 c1 h1
    -- the repetitions, on the table after `pk1`
    have hreps1 : ∀ pk ∈ reps, pk.flagged = false ∧ RepPacket (ver pk.pid) pk.bytes
        ∧ ∃ h, t1.get pk.pid = some h ∧ QuiescentH (ver pk.pid) h := by
      intro pk hm
      obtain ⟨a, b, d, h, hgh, hqh⟩ := hreps pk hm
      exact ⟨b, d, h, by rw [hne1 _ a]; exact hgh, hqh⟩
    obtain ⟨t1', hrun, ha, _⟩ := run_rep_noop ver c1 reps t1 hreps1
    have hq1' : t1'.get pk2.pid = some (.pes tag f1) := by
      rw [hpid, ha pk1.pid (fun pk hm => (hreps pk hm).1)]; exact hg1
    cases h2 : specStep App.sem (t1, c1) pk2 with
    | panic m => rw [h2] at hB; cases hB
    | ok tc2 =>
      obtain ⟨t2, c2⟩ := tc2
      rw [h2] at hB
      cases hB
      obtain ⟨f2, hg2, hne2, hX⟩ := pes_step_result t1 c1 pk2 tag f1 (by rw [hpid]; exact hg1) tB cB h2
      obtain ⟨tA, hA, hgA, hneA⟩ := hX t1' hq1'
      refine ⟨tA, ?_, ?_, ?_⟩
      · rw [pushSpec_cons, h1]
        simp only [R.ok_bind]
        rw [pushSpec_append_aux, hrun]
        simp only [R.ok_bind, pushSpec_cons, pushSpec_nil, hA]
      · rw [← hpid, hgA, hg2]
      · intro r hr
        by_cases e : r = pk2.pid
        · rw [e, hgA, hg2]
        · rw [hneA r e, hne2 r e, ha r hr]

/-! ### a handler fed a packet sequence -/

/-- the successive `consume` calls the dispatcher makes on one handler, changes concatenated -/
def consumeAll (h : Handler) (c : Ctx) : List Pk → R (Handler × Ctx × List (Change Handler))
  | [] => .ok (h, c, [])
  | pk :: pks => do
    let (h1, c1, chg1) ← App.consume h c pk
    let (h2, c2, chg2) ← consumeAll h1 c1 pks
    pure (h2, c2, chg1 ++ chg2)

theorem psi_run_total (ps : List Bytes) : ∀ (s : St), PsiInv .syntax s → (∀ p ∈ ps, p.length = 188) →
    ∃ sfin dss, Psi.run Psi.table s ps = .ok (sfin, dss) ∧ PsiInv .syntax sfin := by
  induction ps with
  | nil => intro s hs _; exact ⟨s, [], rfl, hs⟩
  | cons p ps ih =>
    intro s hs hl
    obtain ⟨s1, d1, h1, hs1⟩ := Ts.Props.C03.consume_total_inv_table s hs p (hl p (List.mem_cons_self ..))
    obtain ⟨s2, d2, h2, hs2⟩ := ih s1 hs1 (fun p' hp' => hl p' (List.mem_cons_of_mem _ hp'))
    refine ⟨s2, d1 :: d2, ?_, hs2⟩
    simp only [Psi.run, h1, R.ok_bind, h2]; rfl

/-- a table handler fed a packet sequence = the section filter run over the packets, then the
table processor run over all deliveries in order -/
theorem table_consumeAll (sect : Sect) (mk : St → List Nat → Handler)
    (hmk : ∀ s s' reg c pk ds, Psi.consume Psi.table s pk.bytes = .ok (s', ds) →
      App.consume (mk s reg) c pk =
        (runDeliveries sect c reg ds >>= fun r => R.ok (mk s' r.2.1, r.1, r.2.2)))
    (pks : List Pk) : ∀ (s : St) (c : Ctx) (reg : List Nat) (sfin : St) (dss : List (List Delivery)),
      Psi.run Psi.table s (pks.map (·.bytes)) = .ok (sfin, dss) →
      consumeAll (mk s reg) c pks =
        (runDeliveries sect c reg dss.flatten >>= fun r => R.ok (mk sfin r.2.1, r.1, r.2.2)) := by
  induction pks with
  | nil =>
    intro s c reg sfin dss h
    simp only [List.map_nil, Psi.run] at h
    cases h
    rfl
  | cons pk pks ih =>
    intro s c reg sfin dss h
    simp only [List.map_cons, Psi.run] at h
    cases h1 : Psi.consume Psi.table s pk.bytes with
    | panic m => rw [h1] at h; cases h
    | ok r1 =>
      obtain ⟨s1, d1⟩ := r1
      rw [h1] at h
      simp only [R.ok_bind] at h
      cases h2 : Psi.run Psi.table s1 (pks.map (·.bytes)) with
      | panic m => rw [h2] at h; cases h
      | ok r2 =>
        obtain ⟨s2, d2⟩ := r2
        rw [h2] at h
        cases h
        simp only [consumeAll, hmk s s1 reg c pk d1 h1, List.flatten_cons]
        rw [runDeliveries_append]
        cases runDeliveries sect c reg d1 with
        | panic m => rfl
        | ok x =>
          obtain ⟨c1, reg1, chg1⟩ := x
          simp only [R.ok_bind]
          rw [ih s1 c1 reg1 s2 d2 h2]
          cases runDeliveries sect c1 reg1 d2.flatten with
          | panic m => rfl
          | ok y => rfl

theorem pat_consumeAll (pks : List Pk) (s : St) (c : Ctx) (reg : List Nat) (sfin : St)
    (dss : List (List Delivery)) (h : Psi.run Psi.table s (pks.map (·.bytes)) = .ok (sfin, dss)) :
    consumeAll (.pat s reg) c pks =
      (runDeliveries patSection c reg dss.flatten >>= fun r => R.ok (.pat sfin r.2.1, r.1, r.2.2)) :=
  table_consumeAll patSection (fun s reg => .pat s reg)
    (fun s s' reg c pk ds h => consume_pat_eq s s' reg c pk ds h) pks s c reg sfin dss h

theorem pmt_consumeAll (pid prog : Nat) (pks : List Pk) (s : St) (c : Ctx) (reg : List Nat) (sfin : St)
    (dss : List (List Delivery)) (h : Psi.run Psi.table s (pks.map (·.bytes)) = .ok (sfin, dss)) :
    consumeAll (.pmt pid prog s reg) c pks =
      (runDeliveries (fun c r d => pmtSection c pid r d) c reg dss.flatten >>= fun r =>
        R.ok (.pmt pid prog sfin r.2.1, r.1, r.2.2)) :=
  table_consumeAll (fun c r d => pmtSection c pid r d) (fun s reg => .pmt pid prog s reg)
    (fun s s' reg c pk ds h => consume_pmt_eq pid prog s s' reg c pk ds h) pks s c reg sfin dss h

/-- packets ⇒ payload views, in the shape used by the C03 theorems -/
theorem run_of_runPl (s : St) (pkts : List Bytes) (hlen : ∀ p ∈ pkts, p.length = 188)
    (sfin : St) (ds : List Delivery) (h : runPl Psi.table s (pkts.filterMap plOf) = .ok (sfin, ds)) :
    ∃ dss, Psi.run Psi.table s pkts = .ok (sfin, dss) ∧ dss.flatten = ds := by
  have hr := run_flat Psi.table pkts s hlen
  rw [h] at hr
  cases hrun : Psi.run Psi.table s pkts with
  | panic msg => rw [hrun] at hr; cases hr
  | ok x =>
    obtain ⟨s2, dss⟩ := x
    rw [hrun] at hr
    simp only [flatR, R.ok.injEq, Prod.mk.injEq] at hr
    obtain ⟨e1, e2⟩ := hr
    subst e1
    exact ⟨dss, rfl, e2⟩

/-! ### runs of payloads -/

theorem runPl_append (cfg : Psi.Cfg) (a b : List Pl) : ∀ (s : St),
    runPl cfg s (a ++ b) =
      (runPl cfg s a >>= fun r1 => runPl cfg r1.1 b >>= fun r2 => R.ok (r2.1, r1.2 ++ r2.2)) := by
  induction a with
  | nil =>
    intro s
    simp only [List.nil_append, runPl, R.ok_bind]
    cases runPl cfg s b with
    | panic m => rfl
    | ok r => rfl
  | cons q a ih =>
    intro s
    simp only [List.cons_append, runPl]
    cases consumePayload cfg s q.us q.bytes q.off with
    | panic m => rfl
    | ok r =>
      obtain ⟨s1, d1⟩ := r
      simp only [R.ok_bind]
      rw [ih s1]
      cases runPl cfg s1 a with
      | panic m => rfl
      | ok r1 =>
        obtain ⟨s2, d2⟩ := r1
        simp only [R.ok_bind, R.pure_eq]
        cases runPl cfg s2 b with
        | panic m => rfl
        | ok r2 =>
          obtain ⟨s3, d3⟩ := r2
          simp only [R.ok_bind, List.append_assoc]

/-- any run of non-empty payloads from a state satisfying the buffer invariant: no panic, the
invariant holds afterwards, continuation payloads and unit starts alike -/
theorem runPl_total_inv (qs : List Pl) : ∀ (s : St), PsiInv .syntax s →
    (∀ q ∈ qs, 1 ≤ q.bytes.length) →
    ∃ s' ds, runPl Psi.table s qs = .ok (s', ds) ∧ PsiInv .syntax s' := by
  induction qs with
  | nil => intro s hs _; exact ⟨s, [], rfl, hs⟩
  | cons q qs ih =>
    intro s hs hq
    have h1 := consumePayload_eq Psi.table cfgOk_table s q.us q.bytes q.off (hq q (List.mem_cons_self ..)) hs
    have hi := consumeSpec_inv Psi.table s q.us q.bytes q.off hs
    obtain ⟨s2, d2, h2, hs2⟩ := ih _ hi (fun q' hq' => hq q' (List.mem_cons_of_mem _ hq'))
    refine ⟨s2, (consumeSpec Psi.table s q.us q.bytes q.off).2 ++ d2, ?_, hs2⟩
    simp only [runPl, h1, R.ok_bind, h2]
    rfl

/-! ### "last applied" (for the full-strength statement of C11) -/

/-- does a delivered section reach the table processor (CRC layer of the normal build)? -/
def passes (d : Delivery) : Bool :=
  match Psi.crcPass false d.bytes with
  | .ok true => true
  | _ => false

/-- `version_number` of the last delivered section that passed the CRC layer, if any -/
def lastApplied (ds : List Delivery) : Option Nat :=
  ((ds.filter passes).getLast?).map (fun d => versionOf d.bytes)

/-! ### concrete data for the non-vacuity examples and the C11 counter-example -/

deriving instance DecidableEq for R

/-- the 16-byte PAT section of C04 (program 1 → PMT PID 0x1e0), `version_number = 0`, valid CRC -/
def patGood : Bytes := Ts.Props.C04.patSection

/-- the same section with the last CRC bit (bit 127) inverted -/
def patBad : Bytes :=
  [0x00, 0xb0, 0x0d, 0x00, 0x01, 0xc1, 0x00, 0x00, 0x00, 0x01, 0xe1, 0xe0, 0x2d, 0x50, 0x78, 0x05]

/-- a PAT with `version_number = 1` (byte 5 = 0xc3) and its CRC -/
def patV1 : Bytes :=
  [0x00, 0xb0, 0x0d, 0x00, 0x01, 0xc3, 0x00, 0x00, 0x00, 0x01, 0xe1, 0xe0] ++
    Ts.CrcSpec.be32 (Ts.CrcSpec.crc [0x00, 0xb0, 0x0d, 0x00, 0x01, 0xc3, 0x00, 0x00, 0x00, 0x01, 0xe1, 0xe0])

/-- one transport packet on PID 0, unit start, no adaptation field, `pointer_field = 0`, carrying
the whole section `sec` followed by `0xff` stuffing -/
def pktOf (sec : Bytes) : Bytes :=
  [0x47, 0x40, 0x00, 0x10, 0x00] ++ sec ++ List.replicate (183 - sec.length) 0xff

/-- payload of `pktOf sec` -/
def plBytesOf (sec : Bytes) : Bytes := 0x00 :: (sec ++ List.replicate (183 - sec.length) 0xff)

/-- the packetisation used by `pktOf` -/
def muxOf (sec : Bytes) : Mux := ⟨[], sec.length, List.replicate (183 - sec.length) 0xff, [], []⟩

/-- continuation packet on PID 0 (payload only, all stuffing) -/
def contPkt : Bytes := [0x47, 0x00, 0x00, 0x11] ++ List.replicate 184 0xff

/-- adaptation-field-only packet on PID 0 (no payload) -/
def afOnlyPkt : Bytes := [0x47, 0x00, 0x00, 0x20, 183, 0x00] ++ List.replicate 182 0xff

def pk0 (b : Bytes) (off : Nat) : Pk := ⟨b, off, 0, false, false⟩

/-- observable summary of an application run: table size, tags handed out, trace length -/
def summary : R (Tab Handler × Ctx) → Option (Nat × Nat × Nat)
  | .ok (t, c) => some (t.length, c.nextTag, c.trace.length)
  | .panic _ => none

/-- the handler requests (`construct`) recorded in the trace, oldest first -/
def requests : R (Tab Handler × Ctx) → List Req
  | .ok (_, c) => c.trace.reverse.filterMap (fun e => match e with | .construct r _ => some r | _ => none)
  | .panic _ => []

/-! ### C11: what a (possibly damaged) start leaves behind -/

/-- continuation payloads never change the remembered version -/
theorem runPl_conts_lastVersion (conts : List Pl) (s : St) (hs : PsiInv .syntax s)
    (hus : ∀ q ∈ conts, q.us = false) (hne : ∀ q ∈ conts, 1 ≤ q.bytes.length) :
    ∃ s' ds, runPl Psi.table s conts = .ok (s', ds) ∧ s'.lastVersion = s.lastVersion
      ∧ PsiInv .syntax s' := by
  obtain ⟨s', ds, h, hi⟩ := runPl_total_inv conts s hs hne
  refine ⟨s', ds, h, ?_, hi⟩
  rw [runPl_eq Psi.table cfgOk_table conts s hs hne, runSpec_cont _ _ _ hus] at h
  have e : s' = (runCont Psi.table s (conts.map (·.bytes))).1 := by
    have := R.ok.inj h; rw [this]
  rw [e]
  exact runCont_lastVersion _ _ _

/-- a unit-start payload whose section start `D` is accepted records `versionOf D` -/
theorem start_payload_records (s : St) (hs : PsiInv .syntax s) (pre D : Bytes) (off : Nat)
    (hp : pre.length < 256) (hok : startOk Psi.table D = true) :
    ∃ s' ds, consumePayload Psi.table s true (UInt8.ofNat pre.length :: (pre ++ D)) off = .ok (s', ds)
      ∧ s'.lastVersion = some (versionOf D) ∧ PsiInv .syntax s' := by
  have h8 : 8 ≤ D.length := ((startOk_iff Psi.table D).1 hok).2.1
  have h1 := consumePayload_eq Psi.table cfgOk_table s true (UInt8.ofNat pre.length :: (pre ++ D)) off
    (by simp) hs
  have hi := consumeSpec_inv Psi.table s true (UInt8.ofNat pre.length :: (pre ++ D)) off hs
  have hf := consumeSpec_first Psi.table s pre D off hp (by omega)
  refine ⟨(consumeSpec Psi.table s true (UInt8.ofNat pre.length :: (pre ++ D)) off).1,
    (consumeSpec Psi.table s true (UInt8.ofNat pre.length :: (pre ++ D)) off).2, h1, ?_, hi⟩
  rw [hf]
  show (startSpec Psi.table _ D _).1.lastVersion = _
  rw [startSpec_records _ _ _ hok, versionOf_eq]

/-- C11 (partial), handler level, generic in the table processor -/
theorem table_applied_consumeAll (sect : Sect) (mk : St → List Nat → Handler)
    (hmk : ∀ s s' reg c pk ds, Psi.consume Psi.table s pk.bytes = .ok (s', ds) →
      App.consume (mk s reg) c pk =
        (runDeliveries sect c reg ds >>= fun r => R.ok (mk s' r.2.1, r.1, r.2.2)))
    (S : Bytes) (hS : WellFormedSection .syntax S) (h12 : 12 ≤ S.length)
    (hcrc : Ts.CrcSpec.crc S = 0) (m : Mux) (hm : WellFormedMux .syntax S m)
    (s : St) (hs : PsiInv .syntax s) (hv : s.lastVersion ≠ some (versionOf S))
    (reg : List Nat) (c : Ctx) (pks : List Pk) (hlen : ∀ pk ∈ pks, pk.bytes.length = 188)
    (off : Nat) (rest : List Pl)
    (hview : (pks.map (·.bytes)).filterMap plOf = ⟨true, m.first S, off⟩ :: rest)
    (hus : ∀ q ∈ rest, q.us = false) (hrest : rest.map (·.bytes) = m.rest) :
    ∃ sfin, Quiescent (versionOf S) sfin ∧
      consumeAll (mk s reg) c pks =
        (runDeliveries sect c reg (preSpec Psi.table s m.pre).2 >>= fun r1 =>
          sect r1.1 r1.2.1 S >>= fun r2 => R.ok (mk sfin r2.2.1, r2.1, r1.2.2 ++ r2.2.2)) := by
  obtain ⟨sfin, h1, hq, _, _⟩ := table_applied S hS (by omega) m hm s hs hv off rest hus hrest
  have hlen' : ∀ p ∈ pks.map (·.bytes), p.length = 188 := by
    intro p hp
    obtain ⟨pk, hpk, e⟩ := List.mem_map.1 hp
    rw [← e]; exact hlen pk hpk
  rw [← hview] at h1
  obtain ⟨dss, hrun, hflat⟩ := run_of_runPl s (pks.map (·.bytes)) hlen' sfin _ h1
  refine ⟨sfin, hq, ?_⟩
  rw [table_consumeAll sect mk hmk pks s c reg sfin dss hrun, hflat]
  rw [runDeliveries_last sect c reg _ ⟨S, _⟩ (fun b => crcPass_valid b S hS h12 hcrc)]
  cases runDeliveries sect c reg (preSpec Psi.table s m.pre).2 with
  | panic msg => rfl
  | ok r1 =>
    simp only [R.ok_bind]
    cases sect r1.1 r1.2.1 S with
    | panic msg => rfl
    | ok r2 => rfl

theorem repRel_pat_inv {v : Nat} {s : St} {reg : List Nat} {h' : Handler}
    (r : RepRel v (.pat s reg) h') : ∃ s', h' = .pat s' reg ∧ Quiescent v s' ∧ s'.buf = s.buf := by
  cases h' with
  | pat s' reg' => obtain ⟨e, a, b⟩ := r; subst e; exact ⟨s', rfl, a, b⟩
  | pmt _ _ _ _ => exact r.elim
  | pes _ _ => exact r.elim
  | recorder _ => exact r.elim

/-- a dispatcher step on a PAT slot whose deliveries are all stopped by the CRC layer -/
theorem step_pat_gated (t : Tab Handler) (c : Ctx) (pk : Pk) (s s' : St) (reg : List Nat)
    (ds : List Delivery) (hg : t.get pk.pid = some (.pat s reg)) (hf : pk.flagged = false)
    (hpsi : Psi.consume Psi.table s pk.bytes = .ok (s', ds))
    (hgate : runDeliveries patSection c reg ds = .ok (c, reg, [])) :
    specStep App.sem (t, c) pk = .ok (t.insert pk.pid (.pat s' reg), c) := by
  rw [specStep_consume_of_contains App.sem t c pk _ (contains_of_get t pk.pid _ hg) hf hg]
  show (App.consume (.pat s reg) c pk >>= _) = _
  rw [consume_pat_eq s s' reg c pk ds hpsi, hgate]
  rfl

end Ts.Lemmas.C10
