import Ts.Lemmas.Demux
import Ts.Props.C12
/-!
# Lemmas about framing (`chunksExact`, `mkPk`, `framePks`, `frame`) and about
context-independent handler families (used by C06 `interleaving_independent`), plus the tiny
concrete `Sem` used by the non-vacuity examples of C06/C07/C18.
-/
namespace Ts.Demux
open Ts Ts.Spec

variable {H C : Type}

/-! ### `chunks_exact(188)` -/

theorem chunksExact_fuel_irrel : ∀ (f1 f2 : Nat) (b : Bytes),
    b.length / 188 < f1 → b.length / 188 < f2 → chunksExact 188 f1 b = chunksExact 188 f2 b := by
  intro f1
  induction f1 with
  | zero => intro f2 b h; omega
  | succ f1 ih =>
    intro f2 b h1 h2
    cases f2 with
    | zero => omega
    | succ f2 =>
      unfold chunksExact
      by_cases hl : b.length < 188
      · simp [hl]
      · simp only [hl, if_false]
        have hd : (b.drop 188).length = b.length - 188 := List.length_drop
        rw [ih f2 (b.drop 188) (by omega) (by omega)]

/-- the chunks `push` iterates over -/
def chunks (b : Bytes) : List Bytes := chunksExact 188 (b.length / 188 + 1) b

theorem chunks_eq (b : Bytes) :
    chunks b = if b.length < 188 then [] else b.take 188 :: chunks (b.drop 188) := by
  unfold chunks
  rw [chunksExact]
  by_cases hl : b.length < 188
  · simp [hl]
  · simp only [hl, if_false]
    have hd : (b.drop 188).length = b.length - 188 := List.length_drop
    rw [chunksExact_fuel_irrel (b.length / 188) ((b.drop 188).length / 188 + 1) (b.drop 188)
      (by omega) (by omega)]
    rfl

theorem chunks_short (b : Bytes) (h : b.length < 188) : chunks b = [] := by
  rw [chunks_eq]; simp [h]

theorem chunksExact_all_188 : ∀ (fuel : Nat) (b : Bytes), ∀ ch ∈ chunksExact 188 fuel b, ch.length = 188 := by
  intro fuel
  induction fuel with
  | zero => intro b ch h; simp [chunksExact] at h
  | succ fuel ih =>
    intro b ch h
    unfold chunksExact at h
    by_cases hl : b.length < 188
    · simp [hl] at h
    · simp only [hl, if_false] at h
      have h' : ch = b.take 188 ∨ ch ∈ chunksExact 188 fuel (b.drop 188) := by simpa using h
      cases h' with
      | inl e => subst e; rw [List.length_take]; omega
      | inr e => exact ih _ _ e

theorem chunks_all_188 (b : Bytes) : ∀ ch ∈ chunks b, ch.length = 188 := chunksExact_all_188 _ b

/-- an aligned prefix is chunked on its own -/
theorem chunks_append : ∀ (k : Nat) (a b : Bytes), a.length = 188 * k →
    chunks (a ++ b) = chunks a ++ chunks b := by
  intro k
  induction k with
  | zero =>
    intro a b h
    have : a = [] := List.eq_nil_of_length_eq_zero (by omega)
    subst this
    rw [chunks_short [] (by simp)]; rfl
  | succ k ih =>
    intro a b h
    rw [chunks_eq (a ++ b), chunks_eq a]
    have h1 : ¬ (a ++ b).length < 188 := by rw [List.length_append]; omega
    have h2 : ¬ a.length < 188 := by omega
    simp only [h1, h2, if_false]
    rw [List.take_append_of_le_length (by omega), List.drop_append_of_le_length (by omega)]
    rw [ih (a.drop 188) b (by rw [List.length_drop]; omega)]
    rfl

theorem chunks_length_aligned : ∀ (k : Nat) (a : Bytes), a.length = 188 * k → (chunks a).length = k := by
  intro k
  induction k with
  | zero =>
    intro a h
    rw [chunks_short a (by omega)]; rfl
  | succ k ih =>
    intro a h
    rw [chunks_eq a]
    have h2 : ¬ a.length < 188 := by omega
    simp only [h2, if_false, List.length_cons]
    rw [ih (a.drop 188) (by rw [List.length_drop]; omega)]

/-! ### `mkPk` / `framePks` are total on 188-byte chunks and equal a pure `filterMap` -/

/-- the packet `mkPk` builds, as a pure function (fields per ISO/IEC 13818-1 2.4.3.2, via C12) -/
def pkOf (b : Bytes) (off : Nat) : Option Pk :=
  if byteD b 0 = 0x47 then
    some ⟨b, off, readBits b 11 13, readBits b 8 1 == 1, Packet.isScrambled (byteD b 3)⟩
  else none

theorem tryNew_ok (b : Bytes) (h : b.length = 188) :
    Packet.tryNew b = .ok (if byteD b 0 = 0x47 then some b else none) := by
  unfold Packet.tryNew
  rw [byteAt_ok b 0 (by omega)]
  simp only [assertR, h, Packet.SIZE, Packet.SYNC_BYTE, BEq.rfl, if_true, R.ok_bind, beq_iff_eq]
  split <;> rfl

theorem mkPk_ok (b : Bytes) (off : Nat) (h : b.length = 188) : mkPk b off = .ok (pkOf b off) := by
  unfold mkPk pkOf
  rw [tryNew_ok b h]
  by_cases hs : byteD b 0 = 0x47
  · simp only [hs, if_true, R.ok_bind]
    rw [Props.C12.pid_exact b h, Props.C12.tei_exact b h, (Props.C12.scrambling_exact b h).1]
    rfl
  · simp only [hs, if_false, R.ok_bind]
    rfl

def framePure : List Bytes → Nat → List Pk
  | [], _ => []
  | ch :: chs, off =>
    match pkOf ch off with
    | some pk => pk :: framePure chs (off + 188)
    | none => framePure chs (off + 188)

theorem framePks_ok : ∀ (chs : List Bytes) (off : Nat), (∀ ch ∈ chs, ch.length = 188) →
    framePks chs off = .ok (framePure chs off) := by
  intro chs
  induction chs with
  | nil => intro off _; rfl
  | cons ch chs ih =>
    intro off h
    unfold framePks framePure
    rw [mkPk_ok ch off (h ch List.mem_cons_self),
      ih (off + 188) (fun x hx => h x (List.mem_cons_of_mem _ hx))]
    simp only [R.ok_bind]
    cases pkOf ch off <;> rfl

theorem framePure_append : ∀ (x y : List Bytes) (off : Nat),
    framePure (x ++ y) off = framePure x off ++ framePure y (off + 188 * x.length) := by
  intro x
  induction x with
  | nil => intro y off; simp [framePure]
  | cons ch x ih =>
    intro y off
    simp only [List.cons_append, framePure, List.length_cons]
    rw [ih y (off + 188)]
    have : off + 188 + 188 * x.length = off + 188 * (x.length + 1) := by omega
    rw [this]
    cases pkOf ch off <;> rfl

theorem frame_eq_pure (buf : Bytes) (base : Nat) : frame buf base = .ok (framePure (chunks buf) base) :=
  framePks_ok _ base (chunks_all_188 buf)

theorem frame_append_pure (a b : Bytes) (base : Nat) (ha : a.length % 188 = 0) :
    framePure (chunks (a ++ b)) base
      = framePure (chunks a) base ++ framePure (chunks b) (base + a.length) := by
  have hk : a.length = 188 * (a.length / 188) := by omega
  rw [chunks_append _ a b hk, framePure_append, chunks_length_aligned _ a hk, ← hk]

/-! ### context-independent handler families (for `interleaving_independent`) -/

/-- pure lookup-or-construct when the constructed handler does not depend on the context -/
def ensureP (mk : Nat → H) (t : Tab H) (pid : Nat) : Tab H :=
  if t.contains pid then t else t.insert pid (mk pid)

/-- pure table transformer of one packet when handlers do not depend on the context -/
def stepP (step : H → Pk → H × List (Change H)) (mk : Nat → H) (t : Tab H) (pk : Pk) : Tab H :=
  let t1 := ensureP mk t pk.pid
  if pk.flagged then t1
  else match t1.get pk.pid with
    | none => t1
    | some h => applyChanges (t1.insert pk.pid (step h pk).1) (step h pk).2

theorem ensure_of_indep (sem : Sem H C) (mk : Nat → H)
    (hK : ∀ c pid, ∃ c', sem.construct c pid = .ok (mk pid, c'))
    (t : Tab H) (c : C) (pid : Nat) : ∃ c', ensure sem t c pid = .ok (ensureP mk t pid, c') := by
  unfold ensure ensureP
  cases hc : t.contains pid with
  | true => exact ⟨c, by simp⟩
  | false =>
    obtain ⟨c', hc'⟩ := hK c pid
    refine ⟨c', ?_⟩
    simp only [Bool.false_eq_true, if_false, hc']
    rfl

theorem ensureP_contains (mk : Nat → H) (t : Tab H) (pid : Nat) : (ensureP mk t pid).contains pid = true := by
  unfold ensureP
  cases hc : t.contains pid with
  | true => simpa using hc
  | false => simp only [Bool.false_eq_true, if_false]; exact Tab.contains_insert_self _ _ _

theorem specStep_of_indep (sem : Sem H C) (step : H → Pk → H × List (Change H)) (mk : Nat → H)
    (hS : ∀ h c pk, ∃ c', sem.consume h c pk = .ok ((step h pk).1, c', (step h pk).2))
    (hK : ∀ c pid, ∃ c', sem.construct c pid = .ok (mk pid, c'))
    (t : Tab H) (c : C) (pk : Pk) : ∃ c', specStep sem (t, c) pk = .ok (stepP step mk t pk, c') := by
  obtain ⟨c1, hE⟩ := ensure_of_indep sem mk hK t c pk.pid
  rw [specStep_eq, hE]
  simp only [R.ok_bind]
  unfold stepP
  simp only []
  cases pk.flagged with
  | true => exact ⟨c1, by simp⟩
  | false =>
    simp only [Bool.false_eq_true, if_false]
    have hc := ensureP_contains mk t pk.pid
    obtain ⟨h, hh⟩ := (Tab.contains_eq_true_iff _ _).1 hc
    simp only [hh]
    obtain ⟨c', hc'⟩ := hS h c1 pk
    exact ⟨c', by rw [hc']; rfl⟩

theorem pushSpec_of_indep (sem : Sem H C) (step : H → Pk → H × List (Change H)) (mk : Nat → H)
    (hS : ∀ h c pk, ∃ c', sem.consume h c pk = .ok ((step h pk).1, c', (step h pk).2))
    (hK : ∀ c pid, ∃ c', sem.construct c pid = .ok (mk pid, c')) :
    ∀ (pks : List Pk) (t : Tab H) (c : C),
      ∃ c', pushSpec sem (t, c) pks = .ok (pks.foldl (stepP step mk) t, c') := by
  intro pks
  induction pks with
  | nil => intro t c; exact ⟨c, rfl⟩
  | cons pk pks ih =>
    intro t c
    obtain ⟨c1, h1⟩ := specStep_of_indep sem step mk hS hK t c pk
    obtain ⟨c2, h2⟩ := ih (stepP step mk t pk) c1
    exact ⟨c2, by rw [pushSpec_cons, h1, R.ok_bind, h2]; rfl⟩

/-- slot `p` after a batch of changes depends only on slot `p` before it -/
theorem get_applyChanges_congr (cs : List (Change H)) : ∀ (t t' : Tab H) (p : Nat),
    t.get p = t'.get p → (applyChanges t cs).get p = (applyChanges t' cs).get p := by
  induction cs with
  | nil => intro t t' p h; exact h
  | cons a cs ih =>
    intro t t' p h
    rw [applyChanges_cons, applyChanges_cons]
    apply ih
    rw [get_applyChange, get_applyChange, h]

theorem get_ensureP (mk : Nat → H) (t : Tab H) (pid q : Nat) :
    (ensureP mk t pid).get q = if q = pid ∧ t.get pid = none then some (mk pid) else t.get q := by
  unfold ensureP
  cases hc : t.contains pid with
  | true =>
    obtain ⟨h, hh⟩ := (Tab.contains_eq_true_iff _ _).1 hc
    simp [hh]
  | false =>
    have hn := (Tab.contains_eq_false_iff _ _).1 hc
    simp only [Bool.false_eq_true, if_false, hn, and_true]
    exact Tab.get_insert _ _ _ _

/-- a packet of another PID whose handler queues no change for `p` leaves slot `p` alone -/
theorem stepP_get_other (step : H → Pk → H × List (Change H)) (mk : Nat → H) (p : Nat)
    (hN : ∀ h pk, pk.pid ≠ p → ∀ ch ∈ (step h pk).2, ch.pid ≠ p)
    (t : Tab H) (pk : Pk) (hp : pk.pid ≠ p) : (stepP step mk t pk).get p = t.get p := by
  have hp' : p ≠ pk.pid := fun e => hp e.symm
  have h1 : (ensureP mk t pk.pid).get p = t.get p := by
    rw [get_ensureP]; simp [hp']
  unfold stepP
  simp only []
  cases pk.flagged with
  | true => simpa using h1
  | false =>
    simp only [Bool.false_eq_true, if_false]
    cases hh : (ensureP mk t pk.pid).get pk.pid with
    | none => exact h1
    | some h =>
      simp only []
      rw [get_applyChanges_untouched _ _ _ (hN h pk hp), Tab.get_insert_ne _ _ _ _ hp', h1]

/-- a packet of PID `p` acts on slot `p` as a function of slot `p` only -/
theorem stepP_get_same (step : H → Pk → H × List (Change H)) (mk : Nat → H)
    (t t' : Tab H) (pk : Pk) (he : t.get pk.pid = t'.get pk.pid) :
    (stepP step mk t pk).get pk.pid = (stepP step mk t' pk).get pk.pid := by
  have h1 : (ensureP mk t pk.pid).get pk.pid = (ensureP mk t' pk.pid).get pk.pid := by
    rw [get_ensureP, get_ensureP, he]
  unfold stepP
  simp only []
  cases pk.flagged with
  | true => simpa using h1
  | false =>
    simp only [Bool.false_eq_true, if_false]
    rw [← h1]
    cases hh : (ensureP mk t pk.pid).get pk.pid with
    | none => simp only []; rw [hh, ← h1, hh]
    | some h =>
      simp only []
      apply get_applyChanges_congr
      rw [Tab.get_insert_self, Tab.get_insert_self]

theorem foldl_stepP_filter (step : H → Pk → H × List (Change H)) (mk : Nat → H) (p : Nat)
    (hN : ∀ h pk, pk.pid ≠ p → ∀ ch ∈ (step h pk).2, ch.pid ≠ p) :
    ∀ (pks : List Pk) (t t' : Tab H), t.get p = t'.get p →
      (pks.foldl (stepP step mk) t).get p
        = ((pks.filter (fun pk => pk.pid == p)).foldl (stepP step mk) t').get p := by
  intro pks
  induction pks with
  | nil => intro t t' h; exact h
  | cons pk pks ih =>
    intro t t' h
    by_cases hp : pk.pid = p
    · have hb : (pk.pid == p) = true := by simp [hp]
      rw [List.filter_cons_of_pos (p := fun pk => pk.pid == p) (a := pk) hb, List.foldl_cons, List.foldl_cons]
      apply ih
      subst hp
      exact stepP_get_same step mk t t' pk h
    · have hb : ¬ ((pk.pid == p) = true) := by simp [hp]
      rw [List.filter_cons_of_neg (p := fun pk => pk.pid == p) (a := pk) hb, List.foldl_cons]
      apply ih
      rw [stepP_get_other step mk p hN t pk hp, h]

/-! ### a tiny concrete `Sem` for non-vacuity examples

`H := Nat` counts the packets a handler consumed; `C := List Nat` logs the application callbacks
(`9000+pid` = `construct(ByPid pid)`, `100*pid + n` = `consume` by the handler of `pid` in state `n`).
A packet on PID 1 queues "insert PID 2 with state 50, then remove PID 1" (a handler removing itself);
a packet on PID 3 queues "remove 3, insert 3 := 70" (self-replacement: last request wins);
a packet on PID 4 queues the removal of the never-registered PID 7. -/
def exSem : Sem Nat (List Nat) where
  consume h c pk :=
    .ok (h + 1, c ++ [100 * pk.pid + h],
      if pk.pid == 1 then [.insert 2 50, .remove 1]
      else if pk.pid == 3 then [.remove 3, .insert 3 70]
      else if pk.pid == 4 then [.remove 7]
      else [])
  construct c pid := .ok (0, c ++ [9000 + pid])

/-- an example packet (ghost bytes empty) -/
def exPk (pid : Nat) (tei scr : Bool) : Pk := ⟨[], 0, pid, tei, scr⟩

end Ts.Demux
