import Ts.Lemmas.C10c
/-!
# C10 helper data, part 4: "unapplied start" witnesses (second review round)

Byte-level witnesses for `Ts.Props.C10.foreign_table_between_repeats` (DESIGN 8.1b, reviewer case
`N1` of `/tmp/pr/rev2e_cases.txt`) and `Ts.Props.C10.damaged_copy_between_repeats` (known finding
F12's shape on the PMT PID, reviewer case `N1b`), evaluated on the whole model (`runApp {}` =
harness mode `demux b0t0`).  All inputs are byte LISTS built from the packet builders of
`Ts/Lemmas/C10c.lean`; the concatenations are byte-for-byte the hex strings of the case lines `N1`,
`N1ctl`, `N1b` (checked outside Lean: model driver and real code print the same lines).
-/
namespace Ts.Lemmas.C10
open Ts Ts.Psi Ts.Spec Ts.Spec.SectionMux Ts.Lemmas.C03 Ts.App Ts.Demux Ts.Tables

/-- a PRIVATE section: `table_id = 0x80`, section syntax, `table_id_extension = 1`,
`version_number = 5`, body `01 02 03 04`, VALID CRC (reviewer's `sect(0x80, 1, 5, 01020304)`) -/
def privSecV5 : Bytes :=
  [0x80, 0xb0, 0x0d, 0x00, 0x01, 0xcb, 0x00, 0x00, 0x01, 0x02, 0x03, 0x04, 0x7d, 0xc7, 0x55, 0x7f]

/-- `pmtSecV0` with ONE bit flipped: bit 46, the least significant bit of `version_number`
(byte 5: `c1` → `c3`); the CRC bytes are those of the intact section, so the CRC fails -/
def pmtSecV0Damaged : Bytes :=
  [0x02, 0xb0, 0x12, 0x00, 0x01, 0xc3, 0x00, 0x00, 0xe1, 0x01, 0xf0, 0x00, 0x1b, 0xe1, 0x01, 0xf0, 0x00,
   0x4f, 0xc4, 0x3d, 0x1b]

theorem privSecV5_facts :
    WellFormedSection .syntax privSecV5 ∧ privSecV5.length = 16 ∧ Ts.CrcSpec.crc privSecV5 = 0
      ∧ versionOf privSecV5 = 5 ∧ byteD privSecV5 0 = 0x80 := by decide +kernel

theorem pmtSecV0Damaged_facts :
    pmtSecV0Damaged = Ts.CrcSpec.flipBit pmtSecV0 46
      ∧ WellFormedSection .syntax pmtSecV0Damaged ∧ Ts.CrcSpec.crc pmtSecV0Damaged ≠ 0
      ∧ versionOf pmtSecV0Damaged = 1 ∧ versionOf pmtSecV0 = 0
      ∧ Psi.crcPass false pmtSecV0Damaged = .ok false := by decide +kernel

theorem pmtSecV0_facts :
    WellFormedSection .syntax pmtSecV0 ∧ pmtSecV0.length = 21 ∧ Ts.CrcSpec.crc pmtSecV0 = 0
      ∧ versionOf pmtSecV0 = 0 ∧ WellFormedMux .syntax pmtSecV0 (muxOf pmtSecV0) := by decide +kernel

/-- reviewer case `N1`: PAT v0, PMT v0 on 0x100, ES unit start on 0x101, the private section
(version 5) on 0x100, PMT v0 again, ES continuation -/
def foreignBytes : Bytes :=
  patPkt 0 patSecV0 ++ pmtPkt 0 pmtSecV0 ++ esStartPkt ++ pmtPkt 1 privSecV5 ++ pmtPkt 2 pmtSecV0 ++ esContPkt

/-- `N1` up to and including the private section -/
def foreignPrefixBytes : Bytes :=
  patPkt 0 patSecV0 ++ pmtPkt 0 pmtSecV0 ++ esStartPkt ++ pmtPkt 1 privSecV5

/-- control `N1ctl`: an ordinary PMT v0 repetition in place of the private section -/
def foreignCtlBytes : Bytes :=
  patPkt 0 patSecV0 ++ pmtPkt 0 pmtSecV0 ++ esStartPkt ++ pmtPkt 1 pmtSecV0 ++ pmtPkt 2 pmtSecV0 ++ esContPkt

/-- reviewer case `N1b` (F12's probe shape on the PMT PID): the damaged PMT copy in that place -/
def damagedBytes : Bytes :=
  patPkt 0 patSecV0 ++ pmtPkt 0 pmtSecV0 ++ esStartPkt ++ pmtPkt 1 pmtSecV0Damaged ++ pmtPkt 2 pmtSecV0
    ++ esContPkt

/-- `N1b` up to and including the damaged copy -/
def damagedPrefixBytes : Bytes :=
  patPkt 0 patSecV0 ++ pmtPkt 0 pmtSecV0 ++ esStartPkt ++ pmtPkt 1 pmtSecV0Damaged

theorem foreign_ctl_run : observe10 (runApp {} [foreignCtlBytes])
    = some (constructsA, [(2, 0), (2, 1), (2, 2)], .pmt 0x100 1 [0x101], .pes 2) := by decide +kernel

theorem foreign_prefix_run : observe10 (runApp {} [foreignPrefixBytes])
    = some (constructsA, [(2, 0), (2, 1)], .pmt 0x100 1 [0x101], .pes 2) := by decide +kernel

theorem foreign_run : observe10 (runApp {} [foreignBytes])
    = some (constructsA ++ [(.stream 0x100 0x1b 0x101 0x101 [] [], 3)],
        [(2, 0), (2, 1)], .pmt 0x100 1 [0x101], .pes 3) := by decide +kernel

theorem damaged_prefix_run : observe10 (runApp {} [damagedPrefixBytes])
    = some (constructsA, [(2, 0), (2, 1)], .pmt 0x100 1 [0x101], .pes 2) := by decide +kernel

theorem damaged_run : observe10 (runApp {} [damagedBytes])
    = some (constructsA ++ [(.stream 0x100 0x1b 0x101 0x101 [] [], 3)],
        [(2, 0), (2, 1)], .pmt 0x100 1 [0x101], .pes 3) := by decide +kernel

/-- the payload views of the two in-between packets: unit start, `pointer_field = 0`, then the
section and `0xff` stuffing -/
theorem between_plOf :
    plOf (pmtPkt 1 privSecV5) = some ⟨true, 0x00 :: (privSecV5 ++ List.replicate 167 0xff), 4⟩
      ∧ plOf (pmtPkt 1 pmtSecV0Damaged) = some ⟨true, 0x00 :: (pmtSecV0Damaged ++ List.replicate 162 0xff), 4⟩
      ∧ plOf (pmtPkt 2 pmtSecV0) = some ⟨true, (muxOf pmtSecV0).first pmtSecV0, 4⟩
      ∧ (pmtPkt 1 privSecV5).length = 188 ∧ (pmtPkt 1 pmtSecV0Damaged).length = 188 := by
  decide +kernel

/-- both in-between starts are ACCEPTED starts (section syntax, ≥ 8 bytes, length within limit) -/
theorem between_startOk :
    startOk Psi.table (privSecV5 ++ List.replicate 167 0xff) = true
      ∧ startOk Psi.table (pmtSecV0Damaged ++ List.replicate 162 0xff) = true
      ∧ versionOf (privSecV5 ++ List.replicate 167 0xff) = 5
      ∧ versionOf (pmtSecV0Damaged ++ List.replicate 162 0xff) = 1 := by decide +kernel

end Ts.Lemmas.C10
