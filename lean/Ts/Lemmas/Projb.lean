import Ts.Lemmas.Proj
import Ts.Lemmas.C02
import Ts.Spec.Protocol
/-!
# Per-consumer view of the application trace, part 2: projection and nesting

* `proj τ c`: the events of the shared trace attributed to tag `τ`, oldest first;
* `pushSpec_view`: over any interleaving, the projection on the tag of a PES handler grows by
  exactly the events of its own PID's unflagged packets (`esAll` over `PesFilter.run`);
* `retired_silent`: a tag that has been handed out and is no longer in the table is never
  re-issued and never emits again;
* `esAll_eq_rel`: the events of a consumer are packet-relative events (`esAllRel`, a function of the
  bytes only) moved to each packet's stream offset (`placeAt`, `shiftEv`);
* `NestInv`: for EVERY tag the projected elementary-stream callbacks are accepted by the protocol
  acceptor of C08 from `notStarted`, ending in the abstraction of the filter state if the handler
  is still installed.
-/
namespace Ts.Lemmas.Proj
open Ts Ts.Demux Ts.App Ts.Spec.Protocol
open Ts.Lemmas.C19 (R.bind_eq_ok R.ok_inj)
open Ts.Lemmas.C08 (stepOf runPure)

/-! ### projection -/

/-- what consumer `τ` observes: the events of the shared trace tagged `τ`, oldest first -/
def proj (τ : Nat) (c : Ctx) : List Ev := (c.trace.reverse).filter (fun e => decide (tagOf e = some τ))

theorem proj_of_trace (τ : Nat) (c c' : Ctx) (out : List Ev) (h : c'.trace = out ++ c.trace) :
    proj τ c' = proj τ c ++ out.reverse.filter (fun e => decide (tagOf e = some τ)) := by
  unfold proj
  rw [h, List.reverse_append, List.filter_append]

theorem filter_tag_all (τ : Nat) (l : List Ev) (h : ∀ e ∈ l, tagOf e = some τ) :
    l.filter (fun e => decide (tagOf e = some τ)) = l := by
  rw [List.filter_eq_self]
  intro e he
  simp [h e he]

theorem filter_tag_none (τ : Nat) (l : List Ev) (h : ∀ e ∈ l, tagOf e ≠ some τ) :
    l.filter (fun e => decide (tagOf e = some τ)) = [] := by
  rw [List.filter_eq_nil_iff]
  intro e he
  simp [h e he]

/-- the unflagged packets of PID `p` -/
def own (p : Nat) (xs : List Pk) : List Pk := xs.filter (fun pk => pk.pid == p && !pk.flagged)

/-- the application events for a list of packets and the filter callbacks each caused -/
def esAll (touch : Bool) (tag : Nat) : List Pk → List (List PesFilter.Ev) → R (List (List Ev))
  | pk :: pks, evs :: evss => do
    let a ← esEvList touch tag pk.bytes pk.off evs
    let rest ← esAll touch tag pks evss
    pure (a :: rest)
  | _, _ => .ok []

theorem esAll_cons (touch : Bool) (tag : Nat) (pk : Pk) (pks : List Pk) (evs : List PesFilter.Ev)
    (evss : List (List PesFilter.Ev)) :
    esAll touch tag (pk :: pks) (evs :: evss) =
      (esEvList touch tag pk.bytes pk.off evs >>= fun a =>
        esAll touch tag pks evss >>= fun rest => R.ok (a :: rest)) := rfl

/-- one step on a PES handler's own PID, in terms of `esEvList` -/
theorem pes_consume_inv (tag : Nat) (f : PesFilter.F) (c : Ctx) (pk : Pk) (h' : Handler) (c' : Ctx)
    (chg : List (Change Handler)) (hlen : pk.bytes.length = 188)
    (h : App.consume (.pes tag f) c pk = .ok (h', c', chg)) :
    ∃ l, esEvList c.cfg.touch tag pk.bytes pk.off (stepOf f pk.bytes).2 = .ok l ∧
      h' = .pes tag (stepOf f pk.bytes).1 ∧ chg = [] ∧ c' = { c with trace := l.reverse ++ c.trace } := by
  unfold App.consume at h
  simp only [C08.consume_eq f pk.bytes hlen, R.ok_bind] at h
  obtain ⟨c1, hc1, h⟩ := R.bind_eq_ok h
  have := R.ok_inj h
  simp only [Prod.mk.injEq] at this
  obtain ⟨e1, e2, e3⟩ := this
  subst e1 e2 e3
  obtain ⟨l, hl, hc1⟩ := esEvents_emits _ _ _ _ _ _ _ hc1
  exact ⟨l, hl, rfl, rfl, hc1⟩

/-- slot `p` holds a PES handler with tag `τ` -/
def holdsPes (t : Tab Handler) (p τ : Nat) : Bool :=
  match t.get p with
  | some (.pes σ _) => σ == τ
  | _ => false

theorem holdsPes_iff (t : Tab Handler) (p τ : Nat) :
    holdsPes t p τ = true ↔ ∃ f, t.get p = some (.pes τ f) := by
  unfold holdsPes
  split
  · rename_i σ f hg
    constructor
    · intro h; have : σ = τ := by simpa using h
      subst this; exact ⟨f, hg⟩
    · rintro ⟨f', hf'⟩; rw [hg] at hf'; injection hf' with hf'; injection hf' with e _; simp [e]
  · rename_i hno
    constructor
    · intro h; cases h
    · rintro ⟨f', hf'⟩; exact absurd hf' (hno τ f')

/-- along the ACTUAL run of the dispatcher from `tc` over `xs`, slot `p` holds the PES handler with
tag `τ` after every step: consumer `τ` is neither removed nor replaced.  (A Boolean function of
the run, so it can be evaluated on a concrete run.) -/
def Keeps (p τ : Nat) : Tab Handler × Ctx → List Pk → Bool
  | _, [] => true
  | tc, pk :: pks =>
    match specStep App.sem tc pk with
    | .ok tc' => holdsPes tc'.1 p τ && Keeps p τ tc' pks
    | .panic _ => true

/-- a packet of another PID cannot change the state of consumer `τ` without replacing it by a
handler with another tag -/
theorem specStep_slot_other (t : Tab Handler) (c : Ctx) (pk : Pk) (t' : Tab Handler) (c' : Ctx)
    (p τ : Nat) (f f1 : PesFilter.F) (hi : TagInv (t, c)) (hg : t.get p = some (.pes τ f))
    (hne : pk.pid ≠ p) (h : specStep App.sem (t, c) pk = .ok (t', c'))
    (hg' : t'.get p = some (.pes τ f1)) : f1 = f := by
  rw [specStep_eq] at h
  obtain ⟨r, hE, h⟩ := R.bind_eq_ok h
  obtain ⟨t1, c1⟩ := r
  have hget : t1.get p = t.get p := ensure_get_ne App.sem t c pk.pid t1 c1 hE p (Ne.symm hne)
  obtain ⟨_, hle, _⟩ := (ensure_tagInv t c pk.pid t1 c1 hi hE).2
  dsimp only at h
  split at h
  · have := R.ok_inj h
    simp only [Prod.mk.injEq] at this
    rw [← this.1, hget, hg] at hg'
    injection hg' with hg'; injection hg' with _ e; exact e.symm
  · cases hgq : t1.get pk.pid with
    | none => rw [hgq] at h; cases h
    | some hd =>
      rw [hgq] at h
      dsimp only at h
      obtain ⟨x, hx, h⟩ := R.bind_eq_ok h
      obtain ⟨h', c2, chg⟩ := x
      have := R.ok_inj h
      simp only [Prod.mk.injEq] at this
      obtain ⟨e1, e2⟩ := this
      subst e1 e2
      obtain ⟨⟨_, hfr, _⟩, _, _⟩ := consume_facts hd c1 pk h' c2 chg hx
      rcases get_applyChanges_cases chg _ p _ hg' with y | y
      · rw [Tab.get_insert_ne _ _ _ _ (Ne.symm hne), hget, hg] at y
        injection y with y; injection y with _ e; exact e.symm
      · have h1 := (chgFresh_mem chg _ _ hfr p _ τ y rfl).1
        have h2 : τ < c.nextTag := hi.1.1 p _ τ hg rfl
        have hle' : c.nextTag ≤ c1.nextTag := hle
        omega

/-- THE PROJECTION, by induction over the interleaving -/
theorem pushSpec_view (p τ : Nat) : ∀ (xs : List Pk) (t : Tab Handler) (c : Ctx) (f : PesFilter.F)
    (t' : Tab Handler) (c' : Ctx),
    TagInv (t, c) → t.get p = some (.pes τ f) →
    (∀ pk ∈ xs, pk.pid = p → pk.flagged = false → pk.bytes.length = 188) →
    Keeps p τ (t, c) xs = true →
    pushSpec App.sem (t, c) xs = .ok (t', c') →
    ∃ outs new,
      esAll c.cfg.touch τ (own p xs) (runPure f ((own p xs).map (·.bytes))).2 = .ok outs ∧
      t'.get p = some (.pes τ (runPure f ((own p xs).map (·.bytes))).1) ∧
      TagInv (t', c') ∧ c'.cfg = c.cfg ∧ c'.trace = new ++ c.trace ∧
      new.reverse.filter (fun e => decide (tagOf e = some τ)) = outs.flatten := by
  intro xs
  induction xs with
  | nil =>
    intro t c f t' c' hi hg _ _ hrun
    rw [pushSpec_nil] at hrun
    have := R.ok_inj hrun
    simp only [Prod.mk.injEq] at this
    obtain ⟨e1, e2⟩ := this
    subst e1 e2
    exact ⟨[], [], rfl, hg, hi, rfl, rfl, rfl⟩
  | cons pk xs ih =>
    intro t c f t' c' hi hg h188 hK hrun
    rw [pushSpec_cons] at hrun
    obtain ⟨r, hstep, hrun⟩ := R.bind_eq_ok hrun
    obtain ⟨t1, c1⟩ := r
    have h188' : ∀ q ∈ xs, q.pid = p → q.flagged = false → q.bytes.length = 188 :=
      fun q hq => h188 q (List.mem_cons_of_mem _ hq)
    simp only [Keeps, hstep, Bool.and_eq_true] at hK
    obtain ⟨hK1, hN'⟩ := hK
    by_cases hp : pk.pid = p
    · cases hf : pk.flagged with
      | true =>
        have hc : t.contains pk.pid = true := (Tab.contains_eq_true_iff _ _).2 ⟨_, hp ▸ hg⟩
        rw [specStep_flagged_of_contains App.sem t c pk hc hf] at hstep
        have := R.ok_inj hstep
        simp only [Prod.mk.injEq] at this
        obtain ⟨e1, e2⟩ := this
        subst e1 e2
        have ho : own p (pk :: xs) = own p xs := by simp [own, hf]
        rw [ho]
        exact ih t c f t' c' hi hg h188' hN' hrun
      | false =>
        have hb := h188 pk List.mem_cons_self hp hf
        have hi1 := specStep_tagInv t c pk t1 c1 hi hstep
        rw [C02.specStep_pes t c pk τ f (hp ▸ hg) hf hb] at hstep
        obtain ⟨c2, he, hstep⟩ := R.bind_eq_ok hstep
        have := R.ok_inj hstep
        simp only [Prod.mk.injEq] at this
        obtain ⟨e1, e2⟩ := this
        subst e1 e2
        obtain ⟨l, hl, hc2⟩ := esEvents_emits _ _ _ _ _ _ _ he
        subst hc2
        have hg1 : (t.insert pk.pid (Handler.pes τ (stepOf f pk.bytes).1)).get p
            = some (.pes τ (stepOf f pk.bytes).1) := by
          rw [hp]; exact Tab.get_insert_self _ _ _
        obtain ⟨outs, new, a1, a2, a3, a4, a5, a6⟩ := ih _ _ _ t' c' hi1 hg1 h188' hN' hrun
        have ho : own p (pk :: xs) = pk :: own p xs := by simp [own, hp, hf]
        have hl' : ∀ e ∈ l, tagOf e = some τ := fun e he => (esEvList_tagged _ _ _ _ _ _ hl e he).1
        refine ⟨l :: outs, new ++ l.reverse, ?_, ?_, a3, a4, ?_, ?_⟩
        · rw [ho]
          simp only [List.map_cons, runPure, esAll_cons, hl, R.ok_bind]
          have a1' : esAll c.cfg.touch τ (own p xs)
              (runPure (stepOf f pk.bytes).1 ((own p xs).map (·.bytes))).2 = .ok outs := a1
          rw [a1']
          rfl
        · rw [ho]; simp only [List.map_cons, runPure]; exact a2
        · rw [a5, List.append_assoc]
        · rw [List.reverse_append, List.reverse_reverse, List.filter_append, filter_tag_all τ l hl', a6,
            List.flatten_cons]
    · obtain ⟨hi1, hcfg, _, out1, ho1, hall⟩ := specStep_facts t c pk t1 c1 hi hstep
      have hg1 : t1.get p = some (.pes τ f) := by
        obtain ⟨f1, hf1⟩ := (holdsPes_iff t1 p τ).1 hK1
        rw [hf1, specStep_slot_other t c pk t1 c1 p τ f f1 hi hg hp hstep hf1]
      obtain ⟨outs, new, a1, a2, a3, a4, a5, a6⟩ := ih t1 c1 f t' c' hi1 hg1 h188' hN' hrun
      have ho : own p (pk :: xs) = own p xs := by simp [own, hp]
      have hnone : out1.reverse.filter (fun e => decide (tagOf e = some τ)) = [] := by
        refine filter_tag_none τ _ ?_
        intro e he hτ
        rcases hall e (List.mem_reverse.1 he) τ hτ with ⟨h0, hg0, ht0⟩ | hge
        · exact hp (hi.1.2 pk.pid p h0 _ τ hg0 hg ht0 rfl)
        · have := hi.1.1 p _ τ hg rfl
          have hge' : c.nextTag ≤ τ := hge
          have hlt : τ < c.nextTag := this
          omega
      refine ⟨outs, new ++ out1, ?_, ?_, a3, by rw [a4, hcfg], ?_, ?_⟩
      · rw [ho, ← hcfg]; exact a1
      · rw [ho]; exact a2
      · rw [a5, ho1, List.append_assoc]
      · rw [List.reverse_append, List.filter_append, hnone, List.nil_append, a6]

/-- every event of `esAll` lies in the packet that caused it (C19's `EvInPacket`) -/
theorem esAll_inPacket (touch : Bool) (tag : Nat) : ∀ (pks : List Pk) (fs : PesFilter.F)
    (outs : List (List Ev)), (∀ pk ∈ pks, pk.bytes.length = 188) →
    esAll touch tag pks (runPure fs (pks.map (·.bytes))).2 = .ok outs →
    ∀ e ∈ outs.flatten, ∃ pk ∈ pks, C19.EvInPacket tag pk.off e := by
  intro pks
  induction pks with
  | nil =>
    intro fs outs _ h
    have : outs = [] := (R.ok_inj h).symm
    subst this
    intro e he; cases he
  | cons pk pks ih =>
    intro fs outs hlen h
    simp only [List.map_cons, runPure, esAll_cons] at h
    obtain ⟨a, ha, h⟩ := R.bind_eq_ok h
    obtain ⟨rest, hrest, h⟩ := R.bind_eq_ok h
    have := R.ok_inj h
    subst this
    intro e he
    rw [List.flatten_cons] at he
    rcases List.mem_append.1 he with x | x
    · refine ⟨pk, List.mem_cons_self, ?_⟩
      have hb := hlen pk List.mem_cons_self
      -- replay through `esEvents` on an empty context and use C19
      have hE : esEvents touch tag pk.bytes pk.off { cfg := {} } (stepOf fs pk.bytes).2
          = .ok { cfg := {}, trace := a.reverse ++ [] } := by
        rw [esEvents_eq_list, ha]; rfl
      obtain ⟨out, e1, e2, _⟩ := C19.esEvents_trace touch tag pk.bytes pk.off hb _ _ _
        (C19.stepOf_evs_ok fs pk.bytes) hE
      have : out = a.reverse := by
        simp only [List.append_nil] at e1
        exact e1.symm
      subst this
      exact e2 e (List.mem_reverse.2 x)
    · obtain ⟨q, hq, hin⟩ := ih _ rest (fun q hq => hlen q (List.mem_cons_of_mem _ hq)) hrest e x
      exact ⟨q, List.mem_cons_of_mem _ hq, hin⟩

/-! ### a retired tag is never re-issued and stays silent -/

/-- where the tags in the table after a step come from -/
theorem specStep_tags_origin (t : Tab Handler) (c : Ctx) (pk : Pk) (t' : Tab Handler) (c' : Ctx)
    (h : specStep App.sem (t, c) pk = .ok (t', c')) :
    ∀ σ ∈ tagsIn t', σ ∈ tagsIn t ∨ c.nextTag ≤ σ := by
  rw [specStep_eq] at h
  obtain ⟨r, hE, h⟩ := R.bind_eq_ok h
  obtain ⟨t1, c1⟩ := r
  have h1 : ∀ σ ∈ tagsIn t1, σ ∈ tagsIn t ∨ c.nextTag ≤ σ := by
    intro σ hσ
    rcases ensure_cases t c pk.pid t1 c1 hE with ⟨_, e1, _⟩ | ⟨_, e1, _⟩
    · subst e1; exact Or.inl hσ
    · subst e1
      obtain ⟨q, hd, hg, ht⟩ := (tagsIn_mem _ σ).1 hσ
      rw [Tab.get_insert] at hg
      split at hg
      · injection hg with hg; subst hg
        rcases construct_tag c (.byPid pk.pid) with x | x
        · rw [x] at ht; cases ht
        · rw [x] at ht; injection ht with ht; exact Or.inr (Nat.le_of_eq ht)
      · exact Or.inl ((tagsIn_mem _ σ).2 ⟨q, hd, hg, ht⟩)
  have hn1 : c.nextTag ≤ c1.nextTag := by
    rcases ensure_cases t c pk.pid t1 c1 hE with ⟨_, _, e2⟩ | ⟨_, _, e2⟩
    · subst e2; exact Nat.le_refl _
    · subst e2; rw [construct_nextTag]; exact Nat.le_succ _
  dsimp only at h
  split at h
  · have := R.ok_inj h
    simp only [Prod.mk.injEq] at this
    rw [← this.1]; exact h1
  · cases hg : t1.get pk.pid with
    | none => rw [hg] at h; cases h
    | some hd =>
      rw [hg] at h
      dsimp only at h
      obtain ⟨x, hx, h⟩ := R.bind_eq_ok h
      obtain ⟨h', c2, chg⟩ := x
      have := R.ok_inj h
      simp only [Prod.mk.injEq] at this
      obtain ⟨e1, e2⟩ := this
      subst e1 e2
      obtain ⟨⟨_, hfr, _⟩, hsame, _⟩ := consume_facts hd c1 pk h' c2 chg hx
      intro σ hσ
      obtain ⟨q, hq, hgq, htq⟩ := (tagsIn_mem _ σ).1 hσ
      rcases get_applyChanges_cases chg _ q hq hgq with y | y
      · rw [Tab.get_insert] at y
        split at y
        · injection y with y; subst y
          rw [hsame] at htq
          exact h1 σ ((tagsIn_mem _ σ).2 ⟨pk.pid, hd, hg, htq⟩)
        · exact h1 σ ((tagsIn_mem _ σ).2 ⟨q, hq, y, htq⟩)
      · have := (chgFresh_mem chg _ _ hfr q hq σ y htq).1
        exact Or.inr (Nat.le_trans hn1 this)

/-- a tag that has been handed out (`τ < nextTag`) and is not (or no longer) held by a handler in
the table is never held again and no event is ever attributed to it again -/
theorem retired_silent (τ : Nat) : ∀ (xs : List Pk) (t : Tab Handler) (c : Ctx) (t' : Tab Handler)
    (c' : Ctx), TagInv (t, c) → τ < c.nextTag → τ ∉ tagsIn t →
    pushSpec App.sem (t, c) xs = .ok (t', c') → τ ∉ tagsIn t' ∧ proj τ c' = proj τ c := by
  intro xs
  induction xs with
  | nil =>
    intro t c t' c' _ _ hn hrun
    rw [pushSpec_nil] at hrun
    have := R.ok_inj hrun
    simp only [Prod.mk.injEq] at this
    obtain ⟨e1, e2⟩ := this
    subst e1 e2
    exact ⟨hn, rfl⟩
  | cons pk xs ih =>
    intro t c t' c' hi hlt hn hrun
    rw [pushSpec_cons] at hrun
    obtain ⟨r, hstep, hrun⟩ := R.bind_eq_ok hrun
    obtain ⟨t1, c1⟩ := r
    obtain ⟨hi1, _, hle, out1, ho1, hall⟩ := specStep_facts t c pk t1 c1 hi hstep
    have hn1 : τ ∉ tagsIn t1 := by
      intro hm
      rcases specStep_tags_origin t c pk t1 c1 hstep τ hm with x | x
      · exact hn x
      · omega
    obtain ⟨b1, b2⟩ := ih t1 c1 t' c' hi1 (by omega) hn1 hrun
    refine ⟨b1, ?_⟩
    rw [b2, proj_of_trace τ c c1 out1 ho1, filter_tag_none, List.append_nil]
    intro e he hτ
    rcases hall e (List.mem_reverse.1 he) τ hτ with ⟨h0, hg0, ht0⟩ | hge
    · exact hn ((tagsIn_mem _ τ).2 ⟨pk.pid, h0, hg0, ht0⟩)
    · omega

/-! ### nesting -/

/-- the elementary-stream callbacks consumer `τ` has received, arguments erased -/
def esTrace (τ : Nat) (c : Ctx) : List PesFilter.Ev := (proj τ c).filterMap esShape

theorem protoStep_norm (s : PState) (e : PesFilter.Ev) : protoStep s (norm e) = protoStep s e := by
  cases s <;> cases e <;> rfl

theorem accepts_norm : ∀ (l : List PesFilter.Ev) (s : PState), accepts s (l.map norm) = accepts s l := by
  intro l
  induction l with
  | nil => intro s; rfl
  | cons e es ih =>
    intro s
    simp only [List.map_cons, accepts, protoStep_norm]
    cases protoStep s e with
    | none => rfl
    | some s' => exact ih s'

/-- THE NESTING INVARIANT: for every tag, the callbacks received so far are a legal protocol run
from `notStarted`; if the handler is still installed the run ends in the abstraction of its state -/
def NestInv (tc : Tab Handler × Ctx) : Prop :=
  ∀ τ, ∃ s, accepts .notStarted (esTrace τ tc.2) = some s ∧
    ∀ p f, tc.1.get p = some (.pes τ f) → s = C08.abs f.st

theorem esTrace_quiet (τ : Nat) (c c' : Ctx) (out : List Ev) (h : c'.trace = out ++ c.trace)
    (hq : ∀ e ∈ out, tagOf e = some τ → esShape e = none) : esTrace τ c' = esTrace τ c := by
  unfold esTrace
  rw [proj_of_trace τ c c' out h, List.filterMap_append]
  have : (out.reverse.filter (fun e => decide (tagOf e = some τ))).filterMap esShape = [] := by
    rw [List.filterMap_eq_nil_iff]
    intro e he
    rw [List.mem_filter] at he
    exact hq e (List.mem_reverse.1 he.1) (by simpa using he.2)
  rw [this, List.append_nil]

theorem esTrace_nil_of_ge (τ : Nat) (c : Ctx) (hc : TraceTags c) (h : c.nextTag ≤ τ) : esTrace τ c = [] := by
  unfold esTrace proj
  rw [filter_tag_none]
  · rfl
  · intro e he hτ
    have := hc e (List.mem_reverse.1 he) τ hτ
    omega

/-- a piece of code that emits no elementary-stream event and only adds PES handlers that are
fresh (initial state, tag not handed out before) preserves the nesting invariant -/
theorem nest_update (t : Tab Handler) (c : Ctx) (t' : Tab Handler) (c' : Ctx)
    (hc : TraceTags c) (hn : NestInv (t, c)) (he : Emits (fun e => esShape e = none) c c')
    (ht : ∀ q τ f, t'.get q = some (.pes τ f) →
      t.get q = some (.pes τ f) ∨ (f = {} ∧ c.nextTag ≤ τ)) : NestInv (t', c') := by
  obtain ⟨_, _, out, ho, hall⟩ := he
  intro τ
  obtain ⟨s, hs, hslot⟩ := hn τ
  have hq : esTrace τ c' = esTrace τ c := esTrace_quiet τ c c' out ho (fun e he _ => hall e he)
  refine ⟨s, by show accepts _ (esTrace τ c') = _; rw [hq]; exact hs, ?_⟩
  intro q f hg
  rcases ht q τ f hg with x | ⟨x1, x2⟩
  · exact hslot q f x
  · have hnil : esTrace τ c = [] := esTrace_nil_of_ge τ c hc x2
    have hs' : accepts .notStarted (esTrace τ c) = some s := hs
    rw [hnil] at hs'
    have : s = .notStarted := by simpa using hs'.symm
    rw [this, x1]; rfl

theorem specStep_nest (t : Tab Handler) (c : Ctx) (pk : Pk) (t' : Tab Handler) (c' : Ctx)
    (hi : TagInv (t, c)) (hn : NestInv (t, c)) (hlen : pk.bytes.length = 188)
    (h : specStep App.sem (t, c) pk = .ok (t', c')) : NestInv (t', c') := by
  rw [specStep_eq] at h
  obtain ⟨r, hE, h⟩ := R.bind_eq_ok h
  obtain ⟨t1, c1⟩ := r
  obtain ⟨hi1, he1⟩ := ensure_tagInv t c pk.pid t1 c1 hi hE
  -- lookup-or-construct
  have hn1 : NestInv (t1, c1) := by
    refine nest_update t c t1 c1 hi.2 hn (emits_mono (fun e hu => esShape_none_of_untagged e hu) he1) ?_
    intro q τ f hg
    rcases ensure_cases t c pk.pid t1 c1 hE with ⟨_, e1, _⟩ | ⟨_, e1, _⟩
    · subst e1; exact Or.inl hg
    · subst e1
      rw [Tab.get_insert] at hg
      split at hg
      · injection hg with hg
        obtain ⟨x1, x2⟩ := construct_pes c (.byPid pk.pid) τ f hg
        exact Or.inr ⟨x1, Nat.le_of_eq x2.symm⟩
      · exact Or.inl hg
  dsimp only at h
  split at h
  · have := R.ok_inj h
    simp only [Prod.mk.injEq] at this
    rw [← this.1, ← this.2]
    exact hn1
  · cases hg : t1.get pk.pid with
    | none => rw [hg] at h; cases h
    | some hd =>
      rw [hg] at h
      dsimp only at h
      obtain ⟨x, hx, h⟩ := R.bind_eq_ok h
      obtain ⟨h', c2, chg⟩ := x
      have := R.ok_inj h
      simp only [Prod.mk.injEq] at this
      obtain ⟨e1, e2⟩ := this
      subst e1 e2
      by_cases hpes : ∃ σ f, hd = .pes σ f
      · -- the handler is a PES filter
        obtain ⟨σ, f, hhd⟩ := hpes
        subst hhd
        obtain ⟨l, hl, eh, ec, ectx⟩ := pes_consume_inv σ f c1 pk h' c2 chg hlen hx
        subst eh ec ectx
        rw [applyChanges_nil]
        have hl' : ∀ e ∈ l, tagOf e = some σ := fun e he => (esEvList_tagged _ _ _ _ _ _ hl e he).1
        have hproj : ∀ τ, proj τ { c1 with trace := l.reverse ++ c1.trace }
            = proj τ c1 ++ l.filter (fun e => decide (tagOf e = some τ)) := by
          intro τ
          rw [proj_of_trace τ c1 _ l.reverse rfl, List.reverse_reverse]
        intro τ
        obtain ⟨s, hs, hslot⟩ := hn1 τ
        by_cases hτ : τ = σ
        · subst hτ
          have hs0 : s = C08.abs f.st := hslot pk.pid f hg
          refine ⟨C08.abs (stepOf f pk.bytes).1.st, ?_, ?_⟩
          · show accepts _ (esTrace τ _) = _
            unfold esTrace
            rw [hproj, filter_tag_all τ l hl', List.filterMap_append, esEvList_shape _ _ _ _ _ _ hl,
              accepts_append]
            have hs' : accepts .notStarted ((proj τ c1).filterMap esShape) = some s := hs
            rw [hs', hs0, Option.bind_some, accepts_norm]
            exact C08.stepOf_accepts f pk.bytes
          · intro q f2 hgq
            rw [Tab.get_insert] at hgq
            split at hgq
            · injection hgq with hgq; injection hgq with _ hgq; rw [← hgq]
            · rename_i hne
              exact absurd (hi1.1.2 q pk.pid _ _ τ hgq hg rfl rfl) hne
        · refine ⟨s, ?_, ?_⟩
          · show accepts _ (esTrace τ _) = _
            unfold esTrace
            rw [hproj, filter_tag_none τ l (fun e he hx => hτ (by
              have := hl' e he; rw [this] at hx; injection hx with hx; exact hx.symm)),
              List.append_nil]
            exact hs
          · intro q f2 hgq
            rw [Tab.get_insert] at hgq
            split at hgq
            · injection hgq with hgq; injection hgq with hgq _; exact absurd hgq.symm hτ
            · exact hslot q f2 hgq
      · -- any other handler: no elementary-stream event, only fresh PES handlers
        have hnp : ∀ σ f, hd ≠ .pes σ f := fun σ f e => hpes ⟨σ, f, e⟩
        obtain ⟨⟨hem, hfr, hfp⟩, hsame, hkind⟩ := consume_facts hd c1 pk h' c2 chg hx
        refine nest_update t1 c1 _ c2 hi1.2 hn1
          (emits_mono (fun e hb => evBy_shape hd e hb hnp) hem) ?_
        intro q τ f hgq
        rcases get_applyChanges_cases chg _ q _ hgq with y | y
        · rw [Tab.get_insert] at y
          split at y
          · injection y with y
            obtain ⟨f0, hf0⟩ := hkind τ f y
            exact absurd hf0 (hnp τ f0)
          · exact Or.inl y
        · exact Or.inr ⟨hfp _ y q τ f rfl, (chgFresh_mem chg _ _ hfr q _ τ y rfl).1⟩

theorem pushSpec_nest : ∀ (pks : List Pk) (tc tc' : Tab Handler × Ctx), TagInv tc → NestInv tc →
    (∀ pk ∈ pks, pk.bytes.length = 188) → pushSpec App.sem tc pks = .ok tc' → NestInv tc' := by
  intro pks
  induction pks with
  | nil =>
    intro tc tc' _ hn _ h
    have := R.ok_inj h
    rw [← this]; exact hn
  | cons pk pks ih =>
    intro tc tc' hi hn hlen h
    rw [pushSpec_cons] at h
    obtain ⟨tc1, h1, h⟩ := R.bind_eq_ok h
    obtain ⟨t, c⟩ := tc
    obtain ⟨t1, c1⟩ := tc1
    exact ih (t1, c1) tc' (specStep_tagInv t c pk t1 c1 hi h1)
      (specStep_nest t c pk t1 c1 hi hn (hlen pk List.mem_cons_self) h1)
      (fun q hq => hlen q (List.mem_cons_of_mem _ hq)) h

theorem push_nest (tc : Tab Handler × Ctx) (buf : Bytes) (base : Nat) (tc' : Tab Handler × Ctx)
    (hi : TagInv tc) (hn : NestInv tc) (h : push App.sem tc buf base = .ok tc') : NestInv tc' := by
  unfold push at h
  obtain ⟨pks, hf, h⟩ := R.bind_eq_ok h
  rw [pushModel_eq_pushSpec] at h
  exact pushSpec_nest pks tc tc' hi hn
    (fun pk hpk => (C19.frame_pk_props buf base pks hf pk hpk).2.2.2.2.1) h

theorem pushAll_nest : ∀ (bufs : List Bytes) (tc : Tab Handler × Ctx) (base : Nat)
    (tc' : Tab Handler × Ctx), TagInv tc → NestInv tc → pushAll App.sem tc bufs base = .ok tc' →
    TagInv tc' ∧ NestInv tc' := by
  intro bufs
  induction bufs with
  | nil =>
    intro tc base tc' hi hn h
    have := R.ok_inj h
    rw [← this]; exact ⟨hi, hn⟩
  | cons b bs ih =>
    intro tc base tc' hi hn h
    unfold pushAll at h
    obtain ⟨tc1, h1, h⟩ := R.bind_eq_ok h
    exact ih tc1 _ tc' (push_tagInv tc b base tc1 hi h1) (push_nest tc b base tc1 hi hn h1) h

theorem init_nest (cfg : Cfg) : NestInv (App.init cfg) := by
  have h0 : NestInv (([] : Tab Handler), ({ cfg := cfg } : Ctx)) := by
    intro τ
    refine ⟨.notStarted, rfl, ?_⟩
    intro p f hg
    rw [Tab.get_of_ge _ _ (by simp)] at hg; cases hg
  unfold App.init
  dsimp only
  refine nest_update [] { cfg := cfg } _ _ (by intro e he; cases he) h0
    (emits_mono (fun e hu => esShape_none_of_untagged e hu) (construct_emits _ _)) ?_
  intro q τ f hg
  rw [Tab.get_insert] at hg
  split at hg
  · injection hg with hg
    obtain ⟨x1, x2⟩ := construct_pes _ _ τ f hg
    exact Or.inr ⟨x1, Nat.le_of_eq x2.symm⟩
  · exact Or.inl hg

/-! ### clauses in terms of the application events -/

/-- `e` is the `start_stream` callback of consumer `τ` -/
def isStartOf (τ : Nat) : Ev → Bool
  | .esStart σ => σ == τ
  | _ => false

theorem count_start (τ : Nat) (c : Ctx) :
    (esTrace τ c).count .start = c.trace.countP (isStartOf τ) := by
  unfold esTrace proj
  rw [List.count_eq_countP, List.countP_filterMap, List.countP_filter, List.countP_reverse]
  apply List.countP_congr
  intro e _
  cases e <;> simp [esShape, tagOf, isStartOf]

theorem mem_esTrace (τ : Nat) (c : Ctx) (x : PesFilter.Ev) :
    x ∈ esTrace τ c ↔ ∃ e ∈ c.trace, tagOf e = some τ ∧ esShape e = some x := by
  unfold esTrace proj
  simp only [List.mem_filterMap, List.mem_filter, List.mem_reverse, decide_eq_true_eq]
  constructor
  · rintro ⟨e, ⟨h1, h2⟩, h3⟩; exact ⟨e, h1, h2, h3⟩
  · rintro ⟨e, h1, h2, h3⟩; exact ⟨e, ⟨h1, h2⟩, h3⟩

/-! ### the tags of a fresh change list are strictly increasing -/

/-- the tags of the handlers a change list inserts, in order -/
def chgTags (cs : List (Change Handler)) : List Nat :=
  cs.filterMap (fun ch => match ch with | .insert _ h => hTag h | .remove _ => none)

theorem chgTags_mem (cs : List (Change Handler)) (σ : Nat) :
    σ ∈ chgTags cs ↔ ∃ q h, Change.insert q h ∈ cs ∧ hTag h = some σ := by
  unfold chgTags
  rw [List.mem_filterMap]
  constructor
  · rintro ⟨ch, hm, he⟩
    cases ch with
    | insert q h => exact ⟨q, h, hm, he⟩
    | remove q => cases he
  · rintro ⟨q, h, hm, he⟩
    exact ⟨_, hm, he⟩

theorem chgFresh_pairwise : ∀ (cs : List (Change Handler)) (lo hi : Nat), ChgFresh lo cs hi →
    (chgTags cs).Pairwise (· < ·) := by
  intro cs
  induction cs with
  | nil => intro lo hi _; exact List.Pairwise.nil
  | cons a cs ih =>
    intro lo hi hf
    cases a with
    | remove p => exact ih lo hi hf
    | insert p hd =>
      simp only [ChgFresh] at hf
      cases ht : hTag hd with
      | none =>
        rw [ht] at hf
        have : chgTags (Change.insert p hd :: cs) = chgTags cs := by
          simp [chgTags, ht]
        rw [this]; exact ih lo hi hf
      | some τ =>
        rw [ht] at hf
        have : chgTags (Change.insert p hd :: cs) = τ :: chgTags cs := by
          simp [chgTags, ht]
        rw [this, List.pairwise_cons]
        refine ⟨?_, ih _ hi hf.2⟩
        intro σ hσ
        obtain ⟨q, h, hm, he⟩ := (chgTags_mem cs σ).1 hσ
        have := (chgFresh_mem cs _ _ hf.2 q h σ hm he).1
        omega

/-! ### the image of a well-formed plan's callbacks (C02 vocabulary) -/

open Ts.Spec.PesMux Ts.Lemmas.C02 in
/-- continuation packet: one `esCont` with the GLOBAL range, nothing for a payload-less packet -/
theorem esEvList_cont (touch : Bool) (p : Bytes) (base tag : Nat) :
    esEvList touch tag p base (contEvs p) =
      .ok (match tpPayload p with
           | some (o, l) => [.esCont tag (base + o) l]
           | none => []) := by
  unfold contEvs
  rcases tpPayload p with _ | ⟨o, l⟩ <;> simp [esEvList]

open Ts.Spec.PesMux Ts.Lemmas.C02 in
/-- first packet of a plan: the opening event, then `esBegin` with C02's `expectedBegin` -/
theorem esEvList_first (touch : Bool) (pk : PesPkt) (hw : pk.WF) (p : Bytes) (base o l tag : Nat)
    (st : PesFilter.St) (hk : headerLen pk ≤ l) (hle : l ≤ (encodePes pk).length)
    (hh : Packet.rangeBytes p (o, l) = (encodePes pk).take l) :
    esEvList touch tag p base (openEvs st ++ [.beginPkt o l]) =
      .ok (esOpen tag st ++ [.esBegin tag (expectedBegin pk base o l)]) := by
  have h := esEvents_first touch pk hw p base o l tag { cfg := {} } st hk hle hh
  rw [esEvents_eq_list] at h
  cases hl : esEvList touch tag p base (openEvs st ++ [.beginPkt o l]) with
  | panic s => rw [hl] at h; cases h
  | ok lst =>
    rw [hl] at h
    have h := R.ok_inj h
    have ht : lst.reverse ++ [] =
        ((List.foldl Ctx.emit ({ cfg := {} } : Ctx) (esOpen tag st)).emit
          (.esBegin tag (expectedBegin pk base o l))).trace := by
      rw [← h]
    have : lst.reverse = (esOpen tag st ++ [Ev.esBegin tag (expectedBegin pk base o l)]).reverse := by
      rw [List.append_nil] at ht
      rw [ht]
      cases st <;> rfl
    rw [← List.reverse_reverse lst, this, List.reverse_reverse]

/-! ### stream offsets: every event of a packet is the packet-relative event moved to the packet's offset -/

/-- move the stream offsets an event carries by `d` bytes -/
def shiftBi (d : Nat) (bi : BeginInfo) : BeginInfo :=
  { bi with pl := bi.pl.map (fun r => (d + r.1, r.2)) }

def shiftEv (d : Nat) : Ev → Ev
  | .esBegin tag bi => .esBegin tag (shiftBi d bi)
  | .esCont tag off len => .esCont tag (d + off) len
  | .pkt tag off => .pkt tag (d + off)
  | e => e

theorem beginInfo_base (p : Bytes) (base o l : Nat) :
    beginInfo p base o l = (beginInfo p 0 o l >>= fun bi => R.ok (shiftBi base bi)) := by
  unfold beginInfo
  dsimp only
  cases Pes.streamId (Packet.rangeBytes p (o, l)) with
  | panic s => rfl
  | ok sid =>
    simp only [R.ok_bind]
    cases Pes.pesPacketLength (Packet.rangeBytes p (o, l)) with
    | panic s => rfl
    | ok len =>
      simp only [R.ok_bind]
      cases Pes.contents (Packet.rangeBytes p (o, l)) with
      | panic s => rfl
      | ok ct =>
        simp only [R.ok_bind]
        cases ct with
        | payload rest =>
          simp only [R.pure_eq, R.ok_bind, shiftBi, Option.map_some, Nat.zero_add, Nat.add_assoc]
        | parsed oc =>
          cases oc with
          | none => rfl
          | some cc =>
            dsimp only
            cases Pes.ptsDts cc with
            | panic s => rfl
            | ok pd =>
              simp only [R.ok_bind]
              cases Pes.payloadOffset cc with
              | panic s => rfl
              | ok po =>
                simp only [R.pure_eq, R.ok_bind, shiftBi, Option.map_some, Nat.zero_add, Nat.add_assoc]

theorem esEvList_base (touch : Bool) (tag : Nat) (p : Bytes) (base : Nat) :
    ∀ (evs : List PesFilter.Ev), esEvList touch tag p base evs =
      (esEvList touch tag p 0 evs >>= fun l => R.ok (l.map (shiftEv base))) := by
  intro evs
  induction evs with
  | nil => rfl
  | cons e es ih =>
    have fin : ∀ (a : Ev), ((esEvList touch tag p base es >>= fun rest => (pure (shiftEv base a :: rest) : R (List Ev)))) =
        ((esEvList touch tag p 0 es >>= fun rest => (pure (a :: rest) : R (List Ev))) >>= fun l =>
          R.ok (l.map (shiftEv base))) := by
      intro a
      rw [ih]
      cases esEvList touch tag p 0 es with
      | panic s => rfl
      | ok rest => rfl
    cases e with
    | start => exact fin (.esStart tag)
    | endPkt => exact fin (.esEnd tag)
    | ccErr => exact fin (.esCcErr tag)
    | cont o l =>
      have h0 : shiftEv base (.esCont tag (0 + o) l) = .esCont tag (base + o) l := by
        simp only [shiftEv, Nat.zero_add]
      have := fin (.esCont tag (0 + o) l)
      rw [h0] at this
      exact this
    | beginPkt o l =>
      unfold esEvList
      dsimp only
      rw [beginInfo_base]
      cases hb : beginInfo p 0 o l with
      | panic s => rfl
      | ok bi =>
        simp only [R.ok_bind]
        cases touch with
        | false => exact fin (.esBegin tag bi)
        | true =>
          simp only [if_true]
          cases ht : touchPesHeader (Packet.rangeBytes p (o, l)) with
          | panic s => rfl
          | ok u => exact fin (.esBegin tag bi)

/-- `esAll` with every packet taken at stream offset 0: the PACKET-RELATIVE events, a function of
the packets' bytes and the filter callbacks only -/
def esAllRel (touch : Bool) (tag : Nat) : List Bytes → List (List PesFilter.Ev) → R (List (List Ev))
  | b :: bs, evs :: evss => do
    let a ← esEvList touch tag b 0 evs
    let rest ← esAllRel touch tag bs evss
    pure (a :: rest)
  | _, _ => .ok []

/-- shift the `k`-th list of packet-relative events by the `k`-th packet's stream offset -/
def placeAt (pks : List Pk) (rel : List (List Ev)) : List (List Ev) :=
  List.zipWith (fun pk l => l.map (shiftEv pk.off)) pks rel

/-- `esAll` = the packet-relative events, each packet's moved to that packet's stream offset -/
theorem esAll_eq_rel (touch : Bool) (tag : Nat) : ∀ (pks : List Pk) (evss : List (List PesFilter.Ev)),
    esAll touch tag pks evss =
      (esAllRel touch tag (pks.map (·.bytes)) evss >>= fun rel => R.ok (placeAt pks rel)) := by
  intro pks
  induction pks with
  | nil => intro evss; rfl
  | cons pk pks ih =>
    intro evss
    cases evss with
    | nil => rfl
    | cons evs evss =>
      simp only [esAll_cons, List.map_cons, esAllRel]
      rw [esEvList_base, ih evss]
      cases esEvList touch tag pk.bytes 0 evs with
      | panic s => rfl
      | ok a =>
        simp only [R.ok_bind]
        cases esAllRel touch tag (pks.map (·.bytes)) evss with
        | panic s => rfl
        | ok rest => rfl

theorem esShape_shiftEv (d : Nat) (e : Ev) : esShape (shiftEv d e) = esShape e := by
  cases e <;> rfl

/-- with arguments erased, the events of `esAll` over a packet list and the filter callbacks of
that very list are the filter callbacks with arguments erased -/
theorem esAll_shape (touch : Bool) (tag : Nat) : ∀ (pks : List Pk) (fs : PesFilter.F)
    (outs : List (List Ev)),
    esAll touch tag pks (runPure fs (pks.map (·.bytes))).2 = .ok outs →
    outs.flatten.filterMap esShape = ((runPure fs (pks.map (·.bytes))).2.flatten).map norm := by
  intro pks
  induction pks with
  | nil =>
    intro fs outs h
    have : outs = [] := (R.ok_inj h).symm
    subst this
    rfl
  | cons pk pks ih =>
    intro fs outs h
    simp only [List.map_cons, runPure, esAll_cons] at h ⊢
    obtain ⟨a, ha, h⟩ := R.bind_eq_ok h
    obtain ⟨rest, hrest, h⟩ := R.bind_eq_ok h
    have := R.ok_inj h
    subst this
    rw [List.flatten_cons, List.filterMap_append, List.flatten_cons, List.map_append,
      esEvList_shape _ _ _ _ _ _ ha, ih _ rest hrest]

/-! ### concrete data for the non-vacuity examples -/

deriving instance DecidableEq for Except
deriving instance DecidableEq for Ts.Pes.PtsDts
deriving instance DecidableEq for Ts.App.BeginInfo
deriving instance DecidableEq for Ts.App.Ev
deriving instance DecidableEq for Ts.App.Cfg
deriving instance DecidableEq for Ts.App.Ctx
deriving instance DecidableEq for Ts.App.Handler

section data
open Ts.Spec.PesMux

def pad (b : Bytes) : Bytes := b ++ List.replicate (188 - b.length) 0xff

/-- PAT on PID 0: program 1 → PMT PID 0x20 (CRC bytes are garbage: used with `bypassCrc`) -/
def exPat : Bytes := pad [0x47, 0x40, 0x00, 0x10, 0x00,
  0x00, 0xB0, 0x0D, 0x00, 0x01, 0xC1, 0x00, 0x00, 0x00, 0x01, 0xE0, 0x20, 0xDE, 0xAD, 0xBE, 0xEF]

/-- PMT on PID 0x20: H.264 video on PID 0x21, AAC audio on PID 0x22 -/
def exPmt2 : Bytes := pad [0x47, 0x40, 0x20, 0x10, 0x00,
  0x02, 0xB0, 0x17, 0x00, 0x01, 0xC1, 0x00, 0x00, 0xE0, 0x21, 0xF0, 0x00,
  0x1B, 0xE0, 0x21, 0xF0, 0x00, 0x0F, 0xE0, 0x22, 0xF0, 0x00, 0xDE, 0xAD, 0xBE, 0xEF]

/-- PES header `00 00 01 e0 00 00` + optional header `80 00 00` (no PTS) -/
def pesHead : Bytes := [0, 0, 1, 0xe0, 0, 0, 0x80, 0, 0]

def exA0 : Bytes := mkTp true 0x21 0 none (pesHead ++ List.replicate 175 0x11)
def exA1 : Bytes := mkTp false 0x21 1 none (List.replicate 184 0x12)
def exA2 : Bytes := mkTp true 0x21 2 none (pesHead ++ List.replicate 175 0x13)
def exB0 : Bytes := mkTp true 0x22 7 none (pesHead ++ List.replicate 175 0x21)
def exB1 : Bytes := mkTp false 0x22 8 (some (stuffingAf 83)) (List.replicate 100 0x22)

/-- the elementary-stream part: PIDs 0x21 (A) and 0x22 (B) interleaved `A B B A A` -/
def exEs : Bytes := exA0 ++ exB0 ++ exB1 ++ exA1 ++ exA2
/-- the same with the two streams one after the other: `A A A B B` is NOT used; instead the B
packets are moved to the front: `B B A A A` -/
def exEsAlt : Bytes := exB0 ++ exB1 ++ exA0 ++ exA1 ++ exA2

def exBuf : Bytes := exPat ++ exPmt2 ++ exEs

/-- the packets `push` frames out of `exEs` when 376 bytes were pushed before -/
def exPks : List Pk :=
  [⟨exA0, 376, 0x21, false, false⟩, ⟨exB0, 564, 0x22, false, false⟩, ⟨exB1, 752, 0x22, false, false⟩,
   ⟨exA1, 940, 0x21, false, false⟩, ⟨exA2, 1128, 0x21, false, false⟩]

def exBi (o : Nat) : BeginInfo := ⟨0xe0, 0, 1, some (.error .fieldNotPresent), some (o, 175)⟩

/-- the state after PAT and PMT have been processed -/
def exState : R (Tab Handler × Ctx) := runApp { bypassCrc := true } [exPat ++ exPmt2]

/-- `exState`, spelled out: PAT handler on PID 0, PMT handler on PID 0x20, PES filters tagged 2 and 3
on PIDs 0x21 and 0x22; four tags handed out -/
def exTab0 : Tab Handler :=
  some (.pat { lastVersion := some 0 } [0x20]) :: List.replicate 31 none ++
    [some (.pmt 0x20 1 { lastVersion := some 0 } [0x21, 0x22]), some (.pes 2 {}), some (.pes 3 {})]

def exCtx0 : Ctx :=
  { cfg := { bypassCrc := true }, nextTag := 4,
    trace := [.construct (.stream 0x20 0x0F 0x22 0x21 [] []) 3, .construct (.stream 0x20 0x1B 0x21 0x21 [] []) 2,
              .construct (.pmt 0x20 1) 1, .construct (.byPid 0) 0] }

/-- the PMT again with `version_number = 1`: both streams are re-announced -/
def exPmt2v1 : Bytes := pad [0x47, 0x40, 0x20, 0x11, 0x00,
  0x02, 0xB0, 0x17, 0x00, 0x01, 0xC3, 0x00, 0x00, 0xE0, 0x21, 0xF0, 0x00,
  0x1B, 0xE0, 0x21, 0xF0, 0x00, 0x0F, 0xE0, 0x22, 0xF0, 0x00, 0xDE, 0xAD, 0xBE, 0xEF]

def exA3 : Bytes := mkTp true 0x21 3 none (pesHead ++ List.replicate 175 0x14)

/-- hostile continuation of PID 0x21 after `exBuf`: a continuity jump (counter 9 after 2), a valid
PES start, a unit start on garbage (no `00 00 01`), a stray continuation -/
def exHostile : Bytes :=
  mkTp false 0x21 9 none (List.replicate 184 0x31)
  ++ mkTp true 0x21 10 none (pesHead ++ List.replicate 175 0x32)
  ++ mkTp true 0x21 11 none (List.replicate 184 0x33)
  ++ mkTp false 0x21 12 none (List.replicate 184 0x34)

end data

end Ts.Lemmas.Proj
