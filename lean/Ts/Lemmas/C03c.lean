import Ts.Lemmas.C03b
/-!
# C03 helper lemmas, part 3: runs of payloads; the reassembly induction; the starting payload
-/
namespace Ts.Lemmas.C03
open Ts Ts.Psi Ts.Spec Ts.Spec.SectionMux

/-- one transport-packet payload as seen by `SectionPacketConsumer::consume` -/
structure Pl where
  us : Bool        -- payload_unit_start_indicator
  bytes : Bytes    -- the payload
  off : Nat        -- its offset inside the 188-byte packet
  deriving DecidableEq, Repr

/-- a continuation payload -/
def Pl.cont (b : Bytes) (off : Nat) : Pl := ⟨false, b, off⟩

/-- feed a sequence of payloads, concatenating the deliveries -/
def runPl (cfg : Cfg) (s : St) : List Pl → R (St × List Delivery)
  | [] => .ok (s, [])
  | q :: qs => do
    let (s1, d1) ← consumePayload cfg s q.us q.bytes q.off
    let (s2, d2) ← runPl cfg s1 qs
    pure (s2, d1 ++ d2)

def runSpec (cfg : Cfg) (s : St) : List Pl → St × List Delivery
  | [] => (s, [])
  | q :: qs =>
    let r1 := consumeSpec cfg s q.us q.bytes q.off
    let r2 := runSpec cfg r1.1 qs
    (r2.1, r1.2 ++ r2.2)

theorem runPl_eq (cfg : Cfg) (hc : CfgOk cfg) (qs : List Pl) :
    ∀ (s : St), PsiInv (kindOf cfg) s → (∀ q ∈ qs, 1 ≤ q.bytes.length) →
      runPl cfg s qs = .ok (runSpec cfg s qs) := by
  induction qs with
  | nil => intro s _ _; rfl
  | cons q qs ih =>
    intro s hs hq
    have h1 := consumePayload_eq cfg hc s q.us q.bytes q.off (hq q (List.mem_cons_self ..)) hs
    have h2 := ih (consumeSpec cfg s q.us q.bytes q.off).1 (consumeSpec_inv cfg s _ _ _ hs)
      (fun q' hq' => hq q' (List.mem_cons_of_mem _ hq'))
    simp only [runPl, runSpec, h1, R.ok_bind, h2]
    rfl

/-- a run of continuation payloads -/
def runCont (cfg : Cfg) (s : St) : List Bytes → St × List Delivery
  | [] => (s, [])
  | p :: ps =>
    let r1 := contSpec cfg s p
    let r2 := runCont cfg r1.1 ps
    (r2.1, r1.2 ++ r2.2)

theorem runSpec_cont (cfg : Cfg) (qs : List Pl) : ∀ (s : St), (∀ q ∈ qs, q.us = false) →
    runSpec cfg s qs = runCont cfg s (qs.map (·.bytes)) := by
  induction qs with
  | nil => intro s _; rfl
  | cons q qs ih =>
    intro s hq
    have hu : q.us = false := hq q (List.mem_cons_self ..)
    simp only [runSpec, List.map_cons, runCont, consumeSpec, hu, Bool.false_eq_true, if_false]
    rw [ih _ (fun q' hq' => hq q' (List.mem_cons_of_mem _ hq'))]

theorem contSpec_idle (cfg : Cfg) (s : St) (p : Bytes) (h : s.remaining = none ∨ s.ignoreRest = true) :
    contSpec cfg s p = (s, []) := by
  unfold contSpec bufContSpec
  rcases h with h | h
  · simp [h]
  · simp [h]

/-- nothing is delivered, nothing changes, while `Complete` or ignoring -/
theorem runCont_idle (cfg : Cfg) (s : St) (ps : List Bytes) (h : s.remaining = none ∨ s.ignoreRest = true) :
    runCont cfg s ps = (s, []) := by
  induction ps with
  | nil => rfl
  | cons p ps ih => simp only [runCont, contSpec_idle cfg s p h, ih, List.append_nil]

/-- the core induction: a buffering state that holds `S.take j` and is owed `S.length - j` bytes
delivers exactly `S`, once, from the buffer, whatever the split of the continuation payloads -/
theorem reassemble (cfg : Cfg) (lv : Option Nat) (di : Bool) (hdi : (cfg.dedup && di) = false)
    (S : Bytes) (extra : List Bytes) :
    ∀ (ps : List Bytes) (j : Nat), j < S.length → Carries (S.drop j) ps →
      runCont cfg ⟨false, lv, di, S.take j, some (S.length - j)⟩ (ps ++ extra)
        = (⟨false, lv, di, S, none⟩, [⟨S, none⟩]) := by
  intro ps
  induction ps with
  | nil => intro j _ h; exact absurd h (by simp [Carries])
  | cons p ps ih =>
    intro j hj hc
    have hlen : (S.drop j).length = S.length - j := by simp
    simp only [Carries, hlen] at hc
    rcases hc with ⟨hle, htake⟩ | ⟨hlt, hp, hrest⟩
    · have hS : S.take j ++ p.take (S.length - j) = S := by rw [htake]; exact List.take_append_drop j S
      have h1 : contSpec cfg ⟨false, lv, di, S.take j, some (S.length - j)⟩ p
          = (⟨false, lv, di, S, none⟩, [⟨S, none⟩]) := by
        simp [contSpec, bufContSpec, hdi, hle, hS]
      simp only [List.cons_append, runCont, h1]
      rw [runCont_idle cfg _ _ (Or.inl rfl)]
      rfl
    · have hnot : ¬ (S.length - j ≤ p.length) := by omega
      have hbuf : S.take j ++ p = S.take (j + p.length) := by
        rw [List.take_add, ← hp]
      have hrem : S.length - j - p.length = S.length - (j + p.length) := by omega
      have hdrop : List.drop p.length (List.drop j S) = S.drop (j + p.length) := by
        rw [List.drop_drop]
      rw [hdrop] at hrest
      have h1 : contSpec cfg ⟨false, lv, di, S.take j, some (S.length - j)⟩ p
          = (⟨false, lv, di, S.take (j + p.length), some (S.length - (j + p.length))⟩, []) := by
        simp [contSpec, bufContSpec, hdi, hnot, hbuf, hrem]
      simp only [List.cons_append, runCont, h1]
      rw [ih (j + p.length) (by omega) hrest]
      rfl

/-! ### the starting payload -/

/-- effect of the `pointer_field` remainder `pre` on the previous section -/
def preSpec (cfg : Cfg) (s : St) (pre : Bytes) : St × List Delivery :=
  if pre = [] then (s, []) else contSpec cfg s pre

theorem preSpec_inv (cfg : Cfg) (kind : Kind) (s : St) (pre : Bytes) (h : PsiInv kind s) :
    PsiInv kind (preSpec cfg s pre).1 := by
  unfold preSpec; split
  · exact h
  · exact contSpec_inv cfg kind s pre h

/-- a unit-start payload `pointer_field :: pre ++ ns` with at least a common header in `ns` -/
theorem consumeSpec_first (cfg : Cfg) (s : St) (pre ns : Bytes) (off : Nat)
    (hp : pre.length < 256) (hns : 3 ≤ ns.length) :
    consumeSpec cfg s true (UInt8.ofNat pre.length :: (pre ++ ns)) off
      = ((startSpec cfg (preSpec cfg s pre).1 ns (off + 1 + pre.length)).1,
         (preSpec cfg s pre).2 ++ (startSpec cfg (preSpec cfg s pre).1 ns (off + 1 + pre.length)).2) := by
  have hb : byteD (UInt8.ofNat pre.length :: (pre ++ ns)) 0 = pre.length := by
    rw [byteD_cons_zero, UInt8.toNat_ofNat']
    exact Nat.mod_eq_of_lt hp
  unfold consumeSpec
  simp only [if_true, hb, List.drop_succ_cons, List.drop_zero, List.length_append,
    List.take_left', List.drop_left']
  have hno : ¬ (0 < pre.length ∧ pre.length + ns.length ≤ pre.length) := by omega
  have hns' : ¬ (ns.length < 3) := by omega
  simp only [hno, if_false, hns']
  unfold preSpec
  by_cases hpre : pre = []
  · subst hpre; simp
  · have : 0 < pre.length := List.length_pos_iff.2 hpre
    simp [hpre, this]

/-- the header seen at the start of `S.take k ++ tail` is the header of `S` -/
theorem hdr_of_share (S tail : Bytes) (k : Nat) (hk : 3 ≤ k) (hkS : k ≤ S.length) :
    hdrLen (S.take k ++ tail) = hdrLen S ∧ hdrSyn (S.take k ++ tail) = hdrSyn S := by
  have hl : 3 ≤ (S.take k).length := by simp; omega
  rw [hdrLen_append _ _ hl, hdrSyn_append _ _ hl, hdrLen_take _ _ hk, hdrSyn_take _ _ hk]
  exact ⟨rfl, rfl⟩

theorem wf_syn (kind : Kind) (S : Bytes) (h : WellFormedSection kind S) :
    hdrSyn S = (cfgOf kind).sectionSyntax := by
  have := h.2.2.2
  rw [syntaxBit_iff] at this
  cases kind
  · simp only [cfgOf, rawSection]; exact this.2 rfl
  · simp only [cfgOf, rawCompact]
    cases hs : hdrSyn S
    · rfl
    · have := this.1 hs; cases this

/-- the start of a well-formed section whose first share is `k` bytes -/
theorem startSpec_wf (kind : Kind) (S : Bytes) (hS : WellFormedSection kind S) (s : St)
    (k : Nat) (tail : Bytes) (off : Nat) (hk : k ≤ S.length)
    (hmin : minHeader kind ≤ (S.take k ++ tail).length)
    (hcase : k = S.length ∨ (k < S.length ∧ tail = [])) :
    startSpec (cfgOf kind) s (S.take k ++ tail) off =
      if k = S.length then ({ s with ignoreRest := false, remaining := none }, [⟨S, some off⟩])
      else ({ s with ignoreRest := false, buf := S.take k, remaining := some (S.length - k) }, []) := by
  obtain ⟨h3, hlenS, hmax, _⟩ := hS
  rw [sectionLength_eq] at hlenS hmax
  simp only [maxSectionLength] at hmax
  have hmh := minHeader_ge kind
  have hk3 : 3 ≤ k := by
    rcases hcase with h | ⟨_, ht⟩
    · omega
    · subst ht; simp at hmin; omega
  obtain ⟨e1, e2⟩ := hdr_of_share S tail k hk3 hk
  have hok : startOk (cfgOf kind) (S.take k ++ tail) = true := by
    rw [startOk_iff, e1, e2, kindOf_cfgOf]
    exact ⟨wf_syn kind S ⟨h3, by rw [sectionLength_eq]; exact hlenS,
      by rw [sectionLength_eq]; exact hmax, by assumption⟩, hmin, hmax⟩
  have hdd : (cfgOf kind).dedup = false := by cases kind <;> rfl
  unfold startSpec dedupStartSpec bufStartSpec
  simp only [hok, if_true, hdd, Bool.false_eq_true, if_false, e1]
  rcases hcase with hkS | ⟨hlt, ht⟩
  · subst hkS
    simp only [List.take_length]
    have hle : hdrLen S + 3 ≤ (S ++ tail).length := by simp; omega
    have htake : List.take (hdrLen S + 3) (S ++ tail) = S := List.take_left' (by omega)
    simp only [hle, if_true, htake]
  · subst ht
    have hnle : ¬ (hdrLen S + 3 ≤ (S.take k).length) := by simp; omega
    have hne : ¬ (k = S.length) := by omega
    have hrem : hdrLen S + 3 - (S.take k).length = S.length - k := by simp; omega
    simp only [List.append_nil, hnle, if_false, hne, hrem]

end Ts.Lemmas.C03
