import Ts.Lemmas.C05Hc
/-!
# C05 over whole histories — helper lemmas, part 4: facts about the abstract routing state

* `TagInv`: every routed PID's request names that PID and sits at the slot's tag in the request list
* `slot_kept`, `Within`: which events leave the route of a PID alone
* `routed_by_latest_pat/_pmt`: under collision-freedom the route of a PID listed by the most recent
  PAT / by the most recent PMT of a program-map PID is the request of that entry
* `pat_drop_step`, `pmt_drop_step`, `dropped_by_same_pat/_pmt_instance`: dropped PIDs are un-routed —
  for PMTs exactly when the SAME handler instance applied both versions
-/
namespace Ts.Lemmas.C05H
open Ts Ts.Tables Ts.App Ts.Demux Ts.Spec Ts.Spec.TableSpec Ts.Spec.Routing Ts.Spec.RoutingHistory
open Ts.Lemmas.C05

/-! ### tags -/

theorem tagged_get : ∀ (l : List (Nat × Req)) (n i : Nat),
    (tagged n l)[i]? = l[i]?.map fun x => (x.1, (x.2, n + i)) := by
  intro l
  induction l with
  | nil => intro _ _; rfl
  | cons x rest ih =>
    intro n i
    obtain ⟨p, q⟩ := x
    cases i with
    | zero => simp [tagged]
    | succ i => simp [tagged, ih, Nat.add_assoc, Nat.add_comm 1 i]

theorem tagged_forget : ∀ (l : List (Nat × Req)) (n : Nat),
    (tagged n l).map (fun x => (x.1, x.2.1)) = l := by
  intro l
  induction l with
  | nil => intro _; rfl
  | cons x rest ih => intro n; obtain ⟨p, q⟩ := x; simp [tagged, ih]

theorem lastFor_tagged (l : List (Nat × Req)) (n q : Nat) :
    lastFor l q = (lastFor (tagged n l) q).map (·.1) := by
  conv => lhs; rw [← tagged_forget l n]
  exact lastFor_map (fun x : Req × Nat => x.1) (tagged n l) q

/-- every routed PID's request names that PID, and is the `tag`-th request made -/
def TagInv (r : Route) : Prop :=
  ∀ p req tag, r.slots p = some (req, tag) → reqPid req = p ∧ r.reqs[tag]? = some req

theorem tagInv_applied (r : Route) (reqs : List (Nat × Req)) (reg : List Nat)
    (hpid : ∀ x ∈ reqs, reqPid x.2 = x.1) (h : TagInv r) (p : Nat) (req : Req) (tag : Nat)
    (ha : applied r.slots (tagged r.reqs.length reqs) reg p = some (req, tag)) :
    reqPid req = p ∧ (r.reqs ++ reqs.map (·.2))[tag]? = some req := by
  unfold applied at ha
  cases hl : lastFor (tagged r.reqs.length reqs) p with
  | some x =>
    rw [hl] at ha
    simp only [Option.some.injEq] at ha
    subst ha
    have hm := lastFor_mem _ _ _ hl
    obtain ⟨i, hi⟩ := List.getElem?_of_mem hm
    rw [tagged_get] at hi
    cases hli : reqs[i]? with
    | none => rw [hli] at hi; cases hi
    | some y =>
      rw [hli] at hi
      simp only [Option.map_some, Option.some.injEq, Prod.mk.injEq] at hi
      obtain ⟨e1, e2, e3⟩ := hi
      subst e1 e2 e3
      refine ⟨hpid y (List.mem_of_getElem? hli), ?_⟩
      rw [List.getElem?_append_right (Nat.le_add_right _ _), Nat.add_sub_cancel_left, List.getElem?_map, hli]
      rfl
  | none =>
    rw [hl] at ha
    simp only at ha
    split at ha
    · cases ha
    · obtain ⟨h1, h2⟩ := h p req tag ha
      refine ⟨h1, ?_⟩
      have hlt : tag < r.reqs.length := by
        apply Classical.byContradiction
        intro hn
        rw [List.getElem?_eq_none (by omega)] at h2
        cases h2
      rw [List.getElem?_append_left hlt]; exact h2

theorem tagInv_init : TagInv initRoute := by
  intro p req tag h
  simp only [initRoute] at h
  split at h
  · rename_i hp
    cases h
    exact ⟨hp.symm, rfl⟩
  · cases h

theorem tagInv_step (r : Route) (ev : Event) (h : TagInv r) : TagInv (stepRoute r ev) := by
  cases ev with
  | patApplied ver es =>
    intro p req tag hs
    refine tagInv_applied r (patRequests es) _ ?_ h p req tag hs
    intro x hx
    unfold patRequests at hx
    obtain ⟨e, -, rfl⟩ := List.mem_map.1 hx
    cases e <;> rfl
  | pmtApplied q ver body =>
    intro p req tag hs
    refine tagInv_applied r (pmtReqs q body) _ ?_ h p req tag hs
    intro x hx
    unfold pmtReqs pmtRequests at hx
    obtain ⟨e, -, rfl⟩ := List.mem_map.1 hx
    rfl
  | esPacket q =>
    cases hq : r.slots q with
    | some x =>
      have : stepRoute r (.esPacket q) = r := by simp only [stepRoute, hq]
      rw [this]; exact h
    | none =>
      have : stepRoute r (.esPacket q) =
          { r with slots := fun q' => if q' = q then some (.byPid q, r.reqs.length) else r.slots q',
                   reqs := r.reqs ++ [.byPid q] } := by simp only [stepRoute, hq]
      rw [this]
      intro p req tag hs
      simp only at hs
      by_cases hp : p = q
      · rw [if_pos hp] at hs
        simp only [Option.some.injEq, Prod.mk.injEq] at hs
        obtain ⟨rfl, rfl⟩ := hs
        exact ⟨hp.symm, by simp⟩
      · rw [if_neg hp] at hs
        obtain ⟨h1, h2⟩ := h p req tag hs
        refine ⟨h1, ?_⟩
        have hlt : tag < r.reqs.length := by
          apply Classical.byContradiction
          intro hn
          rw [List.getElem?_eq_none (by omega)] at h2
          cases h2
        show (r.reqs ++ [Req.byPid q])[tag]? = some req
        rw [List.getElem?_append_left hlt]; exact h2
  | repetition q => exact h

theorem tagInv_run : ∀ (evs : List Event) (r : Route), TagInv r → TagInv (run r evs) := by
  intro evs
  induction evs with
  | nil => intro r h; exact h
  | cons ev evs ih => intro r h; exact ih _ (tagInv_step r ev h)

/-- two PIDs routed with the same tag are the same PID -/
theorem tags_distinct (r : Route) (h : TagInv r) (p p' : Nat) (req req' : Req) (tag : Nat)
    (h1 : r.slots p = some (req, tag)) (h2 : r.slots p' = some (req', tag)) : p = p' := by
  obtain ⟨a1, a2⟩ := h p req tag h1
  obtain ⟨b1, b2⟩ := h p' req' tag h2
  rw [a2] at b2
  cases b2
  rw [← a1, ← b1]

/-! ### events that leave the route of a PID alone -/

/-- event `ev`, happening in state `r`, neither lists `q`, nor can un-route it, nor asks for it -/
def Quiet (r : Route) (q : Nat) : Event → Prop
  | .patApplied _ es => q ∉ es.map PatEntry.pid ∧ q ∉ r.patEntries.map PatEntry.pid
  | .pmtApplied p _ body =>
      q ∉ (streamsOf body).map StreamInfo.pid ∧ q ∉ (r.pmt p).streams.map StreamInfo.pid
  | .esPacket q' => q' = q → r.slots q ≠ none
  | .repetition _ => True

theorem slot_kept (r : Route) (q : Nat) (ev : Event) (h : Quiet r q ev) :
    (stepRoute r ev).slots q = r.slots q := by
  cases ev with
  | patApplied ver es =>
    rw [stepRoute_pat_slots]
    exact applied_untouched _ _ _ _ (by rw [tagged_pids, patRequests_pids]; exact h.1) h.2
  | pmtApplied p ver body =>
    rw [stepRoute_pmt_slots]
    exact applied_untouched _ _ _ _ (by rw [tagged_pids, pmtReqs_pids]; exact h.1) h.2
  | esPacket q' =>
    cases hq : r.slots q' with
    | some x => simp only [stepRoute, hq]
    | none =>
      simp only [stepRoute, hq]
      by_cases e : q = q'
      · subst e; exact absurd hq (h rfl)
      · rw [if_neg e]
  | repetition p => rfl

/-- what the state remembers was listed by the history: entries in `P`, (program-map PID,
elementary PID) pairs in `E` -/
def Within (P : List PatEntry) (E : List (Nat × Nat)) (r : Route) : Prop :=
  (∀ e ∈ r.patEntries, e ∈ P) ∧ (∀ p s, s ∈ (r.pmt p).streams → (p, s.pid) ∈ E)

def EvWithin (P : List PatEntry) (E : List (Nat × Nat)) : Event → Prop
  | .patApplied _ es => ∀ e ∈ es, e ∈ P
  | .pmtApplied p _ body => ∀ s ∈ streamsOf body, (p, s.pid) ∈ E
  | _ => True

theorem within_init (P : List PatEntry) (E : List (Nat × Nat)) : Within P E initRoute :=
  ⟨fun e he => (by cases he), fun p s hs => (by cases hs)⟩

theorem within_step (P : List PatEntry) (E : List (Nat × Nat)) (r : Route) (ev : Event)
    (h : Within P E r) (he : EvWithin P E ev) : Within P E (stepRoute r ev) := by
  cases ev with
  | patApplied ver es =>
    refine ⟨he, ?_⟩
    intro p s hs
    rw [stepRoute_pat_pmt] at hs
    split at hs
    · cases hs
    · exact h.2 p s hs
  | pmtApplied q ver body =>
    refine ⟨h.1, ?_⟩
    intro p s hs
    rw [stepRoute_pmt_pmt] at hs
    by_cases hp : p = q
    · rw [if_pos hp] at hs
      rw [hp]; exact he s hs
    · rw [if_neg hp] at hs
      exact h.2 p s hs
  | esPacket q =>
    cases hq : r.slots q with
    | some x =>
      have : stepRoute r (.esPacket q) = r := by simp only [stepRoute, hq]
      rw [this]; exact h
    | none =>
      have : stepRoute r (.esPacket q) =
          { r with slots := fun q' => if q' = q then some (.byPid q, r.reqs.length) else r.slots q',
                   reqs := r.reqs ++ [.byPid q] } := by simp only [stepRoute, hq]
      rw [this]; exact h
  | repetition q => exact h

theorem within_run (P : List PatEntry) (E : List (Nat × Nat)) : ∀ (evs : List Event) (r : Route),
    Within P E r → (∀ ev ∈ evs, EvWithin P E ev) → Within P E (run r evs) := by
  intro evs
  induction evs with
  | nil => intro r h _; exact h
  | cons ev evs ih =>
    intro r h hall
    exact ih _ (within_step P E r ev h (hall ev List.mem_cons_self))
      (fun ev' hm => hall ev' (List.mem_cons_of_mem _ hm))

theorem mem_patEntriesOf : ∀ (evs : List Event) (ver : Nat) (es : List PatEntry),
    Event.patApplied ver es ∈ evs → ∀ e ∈ es, e ∈ patEntriesOf evs := by
  intro evs
  induction evs with
  | nil => intro _ _ h; cases h
  | cons ev evs ih =>
    intro ver es h e he
    rcases List.mem_cons.1 h with h | h
    · subst h
      simp only [patEntriesOf, List.mem_append]
      exact Or.inl he
    · have := ih ver es h e he
      cases ev <;> simp only [patEntriesOf, List.mem_append] <;> first | exact Or.inr this | exact this

theorem mem_esPairsOf : ∀ (evs : List Event) (p ver : Nat) (body : Bytes),
    Event.pmtApplied p ver body ∈ evs → ∀ s ∈ streamsOf body, (p, s.pid) ∈ esPairsOf evs := by
  intro evs
  induction evs with
  | nil => intro _ _ _ h; cases h
  | cons ev evs ih =>
    intro p ver body h s hs
    rcases List.mem_cons.1 h with h | h
    · subst h
      simp only [esPairsOf, List.mem_append]
      exact Or.inl (List.mem_map.2 ⟨s, hs, rfl⟩)
    · have := ih p ver body h s hs
      cases ev <;> simp only [esPairsOf, List.mem_append] <;> first | exact Or.inr this | exact this

theorem evWithin_of_mem (evs : List Event) (ev : Event) (h : ev ∈ evs) :
    EvWithin (patEntriesOf evs) (esPairsOf evs) ev := by
  cases ev with
  | patApplied ver es => exact mem_patEntriesOf evs ver es h
  | pmtApplied p ver body => exact mem_esPairsOf evs p ver body h
  | esPacket q => trivial
  | repetition q => trivial

/-- a route survives a run of quiet events -/
theorem slot_kept_run (q : Nat) (P : List PatEntry) (E : List (Nat × Nat)) (a : Req × Nat) :
    ∀ (evs : List Event) (r : Route), r.slots q = some a → Within P E r →
      (∀ ev ∈ evs, EvWithin P E ev) →
      (∀ ev ∈ evs, ∀ r', Within P E r' → r'.slots q = some a → Quiet r' q ev) →
      (run r evs).slots q = some a := by
  intro evs
  induction evs with
  | nil => intro r h _ _ _; exact h
  | cons ev evs ih =>
    intro r h hw hall hquiet
    have hk := slot_kept r q ev (hquiet ev List.mem_cons_self r hw h)
    exact ih _ (by rw [hk]; exact h) (within_step P E r ev hw (hall ev List.mem_cons_self))
      (fun ev' hm => hall ev' (List.mem_cons_of_mem _ hm))
      (fun ev' hm => hquiet ev' (List.mem_cons_of_mem _ hm))

/-! ### the most recent tables decide the route (under collision-freedom) -/

theorem mem_pids_of_lastFor {l : List (Nat × Req)} {q : Nat} {req : Req} (h : lastFor l q = some req) :
    q ∈ l.map (·.1) := List.mem_map.2 ⟨_, lastFor_mem l q req h, rfl⟩

/-- a PID listed by the most recent PAT is routed by the request of its (last) entry -/
theorem routed_by_latest_pat (pre post : List Event) (ver : Nat) (es : List PatEntry) (q : Nat) (req : Req)
    (hcf : CollisionFree (pre ++ .patApplied ver es :: post))
    (hlast : ∀ ev ∈ post, ∀ v es', ev ≠ .patApplied v es')
    (hq : lastFor (patRequests es) q = some req) :
    ∃ tag, (run initRoute (pre ++ .patApplied ver es :: post)).slots q = some (req, tag) := by
  obtain ⟨-, -, -, hc4, -⟩ := hcf
  generalize hP : patEntriesOf (pre ++ .patApplied ver es :: post) = P at hc4
  generalize hE : esPairsOf (pre ++ .patApplied ver es :: post) = E at hc4
  have hall : ∀ ev ∈ pre ++ Event.patApplied ver es :: post, EvWithin P E ev := by
    intro ev hm; rw [← hP, ← hE]; exact evWithin_of_mem _ ev hm
  have hw1 := within_run P E pre initRoute (within_init P E)
    (fun ev hm => hall ev (List.mem_append_left _ hm))
  have hev : EvWithin P E (.patApplied ver es) := hall _ (List.mem_append_right _ List.mem_cons_self)
  -- `q` is the PID of an entry of the history
  have hqP : ∃ e ∈ P, e.pid = q := by
    have := mem_pids_of_lastFor hq
    rw [patRequests_pids] at this
    obtain ⟨e, he, hep⟩ := List.mem_map.1 this
    exact ⟨e, hev e he, hep⟩
  obtain ⟨e0, he0, he0q⟩ := hqP
  -- right after the PAT
  have hlt := lastFor_tagged (patRequests es) (run initRoute pre).reqs.length q
  rw [hq] at hlt
  cases hl : lastFor (tagged (run initRoute pre).reqs.length (patRequests es)) q with
  | none => rw [hl] at hlt; cases hlt
  | some a =>
    rw [hl] at hlt
    simp only [Option.map_some, Option.some.injEq] at hlt
    have hs2 : (stepRoute (run initRoute pre) (.patApplied ver es)).slots q = some a := by
      rw [stepRoute_pat_slots]; unfold applied; rw [hl]
    rw [run_append, run_cons]
    have := slot_kept_run q P E a post _ hs2 (within_step P E _ _ hw1 hev)
      (fun ev hm => hall ev (List.mem_append_right _ (List.mem_cons_of_mem _ hm))) ?_
    · exact ⟨a.2, by rw [this, hlt]⟩
    · intro ev hm r' hw' hs'
      cases ev with
      | patApplied v es' => exact absurd rfl (hlast _ hm v es')
      | pmtApplied p v body =>
        have hev' : EvWithin P E (.pmtApplied p v body) :=
          hall _ (List.mem_append_right _ (List.mem_cons_of_mem _ hm))
        constructor
        · intro hmem
          obtain ⟨s, hs, hsq⟩ := List.mem_map.1 hmem
          exact hc4 _ (hev' s hs) e0 he0 (by rw [he0q]; exact hsq)
        · intro hmem
          obtain ⟨s, hs, hsq⟩ := List.mem_map.1 hmem
          exact hc4 _ (hw'.2 p s hs) e0 he0 (by rw [he0q]; exact hsq)
      | esPacket q' => intro _ hn; rw [hs'] at hn; cases hn
      | repetition q' => trivial

/-- a PID listed by the most recent PMT received on the program-map PID `p` is routed by the
stream request of its (last) entry — naming `p`, the stream type and that PID -/
theorem routed_by_latest_pmt (pre post : List Event) (p ver : Nat) (body : Bytes) (q : Nat) (req : Req)
    (hcf : CollisionFree (pre ++ .pmtApplied p ver body :: post))
    (hlast : ∀ ev ∈ post, ∀ v b, ev ≠ .pmtApplied p v b)
    (hq : lastFor (pmtReqs p body) q = some req) :
    ∃ tag, (run initRoute (pre ++ .pmtApplied p ver body :: post)).slots q = some (req, tag) := by
  obtain ⟨-, -, -, hc4, hc5⟩ := hcf
  generalize hP : patEntriesOf (pre ++ .pmtApplied p ver body :: post) = P at hc4
  generalize hE : esPairsOf (pre ++ .pmtApplied p ver body :: post) = E at hc4 hc5
  have hall : ∀ ev ∈ pre ++ Event.pmtApplied p ver body :: post, EvWithin P E ev := by
    intro ev hm; rw [← hP, ← hE]; exact evWithin_of_mem _ ev hm
  have hw1 := within_run P E pre initRoute (within_init P E)
    (fun ev hm => hall ev (List.mem_append_left _ hm))
  have hev : EvWithin P E (.pmtApplied p ver body) := hall _ (List.mem_append_right _ List.mem_cons_self)
  have hqE : (p, q) ∈ E := by
    have := mem_pids_of_lastFor hq
    rw [pmtReqs_pids] at this
    obtain ⟨s, hs, hsq⟩ := List.mem_map.1 this
    rw [← hsq]; exact hev s hs
  have hlt := lastFor_tagged (pmtReqs p body) (run initRoute pre).reqs.length q
  rw [hq] at hlt
  cases hl : lastFor (tagged (run initRoute pre).reqs.length (pmtReqs p body)) q with
  | none => rw [hl] at hlt; cases hlt
  | some a =>
    rw [hl] at hlt
    simp only [Option.map_some, Option.some.injEq] at hlt
    have hs2 : (stepRoute (run initRoute pre) (.pmtApplied p ver body)).slots q = some a := by
      rw [stepRoute_pmt_slots]; unfold applied; rw [hl]
    rw [run_append, run_cons]
    have := slot_kept_run q P E a post _ hs2 (within_step P E _ _ hw1 hev)
      (fun ev hm => hall ev (List.mem_append_right _ (List.mem_cons_of_mem _ hm))) ?_
    · exact ⟨a.2, by rw [this, hlt]⟩
    · intro ev hm r' hw' hs'
      have hev' : EvWithin P E ev := hall _ (List.mem_append_right _ (List.mem_cons_of_mem _ hm))
      cases ev with
      | patApplied v es' =>
        constructor
        · intro hmem
          obtain ⟨e, he, heq⟩ := List.mem_map.1 hmem
          exact hc4 _ hqE e (hev' e he) heq.symm
        · intro hmem
          obtain ⟨e, he, heq⟩ := List.mem_map.1 hmem
          exact hc4 _ hqE e (hw'.1 e he) heq.symm
      | pmtApplied p' v b =>
        have hne : p' ≠ p := fun e => hlast _ hm v b (by rw [e])
        constructor
        · intro hmem
          obtain ⟨s, hs, hsq⟩ := List.mem_map.1 hmem
          exact hne (hc5 _ (hev' s hs) _ hqE hsq)
        · intro hmem
          obtain ⟨s, hs, hsq⟩ := List.mem_map.1 hmem
          exact hne (hc5 _ (hw'.2 p' s hs) _ hqE hsq)
      | esPacket q' => intro _ hn; rw [hs'] at hn; cases hn
      | repetition q' => trivial

/-! ### PIDs dropped by a newer version -/

/-- a PID of the previous PAT that the new PAT no longer lists is un-routed at once -/
theorem pat_drop_step (r : Route) (ver : Nat) (es : List PatEntry) (q : Nat)
    (hq : q ∈ r.patEntries.map PatEntry.pid) (h13 : q ≤ 0x1fff) (hdrop : q ∉ es.map PatEntry.pid) :
    routeOf (stepRoute r (.patApplied ver es)) q = none := by
  unfold routeOf
  rw [stepRoute_pat_slots]
  unfold applied
  have hns : q ∉ (tagged r.reqs.length (patRequests es)).map (·.1) := by
    rw [tagged_pids, patRequests_pids]; exact hdrop
  rw [(lastFor_none_iff _ q).2 hns]
  simp only
  rw [if_pos ⟨by omega, hq, hns⟩]
  rfl

/-- a PID the CURRENT PMT handler instance on `p` had installed and the new PMT no longer lists is
un-routed at once -/
theorem pmt_drop_step (r : Route) (p ver : Nat) (body : Bytes) (q : Nat)
    (hq : q ∈ (r.pmt p).streams.map StreamInfo.pid) (h13 : q ≤ 0x1fff)
    (hdrop : q ∉ (streamsOf body).map StreamInfo.pid) :
    routeOf (stepRoute r (.pmtApplied p ver body)) q = none := by
  unfold routeOf
  rw [stepRoute_pmt_slots]
  unfold applied
  have hns : q ∉ (tagged r.reqs.length (pmtReqs p body)).map (·.1) := by
    rw [tagged_pids, pmtReqs_pids]; exact hdrop
  rw [(lastFor_none_iff _ q).2 hns]
  simp only
  rw [if_pos ⟨by omega, hq, hns⟩]
  rfl

/-- … a FRESH instance (no PMT applied since the last PAT version) un-routes nothing (F7) -/
theorem pmt_fresh_keeps (r : Route) (p ver : Nat) (body : Bytes) (q : Nat)
    (hfresh : (r.pmt p).streams = []) (hdrop : q ∉ (streamsOf body).map StreamInfo.pid) :
    routeOf (stepRoute r (.pmtApplied p ver body)) q = routeOf r q := by
  unfold routeOf
  rw [stepRoute_pmt_slots, applied_untouched _ _ _ _ (by rw [tagged_pids, pmtReqs_pids]; exact hdrop)
    (by rw [hfresh]; simp)]

/-- the PMT instance on `p` is untouched by every event except a PMT applied on `p` and a PAT
listing `p` -/
theorem pmt_inst_kept (r : Route) (p : Nat) (ev : Event)
    (h1 : ∀ v b, ev ≠ .pmtApplied p v b)
    (h2 : ∀ v es, ev = .patApplied v es → p ∉ es.map PatEntry.pid) :
    (stepRoute r ev).pmt p = r.pmt p := by
  cases ev with
  | patApplied ver es =>
    rw [stepRoute_pat_pmt]
    have : p ∉ (tagged r.reqs.length (patRequests es)).map (·.1) := by
      rw [tagged_pids, patRequests_pids]; exact h2 ver es rfl
    rw [(lastFor_none_iff _ p).2 this]
  | pmtApplied p' ver body =>
    rw [stepRoute_pmt_pmt]
    have : p ≠ p' := fun e => h1 ver body (by rw [e])
    rw [if_neg this]
  | esPacket q =>
    cases hq : r.slots q <;> simp only [stepRoute, hq]
  | repetition q => rfl

theorem pmt_inst_kept_run (p : Nat) : ∀ (evs : List Event) (r : Route),
    (∀ ev ∈ evs, (∀ v b, ev ≠ .pmtApplied p v b) ∧ ∀ v es, ev = .patApplied v es → p ∉ es.map PatEntry.pid) →
    (run r evs).pmt p = r.pmt p := by
  intro evs
  induction evs with
  | nil => intro r _; rfl
  | cons ev evs ih =>
    intro r h
    rw [run_cons, ih _ (fun ev' hm => h ev' (List.mem_cons_of_mem _ hm))]
    exact pmt_inst_kept r p ev (h ev List.mem_cons_self).1 (h ev List.mem_cons_self).2

theorem pat_entries_kept_run : ∀ (evs : List Event) (r : Route),
    (∀ ev ∈ evs, ∀ v es, ev ≠ .patApplied v es) → (run r evs).patEntries = r.patEntries := by
  intro evs
  induction evs with
  | nil => intro r _; rfl
  | cons ev evs ih =>
    intro r h
    rw [run_cons, ih _ (fun ev' hm => h ev' (List.mem_cons_of_mem _ hm))]
    cases ev with
    | patApplied v es => exact absurd rfl (h _ List.mem_cons_self v es)
    | pmtApplied p v b => rfl
    | esPacket q => cases hq : r.slots q <;> simp only [stepRoute, hq]
    | repetition q => rfl

/-- PAT: a PID listed by one version and dropped by the NEXT applied version is un-routed -/
theorem dropped_by_next_pat (r : Route) (mid : List Event) (v1 v2 : Nat) (es1 es2 : List PatEntry) (q : Nat)
    (hmid : ∀ ev ∈ mid, ∀ v es, ev ≠ .patApplied v es)
    (hq : q ∈ es1.map PatEntry.pid) (h13 : q ≤ 0x1fff) (hdrop : q ∉ es2.map PatEntry.pid) :
    routeOf (run r (.patApplied v1 es1 :: mid ++ [.patApplied v2 es2])) q = none := by
  rw [run_append, run_cons _ _ [], show ∀ r' : Route, run r' [] = r' from fun _ => rfl]
  apply pat_drop_step _ _ _ _ _ h13 hdrop
  rw [run_cons, pat_entries_kept_run mid _ hmid]
  exact hq

/-- PMT: a PID listed by one version and dropped by the next version applied on the same
program-map PID `p` is un-routed PROVIDED no PAT version listing `p` was applied in between
(the exact extra hypothesis: the same handler instance applies both versions) -/
theorem dropped_by_same_pmt_instance (r : Route) (mid : List Event) (p v1 v2 : Nat) (b1 b2 : Bytes) (q : Nat)
    (hmid : ∀ ev ∈ mid, (∀ v b, ev ≠ .pmtApplied p v b) ∧
      ∀ v es, ev = .patApplied v es → p ∉ es.map PatEntry.pid)
    (hq : q ∈ (streamsOf b1).map StreamInfo.pid) (h13 : q ≤ 0x1fff)
    (hdrop : q ∉ (streamsOf b2).map StreamInfo.pid) :
    routeOf (run r (.pmtApplied p v1 b1 :: mid ++ [.pmtApplied p v2 b2])) q = none := by
  rw [run_append, run_cons _ _ [], show ∀ r' : Route, run r' [] = r' from fun _ => rfl]
  apply pmt_drop_step _ _ _ _ _ _ h13 hdrop
  rw [run_cons, pmt_inst_kept_run p mid _ hmid, stepRoute_pmt_pmt, if_pos rfl]
  exact hq

end Ts.Lemmas.C05H
