import Ts.Model.Psi
import Ts.Spec.SectionMux
import Ts.Lemmas.BitOps
/-!
# C03 helper lemmas, part 1: the layers of `Psi.consume` as pure (panic-free) functions

`consumePayload` restates the body of `Psi.consume` over (pusi, payload bytes, payload offset).
Each layer (`headerNew`, `bufContinue`, `bufStart`, `procStart`, `procContinue`) is shown equal to
`R.ok` of a closed-form pure function under the buffer invariant `PsiInv`, which is preserved.
-/
namespace Ts.Lemmas.C03
open Ts Ts.Psi Ts.Spec Ts.Spec.SectionMux

/-! ### header fields as arithmetic -/

def hdrLen (b : Bytes) : Nat := (byteD b 1 % 16) * 256 + byteD b 2
def hdrSyn (b : Bytes) : Bool := byteD b 1 / 128 % 2 == 1
def hdrOf (b : Bytes) : Header := ⟨byteD b 0, hdrSyn b, byteD b 1 &&& 0b0100_0000 != 0, hdrLen b⟩

theorem sectionLength_eq (S : Bytes) : sectionLength S = hdrLen S := by
  unfold sectionLength hdrLen
  have e : readBits S 12 12 = readBits S 12 4 * 2^8 + readBits S (12 + 4) 8 := readBits_add S 12 4 8
  have r1 := readBits_sub S 1 4 4 (by omega)
  have r2 := readBits_byte S 2
  simp only [Nat.mul_one] at r1
  rw [e, r1, r2]
  simp

theorem syntaxBit_eq (S : Bytes) : syntaxBit S = byteD S 1 / 128 % 2 := by
  unfold syntaxBit
  have r := readBits_sub S 1 0 1 (by omega)
  simp only [Nat.mul_one, Nat.add_zero] at r
  rw [r]

theorem syntaxBit_iff (S : Bytes) : syntaxBit S = 1 ↔ hdrSyn S = true := by
  rw [syntaxBit_eq]; unfold hdrSyn; simp

theorem hdrLen_lt (b : Bytes) : hdrLen b < 4096 := by
  unfold hdrLen
  have := byteD_lt b 2
  omega

theorem byteD_append_left (a b : Bytes) (i : Nat) (h : i < a.length) : byteD (a ++ b) i = byteD a i := by
  unfold byteD; simp [List.getD_eq_getElem?_getD, List.getElem?_append_left h]

theorem byteD_cons_zero (x : UInt8) (b : Bytes) : byteD (x :: b) 0 = x.toNat := by
  unfold byteD; simp

theorem hdrLen_append (a b : Bytes) (h : 3 ≤ a.length) : hdrLen (a ++ b) = hdrLen a := by
  unfold hdrLen
  rw [byteD_append_left a b 1 (by omega), byteD_append_left a b 2 (by omega)]

theorem hdrSyn_append (a b : Bytes) (h : 3 ≤ a.length) : hdrSyn (a ++ b) = hdrSyn a := by
  unfold hdrSyn
  rw [byteD_append_left a b 1 (by omega)]

theorem hdrLen_take (a : Bytes) (n : Nat) (h : 3 ≤ n) : hdrLen (a.take n) = hdrLen a := by
  unfold hdrLen
  rw [byteD_take a n 1 (by omega), byteD_take a n 2 (by omega)]

theorem hdrSyn_take (a : Bytes) (n : Nat) (h : 3 ≤ n) : hdrSyn (a.take n) = hdrSyn a := by
  unfold hdrSyn
  rw [byteD_take a n 1 (by omega)]

theorem headerNew_eq (d : Bytes) (h : 3 ≤ d.length) : headerNew (d.take 3) = .ok (hdrOf d) := by
  have hl : (d.take 3).length = 3 := by simp; omega
  unfold headerNew
  rw [byteAt_ok _ 0 (by omega), byteAt_ok _ 1 (by omega), byteAt_ok _ 2 (by omega)]
  rw [byteD_take d 3 0 (by omega), byteD_take d 3 1 (by omega), byteD_take d 3 2 (by omega)]
  have b1 := byteD_lt d 1
  have b2 := byteD_lt d 2
  have hm : byteD d 1 % 16 * 2 ^ 8 ||| byteD d 2 = byteD d 1 % 16 * 2 ^ 8 + byteD d 2 :=
    or_eq_add 8 (Nat.dvd_mul_left _ _) b2
  simp only [assertR, hl, COMMON, beq_self_eq_true, if_true, R.ok_bind, R.pure_eq, hdrOf, hdrSyn,
    hdrLen, and_80 _ b1, and_0f _ b1, Nat.shiftLeft_eq, hm]

/-! ### configuration ↔ kind, invariants -/

def cfgOf : Kind → Cfg
  | .syntax => rawSection
  | .compact => rawCompact

def kindOf (cfg : Cfg) : Kind := if cfg.sectionSyntax then .syntax else .compact

/-- the Dedup layer only exists in front of a section-syntax parser -/
def CfgOk (cfg : Cfg) : Prop := cfg.dedup = true → cfg.sectionSyntax = true

theorem kindOf_cfgOf (k : Kind) : kindOf (cfgOf k) = k := by cases k <;> rfl
theorem cfgOk_cfgOf (k : Kind) : CfgOk (cfgOf k) := by cases k <;> simp [CfgOk, cfgOf, rawSection, rawCompact]
theorem cfgOk_table : CfgOk Psi.table := by simp [CfgOk, Psi.table]
theorem kindOf_table : kindOf Psi.table = .syntax := rfl

/-- buffer-layer invariant: while `Buffering n`, something is still owed, the fixed header is
already in the buffer, and the announced section fits 1024 bytes -/
def PsiInv (kind : Kind) (s : St) : Prop :=
  ∀ n, s.remaining = some n → 0 < n ∧ minHeader kind ≤ s.buf.length ∧ s.buf.length + n ≤ 1024

/-- `PsiInv` plus: the number of bytes owed is the one announced by the buffered header -/
def PsiInvFull (kind : Kind) (s : St) : Prop :=
  PsiInv kind s ∧ ∀ n, s.remaining = some n → s.buf.length + n = 3 + hdrLen s.buf

theorem minHeader_ge (k : Kind) : 3 ≤ minHeader k := by cases k <;> simp [minHeader]

theorem psiInv_of_none (kind : Kind) (s : St) (h : s.remaining = none) : PsiInv kind s := by
  intro n hn; rw [h] at hn; cases hn

theorem psiInvFull_of_none (kind : Kind) (s : St) (h : s.remaining = none) : PsiInvFull kind s :=
  ⟨psiInv_of_none kind s h, by intro n hn; rw [h] at hn; cases hn⟩

/-! ### the payload-level restatement of `Psi.consume` -/

def consumePayload (cfg : Cfg) (s : St) (us : Bool) (pkBuf : Bytes) (off : Nat) : R (St × List Delivery) := do
  if us then do
    let pointer ← byteAt pkBuf 0
    let sectionData ← sliceFrom pkBuf 1
    if pointer > 0 && pointer ≥ sectionData.length then
      pure (procReset cfg s, [])
    else do
      let (s1, d1) ← (if pointer > 0 then do
                        let remainder ← sliceTo sectionData pointer
                        procContinue cfg s remainder
                      else pure (s, []))
      let nextSect ← sliceFrom sectionData pointer
      if nextSect.length < COMMON then pure (procReset cfg s1, d1)
      else do
        let hb ← sliceTo nextSect COMMON
        let h ← headerNew hb
        let (s2, d2) ← procStart cfg s1 h nextSect (off + 1 + pointer)
        pure (s2, d1 ++ d2)
  else procContinue cfg s pkBuf

/-! ### buffer layer -/

def bufContSpec (s : St) (data : Bytes) : St × List Delivery :=
  match s.remaining with
  | none => (s, [])
  | some n =>
    if n ≤ data.length then
      ({ s with buf := s.buf ++ data.take n, remaining := none }, [⟨s.buf ++ data.take n, none⟩])
    else ({ s with buf := s.buf ++ data, remaining := some (n - data.length) }, [])

theorem newRemaining_eq (n len : Nat) :
    (if len > n then pure 0 else subR n len : R Nat) = .ok (n - len) := by
  by_cases h : len > n
  · simp [h]; omega
  · have : len ≤ n := by omega
    simp [h, subR, this]

theorem bufContinue_eq (cfg : Cfg) (s : St) (data : Bytes)
    (h : ∀ n, s.remaining = some n → minHeader (kindOf cfg) ≤ s.buf.length) :
    bufContinue cfg s data = .ok (bufContSpec s data) := by
  unfold bufContinue bufContSpec
  cases hr : s.remaining with
  | none => rfl
  | some n =>
    have hb := h n hr
    have h3 := minHeader_ge (kindOf cfg)
    simp only [newRemaining_eq, R.ok_bind]
    by_cases hle : n ≤ data.length
    · have e0 : (n - data.length == 0) = true := by simp; omega
      have hbl : 3 ≤ (s.buf ++ List.take n data).length := by simp; omega
      simp only [e0, if_true, hle, sliceTo_ok data n hle, R.ok_bind, COMMON,
        sliceTo_ok _ 3 hbl, headerNew_eq _ hbl]
      cases hss : cfg.sectionSyntax
      · simp
      · have hk : minHeader (kindOf cfg) = 8 := by simp [kindOf, hss, minHeader]
        have h8 : 8 ≤ (s.buf ++ List.take n data).length := by simp; omega
        have : TSH ≤ (List.drop 3 (s.buf ++ List.take n data)).length := by
          rw [List.length_drop]; simp only [TSH]; omega
        simp only [TSH, List.length_drop, List.length_append, List.length_take] at this
        simp [sliceFrom_ok _ 3 hbl, assertR, this, TSH]
    · have e0 : (n - data.length == 0) = false := by simp; omega
      simp [e0, hle]

theorem bufContSpec_inv (kind : Kind) (s : St) (data : Bytes) (h : PsiInv kind s) :
    PsiInv kind (bufContSpec s data).1 := by
  unfold bufContSpec
  cases hr : s.remaining with
  | none => exact h
  | some n =>
    obtain ⟨h0, h1, h2⟩ := h n hr
    by_cases hle : n ≤ data.length
    · simp only [hle, if_true]; exact psiInv_of_none _ _ rfl
    · simp only [hle, if_false]
      intro m hm
      simp only [Option.some.injEq] at hm
      subst hm
      simp only [List.length_append]
      omega

theorem bufContSpec_invFull (kind : Kind) (s : St) (data : Bytes) (h : PsiInvFull kind s) :
    PsiInvFull kind (bufContSpec s data).1 := by
  refine ⟨bufContSpec_inv kind s data h.1, ?_⟩
  unfold bufContSpec
  cases hr : s.remaining with
  | none => intro n hn; simp only [hr] at hn; cases hn
  | some n =>
    obtain ⟨h0, h1, h2⟩ := h.1 n hr
    have hf := h.2 n hr
    have h3 := minHeader_ge kind
    by_cases hle : n ≤ data.length
    · simp only [hle, if_true]; intro m hm; cases hm
    · simp only [hle, if_false]
      intro m hm
      simp only [Option.some.injEq] at hm
      subst hm
      simp only [List.length_append]
      rw [hdrLen_append _ _ (by omega)]
      omega

/-- every buffered delivery has the announced length -/
theorem bufContSpec_deliveries (kind : Kind) (s : St) (data : Bytes) (h : PsiInvFull kind s) :
    (bufContSpec s data).2.length ≤ 1 ∧
    ∀ d ∈ (bufContSpec s data).2, d.inplace = none ∧ d.bytes.length ≤ 1024
      ∧ d.bytes.length = 3 + hdrLen d.bytes := by
  unfold bufContSpec
  cases hr : s.remaining with
  | none => simp
  | some n =>
    obtain ⟨h0, h1, h2⟩ := h.1 n hr
    have hf := h.2 n hr
    have h3 := minHeader_ge kind
    by_cases hle : n ≤ data.length
    · simp only [hle, if_true, List.length_singleton, Nat.le_refl, List.mem_singleton, true_and]
      intro d hd; subst hd
      simp only [List.length_append, List.length_take, Nat.min_eq_left hle, true_and]
      rw [hdrLen_append _ _ (by omega)]
      omega
    · simp [hle]

/-- count and size bound need only `PsiInv` -/
theorem bufContSpec_deliveries_weak (kind : Kind) (s : St) (data : Bytes) (h : PsiInv kind s) :
    (bufContSpec s data).2.length ≤ 1 ∧
    ∀ d ∈ (bufContSpec s data).2, d.inplace = none ∧ d.bytes.length ≤ 1024 := by
  unfold bufContSpec
  cases hr : s.remaining with
  | none => simp
  | some n =>
    obtain ⟨h0, h1, h2⟩ := h n hr
    by_cases hle : n ≤ data.length
    · simp only [hle, if_true, List.length_singleton, Nat.le_refl, List.mem_singleton, true_and]
      intro d hd; subst hd
      simp only [List.length_append, List.length_take, Nat.min_eq_left hle, true_and]
      omega
    · simp [hle]

/-! ### processor layer: continue -/

def contSpec (cfg : Cfg) (s : St) (data : Bytes) : St × List Delivery :=
  if s.ignoreRest then (s, [])
  else if cfg.dedup && s.dedupIgnore then (s, [])
  else bufContSpec s data

theorem procContinue_eq (cfg : Cfg) (s : St) (data : Bytes) (h : PsiInv (kindOf cfg) s) :
    procContinue cfg s data = .ok (contSpec cfg s data) := by
  unfold procContinue contSpec dedupContinue
  by_cases h1 : s.ignoreRest = true
  · simp [h1]
  · by_cases h2 : (cfg.dedup && s.dedupIgnore) = true
    · simp only [h1, h2, if_true]; simp
    · simp only [h1, h2]
      exact bufContinue_eq cfg s data (fun n hn => (h n hn).2.1)

theorem contSpec_inv (cfg : Cfg) (kind : Kind) (s : St) (data : Bytes) (h : PsiInv kind s) :
    PsiInv kind (contSpec cfg s data).1 := by
  unfold contSpec
  split
  · exact h
  · split
    · exact h
    · exact bufContSpec_inv kind s data h

theorem contSpec_invFull (cfg : Cfg) (kind : Kind) (s : St) (data : Bytes) (h : PsiInvFull kind s) :
    PsiInvFull kind (contSpec cfg s data).1 := by
  unfold contSpec
  split
  · exact h
  · split
    · exact h
    · exact bufContSpec_invFull kind s data h

theorem contSpec_deliveries (cfg : Cfg) (kind : Kind) (s : St) (data : Bytes) (h : PsiInvFull kind s) :
    (contSpec cfg s data).2.length ≤ 1 ∧
    ∀ d ∈ (contSpec cfg s data).2, d.inplace = none ∧ d.bytes.length ≤ 1024
      ∧ d.bytes.length = 3 + hdrLen d.bytes := by
  unfold contSpec
  split
  · simp
  · split
    · simp
    · exact bufContSpec_deliveries kind s data h

theorem contSpec_deliveries_weak (cfg : Cfg) (kind : Kind) (s : St) (data : Bytes) (h : PsiInv kind s) :
    (contSpec cfg s data).2.length ≤ 1 ∧
    ∀ d ∈ (contSpec cfg s data).2, d.inplace = none ∧ d.bytes.length ≤ 1024 := by
  unfold contSpec
  split
  · simp
  · split
    · simp
    · exact bufContSpec_deliveries_weak kind s data h

/-! ### processor layer: start -/

def startOk (cfg : Cfg) (data : Bytes) : Bool :=
  (hdrSyn data == cfg.sectionSyntax) && decide (minHeader (kindOf cfg) ≤ data.length)
    && decide (hdrLen data ≤ 1021)

def bufStartSpec (s : St) (data : Bytes) (off : Nat) : St × List Delivery :=
  if hdrLen data + 3 ≤ data.length then
    ({ s with remaining := none }, [⟨data.take (hdrLen data + 3), some off⟩])
  else ({ s with buf := data, remaining := some (hdrLen data + 3 - data.length) }, [])

def dedupStartSpec (cfg : Cfg) (s : St) (data : Bytes) (off : Nat) : St × List Delivery :=
  if cfg.dedup then
    if s.lastVersion == some ((byteD data 5 >>> 1) &&& 0b0001_1111) then ({ s with dedupIgnore := true }, [])
    else bufStartSpec { s with dedupIgnore := false,
                               lastVersion := some ((byteD data 5 >>> 1) &&& 0b0001_1111) } data off
  else bufStartSpec s data off

def startSpec (cfg : Cfg) (s : St) (data : Bytes) (off : Nat) : St × List Delivery :=
  if startOk cfg data then dedupStartSpec cfg { s with ignoreRest := false } data off
  else ({ s with ignoreRest := true }, [])

theorem bufStart_eq (s : St) (data : Bytes) (off : Nat) :
    bufStart s (hdrOf data) data off = .ok (bufStartSpec s data off) := by
  unfold bufStart bufStartSpec
  simp only [hdrOf, COMMON]
  by_cases hle : hdrLen data + 3 ≤ data.length
  · simp [hle, sliceTo_ok data _ hle]
  · have : data.length ≤ hdrLen data + 3 := by omega
    simp [hle, subR, this]

theorem dedupStart_eq (cfg : Cfg) (s : St) (data : Bytes) (off : Nat)
    (hlen : cfg.dedup = true → 8 ≤ data.length) :
    dedupStart cfg s (hdrOf data) data off = .ok (dedupStartSpec cfg s data off) := by
  unfold dedupStart dedupStartSpec
  cases hd : cfg.dedup
  · simp [bufStart_eq]
  · have h8 := hlen hd
    have h5 : TSH ≤ (List.drop 3 data).length := by rw [List.length_drop]; simp only [TSH]; omega
    have hv : tshVersion (List.drop 3 data) = .ok ((byteD data 5 >>> 1) &&& 0b0001_1111) := by
      unfold tshVersion
      rw [byteAt_ok _ 2 (by rw [List.length_drop]; omega), byteD_drop]
      simp only [TSH, List.length_drop] at h5
      simp [assertR, h5, TSH]
    simp only [if_true, COMMON, sliceFrom_ok data 3 (by omega), R.ok_bind, hv]
    split
    · rfl
    · exact bufStart_eq _ data off

theorem procStart_eq (cfg : Cfg) (hc : CfgOk cfg) (s : St) (data : Bytes) (off : Nat) :
    procStart cfg s (hdrOf data) data off = .ok (startSpec cfg s data off) := by
  unfold procStart startSpec startOk
  cases hss : cfg.sectionSyntax
  · have hd : cfg.dedup = false := by
      cases h : cfg.dedup
      · rfl
      · have := hc h; rw [hss] at this; cases this
    have hk : minHeader (kindOf cfg) = 3 := by simp [kindOf, hss, minHeader]
    simp only [hk, hdrOf, COMMON, SECTION_LIMIT]
    by_cases h1 : hdrSyn data = true
    · simp [h1]
    · simp only [Bool.not_eq_true] at h1
      by_cases h2 : data.length < 3
      · have : ¬ (3 ≤ data.length) := by omega
        simp [h1, h2, this]
      · have h2' : 3 ≤ data.length := by omega
        by_cases h3 : hdrLen data > 1021
        · have : ¬ (hdrLen data ≤ 1021) := by omega
          simp [h1, h2, h3, this]
        · have h3' : hdrLen data ≤ 1021 := by omega
          simp only [h1, Bool.false_eq_true, if_false, h2, h3, h2', h3', beq_self_eq_true, decide_true,
            Bool.and_self, if_true]
          exact dedupStart_eq cfg _ data off (by intro h; rw [hd] at h; cases h)
  · have hk : minHeader (kindOf cfg) = 8 := by simp [kindOf, hss, minHeader]
    simp only [hk, hdrOf, COMMON, TSH, SECTION_LIMIT]
    by_cases h1 : hdrSyn data = true
    case neg => simp only [Bool.not_eq_true] at h1; simp [h1]
    case pos =>
      by_cases h2 : data.length < 3 + 5
      · have : ¬ (8 ≤ data.length) := by omega
        simp [h1, h2, this]
      · have h2' : 8 ≤ data.length := by omega
        by_cases h3 : hdrLen data > 1021
        · have : ¬ (hdrLen data ≤ 1021) := by omega
          simp [h1, h2, h3, this]
        · have h3' : hdrLen data ≤ 1021 := by omega
          have h5 : 5 ≤ (List.drop 3 data).length := by rw [List.length_drop]; omega
          simp only [h1, Bool.not_true, Bool.false_eq_true, if_false, h2, h3, h2', h3', beq_self_eq_true,
            decide_true, Bool.and_self, if_true, sliceFrom_ok data 3 (by omega), R.ok_bind, assertR,
            ge_iff_le, h5]
          exact dedupStart_eq cfg _ data off (fun _ => h2')

end Ts.Lemmas.C03
