import Ts.Props.C12
import Ts.Lemmas.C03c
/-!
# C03 helper lemmas, part 4: from 188-byte packets to payloads (uses the C12 characterisation)
-/
namespace Ts.Lemmas.C03
open Ts Ts.Psi Ts.Packet Ts.Spec Ts.Spec.SectionMux Ts.Props.C12

/-- the payload of a 188-byte packet as `consume` sees it: unit-start flag (bit 9), payload bytes
and payload offset, per the C12 split table; `none` when the packet has no payload -/
def plOf (p : Bytes) : Option Pl :=
  match (splitSpec (hasAf (byteD p 3)) (hasPayload (byteD p 3)) (byteD p 4)).2 with
  | none => none
  | some r => some ⟨readBits p 9 1 == 1, rangeBytes p r, r.1⟩

theorem consume_eq_payload (cfg : Cfg) (s : St) (p : Bytes) (h : p.length = 188) :
    Psi.consume cfg s p =
      match (splitSpec (hasAf (byteD p 3)) (hasPayload (byteD p 3)) (byteD p 4)).2 with
      | none => .ok (s, [])
      | some r => consumePayload cfg s (readBits p 9 1 == 1) (rangeBytes p r) r.1 := by
  unfold Psi.consume
  rw [payload_exact p h]
  simp only [R.ok_bind]
  cases (splitSpec (hasAf (byteD p 3)) (hasPayload (byteD p 3)) (byteD p 4)).2 with
  | none => rfl
  | some r =>
    simp only [pusi_exact p h, R.ok_bind]
    rfl

theorem consume_eq_plOf (cfg : Cfg) (s : St) (p : Bytes) (h : p.length = 188) :
    Psi.consume cfg s p =
      match plOf p with
      | none => .ok (s, [])
      | some q => consumePayload cfg s q.us q.bytes q.off := by
  rw [consume_eq_payload cfg s p h]
  unfold plOf
  cases (splitSpec (hasAf (byteD p 3)) (hasPayload (byteD p 3)) (byteD p 4)).2 <;> rfl

theorem plOf_size (p : Bytes) (h : p.length = 188) (q : Pl) (hq : plOf p = some q) :
    1 ≤ q.bytes.length ∧ q.bytes.length ≤ 184 ∧ q.off + q.bytes.length = 188 ∧ 4 ≤ q.off := by
  unfold plOf at hq
  have hs := (split_sound (hasAf (byteD p 3)) (hasPayload (byteD p 3)) (byteD p 4)).2.1
  cases hr : (splitSpec (hasAf (byteD p 3)) (hasPayload (byteD p 3)) (byteD p 4)).2 with
  | none => rw [hr] at hq; cases hq
  | some r =>
    rw [hr] at hq
    simp only [Option.some.injEq] at hq
    subst hq
    obtain ⟨h1, h2, h3⟩ := hs r hr
    have hl : (rangeBytes p r).length = r.2 := by
      unfold rangeBytes; simp; omega
    simp only [hl]
    omega

/-- concatenate the per-packet delivery lists of `Psi.run` -/
def flatR : R (St × List (List Delivery)) → R (St × List Delivery)
  | .ok (s, ds) => .ok (s, ds.flatten)
  | .panic m => .panic m

/-- running the model over 188-byte packets = running it over their payloads -/
theorem run_flat (cfg : Cfg) (ps : List Bytes) : ∀ (s : St), (∀ p ∈ ps, p.length = 188) →
    flatR (Psi.run cfg s ps) = runPl cfg s (ps.filterMap plOf) := by
  induction ps with
  | nil => intro s _; rfl
  | cons p ps ih =>
    intro s hl
    have hp := consume_eq_plOf cfg s p (hl p (List.mem_cons_self ..))
    have ih' := fun s1 => ih s1 (fun p' hp' => hl p' (List.mem_cons_of_mem _ hp'))
    cases hpl : plOf p with
    | none =>
      rw [hpl] at hp
      simp only [Psi.run, hp, R.ok_bind, List.filterMap_cons, hpl]
      rw [← ih' s]
      cases Psi.run cfg s ps with
      | ok x => obtain ⟨s2, d2⟩ := x; rfl
      | panic m => rfl
    | some q =>
      rw [hpl] at hp
      simp only [Psi.run, hp, List.filterMap_cons, hpl, runPl]
      cases consumePayload cfg s q.us q.bytes q.off with
      | panic m => rfl
      | ok x =>
        obtain ⟨s1, d1⟩ := x
        simp only [R.ok_bind]
        rw [← ih' s1]
        cases Psi.run cfg s1 ps with
        | ok x => obtain ⟨s2, d2⟩ := x; rfl
        | panic m => rfl

end Ts.Lemmas.C03
