import Ts.Lemmas.C19
/-!
# C19 helper lemmas, part 2: the state retained between packets is bounded for EVERY input

`Bounded t`: the filter table has at most 8192 slots and every PAT/PMT handler's reassembly
buffer satisfies the C03 buffer invariant and holds at most 1024 bytes.  It holds initially and is
preserved by every dispatcher step on a framed packet (188 bytes, 13-bit PID), whatever the bytes:
every PID a handler queues a change for went through `Pid::new` (`pidNew`), and freshly
constructed handlers start with an empty buffer.
-/
namespace Ts.Lemmas.C19
open Ts Ts.Demux

/-- `R` is a lawful monad (used only to unfold `List.mapM`) -/
local instance : LawfulMonad R := LawfulMonad.mk' (m := R)
  (id_map := by intro α x; cases x <;> rfl)
  (pure_bind := by intros; rfl)
  (bind_assoc := by intro α β γ x f g; cases x <;> rfl)

/-! ### the PSI reassembly buffer never exceeds 1024 bytes -/

/-- C03 buffer invariant plus the absolute size bound (also while `Complete`) -/
def PsiBnd (s : Psi.St) : Prop := C03.PsiInv .syntax s ∧ s.buf.length ≤ 1024

theorem psiBnd_init : PsiBnd {} := ⟨C03.psiInv_of_none _ _ rfl, by decide⟩

theorem bufContSpec_bufLe (kind : Spec.SectionMux.Kind) (s : Psi.St) (data : Bytes)
    (h : C03.PsiInv kind s) (hb : s.buf.length ≤ 1024) :
    (C03.bufContSpec s data).1.buf.length ≤ 1024 := by
  unfold C03.bufContSpec
  cases hr : s.remaining with
  | none => exact hb
  | some n =>
    obtain ⟨h0, h1, h2⟩ := h n hr
    by_cases hle : n ≤ data.length
    · simp only [hle, if_true, List.length_append, List.length_take]; omega
    · simp only [hle, if_false, List.length_append]; omega

theorem contSpec_bufLe (cfg : Psi.Cfg) (kind : Spec.SectionMux.Kind) (s : Psi.St) (data : Bytes)
    (h : C03.PsiInv kind s) (hb : s.buf.length ≤ 1024) :
    (C03.contSpec cfg s data).1.buf.length ≤ 1024 := by
  unfold C03.contSpec
  split
  · exact hb
  · split
    · exact hb
    · exact bufContSpec_bufLe kind s data h hb

theorem bufStartSpec_bufLe (s : Psi.St) (data : Bytes) (off : Nat) (hb : s.buf.length ≤ 1024)
    (h2 : C03.hdrLen data ≤ 1021) : (C03.bufStartSpec s data off).1.buf.length ≤ 1024 := by
  unfold C03.bufStartSpec
  split
  · exact hb
  · show data.length ≤ 1024
    omega

theorem startSpec_bufLe (cfg : Psi.Cfg) (s : Psi.St) (data : Bytes) (off : Nat)
    (hb : s.buf.length ≤ 1024) : (C03.startSpec cfg s data off).1.buf.length ≤ 1024 := by
  unfold C03.startSpec
  by_cases hok : C03.startOk cfg data = true
  · obtain ⟨_, _, h2⟩ := (C03.startOk_iff cfg data).1 hok
    simp only [hok, if_true]
    unfold C03.dedupStartSpec
    split
    · split
      · exact hb
      · exact bufStartSpec_bufLe _ data off hb h2
    · exact bufStartSpec_bufLe _ data off hb h2
  · simp only [hok]
    exact hb

theorem procReset_buf (cfg : Psi.Cfg) (s : Psi.St) : (Psi.procReset cfg s).buf = [] := by
  unfold Psi.procReset Psi.dedupReset Psi.bufReset; split <;> rfl

theorem consumeSpec_bufLe (cfg : Psi.Cfg) (s : Psi.St) (us : Bool) (pk : Bytes) (off : Nat)
    (h : C03.PsiInv (C03.kindOf cfg) s) (hb : s.buf.length ≤ 1024) :
    (C03.consumeSpec cfg s us pk off).1.buf.length ≤ 1024 := by
  unfold C03.consumeSpec
  cases us
  · simp only [Bool.false_eq_true, if_false]
    exact contSpec_bufLe cfg _ s pk h hb
  · simp only [if_true]
    split
    · rw [procReset_buf]; simp
    · have hr1 : (if 0 < byteD pk 0 then C03.contSpec cfg s ((pk.drop 1).take (byteD pk 0))
          else (s, [])).1.buf.length ≤ 1024 := by
        split
        · exact contSpec_bufLe cfg _ s _ h hb
        · exact hb
      split
      · rw [procReset_buf]; simp
      · exact startSpec_bufLe cfg _ _ _ hr1

/-- `SectionPacketConsumer::consume` of the PAT/PMT chain keeps the buffer bounded, for EVERY
188-byte packet -/
theorem psi_consume_bnd (s s' : Psi.St) (ds : List Psi.Delivery) (p : Bytes) (hs : PsiBnd s)
    (hp : p.length = 188) (h : Psi.consume Psi.table s p = .ok (s', ds)) : PsiBnd s' := by
  rw [C03.consume_eq_plOf Psi.table s p hp] at h
  cases hq : C03.plOf p with
  | none =>
    rw [hq] at h
    have := R.ok_inj h
    simp only [Prod.mk.injEq] at this
    rw [← this.1]; exact hs
  | some q =>
    rw [hq] at h
    have hsz := C03.plOf_size p hp q hq
    change C03.consumePayload Psi.table s q.us q.bytes q.off = _ at h
    rw [C03.consumePayload_eq Psi.table C03.cfgOk_table s q.us q.bytes q.off hsz.1 hs.1] at h
    have := R.ok_inj h
    have e : s' = (C03.consumeSpec Psi.table s q.us q.bytes q.off).1 := by rw [this]
    rw [e]
    exact ⟨C03.consumeSpec_inv Psi.table s _ _ _ hs.1, consumeSpec_bufLe Psi.table s _ _ _ hs.1 hs.2⟩

/-! ### handlers, tables, changes -/

/-- the section-reassembly state of a PAT / PMT handler -/
def psiOf : App.Handler → Option Psi.St
  | .pat s _ => some s
  | .pmt _ _ s _ => some s
  | _ => none

def HOk (h : App.Handler) : Prop := ∀ s, psiOf h = some s → PsiBnd s

/-- THE INVARIANT: at most 8192 slots; every PSI handler's buffer bounded -/
def Bounded (t : Tab App.Handler) : Prop :=
  t.length ≤ 8192 ∧ ∀ p h, t.get p = some h → HOk h

def ChgOk (ch : Change App.Handler) : Prop := ch.pid < 8192 ∧ ∀ h, ch.val = some h → HOk h

def opPid : App.ScriptOp → Nat
  | .ins p => p
  | .rem p => p

/-- recorder scripts (test-harness input, not stream data) only name 13-bit PIDs -/
def ScriptOk (cfg : App.Cfg) : Prop :=
  ∀ k ops, (k, ops) ∈ cfg.script → ∀ op ∈ ops, opPid op < 8192

theorem hok_of_none (h : App.Handler) (hn : psiOf h = none) : HOk h := by
  intro s hs; rw [hn] at hs; cases hs

theorem bounded_insert (t : Tab App.Handler) (p : Nat) (h : App.Handler) (ht : Bounded t)
    (hp : p < 8192) (hh : HOk h) : Bounded (t.insert p h) := by
  refine ⟨by rw [Tab.length_insert]; have := ht.1; omega, ?_⟩
  intro q h' hg
  rw [Tab.get_insert] at hg
  split at hg
  · injection hg with hg; subst hg; exact hh
  · exact ht.2 q h' hg

theorem bounded_remove (t : Tab App.Handler) (p : Nat) (ht : Bounded t) : Bounded (t.remove p) := by
  refine ⟨by rw [Tab.length_remove]; exact ht.1, ?_⟩
  intro q h' hg
  rw [Tab.get_remove] at hg
  split at hg
  · cases hg
  · exact ht.2 q h' hg

theorem bounded_applyChange (t : Tab App.Handler) (ch : Change App.Handler) (ht : Bounded t)
    (hc : ChgOk ch) : Bounded (applyChange t ch) := by
  cases ch with
  | insert p h => exact bounded_insert t p h ht hc.1 (hc.2 h rfl)
  | remove p => exact bounded_remove t p ht

theorem bounded_applyChanges (cs : List (Change App.Handler)) : ∀ (t : Tab App.Handler),
    Bounded t → (∀ ch ∈ cs, ChgOk ch) → Bounded (applyChanges t cs) := by
  induction cs with
  | nil => intro t ht _; exact ht
  | cons a cs ih =>
    intro t ht hc
    rw [applyChanges_cons]
    exact ih _ (bounded_applyChange t a ht (hc a List.mem_cons_self))
      (fun ch hch => hc ch (List.mem_cons_of_mem _ hch))

/-! ### the application's handlers -/

theorem construct_psi (c : App.Ctx) (req : App.Req) :
    psiOf (App.construct c req).1 = none ∨ psiOf (App.construct c req).1 = some {} := by
  unfold App.construct
  simp only []
  split
  · exact Or.inr rfl
  · exact Or.inl rfl
  · exact Or.inr rfl
  · exact Or.inl rfl
  · split
    · exact Or.inl rfl
    · exact Or.inl rfl

theorem construct_hok (c : App.Ctx) (req : App.Req) : HOk (App.construct c req).1 := by
  rcases construct_psi c req with h | h
  · exact hok_of_none _ h
  · intro s hs; rw [h] at hs; injection hs with hs; subst hs; exact psiBnd_init

theorem construct_cfg (c : App.Ctx) (req : App.Req) : (App.construct c req).2.cfg = c.cfg := by
  unfold App.construct
  simp only []
  split
  · rfl
  · rfl
  · rfl
  · rfl
  · split <;> rfl

theorem construct_nextTag (c : App.Ctx) (req : App.Req) :
    (App.construct c req).2.nextTag = c.nextTag + 1 := by
  unfold App.construct
  simp only []
  split
  · rfl
  · rfl
  · rfl
  · rfl
  · split <;> rfl

/-- the fold with which `new_table` requests one handler per table entry -/
theorem foldl_construct {α : Type} (req : α → App.Req) (pidOf : α → Nat)
    (g : App.Ctx × List (Change App.Handler) → α → App.Ctx × List (Change App.Handler))
    (hg : ∀ acc e, g acc e = ((App.construct acc.1 (req e)).2,
      acc.2 ++ [Change.insert (pidOf e) (App.construct acc.1 (req e)).1])) :
    ∀ (es : List α) (acc : App.Ctx × List (Change App.Handler)),
      (es.foldl g acc).1.cfg = acc.1.cfg ∧
      ∀ ch ∈ (es.foldl g acc).2, ch ∈ acc.2 ∨
        ∃ e ∈ es, ∃ c0, ch = Change.insert (pidOf e) (App.construct c0 (req e)).1 := by
  intro es
  induction es with
  | nil => intro acc; exact ⟨rfl, fun ch h => Or.inl h⟩
  | cons e es ih =>
    intro acc
    rw [List.foldl_cons]
    obtain ⟨h1, h2⟩ := ih (g acc e)
    refine ⟨by rw [h1, hg]; exact construct_cfg _ _, ?_⟩
    intro ch hch
    rcases h2 ch hch with h | ⟨e', he', c0, hc0⟩
    · rw [hg] at h
      simp only [List.mem_append, List.mem_singleton] at h
      rcases h with h | h
      · exact Or.inl h
      · exact Or.inr ⟨e, List.mem_cons_self, acc.1, h⟩
    · exact Or.inr ⟨e', List.mem_cons_of_mem _ he', c0, hc0⟩

theorem pidNew_ok (v q : Nat) (h : Tables.pidNew v = .ok q) : q = v ∧ v ≤ 0x1fff := by
  unfold Tables.pidNew assertR at h
  split at h
  · rename_i hv
    exact ⟨(R.ok_inj h).symm, by simpa using hv⟩
  · cases h

theorem mapM_remove_ok : ∀ (l : List Nat) (r : List (Change App.Handler)),
    l.mapM (fun p => do let q ← Tables.pidNew p; pure (Change.remove (H := App.Handler) q)) = .ok r →
    ∀ ch ∈ r, ChgOk ch := by
  intro l
  induction l with
  | nil =>
    intro r h
    rw [List.mapM_nil] at h
    have := R.ok_inj h
    subst this
    simp
  | cons a l ih =>
    intro r h
    rw [List.mapM_cons] at h
    obtain ⟨x, hx, h⟩ := R.bind_eq_ok h
    obtain ⟨xs, hxs, h⟩ := R.bind_eq_ok h
    have := R.ok_inj h
    subst this
    obtain ⟨q, hq, hx⟩ := R.bind_eq_ok hx
    have := R.ok_inj hx
    subst this
    obtain ⟨e, hle⟩ := pidNew_ok _ _ hq
    intro ch hch
    rcases List.mem_cons.1 hch with e' | e'
    · subst e'
      refine ⟨?_, ?_⟩
      · show q < 8192
        omega
      · intro h hv; cases hv
    · exact ih xs hxs ch e'

theorem patEntry_pid (d : Bytes) (e : Tables.PatEntry) (h : Tables.patEntryFromBytes d = .ok e) :
    e.pid ≤ 0x1fff := by
  unfold Tables.patEntryFromBytes at h
  obtain ⟨d0, _, h⟩ := R.bind_eq_ok h
  obtain ⟨d1, _, h⟩ := R.bind_eq_ok h
  dsimp only at h
  obtain ⟨d2, _, h⟩ := R.bind_eq_ok h
  obtain ⟨d3, _, h⟩ := R.bind_eq_ok h
  obtain ⟨pid, hpid, h⟩ := R.bind_eq_ok h
  obtain ⟨e1, e2⟩ := pidNew_ok _ _ hpid
  split at h
  · have := R.ok_inj h; subst this; simp only [Tables.PatEntry.pid]; omega
  · have := R.ok_inj h; subst this; simp only [Tables.PatEntry.pid]; omega

theorem patPrograms_pid : ∀ (fuel : Nat) (buf : Bytes) (es : List Tables.PatEntry),
    Tables.patPrograms fuel buf = .ok es → ∀ e ∈ es, e.pid ≤ 0x1fff := by
  intro fuel
  induction fuel with
  | zero =>
    intro buf es h
    have := R.ok_inj h; subst this; simp
  | succ fuel ih =>
    intro buf es h
    unfold Tables.patPrograms at h
    split at h
    · have := R.ok_inj h; subst this; simp
    · split at h
      · have := R.ok_inj h; subst this; simp
      · obtain ⟨e, he, h⟩ := R.bind_eq_ok h
        obtain ⟨rest, hrest, h⟩ := R.bind_eq_ok h
        have := R.ok_inj h; subst this
        intro e' he'
        rcases List.mem_cons.1 he' with x | x
        · subst x; exact patEntry_pid _ _ he
        · exact ih _ _ hrest e' x

theorem streamInfo_pid (d : Bytes) (si : Tables.StreamInfo) (n : Nat)
    (h : Tables.streamInfoFromBytes d = .ok (some (si, n))) : si.pid ≤ 0x1fff := by
  unfold Tables.streamInfoFromBytes at h
  split at h
  · cases h
  · obtain ⟨d3, _, h⟩ := R.bind_eq_ok h
    obtain ⟨d4, _, h⟩ := R.bind_eq_ok h
    dsimp only at h
    split at h
    · cases h
    · obtain ⟨st, _, h⟩ := R.bind_eq_ok h
      obtain ⟨d1, _, h⟩ := R.bind_eq_ok h
      obtain ⟨d2, _, h⟩ := R.bind_eq_ok h
      obtain ⟨pid, hpid, h⟩ := R.bind_eq_ok h
      obtain ⟨db, _, h⟩ := R.bind_eq_ok h
      obtain ⟨e1, e2⟩ := pidNew_ok _ _ hpid
      have := R.ok_inj h
      simp only [Option.some.injEq, Prod.mk.injEq] at this
      rw [← this.1]
      show pid ≤ 0x1fff
      omega

theorem streamIter_pid : ∀ (fuel : Nat) (buf : Bytes) (ss : List Tables.StreamInfo),
    Tables.streamIter fuel buf = .ok ss → ∀ s ∈ ss, s.pid ≤ 0x1fff := by
  intro fuel
  induction fuel with
  | zero =>
    intro buf ss h
    have := R.ok_inj h; subst this; simp
  | succ fuel ih =>
    intro buf ss h
    unfold Tables.streamIter at h
    split at h
    · have := R.ok_inj h; subst this; simp
    · obtain ⟨r, hr, h⟩ := R.bind_eq_ok h
      cases r with
      | none => have := R.ok_inj h; subst this; simp
      | some x =>
        obtain ⟨si, n⟩ := x
        simp only [] at h
        obtain ⟨rest0, _, h⟩ := R.bind_eq_ok h
        obtain ⟨rest, hrest, h⟩ := R.bind_eq_ok h
        have := R.ok_inj h; subst this
        intro s hs
        rcases List.mem_cons.1 hs with x | x
        · subst x; exact streamInfo_pid _ _ _ hr
        · exact ih _ _ hrest s x

theorem pmtStreams_pid (data : Bytes) (ss : List Tables.StreamInfo)
    (h : Tables.pmtStreams data = .ok ss) : ∀ s ∈ ss, s.pid ≤ 0x1fff := by
  unfold Tables.pmtStreams at h
  obtain ⟨pil, _, h⟩ := R.bind_eq_ok h
  dsimp only at h
  split at h
  · obtain ⟨e, _, h⟩ := R.bind_eq_ok h
    exact streamIter_pid _ _ _ h
  · obtain ⟨r, _, h⟩ := R.bind_eq_ok h
    exact streamIter_pid _ _ _ h

theorem chgOk_of_fold {α : Type} (req : α → App.Req) (pidOf : α → Nat) (es : List α)
    (hp : ∀ e ∈ es, pidOf e ≤ 0x1fff) (ch : Change App.Handler)
    (h : ch ∈ ([] : List (Change App.Handler)) ∨
      ∃ e ∈ es, ∃ c0, ch = Change.insert (pidOf e) (App.construct c0 (req e)).1) : ChgOk ch := by
  rcases h with h | ⟨e, he, c0, hc⟩
  · cases h
  · subst hc
    refine ⟨?_, ?_⟩
    · show pidOf e < 8192
      have := hp e he; omega
    · intro h hv
      injection hv with hv
      subst hv
      exact construct_hok _ _

theorem patSection_ok (c : App.Ctx) (reg : List Nat) (data : Bytes) (c' : App.Ctx) (reg' : List Nat)
    (chg : List (Change App.Handler)) (h : App.patSection c reg data = .ok (c', reg', chg)) :
    c'.cfg = c.cfg ∧ ∀ ch ∈ chg, ChgOk ch := by
  unfold App.patSection at h
  dsimp only at h
  obtain ⟨end_, _, h⟩ := R.bind_eq_ok h
  obtain ⟨body, _, h⟩ := R.bind_eq_ok h
  obtain ⟨tid, _, h⟩ := R.bind_eq_ok h
  split at h
  · have := R.ok_inj h
    simp only [Prod.mk.injEq] at this
    obtain ⟨e1, _, e3⟩ := this
    subst e1 e3
    exact ⟨rfl, by simp⟩
  · obtain ⟨entries, hent, h⟩ := R.bind_eq_ok h
    obtain ⟨rem, hrem, h⟩ := R.bind_eq_ok h
    have := R.ok_inj h
    simp only [Prod.mk.injEq] at this
    obtain ⟨e1, _, e3⟩ := this
    have hf := foldl_construct
      (fun e : Tables.PatEntry => match e with
        | .program pn pid => App.Req.pmt pid pn
        | .network pid => App.Req.nit pid) Tables.PatEntry.pid _ (fun _ _ => rfl) entries (c, [])
    have hp := patPrograms_pid _ _ _ hent
    refine ⟨by rw [← e1]; exact hf.1, ?_⟩
    intro ch hch
    rw [← e3] at hch
    rcases List.mem_append.1 hch with h1 | h1
    · exact chgOk_of_fold _ _ entries hp ch (hf.2 ch h1)
    · exact mapM_remove_ok _ _ hrem ch h1

theorem pmtSection_ok (c : App.Ctx) (pmtPid : Nat) (reg : List Nat) (data : Bytes) (c' : App.Ctx)
    (reg' : List Nat) (chg : List (Change App.Handler))
    (h : App.pmtSection c pmtPid reg data = .ok (c', reg', chg)) :
    c'.cfg = c.cfg ∧ ∀ ch ∈ chg, ChgOk ch := by
  unfold App.pmtSection at h
  dsimp only at h
  obtain ⟨end_, _, h⟩ := R.bind_eq_ok h
  obtain ⟨body, _, h⟩ := R.bind_eq_ok h
  obtain ⟨r, _, h⟩ := R.bind_eq_ok h
  have triv : ∀ {x : App.Ctx × List Nat × List (Change App.Handler)},
      x = (c, reg, []) → R.ok x = R.ok (c', reg', chg) → c'.cfg = c.cfg ∧ ∀ ch ∈ chg, ChgOk ch := by
    intro x hx h
    subst hx
    have := R.ok_inj h
    simp only [Prod.mk.injEq] at this
    obtain ⟨e1, _, e3⟩ := this
    subst e1 e3
    exact ⟨rfl, by simp⟩
  cases r with
  | none => exact triv rfl h
  | some sect =>
    dsimp only at h
    obtain ⟨tid, _, h⟩ := R.bind_eq_ok h
    split at h
    · exact triv rfl h
    · obtain ⟨streams, hst, h⟩ := R.bind_eq_ok h
      obtain ⟨pcr, _, h⟩ := R.bind_eq_ok h
      obtain ⟨progDesc, _, h⟩ := R.bind_eq_ok h
      have hp := pmtStreams_pid _ _ hst
      split at h
      case' isTrue => obtain ⟨_, _, h⟩ := R.bind_eq_ok h
      all_goals (
        obtain ⟨rem, hrem, h⟩ := R.bind_eq_ok h
        have := R.ok_inj h
        simp only [Prod.mk.injEq] at this
        obtain ⟨e1, _, e3⟩ := this
        have hf := foldl_construct
          (fun s : Tables.StreamInfo => App.Req.stream pmtPid s.streamType s.pid pcr s.descBytes progDesc)
          Tables.StreamInfo.pid _ (fun _ _ => rfl) streams (c, [])
        refine ⟨by rw [← e1]; exact hf.1, ?_⟩
        intro ch hch
        rw [← e3] at hch
        rcases List.mem_append.1 hch with h1 | h1
        · exact chgOk_of_fold _ _ streams hp ch (hf.2 ch h1)
        · exact mapM_remove_ok _ _ hrem ch h1)

theorem runDeliveries_ok (sect : App.Ctx → List Nat → Bytes → R (App.Ctx × List Nat × List (Change App.Handler)))
    (hsect : ∀ c reg d c' reg' chg, sect c reg d = .ok (c', reg', chg) →
      c'.cfg = c.cfg ∧ ∀ ch ∈ chg, ChgOk ch) :
    ∀ (ds : List Psi.Delivery) (c : App.Ctx) (reg : List Nat) (c' : App.Ctx) (reg' : List Nat)
      (chg : List (Change App.Handler)),
      App.runDeliveries sect c reg ds = .ok (c', reg', chg) →
      c'.cfg = c.cfg ∧ ∀ ch ∈ chg, ChgOk ch := by
  intro ds
  induction ds with
  | nil =>
    intro c reg c' reg' chg h
    have := R.ok_inj h
    simp only [Prod.mk.injEq] at this
    obtain ⟨e1, _, e3⟩ := this
    subst e1 e3
    exact ⟨rfl, by simp⟩
  | cons d ds ih =>
    intro c reg c' reg' chg h
    unfold App.runDeliveries at h
    obtain ⟨b, _, h⟩ := R.bind_eq_ok h
    split at h
    · obtain ⟨r1, h1, h⟩ := R.bind_eq_ok h
      obtain ⟨c1, reg1, chg1⟩ := r1
      dsimp only at h
      obtain ⟨r2, h2, h⟩ := R.bind_eq_ok h
      obtain ⟨c2, reg2, chg2⟩ := r2
      have := R.ok_inj h
      simp only [Prod.mk.injEq] at this
      obtain ⟨e1, _, e3⟩ := this
      subst e1 e3
      obtain ⟨a1, a2⟩ := hsect _ _ _ _ _ _ h1
      obtain ⟨b1, b2⟩ := ih _ _ _ _ _ h2
      refine ⟨by rw [b1, a1], ?_⟩
      intro ch hch
      rcases List.mem_append.1 hch with x | x
      · exact a2 ch x
      · exact b2 ch x
    · exact ih _ _ _ _ _ h

theorem mem_of_lookup {α : Type} (k : Nat) : ∀ (l : List (Nat × α)) (v : α),
    l.lookup k = some v → (k, v) ∈ l := by
  intro l
  induction l with
  | nil => intro v h; cases h
  | cons a l ih =>
    intro v h
    obtain ⟨k', v'⟩ := a
    rw [List.lookup_cons] at h
    split at h
    · rename_i heq
      injection h with h
      subst h
      have : k = k' := by simpa using heq
      subst this
      exact List.mem_cons_self
    · exact List.mem_cons_of_mem _ (ih v h)

theorem scriptChanges_ok : ∀ (ops : List App.ScriptOp) (c : App.Ctx), (∀ op ∈ ops, opPid op < 8192) →
    (App.scriptChanges c ops).1.cfg = c.cfg ∧ ∀ ch ∈ (App.scriptChanges c ops).2, ChgOk ch := by
  intro ops
  induction ops with
  | nil => intro c _; exact ⟨rfl, by simp [App.scriptChanges]⟩
  | cons op ops ih =>
    intro c hop
    have hrest := fun o ho => hop o (List.mem_cons_of_mem _ ho)
    have h0 := hop op List.mem_cons_self
    cases op with
    | ins pid =>
      obtain ⟨a1, a2⟩ := ih ({ c with nextTag := c.nextTag + 1 }.emit (.scriptIns pid c.nextTag)) hrest
      simp only [App.scriptChanges]
      refine ⟨a1, ?_⟩
      intro ch hch
      rcases List.mem_cons.1 hch with x | x
      · subst x
        exact ⟨h0, fun h hv => by injection hv with hv; subst hv; exact hok_of_none _ rfl⟩
      · exact a2 ch x
    | rem pid =>
      obtain ⟨a1, a2⟩ := ih (c.emit (.scriptRem pid)) hrest
      simp only [App.scriptChanges]
      refine ⟨a1, ?_⟩
      intro ch hch
      rcases List.mem_cons.1 hch with x | x
      · subst x
        exact ⟨h0, fun h hv => by cases hv⟩
      · exact a2 ch x

/-- one `consume` of any application handler on a 188-byte packet: the handler stays well-formed,
the configuration is untouched, every queued change names a 13-bit PID and inserts a well-formed
handler -/
theorem app_consume_ok (h : App.Handler) (c : App.Ctx) (pk : Pk) (h' : App.Handler) (c' : App.Ctx)
    (chg : List (Change App.Handler)) (hh : HOk h) (hlen : pk.bytes.length = 188)
    (hsc : ScriptOk c.cfg) (hc : App.consume h c pk = .ok (h', c', chg)) :
    HOk h' ∧ c'.cfg = c.cfg ∧ ∀ ch ∈ chg, ChgOk ch := by
  cases h with
  | pat s reg =>
    unfold App.consume at hc
    dsimp only at hc
    obtain ⟨r1, h1, hc⟩ := R.bind_eq_ok hc
    obtain ⟨s', ds⟩ := r1
    dsimp only at hc
    obtain ⟨r2, h2, hc⟩ := R.bind_eq_ok hc
    obtain ⟨c2, reg2, chg2⟩ := r2
    have := R.ok_inj hc
    simp only [Prod.mk.injEq] at this
    obtain ⟨e1, e2, e3⟩ := this
    subst e1 e2 e3
    obtain ⟨a1, a2⟩ := runDeliveries_ok _ patSection_ok _ _ _ _ _ _ h2
    refine ⟨?_, a1, a2⟩
    intro s0 hs0
    injection hs0 with hs0
    subst hs0
    exact psi_consume_bnd s _ ds pk.bytes (hh s rfl) hlen h1
  | pmt pid prog s reg =>
    unfold App.consume at hc
    dsimp only at hc
    obtain ⟨r1, h1, hc⟩ := R.bind_eq_ok hc
    obtain ⟨s', ds⟩ := r1
    dsimp only at hc
    obtain ⟨r2, h2, hc⟩ := R.bind_eq_ok hc
    obtain ⟨c2, reg2, chg2⟩ := r2
    have := R.ok_inj hc
    simp only [Prod.mk.injEq] at this
    obtain ⟨e1, e2, e3⟩ := this
    subst e1 e2 e3
    obtain ⟨a1, a2⟩ := runDeliveries_ok _ (fun c r d => pmtSection_ok c pid r d) _ _ _ _ _ _ h2
    refine ⟨?_, a1, a2⟩
    intro s0 hs0
    injection hs0 with hs0
    subst hs0
    exact psi_consume_bnd s _ ds pk.bytes (hh s rfl) hlen h1
  | pes tag f =>
    obtain ⟨out, f', e1, e2, _, _, _, e6⟩ := pes_consume_events tag f c pk h' c' chg hlen hc
    subst e1 e2
    exact ⟨hok_of_none _ rfl, e6, by simp⟩
  | recorder tag =>
    unfold App.consume at hc
    dsimp only at hc
    have key : (match c.cfg.script.lookup (pk.off / 188) with
        | some ops => pure (App.Handler.recorder tag, (App.scriptChanges (c.emit (.pkt tag pk.off)) ops).1,
            (App.scriptChanges (c.emit (.pkt tag pk.off)) ops).2)
        | none => pure (App.Handler.recorder tag, c.emit (.pkt tag pk.off), [])) = R.ok (h', c', chg) := by
      split at hc
      · obtain ⟨_, _, hc⟩ := R.bind_eq_ok hc
        exact hc
      · exact hc
    clear hc
    cases hl : c.cfg.script.lookup (pk.off / 188) with
    | none =>
      rw [hl] at key
      have := R.ok_inj key
      simp only [Prod.mk.injEq] at this
      obtain ⟨e1, e2, e3⟩ := this
      subst e1 e2 e3
      exact ⟨hok_of_none _ rfl, rfl, by simp⟩
    | some ops =>
      rw [hl] at key
      have := R.ok_inj key
      simp only [Prod.mk.injEq] at this
      obtain ⟨e1, e2, e3⟩ := this
      subst e1 e2 e3
      have hops := hsc _ _ (mem_of_lookup _ _ _ hl)
      obtain ⟨a1, a2⟩ := scriptChanges_ok ops (c.emit (.pkt tag pk.off)) hops
      exact ⟨hok_of_none _ rfl, a1, a2⟩

/-- what framing guarantees about a packet -/
def PkOk (pk : Pk) : Prop := pk.bytes.length = 188 ∧ pk.pid < 8192

/-- the dispatcher-level invariant -/
def Inv (tc : Tab App.Handler × App.Ctx) : Prop := Bounded tc.1 ∧ ScriptOk tc.2.cfg

theorem ensure_inv (t : Tab App.Handler) (c : App.Ctx) (pid : Nat) (t1 : Tab App.Handler) (c1 : App.Ctx)
    (hi : Inv (t, c)) (hp : pid < 8192) (h : ensure App.sem t c pid = .ok (t1, c1)) : Inv (t1, c1) := by
  unfold ensure at h
  split at h
  · have := R.ok_inj h
    simp only [Prod.mk.injEq] at this
    rw [← this.1, ← this.2]; exact hi
  · have h' : R.ok ((t.insert pid (App.construct c (.byPid pid)).1), (App.construct c (.byPid pid)).2)
        = R.ok (t1, c1) := h
    have := R.ok_inj h'
    simp only [Prod.mk.injEq] at this
    rw [← this.1, ← this.2]
    exact ⟨bounded_insert t pid _ hi.1 hp (construct_hok _ _), by
      show ScriptOk (App.construct c (.byPid pid)).2.cfg
      rw [construct_cfg]; exact hi.2⟩

theorem specStep_inv (tc : Tab App.Handler × App.Ctx) (pk : Pk) (tc' : Tab App.Handler × App.Ctx)
    (hi : Inv tc) (hpk : PkOk pk) (h : specStep App.sem tc pk = .ok tc') : Inv tc' := by
  obtain ⟨t, c⟩ := tc
  rw [specStep_eq] at h
  obtain ⟨r, hE, h⟩ := R.bind_eq_ok h
  obtain ⟨t1, c1⟩ := r
  have hi1 := ensure_inv t c pk.pid t1 c1 hi hpk.2 hE
  dsimp only at h
  split at h
  · have := R.ok_inj h
    rw [← this]; exact hi1
  · cases hg : t1.get pk.pid with
    | none => rw [hg] at h; cases h
    | some hd =>
      rw [hg] at h
      dsimp only at h
      obtain ⟨x, hx, h⟩ := R.bind_eq_ok h
      obtain ⟨h', c', chg⟩ := x
      have := R.ok_inj h
      rw [← this]
      obtain ⟨a1, a2, a3⟩ := app_consume_ok hd c1 pk h' c' chg (hi1.1.2 _ _ hg) hpk.1 hi1.2 hx
      exact ⟨bounded_applyChanges chg _ (bounded_insert t1 pk.pid h' hi1.1 hpk.2 a1) a3, by
        show ScriptOk c'.cfg
        rw [a2]; exact hi1.2⟩

theorem pushSpec_inv : ∀ (pks : List Pk) (tc tc' : Tab App.Handler × App.Ctx), Inv tc →
    (∀ pk ∈ pks, PkOk pk) → pushSpec App.sem tc pks = .ok tc' → Inv tc' := by
  intro pks
  induction pks with
  | nil =>
    intro tc tc' hi _ h
    have := R.ok_inj h
    rw [← this]; exact hi
  | cons pk pks ih =>
    intro tc tc' hi hpk h
    rw [pushSpec_cons] at h
    obtain ⟨tc1, h1, h⟩ := R.bind_eq_ok h
    exact ih tc1 tc' (specStep_inv tc pk tc1 hi (hpk pk List.mem_cons_self) h1)
      (fun p hp => hpk p (List.mem_cons_of_mem _ hp)) h

theorem frame_pkOk (buf : Bytes) (base : Nat) (pks : List Pk) (h : frame buf base = .ok pks) :
    ∀ pk ∈ pks, PkOk pk := by
  intro pk hpk
  have := frame_pk_props buf base pks h pk hpk
  exact ⟨this.2.2.2.2.1, by have := this.2.2.2.2.2.1; omega⟩

/-- one `push` of ARBITRARY bytes preserves the invariant -/
theorem push_inv (tc : Tab App.Handler × App.Ctx) (buf : Bytes) (base : Nat)
    (tc' : Tab App.Handler × App.Ctx) (hi : Inv tc) (h : push App.sem tc buf base = .ok tc') :
    Inv tc' := by
  unfold push at h
  obtain ⟨pks, hf, h⟩ := R.bind_eq_ok h
  rw [pushModel_eq_pushSpec] at h
  exact pushSpec_inv pks tc tc' hi (frame_pkOk buf base pks hf) h

theorem pushAll_inv : ∀ (bufs : List Bytes) (tc : Tab App.Handler × App.Ctx) (base : Nat)
    (tc' : Tab App.Handler × App.Ctx), Inv tc → pushAll App.sem tc bufs base = .ok tc' → Inv tc' := by
  intro bufs
  induction bufs with
  | nil =>
    intro tc base tc' hi h
    have := R.ok_inj h
    rw [← this]; exact hi
  | cons b bs ih =>
    intro tc base tc' hi h
    unfold pushAll at h
    obtain ⟨tc1, h1, h⟩ := R.bind_eq_ok h
    exact ih tc1 _ tc' (push_inv tc b base tc1 hi h1) h

theorem init_inv (cfg : App.Cfg) (h : ScriptOk cfg) : Inv (App.init cfg) := by
  unfold App.init
  dsimp only
  refine ⟨bounded_insert [] 0 _ ⟨by simp, ?_⟩ (by omega) (construct_hok _ _), ?_⟩
  · intro p h' hg
    rw [Tab.get_of_ge _ _ (by simp)] at hg
    cases hg
  · show ScriptOk (App.construct { cfg := cfg } (.byPid 0)).2.cfg
    rw [construct_cfg]; exact h

/-! ### the retained-memory measure -/

/-- heap bytes owned by a table slot: the reassembly `Vec<u8>` plus two fixed 8192-bit
(`2 * 1024`-byte) `FixedBitSet`s for a PAT/PMT handler; PES and recorder handlers own none -/
def slotBytes : Option App.Handler → Nat
  | some (.pat s _) => s.buf.length + 2 * 1024
  | some (.pmt _ _ s _) => s.buf.length + 2 * 1024
  | _ => 0

/-- slots of `filters_by_pid` plus the heap bytes the handlers own; the changeset is empty
between packets -/
def retained (t : Tab App.Handler) : Nat := t.length + (t.map slotBytes).sum

theorem sum_map_le {α : Type} (f : α → Nat) (K : Nat) : ∀ (l : List α), (∀ x ∈ l, f x ≤ K) →
    (l.map f).sum ≤ l.length * K := by
  intro l
  induction l with
  | nil => intro _; simp
  | cons a l ih =>
    intro h
    have h1 := h a List.mem_cons_self
    have h2 := ih (fun x hx => h x (List.mem_cons_of_mem _ hx))
    simp only [List.map_cons, List.sum_cons, List.length_cons]
    rw [Nat.add_mul]
    omega

theorem slotBytes_le (t : Tab App.Handler) (hb : Bounded t) : ∀ o ∈ t, slotBytes o ≤ 1024 + 2 * 1024 := by
  intro o ho
  cases o with
  | none => simp [slotBytes]
  | some h =>
    obtain ⟨i, hi⟩ := List.mem_iff_getElem?.1 ho
    have hg : t.get i = some h := by rw [Tab.get_eq, hi]; rfl
    have hok := hb.2 i h hg
    cases h with
    | pat s reg => have := (hok s rfl).2; simp only [slotBytes]; omega
    | pmt a b s reg => have := (hok s rfl).2; simp only [slotBytes]; omega
    | pes _ _ => simp [slotBytes]
    | recorder _ => simp [slotBytes]

/-- the constant: 8192 slots, each owning at most 1024 + 2048 bytes -/
def RETAINED_MAX : Nat := 8192 * (1 + 1024 + 2 * 1024)

theorem retained_le (t : Tab App.Handler) (hb : Bounded t) : retained t ≤ RETAINED_MAX := by
  unfold retained RETAINED_MAX
  have h1 := sum_map_le slotBytes (1024 + 2 * 1024) t (slotBytes_le t hb)
  have h2 := hb.1
  have h3 : t.length * (1024 + 2 * 1024) ≤ 8192 * (1024 + 2 * 1024) := Nat.mul_le_mul_right _ h2
  omega

/-! ### steady state: repeated tables and PES traffic touch no heap-backed state -/

/-- `version_number` of a section-syntax section start (as read by the dedup layer) -/
def versionOf (ns : Bytes) : Nat := (byteD ns 5 >>> 1) &&& 0b0001_1111

/-- a PAT/PMT filter that has seen version `v` of its table and is not reassembling anything -/
def Quiescent (s : Psi.St) (v : Nat) : Prop := s.lastVersion = some v ∧ s.remaining = none

/-- payload of a repetition packet for table version `v`: a continuation payload, or a unit start
whose `pointer_field` bytes are followed by at least 8 bytes of a section-syntax section start
with `section_length ≤ 1021` and `version_number = v` -/
def RepeatPayload (v : Nat) (q : C03.Pl) : Prop :=
  q.us = false ∨
    (byteD q.bytes 0 + 9 ≤ q.bytes.length ∧
      C03.hdrSyn ((q.bytes.drop 1).drop (byteD q.bytes 0)) = true ∧
      C03.hdrLen ((q.bytes.drop 1).drop (byteD q.bytes 0)) ≤ 1021 ∧
      versionOf ((q.bytes.drop 1).drop (byteD q.bytes 0)) = v)

/-- a repetition packet: no payload, or a repetition payload -/
def RepeatPkt (v : Nat) (p : Bytes) : Prop := ∀ q, C03.plOf p = some q → RepeatPayload v q

theorem quiescent_spec (s : Psi.St) (v : Nat) (q : C03.Pl) (hq : Quiescent s v)
    (hr : RepeatPayload v q) :
    (C03.consumeSpec Psi.table s q.us q.bytes q.off).2 = []
      ∧ (C03.consumeSpec Psi.table s q.us q.bytes q.off).1.buf = s.buf
      ∧ (C03.consumeSpec Psi.table s q.us q.bytes q.off).1.remaining = s.remaining
      ∧ (C03.consumeSpec Psi.table s q.us q.bytes q.off).1.lastVersion = s.lastVersion := by
  obtain ⟨hlv, hrem⟩ := hq
  have hidle : ∀ d, C03.contSpec Psi.table s d = (s, []) := fun d => C03.contSpec_idle _ s d (Or.inl hrem)
  rcases hr with hus | ⟨hlen, hsyn, hl, hv⟩
  · unfold C03.consumeSpec
    simp only [hus, Bool.false_eq_true, if_false, hidle]
    exact ⟨trivial, trivial, trivial, trivial⟩
  · have hns : ((q.bytes.drop 1).drop (byteD q.bytes 0)).length = q.bytes.length - 1 - byteD q.bytes 0 := by
      simp only [List.length_drop]
    cases hus : q.us with
    | false =>
      unfold C03.consumeSpec
      simp only [Bool.false_eq_true, if_false, hidle]
      exact ⟨trivial, trivial, trivial, trivial⟩
    | true =>
      unfold C03.consumeSpec
      have h1 : ¬ (0 < byteD q.bytes 0 ∧ (q.bytes.drop 1).length ≤ byteD q.bytes 0) := by
        rw [List.length_drop]; omega
      have h2 : ¬ (((q.bytes.drop 1).drop (byteD q.bytes 0)).length < 3) := by rw [hns]; omega
      have hr1 : (if 0 < byteD q.bytes 0 then C03.contSpec Psi.table s ((q.bytes.drop 1).take (byteD q.bytes 0))
          else (s, [])) = (s, []) := by split <;> simp [hidle]
      simp only [if_true, h1, if_false, hr1, h2]
      have hok : C03.startOk Psi.table ((q.bytes.drop 1).drop (byteD q.bytes 0)) = true := by
        rw [C03.startOk_iff]
        refine ⟨hsyn, ?_, hl⟩
        show 8 ≤ _
        rw [hns]; omega
      unfold C03.startSpec C03.dedupStartSpec
      have hd : Psi.table.dedup = true := rfl
      have hvv : ((byteD ((q.bytes.drop 1).drop (byteD q.bytes 0)) 5 >>> 1) &&& 0b0001_1111) = v := hv
      simp only [hok, if_true, hd, hlv, hvv, BEq.rfl, List.append_nil]
      exact ⟨trivial, trivial, trivial, trivial⟩

/-- `quiescent_step`: a repetition packet leaves `buf`, `remaining`, `lastVersion` of a quiescent
PAT/PMT filter unchanged and yields no delivery (and does not panic) -/
theorem quiescent_step (s : Psi.St) (v : Nat) (p : Bytes) (hp : p.length = 188) (hq : Quiescent s v)
    (hr : RepeatPkt v p) :
    ∃ s', Psi.consume Psi.table s p = .ok (s', []) ∧ s'.buf = s.buf ∧ s'.remaining = s.remaining
      ∧ s'.lastVersion = s.lastVersion := by
  rw [C03.consume_eq_plOf Psi.table s p hp]
  cases hpl : C03.plOf p with
  | none => exact ⟨s, rfl, rfl, rfl, rfl⟩
  | some q =>
    have hsz := C03.plOf_size p hp q hpl
    obtain ⟨h1, h2, h3, h4⟩ := quiescent_spec s v q hq (hr q hpl)
    refine ⟨(C03.consumeSpec Psi.table s q.us q.bytes q.off).1, ?_, h2, h3, h4⟩
    show C03.consumePayload Psi.table s q.us q.bytes q.off = _
    rw [C03.consumePayload_eq Psi.table C03.cfgOk_table s q.us q.bytes q.off hsz.1
      (C03.psiInv_of_none _ s hq.2), ← h1]

/-- what is heap-relevant / steady-state-relevant about a handler: for a PAT/PMT handler its
reassembly buffer, the `Buffering(n)` state and the dedup version; `none` for PES / recorder -/
def psiKey (h : App.Handler) : Option (Bytes × Option Nat × Option Nat) :=
  (psiOf h).map fun s => (s.buf, s.remaining, s.lastVersion)

/-- per-slot view: `none` = empty slot, `some none` = PES/recorder handler,
`some (some (buf, remaining, lastVersion))` = PAT/PMT handler -/
def slotKey (t : Tab App.Handler) (p : Nat) : Option (Option (Bytes × Option Nat × Option Nat)) :=
  (t.get p).map psiKey

/-- the PSI reassembly buffer (contents and `Buffering` state) of slot `p` -/
def psiBuf (t : Tab App.Handler) (p : Nat) : Option (Option (Bytes × Option Nat)) :=
  (slotKey t p).map (Option.map fun k => (k.1, k.2.1))

/-- the change list the handler of `pk.pid` returns for this packet (`[]` for a flagged packet) -/
def stepChg (tc : Tab App.Handler × App.Ctx) (pk : Pk) : R (List (Change App.Handler)) :=
  ensure App.sem tc.1 tc.2 pk.pid >>= fun r =>
    if pk.flagged then R.ok []
    else match r.1.get pk.pid with
      | none => R.panic "called `Option::unwrap()` on a `None` value"
      | some h => App.consume h r.2 pk >>= fun x => R.ok x.2.2

/-- no allocation-relevant operation in the step `tc --pk--> tc'`: the filter table did not grow,
no handler was constructed, no PSI reassembly buffer was written, no change was queued -/
def stepAllocFree (tc : Tab App.Handler × App.Ctx) (pk : Pk) (tc' : Tab App.Handler × App.Ctx) : Prop :=
  tc'.1.length = tc.1.length ∧ tc'.2.nextTag = tc.2.nextTag
    ∧ (∀ p, psiBuf tc'.1 p = psiBuf tc.1 p) ∧ stepChg tc pk = .ok []

/-- steady state for one packet: its PID has a handler, and if that is a PAT/PMT handler it is
quiescent and the packet is a repetition packet for its current version -/
def SteadyPk (t : Tab App.Handler) (pk : Pk) : Prop :=
  pk.bytes.length = 188 ∧ t.contains pk.pid = true ∧
  ∀ h s, t.get pk.pid = some h → psiOf h = some s → ∃ v, Quiescent s v ∧ RepeatPkt v pk.bytes

def Steady (t : Tab App.Handler) (pks : List Pk) : Prop := ∀ pk ∈ pks, SteadyPk t pk

theorem steadyPk_congr (t t' : Tab App.Handler) (pk : Pk) (h : ∀ p, slotKey t' p = slotKey t p)
    (hs : SteadyPk t pk) : SteadyPk t' pk := by
  obtain ⟨h1, h2, h3⟩ := hs
  have hk := h pk.pid
  unfold slotKey at hk
  refine ⟨h1, ?_, ?_⟩
  · rw [Tab.contains_iff_get] at h2 ⊢
    cases hg : t.get pk.pid with
    | none => rw [hg] at h2; cases h2
    | some x =>
      rw [hg] at hk
      cases hg' : t'.get pk.pid with
      | none => rw [hg'] at hk; cases hk
      | some y => rfl
  · intro h' s' hg' hp'
    rw [hg'] at hk
    cases hg : t.get pk.pid with
    | none => rw [hg] at hk; cases hk
    | some x =>
      rw [hg] at hk
      simp only [Option.map_some, Option.some.injEq] at hk
      unfold psiKey at hk
      rw [hp'] at hk
      cases hpx : psiOf x with
      | none => rw [hpx] at hk; cases hk
      | some s =>
        rw [hpx] at hk
        simp only [Option.map_some, Option.some.injEq, Prod.mk.injEq] at hk
        obtain ⟨v, hq, hr⟩ := h3 x s hg hpx
        exact ⟨v, ⟨by rw [hk.2.2]; exact hq.1, by rw [hk.2.1]; exact hq.2⟩, hr⟩

/-- in steady state with no recorder script, one `consume` queues nothing, constructs nothing
and leaves the PSI key of the handler unchanged -/
theorem steady_consume (h : App.Handler) (c : App.Ctx) (pk : Pk) (h' : App.Handler) (c' : App.Ctx)
    (chg : List (Change App.Handler)) (hsc : c.cfg.script = []) (hlen : pk.bytes.length = 188)
    (hst : ∀ s, psiOf h = some s → ∃ v, Quiescent s v ∧ RepeatPkt v pk.bytes)
    (hc : App.consume h c pk = .ok (h', c', chg)) :
    chg = [] ∧ c'.nextTag = c.nextTag ∧ c'.cfg = c.cfg ∧ psiKey h' = psiKey h := by
  cases h with
  | pat s reg =>
    obtain ⟨v, hq, hr⟩ := hst s rfl
    obtain ⟨s', h1, h2, h3, h4⟩ := quiescent_step s v pk.bytes hlen hq hr
    unfold App.consume at hc
    dsimp only at hc
    rw [h1] at hc
    have := R.ok_inj hc
    simp only [Prod.mk.injEq] at this
    obtain ⟨e1, e2, e3⟩ := this
    subst e1 e2 e3
    refine ⟨rfl, rfl, rfl, ?_⟩
    simp only [psiKey, psiOf, Option.map_some, h2, h3, h4]
  | pmt pid prog s reg =>
    obtain ⟨v, hq, hr⟩ := hst s rfl
    obtain ⟨s', h1, h2, h3, h4⟩ := quiescent_step s v pk.bytes hlen hq hr
    unfold App.consume at hc
    dsimp only at hc
    rw [h1] at hc
    have := R.ok_inj hc
    simp only [Prod.mk.injEq] at this
    obtain ⟨e1, e2, e3⟩ := this
    subst e1 e2 e3
    refine ⟨rfl, rfl, rfl, ?_⟩
    simp only [psiKey, psiOf, Option.map_some, h2, h3, h4]
  | pes tag f =>
    obtain ⟨out, f', e1, e2, _, _, e5, e6⟩ := pes_consume_events tag f c pk h' c' chg hlen hc
    subst e1 e2
    exact ⟨rfl, e5, e6, rfl⟩
  | recorder tag =>
    unfold App.consume at hc
    dsimp only at hc
    rw [hsc] at hc
    have key : R.ok (App.Handler.recorder tag, c.emit (.pkt tag pk.off), ([] : List (Change App.Handler)))
        = R.ok (h', c', chg) := by
      split at hc
      · obtain ⟨_, _, hc⟩ := R.bind_eq_ok hc
        exact hc
      · exact hc
    have := R.ok_inj key
    simp only [Prod.mk.injEq] at this
    obtain ⟨e1, e2, e3⟩ := this
    subst e1 e2 e3
    exact ⟨rfl, rfl, rfl, rfl⟩

theorem slotKey_insert_same (t : Tab App.Handler) (p : Nat) (h h' : App.Handler)
    (hg : t.get p = some h) (hk : psiKey h' = psiKey h) : ∀ q, slotKey (t.insert p h') q = slotKey t q := by
  intro q
  unfold slotKey
  rw [Tab.get_insert]
  split
  · rename_i e; subst e; rw [hg]; simp [hk]
  · rfl

theorem length_insert_same (t : Tab App.Handler) (p : Nat) (h h' : App.Handler)
    (hg : t.get p = some h) : (t.insert p h').length = t.length := by
  have := Tab.lt_of_get_some t p h hg
  rw [Tab.length_insert]; omega

/-- MAIN STEP: in steady state every dispatcher step is allocation-free and keeps every slot's
key (so ES handlers stay, tables stay quiescent at the same version) -/
theorem steady_step (t : Tab App.Handler) (c : App.Ctx) (pk : Pk) (tc' : Tab App.Handler × App.Ctx)
    (hsc : c.cfg.script = []) (hst : SteadyPk t pk) (h : specStep App.sem (t, c) pk = .ok tc') :
    stepAllocFree (t, c) pk tc' ∧ (∀ p, slotKey tc'.1 p = slotKey t p) ∧ tc'.2.cfg = c.cfg := by
  obtain ⟨hlen, hcont, hq⟩ := hst
  cases hf : pk.flagged with
  | true =>
    rw [specStep_flagged_of_contains App.sem t c pk hcont hf] at h
    have := R.ok_inj h
    subst this
    refine ⟨⟨rfl, rfl, fun _ => rfl, ?_⟩, fun _ => rfl, rfl⟩
    unfold stepChg
    rw [ensure_of_contains App.sem t c pk.pid hcont]
    simp only [R.ok_bind, hf, if_true]
  | false =>
    obtain ⟨hd, hg⟩ := (Tab.contains_eq_true_iff t pk.pid).1 hcont
    rw [specStep_consume_of_contains App.sem t c pk hd hcont hf hg] at h
    obtain ⟨x, hx, h⟩ := R.bind_eq_ok h
    obtain ⟨h', c', chg⟩ := x
    have := R.ok_inj h
    subst this
    obtain ⟨e1, e2, e3, e4⟩ := steady_consume hd c pk h' c' chg hsc hlen (fun s hs => hq hd s hg hs) hx
    subst e1
    have hk := slotKey_insert_same t pk.pid hd h' hg e4
    refine ⟨⟨?_, e2, ?_, ?_⟩, hk, e3⟩
    · exact length_insert_same t pk.pid hd h' hg
    · intro p
      show psiBuf (t.insert pk.pid h') p = psiBuf t p
      unfold psiBuf; rw [hk p]
    · unfold stepChg
      rw [ensure_of_contains App.sem t c pk.pid hcont]
      simp only [R.ok_bind, hf, Bool.false_eq_true, if_false, hg]
      have hx' : App.consume hd c pk = .ok (h', c', []) := hx
      rw [hx']; rfl

/-- every step of a run is allocation-free -/
def runAllocFree : Tab App.Handler × App.Ctx → List Pk → Prop
  | _, [] => True
  | tc, pk :: rest =>
    ∃ tc', specStep App.sem tc pk = .ok tc' ∧ stepAllocFree tc pk tc' ∧ runAllocFree tc' rest

theorem steady_run : ∀ (pks : List Pk) (t : Tab App.Handler) (c : App.Ctx)
    (tcf : Tab App.Handler × App.Ctx), c.cfg.script = [] → Steady t pks →
    pushSpec App.sem (t, c) pks = .ok tcf →
    runAllocFree (t, c) pks ∧ (∀ p, slotKey tcf.1 p = slotKey t p) ∧ tcf.1.length = t.length
      ∧ tcf.2.nextTag = c.nextTag ∧ tcf.2.cfg = c.cfg := by
  intro pks
  induction pks with
  | nil =>
    intro t c tcf _ _ h
    have := R.ok_inj h
    subst this
    exact ⟨trivial, fun _ => rfl, rfl, rfl, rfl⟩
  | cons pk pks ih =>
    intro t c tcf hsc hst h
    rw [pushSpec_cons] at h
    obtain ⟨tc1, h1, h⟩ := R.bind_eq_ok h
    obtain ⟨a1, a2, a3⟩ := steady_step t c pk tc1 hsc (hst pk List.mem_cons_self) h1
    obtain ⟨t1, c1⟩ := tc1
    have hst1 : Steady t1 pks := fun p hp =>
      steadyPk_congr t t1 p a2 (hst p (List.mem_cons_of_mem _ hp))
    obtain ⟨b1, b2, b3, b4, b5⟩ := ih t1 c1 tcf (by rw [show c1.cfg = c.cfg from a3]; exact hsc) hst1 h
    refine ⟨⟨(t1, c1), h1, a1, b1⟩, fun p => by rw [b2 p]; exact a2 p, by rw [b3]; exact a1.1,
      by rw [b4]; exact a1.2.1, by rw [b5]; exact a3⟩

theorem bufContSpec_lastVersion (s : Psi.St) (d : Bytes) :
    (C03.bufContSpec s d).1.lastVersion = s.lastVersion := by
  unfold C03.bufContSpec
  cases s.remaining with
  | none => rfl
  | some n => dsimp only; split <;> rfl

theorem contSpec_lastVersion (cfg : Psi.Cfg) (s : Psi.St) (d : Bytes) :
    (C03.contSpec cfg s d).1.lastVersion = s.lastVersion := by
  unfold C03.contSpec
  split
  · rfl
  · split
    · rfl
    · exact bufContSpec_lastVersion s d

/-- converse of `consumeSpec_origin` for starts: an acceptable section start all of whose
`3 + section_length` bytes are present in the unit-start payload IS delivered in place (unless the
dedup layer suppresses it as a repetition of the current version) -/
theorem consumeSpec_started_delivered (cfg : Psi.Cfg) (s : Psi.St) (pk : Bytes) (off : Nat)
    (hok : C03.startOk cfg ((pk.drop 1).drop (byteD pk 0)) = true)
    (hfit : 3 + C03.hdrLen ((pk.drop 1).drop (byteD pk 0)) ≤ ((pk.drop 1).drop (byteD pk 0)).length)
    (hdd : cfg.dedup = true → s.lastVersion ≠ some (versionOf ((pk.drop 1).drop (byteD pk 0)))) :
    (⟨((pk.drop 1).drop (byteD pk 0)).take (3 + C03.hdrLen ((pk.drop 1).drop (byteD pk 0))),
        some (off + 1 + byteD pk 0)⟩ : Psi.Delivery) ∈ (C03.consumeSpec cfg s true pk off).2 := by
  have hl : ((pk.drop 1).drop (byteD pk 0)).length = pk.length - 1 - byteD pk 0 := by
    simp only [List.length_drop]
  unfold C03.consumeSpec
  have h1 : ¬ (0 < byteD pk 0 ∧ (pk.drop 1).length ≤ byteD pk 0) := by
    rw [List.length_drop]; omega
  have h2 : ¬ (((pk.drop 1).drop (byteD pk 0)).length < 3) := by omega
  simp only [if_true, h1, if_false, h2]
  apply List.mem_append_right
  have hlv : (if 0 < byteD pk 0 then C03.contSpec cfg s ((pk.drop 1).take (byteD pk 0)) else (s, [])).1.lastVersion
      = s.lastVersion := by
    split
    · exact contSpec_lastVersion cfg s _
    · rfl
  generalize (if 0 < byteD pk 0 then C03.contSpec cfg s ((pk.drop 1).take (byteD pk 0)) else (s, [])).1 = s1 at hlv
  unfold C03.startSpec C03.dedupStartSpec C03.bufStartSpec
  have hfit' : C03.hdrLen ((pk.drop 1).drop (byteD pk 0)) + 3 ≤ ((pk.drop 1).drop (byteD pk 0)).length := by
    omega
  have hcomm : C03.hdrLen ((pk.drop 1).drop (byteD pk 0)) + 3 = 3 + C03.hdrLen ((pk.drop 1).drop (byteD pk 0)) :=
    Nat.add_comm _ _
  cases hd : cfg.dedup with
  | false =>
    simp only [hok, if_true, Bool.false_eq_true, if_false, hcomm, hfit, List.mem_singleton]
  | true =>
    have hne : (s1.lastVersion == some ((byteD ((pk.drop 1).drop (byteD pk 0)) 5 >>> 1) &&& 0b0001_1111)) = false := by
      rw [hlv]
      have := hdd hd
      unfold versionOf at this
      simpa using this
    simp only [hok, if_true, hne, Bool.false_eq_true, if_false, hcomm, hfit, List.mem_singleton]

/-- a quiescent PAT handler processes a repetition packet without panic -/
theorem pat_quiescent_specStep (t : Tab App.Handler) (c : App.Ctx) (pk : Pk) (s : Psi.St)
    (reg : List Nat) (v : Nat) (hg : t.get pk.pid = some (.pat s reg)) (hf : pk.flagged = false)
    (hlen : pk.bytes.length = 188) (hq : Quiescent s v) (hr : RepeatPkt v pk.bytes) :
    ∃ s', specStep App.sem (t, c) pk = .ok (t.insert pk.pid (.pat s' reg), c) := by
  obtain ⟨s', h1, _⟩ := quiescent_step s v pk.bytes hlen hq hr
  have hcont : t.contains pk.pid = true := (Tab.contains_eq_true_iff t pk.pid).2 ⟨_, hg⟩
  refine ⟨s', ?_⟩
  rw [specStep_consume_of_contains App.sem t c pk _ hcont hf hg]
  show (App.consume (.pat s reg) c pk >>= _) = _
  unfold App.consume
  dsimp only
  rw [h1]
  rfl

/-! ### concrete data for the non-vacuity examples of `Ts/Props/C19.lean` -/

/-- a PAT repetition packet: unit start, PID 0, `pointer_field` 0, section-syntax PAT section of
`version_number` 0 (`c1`), program 1 → PMT PID 0x1e0, CRC, stuffing -/
def patPkt : Bytes :=
  [0x47, 0x40, 0x00, 0x10, 0x00,
   0x00, 0xb0, 0x0d, 0x00, 0x01, 0xc1, 0x00, 0x00, 0x00, 0x01, 0xe1, 0xe0, 0x2d, 0x50, 0x78, 0x04]
  ++ List.replicate 167 0xff

theorem patPkt_len : patPkt.length = 188 := by decide +kernel

theorem patPkt_plOf : C03.plOf patPkt = some ⟨true, patPkt.drop 4, 4⟩ := by decide +kernel

theorem patPkt_repeat : RepeatPkt 0 patPkt := by
  intro q hq
  rw [patPkt_plOf] at hq
  injection hq with hq
  subst hq
  refine Or.inr ⟨by decide +kernel, by decide +kernel, by decide +kernel, by decide +kernel⟩

/-- a quiescent PAT handler (version 0 seen, nothing buffered) in slot 0 -/
def steadyTab : Tab App.Handler := [some (.pat { lastVersion := some 0 } [0x1e0])]
def patPk : Pk := ⟨patPkt, 0, 0, false, false⟩

theorem steadyTab_steady : SteadyPk steadyTab patPk := by
  refine ⟨patPkt_len, rfl, ?_⟩
  intro h s hg hs
  have : h = .pat { lastVersion := some 0 } [0x1e0] := by
    have e : steadyTab.get patPk.pid = some (.pat { lastVersion := some 0 } [0x1e0]) := rfl
    rw [e] at hg; injection hg with hg; exact hg.symm
  subst this
  injection hs with hs
  subst hs
  exact ⟨0, ⟨rfl, rfl⟩, patPkt_repeat⟩

/-- a PES packet at global offset 376 on PID 0x100: unit start, PES header `00 00 01 e0 00 00`,
parsed contents `80 00 00`, stuffing -/
def pesPk : Pk :=
  ⟨C08.mkPkt 0x40 0x10 (C08.pesStart ++ [0x80, 0x00, 0x00]), 376, 0x100, false, false⟩

/-- a payload-only packet on PID 5 -/
def pid5Pkt : Bytes := [0x47, 0x00, 0x05, 0x10] ++ List.replicate 184 0

end Ts.Lemmas.C19
