import Ts.Model.Demux
/-!
# Lemmas about the dispatcher model (`Ts/Model/Demux.lean`)

* table lemmas (`Tab.get/contains/insert/remove`, `applyChanges`)
* `ensure` lemmas
* the refinement lemmas `inner_eq`, `outer_eq`: the two labelled loops of `Demultiplex::push`
  compute the one-packet-at-a-time fold `pushSpec` (equality in the panic monad `R`).
-/
namespace Ts.Demux
open Ts

variable {H C : Type}

/-! ### table lemmas -/

/-- `get` is the flattening of the checked list lookup -/
theorem Tab.get_eq (t : Tab H) (p : Nat) : t.get p = (t[p]?).getD none := by
  unfold Tab.get
  split
  · rename_i h
    rw [List.getElem?_eq_none (by omega)]; rfl
  · cases t[p]? <;> rfl

theorem Tab.get_of_ge (t : Tab H) (p : Nat) (h : t.length ≤ p) : t.get p = none := by
  rw [Tab.get_eq, List.getElem?_eq_none h]; rfl

theorem Tab.lt_of_get_some (t : Tab H) (p : Nat) (h : H) (hg : t.get p = some h) : p < t.length := by
  apply Classical.byContradiction
  intro hn
  rw [Tab.get_of_ge t p (by omega)] at hg
  cases hg

/-- `contains` is exactly "`get` is `Some`" -/
theorem Tab.contains_iff_get (t : Tab H) (p : Nat) : t.contains p = (t.get p).isSome := by
  rw [Tab.get_eq]
  unfold Tab.contains
  by_cases hp : p < t.length
  · rw [List.getElem?_eq_getElem hp]
    cases t[p] <;> simp [hp]
  · rw [List.getElem?_eq_none (by omega)]
    simp [hp]

theorem Tab.contains_eq_true_iff (t : Tab H) (p : Nat) : t.contains p = true ↔ ∃ h, t.get p = some h := by
  rw [Tab.contains_iff_get, Option.isSome_iff_exists]

theorem Tab.contains_eq_false_iff (t : Tab H) (p : Nat) : t.contains p = false ↔ t.get p = none := by
  rw [Tab.contains_iff_get]
  cases t.get p <;> simp

/-- `Filters::insert` grows the vector to `pid+1` if needed and never shrinks it -/
theorem Tab.length_insert (t : Tab H) (p : Nat) (h : H) :
    (t.insert p h).length = max t.length (p + 1) := by
  unfold Tab.insert
  by_cases hp : p ≥ t.length
  · simp only [hp, if_true, List.length_set, List.length_append, List.length_replicate]; omega
  · simp only [hp, if_false, List.length_set]; omega

/-- when the slot already exists `insert` is a plain store -/
theorem Tab.insert_eq_set (t : Tab H) (p : Nat) (h : H) (hp : p < t.length) :
    t.insert p h = t.set p (some h) := by
  unfold Tab.insert
  have : ¬ p ≥ t.length := by omega
  simp only [this, if_false]

theorem Tab.length_remove (t : Tab H) (p : Nat) : (t.remove p).length = t.length := by
  unfold Tab.remove
  split <;> simp

theorem Tab.remove_of_ge (t : Tab H) (p : Nat) (hp : t.length ≤ p) : t.remove p = t := by
  unfold Tab.remove
  have : ¬ p < t.length := by omega
  simp only [this, if_false]

theorem Tab.get_insert (t : Tab H) (p q : Nat) (h : H) :
    (t.insert p h).get q = if q = p then some h else t.get q := by
  rw [Tab.get_eq, Tab.get_eq]
  unfold Tab.insert
  by_cases hp : p ≥ t.length
  · simp only [hp, if_true]
    rw [List.getElem?_set]
    by_cases hq : q = p
    · subst hq
      have : q < List.length t + (q - List.length t + 1) := by omega
      simp [this]
    · have hq' : ¬ p = q := fun e => hq e.symm
      simp only [hq', if_false, hq]
      rw [List.getElem?_append]
      by_cases hql : q < t.length
      · simp [hql]
      · simp only [hql, if_false]
        rw [List.getElem?_eq_none (l := t) (by omega)]
        rw [List.getElem?_replicate]
        split <;> rfl
  · simp only [hp, if_false]
    rw [List.getElem?_set]
    by_cases hq : q = p
    · subst hq
      have : q < t.length := by omega
      simp [this]
    · have hq' : ¬ p = q := fun e => hq e.symm
      simp only [hq', if_false, hq]

theorem Tab.get_insert_self (t : Tab H) (p : Nat) (h : H) : (t.insert p h).get p = some h := by
  rw [Tab.get_insert]; simp

theorem Tab.get_insert_ne (t : Tab H) (p q : Nat) (h : H) (hq : q ≠ p) :
    (t.insert p h).get q = t.get q := by
  rw [Tab.get_insert]; simp [hq]

theorem Tab.get_remove (t : Tab H) (p q : Nat) :
    (t.remove p).get q = if q = p then none else t.get q := by
  rw [Tab.get_eq, Tab.get_eq]
  unfold Tab.remove
  by_cases hp : p < t.length
  · simp only [hp, if_true]
    rw [List.getElem?_set]
    by_cases hq : q = p
    · subst hq; simp [hp]
    · have hq' : ¬ p = q := fun e => hq e.symm
      simp only [hq', if_false, hq]
  · simp only [hp, if_false]
    by_cases hq : q = p
    · subst hq
      rw [List.getElem?_eq_none (by omega)]; simp
    · simp only [hq, if_false]

theorem Tab.get_remove_self (t : Tab H) (p : Nat) : (t.remove p).get p = none := by
  rw [Tab.get_remove]; simp

theorem Tab.get_remove_ne (t : Tab H) (p q : Nat) (hq : q ≠ p) : (t.remove p).get q = t.get q := by
  rw [Tab.get_remove]; simp [hq]

theorem Tab.contains_insert_self (t : Tab H) (p : Nat) (h : H) : (t.insert p h).contains p = true := by
  rw [Tab.contains_iff_get, Tab.get_insert_self]; rfl

/-- removing a PID whose slot is already empty leaves the vector literally unchanged -/
theorem Tab.remove_of_get_none (t : Tab H) (p : Nat) (hg : t.get p = none) : t.remove p = t := by
  unfold Tab.remove
  split
  · rename_i hp
    rw [Tab.get_eq, List.getElem?_eq_getElem hp] at hg
    apply List.ext_getElem?
    intro i
    rw [List.getElem?_set]
    by_cases hi : p = i
    · subst hi
      simp only [if_true, hp]
      rw [List.getElem?_eq_getElem hp]
      simp only [Option.getD_some] at hg
      rw [hg]
    · simp only [hi, if_false]
  · rfl

/-! ### `applyChanges` -/

theorem applyChanges_nil (t : Tab H) : applyChanges t [] = t := rfl

theorem applyChanges_cons (t : Tab H) (a : Change H) (cs : List (Change H)) :
    applyChanges t (a :: cs) = applyChanges (applyChange t a) cs := rfl

theorem applyChanges_append (t : Tab H) (a b : List (Change H)) :
    applyChanges t (a ++ b) = applyChanges (applyChanges t a) b := by
  unfold applyChanges; rw [List.foldl_append]

theorem applyChanges_of_isEmpty (t : Tab H) (cs : List (Change H)) (h : cs.isEmpty = true) :
    applyChanges t cs = t := by
  cases cs with
  | nil => rfl
  | cons a cs => simp at h

/-- the PID a queued change is about -/
def Change.pid : Change H → Nat
  | .insert p _ => p
  | .remove p => p

/-- the value a queued change leaves in its slot -/
def Change.val : Change H → Option H
  | .insert _ h => some h
  | .remove _ => none

theorem get_applyChange (t : Tab H) (ch : Change H) (q : Nat) :
    (applyChange t ch).get q = if q = ch.pid then ch.val else t.get q := by
  cases ch with
  | insert p h => exact Tab.get_insert t p q h
  | remove p => exact Tab.get_remove t p q

/-- changes that do not mention `q` do not affect slot `q` -/
theorem get_applyChanges_untouched (cs : List (Change H)) (t : Tab H) (q : Nat)
    (hq : ∀ ch ∈ cs, ch.pid ≠ q) : (applyChanges t cs).get q = t.get q := by
  induction cs generalizing t with
  | nil => rfl
  | cons a cs ih =>
    rw [applyChanges_cons, ih _ (fun ch hch => hq ch (List.mem_cons_of_mem _ hch))]
    rw [get_applyChange]
    have : ¬ q = a.pid := fun e => hq a (List.mem_cons_self) e.symm
    simp only [this, if_false]

/-- the LAST queued change for a PID determines its slot -/
theorem get_applyChanges_last (t : Tab H) (pre post : List (Change H)) (ch : Change H)
    (hpost : ∀ x ∈ post, x.pid ≠ ch.pid) :
    (applyChanges t (pre ++ ch :: post)).get ch.pid = ch.val := by
  rw [applyChanges_append, applyChanges_cons, get_applyChanges_untouched post _ _ hpost,
    get_applyChange]
  simp

/-! ### `ensure` -/

theorem ensure_of_contains (sem : Sem H C) (t : Tab H) (c : C) (pid : Nat)
    (h : t.contains pid = true) : ensure sem t c pid = .ok (t, c) := by
  unfold ensure; simp only [h, if_true]

theorem ensure_of_absent (sem : Sem H C) (t : Tab H) (c : C) (pid : Nat)
    (h : t.contains pid = false) :
    ensure sem t c pid = (sem.construct c pid >>= fun r => R.ok (t.insert pid r.1, r.2)) := by
  unfold ensure; simp only [h, Bool.false_eq_true, if_false]; rfl

/-- after `ensure` succeeds the slot is occupied -/
theorem ensure_contains (sem : Sem H C) (t : Tab H) (c : C) (pid : Nat) (t' : Tab H) (c' : C)
    (h : ensure sem t c pid = .ok (t', c')) : t'.contains pid = true := by
  by_cases hc : t.contains pid = true
  · rw [ensure_of_contains sem t c pid hc] at h
    cases h; exact hc
  · have hc' : t.contains pid = false := by simpa using hc
    rw [ensure_of_absent sem t c pid hc'] at h
    cases hk : sem.construct c pid with
    | panic s => rw [hk] at h; cases h
    | ok r =>
      rw [hk] at h
      cases h
      exact Tab.contains_insert_self _ _ _

/-- every slot other than `pid` is untouched by `ensure` -/
theorem ensure_get_ne (sem : Sem H C) (t : Tab H) (c : C) (pid : Nat) (t' : Tab H) (c' : C)
    (h : ensure sem t c pid = .ok (t', c')) (q : Nat) (hq : q ≠ pid) : t'.get q = t.get q := by
  by_cases hc : t.contains pid = true
  · rw [ensure_of_contains sem t c pid hc] at h
    cases h; rfl
  · have hc' : t.contains pid = false := by simpa using hc
    rw [ensure_of_absent sem t c pid hc'] at h
    cases hk : sem.construct c pid with
    | panic s => rw [hk] at h; cases h
    | ok r =>
      rw [hk] at h
      cases h
      exact Tab.get_insert_ne _ _ _ _ hq

/-! ### the spec step once the slot is known to be occupied -/

theorem pushSpec_cons (sem : Sem H C) (tc : Tab H × C) (pk : Pk) (rest : List Pk) :
    pushSpec sem tc (pk :: rest) = (specStep sem tc pk >>= fun tc' => pushSpec sem tc' rest) := rfl

theorem pushSpec_nil (sem : Sem H C) (tc : Tab H × C) : pushSpec sem tc [] = .ok tc := rfl

theorem specStep_eq (sem : Sem H C) (t : Tab H) (c : C) (pk : Pk) :
    specStep sem (t, c) pk =
      (ensure sem t c pk.pid >>= fun r =>
        if pk.flagged then R.ok (r.1, r.2)
        else match r.1.get pk.pid with
          | none => R.panic "called `Option::unwrap()` on a `None` value"
          | some h => sem.consume h r.2 pk >>= fun x =>
              R.ok (applyChanges (r.1.insert pk.pid x.1) x.2.2, x.2.1)) := rfl

theorem specStep_flagged_of_contains (sem : Sem H C) (t : Tab H) (c : C) (pk : Pk)
    (hc : t.contains pk.pid = true) (hf : pk.flagged = true) :
    specStep sem (t, c) pk = .ok (t, c) := by
  rw [specStep_eq, ensure_of_contains sem t c pk.pid hc]
  simp only [R.ok_bind, hf, if_true]

theorem specStep_consume_of_contains (sem : Sem H C) (t : Tab H) (c : C) (pk : Pk) (h : H)
    (hc : t.contains pk.pid = true) (hf : pk.flagged = false) (hg : t.get pk.pid = some h) :
    specStep sem (t, c) pk =
      (sem.consume h c pk >>= fun x => R.ok (applyChanges (t.insert pk.pid x.1) x.2.2, x.2.1)) := by
  rw [specStep_eq, ensure_of_contains sem t c pk.pid hc]
  simp only [R.ok_bind, hf, Bool.false_eq_true, if_false, hg]

/-- re-running `ensure` right after it succeeded is the identity, so the `ensure` done by `outer`
is the one done by `specStep` for the first packet of the run -/
theorem specStep_after_ensure (sem : Sem H C) (t : Tab H) (c : C) (pk : Pk) (t1 : Tab H) (c1 : C)
    (hE : ensure sem t c pk.pid = .ok (t1, c1)) :
    specStep sem (t1, c1) pk = specStep sem (t, c) pk := by
  have hc := ensure_contains sem t c pk.pid t1 c1 hE
  rw [specStep_eq sem t c, hE, specStep_eq sem t1 c1, ensure_of_contains sem t1 c1 pk.pid hc]

/-! ### refinement: the labelled loops compute the fold -/

/-- `inner` = spec, given the slot invariant (`thisPid = pk.pid`, slot occupied) -/
theorem inner_eq (sem : Sem H C) (fuelO : Nat)
    (ihO : ∀ t c pk rest, rest.length < fuelO →
      outer sem fuelO t c pk rest = pushSpec sem (t, c) (pk :: rest)) :
    ∀ (fuel : Nat) (t : Tab H) (c : C) (pk : Pk) (rest : List Pk),
      rest.length < fuel → rest.length ≤ fuelO → t.contains pk.pid = true →
      inner sem pk.pid t c pk rest (outer sem fuelO) fuel = pushSpec sem (t, c) (pk :: rest) := by
  intro fuel
  induction fuel with
  | zero => intro t c pk rest h; omega
  | succ fuel ih =>
    intro t c pk rest hf hfo hs
    unfold inner
    rw [pushSpec_cons]
    cases hfl : pk.flagged with
    | true =>
      simp only [if_true]
      rw [specStep_flagged_of_contains sem t c pk hs hfl, R.ok_bind]
      cases rest with
      | nil => rfl
      | cons p rest' =>
        simp only [List.length_cons] at hf hfo
        show (if (p.pid != pk.pid) = true then _ else _) = _
        by_cases hp : p.pid = pk.pid
        · have hb : ¬ ((p.pid != pk.pid) = true) := by simp [hp]
          rw [if_neg hb, ← hp]
          exact ih t c p rest' (by omega) (by omega) (by rw [hp]; exact hs)
        · have hb : (p.pid != pk.pid) = true := by simp [hp]
          rw [if_pos hb]
          exact ihO t c p rest' (by omega)
    | false =>
      simp only [Bool.false_eq_true, if_false]
      obtain ⟨h, hh⟩ := (Tab.contains_eq_true_iff t pk.pid).1 hs
      rw [specStep_consume_of_contains sem t c pk h hs hfl hh]
      simp only [hh]
      cases hcons : sem.consume h c pk with
      | panic s => rfl
      | ok x =>
        obtain ⟨h', c', chg⟩ := x
        simp only [R.ok_bind]
        cases hchg : chg.isEmpty with
        | true =>
          simp only [if_true]
          rw [applyChanges_of_isEmpty _ chg hchg]
          cases rest with
          | nil => rfl
          | cons p rest' =>
            simp only [List.length_cons] at hf hfo
            show (if (p.pid != pk.pid) = true then _ else _) = _
            by_cases hp : p.pid = pk.pid
            · have hb : ¬ ((p.pid != pk.pid) = true) := by simp [hp]
              rw [if_neg hb, ← hp]
              exact ih _ c' p rest' (by omega) (by omega) (Tab.contains_insert_self _ _ _)
            · have hb : (p.pid != pk.pid) = true := by simp [hp]
              rw [if_pos hb]
              exact ihO _ c' p rest' (by omega)
        | false =>
          simp only [Bool.false_eq_true, if_false]
          cases rest with
          | nil => rfl
          | cons p rest' =>
            simp only [List.length_cons] at hf hfo
            exact ihO _ c' p rest' (by omega)

theorem outer_eq (sem : Sem H C) : ∀ (fuel : Nat) (t : Tab H) (c : C) (pk : Pk) (rest : List Pk),
    rest.length < fuel → outer sem fuel t c pk rest = pushSpec sem (t, c) (pk :: rest) := by
  intro fuel
  induction fuel with
  | zero => intro t c pk rest h; omega
  | succ fuel ih =>
    intro t c pk rest hf
    unfold outer
    rw [pushSpec_cons]
    cases hE : ensure sem t c pk.pid with
    | panic s =>
      rw [specStep_eq, hE]; rfl
    | ok r =>
      obtain ⟨t1, c1⟩ := r
      have hs := ensure_contains sem t c pk.pid t1 c1 hE
      show inner sem pk.pid t1 c1 pk rest (outer sem fuel) (fuel+1) = _
      rw [inner_eq sem fuel ih (fuel+1) t1 c1 pk rest (by omega) (by omega) hs, pushSpec_cons,
        specStep_after_ensure sem t c pk t1 c1 hE]

theorem pushModel_eq_pushSpec (sem : Sem H C) (tc : Tab H × C) (pks : List Pk) :
    pushModel sem tc pks = pushSpec sem tc pks := by
  cases pks with
  | nil => rfl
  | cons pk rest => exact outer_eq sem _ tc.1 tc.2 pk rest (by simp)

/-- fold over `++` -/
theorem pushSpec_append_aux (sem : Sem H C) (a b : List Pk) : ∀ (tc : Tab H × C),
    pushSpec sem tc (a ++ b) = (pushSpec sem tc a >>= fun tc' => pushSpec sem tc' b) := by
  induction a with
  | nil => intro tc; rfl
  | cons pk a ih =>
    intro tc
    rw [List.cons_append, pushSpec_cons, pushSpec_cons]
    cases specStep sem tc pk with
    | panic s => rfl
    | ok tc' => simp only [R.ok_bind]; exact ih tc'

end Ts.Demux
