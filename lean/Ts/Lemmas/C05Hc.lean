import Ts.Lemmas.C05Hb
/-!
# C05 over whole histories — helper lemmas, part 3

* `sim_es`, `sim_rep`: packets that apply no table
* `sim_step`, `sim_run`: one event, then the induction over histories
* `sim_init`: `Demultiplex::new`
-/
namespace Ts.Lemmas.C05H
open Ts Ts.Tables Ts.App Ts.Demux Ts.Spec Ts.Spec.TableSpec Ts.Spec.Routing Ts.Spec.RoutingHistory
open Ts.Spec.SectionMux Ts.Lemmas.C03 Ts.Lemmas.C10 Ts.Lemmas.C05 Ts.Lemmas.C05Run

/-! ### one dispatcher step on an occupied slot -/

theorem step_occupied (t : Tab Handler) (c : Ctx) (pk : Pk) (h h' : Handler) (c' : Ctx)
    (hg : t.get pk.pid = some h) (hf : pk.flagged = false)
    (hc : App.consume h c pk = .ok (h', c', [])) :
    specStep App.sem (t, c) pk = .ok (t.insert pk.pid h', c') := by
  rw [specStep_consume_of_contains App.sem t c pk h (contains_of_get t pk.pid h hg) hf hg]
  show (App.consume h c pk >>= _) = _
  rw [hc]; rfl

theorem step_flagged (t : Tab Handler) (c : Ctx) (pk : Pk) (h : Handler)
    (hg : t.get pk.pid = some h) (hf : pk.flagged = true) :
    specStep App.sem (t, c) pk = .ok (t, c) :=
  specStep_flagged_of_contains App.sem t c pk (contains_of_get t pk.pid h hg) hf

/-! ### which kind of handler a PID is routed to (continued) -/

theorem tableRouted_false (r : Route) (p : Nat) (h : tableRouted r p = false) :
    r.slots p = none ∨ ∃ req tag, r.slots p = some (req, tag) ∧ req ≠ .byPid 0 ∧ ∀ a b, req ≠ .pmt a b := by
  unfold tableRouted at h
  split at h
  · cases h
  · cases h
  · rename_i h1 h2
    cases hs : r.slots p with
    | none => exact Or.inl rfl
    | some x =>
      obtain ⟨req, tag⟩ := x
      refine Or.inr ⟨req, tag, rfl, ?_, ?_⟩
      · intro e; subst e; exact h1 tag hs
      · intro a b e; subst e; exact h2 a b tag hs

theorem tableRouted_true (r : Route) (p : Nat) (h : tableRouted r p = true) :
    (∃ tag, r.slots p = some (.byPid 0, tag)) ∨ ∃ a b tag, r.slots p = some (.pmt a b, tag) := by
  unfold tableRouted at h
  split at h
  · rename_i tag hs; exact Or.inl ⟨tag, hs⟩
  · rename_i a b tag hs; exact Or.inr ⟨a, b, tag, hs⟩
  · cases h

theorem slotRel_nontable (r : Route) (p : Nat) (req : Req) (tag : Nat) (o : Option Handler)
    (h0 : req ≠ .byPid 0) (hp : ∀ a b, req ≠ .pmt a b) (h : SlotRel r p (some (req, tag)) o) :
    o = some (.recorder tag) ∨
      ∃ f, o = some (.pes tag f) ∧ ∀ f', SlotRel r p (some (req, tag)) (some (.pes tag f')) := by
  rcases req with (_ | n) | ⟨a, b⟩ | x | ⟨pp, st, q, pcr, d1, d2⟩
  · exact absurd rfl h0
  · exact Or.inl h
  · exact absurd rfl (hp a b)
  · exact Or.inl h
  · simp only [SlotRel] at h ⊢
    by_cases hpes : isPes st = true
    · rw [if_pos hpes] at h
      obtain ⟨f, hf⟩ := h
      exact Or.inr ⟨f, hf, fun f' => by rw [if_pos hpes]; exact ⟨f', rfl⟩⟩
    · rw [if_neg hpes] at h
      exact Or.inl h

/-! ### a packet on a PID routed to an elementary-stream handler or a recorder -/

theorem es_occupied (r : Route) (t : Tab Handler) (c : Ctx) (pk : Pk) (req : Req) (tag : Nat)
    (hsim : Sim r t c) (hl : pk.bytes.length = 188) (hs : r.slots pk.pid = some (req, tag))
    (h0 : req ≠ .byPid 0) (hp : ∀ a b, req ≠ .pmt a b) :
    ∃ t' c', specStep App.sem (t, c) pk = .ok (t', c') ∧ Sim r t' c' := by
  have hrel := hsim.slots pk.pid
  rw [hs] at hrel
  rcases slotRel_nontable r pk.pid req tag _ h0 hp hrel with hg | ⟨f, hg, hre⟩
  · cases hf : pk.flagged with
    | true => exact ⟨t, c, step_flagged t c pk _ hg hf, hsim⟩
    | false =>
      refine ⟨_, _, step_occupied t c pk _ _ _ hg hf (consume_recorder tag c pk hsim.script hl), ?_⟩
      refine sim_update r t _ c _ pk.pid hsim rfl rfl ?_ ?_ (fun q hq => Tab.get_insert_ne _ _ _ _ hq)
      · exact constructs_silent c _ [.pkt tag pk.off] rfl (by simp [isConstruct])
      · rw [Tab.get_insert_self, hs, ← hg]; exact hrel
  · cases hf : pk.flagged with
    | true => exact ⟨t, c, step_flagged t c pk _ hg hf, hsim⟩
    | false =>
      obtain ⟨f', c', hc, h1, h2, h3⟩ := consume_pes tag f c pk hl
      refine ⟨_, _, step_occupied t c pk _ _ _ hg hf hc, ?_⟩
      refine sim_update r t _ c c' pk.pid hsim h1 h2 h3 ?_ (fun q hq => Tab.get_insert_ne _ _ _ _ hq)
      rw [Tab.get_insert_self, hs]; exact hre f'

theorem handlerFor_byPid (p tag : Nat) (hp : p ≠ 0) : handlerFor (.byPid p) tag = .recorder tag := by
  cases p with
  | zero => exact absurd rfl hp
  | succ n => rfl

/-- the first packet on an un-routed PID: the application is asked `ByPid` -/
theorem es_absent (r : Route) (t : Tab Handler) (c : Ctx) (p : Nat) (hsim : Sim r t c) (hp : p ≠ 0)
    (hs : r.slots p = none) :
    ∃ t1 c1, ensure App.sem t c p = .ok (t1, c1) ∧
      Sim { r with slots := fun q => if q = p then some (.byPid p, r.reqs.length) else r.slots q,
                   reqs := r.reqs ++ [.byPid p] } t1 c1 := by
  have hrel := hsim.slots p
  rw [hs] at hrel
  have hg : t.get p = none := hrel
  have hE : ensure App.sem t c p = .ok (t.insert p (.recorder c.nextTag),
      { c with nextTag := c.nextTag + 1, trace := Ev.construct (.byPid p) c.nextTag :: c.trace }) := by
    rw [ensure_of_absent App.sem t c p ((Tab.contains_eq_false_iff t p).2 hg)]
    show (R.ok (construct c (.byPid p)) >>= _) = _
    rw [construct_eq, handlerFor_byPid p _ hp]; rfl
  refine ⟨_, _, hE, ?_⟩
  refine { script := hsim.script, tag := ?_, log := ?_, slots := ?_, pat0 := hsim.pat0,
           pmtSelf := hsim.pmtSelf }
  · simp only [List.length_append, List.length_singleton]; rw [hsim.tag]
  · rw [constructs_append c _ [Ev.construct (.byPid p) c.nextTag] rfl, hsim.log, zipIdx_snoc, hsim.tag]
    rfl
  · intro q
    by_cases hq : q = p
    · subst hq
      simp only [if_true]
      rw [Tab.get_insert_self, hsim.tag]
      cases q with
      | zero => exact absurd rfl hp
      | succ n => rfl
    · simp only [if_neg hq]
      rw [Tab.get_insert_ne _ _ _ _ hq]
      exact slotRel_congr (hsim.slots q) (fun _ => ⟨rfl, rfl⟩) rfl

theorem sim_es (r : Route) (t : Tab Handler) (c : Ctx) (p : Nat) (pks : List Pk)
    (hsim : Sim r t c) (hwf : wfEv r (.esPacket p)) (hre : RealisesEv r (.esPacket p) pks) :
    ∃ t' c', pushSpec App.sem (t, c) pks = .ok (t', c') ∧ Sim (stepRoute r (.esPacket p)) t' c' := by
  obtain ⟨hp0, hnt⟩ := hwf
  obtain ⟨pk, rfl, rfl, hl⟩ := hre
  rw [pushSpec_cons]
  rcases tableRouted_false r pk.pid hnt with hs | ⟨req, tag, hs, h0, hp⟩
  · obtain ⟨t1, c1, hE, hsim1⟩ := es_absent r t c pk.pid hsim hp0 hs
    have hst : stepRoute r (.esPacket pk.pid) =
        { r with slots := fun q => if q = pk.pid then some (.byPid pk.pid, r.reqs.length) else r.slots q,
                 reqs := r.reqs ++ [.byPid pk.pid] } := by
      simp only [stepRoute, hs]
    rw [hst, ← specStep_after_ensure App.sem t c pk t1 c1 hE]
    obtain ⟨t', c', hstep, hsim'⟩ := es_occupied _ t1 c1 pk (.byPid pk.pid) r.reqs.length hsim1 hl
      (by simp) (fun e => hp0 (Req.byPid.inj e)) (by intro a b e; cases e)
    exact ⟨t', c', by rw [hstep]; rfl, hsim'⟩
  · have hst : stepRoute r (.esPacket pk.pid) = r := by simp only [stepRoute, hs]
    rw [hst]
    obtain ⟨t', c', hstep, hsim'⟩ := es_occupied r t c pk req tag hsim hl hs h0 hp
    exact ⟨t', c', by rw [hstep]; rfl, hsim'⟩

/-! ### a repetition packet on a table PID -/

theorem sim_rep (r : Route) (t : Tab Handler) (c : Ctx) (p : Nat) (pks : List Pk)
    (hsim : Sim r t c) (hwf : wfEv r (.repetition p)) (hre : RealisesEv r (.repetition p) pks) :
    ∃ t' c', pushSpec App.sem (t, c) pks = .ok (t', c') ∧ Sim (stepRoute r (.repetition p)) t' c' := by
  obtain ⟨pk, rfl, rfl, hrep⟩ := hre
  rw [pushSpec_cons]
  show ∃ t' c', (specStep App.sem (t, c) pk >>= fun tc' => pushSpec App.sem tc' []) = .ok (t', c') ∧ Sim r t' c'
  have hrel := hsim.slots pk.pid
  rcases tableRouted_true r pk.pid hwf with ⟨tag, hs⟩ | ⟨a, b, tag, hs⟩
  · rw [hs] at hrel
    obtain ⟨hp0, s, hg, hidle⟩ := hrel
    have htv : tableVersion r pk.pid = r.patVersion := by simp only [tableVersion, hs]
    rw [htv] at hrep
    cases hf : pk.flagged with
    | true => exact ⟨t, c, by rw [step_flagged t c pk _ hg hf]; rfl, hsim⟩
    | false =>
      rw [hf] at hrep
      have hrep' := hrep.resolve_left (by simp)
      obtain ⟨s', h1, hidle'⟩ := psi_rep_packetO _ s hidle pk.bytes hrep'
      have hc : App.consume (.pat s (r.patEntries.map PatEntry.pid)) c pk
          = .ok (.pat s' (r.patEntries.map PatEntry.pid), c, []) := by
        rw [consume_pat_eq s s' _ c pk [] h1]; rfl
      refine ⟨_, _, by rw [step_occupied t c pk _ _ _ hg hf hc]; rfl, ?_⟩
      refine sim_update r t _ c c pk.pid hsim rfl rfl rfl ?_ (fun q hq => Tab.get_insert_ne _ _ _ _ hq)
      rw [Tab.get_insert_self, hs]
      exact ⟨hp0, s', rfl, hidle'⟩
  · rw [hs] at hrel
    obtain ⟨s, hg, hidle⟩ := hrel
    have htv : tableVersion r pk.pid = (r.pmt pk.pid).ver := by simp only [tableVersion, hs]
    rw [htv] at hrep
    cases hf : pk.flagged with
    | true => exact ⟨t, c, by rw [step_flagged t c pk _ hg hf]; rfl, hsim⟩
    | false =>
      rw [hf] at hrep
      have hrep' := hrep.resolve_left (by simp)
      obtain ⟨s', h1, hidle'⟩ := psi_rep_packetO _ s hidle pk.bytes hrep'
      have hc : App.consume (.pmt a b s ((r.pmt pk.pid).streams.map StreamInfo.pid)) c pk
          = .ok (.pmt a b s' ((r.pmt pk.pid).streams.map StreamInfo.pid), c, []) := by
        rw [consume_pmt_eq a b s s' _ c pk [] h1]; rfl
      refine ⟨_, _, by rw [step_occupied t c pk _ _ _ hg hf hc]; rfl, ?_⟩
      refine sim_update r t _ c c pk.pid hsim rfl rfl rfl ?_ (fun q hq => Tab.get_insert_ne _ _ _ _ hq)
      rw [Tab.get_insert_self, hs]
      exact ⟨s', rfl, hidle'⟩

/-! ### one event; whole histories -/

/-- **one `stepRoute` = the table change of the corresponding packets**, for each event kind -/
theorem sim_step (r : Route) (t : Tab Handler) (c : Ctx) (ev : Event) (pks : List Pk)
    (hsim : Sim r t c) (hwf : wfEv r ev) (hre : RealisesEv r ev pks) :
    ∃ t' c', pushSpec App.sem (t, c) pks = .ok (t', c') ∧ Sim (stepRoute r ev) t' c' := by
  cases ev with
  | patApplied ver es => exact sim_pat r t c ver es pks hsim hwf hre
  | pmtApplied p ver body => exact sim_pmt r t c p ver body pks hsim hwf hre
  | esPacket p => exact sim_es r t c p pks hsim hwf hre
  | repetition p => exact sim_rep r t c p pks hsim hwf hre

theorem sim_run {r : Route} {evs : List Event} {pks : List Pk} (hre : Realises r evs pks) :
    ∀ (t : Tab Handler) (c : Ctx), Sim r t c → WF r evs →
      ∃ t' c', pushSpec App.sem (t, c) pks = .ok (t', c') ∧ Sim (run r evs) t' c' := by
  induction hre with
  | nil r => intro t c hsim _; exact ⟨t, c, rfl, hsim⟩
  | cons hev _ ih =>
    intro t c hsim hwf
    obtain ⟨t1, c1, h1, hsim1⟩ := sim_step _ t c _ _ hsim hwf.1 hev
    obtain ⟨t2, c2, h2, hsim2⟩ := ih t1 c1 hsim1 hwf.2
    refine ⟨t2, c2, ?_, hsim2⟩
    rw [pushSpec_append_aux, h1]; exact h2

/-- `Demultiplex::new` -/
theorem sim_init (cfg : Cfg) (hs : cfg.script = []) : Sim initRoute (App.init cfg).1 (App.init cfg).2 := by
  refine { script := hs, tag := rfl, log := rfl, slots := ?_, pat0 := fun e he => (by cases he),
           pmtSelf := fun p s hs => (by cases hs) }
  intro p
  by_cases hp : p = 0
  · subst hp
    exact ⟨rfl, {}, Tab.get_insert_self _ _ _, rfl, rfl⟩
  · show SlotRel initRoute p (if p = 0 then _ else none) _
    rw [if_neg hp]
    show (App.init cfg).1.get p = none
    show (Tab.insert [] 0 _).get p = none
    rw [Tab.get_insert_ne _ _ _ _ hp]
    exact Tab.get_of_ge _ _ (by simp)

theorem realises_append {r : Route} {a : List Event} {pa : List Pk} (ha : Realises r a pa) :
    ∀ {b : List Event} {pb : List Pk}, Realises (run r a) b pb → Realises r (a ++ b) (pa ++ pb) := by
  induction ha with
  | nil r => intro b pb hb; exact hb
  | cons hev _ ih =>
    intro b pb hb
    rw [List.cons_append, List.append_assoc]
    exact Realises.cons hev (ih hb)

theorem wf_append : ∀ (a b : List Event) (r : Route), WF r (a ++ b) ↔ WF r a ∧ WF (run r a) b := by
  intro a
  induction a with
  | nil => intro b r; simp [WF, run]
  | cons ev a ih =>
    intro b r
    simp only [List.cons_append, WF, ih, run_cons, and_assoc]

end Ts.Lemmas.C05H
