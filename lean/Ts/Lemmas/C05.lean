import Ts.Model.App
import Ts.Spec.Routing
import Ts.Spec.TableSpec
import Ts.Lemmas.C16
import Ts.Lemmas.C17
import Ts.Lemmas.Demux
/-!
# Helper lemmas for C05 (routing follows the latest PAT / PMT)
-/
namespace Ts.Lemmas.C05
open Ts Ts.Tables Ts.App Ts.Demux Ts.Spec Ts.Spec.TableSpec Ts.Spec.Routing Ts.Lemmas.C16 Ts.Lemmas.C17

/-! ### `List.mapM` / `List.forM` in the panic monad -/

theorem mapM_loop_ok {α β : Type} (f : α → R β) (g : α → β) :
    ∀ (l : List α) (acc : List β), (∀ x ∈ l, f x = .ok (g x)) →
      List.mapM.loop f l acc = .ok (acc.reverse ++ l.map g) := by
  intro l
  induction l with
  | nil => intro acc _; simp [List.mapM.loop]
  | cons a as ih =>
    intro acc h
    unfold List.mapM.loop
    rw [h a List.mem_cons_self]
    show List.mapM.loop f as (g a :: acc) = _
    rw [ih _ (fun x hx => h x (List.mem_cons_of_mem _ hx))]
    simp

theorem mapM_ok {α β : Type} (f : α → R β) (g : α → β) (l : List α) (h : ∀ x ∈ l, f x = .ok (g x)) :
    l.mapM f = .ok (l.map g) := by
  unfold List.mapM
  rw [mapM_loop_ok f g l [] h]; rfl

theorem forM_ok {α : Type} (f : α → R Unit) : ∀ (l : List α), (∀ x ∈ l, f x = .ok ()) →
    l.forM f = .ok () := by
  intro l
  induction l with
  | nil => intro _; rfl
  | cons a as ih =>
    intro h
    rw [List.forM_cons, h a List.mem_cons_self]
    exact ih (fun x hx => h x (List.mem_cons_of_mem _ hx))

/-! ### `outdated` -/

theorem mem_outdated (reg seen : List Nat) (p : Nat) :
    p ∈ outdated reg seen ↔ p < 8192 ∧ p ∈ reg ∧ p ∉ seen := by
  unfold outdated
  simp [List.mem_filter, List.mem_range]

theorem outdated_sorted (reg seen : List Nat) : (outdated reg seen).Pairwise (· < ·) := by
  unfold outdated
  exact List.Pairwise.filter _ List.pairwise_lt_range

/-- `filters_registered` already contains the PIDs just seen (they were inserted in the loop);
for the difference with `pids_seen` that makes no difference -/
theorem outdated_append_seen (reg seen : List Nat) : outdated (reg ++ seen) seen = outdated reg seen := by
  unfold outdated
  apply List.filter_congr
  intro p _
  by_cases h1 : p ∈ reg <;> by_cases h2 : p ∈ seen <;> simp [h1, h2]

theorem outdated_nil (seen : List Nat) : outdated [] seen = [] := by
  unfold outdated
  simp

theorem removes_ok (reg seen : List Nat) :
    (outdated (reg ++ seen) seen).mapM
        (fun p => do let q ← pidNew p; pure (Change.remove (H := Handler) q))
      = .ok ((outdated reg seen).map Change.remove) := by
  rw [outdated_append_seen]
  apply mapM_ok
  intro p hp
  have := ((mem_outdated reg seen p).1 hp).1
  rw [pidNew_ok p (by omega)]
  rfl

/-! ### `construct` -/

theorem construct_eq (c : Ctx) (req : Req) :
    construct c req = (handlerFor req c.nextTag,
      { c with nextTag := c.nextTag + 1, trace := Ev.construct req c.nextTag :: c.trace }) := by
  unfold construct handlerFor
  cases req with
  | byPid p => cases p <;> rfl
  | pmt pid prog => rfl
  | nit p => rfl
  | stream a st b c d e => by_cases h : isPes st = true <;> simp [h, Ctx.emit]

theorem built_length : ∀ (reqs : List (Nat × Req)) (tag : Nat), (built tag reqs).length = reqs.length := by
  intro reqs
  induction reqs with
  | nil => intro _; rfl
  | cons x rest ih => intro tag; obtain ⟨p, r⟩ := x; simp [built, ih]

theorem built_pids : ∀ (reqs : List (Nat × Req)) (tag : Nat), (built tag reqs).map (·.1) = reqs.map (·.1) := by
  intro reqs
  induction reqs with
  | nil => intro _; rfl
  | cons x rest ih => intro tag; obtain ⟨p, r⟩ := x; simp [built, ih]

theorem built_get : ∀ (reqs : List (Nat × Req)) (tag i : Nat),
    (built tag reqs)[i]? = reqs[i]?.map fun x => (x.1, handlerFor x.2 (tag + i)) := by
  intro reqs
  induction reqs with
  | nil => intro _ _; rfl
  | cons x rest ih =>
    intro tag i
    obtain ⟨p, r⟩ := x
    cases i with
    | zero => simp [built]
    | succ i => simp [built, ih, Nat.add_assoc, Nat.add_comm 1 i]

theorem constructEvents_get : ∀ (reqs : List (Nat × Req)) (tag i : Nat),
    (constructEvents tag reqs)[i]? = reqs[i]?.map fun x => Ev.construct x.2 (tag + i) := by
  intro reqs
  induction reqs with
  | nil => intro _ _; rfl
  | cons x rest ih =>
    intro tag i
    obtain ⟨p, r⟩ := x
    cases i with
    | zero => simp [constructEvents]
    | succ i => simp [constructEvents, ih, Nat.add_assoc, Nat.add_comm 1 i]

theorem constructEvents_length : ∀ (reqs : List (Nat × Req)) (tag : Nat),
    (constructEvents tag reqs).length = reqs.length := by
  intro reqs
  induction reqs with
  | nil => intro _; rfl
  | cons x rest ih => intro tag; obtain ⟨p, r⟩ := x; simp [constructEvents, ih]

/-- the context after the construct callbacks for `reqs` -/
def ctxAfter (c : Ctx) (reqs : List (Nat × Req)) : Ctx :=
  { c with nextTag := c.nextTag + reqs.length,
           trace := (constructEvents c.nextTag reqs).reverse ++ c.trace }

/-- the `for entry in table { construct; changeset.insert }` loop -/
theorem foldl_construct {β : Type} (g : β → Nat × Req) : ∀ (l : List β) (c : Ctx) (acc : List (Change Handler)),
    l.foldl (fun (a : Ctx × List (Change Handler)) x =>
        ((construct a.1 (g x).2).2, a.2 ++ [Change.insert (g x).1 (construct a.1 (g x).2).1])) (c, acc)
      = (ctxAfter c (l.map g), acc ++ (built c.nextTag (l.map g)).map fun x => Change.insert x.1 x.2) := by
  intro l
  induction l with
  | nil => intro c acc; simp [ctxAfter, constructEvents, built]
  | cons x rest ih =>
    intro c acc
    rw [List.foldl_cons, construct_eq, ih]
    rcases hg : g x with ⟨p, r⟩
    simp only [List.map_cons, hg, built, constructEvents, ctxAfter, List.length_cons, List.reverse_cons,
      List.append_assoc, List.singleton_append, List.map_cons, List.cons_append, List.nil_append]
    congr 2
    omega

end Ts.Lemmas.C05
