import Ts.Model.App
import Ts.Spec.Routing
import Ts.Spec.TableSpec
import Ts.Lemmas.C16
import Ts.Lemmas.C17
import Ts.Lemmas.Demux
/-!
# Helper lemmas for C05 (routing follows the latest PAT / PMT)
-/
namespace Ts.Lemmas.C05
open Ts Ts.Tables Ts.App Ts.Demux Ts.Spec Ts.Spec.TableSpec Ts.Spec.Routing Ts.Lemmas.C16 Ts.Lemmas.C17

/-! ### `List.mapM` / `List.forM` in the panic monad -/

theorem mapM_loop_ok {α β : Type} (f : α → R β) (g : α → β) :
    ∀ (l : List α) (acc : List β), (∀ x ∈ l, f x = .ok (g x)) →
      List.mapM.loop f l acc = .ok (acc.reverse ++ l.map g) := by
  intro l
  induction l with
  | nil => intro acc _; simp [List.mapM.loop]
  | cons a as ih =>
    intro acc h
    unfold List.mapM.loop
    rw [h a List.mem_cons_self]
    show List.mapM.loop f as (g a :: acc) = _
    rw [ih _ (fun x hx => h x (List.mem_cons_of_mem _ hx))]
    simp

theorem mapM_ok {α β : Type} (f : α → R β) (g : α → β) (l : List α) (h : ∀ x ∈ l, f x = .ok (g x)) :
    l.mapM f = .ok (l.map g) := by
  unfold List.mapM
  rw [mapM_loop_ok f g l [] h]; rfl

theorem forM_ok {α : Type} (f : α → R Unit) : ∀ (l : List α), (∀ x ∈ l, f x = .ok ()) →
    l.forM f = .ok () := by
  intro l
  induction l with
  | nil => intro _; rfl
  | cons a as ih =>
    intro h
    show (f a >>= fun _ => as.forM f) = _
    rw [h a List.mem_cons_self]
    exact ih (fun x hx => h x (List.mem_cons_of_mem _ hx))

/-! ### `outdated` -/

theorem mem_outdated (reg seen : List Nat) (p : Nat) :
    p ∈ outdated reg seen ↔ p < 8192 ∧ p ∈ reg ∧ p ∉ seen := by
  unfold outdated
  simp [List.mem_filter, List.mem_range]

theorem mem_outdated_iff (reg seen : List Nat) (p : Nat) :
    p ∈ outdated reg seen ↔ Outdated reg seen p := mem_outdated reg seen p

theorem outdated_sorted (reg seen : List Nat) : (outdated reg seen).Pairwise (· < ·) := by
  unfold outdated
  exact List.Pairwise.filter _ List.pairwise_lt_range

/-- `filters_registered` already contains the PIDs just seen (they were inserted in the loop);
for the difference with `pids_seen` that makes no difference -/
theorem outdated_append_seen (reg seen : List Nat) : outdated (reg ++ seen) seen = outdated reg seen := by
  unfold outdated
  apply List.filter_congr
  intro p _
  by_cases h1 : p ∈ reg <;> by_cases h2 : p ∈ seen <;> simp [h1, h2]

theorem outdated_nil (seen : List Nat) : outdated [] seen = [] := by
  unfold outdated
  simp

theorem removes_ok (reg seen : List Nat) :
    (outdated (reg ++ seen) seen).mapM
        (fun p => do let q ← pidNew p; pure (Change.remove (H := Handler) q))
      = .ok ((outdated reg seen).map Change.remove) := by
  rw [outdated_append_seen]
  apply mapM_ok
  intro p hp
  have := ((mem_outdated reg seen p).1 hp).1
  rw [pidNew_ok p (by omega)]
  rfl

/-! ### `construct` -/

theorem construct_eq (c : Ctx) (req : Req) :
    construct c req = (handlerFor req c.nextTag,
      { c with nextTag := c.nextTag + 1, trace := Ev.construct req c.nextTag :: c.trace }) := by
  unfold construct handlerFor
  cases req with
  | byPid p => cases p <;> rfl
  | pmt pid prog => rfl
  | nit p => rfl
  | stream a st b c d e => by_cases h : isPes st = true <;> simp [h, Ctx.emit]

theorem built_length : ∀ (reqs : List (Nat × Req)) (tag : Nat), (built tag reqs).length = reqs.length := by
  intro reqs
  induction reqs with
  | nil => intro _; rfl
  | cons x rest ih => intro tag; obtain ⟨p, r⟩ := x; simp [built, ih]

theorem built_pids : ∀ (reqs : List (Nat × Req)) (tag : Nat), (built tag reqs).map (·.1) = reqs.map (·.1) := by
  intro reqs
  induction reqs with
  | nil => intro _; rfl
  | cons x rest ih => intro tag; obtain ⟨p, r⟩ := x; simp [built, ih]

theorem built_get : ∀ (reqs : List (Nat × Req)) (tag i : Nat),
    (built tag reqs)[i]? = reqs[i]?.map fun x => (x.1, handlerFor x.2 (tag + i)) := by
  intro reqs
  induction reqs with
  | nil => intro _ _; rfl
  | cons x rest ih =>
    intro tag i
    obtain ⟨p, r⟩ := x
    cases i with
    | zero => simp [built]
    | succ i => simp [built, ih, Nat.add_assoc, Nat.add_comm 1 i]

theorem constructEvents_get : ∀ (reqs : List (Nat × Req)) (tag i : Nat),
    (constructEvents tag reqs)[i]? = reqs[i]?.map fun x => Ev.construct x.2 (tag + i) := by
  intro reqs
  induction reqs with
  | nil => intro _ _; rfl
  | cons x rest ih =>
    intro tag i
    obtain ⟨p, r⟩ := x
    cases i with
    | zero => simp [constructEvents]
    | succ i => simp [constructEvents, ih, Nat.add_assoc, Nat.add_comm 1 i]

theorem constructEvents_length : ∀ (reqs : List (Nat × Req)) (tag : Nat),
    (constructEvents tag reqs).length = reqs.length := by
  intro reqs
  induction reqs with
  | nil => intro _; rfl
  | cons x rest ih => intro tag; obtain ⟨p, r⟩ := x; simp [constructEvents, ih]

/-- the `for entry in table { construct; changeset.insert }` loop -/
theorem foldl_construct {β : Type} (pid : β → Nat) (req : β → Req) :
    ∀ (l : List β) (c : Ctx) (acc : List (Change Handler)),
    l.foldl (fun (a : Ctx × List (Change Handler)) x =>
        ((construct a.1 (req x)).2, a.2 ++ [Change.insert (pid x) (construct a.1 (req x)).1])) (c, acc)
      = (ctxAfter c (l.map fun x => (pid x, req x)),
          acc ++ (built c.nextTag (l.map fun x => (pid x, req x))).map fun x => Change.insert x.1 x.2) := by
  intro l
  induction l with
  | nil => intro c acc; simp [ctxAfter, constructEvents, built]
  | cons x rest ih =>
    intro c acc
    rw [List.foldl_cons, construct_eq, ih]
    simp only [List.map_cons, built, constructEvents, ctxAfter, List.length_cons, List.reverse_cons,
      List.append_assoc, List.cons_append, List.nil_append]
    congr 2
    omega

/-! ### the section prologue shared by both processors -/

theorem prologue (data : Bytes) (h : 12 ≤ data.length) :
    subR data.length 4 = .ok (data.length - 4) ∧
    sliceR data 8 (data.length - 4) = .ok ((data.drop 8).take (data.length - 12)) ∧
    byteAt data 0 = .ok (byteD data 0) := by
  refine ⟨?_, ?_, byteAt_ok data 0 (by omega)⟩
  · unfold subR; simp; omega
  · have e : data.length - 4 = 8 + (data.length - 12) := by omega
    rw [e, sliceR_ok data 8 _ (by omega)]

/-! ### `PatProcessor::section` -/

theorem patSection_eq (c : Ctx) (reg : List Nat) (data : Bytes) (h : 12 ≤ data.length) :
    patSection c reg data =
      if byteD data 0 ≠ 0 then .ok (c, reg, [])
      else
        let entries := specPat ((data.drop 8).take (data.length - 12))
        let reqs := patRequests entries
        .ok (ctxAfter c reqs, entries.map PatEntry.pid,
          (built c.nextTag reqs).map (fun x => Change.insert x.1 x.2)
            ++ (outdated reg (entries.map PatEntry.pid)).map Change.remove) := by
  obtain ⟨p1, p2, p3⟩ := prologue data h
  unfold patSection
  rw [p1]; simp only [R.ok_bind]
  rw [p2]; simp only [R.ok_bind]
  rw [p3]; simp only [R.ok_bind]
  by_cases ht : byteD data 0 = 0
  · have hb : ¬ ((byteD data 0 != 0) = true) := by simp [ht]
    rw [if_neg hb, if_neg (by simp [ht])]
    unfold patProgramsAll
    rw [patPrograms_eq _ _ (Nat.lt_succ_self _)]
    simp only [R.ok_bind]
    rw [removes_ok]
    simp only [R.ok_bind, R.pure_eq]
    rw [foldl_construct PatEntry.pid]
    simp only [List.nil_append]
    rfl
  · have hb : (byteD data 0 != 0) = true := by simp [ht]
    rw [if_pos hb, if_pos ht]
    rfl

/-! ### the Debug walk over a PMT (`touch` configuration) never panics -/

theorem touchDescItem_ok (d : Nat × Bytes) : touchDescItem (classify d) = .ok () := by
  unfold classify
  by_cases hm : d.2.length < typedMinLength d.1
  · rw [if_pos hm]; rfl
  · rw [if_neg hm]
    unfold touchDescItem
    by_cases h5 : d.1 = 5
    · rw [h5] at hm
      have : 4 ≤ d.2.length := by simp [typedMinLength] at hm; omega
      simp [h5, regFields_eq d.2 this]
    by_cases h10 : d.1 = 10
    · have := languages_eq (d.2.length + 1) d.2 (Nat.lt_succ_self _)
      simp [h10, languagesAll, this]
    by_cases h14 : d.1 = 14
    · rw [h14] at hm
      have : 3 ≤ d.2.length := by simp [typedMinLength] at hm; omega
      simp [h14, maxBitrate_eq d.2 this]
    by_cases h40 : d.1 = 40
    · rw [h40] at hm
      have : 4 ≤ d.2.length := by simp [typedMinLength] at hm; omega
      simp [h40, avcFields_eq d.2 this]
    simp [h5, h10, h14, h40]

theorem touchDescs_ok (b : Bytes) : touchDescs b = .ok () := by
  unfold touchDescs descIterAll
  rw [descIter_eq _ b (Nat.lt_succ_self _)]
  simp only [R.ok_bind]
  apply forM_ok
  intro x hx
  unfold specDescItems at hx
  rcases List.mem_append.1 hx with hx | hx
  · obtain ⟨d, -, rfl⟩ := List.mem_map.1 hx
    exact touchDescItem_ok d
  · unfold trailingItems at hx
    split at hx
    · cases hx
    · split at hx <;> (rw [List.mem_singleton] at hx; subst hx; rfl)

theorem touchPmt_ok (sect : Bytes) (h : specPmtAccept sect) : touchPmt sect = .ok () := by
  unfold touchPmt
  rw [pmtPcrPid_eq sect (by have := h.1; omega), pmtDescriptorBytes_eq sect h, pmtStreams_eq sect h]
  simp only [R.ok_bind, touchDescs_ok]
  apply forM_ok
  intro s _
  rfl

/-! ### `PmtProcessor::section` -/

theorem pmtSection_eq (c : Ctx) (pmtPid : Nat) (reg : List Nat) (data : Bytes) (h : 12 ≤ data.length) :
    pmtSection c pmtPid reg data =
      let body := (data.drop 8).take (data.length - 12)
      if ¬ specPmtAccept body then .ok (c, reg, [])
      else if byteD data 0 ≠ 2 then .ok (c, reg, [])
      else
        let reqs := pmtRequests pmtPid (specPcrPid body) (specProgramDescBytes body) (streamsOf body)
        .ok (ctxAfter c reqs, (streamsOf body).map StreamInfo.pid,
          (built c.nextTag reqs).map (fun x => Change.insert x.1 x.2)
            ++ (outdated reg ((streamsOf body).map StreamInfo.pid)).map Change.remove) := by
  obtain ⟨p1, p2, p3⟩ := prologue data h
  dsimp only
  unfold pmtSection
  rw [p1]; simp only [R.ok_bind]
  rw [p2]; simp only [R.ok_bind]
  rw [pmtFromBytes_eq]
  by_cases ha : specPmtAccept ((data.drop 8).take (data.length - 12))
  · rw [if_neg (not_not_intro ha)]
    simp only [if_pos ha, R.ok_bind]
    rw [p3]; simp only [R.ok_bind]
    by_cases ht : byteD data 0 = 2
    · have hb : ¬ ((byteD data 0 != 2) = true) := by simp [ht]
      rw [if_neg hb, if_neg (by simp [ht])]
      rw [pmtStreams_eq _ ha, pmtPcrPid_eq _ (by have := ha.1; omega), pmtDescriptorBytes_eq _ ha]
      simp only [R.ok_bind]
      cases hc : c.cfg.touch <;>
        simp only [Bool.false_eq_true, if_false, if_true, touchPmt_ok _ ha, R.ok_bind]
      all_goals
        rw [foldl_construct StreamInfo.pid, removes_ok]
        simp only [R.ok_bind, R.pure_eq, List.nil_append]
        rfl
    · have hb : (byteD data 0 != 2) = true := by simp [ht]
      rw [if_pos hb, if_pos ht]
      rfl
  · rw [if_pos ha]
    simp only [if_neg ha, R.ok_bind]
    rfl

/-! ### the routing table after the queued changes -/

theorem get_removes {H : Type} : ∀ (rem : List Nat) (t : Tab H) (p : Nat),
    (applyChanges t (rem.map Change.remove)).get p = if p ∈ rem then none else t.get p := by
  intro rem
  induction rem with
  | nil => intro t p; simp [applyChanges_nil]
  | cons a rest ih =>
    intro t p
    rw [List.map_cons, applyChanges_cons, ih]
    simp only [applyChange, Tab.get_remove, List.mem_cons]
    by_cases h1 : p ∈ rest <;> by_cases h2 : p = a <;> simp [h1, h2]

theorem get_inserts_last {H : Type} (t : Tab H) (pre post : List (Nat × H)) (p : Nat) (h : H)
    (hpost : ∀ x ∈ post, x.1 ≠ p) :
    (applyChanges t ((pre ++ (p, h) :: post).map fun x => Change.insert x.1 x.2)).get p = some h := by
  rw [List.map_append, List.map_cons]
  have := get_applyChanges_last t (pre.map fun x => Change.insert x.1 x.2)
    (post.map fun x => Change.insert x.1 x.2) (Change.insert p h)
    (by
      intro x hx
      obtain ⟨y, hy, rfl⟩ := List.mem_map.1 hx
      exact hpost y hy)
  exact this

theorem get_inserts_untouched {H : Type} (t : Tab H) (l : List (Nat × H)) (p : Nat)
    (hp : p ∉ l.map (·.1)) :
    (applyChanges t (l.map fun x => Change.insert x.1 x.2)).get p = t.get p := by
  apply get_applyChanges_untouched
  intro ch hch
  obtain ⟨y, hy, rfl⟩ := List.mem_map.1 hch
  intro e
  exact hp (List.mem_map.2 ⟨y, hy, e⟩)

theorem lastFor_some {α : Type} (l : List (Nat × α)) (p : Nat) (a : α) (h : lastFor l p = some a) :
    ∃ pre post, l = pre ++ (p, a) :: post ∧ ∀ x ∈ post, x.1 ≠ p := by
  unfold lastFor at h
  rw [Option.map_eq_some_iff] at h
  obtain ⟨⟨q, a'⟩, hf, ha⟩ := h
  simp only at ha
  subst ha
  rw [List.find?_eq_some_iff_append] at hf
  obtain ⟨hq, as, bs, hl, hno⟩ := hf
  have hq' : q = p := by simpa using hq
  subst hq'
  refine ⟨bs.reverse, as.reverse, ?_, ?_⟩
  · have := congrArg List.reverse hl
    simpa using this
  · intro x hx
    have := hno x (List.mem_reverse.1 hx)
    simpa using this

theorem lastFor_none {α : Type} (l : List (Nat × α)) (p : Nat) (h : lastFor l p = none) :
    p ∉ l.map (·.1) := by
  unfold lastFor at h
  rw [Option.map_eq_none_iff, List.find?_eq_none] at h
  intro hm
  obtain ⟨y, hy, e⟩ := List.mem_map.1 hm
  have := h y (List.mem_reverse.2 hy)
  simp [e] at this

theorem lastFor_of_split {α : Type} (pre post : List (Nat × α)) (p : Nat) (a : α)
    (hpost : ∀ x ∈ post, x.1 ≠ p) : lastFor (pre ++ (p, a) :: post) p = some a := by
  unfold lastFor
  rw [List.reverse_append, List.reverse_cons, List.append_assoc, List.find?_append]
  have : post.reverse.find? (fun x => x.1 == p) = none := by
    rw [List.find?_eq_none]
    intro x hx
    simpa using hpost x (List.mem_reverse.1 hx)
  rw [this]
  simp

/-- the table after `inserts ++ removes`, slot by slot, is the spec's function update -/
theorem get_applied {H : Type} (t : Tab H) (listed : List (Nat × H)) (reg : List Nat) (p : Nat) :
    (applyChanges t (listed.map (fun x => Change.insert x.1 x.2)
        ++ (outdated reg (listed.map (·.1))).map Change.remove)).get p
      = applied t.get listed reg p := by
  rw [applyChanges_append, get_removes]
  unfold applied
  cases hl : lastFor listed p with
  | some a =>
    obtain ⟨pre, post, e, hpost⟩ := lastFor_some listed p a hl
    have hseen : p ∈ listed.map (·.1) := by rw [e]; simp
    have hno : p ∉ outdated reg (listed.map (·.1)) := fun hm => ((mem_outdated _ _ _).1 hm).2.2 hseen
    rw [if_neg hno]
    simp only
    rw [e]
    exact get_inserts_last t pre post p a hpost
  | none =>
    have hns := lastFor_none listed p hl
    simp only
    rw [get_inserts_untouched t listed p hns]
    by_cases ho : p ∈ outdated reg (listed.map (·.1))
    · rw [if_pos ho, if_pos ((mem_outdated_iff _ _ _).1 ho)]
    · rw [if_neg ho, if_neg (fun hh => ho ((mem_outdated_iff _ _ _).2 hh))]

/-! ### from a delivered section to the handler's `consume` -/

/-- the CRC layer hands on only sections of at least 12 bytes (headers + CRC) -/
theorem crcPass_true_len (b : Bool) (d : Bytes) (h : Psi.crcPass b d = .ok true) : 12 ≤ d.length := by
  apply Classical.byContradiction
  intro hn
  have hl : d.length < 12 := by omega
  unfold Psi.crcPass at h
  cases hb : byteAt d 1 with
  | panic s => rw [hb] at h; cases h
  | ok b1 =>
    rw [hb] at h
    by_cases ha : b1 &&& 128 = 0
    · simp [assertR, ha] at h
    · simp [assertR, ha, Psi.COMMON, Psi.TSH, hl] at h

theorem runDeliveries_one (sect : Ctx → List Nat → Bytes → R (Ctx × List Nat × List (Change Handler)))
    (c : Ctx) (reg : List Nat) (d : Psi.Delivery) (c1 : Ctx) (reg1 : List Nat) (chg1 : List (Change Handler))
    (hcrc : Psi.crcPass c.cfg.bypassCrc d.bytes = .ok true)
    (hs : sect c reg d.bytes = .ok (c1, reg1, chg1)) :
    runDeliveries sect c reg [d] = .ok (c1, reg1, chg1) := by
  simp [runDeliveries, hcrc, hs]

theorem runDeliveries_nil (sect : Ctx → List Nat → Bytes → R (Ctx × List Nat × List (Change Handler)))
    (c : Ctx) (reg : List Nat) : runDeliveries sect c reg [] = .ok (c, reg, []) := rfl

/-- every PID a PAT lists is a 13-bit PID -/
theorem pat_pids_13bit (body : Bytes) : ∀ p ∈ (specPat body).map PatEntry.pid, p < 8192 := by
  intro p hp
  obtain ⟨e, he, rfl⟩ := List.mem_map.1 hp
  unfold specPat at he
  obtain ⟨g, -, rfl⟩ := List.mem_map.1 he
  have := readBits_lt g 19 13
  unfold patEntryOf
  split <;> simp only [PatEntry.pid] <;> omega

/-- every PID a PMT lists is a 13-bit PID -/
theorem pmt_pids_13bit (body : Bytes) : ∀ p ∈ (streamsOf body).map StreamInfo.pid, p < 8192 := by
  intro p hp
  obtain ⟨s, hs, rfl⟩ := List.mem_map.1 hp
  unfold streamsOf at hs
  obtain ⟨e, he, rfl⟩ := List.mem_map.1 hs
  have := (specStreams_props _ (specStreamBytes body) (Nat.lt_succ_self _)).2.2 e he
  have := this.2.2.1
  simp only [StreamEnc.info]
  omega

theorem patRequests_pids (es : List PatEntry) : (patRequests es).map (·.1) = es.map PatEntry.pid := by
  unfold patRequests; simp

theorem pmtRequests_pids (pmtPid pcr : Nat) (pd : Bytes) (ss : List StreamInfo) :
    (pmtRequests pmtPid pcr pd ss).map (·.1) = ss.map StreamInfo.pid := by
  unfold pmtRequests; simp

theorem patSection_tid0 (c : Ctx) (reg : List Nat) (data : Bytes) (h : 12 ≤ data.length)
    (ht : byteD data 0 = 0) :
    patSection c reg data = .ok (ctxAfter c (patRequests (specPat (sectionBody data))),
      (specPat (sectionBody data)).map PatEntry.pid, patChanges c reg (sectionBody data)) := by
  rw [patSection_eq c reg data h, if_neg (by simp [ht])]
  rfl

theorem pmtSection_tid2 (c : Ctx) (pmtPid : Nat) (reg : List Nat) (data : Bytes) (h : 12 ≤ data.length)
    (ha : specPmtAccept (sectionBody data)) (ht : byteD data 0 = 2) :
    pmtSection c pmtPid reg data = .ok (ctxAfter c (pmtRequests pmtPid (specPcrPid (sectionBody data))
        (specProgramDescBytes (sectionBody data)) (streamsOf (sectionBody data))),
      (streamsOf (sectionBody data)).map StreamInfo.pid, pmtChanges c pmtPid reg (sectionBody data)) := by
  rw [pmtSection_eq c pmtPid reg data h]
  unfold sectionBody at ha ⊢
  dsimp only
  rw [if_neg (not_not_intro ha), if_neg (by simp [ht])]
  rfl

/-- the PAT filter on a packet that completes exactly one section which passes the CRC layer -/
theorem consume_pat_one (s : Psi.St) (reg : List Nat) (c : Ctx) (pk : Pk) (s' : Psi.St) (d : Psi.Delivery)
    (hP : Psi.consume Psi.table s pk.bytes = .ok (s', [d]))
    (hcrc : Psi.crcPass c.cfg.bypassCrc d.bytes = .ok true)
    (ht : byteD d.bytes 0 = 0) :
    App.consume (.pat s reg) c pk = .ok (.pat s' ((specPat (sectionBody d.bytes)).map PatEntry.pid),
      ctxAfter c (patRequests (specPat (sectionBody d.bytes))), patChanges c reg (sectionBody d.bytes)) := by
  have hl := crcPass_true_len _ _ hcrc
  simp only [App.consume, hP, R.ok_bind]
  rw [runDeliveries_one patSection c reg d _ _ _ hcrc (patSection_tid0 c reg d.bytes hl ht)]
  rfl

/-- the PMT filter on a packet that completes exactly one section which passes the CRC layer -/
theorem consume_pmt_one (pid prog : Nat) (s : Psi.St) (reg : List Nat) (c : Ctx) (pk : Pk) (s' : Psi.St)
    (d : Psi.Delivery)
    (hP : Psi.consume Psi.table s pk.bytes = .ok (s', [d]))
    (hcrc : Psi.crcPass c.cfg.bypassCrc d.bytes = .ok true)
    (ha : specPmtAccept (sectionBody d.bytes)) (ht : byteD d.bytes 0 = 2) :
    App.consume (.pmt pid prog s reg) c pk = .ok (.pmt pid prog s' ((streamsOf (sectionBody d.bytes)).map StreamInfo.pid),
      ctxAfter c (pmtRequests pid (specPcrPid (sectionBody d.bytes)) (specProgramDescBytes (sectionBody d.bytes))
        (streamsOf (sectionBody d.bytes))), pmtChanges c pid reg (sectionBody d.bytes)) := by
  have hl := crcPass_true_len _ _ hcrc
  simp only [App.consume, hP, R.ok_bind]
  rw [runDeliveries_one (fun c r d => pmtSection c pid r d) c reg d _ _ _ hcrc
    (pmtSection_tid2 c pid reg d.bytes hl ha ht)]
  rfl

/-! ### packets that change no routing -/

/-- an elementary-stream handler queues nothing and stays the same instance (tag) -/
theorem consume_pes_shape (tag : Nat) (f : PesFilter.F) (c : Ctx) (pk : Pk) (h' : Handler) (c' : Ctx)
    (chg : List (Change Handler)) (h : App.consume (.pes tag f) c pk = .ok (h', c', chg)) :
    (∃ f', h' = .pes tag f') ∧ chg = [] := by
  simp only [App.consume] at h
  cases h1 : PesFilter.consume f pk.bytes with
  | panic s => rw [h1] at h; cases h
  | ok r =>
    obtain ⟨f', evs⟩ := r
    rw [h1] at h
    simp only [R.ok_bind] at h
    cases h2 : esEvents c.cfg.touch tag pk.bytes pk.off c evs with
    | panic s => rw [h2] at h; cases h
    | ok c2 =>
      rw [h2] at h
      simp only [R.ok_bind, R.pure_eq, R.ok.injEq, Prod.mk.injEq] at h
      exact ⟨⟨f', h.1.symm⟩, h.2.2.symm⟩

/-- a table filter on a packet that completes no section: only its reassembly state moves -/
theorem consume_pat_none (s : Psi.St) (reg : List Nat) (c : Ctx) (pk : Pk) (s' : Psi.St)
    (hP : Psi.consume Psi.table s pk.bytes = .ok (s', [])) :
    App.consume (.pat s reg) c pk = .ok (.pat s' reg, c, []) := by
  simp only [App.consume, hP, R.ok_bind, runDeliveries]
  rfl

theorem consume_pmt_none (pid prog : Nat) (s : Psi.St) (reg : List Nat) (c : Ctx) (pk : Pk) (s' : Psi.St)
    (hP : Psi.consume Psi.table s pk.bytes = .ok (s', [])) :
    App.consume (.pmt pid prog s reg) c pk = .ok (.pmt pid prog s' reg, c, []) := by
  simp only [App.consume, hP, R.ok_bind, runDeliveries]
  rfl

end Ts.Lemmas.C05
