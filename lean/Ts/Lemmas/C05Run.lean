import Ts.Model.App
/-!
# C05 / F7 — the concrete histories of `removal_counterexample`, evaluated by the kernel

The packets are the ones printed by `/verif/harness/target/release/harness gen probes quick 1`
(lines `F7 demux b0t0 …` = `f7Bytes`, `F7control demux b0t0 …` = `ctlBytes`; 0xff stuffing and the
0x55 probe payload written with `List.replicate`).  Every fact below is obtained by evaluating the
whole model (`App.runApp`: framing, dispatcher loops, section reassembly, CRC-32 through the
regenerated table, PAT/PMT parsing, the application) on these bytes with `decide +kernel`.
-/
namespace Ts.Lemmas.C05Run
open Ts Ts.App Ts.Demux

/-- PAT version 0: program 1 → PMT PID 0x100 -/
def patV0 : Bytes :=
  [0x47, 0x40, 0x00, 0x10, 0x00, 0x00, 0xb0, 0x0d, 0x00, 0x01, 0xc1, 0x00, 0x00, 0x00, 0x01, 0xe1, 0x00, 0xe8, 0xf9, 0x5e, 0x7d] ++ List.replicate 167 0xff

/-- PMT version 0 on PID 0x100: PCR PID 0x101, H.264 (0x1b) on 0x101, AAC (0x0f) on 0x102 -/
def pmtV0 : Bytes :=
  [0x47, 0x41, 0x00, 0x10, 0x00, 0x02, 0xb0, 0x17, 0x00, 0x01, 0xc1, 0x00, 0x00, 0xe1, 0x01, 0xf0, 0x00, 0x1b, 0xe1, 0x01, 0xf0, 0x00, 0x0f, 0xe1, 0x02, 0xf0, 0x00, 0x9e, 0x28, 0xc6, 0xdd] ++ List.replicate 157 0xff

/-- PAT version 1: program 1 → 0x100 (unchanged), program 2 → 0x110 (new) -/
def patV1 : Bytes :=
  [0x47, 0x40, 0x00, 0x11, 0x00, 0x00, 0xb0, 0x11, 0x00, 0x01, 0xc3, 0x00, 0x00, 0x00, 0x01, 0xe1, 0x00, 0x00, 0x02, 0xe1, 0x10, 0xf0, 0xeb, 0x33, 0x61] ++ List.replicate 163 0xff

/-- PMT version 1 on PID 0x100: only H.264 on 0x101 — PID 0x102 is dropped -/
def pmtV1 : Bytes :=
  [0x47, 0x41, 0x00, 0x11, 0x00, 0x02, 0xb0, 0x12, 0x00, 0x01, 0xc3, 0x00, 0x00, 0xe1, 0x01, 0xf0, 0x00, 0x1b, 0xe1, 0x01, 0xf0, 0x00, 0x40, 0x29, 0xfb, 0x17] ++ List.replicate 162 0xff

/-- a payload-only packet on PID 0x102 -/
def probe : Bytes :=
  [0x47, 0x01, 0x02, 0x10] ++ List.replicate 184 0x55

/-- F7 history -/
def f7Bytes : Bytes := patV0 ++ pmtV0 ++ patV1 ++ pmtV1 ++ probe
/-- control history: the same without the PAT version bump -/
def ctlBytes : Bytes := patV0 ++ pmtV0 ++ pmtV1 ++ probe

/-! ### observers with decidable equality -/

/-- the `construct` callbacks, oldest first -/
def constructs (c : Ctx) : List (Req × Nat) :=
  c.trace.reverse.filterMap fun e => match e with | .construct r t => some (r, t) | _ => none

/-- the packets seen by recorders, oldest first: (tag, byte offset) -/
def pkts (c : Ctx) : List (Nat × Nat) :=
  c.trace.reverse.filterMap fun e => match e with | .pkt t o => some (t, o) | _ => none

inductive Slot where
  | empty
  | pat (reg : List Nat)
  | pmt (pid prog : Nat) (reg : List Nat)
  | pes (tag : Nat)
  | recorder (tag : Nat)
  deriving DecidableEq, Repr

def slotOf : Option Handler → Slot
  | none => .empty
  | some (.pat _ reg) => .pat reg
  | some (.pmt pid prog _ reg) => .pmt pid prog reg
  | some (.pes t _) => .pes t
  | some (.recorder t) => .recorder t

structure Obs where
  constructs : List (Req × Nat)
  pkts : List (Nat × Nat)
  slot100 : Slot
  slot101 : Slot
  slot102 : Slot
  slot110 : Slot
  deriving DecidableEq, Repr

def observe : R (Tab Handler × Ctx) → Option Obs
  | .ok (t, c) => some ⟨constructs c, pkts c, slotOf (t.get 0x100), slotOf (t.get 0x101),
      slotOf (t.get 0x102), slotOf (t.get 0x110)⟩
  | .panic _ => none

/-- the `construct` callbacks up to and including PMT v0 (both histories) -/
def constructsV0 : List (Req × Nat) :=
  [(.byPid 0, 0), (.pmt 0x100 1, 1), (.stream 0x100 0x1b 0x101 0x101 [] [], 2),
   (.stream 0x100 0x0f 0x102 0x101 [] [], 3)]

/-! ### F7 -/

/-- after the four tables, BEFORE the probe packet: PMT v1 was applied by the PMT filter that PAT v1
built (tag 4, nothing registered), so no `remove 0x102` was queued: slot 0x102 still holds the PES
handler with tag 3 that PMT v0 installed -/
theorem f7_tables : observe (runApp {} [patV0 ++ pmtV0 ++ patV1 ++ pmtV1]) = some
    { constructs := constructsV0 ++ [(.pmt 0x100 1, 4), (.pmt 0x110 2, 5), (.stream 0x100 0x1b 0x101 0x101 [] [], 6)],
      pkts := [],
      slot100 := .pmt 0x100 1 [0x101], slot101 := .pes 6, slot102 := .pes 3, slot110 := .pmt 0x110 2 [] } := by
  decide +kernel

/-- … and the probe packet on 0x102 is consumed by that stale handler: no `construct` at all -/
theorem f7_run : observe (runApp {} [f7Bytes]) = some
    { constructs := constructsV0 ++ [(.pmt 0x100 1, 4), (.pmt 0x110 2, 5), (.stream 0x100 0x1b 0x101 0x101 [] [], 6)],
      pkts := [],
      slot100 := .pmt 0x100 1 [0x101], slot101 := .pes 6, slot102 := .pes 3, slot110 := .pmt 0x110 2 [] } := by
  decide +kernel

/-! ### control -/

/-- after the three tables: the PMT filter that applied v0 (registered {0x101, 0x102}) applies v1
and queues `remove 0x102`: the slot is empty -/
theorem ctl_tables : observe (runApp {} [patV0 ++ pmtV0 ++ pmtV1]) = some
    { constructs := constructsV0 ++ [(.stream 0x100 0x1b 0x101 0x101 [] [], 4)],
      pkts := [],
      slot100 := .pmt 0x100 1 [0x101], slot101 := .pes 4, slot102 := .empty, slot110 := .empty } := by
  decide +kernel

/-- … and the probe packet is offered to the application again (`ByPid 0x102`, tag 5) and recorded
by the new handler (packet at byte offset 564) -/
theorem ctl_run : observe (runApp {} [ctlBytes]) = some
    { constructs := constructsV0 ++ [(.stream 0x100 0x1b 0x101 0x101 [] [], 4), (.byPid 0x102, 5)],
      pkts := [(5, 564)],
      slot100 := .pmt 0x100 1 [0x101], slot101 := .pes 4, slot102 := .recorder 5, slot110 := .empty } := by
  decide +kernel

/-! ### reading the observations back as statements about the table and the trace -/

theorem observe_some (r : R (Tab Handler × Ctx)) (o : Obs) (h : observe r = some o) :
    ∃ t c, r = .ok (t, c) ∧ constructs c = o.constructs ∧ pkts c = o.pkts ∧
      slotOf (t.get 0x100) = o.slot100 ∧ slotOf (t.get 0x101) = o.slot101 ∧
      slotOf (t.get 0x102) = o.slot102 ∧ slotOf (t.get 0x110) = o.slot110 := by
  cases r with
  | panic s => cases h
  | ok tc =>
    obtain ⟨t, c⟩ := tc
    simp only [observe, Option.some.injEq] at h
    subst h
    exact ⟨t, c, rfl, rfl, rfl, rfl, rfl, rfl, rfl⟩

theorem mem_constructs (c : Ctx) (r : Req) (tag : Nat) :
    (r, tag) ∈ constructs c ↔ Ev.construct r tag ∈ c.trace := by
  unfold constructs
  rw [List.mem_filterMap]
  constructor
  · rintro ⟨e, he, hm⟩
    rw [List.mem_reverse] at he
    cases e <;> simp at hm
    obtain ⟨rfl, rfl⟩ := hm
    exact he
  · intro h
    exact ⟨_, List.mem_reverse.2 h, rfl⟩

theorem slot_pes (o : Option Handler) (tag : Nat) (h : slotOf o = .pes tag) : ∃ f, o = some (.pes tag f) := by
  cases o with
  | none => cases h
  | some hd =>
    cases hd <;> simp [slotOf] at h
    subst h
    exact ⟨_, rfl⟩

theorem slot_recorder (o : Option Handler) (tag : Nat) (h : slotOf o = .recorder tag) :
    o = some (.recorder tag) := by
  cases o with
  | none => cases h
  | some hd =>
    cases hd <;> simp [slotOf] at h
    subst h
    rfl

theorem slot_empty (o : Option Handler) (h : slotOf o = .empty) : o = none := by
  cases o with
  | none => rfl
  | some hd => cases hd <;> simp [slotOf] at h

theorem slot_pmt (o : Option Handler) (pid prog : Nat) (reg : List Nat) (h : slotOf o = .pmt pid prog reg) :
    ∃ s, o = some (.pmt pid prog s reg) := by
  cases o with
  | none => cases h
  | some hd =>
    cases hd <;> simp [slotOf] at h
    obtain ⟨rfl, rfl, rfl⟩ := h
    exact ⟨_, rfl⟩

end Ts.Lemmas.C05Run
