import Ts.Lemmas.C01b
import Ts.Props.C06
import Ts.Props.C07
/-!
# C01 helper lemmas, part 3: the application's `consume` is total; the dispatcher preserves the
table invariant; `push` / `runApp` are total
-/
namespace Ts.Lemmas.C01
open Ts Ts.Demux Ts.App

/-! ### the recorder's scripted changes -/

theorem scriptChanges_ok (ops : List ScriptOp) : ∀ (c : Ctx), ∀ ch ∈ (scriptChanges c ops).2, ChgOk ch := by
  induction ops with
  | nil => intro c ch h; simp [scriptChanges] at h
  | cons op ops ih =>
    intro c ch h
    cases op with
    | ins pid =>
      simp only [scriptChanges] at h
      rcases List.mem_cons.1 h with h | h
      · subst h; trivial
      · exact ih _ ch h
    | rem pid =>
      simp only [scriptChanges] at h
      rcases List.mem_cons.1 h with h | h
      · subst h; trivial
      · exact ih _ ch h

/-! ### `App.consume` -/

/-- every handler satisfying the invariant consumes every 188-byte packet without panicking; the
new handler state and every handler queued for insertion satisfy the invariant again -/
theorem consume_total (h : Handler) (c : Ctx) (pk : Pk) (hi : HInv h) (hp : pk.bytes.length = 188) :
    ∃ h' c' chg, App.consume h c pk = .ok (h', c', chg) ∧ HInv h' ∧ ∀ ch ∈ chg, ChgOk ch := by
  cases h with
  | pat s reg =>
    obtain ⟨s', ds, h1, i1, i2, _, hd⟩ := consume_table_total s hi.1 hi.2 pk.bytes hp
    obtain ⟨c', reg', chg, h2, hc⟩ := runDeliveries_total patSection
      (fun c reg data h12 => patSection_total c reg data h12) ds c reg
      (fun d hm => ⟨(hd d hm).1, (hd d hm).2.1⟩)
    refine ⟨.pat s' reg', c', chg, ?_, ⟨i1, i2⟩, hc⟩
    simp only [App.consume, h1, R.ok_bind, h2]
    rfl
  | pmt pid prog s reg =>
    obtain ⟨s', ds, h1, i1, i2, _, hd⟩ := consume_table_total s hi.1 hi.2 pk.bytes hp
    obtain ⟨c', reg', chg, h2, hc⟩ := runDeliveries_total (fun c r d => pmtSection c pid r d)
      (fun c reg data h12 => pmtSection_total c pid reg data h12) ds c reg
      (fun d hm => ⟨(hd d hm).1, (hd d hm).2.1⟩)
    refine ⟨.pmt pid prog s' reg', c', chg, ?_, ⟨i1, i2⟩, hc⟩
    simp only [App.consume, h1, R.ok_bind, h2]
    rfl
  | pes tag f =>
    obtain ⟨f', evs, h1⟩ := Props.C08.consume_total f pk.bytes hp
    obtain ⟨c', h2⟩ := esEvents_total c.cfg.touch tag pk.bytes pk.off evs c
      (fun o l hm => begin_len f f' pk.bytes evs hp h1 o l hm)
    refine ⟨.pes tag f', c', [], ?_, trivial, by simp⟩
    simp only [App.consume, h1, R.ok_bind, h2]
    rfl
  | recorder tag =>
    simp only [App.consume]
    cases htc : c.cfg.touch
    · simp only [Bool.false_eq_true, if_false, R.pure_eq]
      cases hl : c.cfg.script.lookup (pk.off / 188) with
      | none => exact ⟨_, _, _, rfl, trivial, by simp⟩
      | some ops => exact ⟨_, _, _, rfl, trivial, scriptChanges_ok ops (c.emit (.pkt tag pk.off))⟩
    · simp only [if_true, touchPacket_ok _ hp, R.pure_eq, R.ok_bind]
      cases hl : c.cfg.script.lookup (pk.off / 188) with
      | none => exact ⟨_, _, _, rfl, trivial, by simp⟩
      | some ops => exact ⟨_, _, _, rfl, trivial, scriptChanges_ok ops (c.emit (.pkt tag pk.off))⟩

/-- `ctx.construct(ByPid(pid))` is total and yields a handler satisfying the invariant -/
theorem sem_construct_total (c : Ctx) (pid : Nat) :
    ∃ h c', App.sem.construct c pid = .ok (h, c') ∧ HInv h :=
  ⟨_, _, rfl, construct_hinv c (.byPid pid)⟩

/-! ### the dispatcher, for any handler semantics with an invariant -/

section Generic
variable {H C : Type}

/-- every registered handler satisfies `I` -/
def TabInvG (I : H → Prop) (t : Tab H) : Prop := ∀ p h, t.get p = some h → I h

def ChgOkG (I : H → Prop) : Change H → Prop
  | .insert _ h => I h
  | .remove _ => True

theorem tabInvG_nil (I : H → Prop) : TabInvG I ([] : Tab H) := by
  intro p h hg
  rw [Tab.get_of_ge _ _ (Nat.zero_le _)] at hg
  cases hg

theorem tabInvG_insert (I : H → Prop) (t : Tab H) (p : Nat) (h : H) (ht : TabInvG I t) (hh : I h) :
    TabInvG I (t.insert p h) := by
  intro q h' hg
  rw [Tab.get_insert] at hg
  by_cases hq : q = p
  · rw [if_pos hq] at hg; cases hg; exact hh
  · rw [if_neg hq] at hg; exact ht q h' hg

theorem tabInvG_remove (I : H → Prop) (t : Tab H) (p : Nat) (ht : TabInvG I t) :
    TabInvG I (t.remove p) := by
  intro q h' hg
  rw [Tab.get_remove] at hg
  by_cases hq : q = p
  · rw [if_pos hq] at hg; cases hg
  · rw [if_neg hq] at hg; exact ht q h' hg

theorem tabInvG_applyChange (I : H → Prop) (t : Tab H) (ch : Change H) (ht : TabInvG I t)
    (hc : ChgOkG I ch) : TabInvG I (applyChange t ch) := by
  cases ch with
  | insert p h => exact tabInvG_insert I t p h ht hc
  | remove p => exact tabInvG_remove I t p ht

theorem tabInvG_applyChanges (I : H → Prop) (cs : List (Change H)) :
    ∀ (t : Tab H), TabInvG I t → (∀ ch ∈ cs, ChgOkG I ch) → TabInvG I (applyChanges t cs) := by
  induction cs with
  | nil => intro t ht _; exact ht
  | cons a cs ih =>
    intro t ht hc
    rw [applyChanges_cons]
    exact ih _ (tabInvG_applyChange I t a ht (hc a (List.mem_cons_self ..)))
      (fun ch hm => hc ch (List.mem_cons_of_mem _ hm))

theorem ensure_totalG (sem : Sem H C) (I : H → Prop)
    (hK : ∀ c pid, ∃ h c', sem.construct c pid = .ok (h, c') ∧ I h)
    (t : Tab H) (c : C) (pid : Nat) (ht : TabInvG I t) :
    ∃ t' c', ensure sem t c pid = .ok (t', c') ∧ TabInvG I t' := by
  by_cases hc : t.contains pid = true
  · exact ⟨t, c, ensure_of_contains sem t c pid hc, ht⟩
  · have hc' : t.contains pid = false := by simpa using hc
    obtain ⟨h, c', hk, hh⟩ := hK c pid
    refine ⟨t.insert pid h, c', ?_, tabInvG_insert I t pid h ht hh⟩
    rw [ensure_of_absent sem t c pid hc', hk]
    rfl

/-- one dispatcher step is total and keeps the table invariant -/
theorem specStep_totalG (sem : Sem H C) (I : H → Prop)
    (hK : ∀ c pid, ∃ h c', sem.construct c pid = .ok (h, c') ∧ I h)
    (hS : ∀ h c pk, I h → pk.bytes.length = 188 →
      ∃ h' c' chg, sem.consume h c pk = .ok (h', c', chg) ∧ I h' ∧ ∀ ch ∈ chg, ChgOkG I ch)
    (t : Tab H) (c : C) (pk : Pk) (ht : TabInvG I t) (hp : pk.bytes.length = 188) :
    ∃ t' c', specStep sem (t, c) pk = .ok (t', c') ∧ TabInvG I t' := by
  obtain ⟨t1, c1, hE, ht1⟩ := ensure_totalG sem I hK t c pk.pid ht
  rw [specStep_eq, hE]
  simp only [R.ok_bind]
  by_cases hf : pk.flagged = true
  · simp only [hf, if_true]
    exact ⟨t1, c1, rfl, ht1⟩
  · simp only [hf, Bool.false_eq_true, if_false]
    have hs := Props.C06.unwrap_never_panics sem t c pk.pid t1 c1 hE
    obtain ⟨h, hh⟩ := Option.isSome_iff_exists.1 hs
    obtain ⟨h', c', chg, hc, hi', hchg⟩ := hS h c1 pk (ht1 _ _ hh) hp
    simp only [hh, hc, R.ok_bind]
    exact ⟨_, _, rfl, tabInvG_applyChanges I chg _ (tabInvG_insert I t1 pk.pid h' ht1 hi') hchg⟩

theorem pushSpec_totalG (sem : Sem H C) (I : H → Prop)
    (hK : ∀ c pid, ∃ h c', sem.construct c pid = .ok (h, c') ∧ I h)
    (hS : ∀ h c pk, I h → pk.bytes.length = 188 →
      ∃ h' c' chg, sem.consume h c pk = .ok (h', c', chg) ∧ I h' ∧ ∀ ch ∈ chg, ChgOkG I ch)
    (pks : List Pk) : ∀ (t : Tab H) (c : C), TabInvG I t → (∀ pk ∈ pks, pk.bytes.length = 188) →
      ∃ t' c', pushSpec sem (t, c) pks = .ok (t', c') ∧ TabInvG I t' := by
  induction pks with
  | nil => intro t c ht _; exact ⟨t, c, rfl, ht⟩
  | cons pk rest ih =>
    intro t c ht hl
    obtain ⟨t1, c1, h1, ht1⟩ := specStep_totalG sem I hK hS t c pk ht (hl pk (List.mem_cons_self ..))
    obtain ⟨t2, c2, h2, ht2⟩ := ih t1 c1 ht1 (fun q hq => hl q (List.mem_cons_of_mem _ hq))
    refine ⟨t2, c2, ?_, ht2⟩
    rw [pushSpec_cons, h1]
    exact h2

/-- `Demultiplex::push` on EVERY byte string (any length; `chunks_exact` drops the remainder,
chunks with a bad sync byte are skipped) -/
theorem push_totalG (sem : Sem H C) (I : H → Prop)
    (hK : ∀ c pid, ∃ h c', sem.construct c pid = .ok (h, c') ∧ I h)
    (hS : ∀ h c pk, I h → pk.bytes.length = 188 →
      ∃ h' c' chg, sem.consume h c pk = .ok (h', c', chg) ∧ I h' ∧ ∀ ch ∈ chg, ChgOkG I ch)
    (t : Tab H) (c : C) (buf : Bytes) (base : Nat) (ht : TabInvG I t) :
    ∃ t' c', push sem (t, c) buf base = .ok (t', c') ∧ TabInvG I t' := by
  obtain ⟨pks, hf⟩ := Props.C07.frame_total buf base
  have hw := Props.C07.frame_packets_wellformed buf base pks hf
  obtain ⟨t', c', h1, ht'⟩ := pushSpec_totalG sem I hK hS pks t c ht (fun pk hm => (hw pk hm).1)
  refine ⟨t', c', ?_, ht'⟩
  unfold push
  rw [hf]
  simp only [R.ok_bind]
  rw [Props.C06.push_refines_spec]
  exact h1

theorem pushAll_totalG (sem : Sem H C) (I : H → Prop)
    (hK : ∀ c pid, ∃ h c', sem.construct c pid = .ok (h, c') ∧ I h)
    (hS : ∀ h c pk, I h → pk.bytes.length = 188 →
      ∃ h' c' chg, sem.consume h c pk = .ok (h', c', chg) ∧ I h' ∧ ∀ ch ∈ chg, ChgOkG I ch)
    (bufs : List Bytes) : ∀ (t : Tab H) (c : C) (base : Nat), TabInvG I t →
      ∃ t' c', pushAll sem (t, c) bufs base = .ok (t', c') ∧ TabInvG I t' := by
  induction bufs with
  | nil => intro t c base ht; exact ⟨t, c, rfl, ht⟩
  | cons b bs ih =>
    intro t c base ht
    obtain ⟨t1, c1, h1, ht1⟩ := push_totalG sem I hK hS t c b base ht
    obtain ⟨t2, c2, h2, ht2⟩ := ih t1 c1 (base + b.length) ht1
    refine ⟨t2, c2, ?_, ht2⟩
    unfold pushAll
    rw [h1]
    exact h2

end Generic

/-! ### the concrete application -/

theorem chgOk_iff (ch : Change Handler) : ChgOk ch ↔ ChgOkG HInv ch := by
  cases ch <;> exact Iff.rfl

theorem app_hS (h : Handler) (c : Ctx) (pk : Pk) (hi : HInv h) (hp : pk.bytes.length = 188) :
    ∃ h' c' chg, App.sem.consume h c pk = .ok (h', c', chg) ∧ HInv h' ∧ ∀ ch ∈ chg, ChgOkG HInv ch := by
  obtain ⟨h', c', chg, h1, h2, h3⟩ := consume_total h c pk hi hp
  exact ⟨h', c', chg, h1, h2, fun ch hm => (chgOk_iff ch).1 (h3 ch hm)⟩

/-- every registered handler satisfies the handler invariant -/
def TabInv (t : Tab Handler) : Prop := ∀ p h, t.get p = some h → HInv h

theorem tabInv_iff (t : Tab Handler) : TabInv t ↔ TabInvG HInv t := Iff.rfl

theorem init_inv (cfg : Cfg) : TabInvG HInv (App.init cfg).1 := by
  unfold App.init
  exact tabInvG_insert HInv [] 0 _ (tabInvG_nil HInv) (construct_hinv _ _)

end Ts.Lemmas.C01
