import Ts.Lemmas.C03
/-!
# C03 helper lemmas, part 2: `consumePayload` as a pure function; invariant; delivery shape
-/
namespace Ts.Lemmas.C03
open Ts Ts.Psi Ts.Spec Ts.Spec.SectionMux

/-! ### invariants depend on `buf` / `remaining` only -/

theorem psiInv_congr (kind : Kind) (s s' : St) (hb : s'.buf = s.buf) (hr : s'.remaining = s.remaining)
    (h : PsiInv kind s) : PsiInv kind s' := by
  intro n hn; rw [hr] at hn; rw [hb]; exact h n hn

theorem psiInvFull_congr (kind : Kind) (s s' : St) (hb : s'.buf = s.buf) (hr : s'.remaining = s.remaining)
    (h : PsiInvFull kind s) : PsiInvFull kind s' := by
  refine ⟨psiInv_congr kind s s' hb hr h.1, ?_⟩
  intro n hn; rw [hr] at hn; rw [hb]; exact h.2 n hn

theorem procReset_remaining (cfg : Cfg) (s : St) : (procReset cfg s).remaining = none := by
  unfold procReset dedupReset bufReset; split <;> rfl

/-! ### start: invariant and deliveries -/

/-- what an accepted, complete-in-packet start delivers -/
def DelivOk (d : Delivery) : Prop := d.bytes.length ≤ 1024 ∧ d.bytes.length = 3 + hdrLen d.bytes

theorem bufStartSpec_invFull (kind : Kind) (s : St) (data : Bytes) (off : Nat)
    (h1 : minHeader kind ≤ data.length) (h2 : hdrLen data ≤ 1021) :
    PsiInvFull kind (bufStartSpec s data off).1 := by
  unfold bufStartSpec
  by_cases hle : hdrLen data + 3 ≤ data.length
  · simp only [hle, if_true]; exact psiInvFull_of_none _ _ rfl
  · simp only [hle, if_false]
    refine ⟨?_, ?_⟩
    · intro n hn
      simp only [Option.some.injEq] at hn
      subst hn
      refine ⟨by omega, h1, ?_⟩
      show data.length + _ ≤ 1024
      omega
    · intro n hn
      simp only [Option.some.injEq] at hn
      subst hn
      show data.length + _ = 3 + hdrLen data
      omega

theorem bufStartSpec_deliveries (s : St) (data : Bytes) (off : Nat) (h2 : hdrLen data ≤ 1021) :
    (bufStartSpec s data off).2.length ≤ 1 ∧
    ∀ d ∈ (bufStartSpec s data off).2, d.inplace = some off ∧ DelivOk d := by
  unfold bufStartSpec
  by_cases hle : hdrLen data + 3 ≤ data.length
  · simp only [hle, if_true, List.length_singleton, Nat.le_refl, List.mem_singleton, true_and]
    intro d hd; subst hd
    simp only [DelivOk, List.length_take, Nat.min_eq_left hle, true_and]
    rw [hdrLen_take _ _ (by omega)]
    omega
  · simp [hle]

theorem startOk_iff (cfg : Cfg) (data : Bytes) :
    startOk cfg data = true ↔
      hdrSyn data = cfg.sectionSyntax ∧ minHeader (kindOf cfg) ≤ data.length ∧ hdrLen data ≤ 1021 := by
  unfold startOk; simp [and_assoc]

theorem startSpec_invFull (cfg : Cfg) (s : St) (data : Bytes) (off : Nat)
    (h : PsiInvFull (kindOf cfg) s) : PsiInvFull (kindOf cfg) (startSpec cfg s data off).1 := by
  unfold startSpec
  by_cases hok : startOk cfg data = true
  · obtain ⟨_, h1, h2⟩ := (startOk_iff cfg data).1 hok
    simp only [hok, if_true]
    unfold dedupStartSpec
    split
    · split
      · exact psiInvFull_congr _ s _ rfl rfl h
      · exact bufStartSpec_invFull _ _ data off h1 h2
    · exact bufStartSpec_invFull _ _ data off h1 h2
  · simp only [hok]
    exact psiInvFull_congr _ s _ rfl rfl h

theorem startSpec_inv (cfg : Cfg) (s : St) (data : Bytes) (off : Nat)
    (h : PsiInv (kindOf cfg) s) : PsiInv (kindOf cfg) (startSpec cfg s data off).1 := by
  unfold startSpec
  by_cases hok : startOk cfg data = true
  · obtain ⟨_, h1, h2⟩ := (startOk_iff cfg data).1 hok
    simp only [hok, if_true]
    unfold dedupStartSpec
    split
    · split
      · exact psiInv_congr _ s _ rfl rfl h
      · exact (bufStartSpec_invFull _ _ data off h1 h2).1
    · exact (bufStartSpec_invFull _ _ data off h1 h2).1
  · simp only [hok]
    exact psiInv_congr _ s _ rfl rfl h

theorem startSpec_deliveries (cfg : Cfg) (s : St) (data : Bytes) (off : Nat) :
    (startSpec cfg s data off).2.length ≤ 1 ∧
    ∀ d ∈ (startSpec cfg s data off).2, d.inplace = some off ∧ DelivOk d := by
  unfold startSpec
  by_cases hok : startOk cfg data = true
  · obtain ⟨_, h1, h2⟩ := (startOk_iff cfg data).1 hok
    simp only [hok, if_true]
    unfold dedupStartSpec
    split
    · split
      · simp
      · exact bufStartSpec_deliveries _ data off h2
    · exact bufStartSpec_deliveries _ data off h2
  · simp [hok]

/-! ### `consumePayload` as a pure function -/

def consumeSpec (cfg : Cfg) (s : St) (us : Bool) (pk : Bytes) (off : Nat) : St × List Delivery :=
  if us then
    if 0 < byteD pk 0 ∧ (pk.drop 1).length ≤ byteD pk 0 then (procReset cfg s, [])
    else
      let r1 := if 0 < byteD pk 0 then contSpec cfg s ((pk.drop 1).take (byteD pk 0)) else (s, [])
      let ns := (pk.drop 1).drop (byteD pk 0)
      if ns.length < 3 then (procReset cfg r1.1, r1.2)
      else
        let r2 := startSpec cfg r1.1 ns (off + 1 + byteD pk 0)
        (r2.1, r1.2 ++ r2.2)
  else contSpec cfg s pk

theorem consumePayload_eq (cfg : Cfg) (hc : CfgOk cfg) (s : St) (us : Bool) (pk : Bytes) (off : Nat)
    (hpk : 1 ≤ pk.length) (h : PsiInv (kindOf cfg) s) :
    consumePayload cfg s us pk off = .ok (consumeSpec cfg s us pk off) := by
  unfold consumePayload consumeSpec
  cases us
  · simp only [Bool.false_eq_true, if_false]
    exact procContinue_eq cfg s pk h
  · simp only [if_true, byteAt_ok pk 0 (by omega), sliceFrom_ok pk 1 hpk, R.ok_bind]
    by_cases hres : 0 < byteD pk 0 ∧ (pk.drop 1).length ≤ byteD pk 0
    · have : (decide (byteD pk 0 > 0) && decide (byteD pk 0 ≥ (pk.drop 1).length)) = true := by
        simp only [Bool.and_eq_true, decide_eq_true_eq]; exact hres
      simp only [if_true, hres, and_self]
      rfl
    · have : (decide (byteD pk 0 > 0) && decide (byteD pk 0 ≥ (pk.drop 1).length)) = false := by
        apply Bool.eq_false_iff.2
        intro hh
        simp only [Bool.and_eq_true, decide_eq_true_eq] at hh
        exact hres hh
      simp only [this, Bool.false_eq_true, if_false, hres]
      have hptr : byteD pk 0 ≤ (pk.drop 1).length := by
        by_cases h0 : 0 < byteD pk 0
        · have := fun h2 => hres ⟨h0, h2⟩
          omega
        · omega
      by_cases h0 : 0 < byteD pk 0
      · simp only [gt_iff_lt, h0, if_true, sliceTo_ok _ _ hptr, R.ok_bind, procContinue_eq cfg s _ h,
          sliceFrom_ok _ _ hptr]
        by_cases hns : ((pk.drop 1).drop (byteD pk 0)).length < 3
        · simp only [COMMON, hns, if_true]; rfl
        · have h3 : 3 ≤ ((pk.drop 1).drop (byteD pk 0)).length := by omega
          simp only [COMMON, hns, if_false, sliceTo_ok _ 3 h3, R.ok_bind, headerNew_eq _ h3,
            procStart_eq cfg hc]
          rfl
      · simp only [gt_iff_lt, h0, if_false, R.pure_eq, R.ok_bind, sliceFrom_ok _ _ hptr]
        by_cases hns : ((pk.drop 1).drop (byteD pk 0)).length < 3
        · simp only [COMMON, hns, if_true]
        · have h3 : 3 ≤ ((pk.drop 1).drop (byteD pk 0)).length := by omega
          simp only [COMMON, hns, if_false, sliceTo_ok _ 3 h3, R.ok_bind, headerNew_eq _ h3,
            procStart_eq cfg hc]

theorem consumeSpec_invFull (cfg : Cfg) (s : St) (us : Bool) (pk : Bytes) (off : Nat)
    (h : PsiInvFull (kindOf cfg) s) : PsiInvFull (kindOf cfg) (consumeSpec cfg s us pk off).1 := by
  unfold consumeSpec
  cases us
  · simp only [Bool.false_eq_true, if_false]
    exact contSpec_invFull cfg _ s pk h
  · simp only [if_true]
    split
    · exact psiInvFull_of_none _ _ (procReset_remaining cfg s)
    · have hr1 : PsiInvFull (kindOf cfg)
          (if 0 < byteD pk 0 then contSpec cfg s ((pk.drop 1).take (byteD pk 0)) else (s, [])).1 := by
        split
        · exact contSpec_invFull cfg _ s _ h
        · exact h
      split
      · exact psiInvFull_of_none _ _ (procReset_remaining cfg _)
      · exact startSpec_invFull cfg _ _ _ hr1

theorem consumeSpec_inv (cfg : Cfg) (s : St) (us : Bool) (pk : Bytes) (off : Nat)
    (h : PsiInv (kindOf cfg) s) : PsiInv (kindOf cfg) (consumeSpec cfg s us pk off).1 := by
  unfold consumeSpec
  cases us
  · simp only [Bool.false_eq_true, if_false]
    exact contSpec_inv cfg _ s pk h
  · simp only [if_true]
    split
    · exact psiInv_of_none _ _ (procReset_remaining cfg s)
    · have hr1 : PsiInv (kindOf cfg)
          (if 0 < byteD pk 0 then contSpec cfg s ((pk.drop 1).take (byteD pk 0)) else (s, [])).1 := by
        split
        · exact contSpec_inv cfg _ s _ h
        · exact h
      split
      · exact psiInv_of_none _ _ (procReset_remaining cfg _)
      · exact startSpec_inv cfg _ _ _ hr1

/-- at most two deliveries; with the full invariant every one has its announced length -/
theorem consumeSpec_deliveries (cfg : Cfg) (s : St) (us : Bool) (pk : Bytes) (off : Nat)
    (h : PsiInvFull (kindOf cfg) s) :
    (consumeSpec cfg s us pk off).2.length ≤ 2 ∧ ∀ d ∈ (consumeSpec cfg s us pk off).2, DelivOk d := by
  unfold consumeSpec
  cases us
  · simp only [Bool.false_eq_true, if_false]
    have := contSpec_deliveries cfg _ s pk h
    exact ⟨by omega, fun d hd => (this.2 d hd).2⟩
  · simp only [if_true]
    split
    · simp
    · have hr1 : (if 0 < byteD pk 0 then contSpec cfg s ((pk.drop 1).take (byteD pk 0)) else (s, [])).2.length ≤ 1
          ∧ ∀ d ∈ (if 0 < byteD pk 0 then contSpec cfg s ((pk.drop 1).take (byteD pk 0)) else (s, [])).2,
              DelivOk d := by
        split
        · have := contSpec_deliveries cfg _ s ((pk.drop 1).take (byteD pk 0)) h
          exact ⟨this.1, fun d hd => (this.2 d hd).2⟩
        · simp
      split
      · exact ⟨Nat.le_trans hr1.1 (by omega), hr1.2⟩
      · have hs := startSpec_deliveries cfg
          (if 0 < byteD pk 0 then contSpec cfg s ((pk.drop 1).take (byteD pk 0)) else (s, [])).1
          ((pk.drop 1).drop (byteD pk 0)) (off + 1 + byteD pk 0)
        refine ⟨?_, ?_⟩
        · simp only [List.length_append]; have := hr1.1; have := hs.1; omega
        · intro d hd
          rcases List.mem_append.1 hd with hd | hd
          · exact hr1.2 d hd
          · exact (hs.2 d hd).2

/-- with the plain invariant: at most two deliveries, each of at most 1024 bytes -/
theorem consumeSpec_deliveries_weak (cfg : Cfg) (s : St) (us : Bool) (pk : Bytes) (off : Nat)
    (h : PsiInv (kindOf cfg) s) :
    (consumeSpec cfg s us pk off).2.length ≤ 2 ∧
      ∀ d ∈ (consumeSpec cfg s us pk off).2, d.bytes.length ≤ 1024 := by
  unfold consumeSpec
  cases us
  · simp only [Bool.false_eq_true, if_false]
    have := contSpec_deliveries_weak cfg _ s pk h
    exact ⟨by omega, fun d hd => (this.2 d hd).2⟩
  · simp only [if_true]
    split
    · simp
    · have hr1 : (if 0 < byteD pk 0 then contSpec cfg s ((pk.drop 1).take (byteD pk 0)) else (s, [])).2.length ≤ 1
          ∧ ∀ d ∈ (if 0 < byteD pk 0 then contSpec cfg s ((pk.drop 1).take (byteD pk 0)) else (s, [])).2,
              d.bytes.length ≤ 1024 := by
        split
        · have := contSpec_deliveries_weak cfg _ s ((pk.drop 1).take (byteD pk 0)) h
          exact ⟨this.1, fun d hd => (this.2 d hd).2⟩
        · simp
      split
      · exact ⟨Nat.le_trans hr1.1 (by omega), hr1.2⟩
      · have hs := startSpec_deliveries cfg
          (if 0 < byteD pk 0 then contSpec cfg s ((pk.drop 1).take (byteD pk 0)) else (s, [])).1
          ((pk.drop 1).drop (byteD pk 0)) (off + 1 + byteD pk 0)
        refine ⟨?_, ?_⟩
        · simp only [List.length_append]; have := hr1.1; have := hs.1; omega
        · intro d hd
          rcases List.mem_append.1 hd with hd | hd
          · exact hr1.2 d hd
          · exact (hs.2 d hd).2.1

end Ts.Lemmas.C03
